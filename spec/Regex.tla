------------------------------- MODULE Regex -------------------------------
(***************************************************************************)
(* Definitional semantics of XSD / XPath regular expressions (property     *)
(* C12) over a small alphabet of REPRESENTATIVE characters.  No variables: *)
(* this module is the "what the standard says" part that RegexClass,       *)
(* RegexAst, RegexFns and RegexSyntax build their state machines on.       *)
(*                                                                         *)
(* Characters are the integers 1..9, numbered in CODE POINT ORDER so that  *)
(* a character range lo-hi is the integer interval:                        *)
(*   1 = U+000A newline      (Cc)      6 = '_'   (Pc)                      *)
(*   2 = ' '                 (Zs)      7 = 'a'   (Ll)                      *)
(*   3 = '-'                 (Pd)      8 = 'b'   (Ll)                      *)
(*   4 = '5'                 (Nd)      9 = U+1F600, an astral char (So)    *)
(*   5 = 'A'                 (Lu)                                          *)
(* Each multi-character escape is the SET of alphabet members it contains  *)
(* (XSD 1.0/1.1 Part 2, "Multi-character escapes" and "Category escapes"): *)
(*   \d = \p{Nd}   \s = [#x20\t\n\r]   \w = [^\p{P}\p{Z}\p{C}]             *)
(*   \i = initial name characters, \c = name characters; in XSD 1.1 these  *)
(*        are NameStartChar / NameChar, which contain [#x10000-#xEFFFF],   *)
(*        in XSD 1.0 Letter|'_'|':' of XML 1.0 2e, which does not.         *)
(*   \D \S \W \I \C \P{..} = complements.                                  *)
(* A character class expression is plain set algebra:                      *)
(*   [items]        = union of the items                                   *)
(*   [^items]       = Sigma \ union of the items                           *)
(*   [G-[sub]]      = G \ sub       (G positive or negative group)         *)
(*                                                                         *)
(* Matching is POSITIONAL: M(r,s,i,j) says that r matches the substring of *)
(* s between positions i and j (0 <= i <= j <= Len(s)), in the context of  *)
(* the whole subject (needed for ^ and $).  A second, independent          *)
(* definition by Brzozowski derivatives is given for the anchor-free       *)
(* fragment; the state machines check that both agree.                     *)
(*                                                                         *)
(* OUTSIDE (not specified here, excluded from the vectors):                *)
(*   - which substring is matched (greedy vs lazy extents, which of        *)
(*     several alternatives): only membership and leftmost START;          *)
(*   - Unicode category membership beyond the nine characters;             *)
(*   - case-insensitive matching beyond the ASCII pair a/A, and the effect *)
(*     of flag i on multi-character / category escapes INSIDE a class and  *)
(*     on ranges (a range such as [5-_] contains 'B', the case partner of  *)
(*     b, which is no alphabet member: the set abstraction is not exact);  *)
(*   - position rules of an unescaped '-' inside a class in XSD 1.1.       *)
(***************************************************************************)
EXTENDS Naturals, Sequences, FiniteSets

CONSTANTS XsdVersion,   \* "1.0" | "1.1"
          Flag          \* "" | "s" | "m" | "i" | "x"   (one flag at a time; x is a rendering matter)

NL == 1  SP == 2  HY == 3  D5 == 4  UA == 5  US == 6  LA == 7  LB == 8  AS == 9
Sigma == 1..9
INF == 99            \* upper bound "unbounded" of a quantifier {n,}

Minor == <<"Cc", "Zs", "Pd", "Nd", "Lu", "Pc", "Ll", "Ll", "So">>
Major == <<"C", "Z", "P", "N", "L", "P", "L", "L", "S">>
CatSet(name) == {c \in Sigma : Minor[c] = name \/ Major[c] = name}
CatNames == {"C", "Cc", "Z", "Zs", "P", "Pd", "Pc", "N", "Nd", "L", "Lu", "Ll", "S", "So"}

NameStart == {UA, US, LA, LB} \cup (IF XsdVersion = "1.1" THEN {AS} ELSE {})
NameChars == NameStart \cup {HY, D5}

(* e: one of d D s S w W i I c C p P ; cat: category name for p / P, "" otherwise *)
EscSet(e, cat) ==
  CASE e = "d" -> CatSet("Nd")
    [] e = "D" -> Sigma \ CatSet("Nd")
    [] e = "s" -> {NL, SP}
    [] e = "S" -> Sigma \ {NL, SP}
    [] e = "w" -> Sigma \ (CatSet("P") \cup CatSet("Z") \cup CatSet("C"))
    [] e = "W" -> CatSet("P") \cup CatSet("Z") \cup CatSet("C")
    [] e = "i" -> NameStart
    [] e = "I" -> Sigma \ NameStart
    [] e = "c" -> NameChars
    [] e = "C" -> Sigma \ NameChars
    [] e = "p" -> IF cat = "IsNoSuchBlock" THEN Sigma ELSE CatSet(cat)
    [] e = "P" -> Sigma \ CatSet(cat)

(* \p{IsX} with a block name X that is not known: an error in XSD 1.0, matches every character in XSD 1.1
   (XSD 1.1 Part 2 G.4.2.3: unrecognised block names are not an error) *)
RECURSIVE ValidIn(_)
ValidIn(r) == CASE r.t = "esc" -> ~(r.cat = "IsNoSuchBlock" /\ XsdVersion = "1.0")
                [] r.t \in {"cat", "alt"} -> ValidIn(r.l) /\ ValidIn(r.r)
                [] r.t \in {"star", "plus", "opt", "rep", "grp", "dup"} -> ValidIn(r.r)
                [] OTHER -> TRUE

Lower(e) == CASE e = "D" -> "d" [] e = "S" -> "s" [] e = "W" -> "w" [] e = "I" -> "i"
              [] e = "C" -> "c" [] e = "P" -> "p" [] OTHER -> e

(* ---- case-insensitive mode: the only case pair of the alphabet is a/A ---- *)
Fold(c) == IF c = UA THEN LA ELSE c
(* Flag is a string of flag letters ("" "i" "is" "imsx" "si" "ii" ...): each letter acts on its own, the
   order and repetitions are irrelevant (F&O 5.6.2), so the meaning of a combination is the composition *)
FlagLetters == CASE Flag = "" -> {} [] Flag = "i" -> {"i"} [] Flag = "s" -> {"s"} [] Flag = "m" -> {"m"} [] Flag = "x" -> {"x"}
                 [] Flag = "is" -> {"i", "s"} [] Flag = "si" -> {"i", "s"} [] Flag = "im" -> {"i", "m"}
                 [] Flag = "ix" -> {"i", "x"} [] Flag = "sx" -> {"s", "x"} [] Flag = "ii" -> {"i"}
                 [] Flag = "ims" -> {"i", "m", "s"} [] Flag = "imsx" -> {"i", "m", "s", "x"} [] Flag = "sm" -> {"s", "m"}
On(f) == f \in FlagLetters
CharEq(c, d) == c = d \/ (On("i") /\ Fold(c) = Fold(d))

(* ---- AST constructors (tagged records) ---------------------------------- *)
Chr(c)       == [t |-> "chr", c |-> c]
AnyC         == [t |-> "any"]
Esc(e, cat)  == [t |-> "esc", e |-> e, cat |-> cat]
Eps          == [t |-> "eps"]
Empty        == [t |-> "empty"]
Bol          == [t |-> "bol"]
Eol          == [t |-> "eol"]
Cat(l, r)    == [t |-> "cat", l |-> l, r |-> r]
Alt(l, r)    == [t |-> "alt", l |-> l, r |-> r]
Star(r, lz)  == [t |-> "star", r |-> r, lazy |-> lz]
Plus(r, lz)  == [t |-> "plus", r |-> r, lazy |-> lz]
Opt(r, lz)   == [t |-> "opt", r |-> r, lazy |-> lz]
Rep(r, n, m) == [t |-> "rep", r |-> r, n |-> n, m |-> m, lazy |-> FALSE]   \* {n,m}; m = INF for {n,}; n = m for {n}
Grp(r)       == [t |-> "grp", r |-> r]                       \* ( r )
Dup(r)       == [t |-> "dup", r |-> r]                       \* ( r ) \k  -- a group followed by a back-reference to it
(* RefD(g, digs):  g capturing groups followed by a back-reference written as a RUN OF DIGITS
     ( a ) ( b? ) ( ) ... ( ) ( b? ) \ d1 d2 .. dn
   group 1 is (a), group 2 (if g >= 2) is (b?), group g (if g >= 3) is (b?), the groups between are empty ().
   F&O 5.6.1: the group number is the LONGEST prefix of the digits that is the number of a group opened to
   the left (\1 .. \g here); the remaining digits are ordinary characters.  Of the digits only 5 is an
   alphabet member, so a left-over digit other than 5 matches no subject character. *)
RefD(g, digs) == [t |-> "refd", g |-> g, digs |-> digs]
(* class items *)
IChr(c)      == [k |-> "c", c |-> c]
IRng(lo, hi) == [k |-> "r", lo |-> lo, hi |-> hi]
IEsc(e, cat) == [k |-> "e", e |-> e, cat |-> cat]
(* a range lo-\X whose END point is a metacharacter X that is no alphabet member and is written as a
   single-character escape; hi = the greatest alphabet member below X:  5-\^ (^ = #x5E lies between A and _)
   contains 5 and A,  a-\} (} = #x7D lies above b) contains a and b *)
IRngX(lo, hi, x) == [k |-> "rx", lo |-> lo, hi |-> hi, x |-> x]
Cls(items, neg, sub) == [t |-> "cls", items |-> items, neg |-> neg, sub |-> sub]   \* sub = <<>> or <<class>>

(* ---- character class algebra ------------------------------------------- *)
ItemSet(it) == CASE it.k = "c" -> {it.c}
                 [] it.k \in {"r", "rx"} -> {x \in Sigma : it.lo <= x /\ x <= it.hi}
                 [] it.k = "e" -> EscSet(it.e, it.cat)
BaseSet(items) == UNION {ItemSet(items[n]) : n \in 1..Len(items)}

RECURSIVE ClassSet(_)
ClassSet(cl) ==
  LET b == BaseSet(cl.items)
      p == IF cl.neg THEN Sigma \ b ELSE b
  IN IF cl.sub = <<>> THEN p ELSE p \ ClassSet(cl.sub[1])

(* flag i (F&O 5.6.2 flags): a character matches a normal character or a range of the pattern if
   a case variant of it does; consequently [^Q] matches every character except Q and q.
   Escapes are not affected. *)
ItemHitI(c, it) == IF it.k = "e" THEN c \in ItemSet(it) ELSE \E d \in ItemSet(it) : Fold(c) = Fold(d)
RECURSIVE ClsMatchI(_, _)
ClsMatchI(c, cl) ==
  LET hit == \E n \in 1..Len(cl.items) : ItemHitI(c, cl.items[n])
      p   == IF cl.neg THEN ~hit ELSE hit
  IN IF cl.sub = <<>> THEN p ELSE p /\ ~ClsMatchI(c, cl.sub[1])
ClsMatch(c, cl) == IF On("i") THEN ClsMatchI(c, cl) ELSE c \in ClassSet(cl)

(* one-character atoms *)
IsCharAtom(r) == r.t \in {"chr", "any", "esc", "cls"}
AtomMatch(r, c) ==
  CASE r.t = "chr" -> CharEq(c, r.c)
    [] r.t = "any" -> (On("s") \/ c # NL)          \* '.' = [^\n\r]; with flag s every character
    [] r.t = "esc" -> c \in EscSet(r.e, r.cat)        \* not affected by flag i
    [] r.t = "cls" -> ClsMatch(c, r)

(* ---- positional matching ------------------------------------------------ *)
(* ^ : start of the string; with flag m also after a newline that is not the last character
   $ : end of the string;   with flag m also before a newline              (F&O 3.1, 5.6.2) *)
AtBol(s, i) == i = 0 \/ (On("m") /\ i < Len(s) /\ s[i] = NL)
AtEol(s, i) == i = Len(s) \/ (On("m") /\ s[i + 1] = NL)

(* ---- back-reference followed by digits ---- *)
RECURSIVE DVal(_, _)
DVal(digs, k) == IF k = 0 THEN 0 ELSE 10 * DVal(digs, k - 1) + digs[k]       \* value of the first k digits
RefLen(g, digs) == CHOOSE k \in 1..Len(digs) :                                \* length of the group number
                      /\ DVal(digs, k) >= 1 /\ DVal(digs, k) <= g
                      /\ \A k2 \in (k + 1)..Len(digs) : DVal(digs, k2) > g
RefValid(g, digs) == digs # <<>> /\ digs[1] >= 1 /\ digs[1] <= g
RefdM(r, s, i, j) ==
  \E e2 \in 0..(IF r.g >= 2 THEN 1 ELSE 0) : \E e3 \in 0..(IF r.g >= 3 THEN 1 ELSE 0) :
     LET p1 == i + 1                    \* end of group 1
         p2 == p1 + e2                  \* end of group 2
         p3 == p2 + e3                  \* end of group g
         n  == RefLen(r.g, r.digs)
         k  == DVal(r.digs, n)
         cs == IF k = 1 THEN i ELSE IF k = 2 THEN p1 ELSE p2                   \* captured span of group k
         ce == IF k = 1 THEN p1 ELSE IF k = 2 THEN p2 ELSE IF k = r.g THEN p3 ELSE p2
         q  == p3 + (ce - cs)           \* end of the copy
         rest == Len(r.digs) - n        \* left-over literal digits
     IN /\ q + rest = j
        /\ CharEq(s[p1], LA)
        /\ (e2 = 1 => CharEq(s[p2], LB)) /\ (e3 = 1 => CharEq(s[p3], LB))
        /\ \A d \in 1..(ce - cs) : CharEq(s[cs + d], s[p3 + d])
        /\ \A d \in 1..rest : r.digs[n + d] = 5 /\ s[q + d] = D5

RECURSIVE M(_, _, _, _), RepM(_, _, _, _, _, _)
M(r, s, i, j) ==
  CASE IsCharAtom(r) -> j = i + 1 /\ AtomMatch(r, s[j])
    [] r.t = "eps"   -> i = j
    [] r.t = "empty" -> FALSE
    [] r.t = "bol"   -> i = j /\ AtBol(s, i)
    [] r.t = "eol"   -> i = j /\ AtEol(s, i)
    [] r.t = "cat"   -> \E k \in i..j : M(r.l, s, i, k) /\ M(r.r, s, k, j)
    [] r.t = "alt"   -> M(r.l, s, i, j) \/ M(r.r, s, i, j)
    [] r.t = "star"  -> i = j \/ \E k \in (i + 1)..j : M(r.r, s, i, k) /\ M(r, s, k, j)
    [] r.t = "plus"  -> \E k \in i..j : M(r.r, s, i, k) /\ M(Star(r.r, FALSE), s, k, j)
    [] r.t = "opt"   -> i = j \/ M(r.r, s, i, j)
    [] r.t = "rep"   -> RepM(r.r, r.n, r.m, s, i, j)
    [] r.t = "grp"   -> M(r.r, s, i, j)
    [] r.t = "refd"  -> RefdM(r, s, i, j)
    [] r.t = "dup"   -> \E k \in i..j : /\ M(r.r, s, i, k)
                                        /\ j - k = k - i
                                        /\ \A d \in 1..(k - i) : CharEq(s[i + d], s[k + d])
RepM(x, n, m, s, i, j) ==
  IF m = 0 THEN i = j
  ELSE IF n = 0 /\ m = INF THEN M(Star(x, FALSE), s, i, j)
  ELSE (n = 0 /\ i = j)
       \/ \E k \in i..j : M(x, s, i, k) /\ RepM(x, IF n = 0 THEN 0 ELSE n - 1, IF m = INF THEN INF ELSE m - 1, s, k, j)

FullMatch(r, s) == M(r, s, 0, Len(s))
Search(r, s)    == \E i \in 0..Len(s) : \E j \in i..Len(s) : M(r, s, i, j)
Spans(r, s)     == {<<i, j>> \in (0..Len(s)) \X (0..Len(s)) : i <= j /\ M(r, s, i, j)}

RECURSIVE HasAnchor(_), HasDup(_), Depth(_)
HasAnchor(r) == CASE r.t \in {"bol", "eol"} -> TRUE
                  [] r.t \in {"cat", "alt"} -> HasAnchor(r.l) \/ HasAnchor(r.r)
                  [] r.t \in {"star", "plus", "opt", "rep", "grp", "dup"} -> HasAnchor(r.r)
                  [] OTHER -> FALSE
HasDup(r) == CASE r.t \in {"dup", "refd"} -> TRUE
               [] r.t \in {"cat", "alt"} -> HasDup(r.l) \/ HasDup(r.r)
               [] r.t \in {"star", "plus", "opt", "rep", "grp"} -> HasDup(r.r)
               [] OTHER -> FALSE
Max(a, b) == IF a > b THEN a ELSE b
Depth(r) == CASE r.t \in {"cat", "alt"} -> 1 + Max(Depth(r.l), Depth(r.r))
              [] r.t \in {"star", "plus", "opt", "rep", "grp", "dup"} -> 1 + Depth(r.r)
              [] OTHER -> 0

(* ---- second definition: Brzozowski derivatives (no anchors, no back-references) ---- *)
RECURSIVE Nullable(_), Der(_, _), DerMatch(_, _, _)
Nullable(r) ==
  CASE r.t \in {"eps", "star", "opt"} -> TRUE
    [] r.t = "cat"  -> Nullable(r.l) /\ Nullable(r.r)
    [] r.t = "alt"  -> Nullable(r.l) \/ Nullable(r.r)
    [] r.t \in {"plus", "grp"} -> Nullable(r.r)
    [] r.t = "rep"  -> r.n = 0 \/ Nullable(r.r)
    [] OTHER -> FALSE
Der(r, c) ==
  CASE IsCharAtom(r) -> IF AtomMatch(r, c) THEN Eps ELSE Empty
    [] r.t \in {"eps", "empty"} -> Empty
    [] r.t = "cat"  -> IF Nullable(r.l) THEN Alt(Cat(Der(r.l, c), r.r), Der(r.r, c))
                                        ELSE Cat(Der(r.l, c), r.r)
    [] r.t = "alt"  -> Alt(Der(r.l, c), Der(r.r, c))
    [] r.t = "star" -> Cat(Der(r.r, c), r)
    [] r.t = "plus" -> Cat(Der(r.r, c), Star(r.r, FALSE))
    [] r.t \in {"opt", "grp"} -> Der(r.r, c)
    [] r.t = "rep"  -> IF r.m = 0 THEN Empty
                       ELSE Cat(Der(r.r, c), Rep(r.r, IF r.n = 0 THEN 0 ELSE r.n - 1,
                                                      IF r.m = INF THEN INF ELSE r.m - 1))
DerMatch(r, s, k) == IF k > Len(s) THEN Nullable(r) ELSE DerMatch(Der(r, s[k]), s, k + 1)

(* ---- expansion of derived operators into the core (used by the laws) ---- *)
RECURSIVE Power(_, _), Opts(_, _)
Power(x, n) == IF n = 0 THEN Eps ELSE Cat(x, Power(x, n - 1))
Opts(x, n)  == IF n = 0 THEN Eps ELSE Opt(Cat(x, Opts(x, n - 1)), FALSE)
Expand(r) ==
  CASE r.t = "star" -> Alt(Eps, Cat(r.r, r))
    [] r.t = "plus" -> Cat(r.r, Star(r.r, FALSE))
    [] r.t = "opt"  -> Alt(Eps, r.r)
    [] r.t = "rep"  -> Cat(Power(r.r, r.n), IF r.m = INF THEN Star(r.r, FALSE) ELSE Opts(r.r, r.m - r.n))
    [] r.t = "alt"  -> Alt(r.r, r.l)
    [] r.t = "grp"  -> r.r
    [] OTHER -> r
=============================================================================
