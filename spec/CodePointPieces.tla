--------------------------- MODULE CodePointPieces ---------------------------
(***************************************************************************)
(* Property C13 -- pure definitions shared by CodePointSet (the abstract   *)
(* machine) and CodePointSetImpl (the transcription of the interval-list   *)
(* algorithms): pieces, the set a piece list denotes, the canonical        *)
(* representation of a set.                                                *)
(*                                                                         *)
(* Abstract points 0..M-1; boundaries 0..M.  A piece is <<c>> (one code    *)
(* point, a Python int) or <<lo, hi>> (half-open range, a Python tuple).   *)
(* Points in `Wide` stand for a block of more than one real code point     *)
(* (see CodePointSet); a run consisting of one Wide point is a range.      *)
(***************************************************************************)
EXTENDS Integers, Sequences, FiniteSets, SequencesExt

CONSTANTS M,        \* number of abstract points
          Wide      \* points standing for a block of > 1 real code points

Universe == 0..(M - 1)
Narrow   == Universe \ Wide
Span(a, b) == a..(b - 1)
RangeArgs == {ab \in (0..M) \X (0..M) : ab[1] < ab[2]}

(* ---- pieces: <<c>> a single code point, <<lo, hi>> a half-open range -- *)
Lo(p) == p[1]
Hi(p) == IF Len(p) = 1 THEN p[1] + 1 ELSE p[2]
PieceSet(p) == Span(Lo(p), Hi(p))
Denotes(l) == UNION {PieceSet(l[i]) : i \in 1..Len(l)}
PieceArgs == {<<c>> : c \in Narrow} \cup RangeArgs

(* ---- the canonical representation ------------------------------------- *)
RunStarts(X) == {a \in X : (a - 1) \notin X}
RunEnd(X, a) == CHOOSE b \in (a + 1)..M : (\A x \in a..(b - 1) : x \in X) /\ b \notin X
OnePoint(a, b) == b = a + 1 /\ a \notin Wide          \* exactly one real code point
RunPiece(a, b) == IF OnePoint(a, b) THEN <<a>> ELSE <<a, b>>
Canon(X) == LET st == SetToSortSeq(RunStarts(X), <) IN
            [i \in 1..Len(st) |-> RunPiece(st[i], RunEnd(X, st[i]))]

IsCanonical(l) ==
   /\ \A i \in 1..Len(l) : /\ Len(l[i]) \in {1, 2}
                           /\ 0 <= Lo(l[i]) /\ Lo(l[i]) < Hi(l[i]) /\ Hi(l[i]) <= M
                           /\ (Len(l[i]) = 1) = OnePoint(Lo(l[i]), Hi(l[i]))
   /\ \A i \in 1..(Len(l) - 1) : Hi(l[i]) < Lo(l[i + 1])   \* sorted, disjoint, NOT adjacent

Compl(X) == Universe \ X
Xor(X, Y) == (X \ Y) \cup (Y \ X)
=============================================================================
