--------------------------- MODULE TraceTreeBuild ---------------------------
(***************************************************************************)
(* Binding B of property C02: code -> specification.                       *)
(*                                                                         *)
(* The harness builds LARGER real trees (10-60 items, beyond the exhaustive *)
(* bound) with xml.etree / lxml, calls get_node_tree and records, in the   *)
(* order of root.iter(), one event [kind, position, parent position] per   *)
(* XPath node (namespace nodes of one element sorted by position: their    *)
(* relative order is implementation-dependent).  The JSON file named by    *)
(* the environment variable C02_TRACES holds, per trace, the abstract      *)
(* input (1:1 projection of the etree objects) and the recorded events.    *)
(*                                                                         *)
(* TLC runs the TreeBuild step machine on every recorded input and judges  *)
(*   exact  the events are exactly the behaviour of the step machine       *)
(*          (every position as computed by the transcribed algorithm)      *)
(*   order  the events are a faithful, strictly document-ordered image of  *)
(*          the input by the DEFINITION (XTree!DefSeq): same kinds in      *)
(*          document order, positions strictly increasing, parent          *)
(*          positions = position of the definitional parent                *)
(* and prints one verdict line per trace.  The refinement invariants of    *)
(* TreeBuild are checked on these larger inputs as well.                   *)
(***************************************************************************)
EXTENDS TreeBuild, Json, IOUtils

VARIABLES tid
tvars == <<vars, tid>>

Traces == JsonDeserialize(IOEnv.C02_TRACES)

ToSetOf(s) == {s[j] : j \in 1..Len(s)}

TInit ==
  /\ tid \in 1..Len(Traces)
  /\ LET T == Traces[tid] IN
     /\ variant = T.cfg.variant /\ rootarg = T.cfg.rootarg /\ fragment = T.cfg.fragment
     /\ nsarg = ToSetOf(T.cfg.nsarg)
     /\ n = T.tree.n
     /\ par = T.tree.par /\ knd = T.tree.knd /\ txt = T.tree.txt /\ tl = T.tree.tl /\ nat = T.tree.nat
     /\ etx = T.tree.etx /\ etl = T.tree.etl
     /\ decl = [i \in 1..T.tree.n |-> ToSetOf(T.tree.decl[i])]
     /\ pre = T.tree.pre /\ post = T.tree.post
  /\ pc = "start" /\ position = 0 /\ nodes = <<>> /\ docidx = 0 /\ rootidx = 0 /\ retidx = 0
  /\ sibk = 0 /\ cur = [of |-> 0, nxt |-> 0] /\ iters = <<>> /\ parent = 0 /\ ancs = <<>>
  /\ elem = 0 /\ child = 0

(* kinds as the code shows them: text and tail are both text nodes, a document-level
   comment is a comment *)
EvKind(k) == CASE k \in {"t", "l"} -> "t" [] k = "sc" -> "c" [] k = "sp" -> "p" [] OTHER -> k

MachineEvents ==
  LET F == FullIter IN
  [j \in 1..Len(F) |-> <<EvKind(F[j].k), F[j].pos, IF F[j].par = 0 THEN 0 - 1 ELSE nodes[F[j].par].pos>>]

FirstDiff(a, b) ==    \* 0 = equal, else the first index where the sequences differ
  IF a = b THEN 0
  ELSE LET m == IF Len(a) < Len(b) THEN Len(a) ELSE Len(b)
           ds == {j \in 1..m : a[j] # b[j]}
       IN IF ds = {} THEN m + 1 ELSE CHOOSE j \in ds : \A i \in ds : j <= i

OrderOK(ev) ==
  LET S == DefSeq IN
  /\ Len(ev) = Len(S)
  /\ \A j \in 1..Len(S) : ev[j][1] = EvKind(S[j].k)
  /\ \A j \in 1..(Len(S) - 1) : ev[j][2] < ev[j + 1][2]
  /\ \A j \in 1..Len(S) : LET p == DefParent(S[j]) IN
                          IF p = NoneD THEN ev[j][3] = 0 - 1 ELSE ev[j][3] = ev[RankIn(S, p)][2]

TReport ==
  /\ pc = "ret"
  /\ LET ev == Traces[tid].events
         me == MachineEvents
     IN PrintT(ToString(<<"c02t", Traces[tid].id, me = ev, OrderOK(ev), FirstDiff(me, ev), Len(ev)>>))
  /\ pc' = "done"
  /\ UNCHANGED <<ivars, position, nodes, docidx, rootidx, retidx, sibk, cur, iters, parent, ancs, elem, child, tid>>

TNext == \/ (pc # "ret" /\ Next /\ UNCHANGED tid)
         \/ TReport

TSpec == TInit /\ [][TNext]_tvars
=============================================================================
