------------------------------- MODULE XDMX -------------------------------
(***************************************************************************)
(* Extended XDM tree universe for property C14 (node path strings).        *)
(*                                                                         *)
(* The structure (parent vector in document order, children / attribute    *)
(* axes, ascending sequences, positional predicates) is the one of         *)
(* spec/XDM.tla, which is INSTANTIATED here on a projection of the richer  *)
(* kind alphabet; XDM.tla itself is not modified.  Added on top of it:     *)
(*   - element names with an EXPANDED name (namespace URI, local name):    *)
(*       "a0" = Q{}a   "b0" = Q{}b   "an" = Q{urn:n}a                       *)
(*       "ad" = Q{urn:d}a   "bd" = Q{urn:d}b  (urn:d is the default ns)     *)
(*   - attribute names  "xa0" = a (no namespace)   "xan" = Q{urn:n}a       *)
(*   - two PI targets   "pp" = target pi (also the name of math:pi)        *)
(*                      "pa" = target a  (also the local name of elements) *)
(*   - text "t", comment "c"                                               *)
(*   - "te": a ZERO-LENGTH text chunk (elem.text = '' / tail = '', distinct  *)
(*     from None).  No XML source produces it, but programs do, both tree   *)
(*     libraries keep it, the tree builders wrap it in a text node and the  *)
(*     sibling counting includes it: it is a text node of the tree          *)
(*   - namespace declarations of the document (variable decl):             *)
(*       "none"  nothing declared          -> elements Q{}a Q{}b           *)
(*       "p"     xmlns:p="urn:n" on the root -> + Q{urn:n}a, @Q{urn:n}a    *)
(*       "dp"    xmlns="urn:d" xmlns:p="urn:n" on the root; the root is in  *)
(*               urn:d or urn:n, the elements below it may ALSO be in no   *)
(*               namespace (Q{}a, Q{}b: the in-memory form of xmlns=""),   *)
(*               next to like-local-named siblings in urn:d                *)
(*     declarations sit on the root element and both tree libraries report *)
(*     them as inherited by every element (lxml nsmap; namespaces= for     *)
(*     xml.etree; an in-memory no-namespace element carries no xmlns=""    *)
(*     undeclaration), so EVERY element has the namespace nodes            *)
(*     xml + declared prefixes                                             *)
(*   - namespace nodes: not numbered in the parent vector; the namespace   *)
(*     node of element e for the prefix with index j is the id 100*e + j   *)
(*   - document-level comments / PIs before and after the root element     *)
(*     (DocLevel = TRUE, RootCfg = "R1")                                   *)
(*   - RootCfg "R4": a single parentless comment / PI node (N = 1)         *)
(*   - RootCfg "R5": an EXTENDED document node: its children are any        *)
(*     sequence of elements, text, comments and PIs (several like-named     *)
(*     element children included), as built by fn:parse-xml-fragment and by *)
(*     ElementNode.get_document_node(replace=True)                          *)
(*   - RootCfg "R6": an Element handed over with fragment=False: it is      *)
(*     promoted to the single child of a REAL document node (paths start    *)
(*     with "/" + the step of the root element, like R1 without document-   *)
(*     level siblings)                                                      *)
(*   The strings "a" "b" "urn:n" "urn:d" "pi" are ABSTRACT name tokens: a   *)
(*   configuration of the harness may bind "b" and "urn:n" to other         *)
(*   concrete names (non-ASCII name characters, URIs starting with a digit  *)
(*   or containing a quote); nothing in the specification depends on the    *)
(*   spelling.                                                              *)
(***************************************************************************)
EXTENDS Naturals, Sequences, FiniteSets

CONSTANTS N,          \* number of numbered (non-document, non-namespace) nodes
          Kinds,      \* subset of AllKinds
          RootCfg,    \* "R1" document | "R2" element, implied document | "R3" fragment | "R4" lone leaf | "R5" extended document | "R6" promoted element
          Decls,      \* subset of {"none", "p", "dp", "x", "px", "dpx", "pq"}
          DocLevel,   \* TRUE: comments/PIs may be children of the document (R1 only)
          Flat        \* TRUE: only the wide tree (every node 2..N is a child of node 1)

VARIABLES parent, kind, decl

XMLNS == "http://www.w3.org/XML/1998/namespace"   \* always in scope (prefix xml): "ax" = xml:a, "xax" = xml:lang
ElemK == {"a0", "b0", "an", "ad", "bd", "ax"}
AttrK == {"xa0", "xan", "xax"}
PIK   == {"pp", "pa"}
TextK == {"t", "te"}
AllKinds == ElemK \cup AttrK \cup PIK \cup TextK \cup {"c"}

NsOf(k)    == CASE k \in {"a0", "b0", "xa0"} -> ""
                [] k \in {"an", "xan"}      -> "urn:n"
                [] k \in {"ad", "bd"}       -> "urn:d"
                [] k \in {"ax", "xax"}      -> XMLNS
LocalOf(k) == CASE k \in {"a0", "an", "ad", "ax", "xa0", "xan"} -> "a"
                [] k = "xax"                              -> "lang"
                [] k \in {"b0", "bd"}                     -> "b"
TargetOf(k) == CASE k = "pp" -> "pi" [] k = "pa" -> "a"

(* projection on the kind alphabet of XDM.tla *)
Base(k) == CASE k \in {"a0", "an", "ad", "ax"} -> "ea"
             [] k \in {"b0", "bd"}       -> "eb"
             [] k = "xa0"                -> "xa"
             [] k \in {"xan", "xax"}     -> "xc"
             [] k \in PIK                -> "p"
             [] k \in TextK              -> "t"
             [] OTHER                    -> k
bkind == [i \in 1..N |-> Base(kind[i])]

X == INSTANCE XDM WITH Kinds   <- {"ea", "eb", "t", "c", "p", "xa", "xc"},
                       RootCfg <- IF RootCfg = "R4" THEN "R2" ELSE IF RootCfg \in {"R5", "R6"} THEN "R1" ELSE RootCfg,
                       kind    <- bkind

(* namespaces.  A declaration value d names (a) what is declared on the    *)
(* root element and (b) the MAP the caller hands to the API (namespaces=):  *)
(*   "x" "px" "dpx" = "none" "p" "dp" + the caller's map ALSO names the     *)
(*          reserved prefix xml (bound to XMLNS, the only legal binding);   *)
(*   "pq"   = "p" + a second prefix q bound to the SAME namespace name as p *)
(* The namespace nodes of an element are a SET keyed by prefix: the implicit*)
(* xml binding united with the caller's / the declared map -- naming xml    *)
(* explicitly adds nothing, an alias prefix adds a node of its own.         *)
DeclBase(d) == CASE d = "x" -> "none" [] d \in {"px", "pq"} -> "p" [] d = "dpx" -> "dp" [] OTHER -> d
ExplicitXml(d) == d \in {"x", "px", "dpx"}
CallerMap(d) == (CASE DeclBase(d) = "none" -> {}
                   [] DeclBase(d) = "p"    -> {"p"}
                   [] DeclBase(d) = "dp"   -> {"", "p"})
                \cup (IF d = "pq" THEN {"q"} ELSE {})
                \cup (IF ExplicitXml(d) THEN {"xml"} ELSE {})
PrefixesOf(d) == {"xml"} \cup CallerMap(d)
NsUriOfPfx(pfx) == CASE pfx = "xml" -> XMLNS [] pfx = "" -> "urn:d" [] pfx \in {"p", "q"} -> "urn:n"
NsIdx(pfx) == CASE pfx = "xml" -> 1 [] pfx = "" -> 2 [] pfx = "p" -> 3 [] pfx = "q" -> 4
PfxOfIdx(j) == CASE j = 1 -> "xml" [] j = 2 -> "" [] j = 3 -> "p" [] j = 4 -> "q"
AllowedElem(d) == CASE DeclBase(d) = "none" -> {"a0", "b0", "ax"}
                    [] DeclBase(d) = "p"    -> {"a0", "b0", "an", "ax"}
                    [] DeclBase(d) = "dp"   -> ElemK
RootAllowed(d) == IF DeclBase(d) = "dp" THEN {"ad", "bd", "an"} ELSE AllowedElem(d)   \* xmlns="urn:d" on a Q{}name is not XML
AllowedAttr(d) == IF DeclBase(d) = "none" THEN {"xa0", "xax"} ELSE AttrK

---------------------------------------------------------------------------
(* The tree universe *)
ValidParentsX ==
  IF Flat THEN {[i \in 1..N |-> IF i = 1 THEN 0 ELSE 1]}      \* built directly: the function space is too large for N = 13
  ELSE
  {p \in [1..N -> 0..(N-1)] :
      /\ p[1] = 0
      /\ \A i \in 2..N : p[i] < i
      /\ \A i \in 2..N : p[i] = i-1 \/ p[i] \in X!AncP(p, i-1)
      /\ (DocLevel /\ RootCfg = "R1") \/ RootCfg = "R5" \/ \A i \in 2..N : p[i] >= 1}

PrevSib(p, k, i) ==  \* nearest preceding non-attribute sibling, or 0
  LET S == {j \in 1..(i-1) : p[j] = p[i] /\ k[j] \notin AttrK}
  IN IF S = {} THEN 0 ELSE CHOOSE j \in S : \A j2 \in S : j2 <= j

ValidKindsX(p, k, d) ==
  LET Top == {i \in 1..N : p[i] = 0} IN
  /\ CASE RootCfg = "R4" -> N = 1 /\ k[1] \in PIK \cup {"c"}
       [] RootCfg = "R5" -> \A i \in Top : k[i] \in ElemK \cup PIK \cup TextK \cup {"c"}   \* any children
       [] OTHER -> /\ Cardinality({i \in Top : k[i] \in ElemK}) = 1        \* one root element
                   /\ \A i \in Top : k[i] \in ElemK \cup PIK \cup {"c"}   \* document children
  /\ \A i \in 1..N : k[i] \in ElemK => k[i] \in (IF p[i] = 0 THEN RootAllowed(d) ELSE AllowedElem(d))
  /\ \A i \in 1..N : k[i] \in AttrK => k[i] \in AllowedAttr(d)
  /\ \A i \in 2..N : p[i] # 0 => k[p[i]] \in ElemK                 \* only elements have children
  /\ \A i \in 1..N : k[i] \in AttrK =>                             \* attributes directly follow the element
        /\ p[i] # 0
        /\ (i-1 = p[i] \/ (k[i-1] \in AttrK /\ p[i-1] = p[i]))
        /\ \A j \in 1..N : (j # i /\ p[j] = p[i]) => k[j] # k[i]   \* distinct attribute names
  /\ \A i \in 2..N : k[i] \in TextK =>                             \* one text chunk between two siblings
        LET j == PrevSib(p, k, i) IN j = 0 \/ k[j] \notin TextK

TreeInitX == /\ decl \in Decls
             /\ parent \in ValidParentsX
             /\ kind \in {k \in [1..N -> Kinds] : ValidKindsX(parent, k, decl)}

---------------------------------------------------------------------------
(* Nodes.  0 = document (real in R1, implied in R2/R4, absent in R3);      *)
(* 1..N numbered nodes; 100*e+j namespace nodes.                           *)
IsNs(n)   == n >= 100
NsElem(n) == n \div 100
NsPfx(n)  == PfxOfIdx(n % 100)
KindX(n)  == IF n = 0 THEN "d" ELSE IF IsNs(n) THEN "ns" ELSE kind[n]
IsElemX(n) == KindX(n) \in ElemK
ParentX(n) == IF IsNs(n) THEN NsElem(n) ELSE parent[n]

NsNodes  == {100 * e + NsIdx(pf) : e \in {i \in 1..N : kind[i] \in ElemK}, pf \in PrefixesOf(decl)}
HasDocX   == RootCfg \in {"R1", "R5", "R6"}
RealNodes == (IF HasDocX THEN {0} ELSE {}) \cup (1..N) \cup NsNodes
RootElem == CHOOSE i \in 1..N : parent[i] = 0 /\ kind[i] \in ElemK     \* not in R4, R5

RECURSIVE TopAnc(_)
TopAnc(n) == IF ParentX(n) = 0 THEN n ELSE TopAnc(ParentX(n))

(* The three axes used by path strings, on the XDM.tla definitions *)
AxisX(ax, x) ==
  CASE ax = "child"     -> IF IsNs(x) THEN {} ELSE X!AxisSet("child", x)
    [] ax = "attribute" -> IF IsNs(x) THEN {} ELSE X!AxisSet("attribute", x)
    [] ax = "namespace" -> IF IsElemX(x) THEN {100 * x + NsIdx(pf) : pf \in PrefixesOf(decl)} ELSE {}

(* Node tests of a path step st = [ax, k, ns, nm, pos]: name tests compare  *)
(* EXPANDED names; the PI test compares the target.                        *)
TestMatch(st, m) ==
  CASE st.k = "elem"    -> KindX(m) \in ElemK /\ NsOf(kind[m]) = st.ns /\ LocalOf(kind[m]) = st.nm
    [] st.k = "attr"    -> KindX(m) \in AttrK /\ NsOf(kind[m]) = st.ns /\ LocalOf(kind[m]) = st.nm
    [] st.k = "text"    -> KindX(m) \in TextK
    [] st.k = "comment" -> KindX(m) = "c"
    [] st.k = "pi"      -> KindX(m) \in PIK /\ TargetOf(kind[m]) = st.nm
    [] st.k = "ns"      -> IsNs(m) /\ NsPfx(m) = st.nm

(* axis::test[pos] from the context node x; pos = 0 means no predicate.    *)
(* Forward axes only: the sequence is in document order (XDM!AscSeq).      *)
StepSeqX(x, st) == X!AscSeq({m \in AxisX(st.ax, x) : TestMatch(st, m)})
Sel(x, st) == LET s == StepSeqX(x, st) IN
              IF st.pos = 0 THEN {s[i] : i \in 1..Len(s)}
              ELSE IF st.pos <= Len(s) THEN {s[st.pos]} ELSE {}

RECURSIVE EvalSteps(_, _)
EvalSteps(S, steps) == IF steps = <<>> THEN S
                       ELSE EvalSteps(UNION {Sel(x, Head(steps)) : x \in S}, Tail(steps))

(* start of a path: "/" (document; for a fragment the parentless root),     *)
(* fn:root() of a node of the tree, "." = the root element as context item *)
StartSet(start) ==
  CASE start = "/"      -> IF RootCfg = "R3" THEN {1} ELSE {0}
    [] start = "root()" -> IF HasDocX THEN {0} ELSE {1}
    [] start = "."      -> {RootElem}
    [] start = ""       -> {RootElem}       \* a relative path, context item = the root element

=============================================================================
