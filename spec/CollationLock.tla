---------------------------- MODULE CollationLock ----------------------------
(***************************************************************************)
(* Property C19, part 1: the process-wide collation lock and LC_COLLATE.   *)
(*                                                                         *)
(* Step machine of elementpath/collations.py CollationManager.__enter__ /  *)
(* __exit__ and of its call sites (`with CollationManager(collation, self)`*)
(* in fn:compare, contains, starts-with, ends-with, substring-before/after,*)
(* max/min, deep-equal, sort, contains-token, collation-key and in the two *)
(* GENERATORS fn:distinct-values and fn:index-of).                         *)
(*                                                                         *)
(* Shared state  : owner (the non re-entrant _locale_collate_lock, 0=free), *)
(*                 lc (LC_COLLATE of the process), inst (the locales that   *)
(*                 are installed: one configuration per initial state).    *)
(* Per thread    : a sequence of FRAMES, one per live `with` statement.    *)
(*   frame.k  "plain"  function that computes inside the `with` and returns*)
(*            "gen"    generator call site (distinct-values, index-of)     *)
(*            "lazy"   call site that pulls an operand which itself needs  *)
(*                     a collation (deep-equal(E,..), index-of(E,..),      *)
(*                     contains-token(E,..) evaluate E lazily)             *)
(*            "rec"    re-entrant call site: compares the MEMBERS of maps  *)
(*                     and arrays by calling itself (deep_equal)           *)
(*   frame.pc start -> acq -> read -> in          (SetLocale ok)           *)
(*                            read -> fb -> in    (fallback en_US.UTF-8)   *)
(*                            read -> fail        (no fallback: FOCH0002)  *)
(*                            fb   -> fail2       (fallback failed too)    *)
(*            in -> out (generator, results materialised) ; susp           *)
(*                                                                         *)
(* Variant = "property": what must hold.  A critical section contains only *)
(*   string comparisons: operands are evaluated BEFORE the lock is taken   *)
(*   (EvalArgs at pc start; an operand error of a generator site ends the  *)
(*   call there: ArgError), generators leave the `with` BEFORE the first   *)
(*   yield (ExitGen, pc out), and every failure inside __enter__ releases  *)
(*   the lock (RaiseFromEnter also from pc fail2).                         *)
(* Variant = "pinned": the code as it is.  The deviations are the named    *)
(*   actions LeakRaise (fallback setlocale fails -> bare locale.Error, the *)
(*   lock stays held), YieldHolding (generator yields inside the `with`)   *)
(*   LeaveHolding (operand pulled lazily inside the `with`) and            *)
(*   EnterWithoutLock (acquire with a time-out whose False result is       *)
(*   ignored: entered although another thread holds the lock) and          *)
(*   ReenterHolding (the site calls itself for the members of a map or an  *)
(*   array inside the `with`: the nested call asks for the lock again;     *)
(*   property: the nested comparison reuses the active context, Recurse).  *)
(* Variant = "union": both (used by TraceCollation to recognise real       *)
(*   traces of either design and to name the deviation they contain).      *)
(*                                                                         *)
(* Outside the model: the collation ORDER itself (strcoll/strxfrm), a      *)
(* failing restore in __exit__, locale.getlocale() raising ValueError.     *)
(***************************************************************************)
EXTENDS Naturals, Sequences, FiniteSets, TLC

CONSTANTS
  Threads,    \* set of thread ids (positive naturals)
  Configs,    \* set of installed-locale configurations; {} = nothing beyond C/POSIX
  InitLocales,\* LC_COLLATE values the process may start with ("C", or an installed locale)
  Colls,      \* collation classes offered to Call (keys of CollTable)
  Kinds,      \* frame kinds offered to Call: subset of {"plain","gen","lazy","rec"}
  MaxCalls,   \* top-level calls per thread (0 = unbounded, trace validation only)
  MaxDepth,   \* live frames per thread
  MaxItems,   \* items yielded per generator (0 = unbounded, trace validation only)
  Variant,    \* "property" | "pinned" | "union"
  TimedAcquire, \* TRUE: the pinned variant may also enter on an acquire() time-out (EnterWithoutLock)
  Transient   \* TRUE: setlocale may fail for an installed locale as well, or raise another exception

VARIABLES inst, lc0, lc, owner, frames, calls
vars == <<inst, lc0, lc, owner, frames, calls>>

Prop   == Variant \in {"property", "union"}
Pinned == Variant \in {"pinned", "union"}

FB == "FB"                              \* en_US.UTF-8, hard-wired in __enter__
AllLocales == {"L1", "L2", "FB"}
(* cp : codepoint / html-ascii-case-insensitive / caseblind -> lc_collate None, no lock *)
(* L1, L2 : a locale name (or UCA?lang=..;fallback=no) -> no fallback                     *)
(* U1, U2 : UCA?lang=..  (fallback=yes is the default)                                   *)
(* UFB    : the bare UCA URI -> lc_collate en_US.UTF-8, fallback yes                      *)
CollTable ==
  ("cp"  :> [loc |-> "none", fb |-> FALSE]) @@
  ("L1"  :> [loc |-> "L1",   fb |-> FALSE]) @@
  ("L2"  :> [loc |-> "L2",   fb |-> FALSE]) @@
  ("U1"  :> [loc |-> "L1",   fb |-> TRUE])  @@
  ("U2"  :> [loc |-> "L2",   fb |-> TRUE])  @@
  ("UFB" :> [loc |-> "FB",   fb |-> TRUE])
Loc(c)   == CollTable[c].loc
HasFb(c) == CollTable[c].fb

PCs == {"start", "acq", "read", "fb", "fail", "fail2", "in", "out", "susp"}
Frame(c, k) == [c |-> c, k |-> k, pc |-> "start", saved |-> "none", hold |-> FALSE,
                n |-> 0, kid |-> IF k \in {"lazy", "rec"} THEN "todo" ELSE "na"]
FrameSet == [c : DOMAIN CollTable, k : {"plain", "gen", "lazy", "rec"}, pc : PCs,
             saved : {"none", "C"} \cup AllLocales, hold : BOOLEAN,
             n : 0..MaxItems, kid : {"na", "todo", "run", "done", "raised"}]

Last(s) == s[Len(s)]
RemoveAt(s, i) == SubSeq(s, 1, i - 1) \o SubSeq(s, i + 1, Len(s))
(* remove frame i; a lazy parent directly below a popped top frame learns the outcome *)
PopAt(s, i, out) ==
  LET s1 == RemoveAt(s, i) IN
  IF i = Len(s) /\ Len(s1) > 0 /\ Last(s1).kid = "run"
  THEN [s1 EXCEPT ![Len(s1)] = [Last(s1) EXCEPT !.kid = out]]
  ELSE s1

(* the frame that executes: at most one frame of a thread is not suspended *)
Run(t) == LET S == {i \in 1..Len(frames[t]) : frames[t][i].pc # "susp"} IN
          IF S = {} THEN 0 ELSE CHOOSE i \in S : \A j \in S : j <= i
NoLazy(t) == \A i \in 1..Len(frames[t]) : frames[t][i].k # "lazy"
(* may the frame go for the lock: operands first (property), lock first (pinned) *)
ArgsReady(f) == f.k = "lazy" => \/ f.kid = "done"
                                \/ Pinned /\ f.kid = "todo" /\ Loc(f.c) # "none"
BodyReady(f) == f.k \in {"lazy", "rec"} => f.kid = "done"

SetF(t, i, f) == frames' = [frames EXCEPT ![t] = [@ EXCEPT ![i] = f]]

Init == /\ inst \in Configs
        /\ lc0 \in InitLocales /\ (lc0 = "C" \/ lc0 \in inst)
        /\ lc = lc0
        /\ owner = 0
        /\ frames = [t \in Threads |-> <<>>]
        /\ calls = [t \in Threads |-> 0]

(* ---- the consumer (the expression / the caller of iter_select) ---------- *)
Call(t, c, k) ==
  /\ Run(t) = 0 /\ NoLazy(t)
  /\ MaxCalls > 0 => calls[t] < MaxCalls
  /\ Len(frames[t]) + (IF k \in {"lazy", "rec"} THEN 2 ELSE 1) <= MaxDepth   \* room for the operand / nested call
  /\ frames' = [frames EXCEPT ![t] = Append(@, Frame(c, k))]
  /\ calls' = IF MaxCalls > 0 THEN [calls EXCEPT ![t] = @ + 1] ELSE calls
  /\ UNCHANGED <<inst, lc0, lc, owner>>

(* the operand of a lazy call site: a plain collation call *)
CallArg(t, c) ==
  /\ Run(t) = 0 /\ Len(frames[t]) > 0
  /\ LET s == frames[t] p == Last(frames[t]) IN
       /\ p.k = "lazy" /\ p.pc = "susp" /\ p.kid = "todo"
       /\ frames' = [frames EXCEPT ![t] =
                       Append([s EXCEPT ![Len(s)] = [p EXCEPT !.kid = "run"]], Frame(c, "plain"))]
  /\ UNCHANGED <<inst, lc0, lc, owner, calls>>

(* property: operands are evaluated before the `with` (also every codepoint frame) *)
EvalArgs(t) ==
  LET r == Run(t) IN
  /\ r # 0
  /\ LET f == frames[t][r] IN
       /\ f.k = "lazy" /\ f.pc = "start" /\ f.kid = "todo"
       /\ Prop \/ Loc(f.c) = "none"
       /\ SetF(t, r, [f EXCEPT !.pc = "susp"])
  /\ UNCHANGED <<inst, lc0, lc, owner, calls>>

(* DEVIATION (pinned): the operand is pulled inside the critical section *)
LeaveHolding(t) ==
  LET r == Run(t) IN
  /\ Pinned /\ r # 0
  /\ LET f == frames[t][r] IN
       /\ f.k = "lazy" /\ f.pc = "in" /\ f.hold /\ f.kid = "todo"
       /\ SetF(t, r, [f EXCEPT !.pc = "susp"])
  /\ UNCHANGED <<inst, lc0, lc, owner, calls>>

(* property: the members of maps and arrays are compared in the ACTIVE collation context *)
Recurse(t) ==
  LET r == Run(t) IN
  /\ r # 0
  /\ LET f == frames[t][r] IN
       /\ f.k = "rec" /\ f.pc = "in" /\ f.kid = "todo"
       /\ Prop \/ ~f.hold
       /\ SetF(t, r, [f EXCEPT !.kid = "done"])
  /\ UNCHANGED <<inst, lc0, lc, owner, calls>>

(* DEVIATION (as implemented before the repair): the site calls ITSELF for the members  *)
(* inside the `with`; the nested call builds its own CollationManager for the same      *)
(* collation and asks for the lock its caller holds                                     *)
ReenterHolding(t) ==
  LET r == Run(t) IN
  /\ Pinned /\ r # 0 /\ r = Len(frames[t])
  /\ LET f == frames[t][r] s == frames[t] IN
       /\ f.k = "rec" /\ f.pc = "in" /\ f.hold /\ f.kid = "todo"
       /\ frames' = [frames EXCEPT ![t] =
                       Append([s EXCEPT ![r] = [f EXCEPT !.pc = "susp", !.kid = "run"]], Frame(f.c, "plain"))]
  /\ UNCHANGED <<inst, lc0, lc, owner, calls>>

ResumeLazy(t) ==
  /\ Run(t) = 0 /\ Len(frames[t]) > 0
  /\ LET p == Last(frames[t]) IN
       /\ p.k = "lazy" /\ p.pc = "susp" /\ p.kid = "done"
       /\ SetF(t, Len(frames[t]), [p EXCEPT !.pc = IF p.hold THEN "in" ELSE "start"])
  /\ UNCHANGED <<inst, lc0, lc, owner, calls>>

(* property: the operand of a generator call site is evaluated before the `with`; an    *)
(* error in it ends the call before anything global was touched                         *)
ArgError(t) ==
  LET r == Run(t) IN
  /\ Prop /\ r # 0
  /\ LET f == frames[t][r] IN
       /\ f.k = "gen" /\ f.pc = "start"
       /\ frames' = [frames EXCEPT ![t] = PopAt(@, r, "raised")]
  /\ UNCHANGED <<inst, lc0, lc, owner, calls>>

(* ---- CollationManager.__enter__ ------------------------------------------ *)
Enter0(t) ==      \* lc_collate is None: no lock, no locale
  LET r == Run(t) IN
  /\ r # 0
  /\ LET f == frames[t][r] IN
       /\ f.pc = "start" /\ Loc(f.c) = "none" /\ (f.k = "lazy" => f.kid = "done")
       /\ SetF(t, r, [f EXCEPT !.pc = "in"])
  /\ UNCHANGED <<inst, lc0, lc, owner, calls>>

Acquire(t) ==     \* _locale_collate_lock.acquire()
  LET r == Run(t) IN
  /\ r # 0
  /\ LET f == frames[t][r] IN
       /\ f.pc = "start" /\ Loc(f.c) # "none" /\ ArgsReady(f)
       /\ owner = 0
       /\ SetF(t, r, [f EXCEPT !.pc = "acq", !.hold = TRUE])
  /\ owner' = t
  /\ UNCHANGED <<inst, lc0, lc, calls>>

(* FAULT of the environment: the holder keeps the lock for a long time (a long collation-aware *)
(* operation: distinct-values / index-of / deep-equal / max compare whole sequences inside   *)
(* one context).  A thread that asks for the lock meanwhile WAITS, however long: whatever    *)
(* time-out its acquire() has, it does not enter (LongHold changes nothing).                 *)
LongHold(t) ==
  /\ Run(t) # 0
  /\ LET f == frames[t][Run(t)] IN f.pc = "start" /\ Loc(f.c) # "none" /\ ArgsReady(f)
  /\ owner # 0 /\ owner # t
  /\ UNCHANGED vars

(* DEVIATION: acquire(timeout=..) / acquire(blocking=False) whose False result is ignored:   *)
(* the late comer goes on WITHOUT the lock, saves the holder's temporary LC_COLLATE as the   *)
(* value to restore and finally releases the holder's lock                                   *)
EnterWithoutLock(t) ==
  LET r == Run(t) IN
  /\ Pinned /\ TimedAcquire /\ r # 0
  /\ LET f == frames[t][r] IN
       /\ f.pc = "start" /\ Loc(f.c) # "none" /\ ArgsReady(f)
       /\ owner # 0 /\ owner # t
       /\ SetF(t, r, [f EXCEPT !.pc = "acq", !.hold = TRUE])
  /\ UNCHANGED <<inst, lc0, lc, owner, calls>>

ReadCurrent(t) == \* self._current_lc_collate = locale.getlocale(LC_COLLATE)
  LET r == Run(t) IN
  /\ r # 0
  /\ LET f == frames[t][r] IN
       /\ f.pc = "acq"
       /\ SetF(t, r, [f EXCEPT !.pc = "read", !.saved = lc])
  /\ UNCHANGED <<inst, lc0, lc, owner, calls>>

SetLocale(t, res) ==   \* locale.setlocale(LC_COLLATE, self.lc_collate)
  LET r == Run(t) IN
  /\ r # 0
  /\ LET f == frames[t][r] IN
       /\ f.pc = "read"
       /\ \/ /\ res = "ok" /\ Loc(f.c) \in inst
             /\ lc' = Loc(f.c)
             /\ SetF(t, r, [f EXCEPT !.pc = "in"])
          \/ /\ res = "fail" /\ (Loc(f.c) \notin inst \/ Transient)
             /\ lc' = lc
             /\ SetF(t, r, [f EXCEPT !.pc = IF HasFb(f.c) THEN "fb" ELSE "fail"])
          \/ /\ res = "crash" /\ Transient     \* setlocale raises something that is NOT locale.Error
             /\ lc' = lc                        \* (ValueError: embedded null character for a collation
             /\ SetF(t, r, [f EXCEPT !.pc = "fail2"])   \* string with a NUL): no fallback is tried
  /\ UNCHANGED <<inst, lc0, owner, calls>>

Fallback(t, res) ==    \* locale.setlocale(LC_COLLATE, 'en_US.UTF-8')
  LET r == Run(t) IN
  /\ r # 0
  /\ LET f == frames[t][r] IN
       /\ f.pc = "fb"
       /\ \/ /\ res = "ok" /\ FB \in inst
             /\ lc' = FB
             /\ SetF(t, r, [f EXCEPT !.pc = "in"])
          \/ /\ res = "fail" /\ (FB \notin inst \/ Transient)
             /\ lc' = lc
             /\ SetF(t, r, [f EXCEPT !.pc = "fail2"])
  /\ UNCHANGED <<inst, lc0, owner, calls>>

(* release and raise FOCH0002; LC_COLLATE was never changed by this frame *)
RaiseFromEnter(t) ==
  LET r == Run(t) IN
  /\ r # 0
  /\ LET f == frames[t][r] IN
       /\ f.pc = "fail" \/ (f.pc = "fail2" /\ Prop)
       /\ frames' = [frames EXCEPT ![t] = PopAt(@, r, "raised")]
  /\ owner' = 0
  /\ UNCHANGED <<inst, lc0, lc, calls>>

(* DEVIATION (pinned): locale.Error escapes from __enter__, nobody releases *)
LeakRaise(t) ==
  LET r == Run(t) IN
  /\ Pinned /\ r # 0
  /\ LET f == frames[t][r] IN
       /\ f.pc = "fail2"
       /\ frames' = [frames EXCEPT ![t] = PopAt(@, r, "raised")]
  /\ UNCHANGED <<inst, lc0, lc, owner, calls>>

(* ---- CollationManager.__exit__ --------------------------------------------- *)
Leave(f) == IF f.hold THEN lc' = f.saved /\ owner' = 0 ELSE UNCHANGED <<lc, owner>>

Exit(t) ==        \* the body returns (a pinned generator: is exhausted inside the `with`)
  LET r == Run(t) IN
  /\ r # 0
  /\ LET f == frames[t][r] IN
       /\ f.pc = "in" /\ BodyReady(f)
       /\ f.k # "gen" \/ (Pinned /\ f.hold)
       /\ Leave(f)
       /\ frames' = [frames EXCEPT ![t] = PopAt(@, r, "done")]
  /\ UNCHANGED <<inst, lc0, calls>>

ExitGen(t) ==     \* property: a generator materialises its result and leaves the `with`
  LET r == Run(t) IN
  /\ r # 0
  /\ LET f == frames[t][r] IN
       /\ f.pc = "in" /\ f.k = "gen"
       /\ Prop \/ ~f.hold
       /\ Leave(f)
       /\ SetF(t, r, [f EXCEPT !.pc = "out", !.hold = FALSE])
  /\ UNCHANGED <<inst, lc0, calls>>

Unwind(t) ==      \* an error raised by the body, or by the operand of a lazy frame
  /\ \/ LET r == Run(t) IN
        /\ r # 0
        /\ LET f == frames[t][r] IN
             /\ f.pc = "in"
             /\ f.k = "plain" \/ (f.k = "gen" /\ Pinned /\ f.hold)  \* a generator body fails only through a
             /\ Leave(f)                                             \* lazily pulled operand (pinned)
             /\ frames' = [frames EXCEPT ![t] = PopAt(@, r, "raised")]
     \/ /\ Run(t) = 0 /\ Len(frames[t]) > 0
        /\ LET p == Last(frames[t]) IN
             /\ p.k = "lazy" /\ p.pc = "susp" /\ p.kid = "raised"
             /\ Leave(p)
             /\ frames' = [frames EXCEPT ![t] = PopAt(@, Len(@), "raised")]
  /\ UNCHANGED <<inst, lc0, calls>>

(* ---- generators --------------------------------------------------------------- *)
YieldHolding(t) ==   \* DEVIATION (pinned): `yield` inside the `with`
  LET r == Run(t) IN
  /\ Pinned /\ r # 0
  /\ LET f == frames[t][r] IN
       /\ f.pc = "in" /\ f.k = "gen" /\ f.hold /\ (MaxItems = 0 \/ f.n < MaxItems)
       /\ SetF(t, r, [f EXCEPT !.pc = "susp", !.n = IF MaxItems = 0 THEN 0 ELSE @ + 1])
  /\ UNCHANGED <<inst, lc0, lc, owner, calls>>

Yield(t) ==
  LET r == Run(t) IN
  /\ r # 0
  /\ LET f == frames[t][r] IN
       /\ f.pc = "out" /\ (MaxItems = 0 \/ f.n < MaxItems)
       /\ SetF(t, r, [f EXCEPT !.pc = "susp", !.n = IF MaxItems = 0 THEN 0 ELSE @ + 1])
  /\ UNCHANGED <<inst, lc0, lc, owner, calls>>

Return(t) ==         \* an exhausted generator that holds nothing
  LET r == Run(t) IN
  /\ r # 0
  /\ frames[t][r].pc = "out"
  /\ frames' = [frames EXCEPT ![t] = PopAt(@, r, "done")]
  /\ UNCHANGED <<inst, lc0, lc, owner, calls>>

Resume(t, i) ==      \* the consumer asks for the next item
  /\ Run(t) = 0 /\ NoLazy(t)
  /\ i \in 1..Len(frames[t])
  /\ LET f == frames[t][i] IN
       /\ f.pc = "susp"
       /\ SetF(t, i, [f EXCEPT !.pc = IF f.hold THEN "in" ELSE "out"])
  /\ UNCHANGED <<inst, lc0, lc, owner, calls>>

Abandon(t, i) ==     \* the consumer drops the generator: GeneratorExit runs __exit__
  /\ Run(t) = 0 /\ NoLazy(t)
  /\ i \in 1..Len(frames[t])
  /\ LET f == frames[t][i] IN
       /\ f.pc = "susp"
       /\ Leave(f)
       /\ frames' = [frames EXCEPT ![t] = RemoveAt(@, i)]
  /\ UNCHANGED <<inst, lc0, calls>>

(* everything a thread does once it has been called (the obligations of fairness) *)
ThreadStep(t) ==
  \/ EvalArgs(t) \/ LeaveHolding(t) \/ Recurse(t) \/ ReenterHolding(t) \/ ResumeLazy(t) \/ ArgError(t) \/ Enter0(t) \/ Acquire(t) \/ EnterWithoutLock(t) \/ ReadCurrent(t)
  \/ \E res \in {"ok", "fail", "crash"} : SetLocale(t, res)
  \/ \E res \in {"ok", "fail"} : Fallback(t, res)
  \/ RaiseFromEnter(t) \/ LeakRaise(t) \/ Exit(t) \/ ExitGen(t) \/ Unwind(t)
  \/ YieldHolding(t) \/ Yield(t) \/ Return(t)
  \/ \E c \in Colls : CallArg(t, c)
  \/ \E i \in 1..MaxDepth : Resume(t, i)
  \/ \E i \in 1..MaxDepth : Abandon(t, i)

Next ==
  \/ \E t \in Threads, c \in Colls, k \in Kinds : Call(t, c, k)
  \/ \E t \in Threads, c \in Colls : CallArg(t, c)
  \/ \E t \in Threads : EvalArgs(t)
  \/ \E t \in Threads : LeaveHolding(t)
  \/ \E t \in Threads : Recurse(t)
  \/ \E t \in Threads : ReenterHolding(t)
  \/ \E t \in Threads : ResumeLazy(t)
  \/ \E t \in Threads : ArgError(t)
  \/ \E t \in Threads : Enter0(t)
  \/ \E t \in Threads : Acquire(t)
  \/ \E t \in Threads : LongHold(t)
  \/ \E t \in Threads : EnterWithoutLock(t)
  \/ \E t \in Threads : ReadCurrent(t)
  \/ \E t \in Threads, res \in {"ok", "fail", "crash"} : SetLocale(t, res)
  \/ \E t \in Threads, res \in {"ok", "fail"} : Fallback(t, res)
  \/ \E t \in Threads : RaiseFromEnter(t)
  \/ \E t \in Threads : LeakRaise(t)
  \/ \E t \in Threads : Exit(t)
  \/ \E t \in Threads : ExitGen(t)
  \/ \E t \in Threads : Unwind(t)
  \/ \E t \in Threads : YieldHolding(t)
  \/ \E t \in Threads : Yield(t)
  \/ \E t \in Threads : Return(t)
  \/ \E t \in Threads, i \in 1..MaxDepth : Resume(t, i)
  \/ \E t \in Threads, i \in 1..MaxDepth : Abandon(t, i)

Spec == Init /\ [][Next]_vars
FairSpec == Spec /\ \A t \in Threads : WF_vars(ThreadStep(t))

(* ---- what the property says ------------------------------------------------------ *)
TypeOK ==
  /\ inst \in Configs
  /\ lc0 \in InitLocales /\ lc \in {"C"} \cup AllLocales
  /\ owner \in {0} \cup Threads
  /\ \A t \in Threads : /\ Len(frames[t]) <= MaxDepth
                        /\ \A i \in 1..Len(frames[t]) : frames[t][i] \in FrameSet
  /\ \A t \in Threads : calls[t] \in Nat

Quiescent == \A t \in Threads : frames[t] = <<>>
Holds(t) == \E i \in 1..Len(frames[t]) : frames[t][i].hold
WantsLock(t) == Run(t) # 0 /\ LET f == frames[t][Run(t)] IN
                               f.pc = "start" /\ Loc(f.c) # "none" /\ ArgsReady(f)
SelfWait(t) == WantsLock(t) /\ owner = t

(* every evaluation, whether it succeeds or raises, holds no lock afterwards ...      *)
NoLockLeak == Quiescent => owner = 0
(* ... and leaves LC_COLLATE as it found it                                           *)
LocaleRestored == Quiescent => lc = lc0
(* no thread waits on a lock it holds                                                 *)
NoSelfWait == \A t \in Threads : ~SelfWait(t)
(* the lock is held by a live `with` frame of the owner and by nothing else           *)
OwnerHolds == owner # 0 => Holds(owner)
HoldIsOwner == \A t \in Threads : Holds(t) => owner = t
(* mutual exclusion: at most one thread is between acquire and release (so that nobody but    *)
(* the holder can release, and nobody saves a temporary LC_COLLATE as the value to restore)   *)
MutualExclusion == Cardinality({t \in Threads : Holds(t)}) <= 1
(* LC_COLLATE differs from the initial value only under the lock                      *)
LockedWhenChanged == lc # lc0 => owner # 0
(* property design: nothing is suspended inside a critical section                    *)
NoHoldWhileSuspended ==
  \A t \in Threads : \A i \in 1..Len(frames[t]) : frames[t][i].pc = "susp" => ~frames[t][i].hold
OneRunning ==
  \A t \in Threads : Cardinality({i \in 1..Len(frames[t]) : frames[t][i].pc # "susp"}) <= 1
(* some thread can always move unless everything has returned                         *)
NoStuck == Quiescent \/ \E t \in Threads : ENABLED ThreadStep(t)

Safety == /\ NoLockLeak /\ LocaleRestored /\ NoSelfWait /\ OwnerHolds /\ HoldIsOwner /\ MutualExclusion
          /\ LockedWhenChanged /\ OneRunning /\ NoStuck

(* under weak fairness every call eventually returns                                  *)
EveryCallReturns == \A t \in Threads : (frames[t] # <<>>) ~> (frames[t] = <<>>)
=============================================================================
