----------------------------- MODULE CastForms -----------------------------
(***************************************************************************)
(* Property C10, clause "'E castable as T', 'E cast as T' and the          *)
(* constructor call 'xs:T(E)' agree on success and on the value produced", *)
(* per XPATH VERSION and per FORM of the operand E.                        *)
(*                                                                         *)
(* A case is (parser version, XSD version, operand form, target type,      *)
(* literal); Judge maps it to the expected outcomes of the three paths.    *)
(* Operand forms:  literal 'abc' | string_ctor xs:string('abc') |          *)
(* untyped_ctor xs:untypedAtomic('abc') | variable $s | concat(..) |       *)
(* string_fn string(@a) | attribute @a | element .   (nodes without schema *)
(* atomize to xs:untypedAtomic).                                           *)
(*                                                                         *)
(* Version-specific rule (XPath 2.0 section 3.10.2 / F&O 1.0 17.1.? and    *)
(* 5.1): casting to xs:QName (and xs:NOTATION-derived types) is allowed    *)
(* only for a STRING LITERAL operand (the cast is done statically);        *)
(* anything else is XPTY0004, for the cast, castable (false) and the       *)
(* constructor function alike.  XPath 3.0 / 3.1 (F&O 3.x 19.2): any        *)
(* xs:string operand is cast with the static namespace context.            *)
(* xs:untypedAtomic -> xs:QName in 3.x is not judged against a value (see   *)
(* CastTable), only the agreement of the three paths is.  For every other  *)
(* target the outcome does not depend on the form or the XPath version:    *)
(* the lexical mapping of the target applied to the string (19.2).         *)
(* xs:NOTATION itself is abstract (XPST0080, no constructor): not a case.  *)
(***************************************************************************)
EXTENDS CastTable

CONSTANTS PVs,        \* XPath versions, subset of {"2.0", "3.0", "3.1"}
          Versions    \* XSD versions

VARIABLE cs
Forms == {"literal", "string_ctor", "untyped_ctor", "variable", "concat", "string_fn", "attribute", "element"}
IsUntypedForm(f) == f \in {"untyped_ctor", "attribute", "element"}
FormTargets == {"QName", "integer", "boolean", "date", "token", "double"}
FormLits == {<<"a",":","a">>, <<"a">>, <<"b",":","a">>, <<"7",":","a">>, <<" ","a",":","a"," ">>, <<"7">>, <<" ","7"," ">>,
             <<"true">>, <<"2000","-","01","-","01">>, <<"a"," "," ","a">>, <<"1","e","1">>, <<>>}

None == [k |-> "none"]
Init == cs = None
Pick(pv, ver, f, T) == /\ cs.k = "none"
                       /\ \E ts \in FormLits : cs' = [k |-> "case", pv |-> pv, ver |-> ver, form |-> f, t |-> T, ts |-> ts]
LiteralOnly(pv, T) == pv = "2.0" /\ T = "QName"
Outcome(c) ==
  LET v == Parse(c.t, Flat(c.ts), c.ver) IN
  IF LiteralOnly(c.pv, c.t) /\ c.form # "literal" THEN
       [k |-> "out", cast |-> Err("XPTY0004"), ctor |-> Err("XPTY0004"), castable |-> FALSE, mode |-> "spec"]
  ELSE IF c.t = "QName" /\ IsUntypedForm(c.form) THEN
       [k |-> "out", cast |-> Err("UNSPEC"), ctor |-> Err("UNSPEC"), castable |-> FALSE, mode |-> "agree"]
  ELSE [k |-> "out", cast |-> v, ctor |-> v, castable |-> ~IsErr(v), mode |-> "spec"]
Judge == cs.k = "case" /\ cs' = Outcome(cs)
Next == \/ \E pv \in PVs, ver \in Versions, f \in Forms, T \in FormTargets : Pick(pv, ver, f, T)
        \/ Judge
Spec == Init /\ [][Next]_cs

(* the three paths agree by construction; the version rule touches QName only; the operand form
   never matters for the other targets and never in 3.x for string operands *)
LawForms == cs.k = "case" =>
   LET o == Outcome(cs) IN
   /\ o.castable = (~IsErr(o.cast) /\ o.mode = "spec")
   /\ o.cast = o.ctor
   /\ (cs.t # "QName" \/ (cs.pv # "2.0" /\ ~IsUntypedForm(cs.form))) =>
        \A f \in Forms : (cs.t = "QName" /\ IsUntypedForm(f)) \/ Outcome([cs EXCEPT !.form = f]).cast = o.cast
   /\ (cs.form = "literal") => \A pv \in PVs : Outcome([cs EXCEPT !.pv = pv]) = o
=============================================================================
