------------------------------- MODULE Canon -------------------------------
(***************************************************************************)
(* The string an atomic value is cast to (XPath F&O 3.1 section 19.1.2.2   *)
(* "Casting to xs:string and xs:untypedAtomic"), which is the XSD canonical*)
(* representation except where F&O says otherwise:                         *)
(*   - xs:integer types: no sign for non-negatives, no leading zeros;      *)
(*   - xs:decimal: integer form if integral, else no leading/trailing      *)
(*     zeros, one digit before the point; there is no negative zero;       *)
(*   - xs:float/xs:double: NaN, INF, -INF, 0, -0; if 0.000001 <= |v| <     *)
(*     1000000 the decimal form; otherwise mantissa 'E' exponent with one  *)
(*     non-zero digit before the point, at least one after it, no leading  *)
(*     zeros or '+' in the exponent ('1.0E-7');                            *)
(*   - xs:boolean: true / false;  hexBinary: upper case;  base64Binary:    *)
(*     no spaces;  durations: 19.1.2.2 rule (years+months, days..seconds); *)
(*   - date/time types: the LOCAL value, components as 2/4-digit fields,   *)
(*     never hour 24, 'Z' for a zero timezone offset.                      *)
(* Law (checked by TLC in CastChain): Canon is a fixed point of the        *)
(* lexical mapping, Parse(T, Canon(v)) = v.                                *)
(***************************************************************************)
EXTENDS Lexical

Sign(neg) == IF neg THEN <<"-">> ELSE <<>>

CanonDec(v) == Sign(v.neg) \o (IF v.ip = <<>> THEN <<"0">> ELSE v.ip)
               \o (IF v.fp = <<>> THEN <<>> ELSE <<".">> \o v.fp)

CanonFlo(v) ==
  IF v.c = "nan" THEN <<"N","a","N">>
  ELSE IF v.c = "pinf" THEN <<"I","N","F">>
  ELSE IF v.c = "ninf" THEN <<"-","I","N","F">>
  ELSE IF v.dg = <<>> THEN Sign(v.neg) \o <<"0">>
  ELSE IF v.ex >= 0 /\ v.ex <= 5 THEN
       LET n == v.ex + 1
           p == v.dg \o Zeros(n - Len(v.dg)) IN
       Sign(v.neg) \o Take(p, n) \o (IF Len(p) > n THEN <<".">> \o Drop(p, n) ELSE <<>>)
  ELSE IF v.ex < 0 /\ v.ex >= -6 THEN Sign(v.neg) \o <<"0", ".">> \o Zeros(-v.ex - 1) \o v.dg
  ELSE Sign(v.neg) \o <<v.dg[1], ".">> \o (IF Len(v.dg) > 1 THEN Tail(v.dg) ELSE <<"0">>)
       \o <<"E">> \o Sign(v.ex < 0) \o NatChars(IF v.ex < 0 THEN -v.ex ELSE v.ex)

RECURSIVE HexEnc(_)
HexEnc(o) == IF o = <<>> THEN <<>> ELSE <<HexUp[o[1] \div 16 + 1], HexUp[(o[1] % 16) + 1]>> \o HexEnc(Tail(o))
RECURSIVE B64Enc(_)
B64Enc(o) ==
  IF o = <<>> THEN <<>>
  ELSE IF Len(o) = 1 THEN <<B64[o[1] \div 4 + 1], B64[(o[1] % 4) * 16 + 1], "=", "=">>
  ELSE IF Len(o) = 2 THEN <<B64[o[1] \div 4 + 1], B64[(o[1] % 4) * 16 + o[2] \div 16 + 1],
                            B64[(o[2] % 16) * 4 + 1], "=">>
  ELSE <<B64[o[1] \div 4 + 1], B64[(o[1] % 4) * 16 + o[2] \div 16 + 1],
         B64[(o[2] % 16) * 4 + o[3] \div 64 + 1], B64[(o[3] % 64) + 1]>> \o B64Enc(Drop(o, 3))

Comp(n, des) == IF n > 0 THEN NatChars(n) \o <<des>> ELSE <<>>
YMCanon(mo) == IF mo = 0 THEN <<"P","0","M">> ELSE <<"P">> \o Comp(mo \div 12, "Y") \o Comp(mo % 12, "M")
DTCanon(se, fr) ==
  LET d == se \div 86400  h == (se % 86400) \div 3600  mi == (se % 3600) \div 60  s == se % 60 IN
  IF se = 0 /\ fr = <<>> THEN <<"P","T","0","S">>
  ELSE <<"P">> \o Comp(d, "D")
       \o (IF h = 0 /\ mi = 0 /\ s = 0 /\ fr = <<>> THEN <<>>
           ELSE <<"T">> \o Comp(h, "H") \o Comp(mi, "M")
                \o (IF s = 0 /\ fr = <<>> THEN <<>>
                    ELSE NatChars(s) \o (IF fr = <<>> THEN <<>> ELSE <<".">> \o fr) \o <<"S">>))
CanonDur(v) ==
  Sign(v.neg) \o
  (IF v.t = "yearMonthDuration" THEN YMCanon(v.mo)
   ELSE IF v.t = "dayTimeDuration" THEN DTCanon(v.se, v.fr)
   ELSE IF v.mo = 0 THEN DTCanon(v.se, v.fr)
   ELSE IF v.se = 0 /\ v.fr = <<>> THEN YMCanon(v.mo)
   ELSE YMCanon(v.mo) \o Tail(DTCanon(v.se, v.fr)))

Pad2(n) == IF n < 10 THEN <<"0", DChr(n)>> ELSE NatChars(n)
YearChars(y) == LET a == IF y < 0 THEN -y ELSE y  c == NatChars(a) IN
                Sign(y < 0) \o Zeros(4 - Len(c)) \o c
TzChars(tz) == IF tz = NoTz THEN <<>> ELSE IF tz = 0 THEN <<"Z">>
               ELSE LET a == IF tz < 0 THEN -tz ELSE tz IN
                    <<IF tz < 0 THEN "-" ELSE "+">> \o Pad2(a \div 60) \o <<":">> \o Pad2(a % 60)
TimeChars(v) == Pad2(v.h) \o <<":">> \o Pad2(v.mi) \o <<":">> \o Pad2(v.s)
                \o (IF v.fr = <<>> THEN <<>> ELSE <<".">> \o v.fr)
DateChars(v) == YearChars(v.y) \o <<"-">> \o Pad2(v.mo) \o <<"-">> \o Pad2(v.d)
CanonDT(v) ==
  (CASE v.t \in {"dateTime", "dateTimeStamp"} -> DateChars(v) \o <<"T">> \o TimeChars(v)
     [] v.t = "date"       -> DateChars(v)
     [] v.t = "time"       -> TimeChars(v)
     [] v.t = "gYearMonth" -> YearChars(v.y) \o <<"-">> \o Pad2(v.mo)
     [] v.t = "gYear"      -> YearChars(v.y)
     [] v.t = "gMonthDay"  -> <<"-", "-">> \o Pad2(v.mo) \o <<"-">> \o Pad2(v.d)
     [] v.t = "gDay"       -> <<"-", "-", "-">> \o Pad2(v.d)
     [] v.t = "gMonth"     -> <<"-", "-">> \o Pad2(v.mo)) \o TzChars(v.tz)

Canon(v) ==
  CASE v.k = "bool" -> (IF v.b THEN <<"t","r","u","e">> ELSE <<"f","a","l","s","e">>)
    [] v.k = "dec"  -> CanonDec(v)
    [] v.k = "flo"  -> CanonFlo(v)
    [] v.k = "str"  -> v.s
    [] v.k = "bin"  -> (IF v.t = "hexBinary" THEN HexEnc(v.o) ELSE B64Enc(v.o))
    [] v.k = "qn"   -> (IF v.p = <<>> THEN v.l ELSE v.p \o <<":">> \o v.l)
    [] v.k = "dur"  -> CanonDur(v)
    [] v.k = "dt"   -> CanonDT(v)
=============================================================================
