------------------------------- MODULE Logic -------------------------------
(***************************************************************************)
(* Property C07, part 3: fn:boolean, fn:not, `and`, `or`, `if` over the    *)
(* effective boolean value (tables in EBV.tla).  Same machine shape as     *)
(* Compare: the state is a pair of operand sequences built item by item;   *)
(* Fn(f) applies boolean(lhs) / not(lhs) / if (lhs) then .. else ..;       *)
(* Bin(f) applies `lhs and rhs` / `lhs or rhs`; the result state maps      *)
(* every processor configuration to the set of permitted outcomes          *)
(* ("TRUE" "FALSE" "THEN" "ELSE" "FORG0006").                              *)
(*                                                                         *)
(* XPath 2.0 section 3.6: "The order in which the operands of a logical    *)
(* expression are evaluated is implementation-dependent" -- `false and     *)
(* error` may be false or the error; in XPath 1.0 compatibility mode (and  *)
(* in XPath 1.0) evaluation is left to right and stops early.              *)
(***************************************************************************)
EXTENDS Compare

LRes(f, L0, R0) ==
  LET a == EBVOf(L0)
      b == EBVOf(R0)
  IN [c \in Cfgs |->
        CASE f = "boolean" -> {a}
          [] f = "not" -> {NotOut(a)}
          [] f = "if" -> {IfOut(a)}
          [] f = "and" -> AndOut(a, b, IsCompat(c))
          [] f = "or" -> OrOut(a, b, IsCompat(c))]

Fn(f)  == res = NoRes /\ rhs = <<>> /\ res' = LRes(f, lhs, rhs) /\ lhs' = <<>> /\ rhs' = <<>>
Bin(f) == res = NoRes /\ res' = LRes(f, lhs, rhs) /\ lhs' = <<>> /\ rhs' = <<>>

(* OPERANDS THAT READ THE FOCUS.  A node operand may be written as a RELATIVE path evaluated from the
   context node (binding: child steps a, b, missing, a/b from the document element), bare or wrapped
   in fn:not / fn:boolean / fn:empty / fn:exists.  Both operands of `and` / `or` are evaluated with
   the SAME focus (XPath 2.0 section 3.6 with 2.1.2: the focus of an operand expression is the focus
   of the enclosing expression), so the tables apply unchanged.
   BinW(f, wl, wr):    wl(lhs) f wr(rhs)          NotBinW(f, wl, wr):    not(wl(lhs) f wr(rhs)) *)
Wraps == {"id", "not", "boolean", "empty", "exists"}
WrapOut(w, S) ==
  CASE w = "id" -> EBVOf(S) [] w = "boolean" -> EBVOf(S) [] w = "not" -> NotOut(EBVOf(S))
    [] w = "empty" -> B2O(S = <<>>) [] w = "exists" -> B2O(S # <<>>)
RelOperand(S) == Len(S) <= 1 /\ \A i \in 1..Len(S) : S[i] \in Nodes
BinWRes(f, wl, wr, L0, R0) ==
  [c \in Cfgs |-> IF f = "and" THEN AndOut(WrapOut(wl, L0), WrapOut(wr, R0), IsCompat(c))
                              ELSE OrOut(WrapOut(wl, L0), WrapOut(wr, R0), IsCompat(c))]
BinW(f, wl, wr) == /\ res = NoRes /\ RelOperand(lhs) /\ RelOperand(rhs)
                   /\ res' = BinWRes(f, wl, wr, lhs, rhs) /\ lhs' = <<>> /\ rhs' = <<>>
NotBinW(f, wl, wr) == /\ res = NoRes /\ RelOperand(lhs) /\ RelOperand(rhs)
                      /\ res' = [c \in Cfgs |-> {NotOut(o) : o \in BinWRes(f, wl, wr, lhs, rhs)[c]}]
                      /\ lhs' = <<>> /\ rhs' = <<>>
(* OPERANDS PRODUCED BY SEQUENCE CONSTRUCTS.  The EBV is a function of the sequence VALUE, whatever
   expression produced it.  Via(w, S) is the value of a construct applied to S -- fn:reverse twice,
   fn:subsequence from 1, a `for` over S, the filter [true()], S comma (), the members of an array, a
   map entry -- (each is the identity on sequences: invariant InvVia); RangeSeq(a, b) is the range
   expression `a to b`.  FnVia / FnRange apply boolean / not / if to such an operand, BinVia /
   BinRange combine it with a boolean operand on the other side ("L": construct on the left). *)
RECURSIVE Rev(_)
Rev(S) == IF S = <<>> THEN <<>> ELSE Append(Rev(Tail(S)), Head(S))
Vias == {"revrev", "subseq", "for", "filter", "comma", "arr", "map"}
Via(w, S) == CASE w = "revrev" -> Rev(Rev(S))
               [] w = "subseq" -> SubSeq(S, 1, Len(S))
               [] w = "for" -> [i \in 1..Len(S) |-> S[i]]
               [] w = "filter" -> SelectSeq(S, LAMBDA x : TRUE)
               [] w = "comma" -> S \o <<>>
               [] OTHER -> S
Ranges == {<<1, 0>>, <<0, 0>>, <<1, 1>>, <<1, 2>>}
RangeSeq(a, b) == [i \in 1..(b - a + 1) |-> Num("int", (a + i - 1) * Unit)]
BoolOperand(S) == S \in {<<Bool(TRUE)>>, <<Bool(FALSE)>>}
Done == lhs' = <<>> /\ rhs' = <<>>
FnVia(f, w) == res = NoRes /\ rhs = <<>> /\ res' = LRes(f, Via(w, lhs), rhs) /\ Done
FnRange(f, a, b) == res = NoRes /\ rhs = <<>> /\ lhs = RangeSeq(a, b) /\ res' = LRes(f, RangeSeq(a, b), rhs) /\ Done
BinVia(f, w, side) ==
  /\ res = NoRes /\ Done
  /\ \/ side = "L" /\ BoolOperand(rhs) /\ res' = LRes(f, Via(w, lhs), rhs)
     \/ side = "R" /\ BoolOperand(lhs) /\ res' = LRes(f, lhs, Via(w, rhs))
BinRange(f, a, b, side) ==
  /\ res = NoRes /\ Done
  /\ \/ side = "L" /\ BoolOperand(rhs) /\ lhs = RangeSeq(a, b) /\ res' = LRes(f, RangeSeq(a, b), rhs)
     \/ side = "R" /\ BoolOperand(lhs) /\ rhs = RangeSeq(a, b) /\ res' = LRes(f, lhs, RangeSeq(a, b))
LNext == \/ \E v \in Items : AppendL(v) \/ AppendR(v)
         \/ \E f \in {"boolean", "not", "if"} : Fn(f)
         \/ \E f \in {"and", "or"} : Bin(f)
         \/ \E f \in {"boolean", "not", "if"}, w \in Vias : FnVia(f, w)
         \/ \E f \in {"boolean", "not", "if"}, r \in Ranges : FnRange(f, r[1], r[2])
         \/ \E f \in {"and", "or"}, w \in Vias, side \in {"L", "R"} : BinVia(f, w, side)
         \/ \E f \in {"and", "or"}, r \in Ranges, side \in {"L", "R"} : BinRange(f, r[1], r[2], side)
         \/ \E f \in {"and", "or"}, wl \in Wraps, wr \in Wraps : BinW(f, wl, wr) \/ NotBinW(f, wl, wr)
LSpec == Init /\ [][LNext]_vars

---------------------------------------------------------------------------
ASSUME TableLaws          \* De Morgan, absorption, idempotence, commutativity, complement, order admissibility, if

(* the EBV table against the comparison tables (invariants over every reachable operand) *)
InvEBV ==
  Building =>
    LET e == EBVOf(lhs) IN
    /\ e \in EBVOutcomes
    /\ (e # "FORG0006") = (\/ lhs = <<>> \/ lhs[1].t = "node"
                           \/ (Len(lhs) = 1 /\ (lhs[1].t = "bool" \/ IsStrT(lhs[1].t) \/ IsNumT(lhs[1].t))))
    /\ (lhs = <<>>) => e = "FALSE"
    /\ (Len(lhs) = 1 /\ IsNumT(lhs[1].t)) =>        \* a number is true iff it is not zero and not NaN
          (e = "TRUE") = (Val("ne", lhs[1], I0, "v20") = "TRUE" /\ Val("eq", lhs[1], lhs[1], "v20") = "TRUE")
    /\ (Len(lhs) = 1 /\ IsStrT(lhs[1].t)) =>        \* a string is true iff it is not the zero-length string
          (e = "TRUE") = (Val("ne", lhs[1], Str(<<>>), "v20") = "TRUE")
    /\ (Len(lhs) = 1 /\ lhs[1].t = "bool") => (e = "TRUE") = (Val("eq", lhs[1], Bool(TRUE), "v20") = "TRUE")
    \* compatibility mode: S = true() is the effective boolean value of S ([GC] rule 1)
    /\ GenAny("eq", lhs, <<Bool(TRUE)>>, "c20") = (IF IsErrO(e) THEN {e} ELSE {e})
    /\ GenAny("ne", lhs, <<Bool(TRUE)>>, "c10") = {NotOut(e)}
InvLogic ==
  Building => \A c \in Cfgs :
    LET a == EBVOf(lhs)  b == EBVOf(rhs)  m == IsCompat(c) IN
    /\ {NotOut(o) : o \in LRes("and", lhs, rhs)[c]} = OrOut(NotOut(a), NotOut(b), m)      \* De Morgan on the operands
    /\ {NotOut(o) : o \in LRes("or", lhs, rhs)[c]} = AndOut(NotOut(a), NotOut(b), m)
    /\ (LRes("if", lhs, rhs)[c] = {"THEN"}) = (LRes("boolean", lhs, rhs)[c] = {"TRUE"})   \* `if` selects by EBV
    /\ (LRes("if", lhs, rhs)[c] = {"ELSE"}) = (LRes("not", lhs, rhs)[c] = {"TRUE"})
    /\ (~IsErrO(a) /\ ~IsErrO(b)) =>
          /\ LRes("and", lhs, rhs)[c] = {B2O(a = "TRUE" /\ b = "TRUE")}
          /\ LRes("or", lhs, rhs)[c] = {B2O(a = "TRUE" \/ b = "TRUE")}
          /\ \A x \in LRes("or", lhs, rhs)[c] : AndOut(a, x, m) = {a}                       \* absorption
    /\ (a = "FALSE") => "FALSE" \in LRes("and", lhs, rhs)[c]
    /\ (a = "TRUE") => "TRUE" \in LRes("or", lhs, rhs)[c]
Dual(f) == IF f = "and" THEN "or" ELSE "and"
NegWrap(w) == CASE w = "id" -> "not" [] w = "boolean" -> "not" [] w = "not" -> "boolean"
                [] w = "empty" -> "exists" [] w = "exists" -> "empty"
InvRel ==                \* commutativity and De Morgan on focus-reading operands, in every configuration
  (Building /\ RelOperand(lhs) /\ RelOperand(rhs)) =>
     \A f \in {"and", "or"}, wl \in Wraps, wr \in Wraps, c \in Cfgs :
        LET r == BinWRes(f, wl, wr, lhs, rhs)[c] IN
        /\ r = BinWRes(f, wr, wl, rhs, lhs)[c]                                          \* P f Q = Q f P
        /\ {NotOut(o) : o \in r} = BinWRes(Dual(f), NegWrap(wl), NegWrap(wr), lhs, rhs)[c]   \* not(P f Q) = not(P) f' not(Q)
        /\ Cardinality(r) = 1 /\ r \subseteq {"TRUE", "FALSE"}                          \* no error, no choice
        /\ WrapOut("empty", lhs) = NotOut(WrapOut("exists", lhs))
        /\ WrapOut("exists", lhs) = WrapOut("boolean", lhs)                            \* on node sequences
InvVia == Building => /\ \A w \in Vias : Via(w, lhs) = lhs /\ EBVOf(Via(w, lhs)) = EBVOf(lhs)
                      /\ \A r \in Ranges : /\ Len(RangeSeq(r[1], r[2])) = (IF r[2] < r[1] THEN 0 ELSE r[2] - r[1] + 1)
                                            /\ EBVOf(RangeSeq(r[1], r[2])) = (IF r[2] < r[1] THEN "FALSE"
                                                  ELSE IF r[2] > r[1] THEN "FORG0006" ELSE B2O(r[1] # 0))
LogicLaws == InvEBV /\ InvLogic /\ InvRel /\ InvVia
=============================================================================
