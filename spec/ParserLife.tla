----------------------------- MODULE ParserLife -----------------------------
(***************************************************************************)
(* Property C03, life cycle of parser instances.                           *)
(*                                                                         *)
(* STEP MACHINE modelled on elementpath/tdop.py Parser.parse/advance and   *)
(* elementpath/xpath1/xpath1_parser.py XPath1Parser.parse:                 *)
(*                                                                         *)
(*   parse(src):  tokens = iter(finditer(src))            Begin            *)
(*                advance(); expression(); ...            Advance*         *)
(*                next_token.expected('(end)')            Finish           *)
(*                finally: tokens = iter(()); next_match = None;           *)
(*                         token = next_token = _start_token    Finally    *)
(*                root.evaluate()  (static evaluation)    Post             *)
(*                return / raise                          Return           *)
(*                                                                         *)
(* The per-instance CURSOR is  [tokens, next_match, token, next_token].    *)
(* advance() starts from the cursor it finds:  `if next_token.symbol ==    *)
(* '(end)': raise wrong_syntax()`, so a cursor that is not reset after a   *)
(* parse that reached the end of its source makes every later parse fail   *)
(* immediately -- the outcome would depend on the HISTORY of the instance. *)
(* The constant ResetFields says which cursor fields the finally block     *)
(* resets; the code resets all four (faithful model).  The check runs the  *)
(* module also with one field dropped and requires TLC to find the         *)
(* violation (the specification is not vacuous).                           *)
(*                                                                         *)
(* SOURCE CLASSES (Fate): what the parse of a source of that class does    *)
(* to the cursor and what XPath says the outcome is (`def`).               *)
(*                                                                         *)
(* API VIEW: what a caller can observe -- per instance busy / cursor       *)
(* reset, and the history variable `first` (first outcome seen for every   *)
(* source class, on ANY instance).  ApiCallStep / ApiRetStep are the only  *)
(* legal observable steps: a return shows a legal outcome (Outcome.tla),   *)
(* a reset cursor, and the SAME outcome as the first parse of that source. *)
(* TLC checks that the step machine refines the API machine (property      *)
(* Refines); TraceParserLife.tla checks recorded executions of the real    *)
(* parser against the same Api*Step operators.                             *)
(***************************************************************************)
EXTENDS Naturals, Sequences, FiniteSets, TLC

CONSTANTS Instances,     \* parser instances (all created fresh in Init)
          Sources,       \* source classes used, subset of DOMAIN Fate
          MaxCalls,      \* bound on parse calls in one behaviour
          ResetFields    \* cursor fields reset by the finally block (the code: all of CursorFields)

O == INSTANCE Outcome

VARIABLES inst,     \* instance -> [pc, cur, src, n, out]
          first,    \* history: source class -> outcome of its first completed parse (any instance)
          ncalls
vars == <<inst, first, ncalls>>

CursorFields == {"tokens", "next_match", "token", "next_token"}
TokKinds == {"start", "tok", "end"}

ResetCursor == [tokens |-> 0, next_match |-> "none", token |-> "start", next_token |-> "start"]

Value(s)  == [k |-> "value", coded |-> FALSE, v |-> s]       \* the tree of source s
Err(code) == [k |-> "err", coded |-> TRUE, v |-> code]
NoOut     == [k |-> "none", coded |-> FALSE, v |-> "-"]

(* ntok: tokens of the source; advs: successful advance() calls the parse makes before it  *)
(* finishes (a complete parse of n tokens makes n+1, ending with next_token = (end));      *)
(* fin: what happens then ("tree": expected('(end)') and return; "raise": nud/led/expected *)
(* raises `code`);  advs = ntok + 2 means the parse asks for a token beyond the end and    *)
(* advance() itself raises XPST0003;  post: the static evaluation after the finally block. *)
Fate == [
  ok        |-> [ntok |-> 3, advs |-> 4, fin |-> "tree",  code |-> "-",        post |-> "-",        def |-> Value("ok")],
  ok2       |-> [ntok |-> 5, advs |-> 6, fin |-> "tree",  code |-> "-",        post |-> "-",        def |-> Value("ok2")],
  lex       |-> [ntok |-> 3, advs |-> 2, fin |-> "tree",  code |-> "-",        post |-> "-",        def |-> Err("XPST0003")],
  syntax    |-> [ntok |-> 4, advs |-> 3, fin |-> "raise", code |-> "XPST0003", post |-> "-",        def |-> Err("XPST0003")],
  syntaxend |-> [ntok |-> 3, advs |-> 5, fin |-> "tree",  code |-> "-",        post |-> "-",        def |-> Err("XPST0003")],
  comment   |-> [ntok |-> 3, advs |-> 4, fin |-> "raise", code |-> "XPST0003", post |-> "-",        def |-> Err("XPST0003")],
  unkfn     |-> [ntok |-> 4, advs |-> 2, fin |-> "raise", code |-> "XPST0017", post |-> "-",        def |-> Err("XPST0017")],
  type      |-> [ntok |-> 3, advs |-> 4, fin |-> "tree",  code |-> "-",        post |-> "XPTY0004", def |-> Err("XPTY0004")],
  prefix    |-> [ntok |-> 3, advs |-> 4, fin |-> "raise", code |-> "XPST0081", post |-> "-",        def |-> Err("XPST0081")],
  \* a failure INSIDE a construct that toggles a parser flag while it parses its operand
  \* (XPath 3.1 '1 => unknown:f()': led of '=>' sets parse_arguments, the operand raises XPST0081)
  arrowfail |-> [ntok |-> 5, advs |-> 4, fin |-> "raise", code |-> "XPST0081", post |-> "-",        def |-> Err("XPST0081")]
]

ASSUME SourcesOK == Sources \subseteq DOMAIN Fate
ASSUME ResetFieldsOK == ResetFields \subseteq CursorFields

Fresh == [pc |-> "idle", cur |-> ResetCursor, src |-> "-", n |-> 0, out |-> NoOut]

Init == /\ inst = [p \in Instances |-> Fresh]
        /\ first = <<>>
        /\ ncalls = 0

AllIdle == \A q \in DOMAIN inst : inst[q].pc = "idle"    \* the parser is not re-entered while it runs

(* parse(source): self.tokens = iter(self.tokenizer.finditer(source)) -- nothing else is touched *)
Begin(p, s) ==
  /\ AllIdle /\ ncalls < MaxCalls
  /\ inst' = [inst EXCEPT ![p] = [pc |-> "busy", src |-> s, n |-> 0, out |-> NoOut,
                                  cur |-> [inst[p].cur EXCEPT !.tokens = Fate[s].ntok]]]
  /\ ncalls' = ncalls + 1
  /\ UNCHANGED first

(* one call of advance() -- tdop.py:504-571 *)
Advance(p) ==
  LET r == inst[p]  c == r.cur IN
  /\ r.pc = "busy" /\ r.n < Fate[r.src].advs
  /\ IF c.next_token = "end"
       THEN inst' = [inst EXCEPT ![p].pc = "raised", ![p].out = Err("XPST0003")]      \* line 515
       ELSE IF c.tokens = 0
         THEN inst' = [inst EXCEPT ![p].n = r.n + 1,                                  \* for..else: '(end)'
                                   ![p].cur = [c EXCEPT !.token = c.next_token, !.next_token = "end"]]
         ELSE inst' = [inst EXCEPT ![p].n = r.n + 1,
                                   ![p].cur = [tokens |-> c.tokens - 1, next_match |-> "match",
                                               token |-> c.next_token, next_token |-> "tok"]]
  /\ UNCHANGED <<first, ncalls>>

(* the parse has made its advances: nud/led/expected raise, or expected('(end)') and return *)
Finish(p) ==
  LET r == inst[p]  f == Fate[r.src] IN
  /\ r.pc = "busy" /\ r.n = f.advs
  /\ IF f.fin = "raise" THEN inst' = [inst EXCEPT ![p].pc = "raised", ![p].out = Err(f.code)]
     ELSE IF r.cur.next_token # "end"
          THEN inst' = [inst EXCEPT ![p].pc = "raised", ![p].out = Err("XPST0003")]   \* expected('(end)')
          ELSE inst' = [inst EXCEPT ![p].pc = "tree", ![p].out = Value(r.src)]
  /\ UNCHANGED <<first, ncalls>>

ReturnTree(p) == Finish(p) /\ inst'[p].pc = "tree"
RaiseCoded(p) == (Finish(p) \/ Advance(p)) /\ inst'[p].pc = "raised"

ResetOf(c) == [tokens     |-> IF "tokens" \in ResetFields THEN 0 ELSE c.tokens,
               next_match |-> IF "next_match" \in ResetFields THEN "none" ELSE c.next_match,
               token      |-> IF "token" \in ResetFields THEN "start" ELSE c.token,
               next_token |-> IF "next_token" \in ResetFields THEN "start" ELSE c.next_token]

(* the finally block of Parser.parse: runs after a return AND after a raise *)
Finally(p) ==
  /\ inst[p].pc \in {"tree", "raised"}
  /\ inst' = [inst EXCEPT ![p].cur = ResetOf(inst[p].cur),
                          ![p].pc = IF inst[p].pc = "tree" THEN "post" ELSE "ret"]
  /\ UNCHANGED <<first, ncalls>>

(* XPath1Parser.parse: static evaluation of the tree (MissingContextError is swallowed) *)
Post(p) ==
  /\ inst[p].pc = "post"
  /\ inst' = [inst EXCEPT ![p].pc = "ret",
                          ![p].out = IF Fate[inst[p].src].post = "-" THEN inst[p].out
                                     ELSE Err(Fate[inst[p].src].post)]
  /\ UNCHANGED <<first, ncalls>>

Record(f, s, o) == IF s \in DOMAIN f THEN f ELSE f @@ (s :> o)

Return(p) ==
  /\ inst[p].pc = "ret"
  /\ inst' = [inst EXCEPT ![p].pc = "idle"]
  /\ first' = Record(first, inst[p].src, inst[p].out)
  /\ UNCHANGED ncalls

Next == \/ \E p \in Instances, s \in Sources : Begin(p, s)
        \/ \E p \in Instances : Advance(p)
        \/ \E p \in Instances : Finish(p)
        \/ \E p \in Instances : Finally(p)
        \/ \E p \in Instances : Post(p)
        \/ \E p \in Instances : Return(p)

Spec == Init /\ [][Next]_vars

(* ------------------------------------------------------------------------ *)
(* invariants                                                                *)
TypeOK ==
  /\ \A p \in DOMAIN inst :
        /\ inst[p].pc \in {"idle", "busy", "tree", "raised", "post", "ret"}
        /\ inst[p].cur.tokens \in 0..5 /\ inst[p].cur.next_match \in {"none", "match"}
        /\ inst[p].cur.token \in TokKinds /\ inst[p].cur.next_token \in TokKinds
  /\ DOMAIN first \subseteq Sources
  /\ ncalls \in 0..MaxCalls

(* the cursor is reset whenever control is outside Parser.parse's try block *)
ResetAfterReturn == \A p \in DOMAIN inst : inst[p].pc \in {"idle", "post", "ret"} => inst[p].cur = ResetCursor

(* only legal outcomes are ever returned: a tree or a coded ElementPathError *)
OutcomeLegal == \A p \in DOMAIN inst : inst[p].pc = "ret" => O!LegalParse(inst[p].out)

(* the outcome of Parse(src) is a function of src only: it is what XPath says for the source *)
(* class, and it repeats the first outcome observed for that class on any instance           *)
HistoryIndependent ==
  \A p \in DOMAIN inst : inst[p].pc = "ret" =>
       /\ inst[p].out = Fate[inst[p].src].def
       /\ inst[p].src \in DOMAIN first => inst[p].out = first[inst[p].src]

(* ------------------------------------------------------------------------ *)
(* API view and refinement                                                   *)
ApiIdle == [busy |-> FALSE, reset |-> TRUE, src |-> "-"]

ApiNewStep(v, f, v2, f2, p) ==
  /\ p \notin DOMAIN v
  /\ v2 = v @@ (p :> ApiIdle)
  /\ f2 = f

ApiCallStep(v, f, v2, f2, p, s) ==
  /\ p \in DOMAIN v /\ ~v[p].busy
  /\ v2 = [v EXCEPT ![p] = [busy |-> TRUE, reset |-> FALSE, src |-> s]]
  /\ f2 = f

(* o: the outcome shown; r: the cursor as projected by the caller after the return *)
RetOK(f, s, o, r) == /\ O!LegalParse(o)
                     /\ r = TRUE
                     /\ s \in DOMAIN f => f[s] = o

ApiRetStep(v, f, v2, f2, p, o, r) ==
  /\ p \in DOMAIN v /\ v[p].busy
  /\ RetOK(f, v[p].src, o, r)
  /\ v2 = [v EXCEPT ![p] = [busy |-> FALSE, reset |-> r, src |-> "-"]]
  /\ f2 = Record(f, v[p].src, o)

ApiView == [p \in DOMAIN inst |->
              IF inst[p].pc = "idle" THEN [busy |-> FALSE, reset |-> (inst[p].cur = ResetCursor), src |-> "-"]
              ELSE [busy |-> TRUE, reset |-> FALSE, src |-> inst[p].src]]

ApiNext == \E p \in Instances :
             \/ \E s \in Sources : ApiCallStep(ApiView, first, ApiView', first', p, s)
             \/ ApiRetStep(ApiView, first, ApiView', first', p, inst[p].out, inst'[p].cur = ResetCursor)

Refines == [][ApiNext]_<<ApiView, first>>

(* anti-vacuity, read from the dumped graph by the harness: both kinds of return happen *)
SomeTree == \E p \in DOMAIN inst : inst[p].pc = "ret" /\ inst[p].out.k = "value"
SomeErr  == \E p \in DOMAIN inst : inst[p].pc = "ret" /\ inst[p].out.k = "err"
=============================================================================
