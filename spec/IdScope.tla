------------------------------ MODULE IdScope ------------------------------
(***************************************************************************)
(* Growth beyond the listed properties (DESIGN section 5): xml:id and       *)
(* fn:id / fn:element-with-id.                                              *)
(*                                                                          *)
(* F&O 3.1 14.5.2 fn:id($arg as xs:string*, $node): each string of $arg is  *)
(* split on white space into candidate IDREF tokens; the result is the      *)
(* sequence, in DOCUMENT ORDER WITHOUT DUPLICATES, of the elements of the   *)
(* document of $node that have an ID value equal to one of the tokens;      *)
(* "if several elements have the same ID value, the first in document       *)
(* order is the one selected".  An xml:id attribute is an ID (XDM is-id).   *)
(* The result therefore depends on the SET of tokens only.                  *)
(*                                                                          *)
(* The machine builds a document element by element (ids[j] = the xml:id    *)
(* of element j in document order, "none" = no attribute; the shape - all   *)
(* siblings or one nested chain - does not change document order) and asks  *)
(* with token lists.                                                        *)
(***************************************************************************)
EXTENDS Naturals, Sequences, FiniteSets

CONSTANTS MaxElems, IdVals, TokenLists   \* TokenLists: a set of names, the lists are in Lists below

VARIABLES ids, shape, q, ans
vars == <<ids, shape, q, ans>>

Lists == [t1     |-> <<"i1">>,
          t2     |-> <<"i2">>,
          t12    |-> <<"i1", "i2">>,
          t21    |-> <<"i2", "i1">>,
          t11    |-> <<"i1", "i1">>,
          t212   |-> <<"i2", "i1", "i2">>,
          tz     |-> <<"zz">>,
          t1z    |-> <<"i1", "zz">>,
          tnone  |-> <<>>]

ToSet(s) == {s[j] : j \in 1..Len(s)}

(* the first element in document order carrying the id t, or 0 *)
First(t) == IF \E j \in 1..Len(ids) : ids[j] = t
            THEN CHOOSE j \in 1..Len(ids) : ids[j] = t /\ \A k \in 1..(j-1) : ids[k] # t
            ELSE 0

RECURSIVE Asc(_)
Asc(S) == IF S = {} THEN <<>>
          ELSE LET m == CHOOSE a \in S : \A b \in S : a <= b IN <<m>> \o Asc(S \ {m})

IdResult(tokens) == Asc({First(t) : t \in ToSet(tokens)} \ {0})

Init == ids = <<>> /\ shape \in {"flat", "chain"} /\ q = "none" /\ ans = <<>>

AddElem(v) == /\ Len(ids) < MaxElems
              /\ ids' = Append(ids, v) /\ q' = "none" /\ ans' = <<>> /\ UNCHANGED shape
Ask(name) == /\ Len(ids) >= 1
             /\ q' = name /\ ans' = IdResult(Lists[name]) /\ UNCHANGED <<ids, shape>>

Next == (\E v \in IdVals \cup {"none"} : AddElem(v)) \/ (\E name \in TokenLists : Ask(name))
Spec == Init /\ [][Next]_vars

---------------------------------------------------------------------------
TypeOK == Len(ids) <= MaxElems /\ shape \in {"flat", "chain"}
(* document order without duplicates *)
InvOrdered == \A a, b \in 1..Len(ans) : a < b => ans[a] < ans[b]
(* every selected element carries a requested id and is the FIRST with that id *)
InvFirst == q # "none" => \A a \in 1..Len(ans) :
               /\ ids[ans[a]] \in ToSet(Lists[q])
               /\ \A k \in 1..(ans[a] - 1) : ids[k] # ids[ans[a]]
(* every requested id that occurs in the document is represented *)
InvComplete == q # "none" => \A t \in ToSet(Lists[q]) : (\E j \in 1..Len(ids) : ids[j] = t) => \E a \in 1..Len(ans) : ids[ans[a]] = t
(* the answer depends on the set of tokens only *)
InvSetOnly == \A n1, n2 \in TokenLists : ToSet(Lists[n1]) = ToSet(Lists[n2]) => IdResult(Lists[n1]) = IdResult(Lists[n2])
=============================================================================
