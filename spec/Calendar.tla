------------------------------ MODULE Calendar ------------------------------
(***************************************************************************)
(* The proleptic Gregorian calendar and the XSD timeline (property C11).   *)
(* Integer arithmetic only; no variables (CalendarSweep.tla carries the    *)
(* sweep machine, DateChain.tla the value-state machine).                  *)
(*                                                                         *)
(* Years are ASTRONOMICAL internally (... -1, 0, 1 ...; year 0 = 1 BCE is  *)
(* a leap year).  Lexical year numbering depends on the XSD version:       *)
(*   "11": XSD 1.1 / ISO 8601 - the lexical year IS the astronomical year  *)
(*         ('0000' = 1 BCE, '-0001' = 2 BCE);                              *)
(*   "10": XSD 1.0 - there is no year 0, '-0001' = 1 BCE precedes '0001'.  *)
(*                                                                         *)
(* Day numbers count from 0001-01-01 = day 0 (python: toordinal() - 1).    *)
(* TLC integers are 32 bit: |year| <= MaxAbsYear = 5 000 000 keeps every   *)
(* day number (|n| < 1.83e9) and every intermediate product in range.      *)
(*                                                                         *)
(* Two independent formulations are given and TLC proves them equal on     *)
(* the swept windows (CalendarSweep):                                      *)
(*   definitional  - leap rule, month lengths, the day ODOMETER Succ and   *)
(*                   the classical count Ordinal (days before the year +   *)
(*                   days before the month + day - 1);                     *)
(*   closed form   - DaysFromCivil / CivilFromDays over 400-year eras      *)
(*                   with a March-based year (no table, no recursion).     *)
(***************************************************************************)
EXTENDS Integers, Sequences, TLC

MaxAbsYear == 5000000

---------------------------------------------------------------------------
(* definitional part *)
IsLeap(y) == y % 4 = 0 /\ (y % 100 # 0 \/ y % 400 = 0)      \* % is non-negative for negative y
DaysInMonth(y, m) ==
  IF m \in {1, 3, 5, 7, 8, 10, 12} THEN 31
  ELSE IF m \in {4, 6, 9, 11} THEN 30
  ELSE IF IsLeap(y) THEN 29 ELSE 28
DaysInYear(y) == IF IsLeap(y) THEN 366 ELSE 365
ValidCivil(c) == c[2] \in 1..12 /\ c[3] >= 1 /\ c[3] <= DaysInMonth(c[1], c[2])

(* the odometer: the day after / before <<y, m, d>> *)
Succ(c) ==
  IF c[3] < DaysInMonth(c[1], c[2]) THEN <<c[1], c[2], c[3] + 1>>
  ELSE IF c[2] < 12 THEN <<c[1], c[2] + 1, 1>>
  ELSE <<c[1] + 1, 1, 1>>
Pred(c) ==
  IF c[3] > 1 THEN <<c[1], c[2], c[3] - 1>>
  ELSE IF c[2] > 1 THEN <<c[1], c[2] - 1, DaysInMonth(c[1], c[2] - 1)>>
  ELSE <<c[1] - 1, 12, 31>>

(* classical count: \div floors, so the formula is valid for years <= 0 too *)
DaysBeforeYear(y) == LET p == y - 1 IN 365 * p + p \div 4 - p \div 100 + p \div 400
RECURSIVE DaysBeforeMonth(_, _)
DaysBeforeMonth(y, m) == IF m <= 1 THEN 0 ELSE DaysBeforeMonth(y, m - 1) + DaysInMonth(y, m - 1)
Ordinal(y, m, d) == DaysBeforeYear(y) + DaysBeforeMonth(y, m) + d - 1

---------------------------------------------------------------------------
(* closed form: 400-year eras of 146097 days, years starting on March 1st.
   0000-03-01 is 306 days before 0001-01-01. *)
DaysFromCivil(y, m, d) ==
  LET yy  == IF m <= 2 THEN y - 1 ELSE y
      era == yy \div 400
      yoe == yy - era * 400                         \* 0..399
      mp  == (m + 9) % 12                           \* March = 0
      doy == (153 * mp + 2) \div 5 + d - 1          \* 0..365
      doe == yoe * 365 + yoe \div 4 - yoe \div 100 + doy
  IN era * 146097 + doe - 306

CivilFromDays(n) ==
  LET z   == n + 306
      era == z \div 146097
      doe == z - era * 146097                       \* 0..146096
      yoe == (doe - doe \div 1460 + doe \div 36524 - doe \div 146096) \div 365
      doy == doe - (365 * yoe + yoe \div 4 - yoe \div 100)
      mp  == (5 * doy + 2) \div 153
      d   == doy - (153 * mp + 2) \div 5 + 1
      m   == IF mp < 10 THEN mp + 3 ELSE mp - 9
      y   == yoe + era * 400
  IN <<IF m <= 2 THEN y + 1 ELSE y, m, d>>

---------------------------------------------------------------------------
(* lexical year numbering of the two XSD versions *)
XsdVersions == {"10", "11"}
ValidLexYear(xsd, ly) == xsd = "11" \/ ly # 0
Astro(xsd, ly) == IF xsd = "11" THEN ly ELSE IF ly < 0 THEN ly + 1 ELSE ly
Lex(xsd, ay)   == IF xsd = "11" THEN ay ELSE IF ay <= 0 THEN ay - 1 ELSE ay

---------------------------------------------------------------------------
(* the timeline: a STAMP is <<days, seconds, micros>> since 0001-01-01T00:00:00,
   normalised to 0 <= seconds < 86400, 0 <= micros < 1000000 (days carries the sign).
   Durations of the dayTime kind are stamps too (Durations.tla). *)
NormStamp(dd, ss, uu) ==
  LET s1 == ss + uu \div 1000000
      u1 == uu % 1000000
  IN <<dd + s1 \div 86400, s1 % 86400, u1>>
IsStamp(a)     == a[2] \in 0..86399 /\ a[3] \in 0..999999
StampAdd(a, b) == NormStamp(a[1] + b[1], a[2] + b[2], a[3] + b[3])
StampNeg(a)    == NormStamp(-a[1], -a[2], -a[3])
StampSub(a, b) == StampAdd(a, StampNeg(b))
StampLt(a, b)  == \/ a[1] < b[1]
                  \/ a[1] = b[1] /\ a[2] < b[2]
                  \/ a[1] = b[1] /\ a[2] = b[2] /\ a[3] < b[3]
StampCmp(a, b) == IF StampLt(a, b) THEN -1 ELSE IF a = b THEN 0 ELSE 1
StampSign(a)   == StampCmp(a, <<0, 0, 0>>)

(* timezones are minutes east of UTC, -840..840 (XSD: -14:00 .. +14:00) *)
ValidTZ(tz)    == tz \in -840..840
TzStamp(tz)    == NormStamp(0, tz * 60, 0)

(* local wall-clock fields -> stamp.  hour 24 (only legal as 24:00:00) is simply 86400 seconds:
   the normalisation makes it 00:00:00 of the next day. *)
LocalStamp(ay, m, d, h, mi, s, us) == NormStamp(DaysFromCivil(ay, m, d), h * 3600 + mi * 60 + s, us)
(* the instant: local time minus the timezone offset *)
UtcOf(local, tz) == StampSub(local, TzStamp(tz))
=============================================================================
