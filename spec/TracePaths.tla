----------------------------- MODULE TracePaths -----------------------------
(***************************************************************************)
(* Code -> specification direction for property C01 (binding B): observed  *)
(* (document, path, result) triples of the real implementation on trees    *)
(* LARGER than the exhaustive universe are validated against the path      *)
(* semantics of spec/Paths.tla.  One trace file holds records              *)
(*   [p |-> parent vector, k |-> kind vector, steps |-> <<construct,...>>, *)
(*    obs |-> node ids returned by the implementation, id |-> case id]     *)
(* all with the same number N of nodes (N is a constant of XDM).           *)
(* TLC walks the file: Load(i) installs the tree of record i, Judge(i)     *)
(* evaluates the steps with the operators of Paths and compares.  Every    *)
(* mismatch is PRINTED (with what the specification expects) and the walk  *)
(* goes on, so one run judges the whole file; the harness turns printed    *)
(* mismatches into failures.  Trees are also checked to be valid XDM trees.*)
(***************************************************************************)
EXTENDS Paths, Json, IOUtils

VARIABLES i, phase
tvars == <<parent, kind, cur, i, phase>>

TraceLog == ndJsonDeserialize(IOEnv.TRACE_FILE)

Vec(s) == [j \in 1..N |-> s[j]]          \* JSON arrays arrive as sequences: make them functions on 1..N

Apply(S, st) ==
  CASE st.a = "Step"       -> OpStep(S, st.ax, st.t)
    [] st.a = "StepPred"   -> OpStepPred(S, st.ax, st.t, st.pr)
    [] st.a = "DSlash"     -> OpDSlash(S, st.ax, st.t)
    [] st.a = "DSlashPred" -> OpDSlashPred(S, st.ax, st.t, st.pr)
    [] st.a = "Paren"      -> OpParen(S, st.pr)
    [] st.a = "StepPred2"  -> OpStepPred2(S, st.ax, st.t, st.pr, st.pr2)

RECURSIVE EvalSteps(_, _)
EvalSteps(S, steps) == IF steps = <<>> THEN S ELSE EvalSteps(Apply(S, Head(steps)), Tail(steps))

Visible(S) == IF RootCfg = "R2" THEN S \ {0} ELSE S

TraceInit == /\ i = 1 /\ phase = "load"
             /\ parent = Vec(TraceLog[1].p) /\ kind = Vec(TraceLog[1].k)
             /\ cur = {StartNode}

Judge == /\ phase = "load"
         /\ cur' = EvalSteps({StartNode}, TraceLog[i].steps)
         /\ phase' = "judged"
         /\ UNCHANGED <<parent, kind, i>>

Load == /\ phase = "judged" /\ i < Len(TraceLog)
        /\ i' = i + 1 /\ phase' = "load"
        /\ parent' = Vec(TraceLog[i + 1].p) /\ kind' = Vec(TraceLog[i + 1].k)
        /\ cur' = {StartNode}

TraceNext == Judge \/ Load
TraceSpec == TraceInit /\ [][TraceNext]_tvars

(* evaluated in every state: report, never stop *)
Report ==
  /\ (phase = "load" /\ ~(parent \in ValidParents /\ ValidKinds(parent, kind))
                    /\ ~(parent \in ValidParentsDoc /\ ValidKindsDoc(parent, kind)))
        => PrintT(<<"badtree", TraceLog[i].id>>)
  /\ (phase = "judged" /\ AscSeq(Visible(cur)) # TraceLog[i].obs)
        => PrintT(<<"mismatch", <<TraceLog[i].id, AscSeq(Visible(cur))>>>>)
TraceAccepted == TLCGet("stats").diameter = 2 * Len(TraceLog)
=============================================================================
