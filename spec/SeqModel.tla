------------------------------ MODULE SeqModel ------------------------------
(***************************************************************************)
(* XPath sequence expressions and the F&O sequence / aggregate functions   *)
(* as a VALUE-STATE MACHINE (property C08).                                *)
(*                                                                         *)
(* State  st = [k |-> "seq",   s |-> <<item, ...>>, code |-> ""]           *)
(*           | [k |-> "err",   s |-> <<>>, code |-> "FORG0003" | ...]  (terminal)        *)
(*           | [k |-> "erroror", s |-> value, code |-> "*"]            (terminal: the    *)
(*                 standard allows a dynamic error OR this value - quantified           *)
(*                 expressions may stop at the first deciding binding)                   *)
(* Items are tagged records of ONE shape so that TLC never compares        *)
(* incomparable values:                                                    *)
(*   [t |-> "int"|"dec"|"flt"|"dbl"|"str"|"bool"|"node", k |-> "fin"|"nan"|"pinf"|"ninf", *)
(*    q |-> <<num, den>>, s |-> <<code points>>, ap |-> BOOLEAN]           *)
(* q is the exact value as a reduced rational; strings are sequences of    *)
(* Unicode code points (97 = "a"); booleans carry q = 1 / 0.  ap marks a   *)
(* result that is not exactly representable (avg of decimals = 4/3): it is *)
(* compared approximately and never used as an operand.  A "node" item is  *)
(* an element of a fixed document, q = <<its document-order number, 1>>;   *)
(* it is opaque (only the positional groups run on universes with nodes:   *)
(* sequences are NOT re-sorted into document order by any construct here). *)
(*                                                                         *)
(* Every action applies ONE construct of the property to the current       *)
(* sequence, with arguments from a boundary grid given as TOKENS           *)
(* ("-INF" "-1" "0" "0.5" "1" "1.5" "2" "2.5" "3" "len" "len+1" "INF"      *)
(* "NaN" "()" and double spellings "0.5e0" "2e0" "2.5e0"); Tok maps a      *)
(* token to its value, the binding maps it 1:1 to XPath text.  Behaviours  *)
(* are compositions: reverse(remove(S,2)), (for $x in S[p] return f)[q].   *)
(*                                                                         *)
(* Group "focus": evaluation is PURE - the focus (., position(), last())   *)
(* seen after a sub-expression is the focus before it.  The actions        *)
(* MapFocus / ForFocus / PredFocus / QuantFocus put a consumer F in        *)
(* {exists, empty, head, count, some, "="} over an inner filter / map that *)
(* sets its OWN focus next to a reader of the OUTER focus; F may abandon   *)
(* the inner iteration early, the definitional value does not care.        *)
(*                                                                         *)
(* The operators are the DEFINITIONAL list model of F&O; the laws quoted   *)
(* by the property relate two independent formulations and are TLC         *)
(* invariants (Laws).                                                      *)
(*                                                                         *)
(* Implementation-dependent, excluded: order of fn:distinct-values and the *)
(* type of the representative it keeps (the binding compares the result as *)
(* a set of equality classes), fn:unordered, which of two errors is raised *)
(* first (only the outcome class is compared, the code only for            *)
(* FORG0003/4/5), precision of non-terminating xs:decimal division, which  *)
(* of several equal extreme items fn:min/fn:max return in XPath 2.0.       *)
(***************************************************************************)
EXTENDS Integers, Sequences, FiniteSets, TLC

CONSTANTS MaxDepth,      \* TLCGet("level") bound: level N = chains of N-1 constructs
          MaxLen,        \* sequences longer than this are terminal
          InitLen,       \* initial sequences have length 0..InitLen
          UniverseName,  \* "u2" | "u3" | "u3n" | "un" | "uf" | "u4" | "u7" | "u9" | "ux"
          GridName,      \* "small" | "full"
          Groups         \* subset of {"pos", "range", "iter", "agg", "cat", "focus", "nodes", "coll"}

VARIABLE st
vars == <<st>>

---------------------------------------------------------------------------
(* exact rationals *)
Abs(x) == IF x < 0 THEN -x ELSE x
RECURSIVE GCD(_, _)
GCD(a, b) == IF b = 0 THEN a ELSE GCD(b, a % b)
Norm(n, d) == IF n = 0 THEN <<0, 1>>
              ELSE LET sg == IF d < 0 THEN -1 ELSE 1
                       g == GCD(Abs(n), Abs(d))
                   IN <<(sg * n) \div g, (sg * d) \div g>>
QAdd(a, b) == Norm(a[1] * b[2] + b[1] * a[2], a[2] * b[2])
QDiv(a, b) == Norm(a[1] * b[2], a[2] * b[1])          \* b # 0
QLt(a, b)  == a[1] * b[2] < b[1] * a[2]
QFloor(a)  == a[1] \div a[2]                           \* TLA+ \div floors (den > 0)
Half       == <<1, 2>>
RECURSIVE StripFactor(_, _)
StripFactor(d, f) == IF d % f = 0 THEN StripFactor(d \div f, f) ELSE d
Terminating(q) == StripFactor(StripFactor(q[2], 2), 5) = 1
Dyadic(q)      == StripFactor(q[2], 2) = 1

---------------------------------------------------------------------------
(* items *)
Item(t, k, q, s) == [t |-> t, k |-> k, q |-> q, s |-> s, ap |-> FALSE]
IntV(n)      == Item("int", "fin", <<n, 1>>, <<>>)
Dec(n, d)   == Item("dec", "fin", Norm(n, d), <<>>)
Dbl(n, d)   == Item("dbl", "fin", Norm(n, d), <<>>)
Flt(n, d)   == Item("flt", "fin", Norm(n, d), <<>>)
Special(t, k) == Item(t, k, <<0, 1>>, <<>>)
DblNaN      == Special("dbl", "nan")
Str(s)      == Item("str", "fin", <<0, 1>>, s)
Bool(b)     == Item("bool", "fin", <<IF b THEN 1 ELSE 0, 1>>, <<>>)
(* nodes of the fixed document <r><n k="x">5</n><n k="y">6</n><n k="z">7</n></r>, numbered in DOCUMENT
   ORDER: 1 = r, 2 = n[1], 3 = n[1]/@k, 4 = n[2], 5 = n[2]/@k, 6 = n[3], 7 = n[3]/@k *)
Node(i)     == Item("node", "fin", <<i, 1>>, <<>>)

NumTypes  == {"int", "dec", "flt", "dbl"}
IsNum(x)  == x.t \in NumTypes
IsNaN(x)  == x.k = "nan"
IsInf(x)  == x.k \in {"pinf", "ninf"}
IsFin(x)  == x.k = "fin"
Rank(t)   == CASE t = "int" -> 1 [] t = "dec" -> 2 [] t = "flt" -> 3 [] t = "dbl" -> 4
Promote(ta, tb) == IF Rank(ta) >= Rank(tb) THEN ta ELSE tb
IsFloatT(t) == t \in {"flt", "dbl"}
(* a finite numeric result of type t *)
MkFin(t, q) == [t |-> t, k |-> "fin", q |-> q, s |-> <<>>,
                ap |-> IF IsFloatT(t) THEN ~Dyadic(q) ELSE ~Terminating(q)]

(* op:numeric-add on two numeric items (F&O 4.2.1), type = promoted type *)
NumAdd(a, b) ==
  LET t == Promote(a.t, b.t) IN
  IF IsNaN(a) \/ IsNaN(b) THEN Special(t, "nan")
  ELSE IF IsInf(a) /\ IsInf(b) THEN (IF a.k = b.k THEN Special(t, a.k) ELSE Special(t, "nan"))
  ELSE IF IsInf(a) THEN Special(t, a.k)
  ELSE IF IsInf(b) THEN Special(t, b.k)
  ELSE MkFin(t, QAdd(a.q, b.q))

(* numeric comparison by value (op:numeric-equal / less-than): NaN compares false *)
NumEq(a, b) == ~IsNaN(a) /\ ~IsNaN(b) /\
               ((a.k = b.k /\ a.k # "fin") \/ (IsFin(a) /\ IsFin(b) /\ a.q = b.q))
NumLt(a, b) == ~IsNaN(a) /\ ~IsNaN(b) /\
               \/ (a.k = "ninf" /\ b.k # "ninf")
               \/ (b.k = "pinf" /\ a.k # "pinf")
               \/ (IsFin(a) /\ IsFin(b) /\ QLt(a.q, b.q))
NumLe(a, b) == NumLt(a, b) \/ NumEq(a, b)
(* fn:round: half towards positive infinity; specials unchanged *)
NumRound(a) == IF IsFin(a) THEN [a EXCEPT !.q = <<QFloor(QAdd(a.q, Half)), 1>>] ELSE a

(* code-point order on strings *)
RECURSIVE SeqLt(_, _)
SeqLt(a, b) == IF b = <<>> THEN FALSE
               ELSE IF a = <<>> THEN TRUE
               ELSE IF Head(a) # Head(b) THEN Head(a) < Head(b)
               ELSE SeqLt(Tail(a), Tail(b))

(* value comparison  a op b : "T" | "F" | "XPTY0004" *)
CmpOps == {"eq", "ne", "lt", "le", "gt", "ge"}
TF(b) == IF b THEN "T" ELSE "F"
Lt(a, b) == IF IsNum(a) THEN NumLt(a, b) ELSE IF a.t = "str" THEN SeqLt(a.s, b.s) ELSE QLt(a.q, b.q)
Eq(a, b) == IF IsNum(a) THEN NumEq(a, b) ELSE IF a.t = "str" THEN a.s = b.s ELSE a.q = b.q
Comparable(a, b) == (IsNum(a) /\ IsNum(b)) \/ (a.t = b.t /\ a.t \in {"str", "bool"})
VC(op, a, b) ==
  IF ~Comparable(a, b) THEN "XPTY0004"
  ELSE CASE op = "eq" -> TF(Eq(a, b))
         [] op = "ne" -> TF(IF IsNum(a) THEN ~NumEq(a, b) ELSE ~Eq(a, b))
         [] op = "lt" -> TF(Lt(a, b))
         [] op = "gt" -> TF(Lt(b, a))
         [] op = "le" -> TF(Lt(a, b) \/ Eq(a, b))
         [] op = "ge" -> TF(Lt(b, a) \/ Eq(a, b))
(* eq as used by index-of / distinct-values: incomparable = not equal, never an error *)
(* xs:untypedAtomic items ("unt", lexical form in s) are compared AS STRINGS by index-of / distinct-values *)
AsStr(x) == IF x.t = "unt" THEN [x EXCEPT !.t = "str"] ELSE x
SameValue(a, b) == Comparable(AsStr(a), AsStr(b)) /\ Eq(AsStr(a), AsStr(b))

---------------------------------------------------------------------------
(* outcomes *)
OK(s)     == [k |-> "seq", s |-> s, code |-> ""]
Err(c)    == [k |-> "err", s |-> <<>>, code |-> c]
ErrOr(s)  == [k |-> "erroror", s |-> s, code |-> "*"]
IsErr(r)  == r.k = "err"
IsTruth(x) == x \in {"T", "F"}

(* generic list helpers *)
RECURSIVE Flat(_, _)
Flat(F, i) == IF i > Len(F) THEN <<>> ELSE F[i] \o Flat(F, i + 1)
Concat(F)  == Flat(F, 1)                       \* F: sequence of sequences
Pick(S, P) == Concat([i \in 1..Len(S) |-> IF P[i] THEN <<S[i]>> ELSE <<>>])   \* P: 1..Len(S) -> BOOLEAN
Rev(S)     == [i \in 1..Len(S) |-> S[Len(S) + 1 - i]]
Sub(S, m, n) == IF m > n THEN <<>> ELSE SubSeq(S, m, n)
Ints(a, b) == [i \in 1..(IF b >= a THEN b - a + 1 ELSE 0) |-> IntV(a + i - 1)]   \* a to b
FirstErr(R) == R[CHOOSE i \in 1..Len(R) : IsErr(R[i]) /\ \A j \in 1..(i - 1) : ~IsErr(R[j])]
(* sequence of per-item outcomes -> outcome: the first error, else the concatenation *)
Combine(R) == IF \E i \in 1..Len(R) : IsErr(R[i]) THEN FirstErr(R)
              ELSE OK(Concat([i \in 1..Len(R) |-> R[i].s]))

---------------------------------------------------------------------------
(* effective boolean value of a sequence of atomic items (XPath 2.4.3): "T" | "F" | "FORG0006" *)
EBV(v) == IF Len(v) = 0 THEN "F"
          ELSE IF Len(v) > 1 THEN "FORG0006"
          ELSE LET x == v[1] IN
               IF x.t = "bool" THEN TF(x.q[1] = 1)
               ELSE IF x.t = "str" THEN TF(Len(x.s) > 0)
               ELSE TF(~IsNaN(x) /\ ~(IsFin(x) /\ x.q[1] = 0))
(* truth of a predicate whose value is v at context position i (XPath 3.3.2): a singleton
   numeric value selects by position, anything else by its EBV *)
PredTruth(i, v) == IF Len(v) = 1 /\ IsNum(v[1]) THEN TF(NumEq(v[1], IntV(i))) ELSE EBV(v)
(* S[pred], TT[i] = truth or error code at position i *)
FilterTT(S, TT) == IF \E i \in 1..Len(S) : ~IsTruth(TT[i])
                   THEN Err(TT[CHOOSE i \in 1..Len(S) : ~IsTruth(TT[i]) /\ \A j \in 1..(i - 1) : IsTruth(TT[j])])
                   ELSE OK(Pick(S, [i \in 1..Len(S) |-> TT[i] = "T"]))
(* V[i] = value of the predicate expression at position i *)
FilterBy(S, V) == FilterTT(S, [i \in 1..Len(S) |-> PredTruth(i, V[i])])
And3(a, b) == IF ~IsTruth(a) THEN a ELSE IF ~IsTruth(b) THEN b ELSE TF(a = "T" /\ b = "T")

---------------------------------------------------------------------------
(* argument tokens of the boundary grid -> value (a sequence: "()" is the empty sequence) *)
Tok(tok, n) ==
  CASE tok = "()"    -> <<>>
    [] tok = "-INF"  -> <<Special("dbl", "ninf")>>
    [] tok = "INF"   -> <<Special("dbl", "pinf")>>
    [] tok = "NaN"   -> <<DblNaN>>
    [] tok = "-1"    -> <<IntV(-1)>>
    [] tok = "0"     -> <<IntV(0)>>
    [] tok = "1"     -> <<IntV(1)>>
    [] tok = "2"     -> <<IntV(2)>>
    [] tok = "3"     -> <<IntV(3)>>
    [] tok = "len"   -> <<IntV(n)>>
    [] tok = "len+1" -> <<IntV(n + 1)>>
    [] tok = "-0.5"  -> <<Dec(-1, 2)>>
    [] tok = "0.5"   -> <<Dec(1, 2)>>
    [] tok = "1.5"   -> <<Dec(3, 2)>>
    [] tok = "2.5"   -> <<Dec(5, 2)>>
    [] tok = "2.0"   -> <<Dec(2, 1)>>
    [] tok = "0.5e0" -> <<Dbl(1, 2)>>
    [] tok = "2e0"   -> <<Dbl(2, 1)>>
    [] tok = "2.5e0" -> <<Dbl(5, 2)>>
    [] tok = "'a'"   -> <<Str(<<97>>)>>
    [] tok = "'z'"   -> <<Str(<<122>>)>>
    [] tok = "0.0"   -> <<Dec(0, 1)>>
    [] tok = "true()" -> <<Bool(TRUE)>>
    [] tok = "1e0"   -> <<Dbl(1, 1)>>
    [] tok = "1.0"   -> <<Dec(1, 1)>>
    [] tok = "'NaN'" -> <<Str(<<78, 97, 78>>)>>
    [] tok = "'A'"   -> <<Str(<<65>>)>>
    [] tok = "-3"    -> <<IntV(-3)>>
    [] tok = "10"    -> <<IntV(10)>>
    [] tok = "0.1"   -> <<Dec(1, 10)>>
    [] tok = "0.1e0" -> <<Dbl(1, 10)>>
    [] tok = "0.3e0" -> <<Dbl(3, 10)>>
    [] tok = "(1,2)" -> <<IntV(1), IntV(2)>>

FullPos   == {"()", "-INF", "-1", "0", "0.5", "1", "1.5", "2", "2.5", "3", "len", "len+1", "INF", "NaN",
              "-0.5", "0.5e0", "2e0", "2.5e0"}
SmallPos  == {"0.5", "1", "1.5", "2.5", "len+1", "INF", "NaN"}
PosToks   == IF GridName = "full" THEN FullPos ELSE SmallPos
LenToks   == IF GridName = "full" THEN FullPos ELSE {"0.5", "1", "1.5", "INF", "NaN"}
IntToks   == IF GridName = "full" THEN {"()", "-1", "0", "1", "2", "3", "len", "len+1", "1.5", "2e0"}
             ELSE {"0", "1", "2", "len", "len+1", "2e0"}
PredToks  == PosToks \cup (IF GridName = "full" THEN {"2.0", "'a'", "true()", "(1,2)"} ELSE {"'a'", "2.0"})
PosOps    == IF GridName = "full" THEN CmpOps ELSE {"lt", "ge", "eq"}
KToks     == IF GridName = "full" THEN {"0", "1", "1.5", "2", "3", "len", "len+1", "NaN"} ELSE {"1", "1.5", "len"}
RangeToks == IF GridName = "full" THEN {"()", "-1", "0", "1", "2", "3"} ELSE {"()", "1", "3"}
ItemKToks == IF GridName = "full" THEN {"1", "2", "2.5", "1e0", "'a'", "NaN", "0.1", "0.1e0"} ELSE {"1", "2.5"}
ItemOps   == IF GridName = "full" THEN CmpOps ELSE {"gt", "eq", "le"}
SearchToks == IF GridName = "full" THEN {"()", "1", "1e0", "2.5", "'a'", "NaN", "true()", "2", "1.0", "0.1", "0.1e0", "0.3e0", "'NaN'"} ELSE {"1", "'a'", "NaN"}
ZeroToks  == {"()", "0.0", "'z'"}
I9 == IntV(9)
Sb == Str(<<98>>)
InsSeqs   == IF GridName = "full" THEN {<<>>, <<I9>>, <<Sb, I9>>} ELSE {<<>>, <<Sb, I9>>}
CatSeqs   == IF GridName = "full" THEN {<<>>, <<I9>>, <<Sb, IntV(1)>>, <<Bool(TRUE)>>, <<Flt(3, 2)>>}
             ELSE {<<I9>>, <<Bool(TRUE), Sb>>}
Seps      == {<<>>, <<45>>}                     \* "" and "-"

---------------------------------------------------------------------------
(* DEFINITIONS: the F&O list model.  S is the current sequence, n its length. *)

(* 15.1 general functions *)
FnCount(S)   == OK(<<IntV(Len(S))>>)
FnEmpty(S)   == OK(<<Bool(Len(S) = 0)>>)
FnExists(S)  == OK(<<Bool(Len(S) > 0)>>)
FnHead(S)    == OK(IF S = <<>> THEN <<>> ELSE <<S[1]>>)
FnTail(S)    == OK(IF S = <<>> THEN <<>> ELSE Tail(S))
FnReverse(S) == OK(Rev(S))

(* fn:remove($target, $position as xs:integer) *)
FnRemove(S, a) ==
  IF Len(a) # 1 \/ a[1].t # "int" THEN Err("XPTY0004")
  ELSE OK(Pick(S, [i \in 1..Len(S) |-> i # a[1].q[1]]))
(* fn:insert-before($target, $position as xs:integer, $inserts): position < 1 means 1,
   position > count means count + 1 *)
FnInsertBefore(S, a, T) ==
  IF Len(a) # 1 \/ a[1].t # "int" THEN Err("XPTY0004")
  ELSE LET p0 == a[1].q[1]
           p  == IF p0 < 1 THEN 1 ELSE IF p0 > Len(S) THEN Len(S) + 1 ELSE p0
       IN OK(Sub(S, 1, p - 1) \o T \o Sub(S, p, Len(S)))

(* fn:subsequence: DEFINED by F&O as the filter expression
     $S[fn:round($start) le position() and position() lt fn:round($start) + fn:round($length)]
   with xs:double arithmetic (INF, NaN) *)
IsDblArg(a) == Len(a) = 1 /\ IsNum(a[1])        \* numeric types promote to xs:double
Subseq3Filter(S, a, b) ==
  IF ~IsDblArg(a) \/ ~IsDblArg(b) THEN Err("XPTY0004")
  ELSE LET ra == NumRound(a[1])
           rb == NumRound(b[1])
       IN OK(Pick(S, [i \in 1..Len(S) |-> NumLe(ra, IntV(i)) /\ NumLt(IntV(i), NumAdd(ra, rb))]))
Subseq2Filter(S, a) ==
  IF ~IsDblArg(a) THEN Err("XPTY0004")
  ELSE OK(Pick(S, [i \in 1..Len(S) |-> NumLe(NumRound(a[1]), IntV(i))]))
(* the same function as an explicit list model: a contiguous slice *)
Subseq3List(S, a, b) ==
  IF ~IsDblArg(a) \/ ~IsDblArg(b) THEN Err("XPTY0004")
  ELSE LET ra == NumRound(a[1])
           rb == NumRound(b[1])
       IN IF IsNaN(ra) \/ IsNaN(rb) \/ IsInf(ra) \/ rb.k = "ninf" THEN OK(<<>>)   \* -INF + x is -INF or NaN
          ELSE LET p  == ra.q[1]
                   lo == IF p < 1 THEN 1 ELSE p
               IN IF rb.k = "pinf" THEN OK(Sub(S, lo, Len(S)))
                  ELSE LET hi0 == p + rb.q[1] - 1
                           hi  == IF hi0 > Len(S) THEN Len(S) ELSE hi0
                       IN OK(Sub(S, lo, hi))
Subseq2List(S, a) ==
  IF ~IsDblArg(a) THEN Err("XPTY0004")
  ELSE LET ra == NumRound(a[1]) IN
       IF IsNaN(ra) \/ ra.k = "pinf" THEN OK(<<>>)
       ELSE IF ra.k = "ninf" THEN OK(S)
       ELSE OK(Sub(S, IF ra.q[1] < 1 THEN 1 ELSE ra.q[1], Len(S)))

(* fn:index-of($seq, $search as xs:anyAtomicType): positions of the items that are eq to $search *)
FnIndexOf(S, v) ==
  IF Len(v) # 1 THEN Err("XPTY0004")
  ELSE OK(Concat([i \in 1..Len(S) |-> IF SameValue(S[i], v[1]) THEN <<IntV(i)>> ELSE <<>>]))
(* fn:distinct-values: one representative per equality class, NaN equal to NaN.  Here: first occurrences *)
DistinctEq(a, b) == SameValue(a, b) \/ (IsNum(a) /\ IsNum(b) /\ IsNaN(a) /\ IsNaN(b))
FnDistinct(S) == OK(Pick(S, [i \in 1..Len(S) |-> \A j \in 1..(i - 1) : ~DistinctEq(S[j], S[i])]))

(* cardinality functions *)
FnZeroOrOne(S)  == IF Len(S) > 1 THEN Err("FORG0003") ELSE OK(S)
FnOneOrMore(S)  == IF Len(S) = 0 THEN Err("FORG0004") ELSE OK(S)
FnExactlyOne(S) == IF Len(S) # 1 THEN Err("FORG0005") ELSE OK(S)

(* aggregates, F&O 15.4 *)
AllNum(S) == \A i \in 1..Len(S) : IsNum(S[i])
(* atomization: an (untyped) node gives the xs:untypedAtomic of its text; document
   <r><n k="x">5</n><n k="y">NaN</n><n k="z">7</n></r>, ids in document order *)
Unt(s) == [t |-> "unt", k |-> "fin", q |-> <<0, 1>>, s |-> s, ap |-> FALSE]
TextOf(d) == CASE d = 2 -> <<53>> [] d = 4 -> <<78, 97, 78>> [] d = 6 -> <<55>>
               [] d = 3 -> <<120>> [] d = 5 -> <<121>> [] d = 7 -> <<122>> [] d = 1 -> <<53, 78, 97, 78, 55>>
Atomize(S) == [i \in 1..Len(S) |-> IF S[i].t = "node" THEN Unt(TextOf(S[i].q[1])) ELSE S[i]]
(* fn:sum / avg / min / max cast xs:untypedAtomic to xs:double (FORG0001 if the cast fails) *)
UntDouble(s) == CASE s = <<50>> -> <<Item("dbl", "fin", <<2, 1>>, <<>>)>> [] s = <<53>> -> <<Item("dbl", "fin", <<5, 1>>, <<>>)>>
                  [] s = <<55>> -> <<Item("dbl", "fin", <<7, 1>>, <<>>)>>
                  [] s = <<78, 97, 78>> -> <<Special("dbl", "nan")>>
                  [] s = <<73, 78, 70>> -> <<Special("dbl", "pinf")>>
                  [] OTHER -> <<>>
AggPrep(S) ==
  LET A == Atomize(S) IN
  IF \E i \in 1..Len(A) : A[i].t = "unt" /\ UntDouble(A[i].s) = <<>> THEN Err("FORG0001")
  ELSE OK([i \in 1..Len(A) |-> IF A[i].t = "unt" THEN UntDouble(A[i].s)[1] ELSE A[i]])
NoUnt(S) == \A i \in 1..Len(S) : S[i].t \notin {"unt", "node"}
RECURSIVE FoldAdd(_, _, _)
FoldAdd(acc, S, i) == IF i > Len(S) THEN acc ELSE FoldAdd(NumAdd(acc, S[i]), S, i + 1)
FnSum(S, z) ==                      \* z: the $zero argument (a sequence), <<IntV(0)>> by default
  IF S = <<>> THEN OK(z)
  ELSE IF ~AllNum(S) THEN Err("FORG0006")
  ELSE OK(<<FoldAdd(S[1], S, 2)>>)
(* the same sum in closed form: promoted type of all items, exact rational sum, NaN absorbing *)
RECURSIVE QSum(_, _)
QSum(S, i) == IF i > Len(S) THEN <<0, 1>> ELSE QAdd(S[i].q, QSum(S, i + 1))
RECURSIVE TypeOfAll(_, _)
TypeOfAll(S, i) == IF i = Len(S) THEN S[i].t ELSE Promote(S[i].t, TypeOfAll(S, i + 1))
AnyNaN(S) == \E i \in 1..Len(S) : IsNaN(S[i])
SumClosed(S) == IF AnyNaN(S) THEN Special(TypeOfAll(S, 1), "nan") ELSE MkFin(TypeOfAll(S, 1), QSum(S, 1))
(* fn:avg = fn:sum div fn:count; integer div integer is xs:decimal *)
FnAvg(S) ==
  IF S = <<>> THEN OK(<<>>)
  ELSE IF ~AllNum(S) THEN Err("FORG0006")
  ELSE LET sm == FoldAdd(S[1], S, 2)
           t  == IF sm.t = "int" THEN "dec" ELSE sm.t
       IN IF IsNaN(sm) THEN OK(<<Special(t, "nan")>>)
          ELSE OK(<<MkFin(t, QDiv(sm.q, <<Len(S), 1>>))>>)
(* fn:min / fn:max (F&O 3.1): numeric values are converted to their least common type reachable by
   promotion and SUBTYPE SUBSTITUTION (an xs:integer stays an xs:integer among xs:decimal values);
   NaN if any value is NaN; otherwise the first item c with c ge/le every item; xs:string and
   xs:boolean only among themselves; anything else FORG0006 *)
Extreme(S, mx) ==
  S[CHOOSE i \in 1..Len(S) :
       /\ \A j \in 1..Len(S) : IF mx THEN ~Lt(S[i], S[j]) ELSE ~Lt(S[j], S[i])
       /\ \A h \in 1..(i - 1) : \E j \in 1..Len(S) : IF mx THEN Lt(S[h], S[j]) ELSE Lt(S[j], S[h])]
FnMinMax(S, mx) ==
  IF S = <<>> THEN OK(<<>>)
  ELSE IF AllNum(S)
  THEN LET t == TypeOfAll(S, 1) IN
       IF AnyNaN(S) THEN OK(<<Special(IF IsFloatT(t) THEN t ELSE "dbl", "nan")>>)
       ELSE LET e == Extreme(S, mx) IN
            OK(<<IF IsFloatT(t) THEN [e EXCEPT !.t = t] ELSE e>>)
  ELSE IF \A i \in 1..Len(S) : S[i].t = "str" THEN OK(<<Extreme(S, mx)>>)
  ELSE IF \A i \in 1..Len(S) : S[i].t = "bool" THEN OK(<<Extreme(S, mx)>>)
  ELSE Err("FORG0006")

(* string value of an atomic item (casting to xs:string, F&O 19.1.2.2 within 1e-6 .. 1e6) *)
RECURSIVE Digits(_)
Digits(n) == IF n < 10 THEN <<48 + n>> ELSE Digits(n \div 10) \o <<48 + (n % 10)>>
RECURSIVE FracDigits(_, _)
FracDigits(r, d) == IF r = 0 THEN <<>> ELSE <<48 + ((r * 10) \div d)>> \o FracDigits((r * 10) % d, d)
StrOfNum(x) ==
  IF IsNaN(x) THEN <<78, 97, 78>>
  ELSE IF x.k = "pinf" THEN <<73, 78, 70>>
  ELSE IF x.k = "ninf" THEN <<45, 73, 78, 70>>
  ELSE LET n == Abs(x.q[1])
           d == x.q[2]
           body == Digits(n \div d) \o (IF n % d = 0 THEN <<>> ELSE <<46>> \o FracDigits(n % d, d))
       IN (IF x.q[1] < 0 THEN <<45>> ELSE <<>>) \o body
StrOf(x) == IF x.t = "str" THEN x.s
            ELSE IF x.t = "bool" THEN (IF x.q[1] = 1 THEN <<116, 114, 117, 101>> ELSE <<102, 97, 108, 115, 101>>)
            ELSE StrOfNum(x)
RECURSIVE Join(_, _, _)
Join(P, sep, i) == IF i > Len(P) THEN <<>>
                   ELSE IF i = Len(P) THEN P[i] ELSE P[i] \o sep \o Join(P, sep, i + 1)
AllStr(S) == \A i \in 1..Len(S) : S[i].t = "str"
FnStringJoin(S, sep) == OK(<<Str(Join([i \in 1..Len(S) |-> StrOf(S[i])], sep, 1))>>)

---------------------------------------------------------------------------
(* expressions *)

(* E[pred] with a constant predicate value *)
ExPredConst(S, v) == FilterBy(S, [i \in 1..Len(S) |-> v])
(* E[.] : the predicate value is the context item *)
ExPredSelf(S) == FilterBy(S, [i \in 1..Len(S) |-> <<S[i]>>])
(* E[position() op k] *)
ExPredPos(S, op, k) == FilterTT(S, [i \in 1..Len(S) |-> VC(op, IntV(i), k[1])])
(* E[. op k] *)
ExPredItem(S, op, k) == FilterTT(S, [i \in 1..Len(S) |-> VC(op, S[i], k[1])])
(* E[last()], E[last() - 1], E[position() = last()], E[position() lt last()] *)
LastForms == {"last", "last-1", "pos=last", "pos<last"}
ExPredLast(S, form) ==
  LET n == Len(S) IN
  CASE form = "last"     -> ExPredConst(S, <<IntV(n)>>)
    [] form = "last-1"   -> ExPredConst(S, <<IntV(n - 1)>>)
    [] form = "pos=last" -> FilterTT(S, [i \in 1..n |-> TF(i = n)])
    [] form = "pos<last" -> FilterTT(S, [i \in 1..n |-> TF(i < n)])
(* a to b  (empty operand -> empty sequence) *)
ExRange(a, b) == IF a = <<>> \/ b = <<>> THEN <<>> ELSE Ints(a[1].q[1], b[1].q[1])
(* E[position() = (a to b)] : general comparison with a sequence of integers *)
ExPredRange(S, a, b) ==
  LET R == ExRange(a, b) IN
  FilterTT(S, [i \in 1..Len(S) |-> TF(\E j \in 1..Len(R) : NumEq(IntV(i), R[j]))])
(* the F&O expansion of fn:subsequence written out as a predicate *)
ExSubseqPred(S, a, b) ==
  LET ra == NumRound(a[1])
      rb == NumRound(b[1])
  IN FilterTT(S, [i \in 1..Len(S) |->
        And3(VC("le", ra, IntV(i)), VC("lt", IntV(i), NumAdd(ra, rb)))])

(* x + 1 *)
PlusOne(x) == IF IsNum(x) THEN OK(<<NumAdd(x, IntV(1))>>) ELSE Err("XPTY0004")
(* for $x in S return BODY *)
ForBodies == IF GridName = "full" THEN {"$x", "($x, $x)", "$x + 1", "()", "1", "S[$x]", "S[. = $x]"}
             ELSE {"($x, $x)", "$x + 1", "S[$x]"}
GC(a, b) == LET r == VC("eq", a, b) IN r      \* general comparison of two atomic items = value comparison
Body(f, S, x) ==
  CASE f = "$x"       -> OK(<<x>>)
    [] f = "($x, $x)" -> OK(<<x, x>>)
    [] f = "$x + 1"   -> PlusOne(x)
    [] f = "()"       -> OK(<<>>)
    [] f = "1"        -> OK(<<IntV(1)>>)
    [] f = "S[$x]"    -> ExPredConst(S, <<x>>)                 \* a predicate inside a for
    [] f = "S[. = $x]" -> FilterTT(S, [i \in 1..Len(S) |-> GC(S[i], x)])
ExFor(S, f) == Combine([i \in 1..Len(S) |-> Body(f, S, S[i])])
(* for $x in S, $y in T return BODY2 : the second range is re-evaluated for every $x *)
For2Bodies == {"$x", "$y", "($x, $y)"}
Body2(f, x, y) == CASE f = "$x" -> <<x>> [] f = "$y" -> <<y>> [] f = "($x, $y)" -> <<x, y>>
ExFor2(S, T, f) == OK(Concat([i \in 1..Len(S) |-> Concat([j \in 1..Len(T) |-> Body2(f, S[i], T[j])])]))
(* for $i in 1 to count(S) return S[$i]   and friends: positional access through a range *)
IndexForms == {"fwd", "rev", "subseq"}
ExForIndex(S, form) ==
  LET n == Len(S)
      At(i) == ExPredConst(S, <<IntV(i)>>).s
  IN CASE form = "fwd"    -> OK(Concat([i \in 1..n |-> At(i)]))
       [] form = "rev"    -> OK(Concat([i \in 1..n |-> At(n + 1 - i)]))
       [] form = "subseq" -> OK(Concat([i \in 1..n |-> Subseq3Filter(S, <<IntV(i)>>, <<IntV(1)>>).s]))

(* E ! BODY : inner focus item / position / size *)
MapBodies == IF GridName = "full" THEN {".", "position()", "last()", "(., .)", ". + 1", "(position(), last())"}
             ELSE {"position()", "last()", ". + 1"}
ExMap(S, f) ==
  LET n == Len(S) IN
  Combine([i \in 1..n |->
     CASE f = "."          -> OK(<<S[i]>>)
       [] f = "position()" -> OK(<<IntV(i)>>)
       [] f = "last()"     -> OK(<<IntV(n)>>)
       [] f = "(., .)"     -> OK(<<S[i], S[i]>>)
       [] f = ". + 1"      -> PlusOne(S[i])
       [] f = "(position(), last())" -> OK(<<IntV(i), IntV(n)>>)])

(* quantified expressions.  Test tokens: a total type test and value comparisons (which raise
   XPTY0004 on a string or boolean item) *)
Tests == IF GridName = "full" THEN {"isint", "gt 1", "eq 1", "le 2.5", "eq 'a'"} ELSE {"isint", "gt 1"}
TestTruth(p, x) ==
  CASE p = "isint"  -> TF(x.t = "int")
    [] p = "gt 1"   -> VC("gt", x, IntV(1))
    [] p = "eq 1"   -> VC("eq", x, IntV(1))
    [] p = "le 2.5" -> VC("le", x, Dec(5, 2))
    [] p = "eq 'a'" -> VC("eq", x, Str(<<97>>))
NotT(t) == IF t = "T" THEN "F" ELSE IF t = "F" THEN "T" ELSE t
(* TT: the truth values / errors of the test for all binding tuples, in any order.
   some: true if a tuple is true; every: false if a tuple is false.  When a tuple raises an
   error and another tuple decides the result, the standard allows both outcomes. *)
QuantRes(q, TT) ==
  LET hasE == \E i \in 1..Len(TT) : ~IsTruth(TT[i])
      dec  == IF q = "some" THEN "T" ELSE "F"
      hasD == \E i \in 1..Len(TT) : TT[i] = dec
      val  == <<Bool(IF q = "some" THEN hasD ELSE ~hasD)>>
  IN IF ~hasE THEN OK(val)
     ELSE IF hasD THEN ErrOr(val)
     ELSE Err("XPTY0004")
NotRes(r) == IF r.k = "err" THEN r ELSE [r EXCEPT !.s = <<Bool(r.s[1].q[1] = 0)>>]
Other(q) == IF q = "some" THEN "every" ELSE "some"
(* form "direct": q $x in S satisfies P;  form "dual": not(q' $x in S satisfies not(P)) *)
ExQuant(S, q, p, form) ==
  IF form = "direct" THEN QuantRes(q, [i \in 1..Len(S) |-> TestTruth(p, S[i])])
  ELSE NotRes(QuantRes(Other(q), [i \in 1..Len(S) |-> NotT(TestTruth(p, S[i]))]))
(* q $x in S, $y in S satisfies $x lt $y *)
ExQuant2(S, q) ==
  LET n == Len(S) IN
  QuantRes(q, [h \in 1..(n * n) |-> VC("lt", S[((h - 1) \div n) + 1], S[((h - 1) % n) + 1])])



(* several clauses with DEPENDENT ranges: for $x in S, $y in DEP($x) return BODY.  XPath 3.9 / 3.13: a for
   (quantified) expression with several clauses is DEFINED as the nested single-clause expressions; the
   range of an inner clause is evaluated once per outer binding and may be empty for some of them. *)
Deps == {"1 to $x - 1", "$x to 2", "S[. lt $x]"}
DepRange(dep, S, x) ==
  CASE dep = "1 to $x - 1" -> IF x.t # "int" THEN Err("XPTY0004") ELSE OK(Ints(1, x.q[1] - 1))
    [] dep = "$x to 2"     -> IF x.t # "int" THEN Err("XPTY0004") ELSE OK(Ints(x.q[1], 2))
    [] dep = "S[. lt $x]"  -> ExPredItem(S, "lt", <<x>>)
DepBodies == {"$y", "($x, $y)"}
(* the definition: nested for *)
ExForDep(S, dep, f) ==
  Combine([i \in 1..Len(S) |->
     LET r == DepRange(dep, S, S[i]) IN
     IF IsErr(r) THEN r ELSE OK(Concat([j \in 1..Len(r.s) |-> Body2(f, S[i], r.s[j])]))])
(* the same as a stream of binding tuples *)
DepTuples(S, dep) ==
  Combine([i \in 1..Len(S) |->
     LET r == DepRange(dep, S, S[i]) IN
     IF IsErr(r) THEN r ELSE OK([j \in 1..Len(r.s) |-> <<S[i], r.s[j]>>])])
ExForDepTuples(S, dep, f) ==
  LET T == DepTuples(S, dep) IN
  IF IsErr(T) THEN T ELSE OK(Concat([h \in 1..Len(T.s) |-> Body2(f, T.s[h][1], T.s[h][2])]))
(* three clauses: for $x in S, $y in (1 to $x - 1), $z in ($y to 1) return BODY3 *)
Dep3Bodies == {"$z", "($x, $y, $z)"}
ExForDep3(S, f) ==
  Combine([i \in 1..Len(S) |->
     LET r == DepRange("1 to $x - 1", S, S[i]) IN
     IF IsErr(r) THEN r
     ELSE OK(Concat([j \in 1..Len(r.s) |->
             LET zs == Ints(r.s[j].q[1], 1) IN
             Concat([h \in 1..Len(zs) |-> IF f = "$z" THEN <<zs[h]>> ELSE <<S[i], r.s[j], zs[h]>>])]))])
(* q $x in S, $y in DEP($x) satisfies TEST($x, $y).  An error of a range counts like an error of the test
   (QuantRes: error or value when another tuple decides).  A filter range S[. lt $x] may be evaluated
   lazily: the items selected BEFORE the first raising item are bindings too. *)
DepTests == {"$y lt $x", "$y ge 2"}
DepTestTruth(t, x, y) == IF t = "$y lt $x" THEN VC("lt", y, x) ELSE VC("ge", y, IntV(2))
DepQuantTT(S, dep, t, x) ==
  IF dep = "S[. lt $x]"
  THEN LET tt == [j \in 1..Len(S) |-> VC("lt", S[j], x)]
           bad == {j \in 1..Len(S) : ~IsTruth(tt[j])}
           fe  == IF bad = {} THEN Len(S) + 1 ELSE CHOOSE j \in bad : \A h \in bad : j <= h
           pre == Pick(S, [j \in 1..Len(S) |-> j < fe /\ tt[j] = "T"])
       IN [j \in 1..Len(pre) |-> DepTestTruth(t, x, pre[j])] \o (IF fe <= Len(S) THEN <<tt[fe]>> ELSE <<>>)
  ELSE LET r == DepRange(dep, S, x) IN
       IF IsErr(r) THEN <<r.code>> ELSE [j \in 1..Len(r.s) |-> DepTestTruth(t, x, r.s[j])]
ExQuantDep(S, q, dep, t) == QuantRes(q, Concat([i \in 1..Len(S) |-> DepQuantTT(S, dep, t, S[i])]))

---------------------------------------------------------------------------
(* group "focus": purity of the focus.  The evaluation starts with the context item 1 at
   position 1 of 1 (select(None, expr, item=1)). *)
CtxItem == IntV(1)
T456 == <<IntV(4), IntV(5), IntV(6)>>
Consumers == IF GridName = "full" THEN {"exists", "empty", "head", "count", "some", "geq"} ELSE {"exists", "head", "count"}
Inners    == IF GridName = "full" THEN {"[. gt 4]", "[. gt 6]", "[position() ge 2]", "! (. + 1)"} ELSE {"[. gt 4]", "! (. + 1)"}
Readers   == {".", "position()", "last()"}
(* the inner expression: (4, 5, 6) filtered / mapped, with its own focus *)
InnerVal(inner) ==
  CASE inner = "[. gt 4]" -> ExPredItem(T456, "gt", <<IntV(4)>>).s
    [] inner = "[. gt 6]" -> ExPredItem(T456, "gt", <<IntV(6)>>).s
    [] inner = "[position() ge 2]" -> ExPredPos(T456, "ge", <<IntV(2)>>).s
    [] inner = "! (. + 1)" -> ExMap(T456, ". + 1").s
(* F(V): exists / empty / head / count / some $v in V satisfies $v gt 0 / V = 5 *)
ConsumerVal(F, V) ==
  CASE F = "exists" -> FnExists(V).s
    [] F = "empty"  -> FnEmpty(V).s
    [] F = "head"   -> FnHead(V).s
    [] F = "count"  -> FnCount(V).s
    [] F = "some"   -> <<Bool(\E i \in 1..Len(V) : NumLt(IntV(0), V[i]))>>
    [] F = "geq"    -> <<Bool(\E i \in 1..Len(V) : NumEq(V[i], IntV(5)))>>
(* the focus read by R when the focus is (item, pos, size) *)
ReadFocus(R, item, pos, size) ==
  CASE R = "." -> <<item>> [] R = "position()" -> <<IntV(pos)>> [] R = "last()" -> <<IntV(size)>>
(* S ! (F(inner), R): R reads the focus of the simple map *)
ExMapFocus(S, F, inner, R) ==
  OK(Concat([i \in 1..Len(S) |-> ConsumerVal(F, InnerVal(inner)) \o ReadFocus(R, S[i], i, Len(S))]))
(* for $x in S return (F(inner), R): R reads the focus of the whole expression *)
ExForFocus(S, F, inner, R) ==
  OK(Concat([i \in 1..Len(S) |-> ConsumerVal(F, InnerVal(inner)) \o ReadFocus(R, CtxItem, 1, 1)]))
(* S[(F(inner), R)[last()] = k]: R reads the focus of the predicate *)
ExPredFocus(S, F, inner, R, k) ==
  FilterTT(S, [i \in 1..Len(S) |-> GC(ReadFocus(R, S[i], i, Len(S))[1], k[1])])
(* q $x in S satisfies F((. + 1, . + 2)[. lt thr]): the clause reads the OUTER context item for every binding *)
ExQuantFocus(S, q, F, thr) ==
  LET V == ExPredItem(<<NumAdd(CtxItem, IntV(1)), NumAdd(CtxItem, IntV(2))>>, "lt", thr).s
      c == EBV(ConsumerVal(F, V))
  IN QuantRes(q, [i \in 1..Len(S) |-> c])

---------------------------------------------------------------------------
(* a range expression written DIRECTLY as the argument / binding sequence (no parentheses), bounds
   that differ by 2 and more in both directions and negative bounds: F(a to b) = F of the integers a..b *)
RangeBounds == {"-3", "-1", "1", "3", "10"}
RangeFns == {"count", "empty", "exists", "sum", "avg", "max", "min", "reverse", "head", "tail", "subsequence2",
             "distinct-values", "zero-or-one", "one-or-more", "exactly-one", "for1", "some", "every", "map1"}
ExRangeFn(F, R) ==
  CASE F = "count" -> FnCount(R) [] F = "empty" -> FnEmpty(R) [] F = "exists" -> FnExists(R)
    [] F = "sum" -> FnSum(R, <<IntV(0)>>) [] F = "avg" -> FnAvg(R)
    [] F = "max" -> FnMinMax(R, TRUE) [] F = "min" -> FnMinMax(R, FALSE)
    [] F = "reverse" -> FnReverse(R) [] F = "head" -> FnHead(R) [] F = "tail" -> FnTail(R)
    [] F = "subsequence2" -> Subseq2Filter(R, <<IntV(2)>>)
    [] F = "distinct-values" -> FnDistinct(R)
    [] F = "zero-or-one" -> FnZeroOrOne(R) [] F = "one-or-more" -> FnOneOrMore(R) [] F = "exactly-one" -> FnExactlyOne(R)
    [] F = "for1" -> ExFor(R, "1")                        \* for $x in a to b return 1
    [] F = "map1" -> ExFor(R, "1")                        \* (a to b) ! 1  -- parenthesised control
    [] F = "some" -> QuantRes("some", [i \in 1..Len(R) |-> TF(NumLt(IntV(0), R[i]))])
    [] F = "every" -> QuantRes("every", [i \in 1..Len(R) |-> TF(NumLt(IntV(0), R[i]))])

(* the STATIC DEFAULT COLLATION is part of the evaluation: index-of / distinct-values without a collation
   argument use it.  coll "cp" = Unicode codepoint, "ci" = html-ascii-case-insensitive (A-Z folded to a-z). *)
FoldS(s) == [i \in 1..Len(s) |-> IF s[i] \in 65..90 THEN s[i] + 32 ELSE s[i]]
CollKey(coll, x) == IF coll = "ci" /\ x.t = "str" THEN [x EXCEPT !.s = FoldS(x.s)] ELSE x
CollKeys(coll, S) == [i \in 1..Len(S) |-> CollKey(coll, S[i])]
FnIndexOfC(S, v, coll) == FnIndexOf(CollKeys(coll, S), CollKeys(coll, v))
FnDistinctC(S, coll) ==
  LET K == CollKeys(coll, S) IN OK(Pick(S, [i \in 1..Len(S) |-> \A j \in 1..(i - 1) : ~DistinctEq(K[j], K[i])]))

(* group "nodes": sequences of NODES.  The simple map operator and `for` concatenate in the order of the
   left operand and keep duplicates; only the path operator returns document order without duplicates. *)
IsNode(x)   == x.t = "node"
AllNodes(S) == \A i \in 1..Len(S) : IsNode(S[i])
IsElemN(d)  == d \in {2, 4, 6}
IsAttr(d)   == d \in {3, 5, 7}
(* parent::node() (the document node above r is not an item here: the step from r selects nothing) *)
ParentOf(d) == IF d = 1 THEN <<>> ELSE IF IsAttr(d) THEN <<Node(d - 1)>> ELSE <<Node(1)>>
AttrOf(d)   == IF IsElemN(d) THEN <<Node(d + 1)>> ELSE <<>>                      \* @k
ChildN(d)   == IF d = 1 THEN <<Node(2), Node(4), Node(6)>> ELSE <<>>             \* child::n
NodeBodies  == {".", "(., .)", "..", "@k", "../n"}
NodeBody(b, x) ==
  CASE b = "."      -> <<x>>
    [] b = "(., .)" -> <<x, x>>
    [] b = ".."     -> ParentOf(x.q[1])
    [] b = "@k"     -> AttrOf(x.q[1])
    [] b = "../n"   -> LET p == ParentOf(x.q[1]) IN IF p = <<>> THEN <<>> ELSE ChildN(p[1].q[1])
(* S ! BODY  and  for $x in S return $x ! BODY: concatenation, nothing else *)
ExNodeMap(S, b) == OK(Concat([i \in 1..Len(S) |-> NodeBody(b, S[i])]))
(* document order without duplicates *)
RECURSIVE SortIds(_)
SortIds(ids) == IF ids = {} THEN <<>>
                ELSE LET m == CHOOSE x \in ids : \A y \in ids : x <= y IN <<Node(m)>> \o SortIds(ids \ {m})
DocOrder(R) == SortIds({R[i].q[1] : i \in 1..Len(R)})
(* S / BODY *)
ExNodePath(S, b) == OK(DocOrder(ExNodeMap(S, b).s))

---------------------------------------------------------------------------
(* universes of items *)
Sa == Str(<<97>>)
U2 == {IntV(1), Sa}
U3 == {IntV(1), Sa, DblNaN}
U3n == {Node(2), Node(4), Sa}
Un  == {Node(2), Node(4), Node(5)}              \* two sibling elements and an attribute: all-node sequences
(* values that are FALSY in the host language: 0, 0.0, '', false() (and 1, -1 so that sum/avg/min/max reach 0) *)
(* untyped data among the numeric types: xs:untypedAtomic '2', 'NaN', 'x' and the element whose text is NaN *)
Uu  == {IntV(1), Dec(5, 2), Dbl(1, 1), Flt(3, 2), Unt(<<50>>), Unt(<<78, 97, 78>>), Unt(<<120>>), Node(4)}
(* strings that differ in case only *)
Uc  == {Sa, Str(<<65>>), Sb, IntV(1)}
Uf  == {IntV(0), Dec(0, 1), Str(<<>>), Bool(FALSE), IntV(1), IntV(-1)}
U4 == {IntV(1), IntV(2), Dec(5, 2), Sa}
U7 == {IntV(1), IntV(2), IntV(3), Dec(5, 2), Dbl(1, 1), DblNaN, Sa}
U9 == U7 \cup {Flt(3, 2), Bool(TRUE)}
(* values that are eq ACROSS the numeric types.  A finite xs:double item with a non-dyadic q (0.1e0, 0.3e0)
   stands for the double NEAREST to q, i.e. the value of that literal and of the xs:decimal q promoted to
   xs:double: F&O eq promotes the xs:decimal operand, so Dec(1,10) eq Dbl(1,10) - comparison by q is the
   F&O comparison as long as q has few digits (rounding is injective and monotone there).  Arithmetic on
   such values is inexact: MkFin marks the result ap (compared approximately, terminal). *)
UX == {IntV(1), Dec(1, 1), Flt(1, 1), Dbl(1, 1), Dec(1, 10), Dbl(1, 10), Dec(3, 10), Dbl(3, 10)}
Universe == CASE UniverseName = "u2" -> U2 [] UniverseName = "u3" -> U3 [] UniverseName = "u3n" -> U3n [] UniverseName = "un" -> Un
              [] UniverseName = "uf" -> Uf [] UniverseName = "u4" -> U4
              [] UniverseName = "uu" -> Uu [] UniverseName = "uc" -> Uc
              [] UniverseName = "u7" -> U7 [] UniverseName = "u9" -> U9 [] UniverseName = "ux" -> UX

(* atomization of nodes is not modelled: node universes only with the type-agnostic groups *)
ASSUME UniverseName \in {"u3n", "un"} => Groups \subseteq {"pos", "range", "cat", "nodes"}
ASSUME UniverseName = "uu" => Groups \subseteq {"agg", "pos", "range", "cat"}

(* a state can be used as an operand: a sequence, not too long, exact, small numbers *)
Usable == /\ st.k = "seq"
          /\ Len(st.s) <= MaxLen
          /\ \A i \in 1..Len(st.s) : ~st.s[i].ap /\ Abs(st.s[i].q[1]) < 10000 /\ st.s[i].q[2] < 1000 /\ Len(st.s[i].s) <= 12
S == st.s
N == Len(st.s)
(* chains of MaxDepth - 1 constructs: states of the last level are not expanded *)
On(g) == g \in Groups /\ Usable /\ TLCGet("level") < MaxDepth

Init == st \in {OK(s) : s \in UNION {[1..n -> Universe] : n \in 0..InitLen}}

(* ---- group "pos": purely positional constructs ---- *)
PredNum(a)        == On("pos") /\ st' = ExPredConst(S, Tok(a, N))
PredPos(op, k)    == On("pos") /\ st' = ExPredPos(S, op, Tok(k, N))
PredLast(form)    == On("pos") /\ st' = ExPredLast(S, form)
Subseq2(a)        == On("pos") /\ st' = Subseq2Filter(S, Tok(a, N))
Subseq3(a, b)     == On("pos") /\ st' = Subseq3Filter(S, Tok(a, N), Tok(b, N))
SubseqPred(a, b)  == On("pos") /\ a # "()" /\ b # "()" /\ st' = ExSubseqPred(S, Tok(a, N), Tok(b, N))
Remove(a)         == On("pos") /\ st' = FnRemove(S, Tok(a, N))
InsertBefore(a, T) == On("pos") /\ st' = FnInsertBefore(S, Tok(a, N), T)
HeadOf            == On("pos") /\ st' = FnHead(S)
TailOf            == On("pos") /\ st' = FnTail(S)
Reverse           == On("pos") /\ st' = FnReverse(S)
ForIndex(form)    == On("pos") /\ st' = ExForIndex(S, form)
(* ---- group "range": the range operator ---- *)
CommaRange(a, b)  == On("range") /\ st' = OK(S \o ExRange(Tok(a, N), Tok(b, N)))
PredRange(a, b)   == On("range") /\ st' = ExPredRange(S, Tok(a, N), Tok(b, N))
ToCount           == On("range") /\ st' = OK(Ints(1, N))
(* ---- group "iter": for / some / every / simple map / value predicates ---- *)
For(f)            == On("iter") /\ st' = ExFor(S, f)
For2(T, f)        == On("iter") /\ st' = ExFor2(S, T, f)
For2Self(f)       == On("iter") /\ st' = ExFor2(S, S, f)
(* form "clauses": for $x in S, $y in DEP return B;  form "nested": for $x in S return for $y in DEP return B *)
ForDep(dep, f, form)      == On("iter") /\ st' = ExForDep(S, dep, f)
ForDep3(f, form)          == On("iter") /\ st' = ExForDep3(S, f)
QuantDep(q, dep, t, form) == On("iter") /\ st' = ExQuantDep(S, q, dep, t)
Quant(q, p, form) == On("iter") /\ st' = ExQuant(S, q, p, form)
Quant2(q)         == On("iter") /\ st' = ExQuant2(S, q)
Map(f)            == On("iter") /\ st' = ExMap(S, f)
PredItem(op, k)   == On("iter") /\ st' = ExPredItem(S, op, Tok(k, N))
PredSelf          == On("iter") /\ st' = ExPredSelf(S)
(* ---- group "agg": functions of the values ---- *)
Count             == On("agg") /\ st' = FnCount(S)
Empty             == On("agg") /\ st' = FnEmpty(S)
Exists            == On("agg") /\ st' = FnExists(S)
IndexOf(v)        == On("agg") /\ st' = FnIndexOf(Atomize(S), Tok(v, N))
DistinctValues    == On("agg") /\ st' = FnDistinct(Atomize(S))
ZeroOrOne         == On("agg") /\ st' = FnZeroOrOne(S)
OneOrMore         == On("agg") /\ st' = FnOneOrMore(S)
ExactlyOne        == On("agg") /\ st' = FnExactlyOne(S)
Agg1(F(_), R)     == IF IsErr(R) THEN R ELSE F(R.s)
SumOf(T)          == FnSum(T, <<IntV(0)>>)
MinOf(T)          == FnMinMax(T, FALSE)
MaxOf(T)          == FnMinMax(T, TRUE)
Sum               == On("agg") /\ st' = Agg1(SumOf, AggPrep(S))
SumZero(z)        == On("agg") /\ st' = (LET R == AggPrep(S) IN IF IsErr(R) THEN R ELSE FnSum(R.s, Tok(z, N)))
Avg               == On("agg") /\ st' = Agg1(FnAvg, AggPrep(S))
Min               == On("agg") /\ st' = Agg1(MinOf, AggPrep(S))
Max               == On("agg") /\ st' = Agg1(MaxOf, AggPrep(S))
(* fn:string-join($arg as xs:string*, $sep) in 2.0 / 3.0; xs:anyAtomicType* in 3.1 *)
StringJoin(sep)      == On("agg") /\ NoUnt(S) /\ AllStr(S) /\ st' = FnStringJoin(S, sep)
StringJoinAny(sep)   == On("agg") /\ NoUnt(S) /\ ~AllStr(S) /\ st' = FnStringJoin(S, sep)      \* 3.1 only
StringJoinTypeErr    == On("agg") /\ NoUnt(S) /\ ~AllStr(S) /\ st' = Err("XPTY0004")           \* 2.0 and 3.0
(* ---- group "cat": the comma operator ---- *)
Comma(side, T)    == On("cat") /\ st' = OK(IF side = "after" THEN S \o T ELSE T \o S)

(* ---- group "focus": the focus after a sub-expression is the focus before it ---- *)
MapFocus(F, inner, R)     == On("focus") /\ st' = ExMapFocus(S, F, inner, R)
ForFocus(F, inner, R)     == On("focus") /\ st' = ExForFocus(S, F, inner, R)
PredFocus(F, inner, R, k) == On("focus") /\ st' = ExPredFocus(S, F, inner, R, Tok(k, N))
QuantFocus(q, F, thr)     == On("focus") /\ st' = ExQuantFocus(S, q, F, Tok(thr, N))

(* ---- group "nodes": ! and for keep order and duplicates of node sequences, / sorts and deduplicates ---- *)
NodeMap(b)  == On("nodes") /\ (b \in {".", "(., .)"} \/ AllNodes(S)) /\ st' = ExNodeMap(S, b)
NodeFor(b)  == On("nodes") /\ AllNodes(S) /\ st' = ExNodeMap(S, b)        \* for $x in S return $x/BODY
NodePath(b) == On("nodes") /\ AllNodes(S) /\ st' = ExNodePath(S, b)

(* ---- predicates after an AXIS STEP and after a PARENTHESISED axis step (group "nodes").
        `for $x in S return $x/BODY`, BODY = the step AXIS::NAMETEST[c][p] (form "step") or the same step in parentheses followed by [c][p] (form "paren").
        XPath 3.3.2 / 3.2.1: the predicates of an axis step count positions along the axis (reverse axes: reverse
        document order); a parenthesised expression is a SEQUENCE in document order, so EVERY predicate after the
        parenthesis counts in document order.  The step result is in document order in both forms. ---- *)
StepAxes  == {"ancestor-or-self", "ancestor", "preceding-sibling", "following-sibling"}
IsRevAxis(ax) == ax # "following-sibling"
ElemIds   == {1, 2, 4, 6}
(* the elements on the axis from node d, in document order *)
AxisOf(ax, d) ==
  LET own == IF IsAttr(d) THEN d - 1 ELSE d
      ids == CASE ax = "ancestor-or-self" -> (IF IsAttr(d) THEN {1, own} ELSE {1, d})
               [] ax = "ancestor"         -> (IF IsAttr(d) THEN {1, own} ELSE IF d = 1 THEN {} ELSE {1})
               [] ax = "preceding-sibling" -> (IF IsElemN(d) THEN {e \in {2, 4, 6} : e < d} ELSE {})
               [] ax = "following-sibling" -> (IF IsElemN(d) THEN {e \in {2, 4, 6} : e > d} ELSE {})
  IN SortIds(ids)
StepConds == {"true()", "position() ge 2", "position() le 2", "position() ge 1"}
StepPoss  == {"1", "2", "last()", "position() eq 1", "position() lt last()"}
PredApply(L, c) ==
  CASE c = "true()"               -> ExPredConst(L, <<Bool(TRUE)>>).s
    [] c = "position() ge 1"      -> ExPredPos(L, "ge", <<IntV(1)>>).s
    [] c = "position() ge 2"      -> ExPredPos(L, "ge", <<IntV(2)>>).s
    [] c = "position() le 2"      -> ExPredPos(L, "le", <<IntV(2)>>).s
    [] c = "position() eq 1"      -> ExPredPos(L, "eq", <<IntV(1)>>).s
    [] c = "1"                    -> ExPredConst(L, <<IntV(1)>>).s
    [] c = "2"                    -> ExPredConst(L, <<IntV(2)>>).s
    [] c = "last()"               -> ExPredLast(L, "last").s
    [] c = "position() lt last()" -> ExPredLast(L, "pos<last").s
AxisPredsOf(form, ax, c, p, d) ==
  LET doc == AxisOf(ax, d)
      L   == IF form = "step" /\ IsRevAxis(ax) THEN Rev(doc) ELSE doc
  IN DocOrder(PredApply(PredApply(L, c), p))
ExAxisPreds(T, form, ax, c, p) == OK(Concat([i \in 1..Len(T) |-> AxisPredsOf(form, ax, c, p, T[i].q[1])]))
AxisPreds(form, ax, c, p) == On("nodes") /\ AllNodes(S) /\ st' = ExAxisPreds(S, form, ax, c, p)

(* ---- a range as the direct operand (only from the empty sequence: the action ignores S) ---- *)
RangeFn(F, a, b) == On("range") /\ N = 0 /\ st' = ExRangeFn(F, ExRange(Tok(a, N), Tok(b, N)))
(* ---- NEAR-INTEGER arguments (group "pos").  The argument is  a + off * eps : a grid value a (an integer or x.5)
        plus an offset class off in {-1, 0, +1} of a TINY eps.  The model computes with eps = 1 / EpsDen; LawNear states
        that the outcome is the same for every eps < 1/2 (EpsDens), so the binding may use any tiny concrete eps
        (1e-10, 1e-12, 1e-13 as xs:decimal / xs:double literals or computed: the spelling sp, which the value must
        not depend on).  E[n] does NOT round: a non-integer n selects nothing however close it is to a position;
        fn:subsequence rounds (fn:round: 2.9999999999 -> 3, 2.5 - eps -> 2, 2.5 + eps -> 3). ---- *)
EpsDen    == 1000
EpsDens   == {3, 1000}
NearSpells == IF GridName = "full" THEN {"dec10", "dec12", "dbl10", "dbl13", "calc", "calcdec"} ELSE {"dec10", "calc"}
NearSpells3 == IF GridName = "full" THEN {"dec10", "dbl13", "calc"} ELSE {"calc"}
NearType(sp) == IF sp \in {"dec10", "dec12", "calcdec"} THEN "dec" ELSE "dbl"
NearPos   == IF GridName = "full" THEN {"0", "1", "2", "3", "len", "len+1"} ELSE {"1", "len"}
NearHalf  == IF GridName = "full" THEN {"0.5", "1.5", "2.5"} ELSE {"1.5"}
Offs      == {-1, 0, 1}
NearV(a, off, den, t) == <<Item(t, "fin", QAdd(a[1].q, Norm(off, den)), <<>>)>>
OnNear    == On("pos") /\ (GridName = "full" \/ TLCGet("level") = 1)
PredNear(a, off, sp)    == OnNear /\ st' = ExPredConst(S, NearV(Tok(a, N), off, EpsDen, NearType(sp)))
Subseq2Near(a, off, sp) == OnNear /\ st' = Subseq2Filter(S, NearV(Tok(a, N), off, EpsDen, NearType(sp)))
Subseq3Near(a, off, b, offb, sp) == OnNear /\ GridName = "full" /\ st' = Subseq3Filter(S, NearV(Tok(a, N), off, EpsDen, NearType(sp)),
                                                                   NearV(Tok(b, N), offb, EpsDen, NearType(sp)))
(* ---- group "coll": form "default" = no collation argument, the parser's default collation is coll;
        "arg" = the collation URI as argument (default: codepoint); "fn" = default-collation() as argument ---- *)
IndexOfC(v, coll, form) == On("coll") /\ st' = FnIndexOfC(S, Tok(v, N), coll)
DistinctC(coll, form)   == On("coll") /\ st' = FnDistinctC(S, coll)

Next ==
  \/ \E a \in PredToks : PredNum(a)
  \/ \E op \in PosOps, k \in KToks : PredPos(op, k)
  \/ \E form \in LastForms : PredLast(form)
  \/ \E a \in PosToks : Subseq2(a)
  \/ \E a \in PosToks, b \in LenToks : Subseq3(a, b)
  \/ \E a \in PosToks, b \in (IF GridName = "full" THEN LenToks ELSE {"1.5", "INF"}) : SubseqPred(a, b)
  \/ \E a \in NearPos, off \in Offs, sp \in NearSpells : PredNear(a, off, sp)
  \/ \E a \in NearPos \cup NearHalf, off \in Offs, sp \in NearSpells3 : Subseq2Near(a, off, sp)
  \/ \E a \in {"1", "2", "1.5", "2.5"}, off \in Offs, b \in {"1", "1.5"}, offb \in Offs, sp \in {"calc"} :
         Subseq3Near(a, off, b, offb, sp)
  \/ \E a \in IntToks : Remove(a)
  \/ \E a \in IntToks, T \in InsSeqs : InsertBefore(a, T)
  \/ HeadOf \/ TailOf \/ Reverse
  \/ \E form \in IndexForms : ForIndex(form)
  \/ \E a \in RangeToks, b \in RangeToks : CommaRange(a, b)
  \/ \E a \in RangeToks, b \in RangeToks : PredRange(a, b)
  \/ ToCount
  \/ \E f \in ForBodies : For(f)
  \/ \E T \in InsSeqs, f \in For2Bodies : For2(T, f)
  \/ \E f \in For2Bodies : For2Self(f)
  \/ \E dep \in Deps, f \in DepBodies, form \in {"clauses", "nested"} : ForDep(dep, f, form)
  \/ \E f \in Dep3Bodies, form \in {"clauses", "nested"} : ForDep3(f, form)
  \/ \E q \in {"some", "every"}, dep \in Deps, t \in DepTests, form \in {"clauses", "nested"} : QuantDep(q, dep, t, form)
  \/ \E q \in {"some", "every"}, p \in Tests, form \in {"direct", "dual"} : Quant(q, p, form)
  \/ \E q \in {"some", "every"} : Quant2(q)
  \/ \E f \in MapBodies : Map(f)
  \/ \E op \in ItemOps, k \in ItemKToks : PredItem(op, k)
  \/ PredSelf
  \/ Count \/ Empty \/ Exists \/ DistinctValues \/ ZeroOrOne \/ OneOrMore \/ ExactlyOne
  \/ \E v \in SearchToks : IndexOf(v)
  \/ Sum \/ Avg \/ Min \/ Max
  \/ \E z \in ZeroToks : SumZero(z)
  \/ \E sep \in Seps : StringJoin(sep)
  \/ \E sep \in Seps : StringJoinAny(sep)
  \/ StringJoinTypeErr
  \/ \E side \in {"after", "before"}, T \in CatSeqs : Comma(side, T)
  \/ \E F \in RangeFns, a \in RangeBounds, b \in RangeBounds : RangeFn(F, a, b)
  \/ \E v \in {"'a'", "'A'", "1"}, coll \in {"cp", "ci"}, form \in {"default", "arg", "fn"} : IndexOfC(v, coll, form)
  \/ \E coll \in {"cp", "ci"}, form \in {"default", "arg", "fn"} : DistinctC(coll, form)
  \/ \E b \in NodeBodies : NodeMap(b)
  \/ \E b \in {".", "..", "@k", "../n"} : NodeFor(b)
  \/ \E b \in {".", "..", "@k", "../n"} : NodePath(b)
  \/ \E form \in {"step", "paren"}, ax \in StepAxes, c \in StepConds, p \in StepPoss : AxisPreds(form, ax, c, p)
  \/ \E F \in Consumers, inner \in Inners, R \in Readers : MapFocus(F, inner, R)
  \/ \E F \in Consumers, inner \in Inners, R \in Readers : ForFocus(F, inner, R)
  \/ \E F \in Consumers, inner \in {"[. gt 4]", "! (. + 1)"}, R \in Readers, k \in {"1", "2"} : PredFocus(F, inner, R, k)
  \/ \E q \in {"some", "every"}, F \in Consumers, thr \in {"2", "3", "len+1"} : QuantFocus(q, F, thr)

Spec == Init /\ [][Next]_vars

---------------------------------------------------------------------------
(* LAWS: the equivalences quoted by the property, decided by TLC on every reachable sequence
   against the whole grid *)
(* argument sets: the whole grid on the initial sequences (level 1), the small grid on composed ones *)
LawToks == IF TLCGet("level") = 1 /\ "pos" \in Groups THEN FullPos ELSE {"-INF", "-1", "0.5", "1.5", "2", "len+1", "INF", "NaN"}
AllPos  == {Tok(a, N) : a \in LawToks}
NumArgs == {a \in AllPos : IsDblArg(a)}
IntArgs == {a \in AllPos : Len(a) = 1 /\ a[1].t = "int"}

(* every $x in S satisfies P  =  not(some $x in S satisfies not(P))  and dually *)
LawQuantDual ==
  \A q \in {"some", "every"}, p \in {"isint", "gt 1", "eq 1", "le 2.5", "eq 'a'"} :
     LET d == ExQuant(S, q, p, "direct")
         u == ExQuant(S, q, p, "dual")
     IN d = u
(* subsequence(S,a,b) = S[round(a) le position() and position() lt round(a)+round(b)] = a slice *)
LawSubseq ==
  /\ \A a \in NumArgs, b \in NumArgs :
        /\ Subseq3Filter(S, a, b) = Subseq3List(S, a, b)
        /\ Subseq3Filter(S, a, b) = ExSubseqPred(S, a, b)
  /\ \A a \in NumArgs :
        /\ Subseq2Filter(S, a) = Subseq2List(S, a)
        /\ (a[1].k # "ninf" => Subseq2Filter(S, a) = Subseq3Filter(S, a, <<Special("dbl", "pinf")>>))   \* -INF + INF = NaN
        /\ (a[1].k = "ninf" => (Subseq2Filter(S, a) = OK(S) /\ Subseq3Filter(S, a, <<Special("dbl", "pinf")>>) = OK(<<>>)))
  /\ \A a \in IntArgs : ExPredConst(S, a) = Subseq3Filter(S, a, <<IntV(1)>>)        \* S[n] = subsequence(S, n, 1)
  /\ \A a \in IntArgs : ExPredPos(S, "le", a) = Subseq3Filter(S, <<IntV(1)>>, a)    \* S[position() le k]
  /\ \A a \in IntArgs : ExPredPos(S, "ge", a) = Subseq2Filter(S, a)
(* near-integer arguments: E[n] is empty whenever the offset is not zero (no rounding, no tolerance), E[n + 0] is
   E[n] whatever the numeric type; subsequence rounds the start (and the length); independent of eps *)
LawNear ==
  \A den \in EpsDens, t \in {"dec", "dbl"} :
     /\ \A a \in {<<IntV(i)>> : i \in 0..(N + 1)}, off \in Offs :
           LET v == NearV(a, off, den, t) IN
           /\ (off # 0 => ExPredConst(S, v) = OK(<<>>))
           /\ (off = 0 => ExPredConst(S, v) = ExPredConst(S, a))
           /\ (off = 0 => ExPredConst(S, v) = OK(IF a[1].q[1] \in 1..N THEN <<S[a[1].q[1]]>> ELSE <<>>))
           /\ Subseq2Filter(S, v) = Subseq2Filter(S, a)
           /\ Subseq3Filter(S, v, <<IntV(1)>>) = ExPredConst(S, a)
           /\ \A offb \in Offs : Subseq3Filter(S, v, NearV(<<IntV(1)>>, offb, den, t)) = ExPredConst(S, a)
     /\ \A i \in 0..N, off \in Offs :
           LET h == NearV(<<Dec(2 * i + 1, 2)>>, off, den, t) IN          \* i + 0.5 + off * eps
           /\ ExPredConst(S, h) = OK(<<>>)
           /\ Subseq2Filter(S, h) = Subseq2Filter(S, <<IntV(IF off < 0 THEN i ELSE i + 1)>>)
LawReverse ==
  /\ FnReverse(FnReverse(S).s) = OK(S)
  /\ ExForIndex(S, "rev") = FnReverse(S)
  /\ ExForIndex(S, "fwd") = OK(S) /\ ExForIndex(S, "subseq") = OK(S)
LawInsert ==
  \A a \in IntArgs, T \in {<<>>, <<I9>>, <<Sb, I9>>} :
     LET r == FnInsertBefore(S, a, T).s
         p == a[1].q[1] IN
       /\ Len(r) = N + Len(T)                                           \* count(insert-before) = count + count
       /\ Pick(r, [i \in 1..Len(r) |-> (i < (IF p < 1 THEN 1 ELSE IF p > N THEN N + 1 ELSE p))
                                        \/ i >= (IF p < 1 THEN 1 ELSE IF p > N THEN N + 1 ELSE p) + Len(T)]) = S
       /\ (p > N => r = S \o T) /\ (p <= 1 => r = T \o S)
LawRemove ==
  \A a \in IntArgs :
     LET r == FnRemove(S, a).s
         p == a[1].q[1] IN
       /\ ((p < 1 \/ p > N) => r = S)                                   \* out of range: unchanged
       /\ ((p >= 1 /\ p <= N) => (Len(r) = N - 1 /\ r = Sub(S, 1, p - 1) \o Sub(S, p + 1, N)))
       /\ ((p >= 1 /\ p <= N) => FnInsertBefore(r, a, <<S[p]>>).s = S)   \* insert-before undoes remove
LawHeadTail ==
  /\ FnHead(S).s \o FnTail(S).s = S
  /\ FnHead(S) = ExPredConst(S, <<IntV(1)>>)
  /\ FnTail(S) = Subseq2Filter(S, <<IntV(2)>>)
  /\ FnTail(S) = FnRemove(S, <<IntV(1)>>)
  /\ ExPredLast(S, "last") = FnHead(FnReverse(S).s)
  /\ ExPredLast(S, "pos=last") = ExPredLast(S, "last")
  /\ ExPredLast(S, "pos<last") = FnReverse(FnTail(FnReverse(S).s).s)
LawCardinality ==
  /\ (FnZeroOrOne(S)  = IF N <= 1 THEN OK(S) ELSE Err("FORG0003"))
  /\ (FnOneOrMore(S)  = IF N >= 1 THEN OK(S) ELSE Err("FORG0004"))
  /\ (FnExactlyOne(S) = IF N = 1  THEN OK(S) ELSE Err("FORG0005"))
  /\ FnCount(S).s[1].q[1] = N
  /\ FnEmpty(S).s[1].q[1] = 1 - FnExists(S).s[1].q[1]
  /\ (FnEmpty(S).s[1].q[1] = 1) = (N = 0)
  /\ FnSum(ExFor(S, "1").s, <<IntV(0)>>).s[1].q[1] = N                  \* count(S) = sum(for $x in S return 1)
  /\ \A a \in {-3, -1, 1, 3, 10}, b \in {-3, -1, 1, 3, 10} :              \* count(a to b) is never negative
        FnCount(Ints(a, b)).s[1].q[1] = (IF b >= a THEN b - a + 1 ELSE 0)
  /\ \A v \in {<<Sa>>, <<Str(<<65>>)>>} :                                 \* codepoint collation = plain index-of; ci finds more
        /\ FnIndexOfC(S, v, "cp") = FnIndexOf(S, v)
        /\ Len(FnIndexOfC(S, v, "ci").s) >= Len(FnIndexOfC(S, v, "cp").s)
        /\ FnIndexOfC(S, <<Sa>>, "ci") = FnIndexOfC(S, <<Str(<<65>>)>>, "ci")
  /\ FnDistinctC(S, "cp") = FnDistinct(S) /\ Len(FnDistinctC(S, "ci").s) <= Len(FnDistinct(S).s)
LawSum ==                                   \* sum = fold of +  = closed form; avg * count = sum on exact types
  (N > 0 /\ AllNum(S)) =>
     LET sm == FnSum(S, <<IntV(0)>>).s[1]
         av == FnAvg(S).s[1] IN
       /\ LET c == SumClosed(S) IN sm.t = c.t /\ sm.k = c.k /\ sm.q = c.q
       /\ (sm.t \in {"int", "dec"} => (av.t = "dec" /\ QAdd(<<0, 1>>, <<av.q[1] * N, av.q[2]>>) = sm.q))
       /\ (IsNaN(sm) <=> AnyNaN(S)) /\ (IsNaN(av) <=> AnyNaN(S))
       /\ av.t = (IF sm.t = "int" THEN "dec" ELSE sm.t)
LawMinMax ==
  (N > 0 /\ AllNum(S) /\ ~AnyNaN(S)) =>
     LET mn == FnMinMax(S, FALSE).s[1]
         mx == FnMinMax(S, TRUE).s[1] IN
       /\ \A i \in 1..N : NumLe(mn, S[i]) /\ NumLe(S[i], mx)             \* min <= every item <= max
       /\ \E i \in 1..N : NumEq(mn, S[i])
       /\ \E i \in 1..N : NumEq(mx, S[i])
       /\ FnMinMax(FnReverse(S).s, TRUE).s[1].q = mx.q                   \* order-independent value
LawIndexOf ==
  /\ \A v \in {a \in AllPos : Len(a) = 1} \cup {<<S[i]>> : i \in 1..N} :
        LET r == FnIndexOf(S, v).s IN
          /\ \A j \in 1..Len(r) : SameValue(S[r[j].q[1]], v[1])
          /\ \A i \in 1..N : SameValue(S[i], v[1]) => \E j \in 1..Len(r) : r[j].q[1] = i
          /\ \A j \in 1..(Len(r) - 1) : r[j].q[1] < r[j + 1].q[1]
  /\ LET d == FnDistinct(S).s IN
       /\ Len(d) <= N
       /\ \A i \in 1..Len(d), j \in 1..Len(d) : i # j => ~DistinctEq(d[i], d[j])
       /\ \A i \in 1..N : \E j \in 1..Len(d) : DistinctEq(S[i], d[j])
       /\ FnDistinct(d) = OK(d)
(* several clauses = nested expressions = the stream of binding tuples; quantifiers over dependent ranges *)
LawDep ==
  /\ \A dep \in Deps, f \in DepBodies : ExForDep(S, dep, f) = ExForDepTuples(S, dep, f)
  /\ \A dep \in Deps : LET T == DepTuples(S, dep) IN
        /\ (~IsErr(T) => Len(ExForDep(S, dep, "($x, $y)").s) = 2 * Len(T.s))
        /\ (~IsErr(T) => ExQuantDep(S, "some", dep, "$y lt $x").s[1].q[1] = (IF \E h \in 1..Len(T.s) : VC("lt", T.s[h][2], T.s[h][1]) = "T" THEN 1 ELSE 0)
                            \/ ExQuantDep(S, "some", dep, "$y lt $x").k # "seq")
  /\ (ExForDep3(S, "($x, $y, $z)").k = "seq" => Len(ExForDep3(S, "($x, $y, $z)").s) = 3 * Len(ExForDep3(S, "$z").s))
  /\ (\A i \in 1..N : S[i].t = "int") =>       \* 1 to $x - 1 over integers: the sizes add up
        Len(ExForDep(S, "1 to $x - 1", "$y").s) = Len(Concat([i \in 1..N |-> Ints(1, S[i].q[1] - 1)]))
LawFilter ==
  /\ ExPredConst(S, <<Bool(TRUE)>>) = OK(S) /\ ExPredConst(S, <<>>) = OK(<<>>)
  /\ ExFor(S, "$x") = OK(S) /\ ExMap(S, ".") = OK(S)
  /\ ExMap(S, "position()") = OK(Ints(1, N))
  /\ Len(ExFor(S, "($x, $x)").s) = 2 * N
  /\ Len(ExFor2(S, <<Sb, I9>>, "($x, $y)").s) = 4 * N
  /\ ExFor2(S, <<I9>>, "$x") = OK(S)

(* purity: the consumer and the inner expression do not influence what the reader sees *)
LawFocus ==
  /\ \A F \in {"exists", "empty", "head", "count", "some", "geq"}, inner \in {"[. gt 4]", "[. gt 6]", "! (. + 1)"} :
        /\ Pick(ExMapFocus(S, F, inner, ".").s,
                [h \in 1..Len(ExMapFocus(S, F, inner, ".").s) |->
                     h % (Len(ConsumerVal(F, InnerVal(inner))) + 1) = 0]) = S          \* the readers alone give S
        /\ ExPredFocus(S, F, inner, "position()", <<IntV(2)>>) = ExPredConst(S, <<IntV(2)>>)
        /\ ExPredFocus(S, F, inner, "last()", <<IntV(N)>>) = OK(S)
        /\ Len(ExForFocus(S, F, inner, ".").s) = N * (Len(ConsumerVal(F, InnerVal(inner))) + 1)
  /\ \A F \in {"exists", "empty", "head", "count", "some", "geq"}, thr \in {<<IntV(2)>>, <<IntV(3)>>, <<IntV(4)>>} :
        /\ (N > 0 => ExQuantFocus(S, "every", F, thr) = ExQuantFocus(S, "some", F, thr))   \* the clause does not depend on the binding
        /\ (N = 0 => (ExQuantFocus(S, "every", F, thr) = OK(<<Bool(TRUE)>>) /\ ExQuantFocus(S, "some", F, thr) = OK(<<Bool(FALSE)>>)))
(* E1 ! E2 keeps order and duplicates; E1 / E2 is the same set in document order *)
LawNodes ==
  AllNodes(S) => \A b \in {".", "..", "@k", "../n"} :
     LET m == ExNodeMap(S, b).s
         p == ExNodePath(S, b).s IN
       /\ {m[i] : i \in 1..Len(m)} = {p[i] : i \in 1..Len(p)}
       /\ \A i \in 1..(Len(p) - 1) : p[i].q[1] < p[i + 1].q[1]
       /\ Len(p) <= Len(m)
       /\ ((\A i \in 1..(Len(m) - 1) : m[i].q[1] < m[i + 1].q[1]) => p = m)
       /\ ExNodeMap(S, ".") = OK(S) /\ Len(ExNodeMap(S, "(., .)").s) = 2 * N
(* a forward axis: the parenthesis changes nothing; a reverse axis: [true()][1] is the nearest node in the step
   form and the first node in document order in the parenthesised form, [true()][last()] the other way round *)
LawAxisPreds ==
  \A d \in {1, 2, 3, 4, 5, 6, 7}, ax \in StepAxes :
     LET doc == AxisOf(ax, d)
         n   == Len(doc) IN
     /\ \A c \in StepConds, p \in StepPoss :
           /\ (~IsRevAxis(ax) => AxisPredsOf("step", ax, c, p, d) = AxisPredsOf("paren", ax, c, p, d))
           /\ (c \in {"true()", "position() ge 1"} => AxisPredsOf("paren", ax, c, p, d) = PredApply(doc, p))
     /\ (n > 0 => /\ AxisPredsOf("paren", ax, "true()", "1", d) = <<doc[1]>>
                  /\ AxisPredsOf("paren", ax, "true()", "last()", d) = <<doc[n]>>
                  /\ (IsRevAxis(ax) => /\ AxisPredsOf("step", ax, "true()", "1", d) = <<doc[n]>>
                                       /\ AxisPredsOf("step", ax, "true()", "last()", d) = <<doc[1]>>))
NoNodesDep == LawDep
NoNodes == \A i \in 1..N : S[i].t # "node"
(* decided on every sequence that is the SOURCE of a transition (the last level is not expanded) *)
Laws == (Usable /\ TLCGet("level") < MaxDepth) =>
                  /\ LawSubseq /\ LawNear /\ LawReverse /\ LawInsert /\ LawRemove /\ LawHeadTail /\ LawCardinality /\ LawFilter
                  /\ ("iter" \in Groups => NoNodesDep)
                  /\ ("nodes" \in Groups => LawNodes /\ LawAxisPreds)
                  /\ ("focus" \in Groups => LawFocus)
                  /\ (NoNodes => LawQuantDual /\ LawSum /\ LawMinMax /\ LawIndexOf)   \* the laws about VALUES
=============================================================================
