-------------------------- MODULE TraceParserLife --------------------------
(***************************************************************************)
(* Property C03, binding B: recorded executions of the REAL parser are     *)
(* validated against the API machine of ParserLife.tla.                    *)
(*                                                                         *)
(* Input: an ndjson file (environment variable C03_TRACE), one TRACE per   *)
(* line:  {"tid": 7, "ev": [ {"e":"call","p":1,"s":3},                     *)
(*                           {"e":"ret","p":1,"s":3,"k":"err","coded":true,*)
(*                            "v":"err:XPST0003","reset":true}, ... ]}     *)
(* recorded by a wrapper around XPath1Parser.parse (outermost call per     *)
(* instance) while the repository's own test-suite runs, and while the     *)
(* check replays the TLC-generated parse histories.  p and s are small     *)
(* integers local to the trace: parser instance, and SOURCE CLASS =        *)
(* (parser class, parser configuration, source text).                      *)
(*                                                                         *)
(* Every trace is one behaviour (Init chooses the trace).  A call event    *)
(* must be an ApiCallStep (preceded by ApiNewStep for an unseen instance), *)
(* a ret event must be an ApiRetStep: legal outcome (Outcome.tla), cursor  *)
(* reset, and the same outcome as the first parse of that source class in  *)
(* the trace on ANY instance (history variable frst).                      *)
(*                                                                         *)
(* An event that matches no step is REJECTED: TLC prints                   *)
(*   <<"reject", tid, index, legal, consistent, reset>>                    *)
(* and resynchronises (the instance becomes idle, frst is unchanged), so   *)
(* one run reports every offending event.  <<"done", tid, n>> is printed   *)
(* when a trace has been consumed; the harness requires one per trace.     *)
(***************************************************************************)
EXTENDS Naturals, Sequences, FiniteSets, TLC, Json, IOUtils

(* ParserLife's constants are irrelevant for the Api*Step operators *)
PL == INSTANCE ParserLife WITH Instances <- {}, Sources <- {}, MaxCalls <- 0,
                               ResetFields <- {"tokens", "next_match", "token", "next_token"},
                               inst <- <<>>, first <- <<>>, ncalls <- 0

Traces == ndJsonDeserialize(IOEnv.C03_TRACE)

VARIABLES tid,    \* index of the trace being validated
          i,      \* next event
          view,   \* API view: instance -> [busy, reset, src]
          frst,   \* history variable: source class -> first outcome
          done
vars == <<tid, i, view, frst, done>>

Ev == Traces[tid].ev
E == Ev[i]
OutOf(e) == [k |-> e.k, coded |-> e.coded, v |-> e.v]

Init == /\ tid \in 1..Len(Traces)
        /\ i = 1 /\ view = <<>> /\ frst = <<>> /\ done = FALSE

New == /\ i <= Len(Ev) /\ E.e = "call"
       /\ PL!ApiNewStep(view, frst, view', frst', E.p)
       /\ UNCHANGED <<tid, i, done>>

Call == /\ i <= Len(Ev) /\ E.e = "call"
        /\ PL!ApiCallStep(view, frst, view', frst', E.p, E.s)
        /\ i' = i + 1
        /\ UNCHANGED <<tid, done>>

Ret == /\ i <= Len(Ev) /\ E.e = "ret"
       /\ E.p \in DOMAIN view /\ view[E.p].src = E.s
       /\ PL!ApiRetStep(view, frst, view', frst', E.p, OutOf(E), E.reset)
       /\ i' = i + 1
       /\ UNCHANGED <<tid, done>>

Match == New \/ Call \/ Ret

(* error recovery: report the event, force the instance idle, go on *)
Reject ==
  /\ i <= Len(Ev)
  /\ ~ENABLED Match
  /\ PrintT(<<"reject", Traces[tid].tid, i,
              IF E.e = "ret" THEN PL!O!LegalParse(OutOf(E)) ELSE TRUE,
              IF E.e = "ret" THEN (E.s \in DOMAIN frst => frst[E.s] = OutOf(E)) ELSE TRUE,
              IF E.e = "ret" THEN E.reset ELSE TRUE>>)
  /\ view' = IF E.p \in DOMAIN view THEN [view EXCEPT ![E.p] = PL!ApiIdle] ELSE view @@ (E.p :> PL!ApiIdle)
  /\ i' = i + 1
  /\ UNCHANGED <<tid, frst, done>>

Done == /\ i = Len(Ev) + 1 /\ ~done
        /\ PrintT(<<"done", Traces[tid].tid, Len(Ev)>>)
        /\ done' = TRUE
        /\ UNCHANGED <<tid, i, view, frst>>

Next == Match \/ Reject \/ Done

Spec == Init /\ [][Next]_vars

(* the API view stays well-formed; at the end of a trace no parse is left open *)
TypeOK == /\ i \in 1..(Len(Ev) + 1)
          /\ \A p \in DOMAIN view : view[p].busy \in BOOLEAN
Closed == done => \A p \in DOMAIN view : ~view[p].busy
=============================================================================
