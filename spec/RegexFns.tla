------------------------------ MODULE RegexFns ------------------------------
(***************************************************************************)
(* fn:matches / fn:tokenize / fn:replace / fn:analyze-string as a          *)
(* value-state machine over (pattern, input) (property C12).               *)
(* State: a pattern r (fixed along a behaviour) and the input s, which     *)
(* grows by one character per step -- the same compiled pattern applied to *)
(* a history of inputs.                                                    *)
(*                                                                         *)
(* WHICH substring a match takes (greedy / lazy extent, which alternative) *)
(* is outside this specification.  What F&O fixes independently of that is *)
(*   - matches(s, r)  <=>  some substring matches in context;              *)
(*   - a pattern matching the zero-length string is an error (FORX0003)    *)
(*     for tokenize / replace / analyze-string;                            *)
(*   - analyze-string partitions the input into match / non-match parts:   *)
(*     contiguous, non-empty, no two adjacent non-match parts, every match *)
(*     part matches in context, and -- the scan goes left to right and     *)
(*     takes the first position at which a match starts -- NO match starts *)
(*     inside a non-match part;                                            *)
(*   - tokenize returns the strings around the match parts (the non-match  *)
(*     parts, plus a zero-length token where two matches touch or a match  *)
(*     touches the border of the input);                                   *)
(*   - replace(s, r, '$0') = s; replace(s, r, X) = tokens joined by X.     *)
(* `adm` is the set of ADMISSIBLE partitions (with the token list each one *)
(* induces); the binding requires the implementation's analyze-string      *)
(* result to be one of them and its tokenize / replace results to be the   *)
(* ones induced by that same partition.                                    *)
(***************************************************************************)
EXTENDS RegexNames, TLC

CONSTANTS PatAtoms, PatUnaries, PatBinaries,   \* patterns: atoms, quantified atoms, binary nodes over those
          PatDepth,                            \* 0..2
          SubjChars, MaxLen

VARIABLES r, s, nullable, found, adm, ginfo, valid
vars == <<r, s, nullable, found, adm, ginfo, valid>>

P0 == {Atom(n) : n \in PatAtoms}
P1 == P0 \cup {Wrap(u, a) : u \in PatUnaries, a \in P0}
Patterns ==
  IF PatDepth = 0 THEN P0
  ELSE IF PatDepth = 1 THEN P1 \cup {Bin(b, x, y) : b \in PatBinaries, x \in P0, y \in P0}
  ELSE P1 \cup {Bin(b, x, y) : b \in PatBinaries, x \in P1, y \in P1}

(* ---- partitions of 0..n ------------------------------------------------- *)
(* a partition is a sequence of parts <<kind, i, j>>, kind "m" | "n", covering 0..n in order *)
RECURSIVE PartSeqs(_, _)
PartSeqs(from, n) ==      \* all sequences of non-empty parts tiling from..n
  IF from = n THEN {<<>>}
  ELSE UNION {{<<<<k, from, j>>>> \o rest : rest \in PartSeqs(j, n)} : k \in {"m", "n"}, j \in (from + 1)..n}

NoAdjacentNonMatch(p) == \A q \in 1..(Len(p) - 1) : ~(p[q][1] = "n" /\ p[q + 1][1] = "n")

Admissible(p, sp, n) ==
  /\ NoAdjacentNonMatch(p)
  /\ \A q \in 1..Len(p) :
        IF p[q][1] = "m" THEN <<p[q][2], p[q][3]>> \in sp
        ELSE \A u \in p[q][2]..(p[q][3] - 1) : \A v \in (u + 1)..n : <<u, v>> \notin sp

(* ---- what a partition induces ------------------------------------------ *)
Text(str, i, j) == SubSeq(str, i + 1, j)
RECURSIVE Concat(_, _, _)
Concat(str, p, q) == IF q > Len(p) THEN <<>> ELSE Text(str, p[q][2], p[q][3]) \o Concat(str, p, q + 1)

MatchParts(p) == SelectSeq(p, LAMBDA x : x[1] = "m")
(* tokens: the stretches of input before the first match, between consecutive matches, after the last *)
Tokens(str, p) ==
  IF str = <<>> THEN <<>>
  ELSE LET ms == MatchParts(p)
           k  == Len(ms)
       IN [q \in 1..(k + 1) |->
             Text(str, IF q = 1 THEN 0 ELSE ms[q - 1][3], IF q = k + 1 THEN Len(str) ELSE ms[q][2])]
(* replace with a function of the matched text *)
RECURSIVE Flatten(_, _)
Flatten(ss, q) == IF q > Len(ss) THEN <<>> ELSE ss[q] \o Flatten(ss, q + 1)
ReplaceWith(str, p, f(_)) ==
  Flatten([q \in 1..Len(p) |-> IF p[q][1] = "m" THEN f(Text(str, p[q][2], p[q][3]))
                                                ELSE Text(str, p[q][2], p[q][3])], 1)
RECURSIVE Join(_, _, _)
Join(toks, sep, q) == IF q > Len(toks) THEN <<>>
                      ELSE IF q = Len(toks) THEN toks[q] ELSE toks[q] \o sep \o Join(toks, sep, q + 1)

AdmSet(str, sp) == {[parts |-> p, tokens |-> Tokens(str, p)] : p \in {x \in PartSeqs(0, Len(str)) : Admissible(x, sp, Len(str))}}

(* ---- capturing groups -------------------------------------------------------
   The groups of the pattern in the order of their opening parenthesis.  For each one: the number of the
   group that encloses it (0 = none) and the spans of the input that its body matches IN CONTEXT.  A
   fn:group element of fn:analyze-string must carry the number of a group, be nested in the element of the
   enclosing group only, and have as string value a substring whose span is one of these. *)
RECURSIVE GroupsOf(_, _, _)
GroupsOf(x, par, off) ==
  CASE x.t \in {"grp", "dup"} -> <<[body |-> x.r, parent |-> par]>> \o GroupsOf(x.r, off + 1, off + 1)
    [] x.t \in {"cat", "alt"} -> LET gl == GroupsOf(x.l, par, off) IN gl \o GroupsOf(x.r, par, off + Len(gl))
    [] x.t \in {"star", "plus", "opt", "rep"} -> GroupsOf(x.r, par, off)
    [] OTHER -> <<>>
GInfo(x, str) == LET gs == GroupsOf(x, 0, 0) IN
                 [n \in 1..Len(gs) |-> [parent |-> gs[n].parent, spans |-> Spans(gs[n].body, str)]]

Init == /\ r \in Patterns
        /\ s = <<>>
        /\ nullable = FullMatch(r, <<>>)
        /\ found = nullable
        /\ adm = IF nullable THEN {} ELSE {[parts |-> <<>>, tokens |-> <<>>]}
        /\ ginfo = GInfo(r, <<>>)
        /\ valid = ValidIn(r)      \* under XsdVersion; an invalid pattern is FORX0002 for all four functions

Feed(c) ==
  /\ Len(s) < MaxLen
  /\ s' = Append(s, c)
  /\ LET sp == TLCEval(Spans(r, s')) IN
       /\ found' = (sp # {})
       /\ adm' = IF nullable THEN {} ELSE AdmSet(s', sp)
  /\ ginfo' = IF nullable THEN <<>> ELSE GInfo(r, s')
  /\ UNCHANGED <<r, nullable, valid>>

Next == \E c \in SubjChars : Feed(c)
Spec == Init /\ [][Next]_vars

(* ---- laws ---------------------------------------------------------------- *)
X == <<0>>     \* a replacement marker that is no character of the alphabet
(* the scan is well defined: a non-nullable pattern admits at least one partition of every input *)
ExistsLaw   == ~nullable => adm # {}
(* analyze-string parts concatenate to the input *)
ConcatLaw   == \A a \in adm : Concat(s, a.parts, 1) = s
(* replace(s, r, '$0') = s *)
ReplaceIdLaw == \A a \in adm : ReplaceWith(s, a.parts, LAMBDA t : t) = s
(* tokenize = the non-match parts (plus zero-length tokens), one more token than matches *)
TokenizeLaw == \A a \in adm :
                 s # <<>> =>
                   /\ Len(a.tokens) = Len(MatchParts(a.parts)) + 1
                   /\ SelectSeq(a.tokens, LAMBDA t : t # <<>>)
                        = [q \in 1..Len(SelectSeq(a.parts, LAMBDA x : x[1] = "n")) |->
                             LET np == SelectSeq(a.parts, LAMBDA x : x[1] = "n")[q] IN Text(s, np[2], np[3])]
(* replace(s, r, X) = string-join(tokenize(s, r), X) *)
ReplaceJoinLaw == \A a \in adm : s # <<>> => ReplaceWith(s, a.parts, LAMBDA t : X) = Join(a.tokens, X, 1)
(* matches <=> every admissible partition has a match part; no match <=> the input is one non-match part *)
MatchesLaw  == ~nullable => /\ \A a \in adm : found = (MatchParts(a.parts) # <<>>)
                            /\ (~found /\ s # <<>>) => adm = {[parts |-> <<<<"n", 0, Len(s)>>>>, tokens |-> <<s>>]}
(* all admissible partitions start their first match at the same (leftmost) position *)
LeftmostLaw == \A a \in adm, b \in adm :
                 (MatchParts(a.parts) # <<>>) => MatchParts(a.parts)[1][2] = MatchParts(b.parts)[1][2]
(* groups: the enclosing group has a smaller number; a pattern that IS a group captures exactly its matches;
   inside a match every group span lies within some span of the enclosing group *)
GroupLaw == /\ \A n \in 1..Len(ginfo) : ginfo[n].parent < n
            /\ (~nullable /\ r.t = "grp") => ginfo[1].spans = Spans(r, s)
            /\ \A n \in 1..Len(ginfo) : \A sp \in ginfo[n].spans : sp[1] <= sp[2] /\ sp[2] <= Len(s)
Laws == GroupLaw /\ ExistsLaw /\ ConcatLaw /\ ReplaceIdLaw /\ TokenizeLaw /\ ReplaceJoinLaw /\ MatchesLaw /\ LeftmostLaw
=============================================================================
