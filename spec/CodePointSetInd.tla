-------------------------- MODULE CodePointSetInd --------------------------
(***************************************************************************)
(* Property C13 -- INDUCTIVE form of the refinement of CodePointSetImpl    *)
(* (Variant "Fixed"), for Apalache:                                        *)
(*                                                                         *)
(*   from ANY canonical list of at most MaxLen pieces over code points     *)
(*   0 .. U-1 (U = 0x110000, coordinates symbolic: no small universe) one  *)
(*   add((a, b)) or discard((a, b)) yields a canonical list that denotes   *)
(*   S \cup [a,b) resp. S \ [a,b).                                         *)
(*                                                                         *)
(* Canonical is therefore an inductive invariant: it holds after           *)
(* UNBOUNDEDLY many operations (TLC explores the complete closure only for *)
(* universes of 6-8 points).  Membership is checked through a Skolem probe *)
(* code point x chosen together with the operation (history variables      *)
(* `arg`, `probe`, `was`), so no set of 0x110000 elements is ever built.   *)
(*                                                                         *)
(*   apalache-mc check --init=IndInit --inv=StepInv --length=1 \           *)
(*                     --cinit=ConstInit CodePointSetInd.tla               *)
(*                                                                         *)
(* Pieces are half-open pairs <<lo, hi>>; whether a piece is stored as a   *)
(* Python int or tuple is a function of hi - lo and not modelled here.     *)
(* The loops are written as left folds over the stored list (Apalache has  *)
(* no recursive operators): AddFold is the repaired add() -- pieces ending *)
(* before the new range without touching it are copied, pieces touching or *)
(* overlapping it are absorbed into one piece, the rest is copied behind   *)
(* it; DiscardFold cuts every piece against [a, b).                        *)
(***************************************************************************)
EXTENDS Integers, Sequences, Apalache

CONSTANTS
  \* @type: Int;
  U,
  \* @type: Int;
  MaxLen

VARIABLES
  \* @type: Seq(<<Int, Int>>);
  list,
  \* @type: Str;
  op,
  \* @type: <<Int, Int>>;
  arg,
  \* @type: Int;
  probe,
  \* @type: Bool;
  was

ConstInit == U = 1114112 /\ MaxLen = 4

\* @type: (Seq(<<Int, Int>>)) => Bool;
Canonical(l) ==
  /\ \A i \in DOMAIN l : 0 <= l[i][1] /\ l[i][1] < l[i][2] /\ l[i][2] <= U
  /\ \A i \in DOMAIN l : \A j \in DOMAIN l : (j = i + 1) => l[i][2] < l[j][1]

\* @type: (Seq(<<Int, Int>>), Int) => Bool;
Member(l, x) == \E i \in DOMAIN l : l[i][1] <= x /\ x < l[i][2]

Min2(x, y) == IF x < y THEN x ELSE y
Max2(x, y) == IF x > y THEN x ELSE y

(* accumulator of add: pieces written so far, the growing new piece, whether it was written *)
\* @type: ({out: Seq(<<Int, Int>>), s: Int, e: Int, placed: Bool}, <<Int, Int>>) => {out: Seq(<<Int, Int>>), s: Int, e: Int, placed: Bool};
AddStep(acc, p) ==
  IF p[2] < acc.s THEN [acc EXCEPT !.out = Append(acc.out, p)]
  ELSE IF p[1] > acc.e
       THEN IF acc.placed THEN [acc EXCEPT !.out = Append(acc.out, p)]
            ELSE [acc EXCEPT !.out = Append(Append(acc.out, <<acc.s, acc.e>>), p), !.placed = TRUE]
       ELSE [acc EXCEPT !.s = Min2(acc.s, p[1]), !.e = Max2(acc.e, p[2])]

\* @type: (Seq(<<Int, Int>>), Int, Int) => Seq(<<Int, Int>>);
AddFold(l, a, b) ==
  LET \* @type: Seq(<<Int, Int>>);
      empty == <<>>
      r == ApaFoldSeqLeft(AddStep, [out |-> empty, s |-> a, e |-> b, placed |-> FALSE], l)
  IN IF r.placed THEN r.out ELSE Append(r.out, <<r.s, r.e>>)

\* @type: ({out: Seq(<<Int, Int>>), a: Int, b: Int}, <<Int, Int>>) => {out: Seq(<<Int, Int>>), a: Int, b: Int};
DiscardStep(acc, p) ==
  IF p[2] <= acc.a \/ p[1] >= acc.b THEN [acc EXCEPT !.out = Append(acc.out, p)]
  ELSE LET o1 == IF p[1] < acc.a THEN Append(acc.out, <<p[1], acc.a>>) ELSE acc.out
           o2 == IF acc.b < p[2] THEN Append(o1, <<acc.b, p[2]>>) ELSE o1
       IN [acc EXCEPT !.out = o2]

\* @type: (Seq(<<Int, Int>>), Int, Int) => Seq(<<Int, Int>>);
DiscardFold(l, a, b) ==
  LET \* @type: Seq(<<Int, Int>>);
      empty == <<>>
  IN ApaFoldSeqLeft(DiscardStep, [out |-> empty, a |-> a, b |-> b], l).out

(* any canonical list of at most MaxLen pieces *)
IndInit ==
  /\ list = Gen(4)
  /\ Len(list) <= MaxLen
  /\ Canonical(list)
  /\ op = "none" /\ arg = <<0, 1>> /\ probe = 0 /\ was = FALSE

Init == IndInit

Next ==
  \E a \in Int, b \in Int, x \in Int :
    /\ 0 <= a /\ a < b /\ b <= U /\ 0 <= x /\ x < U
    /\ arg' = <<a, b>> /\ probe' = x /\ was' = Member(list, x)
    /\ \/ op' = "add" /\ list' = AddFold(list, a, b)
       \/ op' = "discard" /\ list' = DiscardFold(list, a, b)

InArg == arg[1] <= probe /\ probe < arg[2]

(* checked on the state after one step from IndInit *)
StepInv ==
  /\ Canonical(list)
  /\ op = "add" => (Member(list, probe) <=> (was \/ InArg))
  /\ op = "discard" => (Member(list, probe) <=> (was /\ ~InArg))
=============================================================================
