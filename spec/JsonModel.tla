------------------------------ MODULE JsonModel ------------------------------
(***************************************************************************)
(* C17: one JSON value in THREE representations, as a value-state machine. *)
(*                                                                         *)
(*      XDM value  --Serialize-->  JSON text  --JsonToXml(esc,dup)--> XML  *)
(*          ^                       |  ^                               |   *)
(*          +---ParseJson(dup)------+  +----------XmlToJson------------+   *)
(*                                                                         *)
(*  abstract JSON value (AV)                                               *)
(*     [t|->"null"] [t|->"bool",b] [t|->"num",m,e]  (= m * 10^e, normal    *)
(*     form: 10 does not divide m, zero is (0,0)) [t|->"str",s]            *)
(*     [t|->"arr",items]  [t|->"obj",o]  (o: function key string -> AV)    *)
(*  XDM value (XV): [t|->"empty"] (the empty sequence), "bool", "str",     *)
(*     [t|->"num",ty,m,e] ty in int/dec/dbl, [t|->"arr",items],            *)
(*     [t|->"map",o]                                                       *)
(*  JSON text: a TOKEN sequence; tokens [k|->"{"] "}" "[" "]" "," ":"      *)
(*     "true" "false" "null", [k|->"str",x] (x: the ESCAPED characters     *)
(*     between the quotes), [k|->"num",m,e,sp] (sp: lexical spelling, used *)
(*     only by the rendering; the number IS m*10^e)                        *)
(*  syntax tree (ST): what Parse makes of a token sequence; objects keep   *)
(*     their members in order, duplicates included: [t|->"ob",mem] with    *)
(*     mem a Seq of [key|->x, v|->ST]                                      *)
(*  XML (XE): the element tree of fn:json-to-xml:                          *)
(*     [tag, hk, ek, key] + b | m,e | s,esc | kids                         *)
(*                                                                         *)
(* Semantics transcribed from: RFC 8259; XSLT and XQuery Serialization 3.1 *)
(* section 9.1 (JSON output method); F&O 3.1 17.5.1 fn:parse-json (numbers *)
(* become xs:double, null becomes the empty sequence, option duplicates =  *)
(* use-first (default) | use-last | reject, codepoints that are not XML    *)
(* characters are replaced by U+FFFD), 17.4.2 fn:json-to-xml (options      *)
(* escape, duplicates = retain (default) | use-first | reject), 17.4.3     *)
(* fn:xml-to-json (duplicate keys after unescaping: error).                *)
(*                                                                         *)
(* Law (ValuePreserved): around every cycle of this graph the abstract     *)
(* value is the one the behaviour started with, unless a step that F&O     *)
(* defines as lossy was taken (loss): "repl" = a codepoint that is not an  *)
(* XML character was replaced by U+FFFD, "last" = duplicates = use-last on *)
(* a text that has duplicate keys.  Errors only arise from texts with      *)
(* duplicate keys (ErrorsOnlyFromDuplicates).                              *)
(* Outside: number spelling (any RFC 8259 spelling of the same number is   *)
(* the same text here), whitespace, member order of serialized maps.       *)
(***************************************************************************)
EXTENDS JsonChars, TLC

CONSTANTS Universe,    \* "quick" | "thorough"
          MaxDepth,    \* bound on the length of a behaviour (CONSTRAINT Bounded)
          StaticCfgs   \* names of static-context configurations (parser base URI, XSD version, ...): every
                       \* action is quantified over them and its result does NOT depend on the choice --
                       \* all the edges s --Act(c, ...)--> s' of one step lead to the same s'

VARIABLES rep,    \* "xdm" | "text" | "xml" | "err"
          val,    \* the representation (rep = "err": [code |-> ...])
          abs,    \* its abstract value (derived: abs = AbsOf(rep, val))
          orig,   \* abstract value at the start of the behaviour
          start,  \* "xdm" | "text" | "textdup"  (how the behaviour started)
          loss    \* subset of {"repl", "last"}
vars == <<rep, val, abs, orig, start, loss>>

---------------------------------------------------------------------------
(* abstract values *)
ANull == [t |-> "null"]
ABool(b) == [t |-> "bool", b |-> b]
ANum(m, e) == [t |-> "num", m |-> m, e |-> e]
AStr(s) == [t |-> "str", s |-> s]
AArr(items) == [t |-> "arr", items |-> items]
AObj(o) == [t |-> "obj", o |-> o]
AErr == [t |-> "err"]
EmptyFn == [k \in {} |-> 0]

RECURSIVE NormNum(_, _)
(* SYMBOLIC numbers: e = Sym marks m as an index into the table of named decimal numerals of the binding
   (numbers that need 17 significant digits, integers beyond 2^53, the largest / smallest doubles, long
   decimals: they do not fit TLC's 32-bit integers).  A number token denotes the IEEE double nearest to its
   decimal value; distinct table entries denote distinct doubles (checked by the binding with python float). *)
Sym == 1000
SymNumbers == 1..10
NormNum(m, e) == IF e = Sym THEN <<m, e>> ELSE IF m = 0 THEN <<0, 0>>
                 ELSE IF m % 10 = 0 THEN NormNum(m \div 10, e + 1) ELSE <<m, e>>

(* the value with every codepoint that is not an XML character replaced by U+FFFD *)
RECURSIVE ReplAV(_)
ReplAV(a) == CASE a.t = "str" -> AStr(XmlSafe(a.s))
               [] a.t = "arr" -> AArr([i \in 1..Len(a.items) |-> ReplAV(a.items[i])])
               [] a.t = "obj" -> AObj([k \in {XmlSafe(j) : j \in DOMAIN a.o} |->
                                         ReplAV(a.o[CHOOSE j \in DOMAIN a.o : XmlSafe(j) = k])])
               [] OTHER -> a
RECURSIVE AllXmlAV(_)
AllXmlAV(a) == CASE a.t = "str" -> AllXml(a.s)
                 [] a.t = "arr" -> \A i \in 1..Len(a.items) : AllXmlAV(a.items[i])
                 [] a.t = "obj" -> \A k \in DOMAIN a.o : AllXml(k) /\ AllXmlAV(a.o[k])
                 [] OTHER -> TRUE

---------------------------------------------------------------------------
(* XDM values *)
XEmpty == [t |-> "empty"]
XBool(b) == [t |-> "bool", b |-> b]
XStr(s) == [t |-> "str", s |-> s]
XNum(ty, m, e) == [t |-> "num", ty |-> ty, m |-> NormNum(m, e)[1], e |-> NormNum(m, e)[2]]
XArr(items) == [t |-> "arr", items |-> items]
XMap(o) == [t |-> "map", o |-> o]
RECURSIVE AbsX(_)
AbsX(v) == CASE v.t = "empty" -> ANull
             [] v.t = "bool" -> ABool(v.b)
             [] v.t = "str" -> AStr(v.s)
             [] v.t = "num" -> ANum(v.m, v.e)
             [] v.t = "arr" -> AArr([i \in 1..Len(v.items) |-> AbsX(v.items[i])])
             [] v.t = "map" -> AObj([k \in DOMAIN v.o |-> AbsX(v.o[k])])

---------------------------------------------------------------------------
(* tokens, syntax trees, the linearisation and its inverse (recursive descent) *)
P(c) == [k |-> c]
TStr(x) == [k |-> "str", x |-> x]
TNum(m, e, sp) == [k |-> "num", m |-> NormNum(m, e)[1], e |-> NormNum(m, e)[2], sp |-> sp]
SNull == [t |-> "null"]
SBool(b) == [t |-> "bool", b |-> b]
SNum(m, e, sp) == [t |-> "num", m |-> NormNum(m, e)[1], e |-> NormNum(m, e)[2], sp |-> sp]
SStr(x) == [t |-> "str", x |-> x]
SArr(items) == [t |-> "arr", items |-> items]
SOb(mem) == [t |-> "ob", mem |-> mem]
Mem(x, v) == [key |-> x, v |-> v]

RECURSIVE Lin(_)
RECURSIVE LinItems(_, _)
RECURSIVE LinMems(_, _)
Lin(st) == CASE st.t = "null" -> <<P("null")>>
             [] st.t = "bool" -> <<P(IF st.b THEN "true" ELSE "false")>>
             [] st.t = "num" -> <<TNum(st.m, st.e, st.sp)>>
             [] st.t = "str" -> <<TStr(st.x)>>
             [] st.t = "arr" -> <<P("[")>> \o LinItems(st.items, 1) \o <<P("]")>>
             [] st.t = "ob" -> <<P("{")>> \o LinMems(st.mem, 1) \o <<P("}")>>
LinItems(items, i) == IF i > Len(items) THEN <<>>
                      ELSE (IF i > 1 THEN <<P(",")>> ELSE <<>>) \o Lin(items[i]) \o LinItems(items, i + 1)
LinMems(mem, i) == IF i > Len(mem) THEN <<>>
                   ELSE (IF i > 1 THEN <<P(",")>> ELSE <<>>) \o <<TStr(mem[i].key), P(":")>> \o Lin(mem[i].v)
                        \o LinMems(mem, i + 1)

Fail == [ok |-> FALSE, v |-> SNull, n |-> 0]
Ok(v, n) == [ok |-> TRUE, v |-> v, n |-> n]
Is(ts, i, c) == i <= Len(ts) /\ ts[i].k = c
RECURSIVE PV(_, _)
RECURSIVE PElems(_, _, _)
RECURSIVE PMems(_, _, _)
PV(ts, i) ==
  IF i > Len(ts) THEN Fail
  ELSE LET k == ts[i].k IN
       CASE k = "null" -> Ok(SNull, i + 1)
         [] k = "true" -> Ok(SBool(TRUE), i + 1)
         [] k = "false" -> Ok(SBool(FALSE), i + 1)
         [] k = "num" -> Ok(SNum(ts[i].m, ts[i].e, ts[i].sp), i + 1)
         [] k = "str" -> Ok(SStr(ts[i].x), i + 1)
         [] k = "[" -> IF Is(ts, i + 1, "]") THEN Ok(SArr(<<>>), i + 2) ELSE PElems(ts, i + 1, <<>>)
         [] k = "{" -> IF Is(ts, i + 1, "}") THEN Ok(SOb(<<>>), i + 2) ELSE PMems(ts, i + 1, <<>>)
         [] OTHER -> Fail
PElems(ts, i, acc) ==
  LET r == PV(ts, i) IN
  IF ~r.ok THEN Fail
  ELSE IF Is(ts, r.n, ",") THEN PElems(ts, r.n + 1, Append(acc, r.v))
  ELSE IF Is(ts, r.n, "]") THEN Ok(SArr(Append(acc, r.v)), r.n + 1)
  ELSE Fail
PMems(ts, i, acc) ==
  IF ~(Is(ts, i, "str") /\ Is(ts, i + 1, ":")) THEN Fail
  ELSE LET r == PV(ts, i + 2) IN
       IF ~r.ok THEN Fail
       ELSE IF Is(ts, r.n, ",") THEN PMems(ts, r.n + 1, Append(acc, Mem(ts[i].x, r.v)))
       ELSE IF Is(ts, r.n, "}") THEN Ok(SOb(Append(acc, Mem(ts[i].x, r.v))), r.n + 1)
       ELSE Fail
SBad == [t |-> "bad"]
Parse(ts) == LET r == PV(ts, 1) IN IF r.ok /\ r.n = Len(ts) + 1 THEN r.v ELSE SBad

(* members of an object: decoded keys, first / last occurrence *)
KeyAt(mem, i) == Unesc(mem[i].key)
KeySet(mem) == {KeyAt(mem, i) : i \in 1..Len(mem)}
FirstIdx(mem, k) == CHOOSE i \in 1..Len(mem) : KeyAt(mem, i) = k /\ \A j \in 1..(i - 1) : KeyAt(mem, j) # k
LastIdx(mem, k) == CHOOSE i \in 1..Len(mem) : KeyAt(mem, i) = k /\ \A j \in (i + 1)..Len(mem) : KeyAt(mem, j) # k
Pick(mem, k, dup) == IF dup = "use-last" THEN LastIdx(mem, k) ELSE FirstIdx(mem, k)
RECURSIVE HasDup(_)
HasDup(st) == CASE st.t = "arr" -> \E i \in 1..Len(st.items) : HasDup(st.items[i])
                [] st.t = "ob" -> \/ Cardinality(KeySet(st.mem)) < Len(st.mem)
                                  \/ \E i \in 1..Len(st.mem) : HasDup(st.mem[i].v)
                [] OTHER -> FALSE
(* the JSON value a text denotes (RFC 8259 leaves duplicate names open: dup says which member wins) *)
RECURSIVE AbsT(_, _)
AbsT(st, dup) == CASE st.t = "null" -> ANull
                   [] st.t = "bool" -> ABool(st.b)
                   [] st.t = "num" -> ANum(st.m, st.e)
                   [] st.t = "str" -> AStr(Unesc(st.x))
                   [] st.t = "arr" -> AArr([i \in 1..Len(st.items) |-> AbsT(st.items[i], dup)])
                   [] st.t = "ob" -> AObj([k \in KeySet(st.mem) |-> AbsT(st.mem[Pick(st.mem, k, dup)].v, dup)])

---------------------------------------------------------------------------
(* Serialize: XDM -> text (JSON output method; members in ascending key order, the order is free) *)
RECURSIVE SeqLess(_, _)
SeqLess(a, b) == IF a = <<>> THEN b # <<>> ELSE IF b = <<>> THEN FALSE
                 ELSE IF a[1] # b[1] THEN a[1] < b[1] ELSE SeqLess(Tail(a), Tail(b))
RECURSIVE SortKeys(_)
SortKeys(S) == IF S = {} THEN <<>>
               ELSE LET m == CHOOSE k \in S : \A j \in S : j = k \/ SeqLess(k, j) IN <<m>> \o SortKeys(S \ {m})
RECURSIVE SerX(_)
SerX(v) == CASE v.t = "empty" -> SNull
             [] v.t = "bool" -> SBool(v.b)
             [] v.t = "str" -> SStr(EscCanon(v.s))
             [] v.t = "num" -> SNum(v.m, v.e, "canon")
             [] v.t = "arr" -> SArr([i \in 1..Len(v.items) |-> SerX(v.items[i])])
             [] v.t = "map" -> LET ks == SortKeys(DOMAIN v.o) IN
                               SOb([i \in 1..Len(ks) |-> Mem(EscCanon(ks[i]), SerX(v.o[ks[i]]))])

(* ParseJson: text -> XDM (fn:parse-json) *)
RECURSIVE FromST(_, _)
FromST(st, dup) == CASE st.t = "null" -> XEmpty
                     [] st.t = "bool" -> XBool(st.b)
                     [] st.t = "num" -> XNum("dbl", st.m, st.e)
                     [] st.t = "str" -> XStr(XmlSafe(Unesc(st.x)))
                     [] st.t = "arr" -> XArr([i \in 1..Len(st.items) |-> FromST(st.items[i], dup)])
                     [] st.t = "ob" -> XMap([k \in {XmlSafe(j) : j \in KeySet(st.mem)} |->
                                              FromST(st.mem[Pick(st.mem, CHOOSE j \in KeySet(st.mem) : XmlSafe(j) = k, dup)].v, dup)])

(* JsonToXml: text -> element tree (fn:json-to-xml) *)
ENull(hk, ek, key) == [tag |-> "null", hk |-> hk, ek |-> ek, key |-> key]
EBool(hk, ek, key, b) == [tag |-> "boolean", hk |-> hk, ek |-> ek, key |-> key, b |-> b]
ENum(hk, ek, key, m, e) == [tag |-> "number", hk |-> hk, ek |-> ek, key |-> key, m |-> m, e |-> e]
EStr(hk, ek, key, s, esc) == [tag |-> "string", hk |-> hk, ek |-> ek, key |-> key, s |-> s, esc |-> esc]
EArr(hk, ek, key, kids) == [tag |-> "array", hk |-> hk, ek |-> ek, key |-> key, kids |-> kids]
EMap(hk, ek, key, kids) == [tag |-> "map", hk |-> hk, ek |-> ek, key |-> key, kids |-> kids]
HasBackslash(s) == \E i \in 1..Len(s) : s[i] = CB
Content(x, esc) == IF esc THEN EscSpecial(Unesc(x)) ELSE XmlSafe(Unesc(x))
(* members kept by the duplicates policy, in document order *)
KeptIdx(mem, dup) == IF dup = "use-first" THEN {i \in 1..Len(mem) : i = FirstIdx(mem, KeyAt(mem, i))} ELSE 1..Len(mem)
RECURSIVE AscIdx(_)
AscIdx(S) == IF S = {} THEN <<>> ELSE LET m == CHOOSE a \in S : \A b \in S : a <= b IN <<m>> \o AscIdx(S \ {m})
RECURSIVE ToXE(_, _, _, _, _, _)
ToXE(st, esc, dup, hk, ek, key) ==
  CASE st.t = "null" -> ENull(hk, ek, key)
    [] st.t = "bool" -> EBool(hk, ek, key, st.b)
    [] st.t = "num" -> ENum(hk, ek, key, st.m, st.e)
    [] st.t = "str" -> LET c == Content(st.x, esc) IN EStr(hk, ek, key, c, esc /\ HasBackslash(c))
    [] st.t = "arr" -> EArr(hk, ek, key, [i \in 1..Len(st.items) |-> ToXE(st.items[i], esc, dup, FALSE, FALSE, <<>>)])
    [] st.t = "ob" -> LET idx == AscIdx(KeptIdx(st.mem, dup)) IN
                      EMap(hk, ek, key, [j \in 1..Len(idx) |->
                          LET kc == Content(st.mem[idx[j]].key, esc) IN
                          ToXE(st.mem[idx[j]].v, esc, dup, TRUE, esc /\ HasBackslash(kc), kc)])

(* XmlToJson: element tree -> text (fn:xml-to-json).  An escaped="true" string is JSON-escaped
   already: its escape sequences are kept, what is still unescaped gets escaped *)
RECURSIVE EscKeep(_)
EscKeep(x) ==
  IF x = <<>> THEN <<>>
  ELSE IF x[1] = CB /\ Len(x) >= 2
       THEN (IF x[2] = CU /\ Hex4Ok(x, 3) THEN SubSeq(x, 1, 6) \o EscKeep(Drop(x, 6))
             ELSE SubSeq(x, 1, 2) \o EscKeep(Drop(x, 2)))
       ELSE Render(x[1], PolicyForm("canon", x[1])) \o EscKeep(Tail(x))
StrTok(s, esc) == IF esc THEN EscKeep(s) ELSE EscCanon(s)
KeyVal(xe) == IF xe.ek THEN UnescLoose(xe.key) ELSE xe.key
RECURSIVE XmlHasDup(_)
XmlHasDup(xe) == /\ xe.tag \in {"array", "map"}
                 /\ \/ xe.tag = "map" /\ Cardinality({KeyVal(xe.kids[i]) : i \in 1..Len(xe.kids)}) < Len(xe.kids)
                    \/ \E i \in 1..Len(xe.kids) : XmlHasDup(xe.kids[i])
RECURSIVE FromXE(_)
FromXE(xe) == CASE xe.tag = "null" -> SNull
                [] xe.tag = "boolean" -> SBool(xe.b)
                [] xe.tag = "number" -> SNum(xe.m, xe.e, "canon")
                [] xe.tag = "string" -> SStr(StrTok(xe.s, xe.esc))
                [] xe.tag = "array" -> SArr([i \in 1..Len(xe.kids) |-> FromXE(xe.kids[i])])
                [] xe.tag = "map" -> SOb([i \in 1..Len(xe.kids) |->
                                           Mem(StrTok(xe.kids[i].key, xe.kids[i].ek), FromXE(xe.kids[i]))])
RECURSIVE AbsE(_)
AbsE(xe) == CASE xe.tag = "null" -> ANull
              [] xe.tag = "boolean" -> ABool(xe.b)
              [] xe.tag = "number" -> ANum(xe.m, xe.e)
              [] xe.tag = "string" -> AStr(IF xe.esc THEN UnescLoose(xe.s) ELSE xe.s)
              [] xe.tag = "array" -> AArr([i \in 1..Len(xe.kids) |-> AbsE(xe.kids[i])])
              [] xe.tag = "map" -> LET ks == {KeyVal(xe.kids[i]) : i \in 1..Len(xe.kids)} IN
                                   AObj([k \in ks |-> AbsE(xe.kids[CHOOSE i \in 1..Len(xe.kids) :
                                        KeyVal(xe.kids[i]) = k /\ \A j \in 1..(i - 1) : KeyVal(xe.kids[j]) # k])])

AbsOf(r, v) == CASE r = "xdm" -> AbsX(v)
                 [] r = "text" -> AbsT(Parse(v), "use-first")
                 [] r = "xml" -> AbsE(v)
                 [] r = "err" -> AErr

---------------------------------------------------------------------------
(* the enumerated universes *)
S0 == <<>>
Sa == <<CA>>
Sq == <<CQ>>
Sb == <<CB>>
Sbn == <<CB, CN>>          \* backslash n (two characters)
Sbnl == <<CB, CNL>>        \* backslash newline
Ss == <<CS>>
Snl == <<CNL>>
Sdel == <<CDEL>>
Sast == <<CAST>>
Sc1 == <<CC1>>             \* not an XML character: JSON texts only
Smix == <<CA, CQ, CB, CS>>
Sub == <<CB, CU>>          \* backslash u
(* raw characters that are special to some other layer (JsonChars!SpecialChars), NOT in first position of the
   text: a byte order mark in first / last position of a string, line and paragraph separator, NEL and no-break
   space at the edges (what str.strip / str.splitlines / a BOM filter would touch), a lone U+FEFF (a key that
   collapses with the empty key if the character is dropped) *)
Sbom == <<CBOM, CA, CBOM>>
Sbom1 == <<CBOM>>
Slsep == <<CLS, CA, CPS>>
Snbsp == <<CNBSP, CA, CNEL>>

XStrings == {S0, Sa, Sq, Sb, Sbn, Sbnl, Ss, Snl, Sdel, Sast, Smix, Sub, VHiL, VBmp, VTrunc, Sbom, Sbom1, Slsep, Snbsp}
XNumbers == {XNum("dbl", 1, Sym), XNum("dbl", 2, Sym), XNum("dbl", 6, Sym), XNum("int", 0, 0), XNum("int", -1, 0), XNum("int", 100, 0), XNum("dec", 5, -1), XNum("dec", 314159, -5),
             XNum("dbl", 1, 2), XNum("dbl", 1, -7), XNum("dbl", 314159, -5), XNum("dbl", 5, -1),
             XNum("dbl", 1, 20), XNum("dbl", 1, -10), XNum("dec", 25, -1), XNum("dec", 1, -3)}
XAtoms0 == {XStr(s) : s \in XStrings} \cup XNumbers \cup {XBool(TRUE), XBool(FALSE), XEmpty}
XAtoms1 == {XStr(Sa), XStr(Sbn), XBool(TRUE), XEmpty, XNum("int", -1, 0), XNum("dec", 314159, -5), XNum("dbl", 1, 2)}
           \cup (IF Universe = "thorough" THEN {XStr(Sast), XStr(Sq), XBool(FALSE), XNum("dbl", 1, -7), XNum("dec", 5, -1)} ELSE {})
XKeys == {S0, Sa, Sq, Sbn, Sbnl, Ss, VHi, Sbom, Snbsp} \cup (IF Universe = "thorough" THEN {Sb, Snl, Sdel, Sast, Smix} ELSE {})
(* pairs of DIFFERENT keys of which one is what the other would be if it were unescaped once more *)
LookAlikePairs == {<<Sbn, Snl>>, <<<<CA, CB, CN>>, <<CA, CNL>>>>, <<VBmp, <<HexUpper(10)>>>>, <<<<CB, CS>>, Ss>>, <<<<CB, CB>>, Sb>>}
XKeyPairs == {<<Sa, Sq>>, <<Sbn, Sbnl>>, <<S0, Ss>>, <<Sa, Sbn>>, <<S0, Sbom1>>, <<Sa, Sbom>>} \cup LookAlikePairs
             \cup (IF Universe = "thorough" THEN {<<Sb, Sbn>>, <<Snl, Sbnl>>, <<Sdel, Sast>>, <<Sa, Smix>>, <<Sq, Ss>>} ELSE {})
Map1(k, x) == XMap([j \in {k} |-> x])
Map2(kp, x, y) == XMap([j \in {kp[1], kp[2]} |-> IF j = kp[1] THEN x ELSE y])
XD1 == {XArr(<<>>), XMap(EmptyFn)}
       \cup {XArr(<<x>>) : x \in XAtoms0}
       \cup {XArr(<<x, y>>) : x \in XAtoms1, y \in XAtoms1}
       \cup {Map1(k, x) : k \in XKeys, x \in XAtoms1}
       \cup {Map1(Sa, x) : x \in XAtoms0}
       \cup {Map2(kp, x, y) : kp \in XKeyPairs, x \in XAtoms1, y \in XAtoms1}
XComposite2 == {XArr(<<>>), XMap(EmptyFn), XArr(<<XEmpty>>), XArr(<<XStr(Sa)>>), XArr(<<XNum("int", -1, 0), XBool(TRUE)>>),
                Map1(Sa, XEmpty), Map1(Sa, XStr(Sbn)), Map2(<<Sa, Sq>>, XNum("dec", 314159, -5), XBool(TRUE))}
XMembers2 == XComposite2 \cup {XStr(Sa), XEmpty}
XD2 == {XArr(<<x>>) : x \in XComposite2}
       \cup {XArr(<<x, y>>) : x \in XComposite2, y \in XMembers2}
       \cup {XArr(<<y, x>>) : x \in XComposite2, y \in XMembers2}
       \cup {Map1(k, x) : k \in {Sa, Sbn}, x \in XComposite2}
       \cup {Map2(kp, x, y) : kp \in {<<Sa, Sq>>, <<Sbn, Sbnl>>}, x \in XComposite2, y \in XMembers2}
XdmUniverse == XAtoms0 \cup XD1 \cup XD2

(* JSON texts that Serialize does not produce: other escape forms, number spellings, duplicate keys *)
TStrings == XStrings \cup {Sc1, <<CA, CC1>>} \cup BackslashUValues
TStrAtoms == {SStr(Esc(s, pol)) : s \in TStrings, pol \in Policies}
TNumAtoms == {SNum(i, Sym, "plain") : i \in SymNumbers} \cup {SNum(1, 2, sp) : sp \in {"exp", "Exp", "plain", "frac", "expplus", "dexp"}}
             \cup {SNum(1, -7, sp) : sp \in {"Exp", "plain", "dexp"}} \cup {SNum(0, 0, sp) : sp \in {"plain", "negzero", "frac", "exp"}}
             \cup {SNum(5, -1, sp) : sp \in {"plain", "exp"}} \cup {SNum(314159, -5, sp) : sp \in {"plain", "exp"}}
             \cup {SNum(1, 20, sp) : sp \in {"exp", "plain"}} \cup {SNum(1, -10, sp) : sp \in {"exp", "plain"}}
             \cup {SNum(-1, 0, "plain"), SNum(-25, -1, "plain"), SNum(12, 1, "exp")}
TAtoms0 == TStrAtoms \cup TNumAtoms \cup {SNull, SBool(TRUE), SBool(FALSE)}
TAtoms1 == {SStr(Esc(Sa, "U")), SStr(Esc(Snl, "py")), SNum(1, 2, "Exp"), SNull, SStr(Esc(Sc1, "U")), SStr(Esc(Sast, "l"))}
TAtoms2 == {SNum(1, 0, "plain"), SStr(Sa), SNull}
TKeys == {Esc(s, pol) : s \in {Sa, Sq, Sbn, Sbnl, Ss, Sc1, S0, VHiL, VLo, VBmp, VRev, VNoHex, Sbom, Slsep} \cup (IF Universe = "thorough" THEN {Sb, Snl, Sdel, Sast} ELSE {}),
                        pol \in {"min", "canon", "U"}}
TKeyPairs == {<<Esc(kp[1], pol), Esc(kp[2], pol)>> : kp \in LookAlikePairs, pol \in {"min", "canon"}} \cup {<<Esc(Sa, "min"), Esc(Sa, "U")>>, <<Esc(Sa, "U"), Esc(Sa, "min")>>, <<Esc(Sa, "min"), Esc(Sa, "min")>>,
              <<Esc(Sbn, "min"), Esc(Sbnl, "min")>>, <<Esc(Ss, "min"), Esc(Ss, "canon")>>, <<Esc(Sa, "min"), Esc(Sq, "min")>>,
              <<Esc(Sq, "min"), Esc(Sq, "U")>>, <<Esc(Sbn, "min"), Esc(Sbn, "l")>>, <<Esc(Sb, "min"), Esc(Sbn, "min")>>,
              <<Sbom1, S0>>, <<Sbom, Sa>>, <<Sbom1, Esc(Sbom1, "U")>>, <<Snbsp, Sa>>}
TD1 == {SArr(<<>>), SOb(<<>>)}
       \cup {SArr(<<x>>) : x \in TAtoms0}
       \cup {SArr(<<x, y>>) : x \in TAtoms1, y \in TAtoms1}
       \cup {SOb(<<Mem(k, x)>>) : k \in TKeys, x \in TAtoms1}
       \cup {SOb(<<Mem(Sa, x)>>) : x \in TAtoms0}
       \cup {SOb(<<Mem(kp[1], x), Mem(kp[2], y)>>) : kp \in TKeyPairs, x \in TAtoms2, y \in TAtoms2}
TComposite2 == {SArr(<<>>), SOb(<<>>), SArr(<<SNull>>), SOb(<<Mem(Sa, SNum(1, 0, "plain")), Mem(Esc(Sa, "U"), SNum(2, 0, "plain"))>>),
                SOb(<<Mem(Esc(Sbn, "min"), SStr(Esc(Sc1, "U")))>>), SArr(<<SStr(Esc(Sast, "U")), SNum(1, -7, "Exp")>>)}
TD2 == {SArr(<<x>>) : x \in TComposite2}
       \cup {SArr(<<x, y>>) : x \in TComposite2, y \in TComposite2 \cup {SNull}}
       \cup {SOb(<<Mem(k, x)>>) : k \in {Sa, Esc(Sq, "min")}, x \in TComposite2}
       \cup {SOb(<<Mem(kp[1], x), Mem(kp[2], y)>>) : kp \in {<<Sa, Esc(Sa, "U")>>, <<Sa, Esc(Ss, "canon")>>}, x \in TComposite2, y \in {SNull, SArr(<<>>)}}
TextUniverse == TAtoms0 \cup TD1 \cup TD2

---------------------------------------------------------------------------
DupOptsParse == {"use-first", "use-last", "reject"}
DupOptsXml == {"retain", "use-first", "reject"}

Init == /\ loss = {}
        /\ \/ /\ rep = "xdm" /\ val \in XdmUniverse /\ start = "xdm"
              /\ abs = AbsX(val) /\ orig = AbsX(val)
           \/ \E st \in TextUniverse :
                /\ rep = "text" /\ val = Lin(st)
                /\ start = (IF HasDup(st) THEN "textdup" ELSE "text")
                /\ abs = AbsT(st, "use-first") /\ orig = AbsT(st, "use-first")

Goto(r, v, l) == /\ rep' = r /\ val' = v /\ abs' = AbsOf(r, v) /\ loss' = l /\ UNCHANGED <<orig, start>>
Error(code) == Goto("err", [code |-> code], loss)

Serialize(c) == /\ rep = "xdm" /\ c \in StaticCfgs
                /\ Goto("text", Lin(SerX(val)), loss)
ParseJson(c, dup) ==
  /\ rep = "text" /\ c \in StaticCfgs
  /\ LET st == Parse(val) IN
     IF dup = "reject" /\ HasDup(st) THEN Error("FOJS0003")
     ELSE Goto("xdm", FromST(st, dup),
               loss \cup (IF dup = "use-last" /\ HasDup(st) THEN {"last"} ELSE {})
                    \cup (IF ~AllXmlAV(AbsT(st, dup)) THEN {"repl"} ELSE {}))
JsonToXml(c, esc, dup) ==
  /\ rep = "text" /\ c \in StaticCfgs
  /\ LET st == Parse(val) IN
     IF dup = "reject" /\ HasDup(st) THEN Error("FOJS0003")
     ELSE Goto("xml", ToXE(st, esc, dup, FALSE, FALSE, <<>>),
               loss \cup (IF ~esc /\ ~AllXmlAV(AbsT(st, "use-first")) THEN {"repl"} ELSE {}))
XmlToJson(c) == /\ rep = "xml" /\ c \in StaticCfgs
                /\ IF XmlHasDup(val) THEN Error("FOJS0006") ELSE Goto("text", Lin(FromXE(val)), loss)

Next == \/ \E c \in StaticCfgs : Serialize(c)
        \/ \E c \in StaticCfgs, dup \in DupOptsParse : ParseJson(c, dup)
        \/ \E c \in StaticCfgs, esc \in BOOLEAN, dup \in DupOptsXml : JsonToXml(c, esc, dup)
        \/ \E c \in StaticCfgs : XmlToJson(c)
Spec == Init /\ [][Next]_vars
Bounded == TLCGet("level") <= MaxDepth

---------------------------------------------------------------------------
(* Laws *)
ValuePreserved ==                      \* the property: every cycle is the identity on the abstract value
  /\ (rep # "err" /\ loss = {}) => abs = orig
  /\ (rep # "err" /\ loss = {"repl"}) => abs = ReplAV(orig)
ErrorsOnlyFromDuplicates == rep = "err" => start = "textdup"
AbsIsDerived == abs = AbsOf(rep, val)
TextsWellFormed == rep = "text" =>
  /\ Parse(val) # SBad
  /\ Lin(Parse(val)) = val                                     \* Parse is the inverse of Lin
  /\ (~HasDup(Parse(val)) => \A d \in DupOptsParse : AbsT(Parse(val), d) = abs)   \* no duplicates: the policy is irrelevant
SerializedIsCanonical == (rep = "xdm") =>                     \* Serialize never emits duplicate keys; parse-json inverts it
  /\ ~HasDup(SerX(val))
  /\ AbsX(FromST(SerX(val), "use-first")) = abs
  /\ \A d \in DupOptsParse : FromST(SerX(val), d) = FromST(SerX(val), "use-first")
XmlFaithful == rep = "xml" =>                                 \* the element tree says what the text said
  /\ (~XmlHasDup(val) => AbsT(FromXE(val), "use-first") = abs)
  /\ (loss = {} => abs = orig)
Laws == ValuePreserved /\ ErrorsOnlyFromDuplicates /\ AbsIsDerived /\ TextsWellFormed /\ SerializedIsCanonical /\ XmlFaithful
=============================================================================
