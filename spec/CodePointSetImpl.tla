-------------------------- MODULE CodePointSetImpl --------------------------
(***************************************************************************)
(* Property C13 -- STEP-LEVEL TRANSCRIPTION of the interval-list           *)
(* algorithms of elementpath/regex/unicode_subsets.py (UnicodeSubset) and  *)
(* elementpath/regex/codepoints.py (iter_code_points), refined against the *)
(* abstract set S of CodePointSet.                                         *)
(*                                                                         *)
(* `list` is UnicodeSubset._codepoints: pieces <<c>> (int) / <<lo, hi>>    *)
(* (tuple).  Each Python loop is one RECURSIVE operator, each `if/elif`    *)
(* arm -- one overlap geometry -- one IF arm carrying a branch tag; the    *)
(* operators return [l |-> new list, g |-> set of branch tags taken].      *)
(* One transition = one public operation, so the dumped graph can be       *)
(* replayed 1:1 on a real object (the harness uses that to show that the   *)
(* transcription IS the algorithm of the working tree).                    *)
(*                                                                         *)
(* Variant = "AsImplemented": the pinned code (elementpath 5.1.0).         *)
(*    TLC result: SetCorrect and WellFormed hold in the whole closure,     *)
(*    RepCanonical is VIOLATED (add() does not merge with the following    *)
(*    piece, stores a unit range verbatim; the list constructor only       *)
(*    sorts).  Kept as the named model that demonstrates the defect in     *)
(*    the design; it is NOT the oracle of the check.                       *)
(* Variant = "Fixed": add() and the list constructor as repaired in        *)
(*    /verif/proposed_fixes/C13-*.diff.  All invariants hold.              *)
(*                                                                         *)
(* Here every point is one code point (Wide = {}), maxunicode = M - 1.     *)
(***************************************************************************)
EXTENDS CodePointPieces, TLC

CONSTANTS Variant,   \* "AsImplemented" | "Fixed"
          Others,    \* argument sets T of Ior / Isub / Iand / Ixor (the other operand is canonical)
          SeqLen,    \* longest piece sequence given to update / difference_update (0: disabled)
          CtorLen    \* longest piece sequence given to the list constructor (0: disabled)

VARIABLES list, S
vars == <<list, S>>

MaxU == M - 1
Min2(a, b) == IF a < b THEN a ELSE b
Max2(a, b) == IF a > b THEN a ELSE b
Res(l, g) == [l |-> l, g |-> g]

(* ------------------------------------------------------------------------ *)
(* UnicodeSubset.add, as implemented (unicode_subsets.py:168-210)           *)
(*   for k, cp in enumerate(code_points): ... else: append(value)           *)
(* `start` is the loop-carried start_cp, `value` the argument as given.     *)
RECURSIVE AddLoopAI(_, _, _, _, _)
AddLoopAI(l, k, start, value, g) ==
  LET end == Hi(value) IN
  IF k > Len(l) THEN Res(Append(l, value), g \cup {"append"})                  \* for-else
  ELSE LET cp0 == Lo(l[k])
           cp1 == Hi(l[k]) IN
    IF end < cp0 THEN Res(InsertAt(l, k, value), g \cup {"insert_before"})     \* strictly before, not touching
    ELSE IF start > cp1 THEN AddLoopAI(l, k + 1, start, value, g \cup {"skip"}) \* strictly after, not touching
    ELSE IF end > cp1 THEN
         IF k = Len(l) THEN Res(ReplaceAt(l, k, <<Min2(cp0, start), end>>), g \cup {"extend_last"})
         ELSE LET hb == Lo(l[k + 1]) IN
              IF end <= hb
              THEN Res(ReplaceAt(l, k, <<Min2(cp0, start), end>>), g \cup {"extend_in_gap"})
              ELSE AddLoopAI(ReplaceAt(l, k, <<Min2(cp0, start), hb>>), k + 1, hb, value,
                             g \cup {"span_next"})
    ELSE IF start < cp0 THEN Res(ReplaceAt(l, k, <<start, cp1>>), g \cup {"extend_left"})
    ELSE Res(l, g \cup {"inside"})

AddAI(l, value) == AddLoopAI(l, 1, Lo(value), value, {})

(* UnicodeSubset.add, repaired: skip the pieces that end before the new     *)
(* range without touching it, absorb every piece that overlaps or touches   *)
(* it, store ONE piece (an int for a single code point).                    *)
RECURSIVE SkipBefore(_, _, _)
SkipBefore(l, i, start) ==
  IF i <= Len(l) /\ Hi(l[i]) < start THEN SkipBefore(l, i + 1, start) ELSE i
RECURSIVE Absorb(_, _, _, _)
Absorb(l, j, start, end) ==
  IF j <= Len(l) /\ Lo(l[j]) <= end
  THEN Absorb(l, j + 1, Min2(start, Lo(l[j])), Max2(end, Hi(l[j])))
  ELSE [j |-> j, s |-> start, e |-> end]
AddFixed(l, value) ==
  LET i == SkipBefore(l, 1, Lo(value))
      a == Absorb(l, i, Lo(value), Hi(value))
      p == IF a.e = a.s + 1 THEN <<a.s>> ELSE <<a.s, a.e>>
  IN Res(SubSeq(l, 1, i - 1) \o <<p>> \o SubSeq(l, a.j, Len(l)),
         {IF a.j = i THEN "insert" ELSE IF a.j = i + 1 THEN "merge_one" ELSE "merge_many"})

Add(l, value) == IF Variant = "Fixed" THEN AddFixed(l, value) ELSE AddAI(l, value)

(* ------------------------------------------------------------------------ *)
(* UnicodeSubset.discard (unicode_subsets.py:226-271)                       *)
(*   for k in reversed(range(len(codepoints))): ...                         *)
RECURSIVE DiscardLoop(_, _, _, _, _)
DiscardLoop(l, k, start, end, g) ==
  IF k < 1 THEN Res(l, g)
  ELSE LET cp0 == Lo(l[k])
           cp1 == Hi(l[k]) IN
    IF start >= cp1 THEN Res(l, g \cup {"below_break"})                        \* break
    ELSE IF end >= cp1 THEN
         IF start <= cp0 THEN DiscardLoop(RemoveAt(l, k), k - 1, start, end, g \cup {"delete"})
         ELSE IF start - cp0 > 1
              THEN DiscardLoop(ReplaceAt(l, k, <<cp0, start>>), k - 1, start, end, g \cup {"cut_tail_range"})
              ELSE DiscardLoop(ReplaceAt(l, k, <<cp0>>), k - 1, start, end, g \cup {"cut_tail_cp"})
    ELSE IF end > cp0 THEN
         IF start <= cp0
         THEN IF cp1 - end > 1
              THEN DiscardLoop(ReplaceAt(l, k, <<end, cp1>>), k - 1, start, end, g \cup {"cut_head_range"})
              ELSE DiscardLoop(ReplaceAt(l, k, <<cp1 - 1>>), k - 1, start, end, g \cup {"cut_head_cp"})
         ELSE LET l1 == InsertAt(l, k + 1, IF cp1 - end > 1 THEN <<end, cp1>> ELSE <<cp1 - 1>>)
                  l2 == ReplaceAt(l1, k, IF start - cp0 > 1 THEN <<cp0, start>> ELSE <<cp0>>)
              IN DiscardLoop(l2, k - 1, start, end, g \cup {"split"})
    ELSE DiscardLoop(l, k - 1, start, end, g \cup {"above"})

Discard(l, value) == DiscardLoop(l, Len(l), Lo(value), Hi(value), {})

(* ------------------------------------------------------------------------ *)
(* __contains__, __iter__/__len__, complement()                             *)
RECURSIVE ContainsLoop(_, _, _)
ContainsLoop(l, k, v) ==
  IF k > Len(l) THEN FALSE
  ELSE IF Lo(l[k]) > v THEN FALSE
  ELSE IF Hi(l[k]) <= v THEN ContainsLoop(l, k + 1, v)
  ELSE TRUE
HasCp(l, v) == ContainsLoop(l, 1, v)

RECURSIVE IterInts(_, _)            \* __iter__: the ints in list order
IterInts(l, k) ==
  IF k > Len(l) THEN <<>>
  ELSE [i \in 1..(Hi(l[k]) - Lo(l[k])) |-> Lo(l[k]) + i - 1] \o IterInts(l, k + 1)
Ints(l) == IterInts(l, 1)

Unordered == -1
RECURSIVE ComplLoop(_, _, _, _)     \* complement(): pieces yielded
ComplLoop(l, k, last, out) ==
  IF k > Len(l)
  THEN IF last < MaxU THEN Append(out, <<last, MaxU + 1>>)
       ELSE IF last = MaxU THEN Append(out, <<MaxU>>) ELSE out
  ELSE LET cp0 == Lo(l[k])
           cp1 == Hi(l[k])
           diff == cp0 - last IN
       IF diff > 2 THEN ComplLoop(l, k + 1, cp1, Append(out, <<last, cp0>>))
       ELSE IF diff = 2 THEN ComplLoop(l, k + 1, cp1, out \o <<(<<last>>), (<<last + 1>>)>>)
       ELSE IF diff = 1 THEN ComplLoop(l, k + 1, cp1, Append(out, <<last>>))
       ELSE IF diff = 0 THEN ComplLoop(l, k + 1, cp1, out)
       ELSE <<(<<Unordered>>)>>                                                \* raise ValueError
ComplPieces(l) == ComplLoop(l, 1, 0, <<>>)

(* ------------------------------------------------------------------------ *)
(* codepoints.iter_code_points (codepoints.py:40-88)                        *)
(* sorted() is stable: forward by start, reverse by last code point         *)
(* descending (sorted(..., reverse=True) keeps the input order of ties).    *)
RECURSIVE InsertByKey(_, _, _)
InsertByKey(sorted, p, rev) ==      \* insert p behind every element that does not sort after it
  IF sorted = <<>> THEN <<p>>
  ELSE LET h == Head(sorted)
           stays == IF rev THEN Hi(h) - 1 >= Hi(p) - 1 ELSE Lo(h) <= Lo(p) IN
       IF stays THEN <<h>> \o InsertByKey(Tail(sorted), p, rev) ELSE <<p>> \o sorted
RECURSIVE StableSort(_, _, _)
StableSort(seq, i, rev) ==
  IF i = 0 THEN <<>> ELSE InsertByKey(StableSort(seq, i - 1, rev), seq[i], rev)
Sorted(seq, rev) == StableSort(seq, Len(seq), rev)

Yield(start, end) == IF end > start + 1 THEN <<start, end>> ELSE <<start>>
RECURSIVE IterLoop(_, _, _, _, _, _)
IterLoop(cps, i, start, end, rev, out) ==
  IF i > Len(cps) THEN IF end # 0 THEN Append(out, Yield(start, end)) ELSE out
  ELSE LET cp0 == Lo(cps[i])
           cp1 == Hi(cps[i]) IN
    IF end = 0 THEN IterLoop(cps, i + 1, cp0, cp1, rev, out)                   \* if not end_cp
    ELSE IF rev /\ start <= cp1 THEN IterLoop(cps, i + 1, Min2(start, cp0), end, rev, out)
    ELSE IF ~rev /\ end >= cp0 THEN IterLoop(cps, i + 1, start, Max2(end, cp1), rev, out)
    ELSE IterLoop(cps, i + 1, cp0, cp1, rev, Append(out, Yield(start, end)))
IterCodePoints(seq, rev) == IterLoop(Sorted(seq, rev), 1, 0, 0, rev, <<>>)

(* ------------------------------------------------------------------------ *)
(* composite operations, as the code composes them                          *)
RECURSIVE FoldAdd(_, _, _)
FoldAdd(l, seq, i) == IF i > Len(seq) THEN l ELSE FoldAdd(Add(l, seq[i]).l, seq, i + 1)
RECURSIVE FoldDiscard(_, _, _)
FoldDiscard(l, seq, i) == IF i > Len(seq) THEN l ELSE FoldDiscard(Discard(l, seq[i]).l, seq, i + 1)
RECURSIVE FoldToggle(_, _, _)
FoldToggle(l, ints, i) ==
  IF i > Len(ints) THEN l
  ELSE FoldToggle(IF HasCp(l, ints[i]) THEN Discard(l, <<ints[i]>>).l ELSE Add(l, <<ints[i]>>).l,
                  ints, i + 1)
OneCp(ints) == [i \in 1..Len(ints) |-> <<ints[i]>>]

UpdateImpl(l, seq)     == FoldAdd(l, IterCodePoints(seq, TRUE), 1)            \* update(iterable)
DiffUpdateImpl(l, seq) == FoldDiscard(l, IterCodePoints(seq, TRUE), 1)        \* difference_update(iterable)
IorImpl(l, other)      == FoldAdd(l, Reverse(other), 1)                       \* for cp in reversed(other._codepoints)
IsubImpl(l, other)     == FoldDiscard(l, Reverse(other), 1)
IandImpl(l, other)     == FoldDiscard(l, OneCp(Ints(IsubImpl(l, other))), 1)  \* for value in (self - other): discard
IxorImpl(l, other)     == FoldToggle(l, Ints(other), 1)                       \* for value in other: toggle
CtorImpl(seq)          == IF Variant = "Fixed" THEN IterCodePoints(seq, FALSE)
                          ELSE Sorted(seq, FALSE)                             \* sorted(codepoints, key=code_point_order)

(* ------------------------------------------------------------------------ *)
PieceSeqs(n) == UNION {[1..k -> PieceArgs] : k \in 1..n}

OpAdd(p)        == list' = Add(list, p).l /\ S' = S \cup PieceSet(p)
OpDiscard(p)    == list' = Discard(list, p).l /\ S' = S \ PieceSet(p)
OpUpdate(seq)   == list' = UpdateImpl(list, seq) /\ S' = S \cup Denotes(seq)
OpDiffUpdate(seq) == list' = DiffUpdateImpl(list, seq) /\ S' = S \ Denotes(seq)
OpIor(T)        == list' = IorImpl(list, Canon(T)) /\ S' = S \cup T
OpIsub(T)       == list' = IsubImpl(list, Canon(T)) /\ S' = S \ T
OpIand(T)       == list' = IandImpl(list, Canon(T)) /\ S' = S \cap T
OpIxor(T)       == list' = IxorImpl(list, Canon(T)) /\ S' = Xor(S, T)
OpClear         == list' = <<>> /\ S' = {}
OpCtor(seq)     == list' = CtorImpl(seq) /\ S' = Denotes(seq)

Init == list = <<>> /\ S = {}

Next == \/ \E p \in PieceArgs : OpAdd(p) \/ OpDiscard(p)
        \/ \E seq \in PieceSeqs(SeqLen) : OpUpdate(seq) \/ OpDiffUpdate(seq)
        \/ \E T \in Others : OpIor(T) \/ OpIsub(T) \/ OpIand(T) \/ OpIxor(T)
        \/ OpClear
        \/ \E seq \in PieceSeqs(CtorLen) : OpCtor(seq)

Spec == Init /\ [][Next]_vars

(* the canonical lists of the argument sets, for the harness (printed once) *)
ASSUME \A T \in Others : PrintT(<<"c13canon", <<T, Canon(T)>>>>)

(* ---- refinement invariants --------------------------------------------- *)
TypeOK == S \subseteq Universe

(* the list denotes the abstract set; `in`, iteration and len agree with it *)
SetCorrect ==
   /\ Denotes(list) = S
   /\ \A v \in Universe : HasCp(list, v) = (v \in S)
   /\ Len(Ints(list)) = Cardinality(S)
   /\ \A i \in 1..(Len(Ints(list)) - 1) : Ints(list)[i] < Ints(list)[i + 1]

(* sorted, non-overlapping (adjacent pieces allowed) *)
WellFormed ==
   /\ \A i \in 1..Len(list) : Len(list[i]) \in {1, 2} /\ 0 <= Lo(list[i])
                              /\ Lo(list[i]) < Hi(list[i]) /\ Hi(list[i]) <= M
   /\ \A i \in 1..(Len(list) - 1) : Hi(list[i]) <= Lo(list[i + 1])

(* complement() yields exactly the missing code points, in order *)
ComplementCorrect ==
   LET c == ComplPieces(list) IN
     /\ \A i \in 1..Len(c) : c[i][1] # Unordered
     /\ Denotes(c) = Compl(S)
     /\ \A i \in 1..(Len(c) - 1) : Hi(c[i]) <= Lo(c[i + 1])

(* THE representation invariant of the property: canonical, hence equal for *)
(* equal sets whatever the history (extensional ==).                        *)
RepCanonical == IsCanonical(list) /\ list = Canon(S)
(* its two structural halves, named so that TLC can exhibit each defect of   *)
(* the pinned add() separately                                              *)
Merged    == \A i \in 1..(Len(list) - 1) : Hi(list[i]) # Lo(list[i + 1])      \* adjacent pieces are merged
UnitIsInt == \A i \in 1..Len(list) : (Hi(list[i]) = Lo(list[i]) + 1) => Len(list[i]) = 1

(* iter_code_points merges to the canonical pieces (checked once, in the    *)
(* initial state: it does not depend on the state)                          *)
IterLaw ==
   list = <<>> =>
     \A seq \in PieceSeqs(Max2(SeqLen, CtorLen)) :
        /\ IterCodePoints(seq, FALSE) = Canon(Denotes(seq))
        /\ IterCodePoints(seq, TRUE) = Reverse(Canon(Denotes(seq)))

(* anti-vacuity: every branch of the transcribed loops is taken by some     *)
(* (canonical list, argument) pair inside the bounds                        *)
AddTags == IF Variant = "Fixed" THEN {"insert", "merge_one", "merge_many"}
           ELSE {"append", "insert_before", "skip", "extend_last", "extend_in_gap",
                 "span_next", "extend_left", "inside"}
DiscardTags == {"below_break", "delete", "cut_tail_range", "cut_tail_cp", "cut_head_range",
                "cut_head_cp", "split", "above"}
BranchesCovered ==
   list = <<>> =>
     /\ \A t \in AddTags : \E X \in SUBSET Universe, p \in PieceArgs : t \in Add(Canon(X), p).g
     /\ \A t \in DiscardTags : \E X \in SUBSET Universe, p \in PieceArgs : t \in Discard(Canon(X), p).g
=============================================================================
