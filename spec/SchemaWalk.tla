----------------------------- MODULE SchemaWalk -----------------------------
(***************************************************************************)
(* Step machine of schema application (property C20):                      *)
(*   elementpath/xpath_nodes.py  EtreeElementNode.apply_schema,            *)
(*                               .clear_types, .attributes (lazy cache)    *)
(*   elementpath/xpath_context.py  XPathContext.schema setter              *)
(* driven through the context HISTORY: one node tree, two schema proxies   *)
(* (slot 1 = S, slot 2 = S', the same shape with one declaration retyped   *)
(* so that the instance is valid for both), slot 0 = None.                 *)
(*                                                                         *)
(* Mechanism state (the way the code keeps it):                            *)
(*   ctx    schema slot of the context                                     *)
(*   tsch   node.tree.schema (apply_schema returns at once when it is the  *)
(*          proxy being applied)                                           *)
(*   ety    xsd_type of every element node ("none" = None)                 *)
(*   edc    xsd_element of every element node: 0 None, 1..3 the particle   *)
(*          of the root model (for a ref: the global head), 7 the global   *)
(*          element m (member of the substitution group), 8 the b of grp,  *)
(*          9 the global element b                                         *)
(*   aty    type of every attribute node of a BUILT _attributes list;      *)
(*          "unbuilt" = the element has no _attributes; PSVI (defaulted)   *)
(*          attributes are "absent" when the built list does not hold them *)
(*   pc, stack, mcache   the explicit-stack walk of apply_schema: frames   *)
(*          [ty, todo] = type whose content model is current + remaining   *)
(*          sibling elements; mcache = element_match_cache: (model, name)  *)
(*          -> particle                                                    *)
(* Actions: SetSchema(k) = `context.schema = proxy_k` (clear_types, then   *)
(* apply_schema begins), Visit / Pop = one iteration of the walk loop,     *)
(* ReadAttrs(e) = first access of e.attributes.                            *)
(*                                                                         *)
(* The invariants are the refinement statement: whenever the machine is    *)
(* idle, whatever the history was, the annotations ARE Annot(current       *)
(* schema, instance) of SchemaTyping (no stale type, no stale attribute    *)
(* list, nothing typed when the schema is None).                           *)
(*                                                                         *)
(* The walk matches an element to the FIRST particle of the current model   *)
(* that has its name (and caches that).  Element Declarations Consistent   *)
(* makes the TYPE found that way the right one (RefElems needs the EDC     *)
(* conjunct of SchemaOK), but not the DECLARATION: DeclSound below is not  *)
(* an invariant -- TLC refutes it as soon as two particles share a name    *)
(* (MinKids = 3), which is the "default of the first particle" finding.    *)
(*                                                                         *)
(* A particle that is the head of a substitution group also matches the    *)
(* member name m; the declaration is then the GLOBAL element m (re-lookup  *)
(* by name) and THAT is what the cache must keep: CacheOK says a cache hit *)
(* gives what a fresh scan + re-lookup gives.                              *)
(*                                                                         *)
(* S and S' may also differ in the definition of the global type v         *)
(* (restriction of the type of kid 1) that instances name in xsi:type: the *)
(* type an xsi:type resolves to is the one of the CURRENT schema.          *)
(*                                                                         *)
(* Guard = "typed" is the sound design: apply_schema may only skip the walk *)
(* when tree.schema is the proxy AND the tree still carries its types.     *)
(* Guard = "coded" describes the pinned code (the test is only             *)
(* `tree.schema is schema`, and clear_types leaves tree.schema alone): TLC *)
(* refutes RefElems with SetSchema(1), SetSchema(0), SetSchema(1).         *)
(***************************************************************************)
EXTENDS SchemaTyping, SequencesExt

CONSTANTS RetypeTo,      \* types tried for the retyped declaration of S'
          Guard          \* "typed" | "coded", see above

VARIABLES tid, ctx, tsch, ety, edc, aty, pc, stack, mcache
vars == <<tid, ctx, tsch, ety, edc, aty, pc, stack, mcache>>

---------------------------------------------------------------------------
(* The universe of (S, S', instance) triples *)
RetypeKid(S, i, T) ==
  [S EXCEPT !.kids = [p \in 1..Len(S.kids) |->
      IF p = i \/ (Len(S.kids) = 3 /\ {p, i} = {1, 3}) THEN [S.kids[p] EXCEPT !.ty = T] ELSE S.kids[p]]]
RetypeAtt(S, d, T) == [S EXCEPT !.atts = (S.atts \ {d}) \cup {[d EXCEPT !.ty = T]}]
Retypes(S) ==
  {RetypeKid(S, i, T) : i \in 1..Len(S.kids), T \in RetypeTo \ {"grp", "sc"}}
  \cup {RetypeAtt(S, d, T) : d \in S.atts, T \in RetypeTo \cap SimpleTypes}
KidOK(d) == ~(d.dv /\ d.ty = "grp")
Triples == {<<S, S2, inst>> \in
              UNION {{<<S, S2, inst>> : S2 \in Retypes(S) \ {S}, inst \in Instances(S)} : S \in Schemas} :
                 /\ \A i \in 1..Len(S2.kids) : KidOK(S2.kids[i])
                 /\ SchemaOK(S2.kids)
                 /\ ValidInstance(S2, inst)}
(* everything that depends on the triple only is computed ONCE, as a constant *)
TripleRec(t) == [s1 |-> t[1], s2 |-> t[2], inst |-> t[3], f |-> Flatten(t[1], t[3]),
                 a1 |-> Annot(t[1], t[3]), a2 |-> Annot(t[2], t[3]), au |-> UntypedAnnot(t[1], t[3])]
TripleSeq == SetToSeq({TripleRec(t) : t \in Triples})

Sch(k)  == IF k = 1 THEN TripleSeq[tid].s1 ELSE TripleSeq[tid].s2
Inst    == TripleSeq[tid].inst
F       == TripleSeq[tid].f                 \* same shape for both schemas (only types differ)
AnnotOf(k) == IF k = 1 THEN TripleSeq[tid].a1 ELSE TripleSeq[tid].a2
NodeIds == 1..Len(F)
ElemIds == {n \in NodeIds : F[n].k \in {"ea", "eb", "em"}}
AttrIds == {n \in NodeIds : F[n].k \in {"xa", "xc", "xx"}}
ElemKids(n) == {m \in ElemIds : F[m].par = n}
AttrsOf(n)  == {m \in AttrIds : F[m].par = n}
NameOf(n)   == CASE F[n].k = "ea" -> "a" [] F[n].k = "eb" -> "b" [] F[n].k = "em" -> "m"
AttrName(m) == CASE F[m].k = "xa" -> "a" [] F[m].k = "xc" -> "c" [] OTHER -> "xsi"
HasXsiType(n) == \E m \in AttrsOf(n) : F[m].s = "xtype"
XsiTypeOf(n)  == Inst.kids[F[n].i][F[n].j].xt

RECURSIVE AscSeqW(_)
AscSeqW(X) == IF X = {} THEN <<>>
              ELSE LET m == CHOOSE a \in X : \A b \in X : a <= b IN <<m>> \o AscSeqW(X \ {m})

---------------------------------------------------------------------------
(* schema components as the code sees them *)
Particles(S, T) ==      \* content model of type T: sequence of [name, ty, dc]
  CASE T = "root" -> [p \in 1..Len(S.kids) |-> [name |-> KidName(p), ty |-> DeclTy(S.kids[p]), dc |-> p,
                                                 subst |-> IF S.kids[p].sg THEN {"m"} ELSE {}]]
    [] T = "grp"  -> <<[name |-> "b", ty |-> "boolean", dc |-> 8, subst |-> {}]>>
    [] OTHER      -> <<>>                               \* simple types, simple content: no model group
TypeAttrs(S, T) ==      \* attribute declarations of a complex type: set of [nm, ty, use]
  CASE T = "root" -> S.atts
    [] T = "sc"   -> {[nm |-> "a", ty |-> "int", use |-> "opt"]}
    [] OTHER      -> {}
IsComplex(T) == T \in {"root", "sc", "grp"}
DeclTypeOf(S, dc) == CASE dc = 9 -> "root" [] dc = 8 -> "boolean"
                       [] dc = 7 -> SgMember(S.kids[1].ty)        \* the global element m
                       [] OTHER -> DeclTy(S.kids[dc])
Matches(pt, name) == pt.name = name \/ name \in pt.subst          \* XsdElement.is_matching
FirstMatch(ps, name) ==   \* iter_elements(): the first particle that matches the name; the declaration is the
                          \* particle's, or -- matched through the substitution group -- the global element of
                          \* that name (schema.get_element); 0 if none
  IF \E p \in 1..Len(ps) : Matches(ps[p], name)
  THEN LET p == CHOOSE p \in 1..Len(ps) : Matches(ps[p], name) /\ \A q \in 1..(p-1) : ~Matches(ps[q], name)
       IN IF ps[p].name = name THEN ps[p].dc ELSE 7
  ELSE 0

---------------------------------------------------------------------------
MaxNodes == 24                               \* 1 + 2 attributes + 3 kids * 2 occurrences * <= 3 nodes, rounded up
Untyped == [n \in ElemIds |-> "none"]
NoDecl  == [n \in ElemIds |-> 0]
Unbuilt == [m \in AttrIds |-> "unbuilt"]

Init == /\ tid \in 1..Len(TripleSeq)
        /\ PrintT(<<"vec", tid, Sch(1), Sch(2), Inst, Vec(Sch(1), Inst), Vec(Sch(2), Inst)>>)
        /\ ctx = 0 /\ tsch = 0
        /\ ety = Untyped /\ edc = NoDecl /\ aty = Unbuilt
        /\ pc = "idle" /\ stack = <<>> /\ mcache = {}

(* context.schema = proxy_k:  clear_types() on the whole tree, then apply_schema(proxy_k) *)
SetSchema(k) ==
  /\ pc = "idle"
  /\ ctx' = k
  /\ ety' = Untyped /\ edc' = NoDecl /\ aty' = Unbuilt         \* clear_types
  /\ mcache' = {}
  /\ IF k = 0 THEN tsch' = tsch /\ pc' = "idle" /\ stack' = <<>>
     ELSE IF tsch = k /\ Guard = "coded"                       \* `self.tree.schema is schema`: return
          THEN tsch' = tsch /\ pc' = "idle" /\ stack' = <<>>   \* (sound guard: ... and the root is typed -- never after a clear)
     ELSE /\ tsch' = k
          /\ pc' = "walk"
          /\ stack' = <<[ty |-> "none", todo |-> <<1>>]>>     \* xsd_types = [None], children = (root,)
  /\ UNCHANGED tid

(* one iteration of `for node in children` *)
Visit ==
  /\ pc = "walk" /\ stack # <<>> /\ stack[1].todo # <<>>
  /\ LET S    == Sch(tsch)
         fr   == stack[1]
         n    == Head(fr.todo)
         rest == [fr EXCEPT !.todo = Tail(fr.todo)]
         ps   == Particles(S, fr.ty)
         hit  == {c \in mcache : c[1] = fr.ty /\ c[2] = NameOf(n)}
         dc   == IF HasXsiType(n) THEN 0                                   \* xsd_element stays None
                 ELSE IF fr.ty = "none" THEN (IF NameOf(n) = "b" THEN 9 ELSE 0)   \* schema.get_element
                 ELSE IF hit # {} THEN (CHOOSE c \in hit : TRUE)[3]
                 ELSE FirstMatch(ps, NameOf(n))
         T    == IF HasXsiType(n) THEN XsiTypeOf(n)
                 ELSE IF dc = 0 THEN "none"
                 ELSE DeclTypeOf(S, dc)
         sub  == {n} \cup ElemKids(n)
     IN /\ mcache' = IF ~HasXsiType(n) /\ fr.ty # "none" /\ hit = {} /\ dc # 0
                     THEN mcache \cup {<<fr.ty, NameOf(n), dc>>} ELSE mcache
        /\ IF T = "none"
           THEN \* node.clear_types(); continue
                /\ ety' = [e \in ElemIds |-> IF e \in sub THEN "none" ELSE ety[e]]
                /\ edc' = [e \in ElemIds |-> IF e \in sub THEN 0 ELSE edc[e]]
                /\ aty' = [m \in AttrIds |-> IF F[m].par \in sub THEN "unbuilt" ELSE aty[m]]
                /\ stack' = <<rest>> \o Tail(stack)
           ELSE /\ ety' = [ety EXCEPT ![n] = T]
                /\ edc' = [edc EXCEPT ![n] = dc]
                /\ aty' = [m \in AttrIds |-> IF F[m].par = n THEN "unbuilt" ELSE aty[m]]   \* delattr(_attributes)
                /\ stack' = IF ElemKids(n) # {}
                            THEN <<[ty |-> T, todo |-> AscSeqW(ElemKids(n))]>> \o <<rest>> \o Tail(stack)
                            ELSE <<rest>> \o Tail(stack)
  /\ UNCHANGED <<tid, ctx, tsch, pc>>

(* children exhausted: pop the iterator and the type *)
Pop ==
  /\ pc = "walk" /\ stack # <<>> /\ stack[1].todo = <<>>
  /\ stack' = Tail(stack)
  /\ pc' = IF Len(stack) = 1 THEN "idle" ELSE "walk"
  /\ UNCHANGED <<tid, ctx, tsch, ety, edc, aty, mcache>>

(* first access of e.attributes *)
ReadAttrs(e) ==
  /\ pc = "idle" /\ e \in ElemIds /\ AttrsOf(e) # {}
  /\ \E m \in AttrsOf(e) : aty[m] = "unbuilt"
  /\ LET T  == IF ety[e] = "none" THEN "none"
               ELSE IF edc[e] = 0 \/ HasXsiType(e) THEN ety[e]
               ELSE DeclTypeOf(Sch(tsch), edc[e])
         ds == IF T = "none" THEN {} ELSE TypeAttrs(Sch(tsch), T)
         ty(m) == IF F[m].dflt
                  THEN (IF \E d \in ds : d.nm = AttrName(m) /\ d.use = "dflt"
                        THEN (CHOOSE d \in ds : d.nm = AttrName(m)).ty ELSE "absent")
                  ELSE IF T # "none" /\ IsComplex(T) /\ AttrName(m) = "xsi" THEN "xsi"
                  ELSE IF \E d \in ds : d.nm = AttrName(m) THEN (CHOOSE d \in ds : d.nm = AttrName(m)).ty
                  ELSE "none"
     IN aty' = [m \in AttrIds |-> IF F[m].par = e THEN ty(m) ELSE aty[m]]
  /\ UNCHANGED <<tid, ctx, tsch, ety, edc, pc, stack, mcache>>

Next == \/ \E k \in 0..2 : SetSchema(k)
        \/ Visit
        \/ Pop
        \/ \E e \in 1..MaxNodes : ReadAttrs(e)    \* a constant range, so that TLC labels the edge ReadAttrs(e)

Spec == Init /\ [][Next]_vars

---------------------------------------------------------------------------
(* Refinement invariants *)
WantElemType(n) == IF ctx = 0 THEN "none" ELSE AnnotOf(ctx)[n].ty
WantAttrType(m) ==
  IF ctx = 0 THEN (IF F[m].dflt THEN "absent" ELSE "none")
  ELSE IF F[m].k = "xx" THEN (IF IsComplex(WantElemType(F[m].par)) THEN "xsi" ELSE "none")
  ELSE AnnotOf(ctx)[m].ty

TypeOK == /\ ctx \in 0..2 /\ tsch \in 0..2
          /\ pc \in {"idle", "walk"}
          /\ pc = "idle" => stack = <<>>
          /\ DOMAIN ety = ElemIds /\ DOMAIN aty = AttrIds
(* annotation = declaration, whatever the history (no stale xsd_type) *)
RefElems == pc = "idle" => \A n \in ElemIds : ety[n] = WantElemType(n)
(* a built attribute list was built under the CURRENT types (no stale _attributes) *)
RefAtts  == pc = "idle" => \A m \in AttrIds : aty[m] # "unbuilt" => aty[m] = WantAttrType(m)
WalkOK   == pc = "walk" =>
              /\ tsch = ctx /\ ctx # 0
              /\ \A n \in ElemIds : ety[n] \in {"none", AnnotOf(ctx)[n].ty}    \* never a wrong type mid-walk
(* the per-model cache only ever holds what a fresh scan would find *)
CacheOK  == \A c \in mcache : c[3] = FirstMatch(Particles(Sch(tsch), c[1]), c[2])
(* the triple is well formed: same shape, instance valid for both schemas *)
TripleOK == /\ ValidInstance(Sch(1), Inst) /\ ValidInstance(Sch(2), Inst)
            /\ Len(Flatten(Sch(2), Inst)) = Len(F)
            /\ \A n \in NodeIds : Flatten(Sch(2), Inst)[n].k = F[n].k /\ Flatten(Sch(2), Inst)[n].par = F[n].par
            /\ PairLaws(Sch(1), Inst) /\ PairLaws(Sch(2), Inst)
(* NOT an invariant (see the header): the declaration attributed to a kid is its own particle *)
DeclSound == pc = "idle" /\ ctx # 0 =>
               \A n \in ElemIds : F[n].s = "kid" /\ ~HasXsiType(n) =>
                  edc[n] = IF F[n].k = "em" THEN 7 ELSE F[n].i
Inv == TypeOK /\ RefElems /\ RefAtts /\ WalkOK /\ CacheOK
InitLaws == (pc = "idle" /\ ctx = 0 /\ tsch = 0 /\ aty = Unbuilt) => TripleOK
(* the tree never keeps types of a schema the context no longer has *)
NoStale == pc = "idle" /\ ctx = 0 => ety = Untyped
ASSUME StaticLaws
=============================================================================
