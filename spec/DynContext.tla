----------------------------- MODULE DynContext -----------------------------
(***************************************************************************)
(* Property C03, dynamic-context dimension: "for every parsed expression   *)
(* AND DYNAMIC CONTEXT evaluation either returns a value or raises an      *)
(* ElementPathError".  State = (context class, expression class); the      *)
(* single action Pair chooses them, so the graph is the full product.      *)
(* Context classes (built 1:1 by engine/props/c03.py from public API):     *)
(*   doc_root       root = the document                                    *)
(*   elem_root      root = the root element (hidden dummy document)        *)
(*   fragment_true / fragment_false   root element, fragment = True/False  *)
(*   item_none      root given, item = None explicitly                     *)
(*   item_atomic / item_elem / item_attr / item_text                       *)
(*                  root given, item = 1 / an element / attribute / text   *)
(*   noroot_atomic / noroot_elem / noroot_attr / noroot_text               *)
(*                  NO root: XPathContext(item = ...) only                 *)
(*   item_foreign   root given, item = an element of ANOTHER tree          *)
(*   no_vars        root given, no variables / documents / collections     *)
(*   full           variables, documents, collections, text resources set  *)
(* Expression classes: leading '/', leading '//', '.', '..', every axis,   *)
(* root(), id(), position()/last(), the context-dependent functions,       *)
(* variables, doc()/collection().  Legal outcomes: Outcome.tla (a value or *)
(* an ElementPathError such as XPDY0002 / XPTY0020), no hang.              *)
(***************************************************************************)
EXTENDS Naturals, FiniteSets, TLC

CONSTANTS Ctxs, Exprs

AllCtxs == {"doc_root", "elem_root", "fragment_true", "fragment_false", "item_none", "item_atomic", "item_elem",
            "item_attr", "item_text", "noroot_atomic", "noroot_elem", "noroot_attr", "noroot_text", "item_foreign",
            "no_vars", "full"}
AllExprs == {"slash", "slash-step", "dslash-step", "dslash-star", "dslash-pred", "paren-dslash", "dot", "dotdot",
             "child", "descendant", "descendant-or-self", "parent", "ancestor", "ancestor-or-self", "following",
             "following-sibling", "preceding", "preceding-sibling", "attribute", "self", "namespace", "relative-dslash",
             "root-fn", "root-fn-dot", "id-fn", "idref-fn", "position", "last", "name", "local-name", "string",
             "number", "string-length", "normalize-space", "lang", "base-uri", "document-uri", "path", "has-children",
             "innermost", "outermost", "data", "nilled", "generate-id", "variable", "undefined-variable", "doc",
             "doc-available", "collection", "uri-collection", "unparsed-text", "current-dateTime", "implicit-timezone",
             "default-collation", "static-base-uri", "count-dslash", "union-paths", "predicate-position", "arith-path",
             "for-path", "simple-map", "context-item-arith", "element-with-id", "lookup-dot"}
ASSUME CtxsOK == Ctxs \subseteq AllCtxs /\ Exprs \subseteq AllExprs

VARIABLES ctx, expr
vars == <<ctx, expr>>
Init == ctx = "-" /\ expr = "-"
Pair(c, e) == ctx = "-" /\ ctx' = c /\ expr' = e
Next == \E c \in Ctxs, e \in Exprs : Pair(c, e)
Spec == Init /\ [][Next]_vars
TypeOK == (ctx = "-" /\ expr = "-") \/ (ctx \in Ctxs /\ expr \in Exprs)
PlanSize == 1 + Cardinality(Ctxs) * Cardinality(Exprs)
ASSUME PrintPlan == PrintT(<<"ctx_plan_size", PlanSize>>)
=============================================================================
