------------------------------ MODULE DateOps ------------------------------
(***************************************************************************)
(* The pure part of the date/time model (property C11): values, the F&O    *)
(* operations on them and the laws, without variables.  DateChain.tla (the *)
(* value-state machine over grids of literals) and DateObject.tla (one     *)
(* value OBJECT used by several operations) extend it.                     *)
(*                                                                         *)
(*   [st |-> "raw",  k, y, mo, d, h, mi, s, us, tz]   lexical fields as written (24:00:00, Feb 29, year 0) *)
(*   [st |-> "val",  k, y, mo, d, h, mi, s, us, tz]   a value of kind k in "dateTime" | "date" | "time"   *)
(*   [st |-> "gval", k, y, mo, ..., tz]                a gYear / gYearMonth value (construction only)       *)
(*   [st |-> "rawdur", k, neg, yy, mm, dd, hh, mi, ss, us]   a duration literal as written                  *)
(*   [st |-> "dur",  k, neg, m, d, s, us]              a duration value (Durations.tla)                    *)
(*   [st |-> "cmp",  r]   [st |-> "comps", ...]   [st |-> "dcomps", ...]   [st |-> "err"]   terminal       *)
(*                                                                         *)
(* y is the LEXICAL year under the configured XSD version (Calendar.tla:   *)
(* Astro / Lex), tz is minutes east of UTC or NoTZ.  All arithmetic is     *)
(* done on timeline stamps <<days, seconds, micros>>.                      *)
(* Semantics: XSD 1.1 part 2, 3.3.7 and appendix E.3 (timeOnTimeline,      *)
(* dateTimePlusDuration: months first, day clamped to the month length);   *)
(* F&O 3.1: 9.4 comparisons (order of the instants, dates by their         *)
(* starting instant, times on one reference day), 9.5 component            *)
(* extraction, 9.6 adjust-*-to-timezone, 9.7/9.8 arithmetic.               *)
(* Outside: |year| > 5 000 000 (32-bit TLC), timezones beyond +-14:00,     *)
(* FODT0001/FODT0002 overflow behaviour, xs:duration with both parts.      *)
(***************************************************************************)
EXTENDS Durations, FiniteSets

CONSTANTS Xsd,          \* "10" | "11"
          ImplicitTZcfg \* the implicit timezone of the dynamic context, minutes (0 = UTC); a cfg file cannot
                        \* hold a negative number: 10000 + m stands for -m (10030 = -00:30)

NoTZ == 9999
ImplicitTZ == IF ImplicitTZcfg >= 10000 THEN 10000 - ImplicitTZcfg ELSE ImplicitTZcfg
Min(a, b) == IF a < b THEN a ELSE b

---------------------------------------------------------------------------
(* values *)
Val(k, ly, mo, d, h, mi, s, us, tz) ==
  [st |-> "val", k |-> k, y |-> ly, mo |-> mo, d |-> d, h |-> h, mi |-> mi, s |-> s, us |-> us, tz |-> tz]
Err == [st |-> "err"]
IsVal(v) == v.st = "val"
IsDur(v) == v.st = "dur"
HasDate(v) == v.k \in {"dateTime", "date"}
GKinds == {"gYear", "gYearMonth"}      \* only lexical -> value -> lexical (no arithmetic in F&O)
AY(v) == Astro(Xsd, v.y)

(* local wall-clock stamp; a time lives on day 0 *)
Local(v) == IF HasDate(v) THEN LocalStamp(AY(v), v.mo, v.d, v.h, v.mi, v.s, v.us)
            ELSE NormStamp(0, v.h * 3600 + v.mi * 60 + v.s, v.us)
EffTZ(v) == IF v.tz = NoTZ THEN ImplicitTZ ELSE v.tz
Utc(v)   == UtcOf(Local(v), EffTZ(v))                      \* the instant (timeOnTimeline)

(* stamp -> value of kind k: the inverse of Local.  A date drops the time of day,
   a time drops the day. *)
FromLocal(k, st, tz) ==
  LET c == CivilFromDays(st[1]) IN
  IF k = "dateTime" THEN Val(k, Lex(Xsd, c[1]), c[2], c[3], st[2] \div 3600, (st[2] \div 60) % 60, st[2] % 60, st[3], tz)
  ELSE IF k = "date" THEN Val(k, Lex(Xsd, c[1]), c[2], c[3], 0, 0, 0, 0, tz)
  ELSE Val(k, 0, 0, 0, st[2] \div 3600, (st[2] \div 60) % 60, st[2] % 60, st[3], tz)

(* lexical -> value (the constructor / fromstring): year 0 only exists in XSD 1.1, the day must
   exist in that month of that year, 24:00:00 is the first instant of the next day *)
ConstructV(r) ==
  IF r.k \in GKinds
  THEN IF ValidLexYear(Xsd, r.y) THEN [r EXCEPT !.st = "gval"] ELSE Err
  ELSE IF r.k = "time" THEN FromLocal("time", NormStamp(0, r.h * 3600 + r.mi * 60 + r.s, r.us), r.tz)
  ELSE IF ~ValidLexYear(Xsd, r.y) THEN Err
  ELSE IF ~ValidCivil(<<Astro(Xsd, r.y), r.mo, r.d>>) THEN Err
  ELSE FromLocal(r.k, LocalStamp(Astro(Xsd, r.y), r.mo, r.d, r.h, r.mi, r.s, r.us), r.tz)

---------------------------------------------------------------------------
(* operations *)
(* op:add-dayTimeDuration-to-dateTime / -date / -time: add to the local fields, keep the timezone *)
AddDTDv(v, dur) == LET t == StampAdd(Local(v), DtdStamp(dur)) IN FromLocal(v.k, t, v.tz)

(* op:add-yearMonthDuration-to-dateTime / -date (XSD 1.1 E.3.3): month index moves, day is clamped *)
AddYMDv(v, dur) ==
  LET t  == AY(v) * 12 + (v.mo - 1) + YmdMonths(dur)
      ny == t \div 12
      nm == (t % 12) + 1
  IN [v EXCEPT !.y = Lex(Xsd, ny), !.mo = nm, !.d = Min(v.d, DaysInMonth(ny, nm))]

(* op:subtract-dateTimes / -dates / -times: elapsed time between the instants *)
DiffV(a, b) == DtdRec(StampSub(Utc(a), Utc(b)))

(* op:*-less-than / -equal / -greater-than: the order of the instants *)
CompareV(a, b) == StampCmp(Utc(a), Utc(b))

(* fn:adjust-dateTime/date/time-to-timezone($v, $tz) with $tz given or () *)
AdjustV(v, tz) ==
  IF v.tz = NoTZ \/ tz = NoTZ THEN [v EXCEPT !.tz = tz]
  ELSE FromLocal(v.k, StampAdd(Local(v), TzStamp(tz - v.tz)), tz)

(* fn:year-from-dateTime ... fn:timezone-from-dateTime: the value's own (local) components *)
ComponentsV(v) ==
  [st |-> "comps", k |-> v.k, year |-> v.y, month |-> v.mo, day |-> v.d, hours |-> v.h, minutes |-> v.mi,
   seconds |-> v.s, micros |-> v.us, tz |-> v.tz]
(* fn:years-from-duration ...: magnitudes split by 12 / 24 / 60 / 60, the sign on every component *)
DurComponentsV(r) ==
  [st |-> "dcomps", k |-> r.k, neg |-> r.neg, years |-> r.m \div 12, months |-> r.m % 12, days |-> r.d,
   hours |-> r.s \div 3600, minutes |-> (r.s \div 60) % 60, seconds |-> r.s % 60, micros |-> r.us]

DurState(r) == [st |-> "dur", k |-> r.k, neg |-> r.neg, m |-> r.m, d |-> r.d, s |-> r.s, us |-> r.us]
DurOf(v)    == [k |-> v.k, neg |-> v.neg, m |-> v.m, d |-> v.d, s |-> v.s, us |-> v.us]


(* sub-hour offsets (-00:30, +00:30, -00:01) are in every grid: the sign of such an offset is only in
   the leading '-' of the lexical form, the hours field is zero *)
FullTZs  == {NoTZ, 0, 840, -840, 330, -570, -30, 30, -1}
(* the $timezone arguments of fn:adjust-*-to-timezone: the whole range -14:00 .. +14:00 with the pairs
   that are exactly 24 hours apart (-10:00 / +14:00, -12:00 / +12:00, -14:00 / +10:00) *)
AdjustArgs == FullTZs \cup {600, -600, 720, -720}

Raw(k, y, md, t, tz) ==
  [st |-> "raw", k |-> k, y |-> y, mo |-> md[1], d |-> md[2], h |-> t[1], mi |-> t[2], s |-> t[3], us |-> t[4], tz |-> tz]
RawDur(k, neg, yy, mm, dd, hh, mi, ss, us) ==
  [st |-> "rawdur", k |-> k, neg |-> neg, yy |-> yy, mm |-> mm, dd |-> dd, hh |-> hh, mi |-> mi, ss |-> ss, us |-> us]
ConstructDur(r) == DurState(DurFromLexical(r.k, r.neg, r.yy, r.mm, r.dd, r.hh, r.mi, r.ss, r.us))

(* operand grids of the actions (durations as sign-magnitude records) *)
D(neg, d, s, us) == [k |-> "dtd", neg |-> neg, m |-> 0, d |-> d, s |-> s, us |-> us]
M(neg, m) == [k |-> "ymd", neg |-> neg, m |-> m, d |-> 0, s |-> 0, us |-> 0]
DTDGrid == {D(FALSE, 0, 0, 0), D(FALSE, 0, 1, 0), D(TRUE, 0, 1, 0), D(FALSE, 1, 0, 0), D(TRUE, 1, 0, 0),
            D(FALSE, 365, 0, 0), D(TRUE, 365, 0, 0), D(FALSE, 0, 0, 1), D(TRUE, 0, 0, 1)}
YMDGrid == {M(FALSE, 0), M(FALSE, 1), M(TRUE, 1), M(FALSE, 12), M(TRUE, 12), M(FALSE, 14), M(TRUE, 14)}
(* second operation of a chain (MaxDepth = 4): a subset *)
ChainDTD == {D(FALSE, 0, 1, 0), D(FALSE, 1, 0, 0), D(TRUE, 365, 0, 0)}
ChainYMD == {M(FALSE, 1), M(TRUE, 12)}
Multipliers == {0, 2, 3}

(* the second operand of Diff / Compare / AddTo: a fixed list per kind (lexical years valid in both
   XSD versions); chosen so that normalisation to UTC crosses the year 1, year 10000 and era borders *)
OtherRaws == <<
  <<2000, <<2, 29>>, <<12, 30, 15, 0>>, 0>>,
  <<1999, <<12, 31>>, <<23, 59, 59, 999999>>, NoTZ>>,
  <<1, <<1, 1>>, <<0, 0, 0, 0>>, 840>>,
  <<-1, <<12, 31>>, <<12, 30, 15, 0>>, -840>>,
  <<-820, <<3, 1>>, <<0, 0, 0, 0>>, 0>>,
  <<9999, <<12, 31>>, <<23, 59, 59, 999999>>, -840>>,
  <<10000, <<1, 1>>, <<0, 0, 0, 0>>, -570>>,
  <<400000, <<3, 1>>, <<12, 30, 15, 0>>, NoTZ>>,
  <<-400001, <<12, 31>>, <<0, 0, 0, 0>>, 0>>,
  <<2000, <<1, 1>>, <<0, 0, 0, 0>>, 840>> >>
NOthers == Len(OtherRaws)
OtherOf(k, i) ==
  LET o == OtherRaws[i] IN
  IF k = "dateTime" THEN ConstructV(Raw(k, o[1], o[2], o[3], o[4]))
  ELSE IF k = "date" THEN ConstructV(Raw(k, o[1], o[2], <<0, 0, 0, 0>>, o[4]))
  ELSE ConstructV(Raw(k, 0, <<0, 0>>, o[3], o[4]))
Kinds == {"dateTime", "date", "time"}
OthersTable == [k \in Kinds |-> [i \in 1..NOthers |-> OtherOf(k, i)]]       \* printed for the binding
DurOthers == [k \in {"dtd", "ymd"} |->
  IF k = "dtd" THEN <<D(FALSE, 0, 0, 0), D(FALSE, 0, 1, 0), D(TRUE, 1, 0, 0), D(FALSE, 365, 0, 0), D(FALSE, 0, 0, 1), D(FALSE, 1, 43200, 0)>>
  ELSE <<M(FALSE, 0), M(FALSE, 1), M(TRUE, 12), M(FALSE, 14)>>]

---------------------------------------------------------------------------
(* The laws quoted by the property.  Every reached value must be well formed and survive
   value -> timeline offset -> value; the laws that quantify over the operand grids (about 300
   calendar conversions per value) are evaluated on the values with ops <= LawOps. *)
WellFormed(v) ==
  /\ v.h \in 0..23 /\ v.mi \in 0..59 /\ v.s \in 0..59 /\ v.us \in 0..999999
  /\ (v.tz = NoTZ \/ ValidTZ(v.tz))
  /\ HasDate(v) => (ValidLexYear(Xsd, v.y) /\ ValidCivil(<<AY(v), v.mo, v.d>>) /\ AY(v) \in -MaxAbsYear..MaxAbsYear)
  /\ (v.k = "date") => (v.h = 0 /\ v.mi = 0 /\ v.s = 0 /\ v.us = 0)

LawRoundTrip(v) ==    \* value -> timeline offset -> value is the identity
  /\ FromLocal(v.k, Local(v), v.tz) = v
  /\ IsStamp(Local(v)) /\ IsStamp(Utc(v))

WholeDays(r) == r.s = 0 /\ r.us = 0
LawAddSub(v) ==       \* d + dur - dur = d  (a date only sees whole days); d2 - d1 is the true elapsed time
  \A r \in DTDGrid : (v.k = "date" => WholeDays(r)) =>
     /\ AddDTDv(AddDTDv(v, r), DurNeg(r)) = v
     /\ AddDTDv(AddDTDv(v, DurNeg(r)), r) = v
     /\ (v.k # "time") => DiffV(AddDTDv(v, r), v) = r

LawDiffAdd(v) ==      \* d1 + (d2 - d1) = d2 (as instants; the result keeps d1's timezone)
  \A i \in 1..NOthers :
     LET o == OtherOf(v.k, i) IN
     IsVal(o) =>
       /\ DiffV(v, o) = DurNeg(DiffV(o, v))
       /\ (v.k = "dateTime") =>
            /\ Utc(AddDTDv(v, DiffV(o, v))) = Utc(o)
            /\ AddDTDv(v, DiffV(o, v)).tz = v.tz
       /\ (v.k = "date" /\ EffTZ(v) = EffTZ(o)) => Utc(AddDTDv(v, DiffV(o, v))) = Utc(o)

LawCompare(v) ==      \* comparison = order of the instants; antisymmetric; consistent with subtraction
  /\ CompareV(v, v) = 0
  /\ \A i \in 1..NOthers :
       LET o == OtherOf(v.k, i) IN
       IsVal(o) =>
         /\ CompareV(v, o) = -CompareV(o, v)
         /\ CompareV(v, o) = StampSign(DtdStamp(DiffV(v, o)))
         /\ (CompareV(v, o) = 0) <=> (Utc(v) = Utc(o))
  /\ (v.k = "dateTime") => CompareV(AddDTDv(v, D(FALSE, 0, 0, 1)), v) = 1

LawAdjust(v) ==       \* adjust-to-timezone preserves the instant / relabels a value without timezone;
                      \* the timezone component of the result is the requested offset
  \A tz \in AdjustArgs :
     LET w == AdjustV(v, tz) IN
     /\ w.tz = tz /\ WellFormed(w)
     /\ (v.tz # NoTZ /\ tz # NoTZ /\ v.k = "dateTime") => Utc(w) = Utc(v)
     /\ (v.tz # NoTZ /\ tz # NoTZ /\ v.k = "time") => (Utc(w)[2] = Utc(v)[2] /\ Utc(w)[3] = Utc(v)[3])
     /\ (v.tz = NoTZ \/ tz = NoTZ) => Local(w) = Local(v)
     /\ (tz # NoTZ) => AdjustV(w, tz) = w

LawClamp(v) ==        \* yearMonthDuration: the month index moves exactly, the day is clamped to the month length
  HasDate(v) => \A r \in YMDGrid :
     LET w == AddYMDv(v, r) IN
     /\ WellFormed(w)
     /\ (AY(w) * 12 + w.mo) - (AY(v) * 12 + v.mo) = YmdMonths(r)
     /\ w.d = Min(v.d, DaysInMonth(AY(w), w.mo))
     /\ <<w.h, w.mi, w.s, w.us, w.tz>> = <<v.h, v.mi, v.s, v.us, v.tz>>
     /\ (v.mo = 1 /\ v.d = 31 /\ r = M(FALSE, 1)) => (w.mo = 2 /\ w.d = IF IsLeap(AY(v)) THEN 29 ELSE 28)
     /\ (v.d <= 28) => AddYMDv(w, DurNeg(r)) = v

LawDur(v) ==
  LET r == DurOf(v) IN
  /\ WellFormedDur(r)
  /\ DurNeg(DurNeg(r)) = r
  /\ DurTimes(r, 3) = RepeatAdd(r, 3) /\ DurTimes(r, 0) = DurSub(r, r)
  /\ \A j \in 1..Len(DurOthers[r.k]) :
       LET o == DurOthers[r.k][j] IN
       /\ DurSub(DurAdd(r, o), o) = r
       /\ DurCmp(r, o) = -DurCmp(o, r)
       /\ (DurCmp(r, o) = 0) <=> (r = o)
       /\ DurCmp(DurAdd(r, o), r) = DurCmp(o, DurSub(o, o))
  /\ (r.k = "dtd") => DtdRec(DtdStamp(r)) = r
  /\ (r.k = "ymd") => YmdRec(YmdMonths(r)) = r

LawsOf(v) ==
  /\ IsVal(v) => (WellFormed(v) /\ LawRoundTrip(v) /\ LawAddSub(v) /\ LawDiffAdd(v) /\ LawCompare(v)
                  /\ LawAdjust(v) /\ LawClamp(v))
  /\ IsDur(v) => LawDur(v)
(* 24:00:00 is the first instant of the next day; a literal is rejected only for year 0 (XSD 1.0) or a
   day that the month does not have *)
LawConstruct(r, v) ==
  /\ (r.st = "raw" /\ r.k \in GKinds) => ((v = Err) <=> (Xsd = "10" /\ r.y = 0))
  /\ (r.st = "raw" /\ HasDate(r)) =>
     /\ (v = Err) <=> (~ValidLexYear(Xsd, r.y) \/ r.d > DaysInMonth(Astro(Xsd, r.y), r.mo))
     /\ (IsVal(v) /\ r.h = 24) => Local(v) = <<DaysFromCivil(Astro(Xsd, r.y), r.mo, r.d) + 1, 0, 0>>
     /\ (IsVal(v) /\ r.h < 24) => <<v.y, v.mo, v.d, v.h, v.mi, v.s, v.us, v.tz>> = <<r.y, r.mo, r.d, r.h, r.mi, r.s, r.us, r.tz>>
=============================================================================
