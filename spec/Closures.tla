------------------------------ MODULE Closures ------------------------------
(***************************************************************************)
(* Property C16, part 1: function items are created inside for/let scopes  *)
(* and called LATER, in any order and multiplicity.  HISTORY MACHINE: the   *)
(* state is the history of a program                                       *)
(*                                                                         *)
(*   let <outer bindings>,                                                 *)
(*       $fs := (<creating scope, n iterations of ONE function expression>)*)
(*   return (e1, "|", e2, ...)            events in the order TLC chose    *)
(*                                                                         *)
(*   Create(i)            iteration i of the creating scope evaluates the  *)
(*                        function expression once more -> function item i *)
(*   EndScope             the creating scope is left                       *)
(*   CallLater(h, args)   dynamic call of function item h                  *)
(*   Partial(h, mask)     partial application with ? placeholders -> new   *)
(*                        function item $pK                                *)
(*   TypedCall / TypedPartial   the same two actions for the templates     *)
(*                        whose parameters have declared types             *)
(*   NamedRef(f, arity)   named function reference f#arity -> new $pK      *)
(* Templates also vary the FORM of the function item: declared parameter   *)
(* types, a declared RESULT type (rtd, rtds, rtany; ResultTypeLaw),        *)
(* references to focus-dependent functions made per item of  S ! name#0,   *)
(* of a path step r/child/name#0, and by fn:function-lookup (lk.. ids).    *)
(*                                                                         *)
(* log  = the result of every call under the DEFINITIONAL semantics        *)
(*        (FnEval!Eval); it is the oracle of the conformance replay.       *)
(* ilog = the result of every call under the implementation-shaped         *)
(*        evaluator FnEval!EvalI, which follows the CURRENT code of /repo. *)
(*        It is NOT an oracle; TLC is asked to prove AsImplementedAgrees   *)
(*        and must come back with a counterexample as long as the          *)
(*        implementation design deviates (first the token-sharing defect:  *)
(*        captured variables on the syntax token, repaired in e070bf1;     *)
(*        now the static partial application concat($i, ?) whose fixed     *)
(*        arguments are evaluated at call time), and the replay uses it    *)
(*        only to classify a failure ("observed = what the modelled        *)
(*        design computes").                                               *)
(*                                                                         *)
(* Both logs are functions of the history (recomputed by folding over the  *)
(* events), so the state stays a compact history and the dumped graph is a *)
(* forest whose leaves are complete programs.                              *)
(***************************************************************************)
EXTENDS FnEval

CONSTANTS Templates,    \* set of template ids (see Outer / CreateExpr)
          MaxN,         \* max iterations of the creating scope (1..3)
          MaxEvents,    \* max events after the scope was left
          MaxMakers,    \* max Partial + NamedRef events among them
          PartialIn,    \* templates in which Partial is enabled
          RefIn,        \* templates in which NamedRef is enabled
          TwoHoles      \* BOOLEAN: also masks with two placeholders

VARIABLES tpl, n, phase, ev, log, ilog
vars == <<tpl, n, phase, ev, log, ilog>>

Vals == <<10, 20, 30>>
Neg2 == -2

---------------------------------------------------------------------------
(* program templates: outer let bindings and the creating scope *)
X == Var("x")
Y == Var("y")
Iv == Var("i")
F2Body == Op("+", Op("*", X, Lit(10)), Y)
Outer(id) ==
  CASE id \in {"nest", "nestseq"} -> << <<"g", Fun("G", <<"y">>, Op("*", Y, Lit(2)))>> >>
    [] id \in {"nestx", "nestxr"} -> << <<"g", Fun("G", <<"x">>, Op("*", X, Lit(2)))>> >>
    [] id = "fact1" -> << <<"mk", Fun("MK", <<"a">>, Fun("F", <<"x">>, Op("+", X, Var("a"))))>> >>
    [] id = "pvar" -> << <<"f", Fun("F0", <<"x", "y">>, F2Body)>> >>
    [] id \in {"shadow", "nestshadow"} -> << <<"i", Lit(5)>> >>
    [] id \in {"qshadow", "qalias", "qeqref"} -> << <<"p:n", Lit(5)>> >>
    [] id = "qother" -> << <<"r:n", Lit(5)>> >>
    [] OTHER -> <<>>

(* the function expression evaluated once per iteration *)
FExpr(id) ==
  CASE id = "for0" -> Fun("F", <<>>, Iv)                                     \* function(){$i}
    [] id \in {"for1", "shadow"} -> Fun("F", <<"x">>, Op("+", X, Iv))         \* function($x){$x + $i}
    [] id = "forseq" -> Fun("F", <<"x">>, Cat(X, Iv))                        \* function($x){($x, $i)}
    [] id = "let1" -> Fun("F", <<"x">>, Op("+", X, Var("a")))                \* captures a let variable
    [] id = "for2" -> Fun("F", <<"x", "y">>, Op("+", Op("*", X, Iv), Y))     \* function($x,$y){$x*$i + $y}
    [] id = "nest" -> Fun("F", <<"x">>, Op("+", Call(Var("g"), <<X>>), Iv))  \* calls another closure
    [] id = "nestseq" -> Fun("F", <<"x">>, Cat(Call(Var("g"), <<X>>), Cat(X, Iv)))
    [] id = "nestx" -> Fun("F", <<"x">>, Op("+", Call(Var("g"), <<Op("+", X, Iv)>>), X))   \* callee has the same parameter name
    [] id = "nestxr" -> Fun("F", <<"x">>, Op("+", X, Call(Var("g"), <<Op("+", X, Iv)>>)))  \* ... read BEFORE the nested call
    [] id = "rec" -> Fun("F", <<"g", "m">>,                                  \* recursion by self-passing
                         If(Op("eq", Var("m"), Lit(0)), Iv,
                            Op("+", Call(Var("g"), <<Var("g"), Op("-", Var("m"), Lit(1))>>), Var("m"))))
    [] id = "recr" -> Fun("F", <<"g", "m">>,
                         If(Op("eq", Var("m"), Lit(0)), Iv,
                            Op("+", Var("m"), Call(Var("g"), <<Var("g"), Op("-", Var("m"), Lit(1))>>))))
    [] id = "fact1" -> Call(Var("mk"), <<Iv>>)                               \* made by a factory function
    [] id = "pvar" -> Call(Var("f"), <<Iv, Hole>>)                           \* $f($i, ?)
    [] id = "pstat" -> SCall("C", "concat", <<Iv, Hole>>)                    \* concat($i, ?)
    [] id = "ref1" -> Ref("abs", 1)                                          \* abs#1 inside the loop
    (* NESTED inline functions: the scope variable $i is read only by a function nested in the body; the
       outer function item leaves the scope of $i and is called where $i is unbound (or bound differently) *)
    [] id \in {"nest2", "nestshadow"} ->
         Fun("F", <<"x">>, Call(Fun("G", <<"y">>, Op("+", Op("+", X, Y), Iv)), <<Lit(3)>>))
    [] id = "nest3" -> Fun("F", <<"x">>,
                           Call(Call(Fun("G", <<"y">>, Fun("H", <<"z">>, Op("+", Op("+", X, Y), Op("+", Var("z"), Iv)))),
                                     <<Lit(3)>>), <<Lit(4)>>))
    [] id = "nestlet" -> Fun("F", <<"x">>, Let("g", Fun("G", <<"y">>, Op("*", Y, Iv)), Call(Var("g"), <<X>>)))
    [] id = "nesthof" -> Fun("F", <<"x">>, SCall("S9", "for-each", <<Lits(<<1, 2>>), Fun("G", <<"y">>, Op("+", Op("+", X, Y), Iv))>>))
    [] id = "curry" -> Fun("F", <<"a">>, Fun("G", <<"b">>, Op("+", Op("+", Var("a"), Var("b")), Iv)))   \* called $f(2)(3)
    (* the scope variable is read only inside a constructor / quantifier / for clause / partial application *)
    [] id = "bodyarr" -> Fun("F", <<"x">>, SCall("S10", "array:flatten", <<Arr(<<X, Iv>>)>>))           \* 3.1
    [] id = "bodymap" -> Fun("F", <<"x">>, Op("+", MapK(Iv), X))                                        \* 3.1
    [] id = "bodysome" -> Fun("F", <<"x">>, Some("q", Lits(<<1, 2>>), Op("eq", Op("*", Var("q"), Iv), Op("*", X, Lit(10)))))
    [] id = "bodyfor" -> Fun("F", <<"x">>, For("q", Lits(<<1, 2>>), Op("+", Op("+", Var("q"), Iv), X)))
    [] id = "bodypart" -> Fun("F", <<"x">>, Call(Call(Fun("G", <<"p", "q">>, Op("*", Var("p"), Var("q"))), <<Hole, Iv>>), <<X>>))
    (* QName-valued variable names (prefixes p, q -> urn:p; r -> urn:r): a parameter shadows an outer variable of
       the same EXPANDED name only; $p:n, $q:n and $Q{urn:p}n are one variable *)
    [] id = "qshadow" -> Fun("F", <<"p:n">>, Op("+", Op("*", Var("p:n"), Lit(2)), Iv))
    [] id = "qother" -> Fun("F", <<"p:n">>, Op("+", Op("+", Op("*", Var("p:n"), Lit(2)), Var("r:n")), Iv))
    [] id = "qeqparam" -> Fun("F", <<"Q{urn:p}n">>, Op("+", Var("p:n"), Iv))
    [] id = "qalias" -> Fun("F", <<"x">>, Op("+", Op("+", Var("q:n"), X), Iv))            \* captured $p:n read as $q:n
    [] id = "qeqref" -> Fun("F", <<"x">>, Op("+", Op("+", Var("Q{urn:p}n"), X), Iv))       \* ... as $Q{urn:p}n
    [] id = "qparamalias" -> Fun("F", <<"p:n">>, Op("+", Var("q:n"), Iv))                \* parameter $p:n read as $q:n
    (* parameters with DIFFERENT declared types (for partial applications with a non-leading placeholder) *)
    [] id = "typ2" -> TFun("F", <<"a", "b">>, <<"xs:string", "xs:integer">>, Cat(Var("a"), Op("+", Var("b"), Iv)))
    [] id = "typd" -> TFun("F", <<"a", "b">>, <<"xs:double", "xs:integer">>,
                           Cat(Cat(InstOf(Var("a"), "xs:double"), InstOf(Var("b"), "xs:integer")),
                               Cat(Var("a"), Op("+", Var("b"), Iv))))
    [] id = "typ3" -> TFun("F", <<"a", "b", "c">>, <<"xs:string", "xs:integer", "xs:string">>,
                           Cat(Var("a"), Cat(Op("+", Var("b"), Iv), Var("c"))))
    (* a DECLARED RESULT TYPE: the function conversion rules apply to the result of EVERY call of the function item,
       direct, later, and through a partial application (integer results promoted to xs:double) *)
    [] id = "rtd" -> RFun("F", <<"a", "b">>, <<"xs:integer", "xs:integer">>, "xs:double", Op("+", Op("+", Var("a"), Var("b")), Iv))
    [] id = "rtds" -> RFun("F", <<"a", "b">>, <<"xs:integer", "xs:integer">>, "xs:double+", Cat(Var("a"), Op("+", Var("b"), Iv)))
    [] id = "rtany" -> RFun("F", <<"x", "y">>, <<AnyType, AnyType>>, "xs:double", Op("+", Op("*", X, Iv), Y))
    (* named references to focus-dependent functions, one per item of  source ! name#0 *)
    [] id = "refpos" -> Ref("position", 0)
    [] id = "refstr" -> Ref("string", 0)
    [] id \in {"refslen", "refnlen"} -> Ref("string-length", 0)
    [] id \in {"refname", "refstname"} -> Ref("name", 0)
    (* the same function items obtained by fn:function-lookup (F&O 3.1 16.1.1: "the context that applies is the static
       and/or dynamic context of the call to the fn:function-lookup function itself"), one per item of
       source ! function-lookup(..) and of the path step  /r/* / function-lookup(..) *)
    [] id \in {"lkpos", "lkstpos"} -> Lookup("position", 0)
    [] id = "lkstr" -> Lookup("string", 0)
    [] id \in {"lkslen", "lknlen"} -> Lookup("string-length", 0)
    [] id \in {"lkname", "lkstname"} -> Lookup("name", 0)

LookupTpls == {"lkpos", "lkstr", "lkslen", "lknlen", "lkname", "lkstpos", "lkstname"}
StepTpls == {"refstname", "lkstpos", "lkstname"}      \* the creating scope is a path step instead of the ! operator
FocusTpls == {"refpos", "refstr", "refslen", "refnlen", "refname", "refstname"} \cup LookupTpls
DocTpls == {"refnlen", "refname", "lknlen", "lkname"} \cup StepTpls   \* the items are the element children of the fixed document
TypedTpls == {"typ2", "typd", "typ3", "rtd", "rtds"}
RtTpls == {"rtd", "rtds", "rtany"}         \* declared result type xs:double / xs:double+
CurryTpls == {"curry"}                     \* called with two argument lists: $f(a)(b)
QNameTpls == {"qshadow", "qother", "qeqparam", "qalias", "qeqref", "qparamalias"}   \* need namespaces= p, q, r
V31Tpls == {"bodyarr", "bodymap"}          \* array / map constructors: XPath 3.1 only
CallOf(curried, f, args) == IF curried THEN Call(Call(f, <<args[1]>>), <<args[2]>>) ELSE Call(f, args)
ScopeKind(id) == CASE id = "let1" -> "let" [] id = "fact1" -> "factory" [] id \in FocusTpls -> "map" [] OTHER -> "for"
ItemKind(id) == CASE id = "pvar" -> "partial-inline" [] id = "pstat" -> "partial-named"
                  [] id = "ref1" -> "named" [] id \in LookupTpls -> "lookup-focus" [] id \in FocusTpls -> "named-focus"
                  [] OTHER -> "inline"
(* the creating scope around an arbitrary inner expression *)
CreateWith(id, vals, inner) ==
  IF id = "let1"
  THEN For("j", Lits(vals), Let("a", Op("+", Var("j"), Lit(100)), inner))
  ELSE IF id \in StepTpls THEN PStep(Kids(Len(vals)), inner)      \* /r/*[position() le n]/name#0
  ELSE IF id \in DocTpls THEN Map(Kids(Len(vals)), inner)         \* /r/*[position() le n] ! name#0
  ELSE IF id \in FocusTpls THEN Map(Lits(vals), inner)            \* (10, 20, 30) ! position#0
  ELSE For("i", Lits(vals), inner)
CreateExpr(id, vals) == CreateWith(id, vals, FExpr(id))

RECURSIVE BindOuter(_, _)
BindOuter(bs, env) ==
  IF bs = <<>> THEN env ELSE BindOuter(Tail(bs), Ext(env, Canon(Head(bs)[1]), Eval(Head(bs)[2], env)))
Env0(id, k) == LET e == BindOuter(Outer(id), EmptyEnv) IN
               Ext(e, "fs", Eval(CreateExpr(id, SubSeq(Vals, 1, k)), e))

---------------------------------------------------------------------------
(* events *)
PName(h) == "p" \o ToString(h)
HExpr(h, k) == IF h <= k THEN Index(Var("fs"), h) ELSE Var(PName(h))
EvExpr(e) == CASE e.a = "call" -> CallOf(e.curry, e.f, e.args)
               [] e.a = "partial" -> Call(e.f, e.mask)
               [] e.a = "ref" -> Ref(e.name, e.arity)

(* definitional fold: environment after the events, results of the calls *)
RECURSIVE DefRun(_, _, _, _)
DefRun(evs, env, nh, acc) ==
  IF evs = <<>> THEN [env |-> env, log |-> acc, nh |-> nh]
  ELSE LET e == Head(evs)
           v == Eval(EvExpr(e), env) IN
       IF e.a = "call" THEN DefRun(Tail(evs), env, nh, Append(acc, v))
       ELSE DefRun(Tail(evs), Ext(env, PName(nh + 1), v), nh + 1, acc)
Def(id, k, evs) == DefRun(evs, Env0(id, k), k, <<>>)

(* implementation-shaped fold: one machine threaded through the whole program; a poisoned
   result (the real code raises) ends the program: every later result is the same poison *)
RECURSIVE OuterI(_, _), ImplRun(_, _, _, _, _)
OuterI(bs, m) ==
  IF bs = <<>> THEN m
  ELSE LET r == EvalI(Head(bs)[2], m) IN OuterI(Tail(bs), [r.m EXCEPT !.d = Ext(r.m.d, StoreI(Head(bs)[1]), r.v)])
ImplRun(evs, m, nh, acc, dead) ==
  IF evs = <<>> THEN acc
  ELSE LET e == Head(evs) IN
       IF dead # <<>> THEN ImplRun(Tail(evs), m, nh, IF e.a = "call" THEN Append(acc, dead) ELSE acc, dead)
       ELSE LET r == EvalI(EvExpr(e), m) IN
            IF e.a = "call"
            THEN ImplRun(Tail(evs), r.m, nh, Append(acc, IF IsPoison(r.v) THEN PoisonOf(r.v) ELSE r.v),
                         IF IsPoison(r.v) THEN PoisonOf(r.v) ELSE <<>>)
            ELSE ImplRun(Tail(evs), [r.m EXCEPT !.d = Ext(r.m.d, PName(nh + 1), r.v)], nh + 1, acc,
                         IF IsPoison(r.v) THEN PoisonOf(r.v) ELSE <<>>)
Impl(id, k, evs) ==
  LET m1 == OuterI(Outer(id), M0)
      c == EvalI(CreateExpr(id, SubSeq(Vals, 1, k)), m1)
      m2 == [c.m EXCEPT !.d = Ext(c.m.d, "fs", c.v)] IN
  ImplRun(evs, m2, k, <<>>, <<>>)

---------------------------------------------------------------------------
(* what may be called with what *)
NHandles == n + Cardinality({j \in 1..Len(ev) : ev[j].a # "call"})
NMakers == Cardinality({j \in 1..Len(ev) : ev[j].a # "call"})
HandleVal(h) == Eval(HExpr(h, n), Def(tpl, n, ev).env)[1]
RECURSIVE RootName(_)
RootName(f) == CASE f.fn = "named" -> f.name [] f.fn = "partial" -> RootName(f.base) [] OTHER -> "inline"
Tuples(U, k) == [1..k -> U]
(* typed parameters: literals of the declared type (an integer for xs:double exercises the promotion) *)
Choices(t) == CASE t = "xs:string" -> {StrLit("x"), StrLit("y")}
                [] t = "xs:integer" -> {Lit(2), Lit(3)}
                [] t = "xs:double" -> {DLit(2), Lit(3)}
                [] OTHER -> {Lit(2), Lit(3)}
FixedLit(t) == CASE t = "xs:string" -> StrLit("k") [] t = "xs:double" -> DLit(7) [] OTHER -> Lit(7)
LitUniverse == {StrLit("x"), StrLit("y"), Lit(2), Lit(3), DLit(2)}
Typed(ts) == \E j \in 1..Len(ts) : ts[j] # AnyType
TypedTuples(ts) == {a \in [1..Len(ts) -> LitUniverse] : \A j \in 1..Len(ts) : a[j] \in Choices(ts[j])}
ArgsOf(id, f, hexpr) ==
  LET k == Arity(f)
      ts == ParamTypes(f) IN
  IF id \in {"rec", "recr"} /\ f.fn = "inline" THEN {<<hexpr, Lit(a)>> : a \in {1, 2}}
  ELSE IF id \in CurryTpls THEN {<<Lit(2), Lit(3)>>, <<Lit(3), Lit(2)>>}
  ELSE IF Typed(ts) THEN TypedTuples(ts)
  ELSE IF RootName(f) = "abs" THEN {<<Lit(Neg2)>>, <<Lit(3)>>}
  ELSE IF k = 2 THEN {<<Lit(2), Lit(3)>>, <<Lit(3), Lit(2)>>}
  ELSE {[j \in 1..k |-> Lit(t[j])] : t \in Tuples({2, 3}, k)}
ArgChoices(h) == ArgsOf(tpl, HandleVal(h), HExpr(h, n))
Masks(h) ==
  LET k == Arity(HandleVal(h))
      ts == ParamTypes(HandleVal(h))
      fx(j) == FixedLit(ts[j]) IN
  {[j \in 1..k |-> IF j = q THEN Hole ELSE fx(j)] : q \in 1..k}
    \cup (IF TwoHoles /\ k = 2 THEN {<<Hole, Hole>>} ELSE {})
    \cup (IF TwoHoles /\ k = 3 THEN {<<Hole, fx(2), Hole>>, <<fx(1), Hole, Hole>>} ELSE {})
Refs == {<<"abs", 1>>, <<"math:pow", 2>>, <<"concat", 3>>}

Init == /\ tpl \in Templates
        /\ n = 0 /\ phase = "create" /\ ev = <<>> /\ log = <<>> /\ ilog = <<>>

Create(i) == /\ phase = "create" /\ i = n + 1 /\ i <= MaxN
             /\ (tpl \in {"rec", "recr"} => i <= 2)
             /\ n' = i /\ UNCHANGED <<tpl, phase, ev, log, ilog>>
EndScope == /\ phase = "create" /\ n >= 1
            /\ phase' = "call" /\ UNCHANGED <<tpl, n, ev, log, ilog>>
Record(e) == /\ ev' = Append(ev, e)
             /\ log' = Def(tpl, n, ev').log
             /\ ilog' = Impl(tpl, n, ev')
             /\ UNCHANGED <<tpl, n, phase>>
DoCall(h, args) ==
  /\ phase = "call" /\ Len(ev) < MaxEvents /\ h \in 1..NHandles
  /\ args \in ArgChoices(h)
  /\ Record([a |-> "call", h |-> h, f |-> HExpr(h, n), args |-> args, curry |-> tpl \in CurryTpls])
DoPartial(h, mask) ==
  /\ phase = "call" /\ Len(ev) < MaxEvents - 1 /\ NMakers < MaxMakers /\ tpl \in PartialIn
  /\ h \in 1..NHandles /\ HandleVal(h).fn # "partial" /\ Arity(HandleVal(h)) \in 1..3
  /\ mask \in Masks(h)
  /\ Record([a |-> "partial", h |-> h, f |-> HExpr(h, n), mask |-> mask])
NamedRef(f, k) ==
  /\ phase = "call" /\ Len(ev) < MaxEvents - 1 /\ NMakers < MaxMakers /\ tpl \in RefIn
  /\ <<f, k>> \in Refs
  /\ Record([a |-> "ref", name |-> f, arity |-> k])

(* constant supersets of the parameters, so that TLC labels every edge with the action and its
   parameters; the guards inside the actions select the meaningful ones *)
ArgUniverse == UNION {{[j \in 1..k |-> Lit(t[j])] : t \in Tuples({2, 3}, k)} : k \in 0..3}
                 \cup {<<Lit(Neg2)>>}
                 \cup {<<HExpr(h, h), Lit(a)>> : h \in 1..MaxN, a \in {1, 2}}
MaskUniverse == UNION {{[j \in 1..k |-> IF j = q THEN Hole ELSE Lit(7)] : q \in 1..k} : k \in 1..3}
                  \cup {<<Hole, Hole>>, <<Hole, Lit(7), Hole>>, <<Lit(7), Hole, Hole>>}
(* the templates with declared parameter types draw from their own (larger) universes *)
TypedArgUniverse == UNION {[1..k -> LitUniverse] : k \in 1..3}
TypedMaskUniverse == UNION {[1..k -> {Hole, Lit(7), StrLit("k"), DLit(7)}] : k \in 1..3}
CallLater(h, args) == tpl \notin TypedTpls /\ DoCall(h, args)
Partial(h, mask) == tpl \notin TypedTpls /\ DoPartial(h, mask)
TypedCall(h, args) == tpl \in TypedTpls /\ DoCall(h, args)
TypedPartial(h, mask) == tpl \in TypedTpls /\ DoPartial(h, mask)
Next == \/ \E i \in 1..MaxN : Create(i)
        \/ EndScope
        \/ \E h \in 1..(MaxN + MaxMakers), args \in ArgUniverse : CallLater(h, args)
        \/ \E h \in 1..(MaxN + MaxMakers), mask \in MaskUniverse : Partial(h, mask)
        \/ \E h \in 1..(MaxN + MaxMakers), args \in TypedArgUniverse : TypedCall(h, args)
        \/ \E h \in 1..(MaxN + MaxMakers), mask \in TypedMaskUniverse : TypedPartial(h, mask)
        \/ \E f \in {"abs", "math:pow", "concat"}, k \in 1..3 : NamedRef(f, k)
Spec == Init /\ [][Next]_vars

---------------------------------------------------------------------------
(* LAWS of the definitional model (TLC invariants) *)
CallIdx == {j \in 1..Len(ev) : ev[j].a = "call"}
LogIdx(j) == Cardinality({q \in 1..j : ev[q].a = "call"})          \* position in log of call event j
Makers(j) == SelectSeq(SubSeq(ev, 1, j - 1), LAMBDA e : e.a # "call")

(* a call's result depends only on (function item, arguments): not on when it is made *)
SameCallSameResult ==
  \A j, q \in CallIdx : (ev[j].h = ev[q].h /\ ev[j].args = ev[q].args) => log[LogIdx(j)] = log[LogIdx(q)]
(* ... nor on how often it or any other function item was called before: dropping every other call
   from the history leaves the result unchanged *)
HistoryIndependent ==
  \A j \in CallIdx : log[LogIdx(j)] = Def(tpl, n, Append(Makers(j), ev[j])).log[1]

(* the equivalent DIRECT call of function item h <= n: the function expression is called where it
   is evaluated, inside iteration h of the creating scope *)
(* (for a focus-dependent reference the position matters: iterations 1..h, the h-th result) *)
Direct(id, h, args) ==
  IF id \in FocusTpls THEN Index(CreateWith(id, SubSeq(Vals, 1, h), Call(FExpr(id), args)), h)
  ELSE CreateWith(id, <<Vals[h]>>, CallOf(id \in CurryTpls, FExpr(id), args))
DirectVal(id, h, args) == Eval(Direct(id, h, args), BindOuter(Outer(id), EmptyEnv))
DirectImpl(id, h, args) == LET r == EvalI(Direct(id, h, args), OuterI(Outer(id), M0)) IN
                           IF IsPoison(r.v) THEN PoisonOf(r.v) ELSE r.v
(* two function items made by one function expression are independent: item h behaves as if its
   iteration were the only one, whatever the number of iterations *)
ClosuresIndependent ==
  \A j \in CallIdx : (ev[j].h <= n /\ tpl \notin {"rec", "recr"}) =>
     log[LogIdx(j)] = DirectVal(tpl, ev[j].h, ev[j].args)
(* an inline function captures the bindings in scope where it is created *)
Captures ==
  (n >= 1 /\ ItemKind(tpl) = "inline" /\ tpl # "fact1") =>
     \A h \in 1..n : LET f == Env0(tpl, n).fs[h]
                         v == IF tpl = "let1" THEN "j" ELSE "i" IN
                     f.fn = "inline" /\ f.env[v] = <<I(Vals[h])>>
(* partial application: fixing arguments = calling the base with the mask filled; for an inline
   base it is also the closure whose fixed parameters are bound in its environment *)
PartialLaw ==
  \A j \in CallIdx :
     LET f == Eval(ev[j].f, Def(tpl, n, Makers(j)).env)[1]
         a == EvalArgs(ev[j].args, EmptyEnv) IN
     (f.fn = "partial" /\ tpl \notin {"rec", "recr"}) =>
        /\ log[LogIdx(j)] = Apply(f.base, Fill(f.mask, a))
        /\ (f.base.fn = "inline" =>
              LET fixed == {q \in 1..Len(f.mask) : ~IsHole(f.mask[q])}
                  c == [fn |-> "inline",
                        params |-> SelectSeq(f.base.params, LAMBDA p : \E q \in 1..Len(f.mask) : f.base.params[q] = p /\ IsHole(f.mask[q])),
                        types |-> ParamTypes(f), rtype |-> f.base.rtype,
                        body |-> f.base.body,
                        env |-> [v \in DOMAIN f.base.env \cup {f.base.params[q] : q \in fixed} |->
                                   IF \E q \in fixed : f.base.params[q] = v
                                   THEN LET q == CHOOSE q \in fixed : f.base.params[q] = v IN
                                        Convert(f.mask[q].val, f.base.types[q])
                                   ELSE f.base.env[v]]] IN
              log[LogIdx(j)] = Apply(c, a))
(* a named function reference is the named function *)
NamedLaw ==
  \A j \in CallIdx :
     LET f == Eval(ev[j].f, Def(tpl, n, Makers(j)).env)[1] IN
     (f.fn = "named" /\ ~Has(f, "focus")) => log[LogIdx(j)] = ApplyNamed(f.name, EvalArgs(ev[j].args, EmptyEnv))
(* a reference to a focus-dependent function binds the focus of ITS evaluation: item h of the source,
   position h, size n; calling it later is the direct call made there *)
FocusLaw ==
  (n >= 1 /\ tpl \in FocusTpls) =>
     LET src == IF tpl \in DocTpls THEN SubSeq(DocKids, 1, n) ELSE [j \in 1..n |-> I(Vals[j])] IN
     \A h \in 1..n : LET f == Env0(tpl, n).fs[h] IN
        /\ f.focus = [item |-> <<src[h]>>, pos |-> <<I(h)>>, last |-> <<I(n)>>]
        /\ Apply(f, <<>>) = ApplyFocus(f.name, f.focus)
(* a declared parameter type converts the argument at ITS position, in a partial application too *)
TypedLaw ==
  \A j \in CallIdx :
     LET f == Eval(ev[j].f, Def(tpl, n, Makers(j)).env)[1]
         a == EvalArgs(ev[j].args, EmptyEnv) IN
     (tpl \in TypedTpls /\ f.fn = "partial") =>
        LET full == Fill(f.mask, a) IN
        log[LogIdx(j)] = Convert(Eval(f.base.body, Bind(f.base.env, f.base.params, ConvertAll(full, f.base.types))),
                                 f.base.rtype)
(* a declared result type converts the result of EVERY call, whatever the form of the function item *)
ResultTypeLaw ==
  tpl \in RtTpls => /\ \A j \in 1..Len(log) : Len(log[j]) >= 1 /\ \A q \in 1..Len(log[j]) : Has(log[j][q], "d")
                    /\ (n >= 1 => Env0(tpl, n).fs[1].rtype \in DoubleTypes)
(* lexical scoping through nesting: the function item captured EVERY binding in scope, also one that only a
   nested function (or a constructor / quantifier inside the body) reads *)
NestedCaptures ==
  (n >= 1 /\ ItemKind(tpl) = "inline" /\ tpl \notin {"fact1", "let1"}) =>
     \A h \in 1..n : "i" \in DOMAIN Env0(tpl, n).fs[h].env
QNameLaw == /\ Canon("p:n") = Canon("q:n") /\ Canon("q:n") = Canon("Q{urn:p}n")
            /\ Canon("r:n") # Canon("p:n") /\ Canon("n") # Canon("p:n")
            /\ (tpl = "qshadow" /\ n >= 1 => Apply(Env0(tpl, n).fs[1], << <<I(3)>> >>) = <<I(3 * 2 + Vals[1])>>)
            /\ (tpl = "qalias" /\ n >= 1 => Apply(Env0(tpl, n).fs[1], << <<I(3)>> >>) = <<I(5 + 3 + Vals[1])>>)
Laws == QNameLaw /\ NestedCaptures /\ SameCallSameResult /\ HistoryIndependent /\ ClosuresIndependent /\ Captures /\ PartialLaw /\ NamedLaw
          /\ FocusLaw /\ TypedLaw /\ ResultTypeLaw

(* the implementation-shaped model: TLC must REFUTE this (expected counterexample) *)
AsImplementedAgrees == ilog = log

(* the templates, printed once for the binding (dumb AST -> text rendering) *)
Collides(id) == id \in {"nestx", "nestxr", "rec", "recr"}    \* a nested callee binds a name the caller reads
DirectArgs(id, h) ==
  LET f == Env0(id, h).fs[h] IN
  IF id \in {"rec", "recr"} \cup CurryTpls THEN {}
  ELSE IF ~Typed(ParamTypes(f)) /\ Arity(f) = 2 /\ RootName(f) # "abs"
       THEN {<<Lit(2), Lit(3)>>, <<Lit(3), Lit(2)>>, <<Lit(7), Lit(2)>>, <<Lit(2), Lit(7)>>}
  ELSE ArgsOf(id, f, Nil)
TemplateTable ==
  [id \in Templates |->
     [outer |-> Outer(id), scope |-> ScopeKind(id), kind |-> ItemKind(id), collision |-> Collides(id),
      ns |-> id \in QNameTpls, doc |-> id \in DocTpls, typed |-> id \in TypedTpls, v31 |-> id \in V31Tpls,
      create |-> [k \in 1..MaxN |-> CreateExpr(id, SubSeq(Vals, 1, k))],
      direct |-> [h \in 1..MaxN |-> IF id \in CurryTpls THEN Nil ELSE Direct(id, h, <<Var("__ARGS__")>>)],
      directs |-> {[h |-> h, args |-> a, val |-> DirectVal(id, h, a), ival |-> DirectImpl(id, h, a)] :
                     h \in 1..MaxN, a \in UNION {DirectArgs(id, q) : q \in 1..MaxN}}]]
ASSUME PrintT(<<"templates", TemplateTable>>)
=============================================================================
