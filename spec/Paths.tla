------------------------------- MODULE Paths -------------------------------
(***************************************************************************)
(* Value-state machine of path evaluation (property C01).                  *)
(* State: one tree of the XDM universe and the CURRENT NODE SET `cur`,     *)
(* i.e. the result of the path evaluated so far (a set: XPath path results *)
(* are duplicate free and in document order = ascending node id).          *)
(* Every action appends one path construct.  The path text is NOT part of  *)
(* the state, so the graph closes without a bound on path length; the      *)
(* harness reconstructs a path for every state from a BFS spanning tree.   *)
(***************************************************************************)
EXTENDS XDM, TLC

CONSTANTS Axes, Tests, Preds, ParenPreds,
          DocSibs,    \* TRUE: documents with comment/PI siblings of the document element (lxml)
          NsTests,    \* node tests used on the namespace axis: subset of {"*", "p", "q", "r", "xml", "node()"}; {} = none
          Preds2      \* first predicates of two-predicate steps axis::test[p1][p2], p2 in {"1", "last()"}; {} = none

VARIABLES cur
vars == <<parent, kind, cur>>

StartNode == IF RootCfg = "R1" THEN 0 ELSE 1

Init == (IF DocSibs THEN TreeInitDoc ELSE TreeInit) /\ cur = {StartNode}

(* The constructs as operators on a node set S (shared with spec/TracePaths.tla) *)
OpStep(S, ax, t)          == UNION {StepSet(ax, t, x) : x \in S}
OpStepPred(S, ax, t, pr)  == UNION {FilterSeq(StepSeq(ax, t, x), pr) : x \in S}
DescOrSelfOf(S)           == UNION {Desc(x) \cup {x} : x \in S}
OpDSlash(S, ax, t)        == OpStep(DescOrSelfOf(S), ax, t)
OpDSlashPred(S, ax, t, pr) == OpStepPred(DescOrSelfOf(S), ax, t, pr)
OpParen(S, pr)            == FilterSeq(AscSeq(S), pr)
(* E/(axis::test)[pr] (XPath 2.0+): a parenthesised STEP inside a path; the parentheses turn the step result into a
   sequence in DOCUMENT order before the predicate numbers it - also on reverse axes, per context node *)
OpParenStep(S, ax, t, pr) == UNION {FilterSeq(AscSeq(StepSet(ax, t, x)), pr) : x \in S}
ParenStepPred == [p \in {"step:1", "step:2", "step:last()"} |-> CASE p = "step:1" -> "1" [] p = "step:2" -> "2" [] OTHER -> "last()"]
OpParen2(S, p1, p2)       == FilterSeq(KeepSeq(AscSeq(S), p1), p2)
OpParenStep2(S, ax, t, p1, p2) == UNION {FilterSeq(KeepSeq(AscSeq(StepSet(ax, t, x)), p1), p2) : x \in S}
OpStepPred2(S, ax, t, p1, p2) == UNION {FilterSeq(KeepSeq(StepSeq(ax, t, x), p1), p2) : x \in S}

(* axis::test *)
Step(ax, t) == /\ cur' = OpStep(cur, ax, t)
               /\ UNCHANGED <<parent, kind>>

(* axis::test[pred] -- the predicate is numbered in AXIS order per context node *)
StepPred(ax, t, pr) ==
   /\ cur' = OpStepPred(cur, ax, t, pr)
   /\ UNCHANGED <<parent, kind>>

(* axis::test[p1][p2] -- the second predicate numbers the survivors of the first, in axis order *)
StepPred2(ax, t, p1, p2) ==
   /\ cur' = OpStepPred2(cur, ax, t, p1, p2)
   /\ UNCHANGED <<parent, kind>>

(* E//axis::test  ==  E/descendant-or-self::node()/axis::test *)
DSlash(ax, t) ==
   /\ cur' = OpDSlash(cur, ax, t)
   /\ UNCHANGED <<parent, kind>>

(* E//axis::test[pred] *)
DSlashPred(ax, t, pr) ==
   /\ cur' = OpDSlashPred(cur, ax, t, pr)
   /\ UNCHANGED <<parent, kind>>

(* The thirteenth axis.  In this binding every element has the same in-scope namespaces: the   *)
(* implicit xml prefix and the prefixes p, q declared on the document element (lxml) or given   *)
(* by the caller (xml.etree).  Namespace nodes are not part of the node universe: E/namespace::t *)
(* is an OBSERVATION on the current state (one group of namespace nodes per element of cur, in  *)
(* document order of the elements; nothing for other node kinds), and                           *)
(* E/namespace::t/parent::node() leads back to the elements of cur.                              *)
\* a configuration whose NsTests contain "r" also binds a SECOND prefix r to the namespace of p: one namespace node per
\* prefix, not per namespace name
InScopePrefixes == {"xml", "p", "q"} \cup (IF "r" \in NsTests THEN {"r"} ELSE {})
NsMatch(t) == IF t \in {"*", "node()"} THEN InScopePrefixes ELSE {t} \cap InScopePrefixes
NsObservation(t) == [x \in {y \in cur : IsElem(y)} |-> NsMatch(t)]
NsStep(t)   == UNCHANGED <<parent, kind, cur>>
NsParent(t) == /\ cur' = IF NsMatch(t) = {} THEN {} ELSE {x \in cur : IsElem(x)}
               /\ UNCHANGED <<parent, kind>>

(* a leading "/" : only meaningful as the first construct of a path, so it is enabled in the    *)
(* initial context only (the harness renders it only with an empty prefix)                      *)
Root == /\ cur = {StartNode}
        /\ cur' = {IF RootCfg = "R3" THEN 1 ELSE 0}
        /\ UNCHANGED <<parent, kind>>

(* (E)[pred] -- numbered in DOCUMENT order over the whole result *)
Paren(pr) == /\ pr \notin DOMAIN ParenStepPred
             /\ cur' = OpParen(cur, pr)
             /\ UNCHANGED <<parent, kind>>
(* (E)[p1][p2] and E/(axis::test)[p1][p2]: after parentheses EVERY predicate numbers in document order (never along a
   reverse axis); enabled by the first-predicate tokens of Preds2 when ParenPreds has a "step:" token *)
ParenFamily == ParenPreds \cap DOMAIN ParenStepPred # {}
Paren2(p1, p2) == /\ ParenFamily
                  /\ cur' = OpParen2(cur, p1, p2)
                  /\ UNCHANGED <<parent, kind>>
ParenStep2(ax, t, p1, p2) == /\ ParenFamily
                             /\ cur' = OpParenStep2(cur, ax, t, p1, p2)
                             /\ UNCHANGED <<parent, kind>>
(* E/(axis::test)[pred]; enabled by the tokens "step:1", "step:2", "step:last()" of ParenPreds *)
ParenStep(ax, t, pr) == /\ pr \in DOMAIN ParenStepPred
                        /\ cur' = OpParenStep(cur, ax, t, ParenStepPred[pr])
                        /\ UNCHANGED <<parent, kind>>

Next == \/ \E ax \in Axes, t \in Tests : Step(ax, t)
        \/ \E ax \in Axes, t \in Tests, pr \in Preds : StepPred(ax, t, pr)
        \/ \E ax \in Axes, t \in Tests : DSlash(ax, t)
        \/ \E ax \in Axes, t \in Tests, pr \in Preds : DSlashPred(ax, t, pr)
        \/ \E pr \in ParenPreds : Paren(pr)
        \/ \E ax \in Axes, t \in Tests, pr \in ParenPreds : ParenStep(ax, t, pr)
        \/ \E p1 \in Preds2, p2 \in {"1", "last()"} : Paren2(p1, p2)
        \/ \E ax \in Axes, t \in Tests, p1 \in Preds2, p2 \in {"1", "last()"} : ParenStep2(ax, t, p1, p2)
        \/ \E ax \in Axes, t \in Tests, p1 \in Preds2, p2 \in {"1", "last()"} : StepPred2(ax, t, p1, p2)
        \/ \E t \in NsTests : NsStep(t)
        \/ \E t \in NsTests : NsParent(t)
        \/ Root

Spec == Init /\ [][Next]_vars

TypeOK == cur \subseteq Nodes

(* Laws of the path semantics, checked in every reachable state *)
DSlashIsExpansion ==   \* //X = /descendant-or-self::node()/X, for every step X
  \A ax \in Axes, t \in Tests :
     UNION {StepSet(ax, t, y) : y \in UNION {AxisSet("descendant-or-self", x) : x \in cur}}
       = UNION {StepSet(ax, t, y) : y \in UNION {Desc(x) \cup {x} : x \in cur}}
ReverseCountsFromContext ==  \* (reverse-axis::node())[1] is the nearest node
  \A x \in cur : \A ax \in Axes \cap ReverseAxes :
     LET s == StepSeq(ax, "node()", x) IN
       Len(s) > 0 => \A i \in 1..Len(s) : s[i] <= s[1]
PredSubset ==
  \A ax \in Axes, t \in Tests, pr \in Preds, x \in cur :
     FilterSeq(StepSeq(ax, t, x), pr) \subseteq StepSet(ax, t, x)
Laws == XDMLaws /\ DSlashIsExpansion /\ ReverseCountsFromContext /\ PredSubset
=============================================================================
