----------------------------- MODULE FnItemHist -----------------------------
(***************************************************************************)
(* Property C18, function tests on function items that are DERIVED FROM     *)
(* ONE ANOTHER, judged several times within ONE evaluation.                 *)
(*                                                                         *)
(* A function item has a fixed signature (XDM 3.1 2.8.1); a partial         *)
(* application $f(?, a) is a NEW function item whose parameters are the     *)
(* placeholder positions of $f and whose result type is that of $f          *)
(* (XPath 3.1 3.2.2.1 rule 5a / 3.1.5.1 partial function application).  The  *)
(* judgements `I instance of T` / `I treat as T` are functions of the pair  *)
(* (I, T) alone (2.5.5.7: the item's signature is a subtype of T): they do  *)
(* not depend on which judgements were made before in the same evaluation,  *)
(* neither on the item itself nor on the item it was derived from.          *)
(*                                                                         *)
(* STEP MACHINE: `hist` is the sequence of judgements already made in the   *)
(* evaluation of one expression                                             *)
(*     let $f1 := substring#2, $f2 := function(..){..}, $f3 := .. return     *)
(*         (J1, J2, ...)                                                    *)
(* each J = ITEM instance of T | count(ITEM treat as T), ITEM = $f, $f(?,a), *)
(* $f(a,?), $f(?,?).  A failing treat as ends the evaluation (XPDY0050).    *)
(* Every state of the dumped graph is one expression to replay; the         *)
(* expected outcomes are recorded in the state by TLC.                      *)
(***************************************************************************)
EXTENDS SeqTypes

CONSTANTS MaxLen,        \* number of judgements within one evaluation
          SameBase       \* TRUE: all judgements of one evaluation concern items derived from one base item

VARIABLE hist
hvars == <<acc, hist>>

(* base function items (bound once per evaluation) *)
Bases == <<
  Fn(<<Opt(AT("string")), A1("double")>>, A1("string")),       \* fn:substring#2
  Fn(<<A1("integer"), A1("integer")>>, A1("integer")),          \* function($a as xs:integer, $b as xs:integer) as xs:integer {$a + $b}
  Fn(<<Star(ItemT), A1("integer")>>, Star(ItemT))>>            \* fn:remove#2

(* derivations: the item itself and its partial applications *)
Derivs == <<"self", "first", "second", "both">>                \* $f   $f(?, a)   $f(a, ?)   $f(?, ?)
Derive(f, d) == IF d \in {"self", "both"} THEN f
                ELSE IF d = "first" THEN Fn(<<f.ps[1]>>, f.r)
                ELSE Fn(<<f.ps[2]>>, f.r)
AsTest(f) == FnT(f.ps, f.r)

(* function tests: the signature of every derived item, and some neighbours *)
Tests == <<
  FnAny,
  AsTest(Bases[1]), AsTest(Derive(Bases[1], "first")), AsTest(Derive(Bases[1], "second")),
  AsTest(Bases[2]), AsTest(Derive(Bases[2], "first")),
  AsTest(Bases[3]), AsTest(Derive(Bases[3], "first")), AsTest(Derive(Bases[3], "second")),
  FnT(<<A1("string")>>, Star(ItemT)),                           \* wider result, narrower parameter
  FnT(<<One(ItemT), One(ItemT)>>, Star(ItemT))>>
Ops == {"instance", "treat"}

Outcome(op, b, d, t) ==
  LET m == MatchItem(Derive(Bases[b], Derivs[d]), Tests[t]) IN
  IF op = "instance" THEN (IF m THEN "true" ELSE "false") ELSE (IF m THEN "same" ELSE "XPDY0050")

HInit == acc = Val(1) /\ hist = <<>>
Judge(op, b, d, t) ==
  /\ Len(hist) < MaxLen
  /\ (IF hist = <<>> THEN TRUE ELSE hist[Len(hist)].out # "XPDY0050")
  /\ (IF SameBase /\ hist # <<>> THEN hist[1].b = b ELSE TRUE)
  /\ hist' = Append(hist, [op |-> op, b |-> b, d |-> d, t |-> t, out |-> Outcome(op, b, d, t)])
  /\ UNCHANGED acc
HNext == \E op \in Ops, b \in 1..Len(Bases), d \in 1..Len(Derivs), t \in 1..Len(Tests) : Judge(op, b, d, t)
HSpec == HInit /\ [][HNext]_hvars

---------------------------------------------------------------------------
(* laws *)
(* a judgement is a function of (item, type): independent of the history *)
HistoryFree == \A k \in 1..Len(hist) : hist[k].out = Outcome(hist[k].op, hist[k].b, hist[k].d, hist[k].t)
(* instance of and treat as agree *)
OpsAgree == \A k \in 1..Len(hist) : \A j \in 1..Len(hist) :
   (hist[k].b = hist[j].b /\ hist[k].d = hist[j].d /\ hist[k].t = hist[j].t)
     => ((hist[k].out \in {"true", "same"}) <=> (hist[j].out \in {"true", "same"}))
(* a partial application with one placeholder has arity one: it matches the unary test made of the
   kept parameter and never the binary signature of the item it was derived from; every item
   matches its own signature and the wildcard function test *)
LawPartial == \A b \in 1..Len(Bases) :
   /\ \A d \in {"first", "second"} :
        /\ Len(Derive(Bases[b], d).ps) = 1
        /\ MatchItem(Derive(Bases[b], d), AsTest(Derive(Bases[b], d)))
        /\ ~MatchItem(Derive(Bases[b], d), AsTest(Bases[b]))
        /\ ~MatchItem(Bases[b], AsTest(Derive(Bases[b], d)))
   /\ \A d \in {"self", "both"} : MatchItem(Derive(Bases[b], d), AsTest(Bases[b]))
   /\ \A d \in 1..Len(Derivs) : MatchItem(Derive(Bases[b], Derivs[d]), FnAny)
ASSUME LawPartial
HLaws == HistoryFree /\ OpsAgree

ASSUME PrintT(<<"bases", Bases>>)
ASSUME PrintT(<<"tests", Tests>>)
=============================================================================
