------------------------------- MODULE XDM -------------------------------
(***************************************************************************)
(* The XPath data model over small finite trees.                           *)
(*                                                                         *)
(* Nodes are 0..N.  Node 0 is the document node (absent in the fragment    *)
(* configuration R3).  Nodes 1..N are numbered in DOCUMENT ORDER: an       *)
(* element, then its attribute nodes, then its children (preorder).  So    *)
(* "document order" is simply the order of the naturals, and parent[i] < i.*)
(*                                                                         *)
(* kind[i] is one of                                                       *)
(*   "ea" "eb"   element named a / b (no namespace)                        *)
(*   "en" "em"   element a in namespace urn:x / urn:x-y  (the first URI is *)
(*               a string prefix of the second on purpose)                 *)
(*   "xn"        attribute a in namespace urn:x                            *)
(*   "t"         text node          "c" comment       "p" processing instr.*)
(*   "xa" "xc"   attribute named a / c  (an attribute may share its name   *)
(*               with an element: the principal node kind decides)         *)
(*                                                                         *)
(* RootCfg:  R1 document root (context item = document node)               *)
(*           R2 an Element passed as root (elementpath default): the XDM   *)
(*              tree is rooted at the parentless element 1; a leading "/"  *)
(*              goes to a VIRTUAL document 0 whose child is 1 but which is *)
(*              nobody's parent and is filtered from results (documented   *)
(*              elementpath convention for ElementTree-style use)          *)
(*           R3 fragment: node 1 is parentless, a leading "/" is node 1    *)
(***************************************************************************)
EXTENDS Naturals, Sequences, FiniteSets

CONSTANTS N,          \* number of non-document nodes
          Kinds,      \* subset of {"ea","eb","t","c","p","xa","xc"}
          RootCfg     \* "R1" | "R2" | "R3"

VARIABLES parent, kind

ElemKinds == {"ea", "eb", "en", "em"}
AttrKinds == {"xa", "xc", "xn"}
LeafKinds == {"t", "c", "p"}

HasDoc  == RootCfg = "R1"              \* node 0 is a real parent of node 1
Nodes   == IF RootCfg = "R3" THEN 1..N ELSE 0..N
KindOf(n) == IF n = 0 THEN "d" ELSE kind[n]
IsElem(n) == KindOf(n) \in ElemKinds
IsAttr(n) == KindOf(n) \in AttrKinds

(* ancestors of n, given a parent vector p with p[i] < i (checked before use) *)
RECURSIVE AncP(_, _)
AncP(p, n) == IF n = 0 THEN {}
              ELSE IF p[n] = 0 THEN {0}
              ELSE {p[n]} \cup AncP(p, p[n])

(* preorder parent vectors: p[1] = 0, and p[i] is i-1 or an ancestor of i-1 *)
ValidParents ==
  {p \in [1..N -> 0..(N-1)] :
      /\ p[1] = 0
      /\ \A i \in 2..N : p[i] < i /\ p[i] >= 1
      /\ \A i \in 2..N : p[i] = i-1 \/ p[i] \in AncP(p, i-1)}

PrevSibling(p, k, i) ==  \* nearest preceding non-attribute sibling, or 0
  LET S == {j \in 1..(i-1) : p[j] = p[i] /\ k[j] \notin AttrKinds}
  IN IF S = {} THEN 0 ELSE CHOOSE j \in S : \A j2 \in S : j2 <= j

ValidKinds(p, k) ==
  /\ k[1] \in ElemKinds
  /\ \A i \in 2..N : k[p[i]] \in ElemKinds               \* only elements have children
  /\ \A i \in 2..N : k[i] \in AttrKinds =>               \* attributes directly follow the element
        /\ (i-1 = p[i] \/ (k[i-1] \in AttrKinds /\ p[i-1] = p[i]))
        /\ \A j \in 2..N : (j # i /\ p[j] = p[i]) => k[j] # k[i]   \* distinct attribute names
  /\ \A i \in 2..N : k[i] = "t" =>                        \* no adjacent text siblings
        LET j == PrevSibling(p, k, i) IN j = 0 \/ k[j] # "t"

TreeInit == /\ parent \in ValidParents
            /\ kind \in {k \in [1..N -> Kinds] : ValidKinds(parent, k)}

(* Documents with comments / processing instructions as siblings of the document element      *)
(* (prolog and epilog; representable by lxml only).  At least one such sibling, so that this   *)
(* universe is disjoint from TreeInit.                                                         *)
ValidParentsDoc ==
  {p \in [1..N -> 0..(N-1)] :
      /\ p[1] = 0
      /\ \A i \in 2..N : p[i] < i
      /\ \A i \in 2..N : p[i] = i-1 \/ p[i] \in AncP(p, i-1)}
ValidKindsDoc(p, k) ==
  /\ Cardinality({i \in 1..N : p[i] = 0 /\ k[i] \in ElemKinds}) = 1
  /\ \A i \in 1..N : p[i] = 0 => k[i] \in ElemKinds \cup {"c", "p"}
  /\ \E i \in 1..N : p[i] = 0 /\ k[i] \in {"c", "p"}
  /\ \A i \in 1..N : p[i] # 0 => k[p[i]] \in ElemKinds
  /\ \A i \in 2..N : k[i] \in AttrKinds =>
        /\ p[i] # 0
        /\ (i-1 = p[i] \/ (k[i-1] \in AttrKinds /\ p[i-1] = p[i]))
        /\ \A j \in 2..N : (j # i /\ p[j] = p[i]) => k[j] # k[i]
  /\ \A i \in 2..N : k[i] = "t" =>
        LET j == PrevSibling(p, k, i) IN j = 0 \/ k[j] # "t"
TreeInitDoc == /\ parent \in ValidParentsDoc
               /\ kind \in {k \in [1..N -> Kinds] : ValidKindsDoc(parent, k)}

---------------------------------------------------------------------------
(* Structure *)
Par(n)  == IF n = 0 THEN {} ELSE IF parent[n] = 0 THEN (IF HasDoc THEN {0} ELSE {}) ELSE {parent[n]}
Anc(n)  == IF n = 0 THEN {} ELSE AncP(parent, n) \ (IF HasDoc THEN {} ELSE {0})
Kids(n) == {i \in 1..N : parent[i] = n /\ ~IsAttr(i)}          \* children (no attributes)
Atts(n) == {i \in 1..N : parent[i] = n /\ IsAttr(i)}
Desc(n) == {i \in 1..N : n \in AncP(parent, i) /\ ~IsAttr(i)}   \* descendants (no attributes)
Sibs(n) == IF n = 0 \/ IsAttr(n) THEN {} ELSE {i \in 1..N : parent[i] = parent[n] /\ ~IsAttr(i) /\ i # n}
            \* document-level: node 1 is the only child of the document, so no siblings

(* The thirteen axes minus namespace::, as SETS.                           *)
(* following/preceding use the normative XPath 2.0 expansion               *)
(*   ancestor-or-self::node()/following-sibling::node()/descendant-or-self::node() *)
(* which, for an attribute context node, is following(parent) -- this is   *)
(* also what libxml2 implements.                                           *)
FollowingOfTreeNode(x) == {i \in 1..N : i > x /\ ~IsAttr(i) /\ x \notin AncP(parent, i)}
PrecedingOfTreeNode(x) == {i \in 1..N : i < x /\ ~IsAttr(i) /\ i \notin AncP(parent, x)}

AxisSet(ax, x) ==
  CASE ax = "self"               -> {x}
    [] ax = "child"              -> Kids(x)
    [] ax = "attribute"          -> Atts(x)
    [] ax = "parent"             -> Par(x)
    [] ax = "ancestor"           -> Anc(x)
    [] ax = "ancestor-or-self"   -> Anc(x) \cup {x}
    [] ax = "descendant"         -> Desc(x)
    [] ax = "descendant-or-self" -> Desc(x) \cup {x}
    [] ax = "following-sibling"  -> {i \in Sibs(x) : i > x}
    [] ax = "preceding-sibling"  -> {i \in Sibs(x) : i < x}
    [] ax = "following"          -> IF x = 0 THEN {}
                                    ELSE IF IsAttr(x) THEN FollowingOfTreeNode(parent[x])
                                    ELSE FollowingOfTreeNode(x)
    [] ax = "preceding"          -> IF x = 0 THEN {}
                                    ELSE IF IsAttr(x) THEN PrecedingOfTreeNode(parent[x])
                                    ELSE PrecedingOfTreeNode(x)

ReverseAxes == {"parent", "ancestor", "ancestor-or-self", "preceding", "preceding-sibling"}
AllAxes == {"self", "child", "attribute", "parent", "ancestor", "ancestor-or-self",
            "descendant", "descendant-or-self", "following-sibling", "preceding-sibling",
            "following", "preceding"}

(* Node tests.  The principal node kind of the attribute axis is attribute, *)
(* of every other axis element.                                            *)
(* prefixes p -> urn:x, q -> urn:x-y are bound by the caller; *:a is XPath 2.0+ *)
AllTests == {"node()", "*", "a", "b", "c", "p:a", "p:*", "q:a", "q:*", "*:a", "text()", "comment()", "processing-instruction()",
             \* XPath 2.0 kind tests: independent of the principal node kind of the axis
             "element()", "element(*)", "element(a)", "element(p:a)", "attribute()", "attribute(*)", "attribute(a)",
             "document-node()", "document-node(element(a))",
             "processing-instruction('p')", "processing-instruction(p)", "processing-instruction(zz)",
             \* XPath 3.0: braced URI literals and the namespace-node() kind test
             "Q{urn:x}a", "Q{urn:x}*", "Q{}a", "namespace-node()",
             \* unprefixed names under a DEFAULT ELEMENT NAMESPACE urn:x of the static context (XPath 2.0+): written a / b
             "dns:a", "dns:b"}
DocElem == CHOOSE n \in 1..N : parent[n] = 0 /\ kind[n] \in ElemKinds
Match(ax, t, n) ==
  LET k == KindOf(n) IN
  CASE t = "node()"  -> TRUE
    [] t = "*"       -> IF ax = "attribute" THEN k \in AttrKinds ELSE k \in ElemKinds
    [] t = "a"       -> IF ax = "attribute" THEN k = "xa" ELSE k = "ea"
    [] t = "b"       -> IF ax = "attribute" THEN FALSE    ELSE k = "eb"
    [] t = "c"       -> IF ax = "attribute" THEN k = "xc" ELSE FALSE
    [] t = "p:a"     -> IF ax = "attribute" THEN k = "xn" ELSE k = "en"
    [] t = "p:*"     -> IF ax = "attribute" THEN k = "xn" ELSE k = "en"
    [] t = "q:a"     -> IF ax = "attribute" THEN FALSE    ELSE k = "em"
    [] t = "q:*"     -> IF ax = "attribute" THEN FALSE    ELSE k = "em"
    [] t = "*:a"     -> IF ax = "attribute" THEN k \in {"xa", "xn"} ELSE k \in {"ea", "en", "em"}
    [] t = "text()"  -> k = "t"
    [] t = "comment()" -> k = "c"
    [] t = "processing-instruction()" -> k = "p"
    [] t \in {"element()", "element(*)"} -> k \in ElemKinds
    [] t = "element(a)"   -> k = "ea"
    [] t = "element(p:a)" -> k = "en"
    [] t \in {"attribute()", "attribute(*)"} -> k \in AttrKinds
    [] t = "attribute(a)" -> k = "xa"
    [] t = "document-node()" -> k = "d"
    [] t = "document-node(element(a))" -> k = "d" /\ kind[DocElem] = "ea"
    [] t \in {"processing-instruction('p')", "processing-instruction(p)"} -> k = "p"   \* every PI of the universe has target p
    [] t = "processing-instruction(zz)" -> FALSE
    [] t = "Q{urn:x}a"    -> IF ax = "attribute" THEN k = "xn" ELSE k = "en"
    [] t = "Q{urn:x}*"    -> IF ax = "attribute" THEN k = "xn" ELSE k = "en"
    [] t = "Q{}a"         -> IF ax = "attribute" THEN k = "xa" ELSE k = "ea"
    [] t = "namespace-node()" -> FALSE      \* namespace nodes are not in the tree universe (see NsStep)
    \* the default element namespace applies to element names only: an unprefixed attribute name is in no namespace
    [] t = "dns:a"        -> IF ax = "attribute" THEN k = "xa" ELSE k = "en"
    [] t = "dns:b"        -> FALSE                \* no element {urn:x}b and no attribute b in the universe

StepSet(ax, t, x) == {m \in AxisSet(ax, x) : Match(ax, t, m)}

(* sequence of a finite set of naturals in ascending order *)
RECURSIVE AscSeq(_)
AscSeq(S) == IF S = {} THEN <<>>
             ELSE LET m == CHOOSE a \in S : \A b \in S : a <= b
                  IN <<m>> \o AscSeq(S \ {m})
RECURSIVE DescSeq(_)
DescSeq(S) == IF S = {} THEN <<>>
              ELSE LET m == CHOOSE a \in S : \A b \in S : a >= b
                   IN <<m>> \o DescSeq(S \ {m})

(* nodes of a step in AXIS order: reverse axes nearest (largest id) first *)
StepSeq(ax, t, x) == IF ax \in ReverseAxes THEN DescSeq(StepSet(ax, t, x))
                                           ELSE AscSeq(StepSet(ax, t, x))

(* Predicates, evaluated with the focus (node, position, size) *)
AllPreds == {"0", "1", "2", "3", "1.5", "last() div 2", "last()", "last()-1", "position()<2", "position()<3", "position()>1", "b", "@a", "not(b)", "text()"}
PredHolds(pr, n, pos, size) ==
  CASE pr = "1" -> pos = 1
    [] pr = "0" -> FALSE          \* positions start at 1: [0] selects nothing
    [] pr = "2" -> pos = 2
    [] pr = "3" -> pos = 3
    [] pr = "last()-1" -> pos = size - 1
    [] pr = "1.5" -> FALSE                     \* a numeric predicate is position() = value: never true for a non-integer
    [] pr = "last() div 2" -> pos * 2 = size   \* ... and true only when size is even
    [] pr = "position()>1" -> pos > 1
    [] pr = "last()" -> pos = size
    [] pr = "position()<2" -> pos < 2
    [] pr = "position()<3" -> pos < 3
    [] pr = "b"  -> \E m \in Kids(n) : KindOf(m) = "eb"
    [] pr = "@a" -> \E m \in Atts(n) : KindOf(m) = "xa"
    [] pr = "not(b)" -> ~ \E m \in Kids(n) : KindOf(m) = "eb"
    [] pr = "text()" -> \E m \in Kids(n) : KindOf(m) = "t"

FilterSeq(s, pr) == {s[i] : i \in {j \in 1..Len(s) : PredHolds(pr, s[j], j, Len(s))}}
(* the same as a SEQUENCE (order kept): a step with several predicates applies them in turn, and
   each one numbers the survivors of the previous one again ALONG THE AXIS (XPath 1.0 2.4, 2.0 3.2.2) *)
RECURSIVE KeepFrom(_, _, _, _)
KeepFrom(s, pr, i, n) == IF i > n THEN <<>>
                         ELSE (IF PredHolds(pr, s[i], i, n) THEN <<s[i]>> ELSE <<>>) \o KeepFrom(s, pr, i + 1, n)
KeepSeq(s, pr) == KeepFrom(s, pr, 1, Len(s))

(* Algebraic laws of the axes (checked by TLC as invariants of the tree universe) *)
RealNodes == IF HasDoc THEN 0..N ELSE 1..N   \* the virtual document of R2 is not part of the tree
TreeNodes == {n \in RealNodes : ~IsAttr(n)}
LawPartition ==   \* self, ancestor, descendant, preceding, following partition the tree nodes
  \A x \in TreeNodes :
     LET P == <<{x}, Anc(x), Desc(x), AxisSet("preceding", x), AxisSet("following", x)>> IN
     /\ UNION {P[i] : i \in 1..5} = TreeNodes
     /\ \A i, j \in 1..5 : i # j => P[i] \cap P[j] = {}
LawParent == \A x \in RealNodes : Par(x) = {m \in Anc(x) : \A a \in Anc(x) : a <= m}
LawSiblings == \A x \in TreeNodes : x # 0 =>
     AxisSet("following-sibling", x) \cup AxisSet("preceding-sibling", x) \cup {x}
       = UNION {Kids(q) : q \in Par(x)} \cup {x}
LawAttrs == \A x \in RealNodes : IsAttr(x) =>
     /\ Par(x) = {parent[x]} /\ x \notin Kids(parent[x])
     /\ AxisSet("following", x) = AxisSet("following", parent[x])
XDMLaws == LawPartition /\ LawParent /\ LawSiblings /\ LawAttrs
=============================================================================
