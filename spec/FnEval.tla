------------------------------ MODULE FnEval ------------------------------
(***************************************************************************)
(* Function items of XPath 3.0/3.1 as first-class values (property C16):   *)
(* constant-level base module of Closures.tla and HOF.tla.                 *)
(*                                                                         *)
(* (1) a small expression language (abstract syntax as tagged records),    *)
(* (2) its DEFINITIONAL environment-passing semantics Eval / Apply         *)
(*     (XPath 3.1 sections 3.1.5-3.1.7, 3.2.2: an inline function          *)
(*     expression evaluates to a function item whose nonlocal variable     *)
(*     bindings are the variables in scope at that moment; a dynamic       *)
(*     call binds the parameters and evaluates the body in params +        *)
(*     captured bindings; a partial application fixes arguments that are   *)
(*     evaluated WHEN THE PARTIAL APPLICATION IS EVALUATED),               *)
(* (3) the definitional expansions of the F&O 3.1 higher-order functions   *)
(*     (section 16.2: for-each, filter, fold-left, fold-right,             *)
(*     for-each-pair, apply; 16.1/14: sort),                               *)
(* (4) EvalI: an IMPLEMENTATION-SHAPED evaluator that models how           *)
(*     /repo/elementpath runs the same syntax (used by Closures.tla        *)
(*     AsImplemented; never an oracle for a verdict), kept in sync with    *)
(*     the code (now /repo 267df37):                                       *)
(*       - one mutable variables dict D per let/for scope, shared by every *)
(*         XPathContext copy made inside the scope (copy(context) is       *)
(*         shallow); an inline function call works on its own copy of the  *)
(*         caller's dict (a3d4dd5);                                        *)
(*       - _InlineFunction.evaluate returns a COPY of the token that owns  *)
(*         D.copy() (e070bf1; before it the variables were stored on the   *)
(*         syntax token, shared by all function items of the expression);  *)
(*       - a dynamic partial application $f(a, ?) is a copy with its own   *)
(*         argument list, fixed arguments evaluated at once (e1d9b01;      *)
(*         before it the list was shared with the base and the arguments   *)
(*         were evaluated at call time);                                   *)
(*       - REMAINING DEVIATION: the static form name(a, ?) turns the       *)
(*         syntax token itself into a partial function at parse time; its  *)
(*         fixed arguments stay unevaluated tokens, evaluated at CALL time *)
(*         in the caller's dict.                                           *)
(*                                                                         *)
(* Values are sequences of items; items are tagged records with            *)
(* type-specific field names so TLC never compares incomparable values:    *)
(*   [i |-> n] xs:integer   [d |-> n] xs:double with integral value n      *)
(*   [s |-> "x"] xs:string  [b |-> TRUE] xs:boolean                        *)
(*   [arr |-> <<v1, ..>>] array    [err |-> code] poison (EvalI only)      *)
(*   [fn |-> "inline", params, body, env]   closure                        *)
(*   [fn |-> "named", name, arity]          named function reference       *)
(*   [fn |-> "partial", base, mask]         partial application            *)
(***************************************************************************)
EXTENDS Integers, Sequences, FiniteSets, TLC

I(n) == [i |-> n]
D(n) == [d |-> n]
S(x) == [s |-> x]
B(x) == [b |-> x]
Has(r, f) == f \in DOMAIN r
C(n) == [c |-> n]                           \* xs:decimal with integral value n (1.0)
F(n) == [f |-> n]                           \* xs:float with integral value n
Inf(sg) == [inf |-> sg]                     \* xs:double INF (sg = 1) / -INF (sg = -1)
FInf(sg) == [finf |-> sg]                   \* xs:float INF / -INF
NaN == [nan |-> TRUE]                       \* xs:double NaN
FNaN == [fnan |-> TRUE]                     \* xs:float NaN
NumOf(x) == IF Has(x, "i") THEN x.i ELSE IF Has(x, "c") THEN x.c ELSE IF Has(x, "f") THEN x.f ELSE x.d
AbsI(n) == IF n < 0 THEN -n ELSE n
RECURSIVE Pow(_, _)
Pow(a, n) == IF n = 0 THEN 1 ELSE a * Pow(a, n - 1)
(* XPath mod: sign of the dividend (divisor > 0 here) *)
XMod(a, b) == IF a >= 0 THEN a % b ELSE -((-a) % b)
SeqRange(s) == {s[j] : j \in 1..Len(s)}
RECURSIVE Flatten(_)
Flatten(ss) == IF ss = <<>> THEN <<>> ELSE Head(ss) \o Flatten(Tail(ss))
RevSeq(s) == [j \in 1..Len(s) |-> s[Len(s) + 1 - j]]
MinI(a, b) == IF a < b THEN a ELSE b

---------------------------------------------------------------------------
(* abstract syntax *)
Lit(n)        == [k |-> "lit", v |-> n]
Nil           == [k |-> "empty"]
Var(x)        == [k |-> "var", n |-> x]
Op(o, a, b)   == [k |-> "bin", op |-> o, a |-> a, b |-> b]       \* + - * mod eq lt
Cat(a, b)     == [k |-> "seq", a |-> a, b |-> b]                  \* (a, b)
If(c, a, b)   == [k |-> "if", c |-> c, a |-> a, b |-> b]
AnyType == "item()*"
(* function($p as T, ..){body}; Fun = every parameter undeclared, i.e. AnyType *)
(* function($p as T, ..) as R {body}: the DECLARED RESULT TYPE R (XPath 3.1 3.1.7: "the result of the function body
   is converted to the declared return type by applying the function conversion rules") *)
RFun(site, ps, ts, rt, body) == [k |-> "fun", site |-> site, params |-> ps, types |-> ts, rtype |-> rt, body |-> body]
TFun(site, ps, ts, body) == RFun(site, ps, ts, AnyType, body)
Fun(site, ps, body) == TFun(site, ps, [j \in 1..Len(ps) |-> AnyType], body)
Ref(name, n)  == [k |-> "ref", name |-> name, arity |-> n]        \* name#n
Lookup(name, n) == [k |-> "lookup", name |-> name, arity |-> n]   \* function-lookup(xs:QName("fn:name"), n)
Hole          == [k |-> "hole"]                                    \* ? placeholder
Call(f, args) == [k |-> "call", f |-> f, args |-> args]           \* f(args): dynamic call / partial application
SCall(site, name, args) == [k |-> "scall", site |-> site, name |-> name, args |-> args]  \* name(args): static
For(v, s, r)  == [k |-> "for", v |-> v, s |-> s, r |-> r]         \* for $v in s return r
Let(v, e, r)  == [k |-> "let", v |-> v, e |-> e, r |-> r]         \* let $v := e return r
Index(e, j)   == [k |-> "index", e |-> e, j |-> j]                \* e[j]
Arr(es)       == [k |-> "arr", es |-> es]                         \* [e1, e2, ...]  (3.1)
Lits(ns)      == [k |-> "lits", ns |-> ns]                        \* (n1, n2, ...) literal integer sequence
StrLit(x)     == [k |-> "str", v |-> x]                           \* "x"
DLit(n)       == [k |-> "dlit", v |-> n]                          \* ne0  (xs:double literal)
InstOf(e, t)  == [k |-> "instof", e |-> e, t |-> t]               \* e instance of t
Map(a, r)     == [k |-> "map", s |-> a, r |-> r]                  \* a ! r   (r evaluated with the focus on each item)
PStep(a, r)   == [k |-> "step", s |-> a, r |-> r]                 \* a/r     (path step: the same focus rule; r yields no node here)
MapLit(ks, vs) == [k |-> "maplit", ks |-> ks, vs |-> vs]           \* map { k1: v1, ... } with integer keys (3.1)
BLit(x)       == [k |-> "blit", v |-> x]                          \* true() / false()
NaNLit        == [k |-> "nanlit"]                                 \* xs:double("NaN")
InfLit(sg)    == [k |-> "inflit", v |-> sg]                       \* xs:double("INF") / xs:double("-INF")
NZLit         == [k |-> "nzlit"]                                  \* -0e0  (negative zero: equal to 0e0 as a sort key)
Some(v, a, c) == [k |-> "some", v |-> v, s |-> a, c |-> c]        \* some $v in a satisfies c
MapK(e)       == [k |-> "mapk", e |-> e]                          \* map{"k": e}?k   (3.1)
Kids(n)       == [k |-> "kids", n |-> n]                          \* /r/*[position() le n] on the fixed document
(* the fixed document <r><a>1</a><b>22</b><c>333</c></r>: element items = [node |-> name, sv |-> string value] *)
DocKids == <<[node |-> "a", sv |-> "1"], [node |-> "b", sv |-> "22"], [node |-> "c", sv |-> "333"]>>

HasHole(args) == \E j \in 1..Len(args) : args[j].k = "hole"
HoleM == [hole |-> TRUE]
IsHole(m) == Has(m, "hole")
NHoles(mask) == Cardinality({j \in 1..Len(mask) : IsHole(mask[j])})
(* fill the holes of a mask (entries HoleM or [val |-> v]) with args, in order *)
Fill(mask, args) ==
  [j \in 1..Len(mask) |-> IF IsHole(mask[j])
                          THEN args[Cardinality({q \in 1..j : IsHole(mask[q])})]
                          ELSE mask[j].val]

(* VARIABLE NAMES ARE EXPANDED QNAMES (XPath 3.1 2.1.1, 3.1.2): with the prefixes p and q bound to urn:p and r
   bound to urn:r, $p:n, $q:n and $Q{urn:p}n denote ONE variable, $r:n and $n are two other variables.
   Canon = the expanded name of the (finitely many) QName spellings of this model; the definitional
   semantics binds and looks up under Canon.  StoreI / LookupI = what the code does: let / for / parameters
   bind under the LEXICAL name (an EQName under its expanded name); a reference looks the lexical name up
   first and the expanded name only as a fallback. *)
Canon(x) == CASE x \in {"p:n", "q:n", "Q{urn:p}n"} -> "{urn:p}n"
              [] x = "r:n" -> "{urn:r}n"
              [] OTHER -> x
CanonSeq(xs) == [j \in 1..Len(xs) |-> Canon(xs[j])]
StoreI(x) == IF x = "Q{urn:p}n" THEN "{urn:p}n" ELSE x
StoreSeqI(xs) == [j \in 1..Len(xs) |-> StoreI(xs[j])]
Bind(env, params, args) ==
  [v \in DOMAIN env \cup SeqRange(params) |->
     IF v \in SeqRange(params) THEN args[CHOOSE j \in 1..Len(params) : params[j] = v] ELSE env[v]]
Ext(env, v, val) == [w \in DOMAIN env \cup {v} |-> IF w = v THEN val ELSE env[w]]
EmptyEnv == <<>>

(* sequence types of this model and the function conversion rules (XPath 3.1 3.1.5.2): an argument must
   match the declared type; xs:integer / xs:decimal are PROMOTED to a declared xs:double.  Only well-typed
   calls are enumerated (an ill-typed call is XPTY0004 and is outside the explored universe). *)
TypeMatch(x, t) ==
  CASE t = AnyType -> TRUE
    [] t = "xs:integer" -> Has(x, "i")
    [] t = "xs:decimal" -> Has(x, "i") \/ Has(x, "c")
    [] t = "xs:double" -> Has(x, "d") \/ Has(x, "inf") \/ Has(x, "nan")
    [] t = "xs:float" -> Has(x, "f") \/ Has(x, "finf") \/ Has(x, "fnan")
    [] t = "xs:boolean" -> Has(x, "b")
    [] t = "xs:string" -> Has(x, "s")
DoubleTypes == {"xs:double", "xs:double+", "xs:double*"}
Convert(v, t) == IF t \in DoubleTypes
                 THEN [j \in 1..Len(v) |-> IF Has(v[j], "i") \/ Has(v[j], "c") THEN D(NumOf(v[j])) ELSE v[j]]
                 ELSE v
ConvertAll(args, ts) == [j \in 1..Len(args) |-> Convert(args[j], ts[j])]
RECURSIVE ParamTypes(_)
ParamTypes(f) == CASE f.fn = "inline" -> f.types
                   [] f.fn = "named" -> [j \in 1..f.arity |-> AnyType]
                   [] f.fn = "partial" ->
                        LET ts == ParamTypes(f.base)
                            holes == SelectSeq([j \in 1..Len(f.mask) |-> j], LAMBDA j : Has(f.mask[j], "hole")) IN
                        [q \in 1..Len(holes) |-> ts[holes[q]]]

(* maps and arrays ARE function items of arity 1 (XPath 3.1 3.11.1, 3.11.2): $map($key), $array($index) *)
IsMapOrArray(f) == Has(f, "arr") \/ Has(f, "map")
LookupMA(f, arg) ==
  IF Has(f, "arr") THEN f.arr[arg[1].i]                      \* the index is in range in this model (else FOAY0001)
  ELSE IF \E j \in 1..Len(f.map.ks) : f.map.ks[j] = arg[1].i
       THEN f.map.vs[CHOOSE j \in 1..Len(f.map.ks) : f.map.ks[j] = arg[1].i] ELSE <<>>
Arity(f) == IF IsMapOrArray(f) THEN 1 ELSE
            CASE f.fn = "inline" -> Len(f.params)
              [] f.fn = "named" -> f.arity
              [] f.fn = "partial" -> NHoles(f.mask)

EBV(v) == Len(v) > 0 /\ (IF Has(v[1], "b") THEN v[1].b ELSE TRUE)

Arith(op, a, b) ==
  LET x == a[1]
      y == b[1]
      dbl == Has(x, "d") \/ Has(y, "d")
      dec == Has(x, "c") \/ Has(y, "c")
      p == NumOf(x)
      q == NumOf(y)
      N(n) == IF dbl THEN D(n) ELSE IF dec THEN C(n) ELSE I(n) IN
  CASE op = "+" -> <<N(p + q)>>
    [] op = "-" -> <<N(p - q)>>
    [] op = "*" -> <<N(p * q)>>
    [] op = "mod" -> <<N(XMod(p, q))>>
    [] op = "eq" -> <<B(p = q)>>
    [] op = "lt" -> <<B(p < q)>>

(* fn:string of the first item (integral decimals and doubles print like integers: 1.0 -> "1", 1e0 -> "1") *)
StrOf(v) == IF v = <<>> THEN ""
            ELSE IF Has(v[1], "s") THEN v[1].s
            ELSE IF Has(v[1], "b") THEN (IF v[1].b THEN "true" ELSE "false")
            ELSE IF Has(v[1], "node") THEN v[1].sv
            ELSE ToString(NumOf(v[1]))
(* the focus is carried in the environment under reserved names *)
WithFocus(env, item, pos, last) ==
  [w \in DOMAIN env \cup {".", "#pos", "#last"} |->
     IF w = "." THEN <<item>> ELSE IF w = "#pos" THEN <<I(pos)>> ELSE IF w = "#last" THEN <<I(last)>> ELSE env[w]]
FocusNames == {"position", "last", "string", "string-length", "name"}    \* arity 0: use the focus
FocusOf(env) == IF "." \in DOMAIN env THEN [item |-> env["."], pos |-> env["#pos"], last |-> env["#last"]]
                ELSE [item |-> <<>>, pos |-> <<>>, last |-> <<>>]
(* XPath 3.1 3.1.6: a named function reference to a focus-dependent function binds the focus of the
   reference expression: calling the item later = calling the function where the reference was evaluated *)
ApplyFocus(name, fo) ==
  CASE name = "position" -> fo.pos
    [] name = "last" -> fo.last
    [] name = "string" -> <<S(StrOf(fo.item))>>
    [] name = "string-length" -> <<I(Len(StrOf(fo.item)))>>
    [] name = "name" -> <<S(fo.item[1].node)>>
RECURSIVE ConcatStr(_)
ConcatStr(ss) == IF ss = <<>> THEN "" ELSE Head(ss) \o ConcatStr(Tail(ss))

---------------------------------------------------------------------------
(* DEFINITIONAL SEMANTICS *)
RECURSIVE Eval(_, _), Apply(_, _), ApplyNamed(_, _), FoldL(_, _, _), FoldR(_, _, _), InsertBy(_, _, _), SortBy(_, _)

(* key of one item under a key function (a function item, or NoKey = the item itself) *)
NoKey == [fn |-> "none"]
KeyOf(x, key) == IF key.fn = "none" THEN <<x>> ELSE Apply(key, << <<x>> >>)
(* keys are single numbers, booleans (false < true) or one of four strings in codepoint order *)
StrRank(x) == CASE x = "0" -> 0 [] x = "1" -> 1 [] x = "false" -> 2 [] x = "true" -> 3
(* for fn:sort NaN keys are equal to each other and less than any other number; an empty key is less than
   a non-empty one (F&O 3.1 16.1 fn:sort); -0e0 = 0e0; 1 = 1.0 = 1e0 *)
KeyVal(k) == IF k = <<>> THEN -2000000000
             ELSE IF Has(k[1], "nan") \/ Has(k[1], "fnan") THEN -1000000000
             ELSE IF Has(k[1], "inf") THEN k[1].inf * 900000000          \* -INF < every finite number < INF
             ELSE IF Has(k[1], "finf") THEN k[1].finf * 900000000        \* xs:float INF = xs:double INF
             ELSE IF Has(k[1], "b") THEN (IF k[1].b THEN 1 ELSE 0)
             ELSE IF Has(k[1], "s") THEN StrRank(k[1].s) ELSE NumOf(k[1])
KeyLe(a, b) == KeyVal(a) <= KeyVal(b)

(* F&O 16.2.1 fn:for-each($seq, $f) = for $i in $seq return $f($i) *)
ForEach(s, f) == Flatten([j \in 1..Len(s) |-> Apply(f, << <<s[j]>> >>)])
(* F&O 16.2.2 fn:filter($seq, $f) = $seq[$f(.)], order kept *)
Filter(s, f) == SelectSeq(s, LAMBDA x : EBV(Apply(f, << <<x>> >>)))
(* F&O 16.2.3 fold-left: if empty($seq) then $zero else fold-left(tail($seq), $f($zero, head($seq)), $f) *)
FoldL(s, z, f) == IF s = <<>> THEN z ELSE FoldL(Tail(s), Apply(f, <<z, <<Head(s)>> >>), f)
(* F&O 16.2.4 fold-right: if empty($seq) then $zero else $f(head($seq), fold-right(tail($seq), $zero, $f)) *)
FoldR(s, z, f) == IF s = <<>> THEN z ELSE Apply(f, << <<Head(s)>>, FoldR(Tail(s), z, f) >>)
(* F&O 16.2.5 for-each-pair: stops at the shorter sequence *)
ForEachPair(s1, s2, f) ==
  Flatten([j \in 1..MinI(Len(s1), Len(s2)) |-> Apply(f, << <<s1[j]>>, <<s2[j]>> >>)])
(* F&O 16.1 fn:sort: stable insertion sort by key: x goes after every element whose key is <= key(x) *)
InsertBy(x, sorted, key) ==
  IF sorted = <<>> THEN <<x>>
  ELSE IF KeyLe(KeyOf(Head(sorted), key), KeyOf(x, key))
       THEN <<Head(sorted)>> \o InsertBy(x, Tail(sorted), key)
       ELSE <<x>> \o sorted
SortBy(s, key) == IF s = <<>> THEN <<>>
                  ELSE InsertBy(s[Len(s)], SortBy(SubSeq(s, 1, Len(s) - 1), key), key)

ApplyNamed(name, args) ==
  CASE name = "abs" -> LET x == args[1][1] IN <<IF Has(x, "i") THEN I(AbsI(x.i)) ELSE D(AbsI(x.d))>>
    [] name = "math:pow" -> <<D(Pow(NumOf(args[1][1]), NumOf(args[2][1])))>>      \* exponent >= 0 here
    [] name = "concat" -> <<S(ConcatStr([j \in 1..Len(args) |-> StrOf(args[j])]))>>
    [] name = "string" -> <<S(StrOf(args[1]))>>
    [] name = "string-length" -> <<I(Len(StrOf(args[1])))>>
    [] name = "number" -> LET x == StrOf(args[1]) IN            \* the strings of this model
                          IF x = "9" THEN <<D(9)>> ELSE IF x = "10" THEN <<D(10)>> ELSE <<[nan |-> TRUE]>>
    [] name = "count" -> <<I(Len(args[1]))>>
    [] name = "head" -> IF args[1] = <<>> THEN <<>> ELSE <<args[1][1]>>
    [] name = "array:flatten" -> Flatten(args[1][1].arr)
    [] name = "reverse" -> RevSeq(args[1])
    [] name = "for-each" -> ForEach(args[1], args[2][1])
    [] name = "filter" -> Filter(args[1], args[2][1])
    [] name = "fold-left" -> FoldL(args[1], args[2], args[3][1])
    [] name = "fold-right" -> FoldR(args[1], args[2], args[3][1])
    [] name = "for-each-pair" -> ForEachPair(args[1], args[2], args[3][1])
    [] name = "apply" -> Apply(args[1][1], args[2][1].arr)
    [] name = "sort" -> IF Len(args) = 1 THEN SortBy(args[1], NoKey) ELSE SortBy(args[1], args[3][1])

Apply(f, args) ==
  IF IsMapOrArray(f) THEN LookupMA(f, args[1]) ELSE
  CASE f.fn = "inline" -> Convert(Eval(f.body, Bind(f.env, CanonSeq(f.params), ConvertAll(args, f.types))), f.rtype)
    [] f.fn = "named" -> IF Has(f, "focus") THEN ApplyFocus(f.name, f.focus) ELSE ApplyNamed(f.name, args)
    [] f.fn = "partial" -> Apply(f.base, Fill(f.mask, args))

MaskOf(args, env) ==
  [j \in 1..Len(args) |-> IF args[j].k = "hole" THEN HoleM ELSE [val |-> Eval(args[j], env)]]
EvalArgs(args, env) == [j \in 1..Len(args) |-> Eval(args[j], env)]

Eval(e, env) ==
  CASE e.k = "lit" -> <<I(e.v)>>
    [] e.k = "lits" -> [j \in 1..Len(e.ns) |-> I(e.ns[j])]
    [] e.k = "empty" -> <<>>
    [] e.k = "var" -> env[Canon(e.n)]
    [] e.k = "bin" -> Arith(e.op, Eval(e.a, env), Eval(e.b, env))
    [] e.k = "seq" -> Eval(e.a, env) \o Eval(e.b, env)
    [] e.k = "if" -> IF EBV(Eval(e.c, env)) THEN Eval(e.a, env) ELSE Eval(e.b, env)
    [] e.k = "str" -> <<S(e.v)>>
    [] e.k = "dlit" -> <<D(e.v)>>
    [] e.k = "instof" -> LET v == Eval(e.e, env) IN <<B(Len(v) = 1 /\ TypeMatch(v[1], e.t))>>
    [] e.k = "kids" -> SubSeq(DocKids, 1, e.n)
    [] e.k = "mapk" -> Eval(e.e, env)
    [] e.k = "maplit" -> <<[map |-> [ks |-> e.ks, vs |-> EvalArgs(e.vs, env)]]>>
    [] e.k = "blit" -> <<B(e.v)>>
    [] e.k = "nanlit" -> <<[nan |-> TRUE]>>
    [] e.k = "inflit" -> <<Inf(e.v)>>
    [] e.k = "nzlit" -> <<D(0)>>
    [] e.k = "some" -> LET s == Eval(e.s, env) IN
                       <<B(\E j \in 1..Len(s) : EBV(Eval(e.c, Ext(env, Canon(e.v), <<s[j]>>))))>>
    [] e.k \in {"map", "step"} ->
         LET s == Eval(e.s, env) IN
         Flatten([j \in 1..Len(s) |-> Eval(e.r, WithFocus(env, s[j], j, Len(s)))])
    [] e.k = "fun" -> <<[fn |-> "inline", params |-> e.params, types |-> e.types, rtype |-> e.rtype, body |-> e.body,
                         env |-> env]>>
    [] e.k \in {"ref", "lookup"} ->      \* F&O 3.1 16.1.1 fn:function-lookup: the focus of the CALL of function-lookup is bound
         IF e.arity = 0 /\ e.name \in FocusNames
         THEN <<[fn |-> "named", name |-> e.name, arity |-> 0, focus |-> FocusOf(env)]>>
         ELSE <<[fn |-> "named", name |-> e.name, arity |-> e.arity]>>
    [] e.k = "call" ->
         LET f == Eval(e.f, env)[1] IN
         IF HasHole(e.args) THEN <<[fn |-> "partial", base |-> f, mask |-> MaskOf(e.args, env)]>>
         ELSE Apply(f, EvalArgs(e.args, env))
    [] e.k = "scall" ->
         LET f == [fn |-> "named", name |-> e.name, arity |-> Len(e.args)] IN
         IF HasHole(e.args) THEN <<[fn |-> "partial", base |-> f, mask |-> MaskOf(e.args, env)]>>
         ELSE ApplyNamed(e.name, EvalArgs(e.args, env))
    [] e.k = "for" ->
         LET s == Eval(e.s, env) IN Flatten([j \in 1..Len(s) |-> Eval(e.r, Ext(env, Canon(e.v), <<s[j]>>))])
    [] e.k = "let" -> Eval(e.r, Ext(env, Canon(e.v), Eval(e.e, env)))
    [] e.k = "index" -> LET s == Eval(e.e, env) IN IF e.j \in 1..Len(s) THEN <<s[e.j]>> ELSE <<>>
    [] e.k = "arr" -> <<[arr |-> EvalArgs(e.es, env)]>>

---------------------------------------------------------------------------
(* IMPLEMENTATION-SHAPED EVALUATOR (see header), in sync with /repo 267df37.                    *)
(* Machine M = [d]: the variables dict of the innermost let/for scope (a function call works   *)
(* on its own copy, a3d4dd5).  Function items:                                                 *)
(*   [fn |-> "tok", site, params, body, vars]   copy of the inline-function token that OWNS    *)
(*                                              the variables captured at its evaluation (e070bf1) *)
(*   [fn |-> "ptok", .., vars, slots]           partial application of it: own argument list,  *)
(*                                              fixed arguments evaluated at application time  *)
(*                                              (e1d9b01); slots entries HoleM | [val |-> v]   *)
(*   [fn |-> "inst", name, arity]               instance made by name#arity                    *)
(*   [fn |-> "pinst", name, slots]              its partial application (own, evaluated list)  *)
(*   [fn |-> "pstat", name, slots]              STATIC call with '?' (concat($i, ?)): the      *)
(*                                              syntax token turned ITSELF into a partial      *)
(*                                              function at parse time; evaluate() returns the *)
(*                                              token; slots entries HoleM | [tok |-> expr]    *)
(*                                              stay UNEVALUATED and are evaluated at CALL     *)
(*                                              time in the caller's dict  <- remaining defect *)
(* An unknown variable poisons the value: <<[err |-> "XPST0008"]>> (the real code raises).     *)
(* History: until e070bf1 / e1d9b01 the captured variables lived on the syntax token (one      *)
(* object for every function item of a function expression) and partial applications shared    *)
(* the argument list of their base; TLC refuted that model (AsImplementedAgrees) with          *)
(* let $fs := (for $i in (10,20) return function($x){$x+$i}) return $fs[1](2)  = 22.           *)
Poison(code) == <<[err |-> code]>>
IsPoison(v) == \E j \in 1..Len(v) : Has(v[j], "err")
AnyPoison(vs) == \E j \in 1..Len(vs) : IsPoison(vs[j])
FirstPoison(vs) == vs[CHOOSE j \in 1..Len(vs) : IsPoison(vs[j]) /\ \A q \in 1..(j - 1) : ~IsPoison(vs[q])]
PoisonOf(v) == <<v[CHOOSE j \in 1..Len(v) : Has(v[j], "err") /\ \A q \in 1..(j - 1) : ~Has(v[q], "err")]>>
Update(d, e) == [v \in DOMAIN d \cup DOMAIN e |-> IF v \in DOMAIN e THEN e[v] ELSE d[v]]
M0 == [d |-> EmptyEnv]
R(v, m) == [v |-> v, m |-> m]

RECURSIVE SomeI(_, _, _), ForEachI(_, _, _, _)
RECURSIVE EvalI(_, _), EvalSeqI(_, _), EvalMaskI(_, _), CallI(_, _, _), BindSlotsI(_, _, _, _, _, _), MapI(_, _, _, _, _),
          FillSlotsI(_, _, _, _), ForI(_, _, _, _), ApplyNamedI(_, _, _)

(* arguments left to right, threading the machine *)
EvalSeqI(es, m) ==
  IF es = <<>> THEN [vs |-> <<>>, m |-> m]
  ELSE LET h == EvalI(Head(es), m)
           r == EvalSeqI(Tail(es), h.m) IN [vs |-> <<h.v>> \o r.vs, m |-> r.m]

(* dynamic partial application: the fixed arguments are evaluated NOW *)
EvalMaskI(es, m) ==
  IF es = <<>> THEN [slots |-> <<>>, m |-> m]
  ELSE IF Head(es).k = "hole"
       THEN LET r == EvalMaskI(Tail(es), m) IN [slots |-> <<HoleM>> \o r.slots, m |-> r.m]
       ELSE LET h == EvalI(Head(es), m)
                r == EvalMaskI(Tail(es), h.m) IN [slots |-> <<[val |-> h.v]>> \o r.slots, m |-> r.m]
SlotPoison(slots) == \E j \in 1..Len(slots) : Has(slots[j], "val") /\ IsPoison(slots[j].val)
(* static partial application: the argument tokens stay as they are *)
SlotsOf(args) == [j \in 1..Len(args) |-> IF args[j].k = "hole" THEN HoleM ELSE [tok |-> args[j]]]

(* builtins used by the Closures programs only (no higher-order builtin there) *)
(* for-each is the one higher-order builtin the Closures programs use: func(item, context=context) per item *)
ForEachI(items, f, acc, m) ==
  IF items = <<>> THEN R(acc, m)
  ELSE LET r == CallI(f, << <<Head(items)>> >>, m) IN
       IF IsPoison(r.v) THEN R(PoisonOf(r.v), r.m) ELSE ForEachI(Tail(items), f, acc \o r.v, r.m)
ApplyNamedI(name, vs, m) ==
  IF AnyPoison(vs) THEN R(PoisonOf(FirstPoison(vs)), m)
  ELSE IF name = "for-each" THEN ForEachI(vs[1], vs[2][1], <<>>, m)
  ELSE R(ApplyNamed(name, vs), m)
SomeI(e, items, m) ==
  IF items = <<>> THEN R(<<B(FALSE)>>, m)
  ELSE LET r == EvalI(e.c, [m EXCEPT !.d = Ext(m.d, e.v, <<Head(items)>>)]) IN
       IF IsPoison(r.v) THEN R(PoisonOf(r.v), m)
       ELSE IF EBV(r.v) THEN R(<<B(TRUE)>>, m) ELSE SomeI(e, Tail(items), m)

(* inline partial function: for (param, token) in zip(varnames, items):
   a bare '?' takes the next call argument, any other token is a value *)
BindSlotsI(params, types, slots, args, q, m) ==
  IF params = <<>> \/ slots = <<>> THEN m
  ELSE LET s == Head(slots) IN
       IF IsHole(s)
       THEN IF q > Len(args) THEN [m EXCEPT !.d = Ext(m.d, "_escaped", Poison("IndexError"))]
            ELSE \* the supplied argument is converted to the declared type of the parameter AT THIS POSITION
                 BindSlotsI(Tail(params), Tail(types), Tail(slots), args, q + 1,
                            [m EXCEPT !.d = Ext(m.d, Head(params), Convert(args[q], Head(types)))])
       ELSE LET r == IF Has(s, "val") THEN R(s.val, m) ELSE EvalI(s.tok, m) IN
            BindSlotsI(Tail(params), Tail(types), Tail(slots), args, q,
                       [r.m EXCEPT !.d = Ext(r.m.d, Head(params), r.v)])

(* partial function of a builtin: '?' tokens get the call arguments in order,
   [val] entries are values, [tok] entries (static form) are evaluated at CALL time *)
FillSlotsI(slots, args, q, m) ==
  IF slots = <<>> THEN [vs |-> <<>>, m |-> m]
  ELSE LET s == Head(slots) IN
       IF IsHole(s)
       THEN LET rest == FillSlotsI(Tail(slots), args, q + 1, m) IN
            [vs |-> <<IF q <= Len(args) THEN args[q] ELSE Poison("stale-placeholder")>> \o rest.vs, m |-> rest.m]
       ELSE LET r == IF Has(s, "val") THEN R(s.val, m) ELSE EvalI(s.tok, m)
                rest == FillSlotsI(Tail(slots), args, q, r.m) IN
            [vs |-> <<r.v>> \o rest.vs, m |-> rest.m]

ResultI(v, t) == IF IsPoison(v) THEN v ELSE Convert(v, t)
CallI(f, args, m) ==
  IF AnyPoison(args) THEN R(PoisonOf(FirstPoison(args)), m)
  ELSE CASE f.fn = "tok" ->
         \* context = copy(context); context.variables = context.variables.copy();
         \* D.update(item.variables); D[param] = arg; the caller's dict is untouched
         LET d2 == Bind(Update(m.d, f.vars), StoreSeqI(f.params), ConvertAll(args, f.types))
             r == EvalI(f.body, [m EXCEPT !.d = d2]) IN
         R(ResultI(r.v, f.rtype), [r.m EXCEPT !.d = m.d])          \* return self.validated_result(result)
    [] f.fn = "ptok" ->
         LET m1 == [m EXCEPT !.d = Update(m.d, f.vars)]
             m2 == BindSlotsI(f.params, f.types, f.slots, args, 1, m1) IN
         IF "_escaped" \in DOMAIN m2.d THEN R(m2.d["_escaped"], [m2 EXCEPT !.d = m.d])
         ELSE LET r == EvalI(f.body, m2) IN R(ResultI(r.v, f.rtype), [r.m EXCEPT !.d = m.d])
    [] f.fn = "inst" -> IF Has(f, "focus") THEN R(ApplyFocus(f.name, f.focus), m) ELSE ApplyNamedI(f.name, args, m)
    [] f.fn \in {"pinst", "pstat"} ->
         LET r == FillSlotsI(f.slots, args, 1, m) IN ApplyNamedI(f.name, r.vs, r.m)

(* for $v in s return r: the loop variable is written into ONE copied dict for all iterations;
   the outer dict is untouched *)
ForI(e, items, acc, m) ==
  IF items = <<>> THEN R(acc, m)
  ELSE LET r == EvalI(e.r, [m EXCEPT !.d = Ext(m.d, StoreI(e.v), <<Head(items)>>)]) IN
       ForI(e, Tail(items), acc \o r.v, r.m)

(* a ! r: like `for`, the focus (context item, position, size) instead of a variable *)
MapI(e, items, j, acc, m) ==
  IF j > Len(items) THEN R(acc, m)
  ELSE LET r == EvalI(e.r, [m EXCEPT !.d = WithFocus(m.d, items[j], j, Len(items))]) IN
       MapI(e, items, j + 1, acc \o r.v, r.m)

EvalI(e, m) ==
  CASE e.k = "lit" -> R(<<I(e.v)>>, m)
    [] e.k = "str" -> R(<<S(e.v)>>, m)
    [] e.k = "dlit" -> R(<<D(e.v)>>, m)
    [] e.k = "inflit" -> R(<<Inf(e.v)>>, m)
    [] e.k = "instof" -> LET r == EvalI(e.e, m) IN
                         IF IsPoison(r.v) THEN R(PoisonOf(r.v), r.m)
                         ELSE R(<<B(Len(r.v) = 1 /\ TypeMatch(r.v[1], e.t))>>, r.m)
    [] e.k = "kids" -> R(SubSeq(DocKids, 1, e.n), m)
    [] e.k = "mapk" -> EvalI(e.e, m)
    [] e.k = "some" -> LET s == EvalI(e.s, m) IN SomeI(e, s.v, s.m)
    [] e.k = "arr" -> LET a == EvalSeqI(e.es, m) IN
                      IF AnyPoison(a.vs) THEN R(PoisonOf(FirstPoison(a.vs)), a.m) ELSE R(<<[arr |-> a.vs]>>, a.m)
    [] e.k \in {"map", "step"} -> LET s == EvalI(e.s, m)
                          r == MapI(e, s.v, 1, <<>>, s.m) IN R(r.v, [r.m EXCEPT !.d = m.d])
    [] e.k = "lits" -> R([j \in 1..Len(e.ns) |-> I(e.ns[j])], m)
    [] e.k = "empty" -> R(<<>>, m)
    [] e.k = "var" -> R(IF StoreI(e.n) \in DOMAIN m.d THEN m.d[StoreI(e.n)]
                        ELSE IF Canon(e.n) \in DOMAIN m.d THEN m.d[Canon(e.n)] ELSE Poison("XPST0008"), m)
    [] e.k = "bin" ->
         LET l == EvalI(e.a, m)
             r == EvalI(e.b, l.m) IN
         IF IsPoison(l.v) THEN R(PoisonOf(l.v), l.m)
         ELSE IF IsPoison(r.v) THEN R(PoisonOf(r.v), r.m)
         ELSE R(Arith(e.op, l.v, r.v), r.m)
    [] e.k = "seq" -> LET l == EvalI(e.a, m)
                          r == EvalI(e.b, l.m) IN R(l.v \o r.v, r.m)
    [] e.k = "if" -> LET c == EvalI(e.c, m) IN
                     IF IsPoison(c.v) THEN R(PoisonOf(c.v), c.m)
                     ELSE IF EBV(c.v) THEN EvalI(e.a, c.m) ELSE EvalI(e.b, c.m)
    [] e.k = "fun" ->      \* func = copy(self); func.variables = context.variables.copy(); return func
         R(<<[fn |-> "tok", site |-> e.site, params |-> e.params, types |-> e.types, rtype |-> e.rtype, body |-> e.body,
              vars |-> m.d]>>, m)
    [] e.k \in {"ref", "lookup"} ->   \* func = token_class(parser, nargs=arity): a fresh instance per evaluation;
                           \* func.context = copy(context): the focus of THIS evaluation (function-lookup: the same)
         IF e.arity = 0 /\ e.name \in FocusNames
         THEN R(<<[fn |-> "inst", name |-> e.name, arity |-> 0, focus |-> FocusOf(m.d)]>>, m)
         ELSE R(<<[fn |-> "inst", name |-> e.name, arity |-> e.arity]>>, m)
    [] e.k = "call" ->
         LET fr == EvalI(e.f, m) IN
         IF IsPoison(fr.v) THEN R(PoisonOf(fr.v), fr.m)
         ELSE LET f == fr.v[1] IN
           IF HasHole(e.args)
           THEN \* func = copy(func); func._items = [? | ValueToken(tk.evaluate(context))]; to_partial_function()
                LET a == EvalMaskI(e.args, fr.m) IN
                IF SlotPoison(a.slots) THEN R(Poison("XPST0008"), a.m)
                ELSE IF f.fn \in {"tok", "ptok"}
                THEN R(<<[fn |-> "ptok", site |-> f.site, params |-> f.params, types |-> f.types, rtype |-> f.rtype, body |-> f.body,
                          vars |-> f.vars, slots |-> a.slots]>>, a.m)
                ELSE R(<<[fn |-> "pinst", name |-> f.name, slots |-> a.slots]>>, a.m)
           ELSE LET a == EvalSeqI(e.args, fr.m) IN CallI(f, a.vs, a.m)
    [] e.k = "scall" ->
         IF HasHole(e.args)
         THEN R(<<[fn |-> "pstat", name |-> e.name, slots |-> SlotsOf(e.args)]>>, m)
         ELSE LET a == EvalSeqI(e.args, m) IN ApplyNamedI(e.name, a.vs, a.m)
    [] e.k = "for" ->      \* context.variables = context.variables.copy()
         \* everything below (the sequence operand, the body, calls made by them) works on the COPY
         LET s == EvalI(e.s, m)
             r == ForI(e, s.v, <<>>, s.m) IN R(r.v, [r.m EXCEPT !.d = m.d])
    [] e.k = "let" ->      \* copy the dict, evaluate the binding IN THE COPY, bind, evaluate the body
         LET b == EvalI(e.e, m)
             r == EvalI(e.r, [b.m EXCEPT !.d = Ext(b.m.d, StoreI(e.v), b.v)]) IN R(r.v, [r.m EXCEPT !.d = m.d])
    [] e.k = "index" -> LET s == EvalI(e.e, m) IN
                        R(IF e.j \in 1..Len(s.v) THEN <<s.v[e.j]>> ELSE <<>>, s.m)
=============================================================================
