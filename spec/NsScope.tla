------------------------------ MODULE NsScope ------------------------------
(***************************************************************************)
(* Growth beyond the listed properties (DESIGN section 5): namespace        *)
(* scoping and the name accessors fn:name, fn:local-name, fn:namespace-uri, *)
(* fn:in-scope-prefixes and fn:namespace-uri-for-prefix.                    *)
(*                                                                          *)
(* Namespaces in XML 1.0 section 6: a declaration xmlns:p="u" / xmlns="u"   *)
(* on an element is in scope on that element and on its descendants until   *)
(* re-declared.  A prefixed element or attribute name is in the namespace   *)
(* bound to the prefix; an UNPREFIXED element name is in the default        *)
(* namespace in scope (no namespace if there is none); an unprefixed        *)
(* ATTRIBUTE name is in no namespace, whatever the default namespace is.    *)
(* F&O 3.1: fn:namespace-uri = namespace part of dm:node-name (zero-length  *)
(* if none), fn:local-name its local part, fn:name its lexical QName;       *)
(* fn:in-scope-prefixes = prefixes of the namespace nodes ("xml" always,    *)
(* "" for a default namespace); fn:namespace-uri-for-prefix = the binding   *)
(* or the empty sequence.                                                   *)
(*                                                                          *)
(* The machine walks down an element chain and carries the bindings in      *)
(* scope (cur); every step declares (or not) the prefix p and the default   *)
(* namespace and chooses the name forms of the element and its attribute.   *)
(* Definitional reading: the binding of a prefix on an element is the       *)
(* NEAREST declaration on the ancestor-or-self chain.                       *)
(*                                                                          *)
(* Excluded: xmlns="" (lxml reports a (None,'') binding, see C02), prefix   *)
(* undeclaration (Namespaces 1.1 only), xml.etree for the two in-scope      *)
(* functions (it keeps no declarations; the namespaces= argument is in      *)
(* scope everywhere, modelled in XTree.tla).                                *)
(***************************************************************************)
EXTENDS Naturals, Sequences, FiniteSets

CONSTANTS MaxDepth

VARIABLES chain,     \* sequence of steps [dp, dd, ef, af]
          cur,       \* [p |-> uri or "none", d |-> uri or "none"]   bindings in scope on the focus element
          obs        \* what the accessors answer on the focus element / its attribute
vars == <<chain, cur, obs>>

Uris  == {"u1", "u2"}
Decl  == Uris \cup {"keep"}
ElemForms == {"local", "p"}
AttrForms == {"plain", "p"}

Step(dp, dd, ef, af) == [dp |-> dp, dd |-> dd, ef |-> ef, af |-> af]
Steps == {Step(dp, dd, ef, af) : dp \in Decl, dd \in Decl, ef \in ElemForms, af \in AttrForms}

Bind(b, s) == [p |-> IF s.dp = "keep" THEN b.p ELSE s.dp,
               d |-> IF s.dd = "keep" THEN b.d ELSE s.dd]

(* a step is well-formed XML only if the prefix it uses is bound *)
WellFormed(b, s) == LET nb == Bind(b, s) IN (s.ef = "p" \/ s.af = "p") => nb.p # "none"

NoUri(u) == IF u = "none" THEN "" ELSE u

Observe(b, s) ==
  [ens    |-> IF s.ef = "p" THEN b.p ELSE NoUri(b.d),          \* namespace-uri(element)
   epfx   |-> IF s.ef = "p" THEN "p" ELSE "",                  \* prefix part of name(element)
   ans    |-> IF s.af = "p" THEN b.p ELSE "",                  \* namespace-uri(attribute): never the default
   apfx   |-> IF s.af = "p" THEN "p" ELSE "",
   scope  |-> {"xml"} \cup (IF b.p # "none" THEN {"p"} ELSE {}) \cup (IF b.d # "none" THEN {""} ELSE {}),
   forp   |-> b.p,                                             \* namespace-uri-for-prefix('p', .) ("none" = empty)
   ford   |-> b.d]                                             \* namespace-uri-for-prefix('', .)

Init == /\ chain = <<>>
        /\ cur = [p |-> "none", d |-> "none"]
        /\ obs = [ens |-> "", epfx |-> "", ans |-> "", apfx |-> "", scope |-> {"xml"}, forp |-> "none", ford |-> "none"]
                 \* the unmarked wrapper element r with a plain attribute

Descend(s) == /\ Len(chain) < MaxDepth
              /\ WellFormed(cur, s)
              /\ chain' = Append(chain, s)
              /\ cur' = Bind(cur, s)
              /\ obs' = Observe(cur', s)

Next == \E s \in Steps : Descend(s)
Spec == Init /\ [][Next]_vars

---------------------------------------------------------------------------
(* definitional: nearest declaration on the ancestor-or-self chain *)
RECURSIVE NearestP(_), NearestD(_)
NearestP(ch) == IF ch = <<>> THEN "none"
                ELSE IF ch[Len(ch)].dp # "keep" THEN ch[Len(ch)].dp ELSE NearestP(SubSeq(ch, 1, Len(ch) - 1))
NearestD(ch) == IF ch = <<>> THEN "none"
                ELSE IF ch[Len(ch)].dd # "keep" THEN ch[Len(ch)].dd ELSE NearestD(SubSeq(ch, 1, Len(ch) - 1))

TypeOK == /\ Len(chain) <= MaxDepth
          /\ cur.p \in Uris \cup {"none"} /\ cur.d \in Uris \cup {"none"}

InvDefinitional == cur = [p |-> NearestP(chain), d |-> NearestD(chain)]

(* an unprefixed attribute is in no namespace; a prefixed name is never in "no namespace" *)
InvAttrNoDefault == chain # <<>> => (chain[Len(chain)].af = "plain" => obs.ans = "")
InvPrefixedBound == chain # <<>> => /\ (chain[Len(chain)].ef = "p" => obs.ens \in Uris)
                                    /\ (chain[Len(chain)].af = "p" => obs.ans \in Uris)

(* in-scope-prefixes and namespace-uri-for-prefix tell the same story *)
InvScopeAgrees == /\ ("p" \in obs.scope) = (obs.forp # "none")
                  /\ (""  \in obs.scope) = (obs.ford # "none")
                  /\ "xml" \in obs.scope

(* the element's own namespace is always one of the in-scope bindings *)
InvElemNsInScope == chain # <<>> => (obs.ens = "" \/ obs.ens = obs.forp \/ obs.ens = obs.ford)
=============================================================================
