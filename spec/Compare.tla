------------------------------ MODULE Compare ------------------------------
(***************************************************************************)
(* Property C07, part 2: value comparisons  eq ne lt le gt ge  and general *)
(* comparisons  = != < <= > >=  on sequences of atomic values.             *)
(*                                                                         *)
(* Sources (no second oracle exists for the 2.0 tables, every operator     *)
(* carries its section):                                                   *)
(*   [VC]  XPath 2.0 / 3.1 section 3.5.1 (3.7.1)  Value Comparisons        *)
(*   [GC]  XPath 2.0 / 3.1 section 3.5.2 (3.7.2)  General Comparisons      *)
(*   [B2]  XPath 2.0 / 3.1 appendix B.2  Operator Mapping                  *)
(*   [B1]  appendix B.1 Type Promotion (numeric; xs:anyURI -> xs:string)   *)
(*   [EO]  section 2.3.4  Errors and Optimization                          *)
(*   [X1]  XPath 1.0 section 3.4 Booleans (cross-checked against libxml2)  *)
(*                                                                         *)
(* VALUE-STATE MACHINE: the state is a pair of operand sequences (lhs,rhs) *)
(* built item by item (AppendL, AppendR); Cmp(kind, op) applies one        *)
(* comparison and moves to a terminal result state whose `res` maps every  *)
(* processor configuration (EBV!Cfgs) to the SET of outcomes the W3C text  *)
(* permits.  The dumped graph is the test plan: every Cmp edge is replayed *)
(* on the real parsers.                                                    *)
(*                                                                         *)
(* Implementation-defined / -dependent points, NOT part of the vectors:    *)
(*  - which outcome is produced when [EO] permits several (a true pair and *)
(*    an erroneous pair in one general comparison; an empty operand next   *)
(*    to a too long one in a value comparison): the whole set is accepted; *)
(*  - collations other than the code point collation;                      *)
(*  - the implicit timezone is a parameter (EBV!ImplicitTZ = +05:00, set   *)
(*    by the binding through select(timezone=...)), not a vector;          *)
(*  - xs:decimal / xs:float values off the dyadic grid n/2^24 (rounding of *)
(*    the promotion to xs:float / xs:double);                              *)
(*  - xs:untypedAtomic against xs:QName on XPath 2.0 processors (the cast  *)
(*    is "N" in F&O 2.0, "Y" since 3.0): outcome "UNSPEC", vector skipped; *)
(*  - static typing.                                                       *)
(***************************************************************************)
EXTENDS EBV

CONSTANTS MaxLen,        \* longest operand sequence
          Wide           \* TRUE: items of sequences of length 2 are SeqItems, else SeqItems3

VARIABLES lhs, rhs, res
vars == <<lhs, rhs, res>>

Ops == {"eq", "ne", "lt", "le", "gt", "ge"}     \* general comparisons use the same names: = != < <= > >=
OrderOps == {"lt", "le", "gt", "ge"}

---------------------------------------------------------------------------
(* three-way orders *)
RECURSIVE LexOrd(_, _)
LexOrd(s, u) ==      \* lexicographic order of two integer sequences: "lt" | "eq" | "gt"
  IF s = <<>> THEN (IF u = <<>> THEN "eq" ELSE "lt")
  ELSE IF u = <<>> THEN "gt"
  ELSE IF s[1] < u[1] THEN "lt"
  ELSE IF s[1] > u[1] THEN "gt"
  ELSE LexOrd(Tail(s), Tail(u))

(* op:numeric-equal / op:numeric-less-than (F&O 6.3): after promotion [B1] the values are compared
   as numbers; positive and negative zero are equal; NaN is unordered ("un"): NaN eq NaN is false *)
BigBase == 2000000000          \* above every grid value n; a "big" value 2^53 + off has the key BigBase + off
NumKey(v) == IF v.k = "ninf" THEN <<0, 0>> ELSE IF v.k = "pinf" THEN <<2, 0>>
             ELSE IF v.k = "big" THEN <<1, BigBase + v.n>> ELSE <<1, v.n>>
(* cast to xs:double: exact on the grid; around 2^53 the spacing of doubles is 2: round half to even *)
RoundBig(off) == IF off % 2 = 0 THEN off ELSE IF ((off - 1) \div 2) % 2 = 0 THEN off - 1 ELSE off + 1
ToDbl(v) == IF v.k = "big" THEN [v EXCEPT !.t = "dbl", !.n = RoundBig(v.n)] ELSE [v EXCEPT !.t = "dbl"]
IsFloatT(t) == t \in {"flt", "dbl"}
NumOrd(a, b) ==      \* [B1]: if one operand is xs:float / xs:double the other is promoted (cast) to it first
  IF IsNaN(a) \/ IsNaN(b) THEN "un"
  ELSE IF IsFloatT(a.t) \/ IsFloatT(b.t) THEN LexOrd(NumKey(ToDbl(a)), NumKey(ToDbl(b)))
  ELSE LexOrd(NumKey(a), NumKey(b))

(* the point of the timeline a date/time value denotes, in seconds + microseconds: "if either argument
   has no timezone, the implicit timezone of the dynamic context is used" (F&O 10.4 op:dateTime-equal;
   a date is the instant its day starts, a time is taken on the reference day of F&O) *)
TKey(v, c) == LET z == IF v.tz = NoTZ THEN TZOf(c) ELSE v.tz
           IN <<v.dn * 86400 + v.s - z * 60, v.us>>
BinaryOrdered(c) == c \in {"v31", "c31", "u31"}    \* op:hexBinary-less-than, op:base64Binary-less-than: F&O 3.1 only
B2I(b) == IF b THEN 1 ELSE 0
EqOnly(b) == IF b THEN "eqq" ELSE "neq"     \* equality is defined, order is not

(* [B2] operator mapping on two values that are no longer xs:untypedAtomic.
   Result: "lt" "eq" "gt" | "un" (NaN) | "eqq" "neq" (eq/ne defined only) | "err" (no entry: XPTY0004) *)
Ord(a, b, c) ==
  IF IsNumT(a.t) /\ IsNumT(b.t) THEN NumOrd(a, b)
  ELSE IF a.t \in {"str", "uri"} /\ b.t \in {"str", "uri"} THEN LexOrd(a.s, b.s)  \* fn:compare, code points; anyURI promoted [B1]
  ELSE IF a.t = "bool" /\ b.t = "bool" THEN LexOrd(<<B2I(a.b)>>, <<B2I(b.b)>>)   \* op:boolean-less-than: false < true
  ELSE IF a.t = b.t /\ IsTimeT(a.t) THEN LexOrd(TKey(a, c), TKey(b, c))      \* op:dateTime/date/time-equal, -less-than (F&O 10.4)
  ELSE IF a.t = b.t /\ IsGT(a.t) THEN EqOnly(TKey(a, c) = TKey(b, c))        \* op:gYear-equal ...: equality of the starting instants only
  ELSE IF IsDurT(a.t) /\ IsDurT(b.t)
       THEN IF a.t = "ymd" /\ b.t = "ymd" THEN LexOrd(<<a.mo>>, <<b.mo>>)         \* op:yearMonthDuration-less-than
            ELSE IF a.t = "dtd" /\ b.t = "dtd" THEN LexOrd(a.se, b.se)            \* op:dayTimeDuration-less-than (values >= 0 here)
            ELSE EqOnly(a.mo = b.mo /\ a.se = b.se)       \* op:duration-equal applies to every pair of durations
  ELSE IF a.t = "qn" /\ b.t = "qn" THEN EqOnly(a.ns = b.ns /\ a.l = b.l)          \* op:QName-equal (prefix ignored)
  ELSE IF a.t = b.t /\ a.t \in {"hex", "b64"}
       THEN IF BinaryOrdered(c) THEN LexOrd(a.o, b.o) ELSE EqOnly(a.o = b.o)
  ELSE "err"

OpOn(op, o) ==
  IF o = "err" THEN "XPTY0004"
  ELSE IF o = "un" THEN B2O(op = "ne")
  ELSE IF o \in {"eqq", "neq"}
       THEN (IF op = "eq" THEN B2O(o = "eqq") ELSE IF op = "ne" THEN B2O(o = "neq") ELSE "XPTY0004")
  ELSE B2O(CASE op = "eq" -> o = "eq" [] op = "ne" -> o # "eq" [] op = "lt" -> o = "lt"
             [] op = "le" -> o # "gt" [] op = "gt" -> o = "gt" [] op = "ge" -> o # "lt")

(* [VC] rule 3 (2.0: rule 2): an xs:untypedAtomic operand is cast to xs:string; then [B2] *)
AsStr(v) == IF v.t = "unt" THEN Str(v.s) ELSE v
Val(op, a, b, c) == OpOn(op, Ord(AsStr(a), AsStr(b), c))

Atomize(S) == [i \in 1..Len(S) |-> IF S[i].t = "node" THEN Unt(S[i].s) ELSE S[i]]

(* [VC] rules 1-2: an empty atomized operand gives the empty sequence ("the implementation need not
   evaluate the other operand", but may, to find its error); more than one item: XPTY0004 *)
ValSeq(op, A, B, c) ==
  IF A = <<>> \/ B = <<>>
  THEN {"EMPTY"} \cup (IF Len(A) > 1 \/ Len(B) > 1 THEN {"XPTY0004"} ELSE {})
  ELSE IF Len(A) > 1 \/ Len(B) > 1 THEN {"XPTY0004"}
  ELSE {Val(op, A[1], B[1], c)}

---------------------------------------------------------------------------
(* casts of xs:untypedAtomic (and, for fn:number, xs:string): lexical mappings of the strings of
   the universe (XSD 1.1 part 2; F&O 17.1 casting table).  Every string of the universe that is
   in the lexical space of a target type is listed; everything else is FORG0001. *)
(* whiteSpace facet (XSD part 2, 4.3.6): collapse for every type except xs:string (preserve); the cast
   from xs:untypedAtomic applies it before the lexical mapping (F&O 17.1.1 "Casting from xs:string and
   xs:untypedAtomic": "the whitespace normalization ... is applied") *)
IsWS(ch) == ch \in {9, 10, 13, 32}
RECURSIVE DropWS(_)
DropWS(s) == IF s # <<>> /\ IsWS(s[1]) THEN DropWS(Tail(s)) ELSE s
RECURSIVE CollapseFrom(_)
CollapseFrom(s) ==
  IF s = <<>> THEN <<>>
  ELSE IF IsWS(s[1]) THEN (LET r == DropWS(s) IN IF r = <<>> THEN <<>> ELSE <<32>> \o CollapseFrom(r))
  ELSE <<s[1]>> \o CollapseFrom(Tail(s))
HasWS(s) == \E i \in 1..Len(s) : IsWS(s[i])
Collapse(s) == IF HasWS(s) THEN CollapseFrom(DropWS(s)) ELSE s
CastTable == {
  <<S_1, "dbl", Db1>>, <<S_1p0, "dbl", Db1>>, <<S_big1, "dbl", DBig0>>,      \* the lexical mapping of xs:double rounds
  <<S_1, "bool", Bool(TRUE)>>, <<S_true, "bool", Bool(TRUE)>>,
  <<S_date1, "date", Date1>>,
  <<S_P1M, "ymd", Y1M>>, <<S_P1M, "dur", U1M>>,
  <<S_0A, "hex", H0A>>, <<S_empty, "hex", Hex(<<>>, <<>>)>>,
  <<S_true, "b64", B64(<<182, 187, 158>>, S_true)>>, <<S_empty, "b64", B64(<<>>, <<>>)>>,
  <<S_abc, "qn", QNabc>>, <<S_abd, "qn", QN(<<>>, <<>>, S_abd)>>, <<S_B, "qn", QN(<<>>, <<>>, S_B)>>,
  <<S_true, "qn", QN(<<>>, <<>>, S_true)>>, <<S_P1M, "qn", QN(<<>>, <<>>, S_P1M)>> }
(* xs:untypedAtomic -> xs:QName: "N" in the casting table of F&O 2.0 (17.1), "Y" since F&O 3.0 (19.1).
   Whether [GC] rule c of an XPath 2.0 processor raises XPTY0004 or FORG0001 here, or casts, is not
   stated consistently by the 2.0 texts: outcome "UNSPEC" = the vector is removed for 2.0 processors. *)
CastU(s, T, c) ==
  IF T = "str" THEN Str(s)
  ELSE IF T = "uri" THEN Uri(Collapse(s))
  ELSE IF T = "qn" /\ c \in {"v20", "c20", "c10"} THEN Err("UNSPEC")
  ELSE LET m == {e \in CastTable : e[1] = Collapse(s) /\ e[2] = T}
       IN IF m = {} THEN Err("FORG0001") ELSE (CHOOSE e \in m : TRUE)[3]

---------------------------------------------------------------------------
(* [GC] XPath 2.0 mode.  For each pair (a, b), "required magnitude relationship":
   a  untypedAtomic with a numeric value: cast to xs:double;
   b  untypedAtomic with untypedAtomic or xs:string: cast to xs:string;
   c  untypedAtomic with any other type T: cast to T (3.0: T = the primitive base type, or
      dayTimeDuration / yearMonthDuration -- the same for every type of this universe);
   then the value comparison eq ne lt le gt ge.  A failed cast: FORG0001. *)
Target(b) == IF IsNumT(b.t) THEN "dbl" ELSE b.t
Conv(a, b, c) ==
  IF a.t # "unt" THEN a
  ELSE IF b.t \in {"unt", "str"} THEN Str(a.s)
  ELSE CastU(a.s, Target(b), c)
PairGen(op, a, b, c) ==
  LET ca == Conv(a, b, c)
      cb == Conv(b, a, c)
  IN IF ca.t = "err" THEN ca.code
     ELSE IF cb.t = "err" THEN cb.code
     ELSE Val(op, ca, cb, c)

(* existential closure [GC] + [EO]: true iff some pair is true; "otherwise false or an error".
   With a true pair AND an erroneous pair, both `true` and the error are permitted; with no true
   pair every pair had to be examined, so an error must surface. *)
Close(P) ==
  LET errs == {o \in P : IsErrO(o)}
  IN IF "UNSPEC" \in P THEN {"UNSPEC"}
     ELSE IF "TRUE" \in P THEN {"TRUE"} \cup errs
     ELSE IF errs # {} THEN errs
     ELSE {"FALSE"}
Pairs(A, B) == (1..Len(A)) \X (1..Len(B))
Gen20(op, A, B, c) == Close({PairGen(op, A[p[1]], B[p[2]], c) : p \in Pairs(A, B)})

(* the strategy of a typical implementation -- scan the product left to right, stop at the first
   true pair or the first error -- must be one of the permitted outcomes (invariant IterAdmissible) *)
RECURSIVE IterFrom(_, _, _, _, _)
IterFrom(op, A, B, c, k) ==
  IF k >= Len(A) * Len(B) THEN "FALSE"
  ELSE LET o == PairGen(op, A[(k \div Len(B)) + 1], B[(k % Len(B)) + 1], c)
       IN IF o = "FALSE" THEN IterFrom(op, A, B, c, k + 1) ELSE o

---------------------------------------------------------------------------
(* [GC] XPath 1.0 compatibility mode, rules 1-4 *)
(* fn:number: "if $arg cannot be converted to an xs:double, NaN is returned" (F&O 14.4.x fn:number) *)
FnNumber(v, c) ==
  IF IsNumT(v.t) THEN ToDbl(v)
  ELSE IF v.t = "bool" THEN Num("dbl", IF v.b THEN Unit ELSE 0)
  ELSE IF v.t \in {"str", "unt"}
       THEN LET d == CastU(v.s, "dbl", c) IN IF d.t = "err" THEN DbNaN ELSE d
  ELSE DbNaN
(* cast to xs:string: the canonical lexical form (F&O 17.1.x casting to xs:string) *)
ToStr(v) ==
  IF IsStrT(v.t) THEN Str(v.s)
  ELSE IF v.t = "bool" THEN Str(IF v.b THEN S_true ELSE S_false)
  ELSE Str(v.lex)
PairCompat(op, a, b, c) ==
  IF op \in OrderOps                                                      \* rule 3: every item through fn:number
  THEN OpOn(op, NumOrd(FnNumber(a, c), FnNumber(b, c)))
  ELSE IF IsNumT(a.t) \/ IsNumT(b.t)                                      \* rule 4a
  THEN OpOn(op, NumOrd(FnNumber(a, c), FnNumber(b, c)))
  ELSE IF a.t = "str" \/ b.t = "str" \/ (a.t = "unt" /\ b.t = "unt")      \* rule 4b
  THEN OpOn(op, Ord(ToStr(a), ToStr(b), c))
  ELSE IF a.t = "unt" \/ b.t = "unt"                                      \* rule 4c
  THEN LET ca == IF a.t = "unt" THEN CastU(a.s, b.t, c) ELSE a
           cb == IF b.t = "unt" THEN CastU(b.s, a.t, c) ELSE b
       IN IF ca.t = "err" THEN ca.code ELSE IF cb.t = "err" THEN cb.code ELSE OpOn(op, Ord(ca, cb, c))
  ELSE OpOn(op, Ord(a, b, c))                                             \* rule 4d
ClosePairs(op, A, B, c) == Close({PairCompat(op, A[p[1]], B[p[2]], c) : p \in Pairs(A, B)})
SingleBool(S) == Len(S) = 1 /\ S[1].t = "bool"
(* rule 1: "if either operand is a single atomic value that is an instance of xs:boolean, then the
   other operand is converted to xs:boolean by taking its effective boolean value" (before atomization) *)
GenCompat(op, L0, R0, c) ==
  IF SingleBool(L0)
  THEN LET e == EBVOf(R0) IN IF IsErrO(e) THEN {e} ELSE ClosePairs(op, L0, <<Bool(e = "TRUE")>>, c)
  ELSE IF SingleBool(R0)
  THEN LET e == EBVOf(L0) IN IF IsErrO(e) THEN {e} ELSE ClosePairs(op, <<Bool(e = "TRUE")>>, R0, c)
  ELSE ClosePairs(op, Atomize(L0), Atomize(R0), c)

(* [X1] XPath 1.0 proper differs from the 2.0 compatibility rules in ONE case: with < <= > >= and
   no node-set operand a boolean is NOT special -- both operands are converted to numbers
   (true() > 0.5 is true in 1.0, false under rule 1 above).  With a node-set operand, or with = !=,
   the other operand is converted with boolean().  Operands of an XPath 1.0 expression are node-sets
   or single numbers / strings / booleans. *)
IsNodeSet(S) == \A i \in 1..Len(S) : S[i].t = "node"
GenXP1(op, L0, R0, c) ==
  IF (SingleBool(L0) \/ SingleBool(R0)) /\ op \in OrderOps /\ ~(SingleBool(L0) /\ IsNodeSet(R0))
     /\ ~(SingleBool(R0) /\ IsNodeSet(L0))
  THEN ClosePairs(op, Atomize(L0), Atomize(R0), c)
  ELSE GenCompat(op, L0, R0, c)

GenAny(op, L0, R0, c) ==
  IF c = "c10" THEN GenXP1(op, L0, R0, c)
  ELSE IF IsCompat(c) THEN GenCompat(op, L0, R0, c)
  ELSE Gen20(op, Atomize(L0), Atomize(R0), c)
HasTime(S) == \E i \in 1..Len(S) : IsTimeT(S[i].t) \/ IsGT(S[i].t)
Result(kind, op, L0, R0) ==
  [c \in Cfgs |-> IF c = "u31" /\ ~HasTime(L0) /\ ~HasTime(R0) THEN {}          \* not replayed: identical to v31
                  ELSE IF kind = "val" THEN ValSeq(op, Atomize(L0), Atomize(R0), c) ELSE GenAny(op, L0, R0, c)]

---------------------------------------------------------------------------
(* the machine *)
NoRes == [c \in Cfgs |-> {}]
Pool == IF Wide THEN SeqItems ELSE SeqItems3
InPool(S) == \A i \in 1..Len(S) : S[i] \in Pool
In3(S) == \A i \in 1..Len(S) : S[i] \in SeqItems3
(* single items range over the whole universe; as soon as one operand has two items both operands
   are drawn from the pool, with three items from SeqItems3 *)
CanAppend(S, other, v) ==
  \/ /\ S = <<>> /\ v \in Items /\ (Len(other) >= 2 => v \in Pool) /\ (Len(other) >= 3 => v \in SeqItems3)
     /\ (Len(other) = 1 => Partner(v, other[1]))
  \/ /\ S # <<>> /\ Len(S) < MaxLen /\ v \in Pool /\ InPool(S) /\ InPool(other)
     /\ (Len(S) >= 2 => (v \in SeqItems3 /\ In3(S) /\ In3(other)))
     /\ (Len(other) >= 3 => (v \in SeqItems3 /\ In3(S)))

Init == lhs = <<>> /\ rhs = <<>> /\ res = NoRes
AppendL(v) == res = NoRes /\ rhs = <<>> /\ CanAppend(lhs, rhs, v) /\ lhs' = Append(lhs, v) /\ UNCHANGED <<rhs, res>>
AppendR(v) == res = NoRes /\ CanAppend(rhs, lhs, v) /\ rhs' = Append(rhs, v) /\ UNCHANGED <<lhs, res>>
Cmp(kind, op) == res = NoRes /\ res' = Result(kind, op, lhs, rhs) /\ lhs' = <<>> /\ rhs' = <<>>

(* LONG OPERANDS.  An existential closure depends only on the SETS of items of its operands
   (invariant InvSetBased), so the permitted outcomes of a comparison of long sequences are derived
   from the item sets without making the long sequences states:  Pad(S, how, k) extends S to k items,
   how = "last": by appending copies of its last item;  how = "nan": by prepending xs:double NaN.
   CmpLong(op, how, kl, kr) is the general comparison  Pad(lhs, how, kl) op Pad(rhs, how, kr).
   Padded operands are never a single boolean, so compatibility rule 1 is not involved. *)
Range(S) == {S[i] : i \in 1..Len(S)}
CloseSet(op, SA, SB, c) ==
  Close({IF IsCompat(c) THEN PairCompat(op, a, b, c) ELSE PairGen(op, a, b, c) : a \in SA, b \in SB})
PadSet(S, how, k) == Range(Atomize(S)) \cup (IF how = "nan" /\ k > Len(S) THEN {DbNaN} ELSE {})
LongPool == {I1, I2, DbNaN, Unt(S_1), Str(S_abc)}
LongLens == {<<5, 4>>, <<8, 8>>, <<17, 1>>, <<1, 17>>}        \* more than 16 pairs each
LongOK(S) == S # <<>> /\ Len(S) <= 2 /\ \A i \in 1..Len(S) : S[i] \in LongPool
CmpLong(op, how, kl, kr) ==
  /\ res = NoRes /\ LongOK(lhs) /\ LongOK(rhs)
  /\ res' = [c \in Cfgs |-> CloseSet(op, PadSet(lhs, how, kl), PadSet(rhs, how, kr), c)]
  /\ lhs' = <<>> /\ rhs' = <<>>
Next == \/ \E v \in Items : AppendL(v) \/ AppendR(v)
        \/ \E kind \in {"val", "gen"}, op \in Ops : Cmp(kind, op)
        \/ \E op \in Ops, how \in {"last", "nan"}, ks \in LongLens : CmpLong(op, how, ks[1], ks[2])
Spec == Init /\ [][Next]_vars

---------------------------------------------------------------------------
(* LAWS OF THE VALUE COMPARISON TABLE over all atomic values of the universe (state independent:
   evaluated once, as ASSUME).  "Defined" = the operator mapping has an entry. *)
VCfgs == {"v20", "v31", "u31"}
Bo(o) == o \in {"TRUE", "FALSE"}
Involves(a) == IsNumT(a.t) /\ IsNaN(a)
LawNeIsNotEq ==      \* ne = not eq, errors coincide
  \A a \in AllAtoms, b \in AllAtoms, c \in VCfgs : Val("ne", a, b, c) = NotOut(Val("eq", a, b, c))
LawConverse ==       \* a lt b = b gt a, a le b = b ge a, eq/ne symmetric, type errors symmetric
  \A a \in AllAtoms, b \in AllAtoms, c \in VCfgs :
     /\ Val("lt", a, b, c) = Val("gt", b, a, c) /\ Val("le", a, b, c) = Val("ge", b, a, c)
     /\ Val("eq", a, b, c) = Val("eq", b, a, c) /\ Val("ne", a, b, c) = Val("ne", b, a, c)
LawReflexive ==      \* a eq a, a le a -- except NaN, which is unequal to everything, itself included
  \A a \in AllAtoms, c \in VCfgs :
     IF Involves(a)
     THEN /\ \A b \in Numerics : /\ Val("eq", a, b, c) = "FALSE" /\ Val("ne", a, b, c) = "TRUE"
                                 /\ \A op \in OrderOps : Val(op, a, b, c) = "FALSE" /\ Val(op, b, a, c) = "FALSE"
     ELSE /\ Val("eq", a, a, c) = "TRUE" /\ Val("ne", a, a, c) = "FALSE"
          /\ (Bo(Val("le", a, a, c)) => (Val("le", a, a, c) = "TRUE" /\ Val("lt", a, a, c) = "FALSE"))
LawTotal ==          \* where lt is defined and no NaN is involved exactly one of lt, eq, gt holds; le = lt or eq
  \A a \in AllAtoms, b \in AllAtoms, c \in VCfgs :
     (Bo(Val("lt", a, b, c)) /\ ~Involves(a) /\ ~Involves(b)) =>
        /\ Cardinality({op \in {"lt", "eq", "gt"} : Val(op, a, b, c) = "TRUE"}) = 1
        /\ (Val("le", a, b, c) = "TRUE") = (Val("lt", a, b, c) = "TRUE" \/ Val("eq", a, b, c) = "TRUE")
        /\ (Val("ge", a, b, c) = "TRUE") = (Val("gt", a, b, c) = "TRUE" \/ Val("eq", a, b, c) = "TRUE")
LawAntisymmetric ==
  \A a \in AllAtoms, b \in AllAtoms, c \in VCfgs :
     (Val("le", a, b, c) = "TRUE" /\ Val("le", b, a, c) = "TRUE") => Val("eq", a, b, c) = "TRUE"
LawTransitive ==     \* le and eq are transitive, also across promoted types (1, 1.0, xs:float 1, 1e0; string/anyURI/untyped)
  \A a \in AllAtoms, b \in AllAtoms, c \in VCfgs :
     (Val("le", a, b, c) = "TRUE" \/ Val("eq", a, b, c) = "TRUE") =>
        \A d \in AllAtoms :
           /\ (Val("le", a, b, c) = "TRUE" /\ Val("le", b, d, c) = "TRUE") => Val("le", a, d, c) = "TRUE"
           /\ (Val("eq", a, b, c) = "TRUE" /\ Val("eq", b, d, c) = "TRUE") => Val("eq", a, d, c) = "TRUE"
           /\ (Val("lt", a, b, c) = "TRUE" /\ Val("le", b, d, c) = "TRUE") => Val("lt", a, d, c) = "TRUE"
TypeClass(a) ==      \* the comparable families of [B2] after promotion and the untypedAtomic -> string cast
  IF IsNumT(a.t) THEN "numeric" ELSE IF IsStrT(a.t) THEN "string" ELSE IF IsDurT(a.t) THEN "duration" ELSE a.t
LawTypeError ==      \* XPTY0004 exactly for different families, or for an operator without entry
  \A a \in AllAtoms, b \in AllAtoms, c \in VCfgs :
     /\ (TypeClass(a) # TypeClass(b)) => \A op \in Ops : Val(op, a, b, c) = "XPTY0004"
     /\ (TypeClass(a) = TypeClass(b)) => (Bo(Val("eq", a, b, c)) /\ Bo(Val("ne", a, b, c)))
     /\ ((a.t = "qn" /\ b.t = "qn") \/ (a.t = b.t /\ IsGT(a.t))) => \A op \in OrderOps : Val(op, a, b, c) = "XPTY0004"
     /\ (IsDurT(a.t) /\ IsDurT(b.t) /\ ~(a.t = b.t /\ a.t # "dur")) => \A op \in OrderOps : Val(op, a, b, c) = "XPTY0004"
     /\ (a.t = b.t /\ a.t \in {"hex", "b64"}) => \A op \in OrderOps : (Val(op, a, b, c) = "XPTY0004") = (c = "v20")
LawTimeline ==       \* the order of date/time values is the order of the instants: equal instants written with
  \A a \in AllAtoms, b \in AllAtoms, c \in VCfgs :          \* different timezones are eq, and le both ways implies eq
     (a.t = b.t /\ (IsTimeT(a.t) \/ IsGT(a.t))) =>
        /\ (Val("eq", a, b, c) = "TRUE") = (TKey(a, c) = TKey(b, c))
        /\ IsTimeT(a.t) => (Val("lt", a, b, c) = "TRUE") = (TKey(a, c)[1] < TKey(b, c)[1] \/ (TKey(a, c)[1] = TKey(b, c)[1] /\ TKey(a, c)[2] < TKey(b, c)[2]))
LawWhitespace ==     \* a cast of an untypedAtomic ignores surrounding white space; the string comparison does not
  \A u \in WsUntypeds, p \in WsPartners, op \in Ops, c \in {"v20", "v31"} :
     /\ Collapse(u.s) # u.s /\ Collapse(Collapse(u.s)) = Collapse(u.s)
     /\ (p.t \notin {"str", "unt"}) => PairGen(op, u, p, c) = PairGen(op, Unt(Collapse(u.s)), p, c)
     /\ Val("eq", u, Str(Collapse(u.s)), c) = "FALSE" /\ PairGen("eq", u, Unt(Collapse(u.s)), c) = "FALSE"
     /\ Val("eq", u, Str(u.s), c) = "TRUE"
ValueLaws == LawNeIsNotEq /\ LawConverse /\ LawReflexive /\ LawTotal /\ LawAntisymmetric /\ LawTransitive /\ LawTypeError
             /\ LawTimeline
ASSUME ValueLaws

(* LAWS OF THE GENERAL COMPARISON, invariants over every reachable operand pair *)
Conv2(op, a, b, c) ==    \* the pair outcome expressed through the VALUE comparison of the converted operands
  LET ca == Conv(a, b, c)  cb == Conv(b, a, c)
  IN IF ca.t = "err" \/ cb.t = "err" THEN "ERR" ELSE Val(op, ca, cb, c)
Building == res = NoRes
InvExistential ==        \* "true exactly when some pair (a, b) satisfies the corresponding value comparison"
  Building => \A op \in Ops, c \in {"v20", "v30", "v31"} :
     LET A == Atomize(lhs)  B == Atomize(rhs)  G == Gen20(op, A, B, c) IN
       /\ ("UNSPEC" \notin G) => ("TRUE" \in G) = (\E p \in Pairs(A, B) : Conv2(op, A[p[1]], B[p[2]], c) = "TRUE")
       /\ (G = {"FALSE"}) = (\A p \in Pairs(A, B) : Conv2(op, A[p[1]], B[p[2]], c) = "FALSE")
       /\ G # {} /\ "EMPTY" \notin G
       /\ (A = <<>> \/ B = <<>>) => G = {"FALSE"}
InvIterAdmissible ==
  Building => \A op \in Ops, c \in {"v20", "v31"} :
     LET G == Gen20(op, Atomize(lhs), Atomize(rhs), c)
     IN "UNSPEC" \in G \/ IterFrom(op, Atomize(lhs), Atomize(rhs), c, 0) \in G
Flip(op) == CASE op = "lt" -> "gt" [] op = "gt" -> "lt" [] op = "le" -> "ge" [] op = "ge" -> "le" [] OTHER -> op
InvConverse ==           \* A < B  =  B > A ;  = and != are symmetric -- in every mode
  Building => \A op \in Ops, c \in {"v31", "c20", "c10"} : GenAny(op, lhs, rhs, c) = GenAny(Flip(op), rhs, lhs, c)
InvMonotone ==           \* an existential closure can only gain `true` when an operand grows
  Building => \A op \in Ops, c \in {"v20", "c20"}, v \in {I2, Unt(S_abc), Bool(TRUE)} :
     ("TRUE" \in GenAny(op, lhs, rhs, c) /\ ~SingleBool(lhs) /\ ~SingleBool(rhs) /\ Len(lhs) = 1)
        => GenAny(op, Append(lhs, v), rhs, c) \cap {"TRUE", "UNSPEC"} # {}
AllNum(S) == \A i \in 1..Len(S) : IsNumT(S[i].t)
InvModesAgree ==         \* on numbers the 1.0 rules and the 2.0 rules coincide; 1.0 = compatibility mode unless a boolean meets < <= > >=
  Building => \A op \in Ops :
     /\ (AllNum(lhs) /\ AllNum(rhs)) => /\ GenAny(op, lhs, rhs, "c20") = GenAny(op, lhs, rhs, "v20")
                                        /\ GenAny(op, lhs, rhs, "c10") = GenAny(op, lhs, rhs, "v20")
     /\ (~SingleBool(lhs) /\ ~SingleBool(rhs)) => GenAny(op, lhs, rhs, "c10") = GenAny(op, lhs, rhs, "c20")
     /\ (SingleBool(lhs) /\ op = "eq" /\ ~IsErrO(EBVOf(rhs))) => GenAny(op, lhs, rhs, "c20") = {B2O(EBVOf(rhs) = B2O(lhs[1].b))}
InvValue ==              \* value comparison of operands that are not singletons
  Building => \A op \in Ops, c \in {"v20", "v31"} :
     LET V == ValSeq(op, Atomize(lhs), Atomize(rhs), c) IN
       /\ (Len(lhs) = 1 /\ Len(rhs) = 1) => V = {Val(op, Atomize(lhs)[1], Atomize(rhs)[1], c)}
       /\ ("EMPTY" \in V) = (lhs = <<>> \/ rhs = <<>>)
       /\ (Len(lhs) = 1 /\ Len(rhs) = 1 /\ lhs[1].t # "unt" /\ rhs[1].t # "unt" /\ lhs[1].t # "node" /\ rhs[1].t # "node")
             => Gen20(op, lhs, rhs, c) = V        \* typed singletons: general = value comparison
InvSetBased ==           \* the closure sees only the sets of items: duplicates and order are irrelevant,
  Building => \A op \in Ops :                    \* and an added NaN never makes < <= > >= = true
     /\ Gen20(op, Atomize(lhs), Atomize(rhs), "v20") = CloseSet(op, Range(Atomize(lhs)), Range(Atomize(rhs)), "v20")
     /\ (~SingleBool(lhs) /\ ~SingleBool(rhs)) =>
           GenCompat(op, lhs, rhs, "c20") = CloseSet(op, Range(Atomize(lhs)), Range(Atomize(rhs)), "c20")
     /\ (LongOK(lhs) /\ LongOK(rhs) /\ op # "ne") =>
           \A c \in {"v20", "c20"} :
              LET plain == CloseSet(op, PadSet(lhs, "last", 17), PadSet(rhs, "last", 17), c)
                  nan   == CloseSet(op, PadSet(lhs, "nan", 17), PadSet(rhs, "nan", 17), c)
              IN /\ ("TRUE" \in nan) = ("TRUE" \in plain)
                 /\ plain = GenAny(op, lhs, rhs, c) \/ SingleBool(lhs) \/ SingleBool(rhs)
ASSUME LawWhitespace
GeneralLaws == InvExistential /\ InvIterAdmissible /\ InvConverse /\ InvMonotone /\ InvModesAgree /\ InvValue /\ InvSetBased
=============================================================================
