------------------------------- MODULE Pratt -------------------------------
(***************************************************************************)
(* Step machine of the top-down operator-precedence parser of elementpath  *)
(* (property C04), refining spec/Grammar.tla.                              *)
(*                                                                         *)
(* The code (elementpath/tdop.py, Parser.expression):                      *)
(*                                                                         *)
(*     def expression(self, rbp=0):                                        *)
(*         self.advance()                                                  *)
(*         left = self.token.nud()                                         *)
(*         while rbp < self.next_token.lbp:                                *)
(*             self.advance()                                              *)
(*             left = self.token.led(left)                                 *)
(*         return left                                                     *)
(*                                                                         *)
(* nud() of a prefix operator / bracket and led() of an infix operator /   *)
(* predicate call expression(bp) recursively; the recursion is made        *)
(* explicit here as a stack of FRAMES, one per active call of expression():*)
(*   rbp    the argument of the call                                       *)
(*   left   the tree built so far ("" before nud ran), lsym its root token *)
(*   k      what the caller does with the result: "top" parse() itself,    *)
(*          "pre" prefix nud, "bin" infix led, "(" "f(" "[" "c(" a bracket *)
(*          that must be closed after the inner expression, "if(" "then"   *)
(*          "for" "let" "some" "every" a slot of a keyword expression that *)
(*          is closed by ") then" / "else" / "return" / "satisfies",       *)
(*          "body" its last slot                                           *)
(*   kop    the operator token of the caller, kpos its position, kleft its *)
(*          left operand                                                   *)
(* Actions: Nud (Advance + nud), Led (LoopTest true: Advance + led),       *)
(* Return (LoopTest false: the call returns into its caller).              *)
(*                                                                         *)
(* The machine is parameterised by a binding-power TABLE and a set of      *)
(* GUARDS (the syntax checks of individual nud/led methods):               *)
(*                                                                         *)
(*  Mode = "ref"   the reference design: lbp = rbp = EBNF level of the     *)
(*     operator, and generic guards                                        *)
(*       led(op, left) rejects a left operand whose (unparenthesised) root *)
(*          operator has a lower level than op, or the same level when the *)
(*          level is non-associative                                       *)
(*       nud(prefix) rejects when the enclosing rbp is above its level     *)
(*       a path operator wants a step behind it                            *)
(*     TLC checks  PrattTree = GrammarTree  for every sentence (Refines).  *)
(*     The error text names the guard and the operator pair, e.g.          *)
(*     "ERR:led-guard >> <<"  (led of '>>' met a left operand '<<').        *)
(*                                                                         *)
(*  Mode = "impl"  the algorithm as implemented: lbp / rbp of every symbol *)
(*     EXPORTED at check time from the live symbol_table of each parser    *)
(*     class (module ImplBP, generated), the literals rbp=70 of the unary  *)
(*     nud, 75 of the leading '/' nud, 67 of the arrow led, and the guards *)
(*     transcribed from the custom nud()/led() methods:                    *)
(*       _xpath1_operators.py  led__comparison_operators: left.symbol in   *)
(*          OPERATORS_MAP (= != < > <= >=)  -> wrong_syntax                *)
(*       _xpath2_operators.py  led__value_comparison_operators: left in    *)
(*          (eq ne lt le gt ge); led__node_comparison: left is 'is';       *)
(*          led__range_expression: left is 'to'                            *)
(*       led__child_or_descendant_path / nud__child_path: left must be a   *)
(*          step / path / predicate / primary, the next token must start a *)
(*          step                                                           *)
(*       parse_sequence_type swallows + * ? after 'instance of'/'treat as' *)
(*       led__cast_expressions swallows '?'; led__arrow_operator requires  *)
(*          the argument list parsed by expression(67) to be a plain '('   *)
(*     Every disagreement with GrammarTree is printed ("cx") and confirmed *)
(*     through the real parser by the harness before it is reported.       *)
(*                                                                         *)
(* Source = "gen": the sentences are generated by the machine itself       *)
(* (phase "gen": one action per appended token, following the automaton of *)
(* Grammar.tla), so TLC enumerates all of them in parallel.                *)
(* Source = "given": the sentences of module GivenSeqs (generated: token   *)
(* sequences recorded from the parses of the repository's test-suite).     *)
(***************************************************************************)
EXTENDS Grammar, ImplBP, GivenSeqs

CONSTANTS Versions,     \* subset of AllVersions
          Alphabet,     \* tokens used (intersected with the version's table)
          MaxOps,       \* operators per sentence
          MaxGroups,    \* "(" / "f(" groups per sentence
          Mode,         \* "ref" | "impl"
          Source,       \* "gen" | "given"
          BareGroups,   \* TRUE: "(a)" and "((a))" are generated too
          Emit          \* TRUE: print <<"vec", ver, toks, result>> for every sentence

VARIABLES ver, toks, phase, gen, pos, stack, result
vars == <<ver, toks, phase, gen, pos, stack, result>>

ASSUME Emit => PrintT(<<"needsep", NeedSep>>)
ASSUME Emit => PrintT(<<"layouts", [v \in AllVersions |-> Layouts(v)]>>)
ASSUME Emit => PrintT(<<"seqtypes", SeqTypes>>)
ASSUME LayoutsOK

(* ---- tables -------------------------------------------------------------- *)
ImplPrefixRBP == 70      \* nud__plus_minus_operators: self.parser.expression(rbp=70)
ImplRootRBP   == 75      \* nud__child_path / nud__descendant_path: self.parser.expression(75)
ImplArrowRBP  == 67      \* led__arrow_operator: right = self.parser.expression(67)
ImplSlotRBP   == 5       \* nud__if_expression, nud__for_expression, ...: self.parser.expression(5) in every slot

LBP(v, s) == IF s \notin Operators THEN 0                \* names, closing brackets, (end)
             ELSE IF Mode = "ref" THEN Level(v, s) ELSE ImplLBP[v][s]
LedRBP(v, s) == IF Mode = "ref" THEN Level(v, s) ELSE ImplRBP[v][s]
PreRBP(v, s) == IF Mode = "ref" THEN Level(v, s)
                ELSE IF s \in RootOps THEN ImplRootRBP ELSE ImplPrefixRBP

(* rbp of the slots of a keyword expression: the test of 'if' is an Expr, every other slot an ExprSingle *)
SlotRBP(v, first, kw) == IF Mode = "ref" THEN (IF first /\ kw = "if(" THEN 0 ELSE Level(v, ","))
                         ELSE ImplSlotRBP

(* ---- guards --------------------------------------------------------------- *)
PathLeftOK(v) == IF v = "1.0" THEN {"x", "/", "//", "root/", "root//", "["}
                 ELSE {"x", "/", "//", "root/", "root//", "[", "(", "f(", "c("}
StepStart(v)  == IF v = "1.0" THEN {"x"} ELSE {"x", "(", "f("}

LedRejects(v, op, lsym, after) ==
  IF Mode = "ref" THEN
       \/ /\ lsym \in Operators
          /\ \/ Level(v, lsym) < Level(v, op)
             \/ Level(v, lsym) = Level(v, op) /\ Assoc(v, op) = "N"
       \/ op \in PathOps /\ (after \in RootOps \/ (v = "1.0" /\ after # "x"))
  ELSE \/ op \in GeneralComp /\ lsym \in GeneralComp
       \/ op \in ValueComp /\ lsym \in ValueComp
       \/ op = "is" /\ lsym = "is"
       \/ op = "to" /\ lsym = "to"
       \/ op \in PathOps /\ (lsym \notin PathLeftOK(v) \/ after \notin StepStart(v))
       \/ op = "=>" /\ LBP(v, after) > ImplArrowRBP
       \/ op \in {"cast", "castable"} /\ after = "?"

NudRejects(v, rbp, op, after) ==
  IF Mode = "ref" THEN rbp > Level(v, op) \/ (op \in RootOps /\ v = "1.0" /\ after # "x")
  ELSE op \in RootOps /\ after \notin StepStart(v)       \* the keyword nud()s have no guard

(* ---- generation phase ------------------------------------------------------ *)
GenTok ==
  /\ phase = "gen" /\ Source = "gen"
  /\ \E s \in GenExt(gen, Alphabet \cap InVersion(ver), MaxOps, MaxGroups, BareGroups) :
        /\ gen' = s
        /\ toks' = s.t
  /\ UNCHANGED <<ver, phase, pos, stack, result>>

Frame(rbp, k, kop, kpos, kleft) ==
  [rbp |-> rbp, left |-> "", lsym |-> "", k |-> k, kop |-> kop, kpos |-> kpos, kleft |-> kleft]

Finish(r) == /\ phase' = "done" /\ result' = r /\ stack' = <<>>
             /\ (Emit => PrintT(<<"vec", ver, toks, r>>))
             /\ UNCHANGED <<ver, toks, gen, pos>>
Fail(why) == Finish("ERR:" \o why)

Begin ==     \* Parser.parse(): self.advance(); root_token = self.expression()
  /\ phase = "gen" /\ (Source = "given" \/ GenComplete(gen))
  /\ IF \E k \in 1..Len(toks) : toks[k] \notin InVersion(ver) \cup Closes \cup {"x"}
     THEN Fail("not-in-version")         \* the symbol is not in the symbol table of this parser class
     ELSE /\ phase' = "parse"
          /\ stack' = <<Frame(0, "top", "", 0, "")>>
          /\ pos' = 1
          /\ UNCHANGED <<ver, toks, gen, result>>

(* ---- parsing phase ---------------------------------------------------------- *)
Top      == stack[Len(stack)]
NextTok  == IF pos <= Len(toks) THEN toks[pos] ELSE "(end)"
After    == IF pos + 1 <= Len(toks) THEN toks[pos + 1] ELSE "(end)"
SetTop(f) == [stack EXCEPT ![Len(stack)] = f]
Push(f)   == Append(stack, f)
Pop       == SubSeq(stack, 1, Len(stack) - 1)

LoopTest == Top.rbp < LBP(ver, NextTok)         \* while rbp < self.next_token.lbp

Nud ==
  /\ phase = "parse" /\ Top.left = ""
  /\ LET tok == NextTok IN
     IF tok \in Operands THEN          \* a name test / variable, or a unary lookup (its key is parsed by expression(85))
          /\ stack' = SetTop([Top EXCEPT !.left = Leaf(toks, pos), !.lsym = tok])
          /\ pos' = pos + 1 /\ UNCHANGED <<ver, toks, phase, gen, result>>
     ELSE IF tok \in PreOps THEN
          IF NudRejects(ver, Top.rbp, tok, After)
          THEN Fail("prefix-guard " \o tok \o " " \o (IF Top.kop = "" THEN "(start)" ELSE Top.kop))
          ELSE /\ stack' = Push(Frame(PreRBP(ver, tok), "pre", tok, pos, ""))
               /\ pos' = pos + 1 /\ UNCHANGED <<ver, toks, phase, gen, result>>
     ELSE IF tok \in GOpens THEN        \* nud of '(' / of a function: expression() up to ')'
          /\ stack' = Push(Frame(0, tok, tok, pos, ""))
          /\ pos' = pos + 1 /\ UNCHANGED <<ver, toks, phase, gen, result>>
     ELSE IF tok \in KwOps THEN         \* nud of if / for / let / some / every: the first slot
          IF NudRejects(ver, Top.rbp, tok, After)
          THEN Fail("prefix-guard " \o tok \o " " \o (IF Top.kop = "" THEN "(start)" ELSE Top.kop))
          ELSE /\ stack' = Push(Frame(SlotRBP(ver, TRUE, tok), tok, tok, pos, ""))
               /\ pos' = pos + 1 /\ UNCHANGED <<ver, toks, phase, gen, result>>
     ELSE Fail("no-nud " \o tok)        \* an infix operator, a closing bracket or the end where an operand is due

Led ==
  /\ phase = "parse" /\ Top.left # "" /\ LoopTest
  /\ LET op == NextTok  f == Top IN
     IF LedRejects(ver, op, f.lsym, After) THEN Fail("led-guard " \o op \o " " \o f.lsym)
     ELSE IF op \in BinOps THEN           \* self[:] = left, self.parser.expression(rbp=bp)
          /\ stack' = Push(Frame(LedRBP(ver, op), "bin", op, pos, f.left))
          /\ pos' = pos + 1 /\ UNCHANGED <<ver, toks, phase, gen, result>>
     ELSE IF op \in POpens THEN           \* predicate / argument list: expression() up to the closing bracket
          /\ stack' = Push(Frame(0, op, op, pos, f.left))
          /\ pos' = pos + 1 /\ UNCHANGED <<ver, toks, phase, gen, result>>
     ELSE IF op \in {"instance", "treat"} /\ After \in {"+", "*", "?"}
          THEN Fail("occurrence-indicator " \o op \o " " \o After)   \* the sequence type took it; the operand behind dangles
     ELSE /\ stack' = SetTop([f EXCEPT !.left = PostNode(toks, pos, f.left), !.lsym = op])
          /\ pos' = pos + 1 /\ UNCHANGED <<ver, toks, phase, gen, result>>

Return ==
  /\ phase = "parse" /\ Top.left # "" /\ ~LoopTest
  /\ LET f == Top IN
     IF f.k = "top" THEN                                   \* self.next_token.expected('(end)')
          IF pos = Len(toks) + 1 THEN Finish(f.left) ELSE Fail("trailing-token " \o NextTok)
     ELSE IF f.k = "pre" THEN
          /\ stack' = [Pop EXCEPT ![Len(stack) - 1] = [@ EXCEPT !.left = Node1(f.kop, f.left), !.lsym = f.kop]]
          /\ UNCHANGED <<ver, toks, phase, gen, result, pos>>
     ELSE IF f.k = "body" THEN          \* the last slot of a keyword expression: not bracketed
          /\ stack' = [Pop EXCEPT ![Len(stack) - 1] =
                [@ EXCEPT !.lsym = f.kop,
                          !.left = IF IsErr(f.left) THEN f.left ELSE "(" \o KwSym(f.kop) \o " " \o f.kleft \o " " \o f.left \o ")"]]
          /\ UNCHANGED <<ver, toks, phase, gen, result, pos>>
     ELSE IF f.k \in KwOps \cup {"then"} THEN     \* self.parser.advance(')') advance('then') / ('else') / ('return') ...
          IF NextTok # CloseOf(f.k) \/ (f.k = "if(" /\ After # "then")
          THEN Fail("bracket-not-closed " \o f.k)
          ELSE LET var  == "(V" \o Ord(toks, f.kpos, KwOps \ {"if("}) \o ")"
                   sofar == IF f.k = "if(" THEN f.left
                            ELSE IF f.k = "then" THEN f.kleft \o " " \o f.left
                            ELSE var \o " " \o f.left
               IN /\ pos' = pos + (IF f.k = "if(" THEN 2 ELSE 1)
                  /\ stack' = Append(Pop, [Frame(SlotRBP(ver, FALSE, f.kop), IF f.k = "if(" THEN "then" ELSE "body",
                                                 f.kop, f.kpos, sofar) EXCEPT !.left = ""])
                  /\ UNCHANGED <<ver, toks, phase, gen, result>>
     ELSE IF f.k = "bin" THEN
          /\ stack' = [Pop EXCEPT ![Len(stack) - 1] = [@ EXCEPT !.left = Node2(f.kop, f.kleft, f.left), !.lsym = f.kop]]
          /\ UNCHANGED <<ver, toks, phase, gen, result, pos>>
     ELSE IF NextTok # CloseOf(f.k) THEN Fail("bracket-not-closed " \o f.k)       \* self.parser.advance(')')
     ELSE /\ pos' = pos + 1
          /\ stack' = [Pop EXCEPT ![Len(stack) - 1] =
                [@ EXCEPT !.lsym = f.k,
                          !.left = CASE f.k = "("  -> f.left
                                     [] f.k = "f(" -> FuncNode(toks, f.kpos, f.left)
                                     [] f.k = "["  -> Node2("[", f.kleft, f.left)
                                     [] OTHER      -> CallNode(f.kleft, f.left)]]
          /\ UNCHANGED <<ver, toks, phase, gen, result>>

Init == /\ phase = "gen" /\ gen = GenInit
        /\ pos = 0 /\ stack = <<>> /\ result = ""
        /\ IF Source = "gen"
           THEN ver \in Versions /\ toks = <<>>
           ELSE \E p \in Given : ver = p[1] /\ toks = p[2]

Next == GenTok \/ Begin \/ Nud \/ Led \/ Return

Spec == Init /\ [][Next]_vars

(* ---- what TLC decides ------------------------------------------------------- *)
TypeOK == /\ ver \in AllVersions
          /\ phase \in {"gen", "parse", "done"}
          /\ phase = "parse" => Len(stack) >= 1 /\ pos \in 1..(Len(toks) + 1)
          /\ \A i \in 1..Len(stack) : stack[i].k \in {"top", "pre", "bin", "body"} \cup Opens

Same(a, b) == IF IsErr(a) \/ IsErr(b) THEN IsErr(a) /\ IsErr(b) ELSE a = b

(* the refinement statement: the tree produced by the Pratt loop with this    *)
(* table = the grouping prescribed by the EBNF levels (errors as errors)      *)
Refines == phase = "done" => Same(result, GrammarTree(ver, toks))

(* same statement, but every counterexample is printed and checking goes on   *)
RefinesLogged ==
  phase = "done" =>
     LET g == GrammarTree(ver, toks) IN
       Same(result, g) \/ PrintT(<<"cx", ver, toks, result, g>>)

(* laws of the definition, on every generated sentence *)
GrammarLaws == phase = "done" => ParenNeutral(ver, toks) /\ LeavesComplete(ver, toks)

(* the stack discipline of expression(): parse() calls it with rbp 0, brackets reset it to 0 *)
StackShape == phase = "parse" =>
  /\ stack[1].k = "top" /\ stack[1].rbp = 0
  /\ \A i \in 2..Len(stack) : stack[i].k \in POpens \cup GOpens => stack[i].rbp = 0
=============================================================================
