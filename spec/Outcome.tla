------------------------------ MODULE Outcome ------------------------------
(***************************************************************************)
(* Property C03: the observable outcome classes of one public call         *)
(* (parser.parse(src), token.evaluate(ctx), token.get_results(ctx), ...).  *)
(*                                                                         *)
(* An outcome is a record  [k, coded, v] :                                 *)
(*   k     - "value"    the call returned (a token tree / a value)         *)
(*           "err"      an ElementPathError subclass was raised            *)
(*           "escaped"  any other exception type left the call             *)
(*                      (TypeError, AttributeError, AssertionError,        *)
(*                      IndexError, RecursionError, decimal/locale errors) *)
(*           "hang"     the call did not come back (10 s watchdog)         *)
(*   coded - the raised ElementPathError carries an XPath/XQuery error     *)
(*           code (err:XPST0003, err:XPTY0004, a user QName of fn:error)   *)
(*   v     - opaque identity of the outcome (tree text / error code /      *)
(*           exception class); only compared for equality                  *)
(*                                                                         *)
(* The property: parsing either returns a tree or raises a CODED           *)
(* ElementPathError; evaluation either returns a value or raises an        *)
(* ElementPathError.  "escaped" and "hang" are legal in no behaviour.      *)
(* Error codes themselves are not compared (the property names none).      *)
(***************************************************************************)

OutcomeKinds == {"value", "err", "escaped", "hang"}

Phases == {"parse", "eval"}

LegalParse(o) == \/ o.k = "value"
                 \/ o.k = "err" /\ o.coded

LegalEval(o) == o.k \in {"value", "err"}

Legal(phase, o) == IF phase = "parse" THEN LegalParse(o) ELSE LegalEval(o)

(* The finite set of outcome SHAPES (identity v abstracted away).  TLC    *)
(* prints LegalShapes(phase); the harness projects every real outcome to *)
(* a shape and tests membership in the printed set.                      *)
Shapes == [k : {"value"}, coded : {FALSE}]
            \cup [k : {"err"}, coded : BOOLEAN]
            \cup [k : {"escaped", "hang"}, coded : {FALSE}]

LegalShapes(phase) == {o \in Shapes : Legal(phase, o)}

(* Laws of the outcome algebra (checked by TLC as ASSUME in Tokens.tla)   *)
OutcomeLaws ==
  /\ \A o \in Shapes : o.k \in {"escaped", "hang"} => \A ph \in Phases : ~Legal(ph, o)
  /\ \A o \in Shapes : LegalParse(o) => LegalEval(o)        \* parsing is the stricter contract
  /\ \A ph \in Phases : \E o \in LegalShapes(ph) : o.k = "value"
  /\ \A ph \in Phases : \E o \in LegalShapes(ph) : o.k = "err"
  /\ [k |-> "err", coded |-> FALSE] \notin LegalShapes("parse")
=============================================================================
