------------------------------ MODULE Grammar ------------------------------
(***************************************************************************)
(* The operator grammar of XPath 1.0 / 2.0 / 3.0 / 3.1 (property C04).     *)
(*                                                                         *)
(* DEFINITIONAL part only: which operator belongs to which EBNF level of   *)
(* the W3C grammar, the associativity of each level, and the DECLARATIVE   *)
(* grouping GrammarTree(v, t) of a flat token sequence t.  Nothing in this *)
(* module knows about binding powers or about the Pratt algorithm          *)
(* (spec/Pratt.tla refines it).                                            *)
(*                                                                         *)
(* Abstract tokens (strings; the surface lexeme wherever possible):        *)
(*   "x"                 an operand (name test a..e, or variable $a..$e)   *)
(*   "u?"                an operand: unary lookup ?key / ?1 / ?* / ?(e) (3.1, a PrimaryExpr) *)
(*   "(" ")"             parenthesised expression                          *)
(*   "f("  ")"           static function call with one argument            *)
(*   "["  "]"            predicate (postfix, with an inner expression)     *)
(*   "c("  ")"           dynamic function call (postfix ArgumentList, 3.0+)*)
(*   "?"                 postfix lookup with an NCName key          (3.1)  *)
(*   "neg" "pos"         unary minus / plus                                *)
(*   "root/" "root//"    the leading '/' and '//' of an absolute path      *)
(*   "instance" "treat" "castable" "cast"   the operator WITH its type     *)
(*                       operand (instance of T, treat as T, ...)          *)
(*   "=>"                arrow operator WITH function name and an empty    *)
(*                       argument list                              (3.1)  *)
(*   "if(" ")" "then" "else"    if (E) then E1 else E2              (2.0+) *)
(*   "for" "return"  "let" "return"  "some" "satisfies"  "every" ..        *)
(*                       for $v in E return E1, let $v := E return E1 (3.0)*)
(*                       some / every $v in E satisfies E1  -- the opening *)
(*                       token carries the variable binding                *)
(*   every other token is a binary infix operator, spelled as in XPath     *)
(*                                                                         *)
(* Levels are the productions of the W3C EBNF in the order they nest       *)
(* (XPath 3.1 section A.1, [6] Expr, [16] OrExpr .. [49] PostfixExpr;      *)
(* XPath 1.0 section 3: [21] OrExpr .. [27] UnaryExpr, [18] UnionExpr,     *)
(* [19] PathExpr, [20] FilterExpr):                                        *)
(*                                                                         *)
(*   5 ',' | 7 if for let some every (ExprSingle) | 10 or | 20 and |      *)
(*   30 comparison | 40 '||' | 50 to | 60 + - |                            *)
(*   70 mul div idiv mod | 80 union '|' | 90 intersect except |            *)
(*   100 instance of | 110 treat as | 120 castable as | 130 cast as |      *)
(*   140 '=>' | 150 unary - + | 160 '!' | 170 / // | 175 leading / // |    *)
(*   180 [ ] ( ) ?                                                         *)
(*                                                                         *)
(* XPath 1.0 differs: '=' '!=' (EqualityExpr, 30) and '<' '<=' '>' '>='    *)
(* (RelationalExpr, 35) are two LEFT-associative levels, UnaryExpr (75)    *)
(* sits between MultiplicativeExpr and UnionExpr, and what follows a '/'   *)
(* is a Step (a node test with predicates), never a primary expression.    *)
(*                                                                         *)
(* A leading '/' abbreviates the initial step  fn:root(self::node()) treat *)
(* as document-node()  followed by '/' (XPath 2.0 3.2): "/a/b" groups as   *)
(* ((root/a)/b), so "root/" is a prefix operator on the FIRST step only,   *)
(* level 175.  A '/' that is not followed by a step is a lone '/' (xgc:    *)
(* leading-lone-slash): outside this fragment, never generated.            *)
(*                                                                         *)
(* Trees are S-expression strings in the notation of elementpath's         *)
(* Token.tree: "(+ (x1) (div (x2) (x3)))"; the n-th operand of the sentence *)
(* is "(x<n>)"; the n-th type operand is "(T<n>)", the n-th arrow function *)
(* "(F<n>) ()", lookup key "(K<n>)", function name "f<n>".  Parentheses    *)
(* leave no trace in a tree.  Errors (the sentence is not in the language) *)
(* are strings starting with "ERR:" followed by the violated rule.         *)
(***************************************************************************)
EXTENDS Naturals, Sequences, FiniteSets, TLC

AllVersions == {"1.0", "2.0", "3.0", "3.1"}

GeneralComp == {"=", "!=", "<", "<=", ">", ">="}
ValueComp   == {"eq", "ne", "lt", "le", "gt", "ge"}
NodeComp    == {"is", "<<", ">>"}
PathOps     == {"/", "//"}

BinOps  == {",", "or", "and"} \cup GeneralComp \cup ValueComp \cup NodeComp \cup
           {"||", "to", "+", "-", "*", "div", "idiv", "mod", "union", "|",
            "intersect", "except", "!"} \cup PathOps
RootOps == {"root/", "root//"}
KwOps   == {"if(", "for", "let", "some", "every"}  \* ExprSingle constructs: prefix, with a bracketed first slot
PreOps  == {"neg", "pos"} \cup RootOps
TypeOpsPlain == {"instance", "treat", "castable", "cast"}      \* postfix, carry their type operand
TypeOpsOcc   == {"instance^", "treat^", "castable^", "cast^"}  \* ... whose type has an occurrence indicator
TypeOps == TypeOpsPlain \cup TypeOpsOcc
BaseOp(s) == CASE s = "instance^" -> "instance" [] s = "treat^" -> "treat"
               [] s = "castable^" -> "castable" [] s = "cast^" -> "cast" [] OTHER -> s
PostOps == TypeOps \cup {"=>", "?"}                      \* single-token postfix operators
POpens  == {"[", "c("}                                    \* postfix operators with an inner expression
GOpens  == {"(", "f("}                                    \* primaries with an inner expression
Opens   == POpens \cup GOpens \cup KwOps \cup {"then"}
Closes  == {")", "]", "else", "return", "satisfies"}
Operators == BinOps \cup PreOps \cup PostOps \cup POpens \cup KwOps
Operands  == {"x", "u?"}
AllTokens == Operators \cup Opens \cup Closes \cup Operands

CloseOf(o) == CASE o = "[" -> "]"
                [] o = "then" -> "else"
                [] o \in {"for", "let"} -> "return"
                [] o \in {"some", "every"} -> "satisfies"
                [] OTHER -> ")"

Kind(s) == CASE s \in BinOps  -> "bin"
             [] s \in PreOps  -> "pre"
             [] s \in KwOps   -> "kw"
             [] s \in PostOps -> "post"
             [] s \in POpens  -> "popen"
             [] s \in GOpens  -> "gopen"
             [] s \in Closes  -> "close"
             [] OTHER         -> "x"

(* ---- the operator table of each version ------------------------------- *)
V10 == {"or", "and", "=", "!=", "<", "<=", ">", ">=", "+", "-", "*", "div", "mod",
        "|", "neg", "/", "//", "root/", "root//", "[", "(", "f("}
V20 == V10 \cup ValueComp \cup NodeComp \cup
       {",", "to", "idiv", "union", "intersect", "except", "pos"} \cup TypeOps \cup
       {"if(", "then", "for", "some", "every"}
V30 == V20 \cup {"||", "!", "c(", "let"}
V31 == V30 \cup {"=>", "?", "u?"}

InVersionOps(v) == IF v = "1.0" THEN {} ELSE TypeOpsPlain
InVersion(v) == CASE v = "1.0" -> V10 [] v = "2.0" -> V20 [] v = "3.0" -> V30 [] OTHER -> V31

Level(v, s) ==
  CASE s = ","   -> 5
    [] s \in KwOps -> 7      \* [7] ExprSingle ::= ForExpr | LetExpr | QuantifiedExpr | IfExpr | OrExpr
    [] s = "or"  -> 10
    [] s = "and" -> 20
    [] s \in {"=", "!="} -> 30
    [] s \in {"<", "<=", ">", ">="} -> IF v = "1.0" THEN 35 ELSE 30
    [] s \in ValueComp \cup NodeComp -> 30
    [] s = "||" -> 40
    [] s = "to" -> 50
    [] s \in {"+", "-"} -> 60
    [] s \in {"*", "div", "idiv", "mod"} -> 70
    [] s \in {"union", "|"} -> 80
    [] s \in {"intersect", "except"} -> 90
    [] BaseOp(s) = "instance" -> 100
    [] BaseOp(s) = "treat"    -> 110
    [] BaseOp(s) = "castable" -> 120
    [] BaseOp(s) = "cast"     -> 130
    [] s = "=>"       -> 140
    [] s \in {"neg", "pos"} -> IF v = "1.0" THEN 75 ELSE 150
    [] s = "!"        -> 160
    [] s \in PathOps  -> 170
    [] s \in RootOps  -> 175
    [] s \in {"[", "c(", "?"} -> 180
    [] OTHER -> 0          \* operands, brackets: not operators

(* "L": the production is  E ::= E' (op E')*  -- groups to the left.            *)
(* "N": the production is  E ::= E' (op E')?  -- at most one operator of the    *)
(*      level without parentheses (2.0+ ComparisonExpr, RangeExpr, InstanceofExpr,*)
(*      TreatExpr, CastableExpr, CastExpr).                                     *)
Assoc(v, s) ==
  LET l == Level(v, s) IN
  IF (l = 30 /\ v # "1.0") \/ l = 50 \/ l \in {100, 110, 120, 130} THEN "N" ELSE "L"

(* ---- lexical layer: which neighbours need a separator ------------------ *)
(* A token text that ends with a name character followed by one that starts *)
(* with a name character ('-' and '.' are name characters) would fuse:      *)
(* "a -b", "a div b", "xs:integer -b".  "x" stands for both operand styles  *)
(* (a name, or '$' + name); "?" is rendered "?k", "=>" as "=> f()".         *)
Words == {"or", "and", "to", "div", "idiv", "mod", "union", "intersect", "except", "is", "then", "else",
          "return", "satisfies", "for", "some", "every"} \cup ValueComp \cup TypeOps
WordEnd(s)   == s \in (Words \ TypeOpsOcc) \cup {"x", "?", "u?"}                            \* "for $v in", "some $v in" end with a word
WordStart(s) == s \in Words \cup {"x", "neg", "-", "f(", "if(", "let"}
(* "/" directly followed by a leading "/" would fuse into the token "//" *)
Fuses(a, b)  == a \in PathOps \cup RootOps /\ b \in RootOps
NeedSep == {<<a, b>> \in AllTokens \X AllTokens : (WordEnd(a) /\ WordStart(b)) \/ Fuses(a, b)}

(* The tokenisation relation: between any two tokens, before the first and after the  *)
(* last one, ANY sequence of white space and (2.0+) comments may stand -- comments     *)
(* nest, and any number of them may follow each other; the sequence must be non-empty  *)
(* only where NeedSep says so.  Separator items: "sp" "nl" "tab" white space, "c" a    *)
(* comment, "cn" a comment containing a comment, "c0" a comment without inner spaces.  *)
(* "wsl" a long run of blanks and newlines; "cl" a comment of about 100 characters and "ch" one of about 300,  *)
(* both with parentheses, colons, quotes and newlines inside: a comment is skipped whatever its length.       *)
SepItems(v) == IF v = "1.0" THEN {"sp", "nl", "tab", "wsl"}
               ELSE {"sp", "nl", "tab", "wsl", "c", "cn", "c0", "cl", "ch"}
GapOK(v, a, b, g) == (\A i \in 1..Len(g) : g[i] \in SepItems(v)) /\ (<<a, b>> \in NeedSep => g # <<>>)
(* the members of the relation that are replayed: one filler per layout, put into EVERY gap *)
(* ("min": nothing, or one blank where a separator is needed)                               *)
Layouts(v) ==
  IF v = "1.0" THEN [min |-> <<>>, spaced |-> <<"sp">>, wide |-> <<"sp", "nl", "tab", "sp">>, long |-> <<"wsl">>]
  ELSE [min |-> <<>>, wide |-> <<"sp", "nl", "tab", "sp">>, comment |-> <<"sp", "cn", "sp">>,
        comments |-> <<"c", "cn", "sp", "c", "nl", "c">>, long |-> <<"cl", "wsl">>, huge |-> <<"ch", "nl", "cl">>,
        tightcomment |-> <<"c0">>]
LayoutsOK == \A v \in AllVersions : \A n \in DOMAIN Layouts(v) : GapOK(v, "(", "(", Layouts(v)[n])

(* ---- sequence types ------------------------------------------------------ *)
(* The type operand of the n-th type operator, "(T<n>)" in a tree, is one of the     *)
(* variants below: an item type name (rendered 1:1 by the harness) and an occurrence  *)
(* indicator.  XPath 2.0 [50] SequenceType ::= ("empty-sequence" "(" ")") |            *)
(* (ItemType OccurrenceIndicator?), [49] SingleType ::= AtomicType "?"?; 3.0 adds      *)
(* function tests and namespace-node(), 3.1 map and array tests.  In the tree the      *)
(* occurrence indicator is written behind the root symbol of the type:                 *)
(* element(a)+ is "(element+ (a))", xs:integer? is "(:? (xs) (integer))".              *)
AtomicTypes == {"xs:integer", "xs:string"}
ItemTypes(v) ==
  AtomicTypes \cup {"item()", "node()", "text()", "element()", "element(a)", "element(*)", "element(a,T)",
                    "attribute()", "attribute(a)", "attribute(*)", "document-node()", "document-node(element(a))",
                    "comment()", "processing-instruction()", "processing-instruction(p)", "processing-instruction('p')"}
  \cup (IF v \in {"3.0", "3.1"} THEN {"function(*)", "namespace-node()"} ELSE {})
  \cup (IF v = "3.1" THEN {"map(*)", "map(K,V)", "array(*)", "array(T)"} ELSE {})
SeqTypeOK(v, op, ty, oc) ==
  /\ op \in TypeOps /\ BaseOp(op) \in InVersionOps(v)
  /\ IF BaseOp(op) \in {"cast", "castable"}
     THEN ty \in AtomicTypes /\ oc \in (IF op \in TypeOpsOcc THEN {"?"} ELSE {""})
     ELSE /\ ty \in ItemTypes(v) \cup {"empty-sequence()"} \cup (IF v \in {"3.0", "3.1"} THEN {"function(T) as T"} ELSE {})
          /\ oc \in (IF op \in TypeOpsOcc THEN {"?", "*", "+"} ELSE {""})
          /\ ty \in {"empty-sequence()", "function(T) as T"} => oc = ""   \* no indicator of their own
AllItemTypes == ItemTypes("3.1") \cup {"empty-sequence()", "function(T) as T"}
SeqTypes == {q \in AllVersions \X TypeOps \X AllItemTypes \X {"", "?", "*", "+"} : SeqTypeOK(q[1], q[2], q[3], q[4])}

(* ---- bracket structure ------------------------------------------------- *)
RECURSIVE DepthVec(_, _)
(* d[k] = bracket depth in front of token k (k = Len+1: after the last token) *)
DepthVec(t, k) ==
  IF k = 1 THEN <<0>>
  ELSE LET d == DepthVec(t, k - 1)
           p == t[k - 1]
       IN Append(d, IF p \in Opens THEN d[k - 1] + 1 ELSE IF p \in Closes THEN d[k - 1] - 1 ELSE d[k - 1])

SetMin(S) == CHOOSE x \in S : \A y \in S : x <= y
SetMax(S) == CHOOSE x \in S : \A y \in S : y <= x

(* matching close of the open bracket at position k *)
Match(t, d, k) == SetMin({m \in (k + 1)..Len(t) : d[m + 1] = d[k]})

Balanced(t) ==
  LET d == DepthVec(t, Len(t) + 1) IN
    /\ d[Len(t) + 1] = 0
    /\ \A k \in 1..Len(t) : d[k + 1] >= 0
    /\ \A k \in 1..Len(t) : t[k] \in Opens => t[Match(t, d, k)] = CloseOf(t[k])

IsErr(s) == Len(s) >= 4 /\ SubSeq(s, 1, 4) = "ERR:"

(* the i-th token is the n-th token of its family *)
Ord(t, i, S)   == ToString(Cardinality({k \in 1..i : t[k] \in S}))
Leaf(t, i)     == IF t[i] = "u?" THEN "(? (K" \o Ord(t, i, {"?", "u?"}) \o "))"      \* [76] UnaryLookup ::= "?" KeySpecifier
                  ELSE "(x" \o Ord(t, i, {"x"}) \o ")"
Sym(s)         == CASE s = "neg" -> "-" [] s = "pos" -> "+" [] s = "root/" -> "/" [] s = "root//" -> "//" [] OTHER -> s
KwSym(s)       == IF s = "if(" THEN "if" ELSE s
Node1(s, a)    == IF IsErr(a) THEN a ELSE "(" \o Sym(s) \o " " \o a \o ")"
Node2(s, a, b) == IF IsErr(a) THEN a ELSE IF IsErr(b) THEN b ELSE "(" \o Sym(s) \o " " \o a \o " " \o b \o ")"
PostNode(t, k, a) ==
  IF IsErr(a) THEN a
  ELSE CASE t[k] \in TypeOps -> "(" \o BaseOp(t[k]) \o " " \o a \o " (T" \o Ord(t, k, TypeOps) \o "))"
         [] t[k] = "=>"      -> "(=> " \o a \o " (F" \o Ord(t, k, {"=>"}) \o ") ())"
         [] t[k] = "?"       -> "(? " \o a \o " (K" \o Ord(t, k, {"?", "u?"}) \o "))"
CallNode(a, b) == IF IsErr(a) THEN a ELSE IF IsErr(b) THEN b ELSE "(" \o a \o " " \o b \o ")"   \* dynamic call: no symbol
FuncNode(t, k, a) == IF IsErr(a) THEN a ELSE "(f" \o Ord(t, k, {"f("}) \o " " \o a \o ")"

Node3(s, a, b, c) == IF IsErr(a) THEN a ELSE IF IsErr(b) THEN b ELSE IF IsErr(c) THEN c
                     ELSE "(" \o s \o " " \o a \o " " \o b \o " " \o c \o ")"
(* a ',' outside brackets in t[i..j]: the slot of a keyword expression is an ExprSingle *)
HasTopComma(t, d, i, j) == \E k \in i..j : t[k] = "," /\ d[k] = d[i]

(* ---- the declarative grouping ------------------------------------------ *)
(* G(v,t,d,i,j): the tree of the slice t[i..j], which is bracket-balanced.   *)
(* Let L be the LOWEST level among the operators of the slice that are not   *)
(* inside brackets.  The slice is an expression of the production of level L:*)
(*   binary, "L":  split at the RIGHTMOST operator of level L                *)
(*   binary, "N":  exactly one operator of level L, split there              *)
(*   prefix     :  the slice must START with that operator (the operand of a *)
(*                 higher-level operator can never be a prefix expression);  *)
(*                 its operand is the rest (may start with a prefix again)   *)
(*   postfix    :  the slice must END with the rightmost operator of level L *)
(*                 (its closing bracket); "N": exactly one of them           *)
(* No operator outside brackets: a primary.                                  *)
RECURSIVE G(_, _, _, _, _)
G(v, t, d, i, j) ==
  IF i > j THEN "ERR:empty-operand"
  ELSE
  LET ops == {k \in i..j : d[k] = d[i] /\ t[k] \in Operators}
  IN
  IF ops = {} THEN
       IF i = j /\ t[i] \in Operands THEN Leaf(t, i)
       ELSE IF t[i] \in GOpens /\ Match(t, d, i) = j
            THEN IF t[i] = "(" THEN G(v, t, d, i + 1, j - 1) ELSE FuncNode(t, i, G(v, t, d, i + 1, j - 1))
            ELSE "ERR:adjacent-operands"
  ELSE
  LET L  == SetMin({Level(v, t[k]) : k \in ops})
      PL == {k \in ops : Level(v, t[k]) = L}
      kd == Kind(t[SetMin(PL)])
      na == Assoc(v, t[SetMin(PL)]) = "N"
  IN
  CASE kd = "bin" ->
         IF na /\ Cardinality(PL) > 1 THEN "ERR:non-associative"
         ELSE LET k == SetMax(PL) IN
              IF t[k] \in PathOps /\ k < j /\ (t[k + 1] \in RootOps \/ (v = "1.0" /\ t[k + 1] # "x"))
              THEN "ERR:step-expected"      \* a path continues with a step (1.0 [3]: '/' Step, no primary)
              ELSE Node2(t[k], G(v, t, d, i, k - 1), G(v, t, d, k + 1, j))
    [] kd = "kw" ->      \* if ( Expr ) then ExprSingle else ExprSingle  |  for/let/some/every binding ExprSingle
         LET k  == SetMin(PL)
             m1 == Match(t, d, k)
         IN
         IF k # i THEN "ERR:prefix-as-operand-of-higher-level"
         ELSE IF t[k] = "if(" THEN
              LET m2 == Match(t, d, m1 + 1) IN
              IF HasTopComma(t, d, m1 + 2, m2 - 1) THEN "ERR:expr-single"
              ELSE Node3("if", G(v, t, d, k + 1, m1 - 1), G(v, t, d, m1 + 2, m2 - 1), G(v, t, d, m2 + 1, j))
         ELSE IF HasTopComma(t, d, k + 1, m1 - 1) THEN "ERR:expr-single"
              ELSE Node3(t[k], "(V" \o Ord(t, k, KwOps \ {"if("}) \o ")", G(v, t, d, k + 1, m1 - 1), G(v, t, d, m1 + 1, j))
    [] kd = "pre" ->
         LET k == SetMin(PL) IN
         IF k # i THEN "ERR:prefix-as-operand-of-higher-level"
         ELSE IF t[k] \in RootOps /\ v = "1.0" /\ k < j /\ t[k + 1] # "x" THEN "ERR:step-expected"
         ELSE Node1(t[k], G(v, t, d, i + 1, j))
    [] OTHER ->     \* "post" and "popen"
         IF na /\ Cardinality(PL) > 1 THEN "ERR:non-associative"
         ELSE LET k == SetMax(PL) IN
              IF t[k] \in PostOps
              THEN IF k # j THEN "ERR:postfix-on-lower-level" ELSE PostNode(t, k, G(v, t, d, i, k - 1))
              ELSE IF Match(t, d, k) # j THEN "ERR:postfix-on-lower-level"
                   ELSE IF t[k] = "[" THEN Node2("[", G(v, t, d, i, k - 1), G(v, t, d, k + 1, j - 1))
                        ELSE CallNode(G(v, t, d, i, k - 1), G(v, t, d, k + 1, j - 1))

(* xgc: occurrence-indicators (XPath 2.0 A.1.2): a '+' or '*' (or '?') right  *)
(* after a SequenceType IS its occurrence indicator, so the operand that      *)
(* follows is left dangling.                                                  *)
OccurrenceClash(t) ==
  \E k \in 1..(Len(t) - 1) : t[k] \in {"instance", "treat"} /\ t[k + 1] \in {"+", "*", "?"}

GrammarTree(v, t) ==
  IF \E k \in 1..Len(t) : t[k] \notin InVersion(v) \cup Closes \cup {"x"} THEN "ERR:not-in-version"
  ELSE IF ~Balanced(t) THEN "ERR:unbalanced"
  ELSE IF OccurrenceClash(t) THEN "ERR:occurrence-indicator"
  ELSE G(v, t, DepthVec(t, Len(t) + 1), 1, Len(t))

(* ---- the sentences: every flat token sequence within bounds ------------- *)
(* Generated by the token-level automaton of  E ::= U (bin U)*,              *)
(* U ::= pre* P post*,  P ::= x | "(" E ")" | "f(" E ")",                    *)
(* post ::= PostOps | "[" E "]" | "c(" E ")".   A generator state:           *)
(*   t tokens so far,                                                        *)
(*   m "pre" (an operand is due), "step" (a step is due: right after a       *)
(*     leading '/'), "post" (an operand is complete),                        *)
(*   st stack of <<open token, #operators when it was opened>>,              *)
(*   n operators so far, g bracket groups "(" "f(" so far.                   *)
(* A "(" group must contain an operator ("(a)" says nothing about grouping)  *)
(* unless bare = TRUE (then "(a)" and "((a))" are generated: they matter for *)
(* the source round trip, which must keep every parenthesis).                *)
(* "instance of T * - x": the '*' is the occurrence indicator of T, and the '-' behind it is then *)
(* a BINARY minus: the text of <<instance, "*", neg>> is the text of another sentence, never generated *)
AfterOccurrence(t) == Len(t) >= 2 /\ t[Len(t) - 1] \in {"instance", "treat"} /\ t[Len(t)] \in {"+", "*"}

GenInit == [t |-> <<>>, m |-> "pre", st |-> <<>>, n |-> 0, g |-> 0]

GenExt(s, A, maxOps, maxGroups, bare) ==
  IF s.m \in {"pre", "step"} THEN
       {[s EXCEPT !.t = Append(@, "x"), !.m = "post"]}
       \cup (IF "u?" \in A /\ s.m = "pre" THEN {[s EXCEPT !.t = Append(@, "u?"), !.m = "post"]} ELSE {})
       \cup (IF s.n < maxOps /\ s.m = "pre"
             THEN {[s EXCEPT !.t = Append(@, p), !.n = @ + 1, !.m = IF p \in RootOps THEN "step" ELSE "pre"] :
                      p \in {q \in A \cap PreOps : ~(q \in {"neg", "pos"} /\ AfterOccurrence(s.t))}}
             ELSE {})
       \cup (IF s.g < maxGroups
             THEN {[s EXCEPT !.t = Append(@, o), !.g = @ + 1, !.m = "pre", !.st = Append(@, <<o, s.n>>)] : o \in A \cap GOpens}
             ELSE {})
       \cup (IF s.n < maxOps /\ s.m = "pre"      \* a keyword expression: its first slot is open now
             THEN {[s EXCEPT !.t = Append(@, o), !.n = @ + 1, !.st = Append(@, <<o, s.n + 1>>)] : o \in A \cap KwOps}
             ELSE {})
  ELSE
       (IF s.n < maxOps
        THEN {[s EXCEPT !.t = Append(@, b), !.n = @ + 1, !.m = "pre"] :
                 b \in {c \in A \cap BinOps : ~(c = "," /\ s.st # <<>> /\ s.st[Len(s.st)][1] \in {"f(", "c("})}}
             \* (a ',' directly inside a call separates arguments: it is not the comma operator)
             \cup {[s EXCEPT !.t = Append(@, q), !.n = @ + 1] : q \in A \cap PostOps}
             \cup {[s EXCEPT !.t = Append(@, o), !.n = @ + 1, !.m = "pre", !.st = Append(@, <<o, s.n + 1>>)] : o \in A \cap POpens}
        ELSE {})
       \cup (IF s.st # <<>> /\ (s.st[Len(s.st)][1] # "(" \/ bare \/ s.n > s.st[Len(s.st)][2])
             THEN LET o == s.st[Len(s.st)][1] IN
                  IF o = "if(" THEN        \* ") then": the second slot opens
                       {[s EXCEPT !.t = @ \o <<")", "then">>, !.m = "pre",
                                  !.st = [@ EXCEPT ![Len(@)] = <<"then", s.n>>]]}
                  ELSE IF o \in KwOps \cup {"then"} THEN     \* the last slot is not bracketed: an operand is due
                       {[s EXCEPT !.t = Append(@, CloseOf(o)), !.m = "pre", !.st = SubSeq(@, 1, Len(@) - 1)]}
                  ELSE {[s EXCEPT !.t = Append(@, CloseOf(o)), !.st = SubSeq(@, 1, Len(@) - 1)]}
             ELSE {})

GenComplete(s) == s.m = "post" /\ s.st = <<>>

NumOps(t) == Cardinality({k \in 1..Len(t) : t[k] \in Operators})

(* ---- laws of the definition (checked by TLC on every sentence) ---------- *)
(* parentheses around the whole sentence change nothing *)
ParenNeutral(v, t) == NumOps(t) = 0 \/ GrammarTree(v, <<"(">> \o t \o <<")">>) = GrammarTree(v, t)
(* a valid tree mentions every operand exactly once (checked through the leaf count) *)
RECURSIVE CountSub(_, _, _)
CountSub(s, sub, k) == IF k + Len(sub) - 1 > Len(s) THEN 0
                       ELSE (IF SubSeq(s, k, k + Len(sub) - 1) = sub THEN 1 ELSE 0) + CountSub(s, sub, k + 1)
LeavesComplete(v, t) ==
  LET g == GrammarTree(v, t) IN
  IsErr(g) \/ CountSub(g, "(x", 1) = Cardinality({k \in 1..Len(t) : t[k] = "x"})
=============================================================================
