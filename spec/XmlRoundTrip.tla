---------------------------- MODULE XmlRoundTrip ----------------------------
(***************************************************************************)
(* C17, XML half: parse-xml(serialize(node)) is deep-equal to the node,    *)
(* over the trees of spec/XDM.tla, as a STEP MACHINE the way a serializer  *)
(* and a SAX-style tree builder run:                                       *)
(*                                                                         *)
(*   Choose(n)        pick the context node: an element, or 0 = document   *)
(*   EmitNode/EmitEnd preorder walk of the subtree of n: one token per     *)
(*                    step (start, att, text, comment, pi, end), a stack   *)
(*                    of open elements                                     *)
(*   ParseTok         one token per step: the builder appends a node to    *)
(*                    (parent2, kind2) and pushes / pops its own stack     *)
(*                                                                         *)
(* Law (RoundTrip): when the parse is done, (parent2, kind2) is the        *)
(* subtree of n renumbered from 1 -- same kinds, same shape, attributes    *)
(* and leaves included (comments and PIs too: they are nodes of the XDM    *)
(* tree; F&O deep-equal ignores them but a text node split by a comment    *)
(* stays two text nodes).  The dumped "done" states are the test plan:     *)
(* tree x context node -> expected tree of parse-xml(serialize(node)).     *)
(* Text, attribute values, names and namespaces are the binding's.         *)
(***************************************************************************)
EXTENDS XDM, TLC

CONSTANTS StaticCfgs,  \* names of static-context configurations of the evaluating parser (base URI absent /
                       \* absolute / relative, default collation, namespace maps with and without a default
                       \* namespace, XSD version, strict, compatibility mode).  The behaviour is quantified over
                       \* them (variable cfg, chosen with the context node) and the law does not mention cfg:
                       \* the round trip must not depend on the static context.
          Alphabets,   \* names of character alphabets of the NAMES (element, attribute, PI target) and of the
                       \* CONTENT of every node kind (text, attribute value, comment, PI): "ascii", "latin" (a
                       \* non-ASCII BMP letter), "astral" (a supplementary-plane character).  A character reference
                       \* is markup only in text and attribute values: in comments, PIs and names the serializer
                       \* has no way to write a character other than the character itself.  Chosen with the
                       \* context node (variable alpha); the law does not mention it.  Alphabets other than
                       \* "ascii" run under the static configuration "default" only.
          PrologMode   \* "all": context node 0 also with comments / PIs BEFORE the root element (children of
                       \* the document node; XDM.tla itself has the root element as only child); "none"

VARIABLES cfg,     \* the static-context configuration
          alpha,   \* the alphabet of names and content
          prolog,  \* comments / PIs before the root element (context node 0 only)
          prolog2, \* ... as rebuilt by the parse
          phase,   \* "pick" "ser" "text" "parse" "done"
          ctx,     \* context node (0 = the document node)
          cur,     \* next node of the walk
          stack,   \* open elements (serializer: node ids; parser: new ids)
          toks,    \* the serialized token sequence
          pos,     \* next token of the parse
          parent2, kind2    \* the rebuilt tree (sequences)
rvars == <<cfg, alpha, prolog, prolog2, phase, ctx, cur, stack, toks, pos, parent2, kind2>>
vars == <<parent, kind, rvars>>

Top(s) == s[Len(s)]
Pop(s) == SubSeq(s, 1, Len(s) - 1)
(* last node of the subtree of n in preorder numbering *)
LastOf(n) == IF n = 0 THEN N ELSE CHOOSE m \in n..N : /\ \A i \in (n + 1)..m : n \in AncP(parent, i)
                                                      /\ (m = N \/ n \notin AncP(parent, m + 1))
First(n) == IF n = 0 THEN 1 ELSE n
NameOf(k) == IF k \in {"ea", "xa"} THEN "a" ELSE IF k = "eb" THEN "b" ELSE "c"

Prologs == IF PrologMode = "all" THEN {<<>>, <<"c">>, <<"p">>, <<"c", "p">>} ELSE {<<>>}
LeafTok(k) == IF k = "c" THEN [k |-> "comment", name |-> ""] ELSE [k |-> "pi", name |-> "p"]
Init == /\ TreeInit
        /\ cfg = "" /\ alpha = "" /\ prolog = <<>> /\ prolog2 = <<>>
        /\ phase = "pick" /\ ctx = 0 /\ cur = 0 /\ stack = <<>> /\ toks = <<>> /\ pos = 1
        /\ parent2 = <<>> /\ kind2 = <<>>

Choose(n, c, pr, al) ==
             /\ phase = "pick"
             /\ al \in Alphabets /\ (al # "ascii" => c = "default") /\ alpha' = al
             /\ (n = 0 \/ IsElem(n))
             /\ c \in StaticCfgs /\ pr \in Prologs /\ (n # 0 => pr = <<>>)
             /\ cfg' = c /\ prolog' = pr
             /\ toks' = [i \in 1..Len(pr) |-> LeafTok(pr[i])]        \* the document node's leading children
             /\ phase' = "ser" /\ ctx' = n /\ cur' = First(n)
             /\ UNCHANGED <<parent, kind, stack, pos, parent2, kind2, prolog2>>

InWalk == cur <= LastOf(ctx)
Attached == IF stack = <<>> THEN cur = First(ctx) ELSE parent[cur] = Top(stack)
EmitNode ==
  /\ phase = "ser" /\ InWalk /\ Attached
  /\ LET k == kind[cur] IN
     /\ toks' = Append(toks, IF k \in ElemKinds THEN [k |-> "start", name |-> NameOf(k)]
                             ELSE IF k \in AttrKinds THEN [k |-> "att", name |-> NameOf(k)]
                             ELSE IF k = "t" THEN [k |-> "text", name |-> ""]
                             ELSE IF k = "c" THEN [k |-> "comment", name |-> ""]
                             ELSE [k |-> "pi", name |-> "p"])
     /\ stack' = IF k \in ElemKinds THEN Append(stack, cur) ELSE stack
  /\ cur' = cur + 1
  /\ UNCHANGED <<parent, kind, phase, ctx, pos, parent2, kind2, cfg, alpha, prolog, prolog2>>
EmitEnd ==
  /\ phase = "ser" /\ stack # <<>> /\ (IF InWalk THEN ~Attached ELSE TRUE)
  /\ toks' = Append(toks, [k |-> "end", name |-> NameOf(kind[Top(stack)])])
  /\ stack' = Pop(stack)
  /\ UNCHANGED <<parent, kind, phase, ctx, cur, pos, parent2, kind2, cfg, alpha, prolog, prolog2>>
SerDone ==
  /\ phase = "ser" /\ ~InWalk /\ stack = <<>>
  /\ phase' = "text"
  /\ UNCHANGED <<parent, kind, ctx, cur, stack, toks, pos, parent2, kind2, cfg, alpha, prolog, prolog2>>

StartParse == /\ phase = "text" /\ phase' = "parse" /\ pos' = 1 /\ stack' = <<>> /\ parent2' = <<>> /\ kind2' = <<>>
              /\ prolog2' = <<>>
              /\ UNCHANGED <<parent, kind, ctx, cur, toks, cfg, alpha, prolog>>
KindOfTok(t) == CASE t.k = "start" -> IF t.name = "a" THEN "ea" ELSE "eb"
                  [] t.k = "att" -> IF t.name = "a" THEN "xa" ELSE "xc"
                  [] t.k = "text" -> "t" [] t.k = "comment" -> "c" [] t.k = "pi" -> "p"
ParseTok ==
  /\ phase = "parse" /\ pos <= Len(toks)
  /\ LET t == toks[pos] IN
     IF t.k = "end"
     THEN /\ stack # <<>> /\ NameOf(kind2[Top(stack)]) = t.name      \* well-formedness of the text
          /\ stack' = Pop(stack) /\ UNCHANGED <<parent2, kind2, prolog2>>
     ELSE IF t.k \in {"comment", "pi"} /\ stack = <<>> /\ kind2 = <<>>
     THEN /\ prolog2' = Append(prolog2, KindOfTok(t))               \* a child of the document node before the root
          /\ UNCHANGED <<parent2, kind2, stack>>
     ELSE /\ UNCHANGED prolog2
          /\ (t.k = "att" => (stack # <<>> /\ pos > 1 /\ toks[pos - 1].k \in {"start", "att"}))
          /\ kind2' = Append(kind2, KindOfTok(t))
          /\ parent2' = Append(parent2, IF stack = <<>> THEN 0 ELSE Top(stack))
          /\ stack' = IF t.k = "start" THEN Append(stack, Len(kind2) + 1) ELSE stack
  /\ pos' = pos + 1
  /\ UNCHANGED <<parent, kind, phase, ctx, cur, toks, cfg, alpha, prolog>>
ParseDone == /\ phase = "parse" /\ pos > Len(toks) /\ stack = <<>>
             /\ phase' = "done"
             /\ UNCHANGED <<parent, kind, ctx, cur, stack, toks, pos, parent2, kind2, cfg, alpha, prolog, prolog2>>

Next == \/ \E n \in 0..N, c \in StaticCfgs, pr \in Prologs, al \in Alphabets : Choose(n, c, pr, al)
        \/ EmitNode \/ EmitEnd \/ SerDone \/ StartParse \/ ParseTok \/ ParseDone
Spec == Init /\ [][Next]_vars

---------------------------------------------------------------------------
Size(n) == LastOf(n) - First(n) + 1
RoundTrip == phase = "done" =>
  /\ prolog2 = prolog
  /\ Len(kind2) = Size(ctx) /\ Len(parent2) = Size(ctx)
  /\ \A i \in 1..Size(ctx) :
       /\ kind2[i] = kind[First(ctx) + i - 1]
       /\ parent2[i] = (IF i = 1 THEN 0 ELSE parent[First(ctx) + i - 1] - (First(ctx) - 1))
(* the serialized text is balanced, and no parse step ever blocks (the run always reaches "done") *)
Balanced == phase = "text" =>
  /\ Cardinality({i \in 1..Len(toks) : toks[i].k = "start"}) = Cardinality({i \in 1..Len(toks) : toks[i].k = "end"})
  /\ Len(toks) = Len(prolog) + Size(ctx) + Cardinality({i \in First(ctx)..LastOf(ctx) : kind[i] \in ElemKinds})
NoStuck == (phase \in {"ser", "parse"}) => ENABLED Next
(* Idempotence (chain of two round trips): serializing the REBUILT tree gives the same token sequence, so
   parse-xml(serialize(n')) for a node n' that itself came from fn:parse-xml is again the identity.  The
   configurations "origin-cdata" / "origin-charref" of StaticCfgs bind exactly that: the context node is taken
   from parse-xml of a source TEXT whose text nodes are written as CDATA sections / with character references. *)
TokOf(k) == IF k \in ElemKinds THEN [k |-> "start", name |-> NameOf(k)]
            ELSE IF k \in AttrKinds THEN [k |-> "att", name |-> NameOf(k)]
            ELSE IF k = "t" THEN [k |-> "text", name |-> ""]
            ELSE IF k = "c" THEN [k |-> "comment", name |-> ""] ELSE [k |-> "pi", name |-> "p"]
RECURSIVE SubToks(_, _, _)
RECURSIVE CatKids(_, _, _)
SubToks(p, k, i) == IF k[i] \in ElemKinds
                    THEN <<TokOf(k[i])>> \o CatKids(p, k, {j \in 1..Len(k) : p[j] = i})
                         \o <<[k |-> "end", name |-> NameOf(k[i])]>>
                    ELSE <<TokOf(k[i])>>
CatKids(p, k, S) == IF S = {} THEN <<>>
                    ELSE LET m == CHOOSE a \in S : \A b \in S : a <= b IN SubToks(p, k, m) \o CatKids(p, k, S \ {m})
Idempotent == phase = "done" => SubToks(parent2, kind2, 1) = SubSeq(toks, Len(prolog) + 1, Len(toks))
RLaws == RoundTrip /\ Balanced /\ NoStuck /\ Idempotent
=============================================================================
