---------------------------- MODULE SchemaTyping ----------------------------
(***************************************************************************)
(* Definitional semantics of schema-aware typing (property C20).           *)
(*                                                                         *)
(* Abstract SCHEMAS: one global element  b  with an anonymous complex type *)
(*   sequence( kid1 named a, kid2 named b, kid3 named a )   (<= MaxKids)   *)
(*   + attribute declarations named a / c                   (<= 2)         *)
(* a kid declaration is [ty, mn, mx, nil, dv, sg, anon]: type, minOccurs,  *)
(* maxOccurs 1/2, nillable, has-a-default-value, ref-to-a-head, anonymous  *)
(* restriction of ty.  Types:                                              *)
(*   builtin atomic   int integer decimal string date boolean              *)
(*   small  = restriction(xs:int, maxInclusive 10)                         *)
(*   ilist  = list(xs:int)           u = union(xs:int, xs:string)          *)
(*   sc     = complexType/simpleContent/extension(xs:decimal)+attribute a  *)
(*            of type xs:int                                               *)
(*   grp    = complexType/sequence(element b of xs:boolean, minOccurs 0)   *)
(*            (one more level: exercises the type stack of apply_schema)   *)
(*   ud     = union(xs:decimal, xs:string): the FIRST member rejects a     *)
(*            non-numeric lexical, the later member takes it               *)
(*   v      = restriction(type of kid 1): a global type whose DEFINITION   *)
(*            differs from schema to schema under the same name; instances *)
(*            name it in xsi:type on kid 1                                 *)
(*   long, unsignedLong, bint (= xs:integer), bdec (= xs:decimal): the     *)
(*            same built-ins with values BEYOND 2^53 / more than 16 digits; *)
(*            TLC integers are 32 bit, so these values are digit sequences  *)
(*            [ip, fp] with an exact order (DigCmp / BigCmp)                *)
(*   gYearMonth, gYear: built-ins whose value space depends on the XSD     *)
(*            VERSION of the schema (1.0: no year 0000, -0001 = 1 BCE;      *)
(*            1.1: -0001 = 2 BCE): AstroYear; like date they have one       *)
(*            datatype class per version                                    *)
(*   qname  = xs:QName: an unprefixed value is in the default namespace of  *)
(*            the document (XSD part 2, 3.2.18)                              *)
(* A kid declaration with anon = TRUE has an ANONYMOUS local simple type,   *)
(* a restriction (no facet) of ty: the type annotation has no name.         *)
(* A kid declaration with sg = TRUE is  <xs:element ref="a"/>  to a GLOBAL *)
(* element a (the head of a substitution group) whose only member is the   *)
(* global element m, typed with a type DERIVED from the head's             *)
(* (SgMember); an occurrence with mem = TRUE is an <m> element.            *)
(* XSD constraints on the universe: Element Declarations Consistent (two   *)
(* particles named a have the same type) and Unique Particle Attribution   *)
(* (with three kids the middle one is mandatory).                          *)
(*                                                                         *)
(* INSTANCES are valid by construction (Instances(S)) and re-checked by    *)
(* the independent predicate ValidInstance (law) and by xmlschema in the   *)
(* binding.  Lexical forms are sequences of one-character strings so that  *)
(* whitespace normalisation and the lexical->value mappings of XSD part 2  *)
(* are DEFINED here (TypedValue), not looked up.                           *)
(*                                                                         *)
(* Annot(S, inst) is the PSVI/XDM annotation of every element / attribute  *)
(* node: type name, nilled, typed value (XDM 3.1 sections 6.2.2-6.2.4,     *)
(* 6.3.2-6.3.4), InstanceOf = XPath 3.1 section 2.5.5.3/2.5.5.5            *)
(* derives-from(annotation, T).  Attributes absent from the instance whose *)
(* declaration has a default are PSVI nodes (XSD part 1, 3.4.5.1 "default  *)
(* attribute"): they are flagged dflt.                                     *)
(*                                                                         *)
(* Not modelled (excluded from the vectors): wildcards, substitution       *)
(* groups beyond the one-head / one-member form above, identity            *)
(* constraints, assertions; the type annotation of the    *)
(* xsi:type / xsi:nil attribute nodes themselves; union lexicals with      *)
(* surrounding white space (XSD 1.0 and 1.1 differ); error CODES.          *)
(***************************************************************************)
EXTENDS Integers, Sequences, FiniteSets, TLC

CONSTANTS KidMenu,    \* set of kid declarations [ty, mn, mx, nil, dv]
          AttrMenu,   \* set of attribute declarations [nm, ty, use]   use: "opt" | "req" | "dflt"
          MinKids,    \* 0..MaxKids
          MaxKids,    \* 0..3
          LexCap,     \* at most this many lexical representatives per type (1..4)
          MaxAtts,    \* 0..2
          XsiOn,      \* TRUE: instances may use xsi:type overrides
          VOn         \* TRUE: kid 1 occurrences may carry xsi:type="v" (the schema-dependent type)

---------------------------------------------------------------------------
(* Characters and lexical forms *)
Digits == <<"0","1","2","3","4","5","6","7","8","9">>
IsDigit(c)  == \E d \in 1..10 : Digits[d] = c
DigitVal(c) == (CHOOSE d \in 1..10 : Digits[d] = c) - 1
NoLex == <<"#none">>                       \* marker: no such item in the instance

RECURSIVE StripL(_)
StripL(s) == IF s # <<>> /\ Head(s) = " " THEN StripL(Tail(s)) ELSE s
FirstSp(s) == IF \E i \in 1..Len(s) : s[i] = " "
              THEN CHOOSE i \in 1..Len(s) : s[i] = " " /\ \A j \in 1..(i-1) : s[j] # " "
              ELSE Len(s) + 1
RECURSIVE Toks(_)                          \* split at runs of spaces (xs:list, whiteSpace=collapse)
Toks(s) == LET t == StripL(s) IN
           IF t = <<>> THEN <<>>
           ELSE LET k == FirstSp(t) IN <<SubSeq(t, 1, k-1)>> \o Toks(SubSeq(t, k, Len(t)))
RECURSIVE JoinSp(_)
JoinSp(ts) == IF ts = <<>> THEN <<>>
              ELSE IF Len(ts) = 1 THEN ts[1] ELSE ts[1] \o <<" ">> \o JoinSp(Tail(ts))
Collapse(s) == JoinSp(Toks(s))             \* XSD part 2, 4.3.6 whiteSpace = collapse

AllDigits(s) == s # <<>> /\ \A i \in 1..Len(s) : IsDigit(s[i])
RECURSIVE NatOf(_)
NatOf(s) == IF s = <<>> THEN 0 ELSE NatOf(SubSeq(s, 1, Len(s)-1)) * 10 + DigitVal(s[Len(s)])
Signed(s)  == s # <<>> /\ s[1] \in {"-", "+"}
Body(s)    == IF Signed(s) THEN Tail(s) ELSE s
SignOf(s)  == IF s # <<>> /\ s[1] = "-" THEN 0 - 1 ELSE 1

IsIntLex(s) == AllDigits(Body(s))                        \* xs:integer lexical space
IntOf(s)    == SignOf(s) * NatOf(Body(s))

DotPos(s) == IF \E i \in 1..Len(s) : s[i] = "." THEN CHOOSE i \in 1..Len(s) : s[i] = "." ELSE 0
IntPart(b) == IF DotPos(b) = 0 THEN b ELSE SubSeq(b, 1, DotPos(b)-1)
FrcPart(b) == IF DotPos(b) = 0 THEN <<>> ELSE SubSeq(b, DotPos(b)+1, Len(b))
IsDecLex(s) == LET b == Body(s) IN                        \* xs:decimal lexical space
   /\ \A i \in 1..Len(IntPart(b)) : IsDigit(IntPart(b)[i])
   /\ \A i \in 1..Len(FrcPart(b)) : IsDigit(FrcPart(b)[i])
   /\ Len(IntPart(b)) + Len(FrcPart(b)) > 0
RECURSIVE NormDec(_, _)                    \* value = u / 10^sc, canonical: no trailing zero
NormDec(u, sc) == IF sc > 0 /\ u % 10 = 0 THEN NormDec(u \div 10, sc - 1) ELSE <<u, sc>>
DecOf(s) == LET b == Body(s) IN NormDec(SignOf(s) * NatOf(IntPart(b) \o FrcPart(b)), Len(FrcPart(b)))

IsDateLex(s) == /\ Len(s) = 10 /\ s[5] = "-" /\ s[8] = "-"
                /\ \A i \in {1,2,3,4,6,7,9,10} : IsDigit(s[i])
                /\ NatOf(SubSeq(s,6,7)) \in 1..12 /\ NatOf(SubSeq(s,9,10)) \in 1..31
DateOf(s) == <<NatOf(SubSeq(s,1,4)), NatOf(SubSeq(s,6,7)), NatOf(SubSeq(s,9,10))>>

LTrue == <<"t","r","u","e">>     LFalse == <<"f","a","l","s","e">>
IsBoolLex(s) == s \in {LTrue, LFalse, <<"1">>, <<"0">>}
BoolOf(s) == s \in {LTrue, <<"1">>}

---------------------------------------------------------------------------
(* The type hierarchy (XSD part 2 section 3, built-in derivation; part 1 3.4.2 for sc/grp) *)
AtomicBuiltins == {"short", "int", "long", "integer", "decimal", "string", "date", "boolean",
                   "unsignedLong", "nonNegativeInteger", "gYearMonth", "gYear", "qname",
                   "dateTime", "dateTimeStamp"}
(* EXTENSION (round 6).  Two families the XSD VERSION of the schema and the LENGTH of a derivation chain  *)
(* are dimensions of:                                                                                   *)
(*   c1 .. cMaxChain : c1 = restriction(xs:short), ck = restriction(c(k-1)): a chain of k restriction   *)
(*            steps above a NON-primitive built-in; the datatype class stays xs:short however long the   *)
(*            chain is (XSD part 2, 4.1.1: the value space of a restriction is a subset of its base's)   *)
(*   dateTimeStamp : built-in of XSD 1.1 ONLY (part 2 1.1, 3.4.28), derived from xs:dateTime;            *)
(*   recent  = restriction(xs:dateTimeStamp): a user type over a 1.1-only base.  A schema that uses them *)
(*            exists under XSD 1.1 only: Versions(S); the queries of a version: XQ(S, ver)               *)
MaxChain   == 6
ChainNames == <<"c1", "c2", "c3", "c4", "c5", "c6">>
ChainTypes == {ChainNames[k] : k \in 1..MaxChain}
ChainDepth(T) == CHOOSE k \in 1..MaxChain : ChainNames[k] = T
Xsd11Only  == {"dateTimeStamp"}
ExtUser    == ChainTypes \cup {"recent"}
ExtTypes   == ExtUser \cup {"dateTime", "dateTimeStamp"}
DTTypes    == {"dateTime", "dateTimeStamp", "recent"}
VersionedTags  == {"date", "gYearMonth", "gYear"}      \* one datatype class per XSD version (binding table)
(* proleptic (astronomical) year of a lexical year under the two versions of XSD part 2 (3.2.7 / D.3.2) *)
AstroYear(ver, ly) == IF ver = "1.0" /\ ly < 0 THEN ly + 1 ELSE ly
AnonBases      == {"int", "integer", "decimal", "string"}
Anon(T)        == CASE T = "int" -> "~int" [] T = "integer" -> "~integer" [] T = "decimal" -> "~decimal" [] T = "string" -> "~string"
AnonTypes      == {Anon(T) : T \in AnonBases}
AnonBase(A)    == CHOOSE T \in AnonBases : Anon(T) = A
BigTypes       == {"long", "unsignedLong", "bint", "bdec"}
SimpleTypes    == AtomicBuiltins \cup {"small", "ilist", "u", "ud", "bint", "bdec"} \cup ExtUser
AllTypes       == SimpleTypes \cup AnonTypes
                  \cup {"sc", "grp", "root", "anyAtomicType", "anySimpleType", "anyType", "v"}
VBases         == {"int", "integer", "decimal", "string"}       \* what v may restrict

BaseOf(T) == CASE T = "short"   -> "int"
               [] T = "int"     -> "long"
               [] T = "long"    -> "integer"
               [] T = "integer" -> "decimal"
               [] T = "unsignedLong" -> "nonNegativeInteger"
               [] T = "nonNegativeInteger" -> "integer"
               [] T = "bint"    -> "integer"      \* bint IS xs:integer (an alias whose values are digit sequences)
               [] T = "bdec"    -> "decimal"      \* bdec IS xs:decimal
               [] T \in AnonTypes -> AnonBase(T)  \* anonymous restriction
               [] T \in ChainTypes -> IF ChainDepth(T) = 1 THEN "short" ELSE ChainNames[ChainDepth(T) - 1]
               [] T = "recent"  -> "dateTimeStamp"
               [] T = "dateTimeStamp" -> "dateTime"
               [] T \in {"decimal", "string", "date", "boolean", "gYearMonth", "gYear", "qname", "dateTime"} -> "anyAtomicType"
               [] T = "anyAtomicType" -> "anySimpleType"
               [] T \in {"ilist", "u", "ud"} -> "anySimpleType"
               [] T = "anySimpleType" -> "anyType"
               [] T = "small"   -> "int"          \* derived by restriction
               [] T = "sc"      -> "decimal"      \* derived by extension (simple content)
               [] T \in {"grp", "root"} -> "anyType"
RECURSIVE Chain(_)                         \* InstanceOfChain: T and all its base types
Chain(T) == IF T = "anyType" THEN {T} ELSE {T} \cup Chain(BaseOf(T))

(* the schema-dependent type v: a restriction (no facet) of the type of kid 1 *)
VBase(S)      == IF Len(S.kids) >= 1 /\ S.kids[1].ty \in VBases THEN S.kids[1].ty ELSE "string"
ChainS(S, T)  == IF T = "v" THEN {"v"} \cup Chain(VBase(S)) ELSE Chain(T)
(* substitution group: the type of the member m for a head of type T (derived from it) *)
SgHeads == {"decimal", "integer", "int"}
SgMember(T) == CASE T = "decimal" -> "int" [] T = "integer" -> "int" [] T = "int" -> "small"

HasSimpleValue(T) == T \in SimpleTypes \cup AnonTypes \cup {"sc", "v"}      \* simple or simple-content type
ContentType(T)    == IF T = "sc" THEN "decimal" ELSE IF T \in AnonTypes THEN AnonBase(T) ELSE T
(* the datatype class of a value of type T: the nearest built-in atomic type *)
AtomClass(T) == CASE T = "small" -> "int" [] T = "bint" -> "bigInteger" [] T = "bdec" -> "bigDecimal"
                  [] T = "qname" -> "QName" [] T \in ChainTypes -> "short" [] T = "recent" -> "dateTimeStamp" [] OTHER -> T

(* numbers that do not fit 32 bits (nor a double): non-negative, [ip, fp] digit sequences, *)
(* ip without leading zeros, fp without trailing zeros                                      *)
RECURSIVE StripZ(_)
StripZ(d) == IF Len(d) > 1 /\ d[1] = "0" THEN StripZ(Tail(d)) ELSE d
RECURSIVE StripTZ(_)
StripTZ(d) == IF d # <<>> /\ d[Len(d)] = "0" THEN StripTZ(SubSeq(d, 1, Len(d)-1)) ELSE d
VBig(tag, s) == LET c == Collapse(s) IN
                [t |-> tag, ip |-> StripZ(IF IntPart(c) = <<>> THEN <<"0">> ELSE IntPart(c)), fp |-> StripTZ(FrcPart(c))]
IsBig(v) == "ip" \in DOMAIN v
RECURSIVE LexCmp(_, _, _)       \* digit sequences of equal length
LexCmp(a, b, i) == IF i > Len(a) THEN 0
                   ELSE IF DigitVal(a[i]) < DigitVal(b[i]) THEN 0 - 1
                   ELSE IF DigitVal(a[i]) > DigitVal(b[i]) THEN 1
                   ELSE LexCmp(a, b, i + 1)
DigCmp(a, b) == IF Len(a) < Len(b) THEN 0 - 1 ELSE IF Len(a) > Len(b) THEN 1 ELSE LexCmp(a, b, 1)
RECURSIVE FrcCmp(_, _, _)       \* fraction digits, the shorter one is padded with zeros
FrcCmp(a, b, i) == IF i > Len(a) /\ i > Len(b) THEN 0
                   ELSE LET x == IF i > Len(a) THEN 0 ELSE DigitVal(a[i])
                            y == IF i > Len(b) THEN 0 ELSE DigitVal(b[i])
                        IN IF x < y THEN 0 - 1 ELSE IF x > y THEN 1 ELSE FrcCmp(a, b, i + 1)
BigCmp(x, y) == LET c == DigCmp(x.ip, y.ip) IN IF c # 0 THEN c ELSE FrcCmp(x.fp, y.fp, 1)
CmpOps == {"eq", "ne", "lt", "le", "gt", "ge"}
OpHolds(op, c) == CASE op = "eq" -> c = 0 [] op = "ne" -> c # 0 [] op = "lt" -> c < 0
                    [] op = "le" -> c <= 0 [] op = "gt" -> c > 0 [] op = "ge" -> c >= 0

(* xs:dateTime lexicals of the universe: YYYY-MM-DDThh:mm:ss with an optional Z *)
IsDTLex(s) == /\ Len(s) \in {19, 20} /\ IsDateLex(SubSeq(s, 1, 10)) /\ s[11] = "T" /\ s[14] = ":" /\ s[17] = ":"
              /\ \A i \in {12, 13, 15, 16, 18, 19} : IsDigit(s[i])
              /\ NatOf(SubSeq(s, 12, 13)) < 24 /\ NatOf(SubSeq(s, 15, 16)) < 60 /\ NatOf(SubSeq(s, 18, 19)) < 60
              /\ Len(s) = 20 => s[20] = "Z"
ValidLex(T, s) ==
  LET c == Collapse(s) IN
  CASE T \in {"int", "integer"} -> IsIntLex(c)
    [] T = "small"   -> IsIntLex(c) /\ IntOf(c) <= 10
    [] T \in ChainTypes -> IsIntLex(c) /\ IntOf(c) \in (0 - 32768)..32767
    [] T = "dateTime" -> IsDTLex(c)
    [] T \in {"dateTimeStamp", "recent"} -> IsDTLex(c) /\ Len(c) = 20          \* the time zone is REQUIRED
    [] T \in {"decimal", "sc"} -> IsDecLex(c)
    [] T = "string"  -> TRUE
    [] T = "date"    -> IsDateLex(c)
    [] T = "boolean" -> IsBoolLex(c)
    [] T = "ilist"   -> \A i \in 1..Len(Toks(s)) : IsIntLex(Toks(s)[i])
    [] T = "ud"      -> Collapse(s) = s
    [] T \in {"long", "unsignedLong"} -> AllDigits(c) /\ Len(c) <= 18   \* below 2^63 whatever the digits
    [] T = "bint"    -> AllDigits(c)
    [] T = "bdec"    -> IsDecLex(c) /\ ~Signed(c)
    [] T = "gYear"   -> LET b == IF c # <<>> /\ c[1] = "-" THEN Tail(c) ELSE c IN Len(b) = 4 /\ AllDigits(b) /\ NatOf(b) # 0
    [] T = "gYearMonth" -> LET b == IF c # <<>> /\ c[1] = "-" THEN Tail(c) ELSE c IN
                           /\ Len(b) = 7 /\ b[5] = "-" /\ AllDigits(SubSeq(b, 1, 4)) /\ AllDigits(SubSeq(b, 6, 7))
                           /\ NatOf(SubSeq(b, 1, 4)) # 0 /\ NatOf(SubSeq(b, 6, 7)) \in 1..12     \* no year 0000: valid in BOTH versions
    [] T = "qname"   -> c # <<>> /\ (\A i \in 1..Len(c) : c[i] # " ")
    [] T = "u"       -> Collapse(s) = s           \* the xs:string member accepts everything; lexicals with
                                                  \* surrounding white space are outside the universe (XSD 1.0
                                                  \* and 1.1 normalise them differently before the member test)
    [] T = "grp"     -> s = <<>>

(* atomic values are tagged records with type-specific field names *)
VInt(tag, n) == [t |-> tag, i |-> n]
VDec(p)      == [t |-> "decimal", u |-> p[1], sc |-> p[2]]
VStr(s)      == [t |-> "string", s |-> s]
VDate(d)     == [t |-> "date", y |-> d[1], m |-> d[2], d |-> d[3]]
VBool(b)     == [t |-> "boolean", b |-> b]
VUntyped(s)  == [t |-> "untypedAtomic", s |-> s]

(* XDM typed value = SEQUENCE of atomic values (XSD part 2 lexical mappings) *)
TypedValue(T, s) ==
  LET c == Collapse(s) IN
  CASE T \in {"int", "integer", "small"} \cup ChainTypes -> <<VInt(AtomClass(T), IntOf(c))>>
    [] T \in DTTypes -> <<[t |-> AtomClass(T), y |-> NatOf(SubSeq(c, 1, 4)), m |-> NatOf(SubSeq(c, 6, 7)), d |-> NatOf(SubSeq(c, 9, 10)),
                           h |-> NatOf(SubSeq(c, 12, 13)), mi |-> NatOf(SubSeq(c, 15, 16)), sec |-> NatOf(SubSeq(c, 18, 19)),
                           z |-> (Len(c) = 20)]>>
    [] T \in {"decimal", "sc"} -> <<VDec(DecOf(c))>>
    [] T = "string"  -> <<VStr(s)>>                       \* whiteSpace = preserve
    [] T = "date"    -> <<VDate(DateOf(c))>>
    [] T = "boolean" -> <<VBool(BoolOf(c))>>
    [] T = "ilist"   -> [i \in 1..Len(Toks(s)) |-> VInt("int", IntOf(Toks(s)[i]))]
    [] T = "u"       -> IF IsIntLex(s) /\ s # <<>> THEN <<VInt("int", IntOf(s))>> ELSE <<VStr(s)>>
    [] T = "gYear"   -> LET b == IF c[1] = "-" THEN Tail(c) ELSE c IN
                        <<[t |-> "gYear", ly |-> SignOf(c) * NatOf(b)]>>
    [] T = "gYearMonth" -> LET b == IF c[1] = "-" THEN Tail(c) ELSE c IN
                        <<[t |-> "gYearMonth", ly |-> SignOf(c) * NatOf(SubSeq(b, 1, 4)), m |-> NatOf(SubSeq(b, 6, 7))]>>
    [] T = "qname"   -> LET k == IF \E i \in 1..Len(c) : c[i] = ":" THEN CHOOSE i \in 1..Len(c) : c[i] = ":" ELSE 0 IN
                        <<[t |-> "QName", ns |-> "urn:t", lo |-> SubSeq(c, k + 1, Len(c))]>>     \* prefix t and the default
                                                                                                 \* namespace are both urn:t
    [] T = "long"    -> <<VBig("long", s)>>
    [] T = "unsignedLong" -> <<VBig("unsignedLong", s)>>
    [] T = "bint"    -> <<VBig("bigInteger", s)>>
    [] T = "bdec"    -> <<VBig("bigDecimal", s)>>
    [] T = "ud"      -> IF IsDecLex(s) /\ s # <<>> THEN <<VDec(DecOf(s))>> ELSE <<VStr(s)>>   \* first member that accepts
(* the same for the schema-dependent type *)
TypedValueS(S, T, s) == IF T = "v" THEN TypedValue(VBase(S), s)
                        ELSE IF T \in AnonTypes THEN TypedValue(AnonBase(T), s) ELSE TypedValue(T, s)
ValidLexS(S, T, s)   == IF T = "v" THEN ValidLex(VBase(S), s)
                        ELSE IF T \in AnonTypes THEN ValidLex(AnonBase(T), s) ELSE ValidLex(T, s)

---------------------------------------------------------------------------
(* Lexical representatives per type *)
L7 == <<"7">>    Lsp7 == <<" ","7"," ">>    Lm3 == <<"-","3">>    L12 == <<"1","2">>
L3 == <<"3">>    L5 == <<"5">>              Lx == <<"x">>
Ldec == <<"2",".","5","0">>
Ld1 == <<"2","0","0","0","-","0","1","-","0","1">>
Ld2 == <<"2","0","0","1","-","1","2","-","3","1">>
Llist == <<"1"," ","2">>      Llist2 == <<" ","3"," "," ","4"," ">>
B53   == <<"9","0","0","7","1","9","9","2","5","4","7","4","0","9","9","2">>        \* 2^53
B53p1 == <<"9","0","0","7","1","9","9","2","5","4","7","4","0","9","9","3">>        \* 2^53 + 1: not a double
B53p2 == <<"9","0","0","7","1","9","9","2","5","4","7","4","0","9","9","4">>
D53h  == B53p1 \o <<".","5">>
B30   == <<"1","2","3","4","5","6","7","8","9","0","1","2","3","4","5","6","7","8","9","0",
           "1","2","3","4","5","6","7","8","9","0">>
BigLits == {B53, B53p1, B53p2, D53h, B30}          \* literals the probes compare with
Lym1 == <<"1","9","9","9","-","0","9">>     Lym2 == <<"-","0","0","0","1","-","0","5">>
Lgy1 == <<"1","9","9","9">>                 Lgy2 == <<"-","0","0","0","1">>
L104 == <<"1","0","4">>
Ldt1 == Ld1 \o <<"T","1","0",":","1","0",":","1","0","Z">>
Ldt2 == Ld2 \o <<"T","2","3",":","5","9",":","0","0">>
Ldt3 == Ld2 \o <<"T","0","0",":","0","0",":","0","1","Z">>
Lqn1 == <<"x">>                             Lqn2 == <<"t",":","x">>

LexSeq(T) == CASE T = "int"     -> <<L7, Lsp7, Lm3, L12>>
               [] T = "integer" -> <<Lm3, L7>>
               [] T = "small"   -> <<L7, Lm3>>
               [] T \in ChainTypes -> <<L104, Lm3>>
               [] T = "dateTime" -> <<Ldt2, Ldt1>>
               [] T \in {"dateTimeStamp", "recent"} -> <<Ldt1, Ldt3>>
               [] T = "decimal" -> <<Ldec, L7>>
               [] T = "sc"      -> <<Ldec, L7>>
               [] T = "string"  -> <<Lx, <<>>, Lsp7>>
               [] T = "date"    -> <<Ld1, Ld2>>
               [] T = "boolean" -> <<LTrue, <<"1">>, LFalse>>
               [] T = "ilist"   -> <<Llist, Llist2, L7>>
               [] T = "u"       -> <<L7, Lx, Lm3>>
               [] T = "ud"      -> <<Lx, Ldec>>
               [] T = "gYearMonth" -> <<Lym2, Lym1>>
               [] T = "gYear"   -> <<Lgy2, Lgy1>>
               [] T = "qname"   -> <<Lqn1, Lqn2>>
               [] T = "long"    -> <<B53p1, B53>>
               [] T = "unsignedLong" -> <<B53p2, B53p1>>
               [] T = "bint"    -> <<B53, B30>>
               [] T = "bdec"    -> <<D53h, B53p1>>
               [] T = "grp"     -> << <<>> >>
Lex(T) == {LexSeq(T)[i] : i \in 1..(IF LexCap < Len(LexSeq(T)) THEN LexCap ELSE Len(LexSeq(T)))}
SecondLex(T) == CASE T \in {"int", "integer", "small", "decimal", "sc", "u", "ud", "ilist"} \cup ChainTypes -> L7
                  [] T \in DTTypes -> Ldt3
                  [] T = "string" -> Lx  [] T = "date" -> Ld1  [] T = "boolean" -> LTrue
                  [] T \in BigTypes -> B53p1
                  [] T = "gYearMonth" -> Lym1 [] T = "gYear" -> Lgy1 [] T = "qname" -> Lqn1
                  [] T = "grp" -> <<>>
(* default value of the declaration at position pos (kid3 differs from kid1 on purpose) *)
DefaultLex(T, pos) == CASE T \in {"int", "integer", "small", "decimal", "sc", "u", "ud", "string"} \cup ChainTypes -> IF pos = 3 THEN L5 ELSE L3
                        [] T \in DTTypes -> Ldt1
                        [] T = "date"    -> IF pos = 3 THEN Ld1 ELSE Ld2
                        [] T = "boolean" -> IF pos = 3 THEN LFalse ELSE LTrue
                        [] T = "ilist"   -> IF pos = 3 THEN Llist2 ELSE Llist
                        [] T \in BigTypes -> B53p1
                        [] T = "gYearMonth" -> Lym1 [] T = "gYear" -> Lgy1 [] T = "qname" -> Lqn1
(* types an instance may name in xsi:type: derived from the declared type *)
XsiTypes(T) == CASE T = "int" -> {"small"}  [] T = "integer" -> {"int"}  [] T = "decimal" -> {"int", "small"}
                 [] OTHER -> {}

---------------------------------------------------------------------------
(* Schemas *)
KidName(pos) == <<"a", "b", "a">>[pos]
KidSeqs == UNION {[1..n -> KidMenu] : n \in MinKids..MaxKids}
SchemaOK(ks) ==
  /\ Len(ks) = 3 => /\ ks[1].ty = ks[3].ty          \* Element Declarations Consistent
                    /\ ks[2].mn = 1                  \* Unique Particle Attribution
  /\ \A i \in 1..Len(ks) : ks[i].dv => ks[i].ty # "grp"
  /\ \A i \in 1..Len(ks) : ks[i].anon =>          \* two anonymous types are two types: not for the a ... a pair
        ks[i].ty \in AnonBases /\ ~ks[i].sg /\ ~(Len(ks) = 3 /\ i \in {1, 3})
  /\ \A i \in 1..Len(ks) : ks[i].sg =>            \* the minimal substitution group: kid 1 only, no kid 3,
        i = 1 /\ Len(ks) <= 2 /\ ks[i].ty \in SgHeads /\ ~ks[i].nil /\ ~ks[i].dv   \* plain head
AttSets == {as \in SUBSET AttrMenu : Cardinality(as) <= MaxAtts
                                     /\ \A x, y \in as : x.nm = y.nm => x = y}
Schemas == {[kids |-> ks, atts |-> as] : ks \in {k \in KidSeqs : SchemaOK(k)}, as \in AttSets}

AttDecl(S, nm) == CHOOSE d \in S.atts : d.nm = nm
AttNames(S)    == {d.nm : d \in S.atts}

---------------------------------------------------------------------------
(* Instances: inst.kids[i] = sequence of occurrences of kid i; inst.atts[nm] = lexical or NoLex *)
Occ(lx, nil, xt, at, sub) == [lx |-> lx, nil |-> nil, xt |-> xt, at |-> at, sub |-> sub, mem |-> FALSE, nf |-> FALSE]
MemOcc(lx) == [lx |-> lx, nil |-> FALSE, xt |-> "none", at |-> NoLex, sub |-> NoLex, mem |-> TRUE, nf |-> FALSE]
(* xsi:nil="false" on an element that has content: the element is NOT nilled *)
NfOcc(lx)  == [lx |-> lx, nil |-> FALSE, xt |-> "none", at |-> NoLex, sub |-> NoLex, mem |-> FALSE, nf |-> TRUE]

OccVariants(d, pos) ==
  (IF d.ty = "grp"
   THEN {Occ(<<>>, FALSE, "none", NoLex, s) : s \in (IF LexCap = 1 THEN {NoLex, LTrue} ELSE {NoLex, LTrue, <<"0">>})}
   ELSE {Occ(l, FALSE, "none", a, NoLex) : l \in Lex(d.ty), a \in (IF d.ty = "sc" THEN {NoLex, L7} ELSE {NoLex})})
  \cup (IF d.nil THEN {Occ(<<>>, TRUE, "none", NoLex, NoLex)} ELSE {})
  \cup (IF d.nil /\ d.ty # "grp" THEN {NfOcc(SecondLex(d.ty))} ELSE {})
  \cup (IF d.dv THEN {Occ(<<>>, FALSE, "none", NoLex, NoLex)} ELSE {})
  \cup (IF XsiOn /\ ~d.anon THEN {Occ(l, FALSE, x, NoLex, NoLex) : x \in XsiTypes(d.ty), l \in {L7, Lm3}} ELSE {})
  \cup (IF VOn /\ pos = 1 /\ d.ty \in VBases /\ ~d.sg /\ ~d.anon THEN {Occ(L7, FALSE, "v", NoLex, NoLex)} ELSE {})
  \cup (IF d.sg THEN {MemOcc(l) : l \in Lex(SgMember(d.ty))} ELSE {})

Seconds(d) == {Occ(SecondLex(d.ty), FALSE, "none", NoLex, NoLex)}
              \cup (IF d.sg THEN {MemOcc(SecondLex(SgMember(d.ty)))} ELSE {})
OccSeqs(d, pos) ==
  (IF d.mn = 0 THEN {<<>>} ELSE {})
  \cup {<<o>> : o \in OccVariants(d, pos)}
  \cup (IF d.mx = 2 THEN {<<o, o2>> : o \in OccVariants(d, pos), o2 \in Seconds(d)} ELSE {})

AttChoices(d) == (IF d.use = "req" THEN {} ELSE {NoLex}) \cup Lex(d.ty)

RECURSIVE KidProd(_, _)
KidProd(S, i) == IF i > Len(S.kids) THEN {<<>>}
                 ELSE {<<o>> \o r : o \in OccSeqs(S.kids[i], i), r \in KidProd(S, i + 1)}
RECURSIVE AttProd(_, _)
AttProd(S, names) ==
  IF names = {} THEN {<<>>}                     \* <<>> is the function with the empty domain
  ELSE LET nm == CHOOSE x \in names : TRUE IN
       {(nm :> l) @@ r : l \in AttChoices(AttDecl(S, nm)), r \in AttProd(S, names \ {nm})}
Instances(S) == {[kids |-> ko, atts |-> ao] : ko \in KidProd(S, 1), ao \in AttProd(S, AttNames(S))}

(* effective type and text of an occurrence (XSD part 1, 3.3.4: xsi:type overrides, *)
(* an empty element with a default takes the default, 3.3.4 clause 5.1)             *)
DeclTy(d)          == IF d.anon THEN Anon(d.ty) ELSE d.ty                \* the type of the declaration
EffType(d, o)      == IF o.xt # "none" THEN o.xt ELSE IF o.mem THEN SgMember(d.ty) ELSE DeclTy(d)
EffText(d, pos, o) == IF o.lx = <<>> /\ d.dv /\ ~o.nil THEN DefaultLex(ContentType(EffType(d, o)), pos) ELSE o.lx

(* validity, stated independently of the generator above *)
ValidInstance(S, inst) ==
  /\ DOMAIN inst.kids = 1..Len(S.kids)
  /\ \A i \in 1..Len(S.kids) :
       LET d == S.kids[i] IN
       /\ Len(inst.kids[i]) \in d.mn..d.mx
       /\ \A j \in 1..Len(inst.kids[i]) :
            LET o == inst.kids[i][j] IN
            /\ o.nil => d.nil /\ o.lx = <<>> /\ o.sub = NoLex
            /\ o.xt # "none" => d.ty \in ChainS(S, o.xt) /\ o.xt # d.ty /\ (o.xt = "v" => i = 1) /\ ~d.anon
            /\ o.mem => d.sg /\ o.xt = "none" /\ ~o.nil
            /\ o.nf => d.nil /\ ~o.nil
            /\ ~o.nil => ValidLexS(S, EffType(d, o), EffText(d, i, o))
            /\ o.at # NoLex => EffType(d, o) = "sc" /\ ValidLex("int", o.at)
            /\ o.sub # NoLex => EffType(d, o) = "grp" /\ ValidLex("boolean", o.sub)
  /\ DOMAIN inst.atts = AttNames(S)
  /\ \A nm \in AttNames(S) :
       LET d == AttDecl(S, nm) IN
       IF inst.atts[nm] = NoLex THEN d.use # "req" ELSE ValidLex(d.ty, inst.atts[nm])

---------------------------------------------------------------------------
(* Flattening to numbered nodes in document order (element, its attributes, its children). *)
(* A node is [par, k, s, i, j, lx]:  k is the XDM kind of spec/XDM.tla ("ea" "eb" "xa" "xc" *)
(* "t"), "em" for an element m (substitution group member) or "xx" for an xsi:* attribute; *)
(* (s, i, j) says where the node comes from:          *)
(*   "root" | "ratt_a" "ratt_c" (root attributes; dflt = TRUE when added by the PSVI)      *)
(*   "kid" i j | "xnil" i j | "xtype" i j | "katt" i j (attribute a of an sc element)      *)
(*   "ktext" i j | "sub" i j (the b inside a grp) | "subtext" i j                          *)
Node(par, k, s, i, j, lx, dflt) == [par |-> par, k |-> k, s |-> s, i |-> i, j |-> j, lx |-> lx, dflt |-> dflt]

RootAtts(S, inst) ==   \* a before c; absent attributes with a default are PSVI nodes
  LET one(nm, kk, tag) ==
        IF nm \notin AttNames(S) THEN <<>>
        ELSE IF inst.atts[nm] # NoLex THEN <<Node(1, kk, tag, 0, 0, inst.atts[nm], FALSE)>>
        ELSE IF AttDecl(S, nm).use = "dflt" THEN <<Node(1, kk, tag, 0, 0, DefaultLex(AttDecl(S, nm).ty, 1), TRUE)>>
        ELSE <<>>
  IN one("a", "xa", "ratt_a") \o one("c", "xc", "ratt_c")

(* nodes of occurrence j of kid i; `at` is the id the element node will get *)
OccNodes(d, i, j, o, at) ==
  LET ek   == IF o.mem THEN "em" ELSE IF KidName(i) = "a" THEN "ea" ELSE "eb"
      el   == <<Node(1, ek, "kid", i, j, o.lx, FALSE)>>
      xa   == (IF o.nil THEN <<Node(at, "xx", "xnil", i, j, LTrue, FALSE)>> ELSE <<>>)
              \o (IF o.nf THEN <<Node(at, "xx", "xnil", i, j, LFalse, FALSE)>> ELSE <<>>)
              \o (IF o.xt # "none" THEN <<Node(at, "xx", "xtype", i, j, <<o.xt>>, FALSE)>> ELSE <<>>)
              \o (IF o.at # NoLex THEN <<Node(at, "xa", "katt", i, j, o.at, FALSE)>> ELSE <<>>)
      tx   == IF o.lx # <<>> THEN <<Node(at, "t", "ktext", i, j, o.lx, FALSE)>> ELSE <<>>
      sb   == IF o.sub # NoLex
              THEN <<Node(at, "eb", "sub", i, j, o.sub, FALSE),
                     Node(at + Len(xa) + 1, "t", "subtext", i, j, o.sub, FALSE)>>
              ELSE <<>>
  IN el \o xa \o tx \o sb

RECURSIVE KidNodes(_, _, _, _, _)
KidNodes(S, inst, i, j, at) ==      \* from occurrence (i, j) on; `at` = next free id
  IF i > Len(S.kids) THEN <<>>
  ELSE IF j > Len(inst.kids[i]) THEN KidNodes(S, inst, i + 1, 1, at)
  ELSE LET ns == OccNodes(S.kids[i], i, j, inst.kids[i][j], at)
       IN ns \o KidNodes(S, inst, i, j + 1, at + Len(ns))

Flatten(S, inst) ==
  LET ra == RootAtts(S, inst) IN
  <<Node(0, "eb", "root", 0, 0, <<>>, FALSE)>> \o ra \o KidNodes(S, inst, 1, 1, 2 + Len(ra))

---------------------------------------------------------------------------
(* Annotations.  ty: type name | "untyped" (element without schema) | "untypedAtomic";    *)
(* tv: typed value (sequence) or <<"#novalue">> for element-only content (FOTY0012)        *)
NoValue == <<[t |-> "#novalue"]>>
Ann(ty, nilled, tv) == [ty |-> ty, nilled |-> nilled, tv |-> tv]
IsTypedKind(k) == k \in {"ea", "eb", "em", "xa", "xc"}

AnnotNode(S, inst, nd) ==
  CASE nd.s = "root" -> Ann("root", FALSE, NoValue)
    [] nd.s \in {"ratt_a", "ratt_c"} ->
         LET d == AttDecl(S, IF nd.s = "ratt_a" THEN "a" ELSE "c") IN Ann(d.ty, FALSE, TypedValue(d.ty, nd.lx))
    [] nd.s = "kid" ->
         LET d == S.kids[nd.i]
             o == inst.kids[nd.i][nd.j]
             T == EffType(d, o)
         IN IF T = "grp" THEN Ann(T, FALSE, NoValue)
            ELSE IF o.nil THEN Ann(T, TRUE, <<>>)              \* XDM 6.2.2: nilled => typed value ()
            ELSE Ann(T, FALSE, TypedValueS(S, T, EffText(d, nd.i, o)))
    [] nd.s = "katt" -> Ann("int", FALSE, TypedValue("int", nd.lx))
    [] nd.s = "sub"  -> Ann("boolean", FALSE, TypedValue("boolean", nd.lx))
    [] OTHER -> Ann("-", FALSE, NoValue)                       \* text nodes, xsi:* attributes: not judged

Annot(S, inst) == LET f == Flatten(S, inst) IN [n \in 1..Len(f) |-> AnnotNode(S, inst, f[n])]

(* schema-less data model: every element is xs:untyped, every attribute xs:untypedAtomic,  *)
(* the typed value is the string value as xs:untypedAtomic; no PSVI attributes             *)
UntypedNode(S, inst, nd) ==
  CASE nd.dflt -> Ann("absent", FALSE, NoValue)
    [] nd.s = "kid" -> IF S.kids[nd.i].ty = "grp" THEN Ann("untyped", FALSE, NoValue)
                       ELSE Ann("untyped", FALSE, <<VUntyped(nd.lx)>>)
    [] nd.s = "sub"  -> Ann("untyped", FALSE, <<VUntyped(nd.lx)>>)
    [] nd.s \in {"ratt_a", "ratt_c", "katt"} -> Ann("untypedAtomic", FALSE, <<VUntyped(nd.lx)>>)
    [] nd.s = "root" -> Ann("untyped", FALSE, NoValue)
    [] OTHER -> Ann("-", FALSE, NoValue)
UntypedAnnot(S, inst) == LET f == Flatten(S, inst) IN [n \in 1..Len(f) |-> UntypedNode(S, inst, f[n])]

(* derives-from: `instance of element(_, Q)` / `attribute(_, Q)` (nilled elements need Q?) *)
QueryTypes == {"short", "int", "long", "integer", "decimal", "string", "date", "boolean",
               "unsignedLong", "nonNegativeInteger", "gYearMonth", "gYear", "qname",
               "small", "ilist", "u", "ud", "v", "sc", "grp", "anyAtomicType", "anySimpleType", "anyType"}
(* the extension: which types a schema uses, the XSD versions it exists in, the extra queries of a version *)
UsedTypes(S) == {S.kids[i].ty : i \in 1..Len(S.kids)} \cup {d.ty : d \in S.atts}
UsedChain(S) == UNION {ChainS(S, T) : T \in UsedTypes(S)}
UsesExt(S)   == UsedChain(S) \cap ExtUser # {} \/ UsedTypes(S) \cap ExtTypes # {}
Versions(S)  == IF UsedChain(S) \cap Xsd11Only # {} THEN {"1.1"} ELSE {"1.0", "1.1"}
InVersion(T, ver) == ver = "1.1" \/ Chain(T) \cap Xsd11Only = {}
(* the user types of the extension a schema DEFINES (all that its versions allow): only defined types are asked *)
DefinedExt(S) == IF ~UsesExt(S) THEN {} ELSE IF Versions(S) = {"1.1"} THEN ExtUser ELSE ChainTypes
XQ(S, ver)   == IF UsesExt(S) THEN {Q \in DefinedExt(S) \cup {"dateTime", "dateTimeStamp"} : InVersion(Q, ver)} ELSE {}
(* `data(.) instance of xs:Q` for an atomic value: Q is the type of the value or one of its bases (XPath 2.5.5.2) *)
AtomInstanceOf(v, Q) == v.t \in AtomicBuiltins /\ Q \in Chain(v.t)
AtomQueries(ver) == {Q \in AtomicBuiltins \ {"qname"} : InVersion(Q, ver)}
InstanceOf(S, a, Q, optional) == a.ty \in AllTypes /\ Q \in ChainS(S, a.ty) /\ (a.nilled => optional)

---------------------------------------------------------------------------
(* Probes: what arithmetic / comparison must give when they use the typed value.          *)
(* Results: [k |-> "val", v |-> atomic] | [k |-> "empty"] | [k |-> "err"] | [k |-> "na"]   *)
(* "na" = the operand types are not comparable by the probe and the outcome is the        *)
(* business of other properties (C07): not a vector.                                       *)
RVal(v) == [k |-> "val", v |-> v]
RK(k)   == [k |-> k]
IntTags  == {"short", "int", "integer"}
IsNum(v) == v.t \in IntTags \cup {"decimal"}

RECURSIVE Pow10(_)
Pow10(n) == IF n = 0 THEN 1 ELSE 10 * Pow10(n - 1)

(* `. + 1`  (op:numeric-add; xs:int is promoted to xs:integer, F&O 4.2) *)
Plus1(tv) ==
  IF tv = NoValue THEN RK("na")
  ELSE IF tv = <<>> THEN RK("empty")
  ELSE IF Len(tv) > 1 THEN RK("err")
  ELSE LET v == tv[1] IN
       CASE v.t \in IntTags -> RVal(VInt("integer", v.i + 1))
         [] v.t = "decimal" -> RVal(VDec(NormDec(v.u + Pow10(v.sc), v.sc)))
         [] v.t = "string"  -> RK("err")                     \* XPTY0004: typed, NOT cast like untyped
         [] OTHER -> RK("na")

(* `. idiv 2`  (op:numeric-integer-divide: the quotient truncated towards zero, an xs:integer) *)
TruncDiv(a, b) == IF a >= 0 THEN a \div b ELSE 0 - ((0 - a) \div b)         \* b > 0
IDiv2(tv) ==
  IF tv = NoValue THEN RK("na")
  ELSE IF tv = <<>> THEN RK("empty")
  ELSE IF Len(tv) > 1 THEN RK("err")
  ELSE LET v == tv[1] IN
       CASE v.t \in IntTags -> RVal(VInt("integer", TruncDiv(v.i, 2)))
         [] v.t = "decimal" -> RVal(VInt("integer", TruncDiv(v.u, 2 * Pow10(v.sc))))
         [] v.t = "string"  -> RK("err")
         [] OTHER -> RK("na")

(* `sum(a)` over the kids named a: fn:sum adds the TYPED values (integers stay xs:integer, a decimal *)
(* among them makes the sum xs:decimal)                                                              *)
RECURSIVE SumInt(_)
SumInt(vs) == IF vs = <<>> THEN 0 ELSE Head(vs).i + SumInt(Tail(vs))
RECURSIVE MaxSc(_)
MaxSc(vs) == IF vs = <<>> THEN 0 ELSE LET r == MaxSc(Tail(vs)) h == IF Head(vs).t = "decimal" THEN Head(vs).sc ELSE 0
                                      IN IF h > r THEN h ELSE r
RECURSIVE SumScaled(_, _)
SumScaled(vs, sc) == IF vs = <<>> THEN 0
                     ELSE (IF Head(vs).t = "decimal" THEN Head(vs).u * Pow10(sc - Head(vs).sc) ELSE Head(vs).i * Pow10(sc))
                          + SumScaled(Tail(vs), sc)
SumProbe(vs) ==    \* vs: the single typed values of the kids named a, in document order
  IF vs = <<>> \/ \E i \in 1..Len(vs) : ~IsNum(vs[i]) THEN RK("na")
  ELSE IF \A i \in 1..Len(vs) : vs[i].t # "decimal" THEN RVal(VInt("integer", SumInt(vs)))
  ELSE RVal(VDec(NormDec(SumScaled(vs, MaxSc(vs)), MaxSc(vs))))
(* `. eq xs:T("<its own text>")`: a typed value equals the value its constructor makes of the same text *)
EqSelf(tv) == IF tv # NoValue /\ Len(tv) = 1 /\ tv[1].t \in VersionedTags THEN RVal(VBool(TRUE)) ELSE RK("na")

(* `. = 7`  (general comparison, existential over the items of the typed value) *)
NumEq7(v) == IF v.t = "decimal" THEN v.u = 7 * Pow10(v.sc) ELSE v.i = 7
Eq7(tv) ==
  IF tv = NoValue THEN RK("na")
  ELSE IF \E i \in 1..Len(tv) : ~IsNum(tv[i]) /\ tv[i].t # "string" THEN RK("na")
  ELSE IF \E i \in 1..Len(tv) : tv[i].t = "string" THEN RK("err")
  ELSE RVal(VBool(\E i \in 1..Len(tv) : NumEq7(tv[i])))

(* `. lt xs:date('2001-01-01')`  (value comparison) *)
DateLt(v) == \/ v.y < 2001
             \/ v.y = 2001 /\ v.m < 1
             \/ v.y = 2001 /\ v.m = 1 /\ v.d < 1
LtDate(tv) ==
  IF tv = NoValue THEN RK("na")
  ELSE IF tv = <<>> THEN RK("empty")
  ELSE IF Len(tv) > 1 THEN RK("err")
  ELSE IF tv[1].t = "date" THEN RVal(VBool(DateLt(tv[1])))
  ELSE IF tv[1].t \in {"dateTime", "dateTimeStamp"} THEN RK("na") ELSE RK("err")

---------------------------------------------------------------------------
(* What the annotations do NOT depend on (the binding enumerates these renderings of ONE instance): *)
(*  - comments / processing instructions beside the root element (XDM 6.1: children of the document  *)
(*    node; validation concerns the document element only)                                          *)
(*  - where the prefix used in an xsi:type value is declared: the QName is resolved with the          *)
(*    namespaces IN SCOPE AT ITS ELEMENT (XSD part 1, 3.3.4 clause 4 / Namespaces in XML 6.1), a       *)
(*    declaration on the element overrides the root's                                                *)
(*  - the API entry point that evaluates the expression and where the schema is handed over (to the    *)
(*    parser, to the call, to both)                                                                   *)
(*  - the dynamic context: a root, or NO root and a context item (element, attribute, text node) of   *)
(*    an already built, untyped node tree from which the probe navigates to the typed node            *)
EntryPoints == {"select", "iter_select", "Selector.select", "Selector.iter_select", "Selector.select+call",
                "Selector.iter_select+call", "token.get_results", "token.select_results"}
CtxItems == {"element", "attribute", "text"}
DocEnvs  == {"plain", "prolog", "epilog", "both"}
NsPlaces == {"root", "self", "redecl"}
RootBinding(place) == CASE place = "root" -> "urn:t" [] place = "self" -> "unbound" [] place = "redecl" -> "urn:other"
SelfBinding(place) == CASE place = "root" -> "unbound" [] place = "self" -> "urn:t" [] place = "redecl" -> "urn:t"
InScopeAtElement(place) == IF SelfBinding(place) # "unbound" THEN SelfBinding(place) ELSE RootBinding(place)
LawNsPlaces == \A p \in NsPlaces : InScopeAtElement(p) = "urn:t"

(* the default values written into the schema document (rendered by the binding) *)
SchemaDefaults(S) ==
  [kids |-> [p \in 1..Len(S.kids) |-> IF S.kids[p].dv THEN DefaultLex(S.kids[p].ty, p) ELSE NoLex],
   atts |-> {<<d.nm, IF d.use = "dflt" THEN DefaultLex(d.ty, 1) ELSE NoLex>> : d \in S.atts},
   xdefs |-> {<<T, BaseOf(T)>> : T \in DefinedExt(S)},       \* user types of the extension the schema needs
   vbase |-> VBase(S),                                                  \* base type of the global type v
   sgm  |-> [p \in 1..Len(S.kids) |-> IF S.kids[p].sg THEN SgMember(S.kids[p].ty) ELSE "none"]]

(* Everything the binding compares for one (schema, instance) pair, printed once by TLC *)
Vec(S, inst) ==
  LET f == Flatten(S, inst)
      A == Annot(S, inst)
      judged(n) == IsTypedKind(f[n].k)
      bign(n)   == judged(n) /\ A[n].tv # NoValue /\ Len(A[n].tv) = 1 /\ IsBig(A[n].tv[1])
  IN [f       |-> f,
      sdef    |-> SchemaDefaults(S),
      typed   |-> A,
      untyped |-> UntypedAnnot(S, inst),
      iof     |-> [n \in 1..Len(f) |-> IF judged(n) THEN {Q \in QueryTypes \cup XQ(S, "1.1") : InstanceOf(S, A[n], Q, FALSE)} ELSE {}],
      iofopt  |-> [n \in 1..Len(f) |-> IF judged(n) THEN {Q \in QueryTypes \cup XQ(S, "1.1") : InstanceOf(S, A[n], Q, TRUE)} ELSE {}],
      versions |-> Versions(S),
      xq10    |-> XQ(S, "1.0"),
      xq11    |-> XQ(S, "1.1"),
      aq10    |-> IF UsesExt(S) THEN AtomQueries("1.0") ELSE {},
      aq11    |-> IF UsesExt(S) THEN AtomQueries("1.1") ELSE {},
      atomiof |-> [n \in 1..Len(f) |-> IF judged(n) /\ UsesExt(S) /\ A[n].tv # NoValue /\ Len(A[n].tv) = 1
                                        THEN {Q \in AtomQueries("1.1") : AtomInstanceOf(A[n].tv[1], Q)} ELSE {}],
      plus1   |-> [n \in 1..Len(f) |-> IF judged(n) THEN Plus1(A[n].tv) ELSE RK("na")],
      idiv2   |-> [n \in 1..Len(f) |-> IF judged(n) THEN IDiv2(A[n].tv) ELSE RK("na")],
      eq7     |-> [n \in 1..Len(f) |-> IF judged(n) THEN Eq7(A[n].tv) ELSE RK("na")],
      ltdate  |-> [n \in 1..Len(f) |-> IF judged(n) THEN LtDate(A[n].tv) ELSE RK("na")],
      eqself  |-> [n \in 1..Len(f) |-> IF judged(n) THEN EqSelf(A[n].tv) ELSE RK("na")],
      suma    |-> LET as == SelectSeq([n \in 1..Len(f) |-> n], LAMBDA n : f[n].s = "kid" /\ f[n].k = "ea")
                  IN IF \E x \in 1..Len(as) : A[as[x]].tv = NoValue \/ Len(A[as[x]].tv) # 1 THEN RK("na")
                     ELSE SumProbe([x \in 1..Len(as) |-> A[as[x]].tv[1]]),
      envs    |-> DocEnvs,
      entries |-> EntryPoints,
      items   |-> CtxItems,
      nsplaces |-> NsPlaces,
      \* value comparisons of the big-number nodes with literals and with each other: <<.., op, holds>>
      cmplit  |-> [n \in 1..Len(f) |-> IF bign(n) THEN {<<K, op, OpHolds(op, BigCmp(A[n].tv[1], VBig("lit", K)))>> :
                                                          K \in BigLits, op \in CmpOps} ELSE {}],
      cmpnn   |-> {<<n1, n2, op, OpHolds(op, BigCmp(A[n1].tv[1], A[n2].tv[1]))>> :
                      n1 \in {n \in 1..Len(f) : bign(n)}, n2 \in {n \in 1..Len(f) : bign(n)}, op \in CmpOps}]

---------------------------------------------------------------------------
(* Laws of the definitions, evaluated by TLC for every schema / instance of the universe *)
AllLex(T) == {LexSeq(T)[i] : i \in 1..Len(LexSeq(T))}
Lexed == SimpleTypes \ {"short", "nonNegativeInteger"}      \* the types that have lexical representatives
LawLexValid == /\ \A T \in Lexed : \A l \in AllLex(T) : ValidLex(T, l)
               /\ \A T \in SgHeads : SgMember(T) # T /\ T \in Chain(SgMember(T))      \* the member's type derives from the head's
               /\ \A T \in SgHeads : \A l \in AllLex(SgMember(T)) : ValidLex(T, l)   \* ... so its lexicals are the head's too
LawChain ==    \* derives-from is reflexive, transitive, rooted in anyType; a restriction keeps the class
  /\ \A T \in AllTypes \ {"v"} : T \in Chain(T) /\ "anyType" \in Chain(T)
  /\ \A T \in AllTypes \ {"v"} : \A Q \in Chain(T) : Chain(Q) \subseteq Chain(T)
  /\ \A T \in SimpleTypes \ {"bint", "bdec", "qname"} : AtomClass(T) \in Chain(T)
  /\ \A A \in AnonTypes : Chain(A) = {A} \cup Chain(AnonBase(A))
(* the order of the big points: exact, total, and what the digit strings say *)
LawBig == LET v(K) == VBig("lit", K) IN
  /\ BigCmp(v(B53), v(B53p1)) < 0 /\ BigCmp(v(B53p1), v(D53h)) < 0 /\ BigCmp(v(D53h), v(B53p2)) < 0
  /\ BigCmp(v(B53p2), v(B30)) < 0
  /\ \A x \in BigLits, y \in BigLits : BigCmp(v(x), v(y)) = 0 - BigCmp(v(y), v(x)) /\ (BigCmp(v(x), v(y)) = 0 <=> x = y)
  /\ \A x \in BigLits, y \in BigLits, z \in BigLits :
        BigCmp(v(x), v(y)) < 0 /\ BigCmp(v(y), v(z)) < 0 => BigCmp(v(x), v(z)) < 0
  /\ \A x \in BigLits, y \in BigLits : OpHolds("le", BigCmp(v(x), v(y))) <=> ~OpHolds("gt", BigCmp(v(x), v(y)))
LawCollapse == \A T \in Lexed : \A l \in AllLex(T) :
                  /\ Collapse(Collapse(l)) = Collapse(l)
                  /\ T \notin {"string", "u", "ud"} => TypedValue(T, Collapse(l)) = TypedValue(T, l)
(* a value of a derived type is a value of the base: typed value under xsi:type = under the declaration *)
(* a = (a idiv 2) * 2 + r with |r| < 2 and r of the sign of a (truncation) *)
LawIDiv == \A a \in (0 - 7)..7 : LET q == TruncDiv(a, 2) r == a - q * 2 IN
              /\ r \in (0 - 1)..1 /\ (a >= 0 => r >= 0) /\ (a <= 0 => r <= 0)
LawRestriction == \A l \in AllLex("small") : /\ TypedValue("small", l) = TypedValue("int", l)
                                          /\ ValidLex("int", l)
LawAstro == \A ly \in {0 - 2, 0 - 1, 1, 1999} :
               /\ AstroYear("1.1", ly) = ly
               /\ ly < 0 => AstroYear("1.0", ly) = AstroYear("1.1", ly) + 1      \* one year apart before the common era
               /\ ly > 0 => AstroYear("1.0", ly) = AstroYear("1.1", ly)
(* a restriction chain keeps the datatype class and every base on the way, whatever its length; a 1.1-only  *)
(* base makes every type derived from it 1.1-only                                                          *)
LawExt == /\ \A k \in 1..MaxChain : LET T == ChainNames[k] IN
                /\ AtomClass(T) = "short" /\ {"short", "int", "long", "integer", "decimal"} \subseteq Chain(T)
                /\ {ChainNames[j] : j \in 1..k} \subseteq Chain(T) /\ Cardinality(Chain(T) \cap ChainTypes) = k
                /\ \A l \in AllLex(T) : TypedValue(T, l) = <<VInt("short", IntOf(Collapse(l)))>> /\ ValidLex("int", l)
                /\ InVersion(T, "1.0")
          /\ ~InVersion("recent", "1.0") /\ ~InVersion("dateTimeStamp", "1.0") /\ InVersion("dateTime", "1.0")
          /\ {"dateTimeStamp", "dateTime", "anyAtomicType"} \subseteq Chain("recent")
          /\ \A l \in AllLex("recent") : ValidLex("dateTimeStamp", l) /\ ValidLex("dateTime", l)
                                          /\ TypedValue("recent", l) = TypedValue("dateTimeStamp", l)
          /\ \A l \in AllLex("dateTime") : TypedValue("dateTime", l)[1].z = ValidLex("dateTimeStamp", l)
StaticLaws == LawExt /\ LawLexValid /\ LawChain /\ LawCollapse /\ LawRestriction /\ LawBig /\ LawIDiv /\ LawNsPlaces /\ LawAstro

PairLaws(S, inst) ==
  LET f == Flatten(S, inst)
      A == Annot(S, inst)
  IN /\ ValidInstance(S, inst)
     /\ f[1].par = 0 /\ \A n \in 2..Len(f) : f[n].par \in 1..(n-1)       \* preorder numbering
     /\ \A n \in 1..Len(f) : f[n].k \in {"xa", "xc", "xx"} => f[f[n].par].k \in {"ea", "eb", "em"}
     \* annotation = declaration: every typed node carries its declared (or xsi:type) type,
     \* and the typed value is a value of that type's class
     /\ \A n \in 1..Len(f) : IsTypedKind(f[n].k) =>
           /\ A[n].ty \in AllTypes
           /\ HasSimpleValue(A[n].ty) <=> A[n].tv # NoValue
           /\ A[n].tv # NoValue =>
                 IF A[n].nilled THEN A[n].tv = <<>>
                 ELSE CASE A[n].ty = "ilist" -> \A x \in 1..Len(A[n].tv) : A[n].tv[x].t = "int"
                        [] A[n].ty = "u"     -> Len(A[n].tv) = 1 /\ A[n].tv[1].t \in {"int", "string"}
                        [] A[n].ty = "ud"    -> Len(A[n].tv) = 1 /\ A[n].tv[1].t \in {"decimal", "string"}
                        [] A[n].ty = "v"     -> Len(A[n].tv) = 1 /\ A[n].tv[1].t = AtomClass(VBase(S))
                        [] OTHER -> Len(A[n].tv) = 1 /\ A[n].tv[1].t = AtomClass(ContentType(A[n].ty))
     \* instance-of holds exactly along the chain
     /\ \A n \in 1..Len(f) : IsTypedKind(f[n].k) =>
           \A Q \in QueryTypes : InstanceOf(S, A[n], Q, TRUE) <=> Q \in ChainS(S, A[n].ty)
     \* an <m> element carries the member's type, which derives from the head's: the head's type is in its chain
     /\ \A n \in 1..Len(f) : f[n].k = "em" =>
           A[n].ty = SgMember(S.kids[f[n].i].ty) /\ S.kids[f[n].i].ty \in Chain(A[n].ty)
=============================================================================
