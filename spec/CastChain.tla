----------------------------- MODULE CastChain -----------------------------
(***************************************************************************)
(* Property C10 as a VALUE-STATE MACHINE.  The state is one typed atomic   *)
(* value (or none / a literal / an error) under one XSD version; actions:  *)
(*   Pick(T)      choose a literal (token sequence) of type T              *)
(*   Construct    the lexical mapping of that type applied to the literal  *)
(*   Cast(T)      F&O 19 cast of the current value to T                    *)
(*   Castable(T)  the boolean "the cast would succeed"                     *)
(*   ToStr        fn:string of the current value (canonical form)          *)
(* Behaviours are chains  xs:T2(string(xs:T1($s))) ...; the dumped graph is *)
(* the test plan of engine/props/c10.py: every Construct edge is replayed  *)
(* on the Python constructor, T.is_valid, xs:T($s), cast as, castable as;  *)
(* every other edge on the nested XPath expression of its history.  Many   *)
(* literals map to one value state: equal values must be equal objects     *)
(* with equal hashes in the implementation.                                *)
(*                                                                         *)
(* Literals are enumerated per type FAMILY: every token sequence of length *)
(* <= MaxLen over the family alphabet, plus probes (subtype bounds -1/0/+1,*)
(* canonical-form boundaries of doubles, component grids of date/time      *)
(* types, one valid literal of every other family).                        *)
(*                                                                         *)
(* Laws (invariant Laws): the canonical form is a fixed point of the       *)
(* lexical mapping; value-preserving casts round-trip; Y cells of the      *)
(* casting table never fail and N cells raise XPTY0004; hexBinary and      *)
(* base64Binary denote the same octets; the whitespace facet is            *)
(* pre-lexical and idempotent; a derived type accepts a subset of its      *)
(* base; subtype bounds are inclusive at both ends.  Castable(T) is true   *)
(* exactly when Cast(T) is not an error by construction.                   *)
(***************************************************************************)
EXTENDS CastTable

CONSTANTS MaxLen,      \* token-sequence length bound of the family alphabets
          MaxCasts,    \* chain length bound: number of Cast / Castable / ToStr steps after Construct
          Fams,        \* families whose types are constructed from literals
          Targets,     \* target types of Cast / Castable
          Versions,    \* subset of {"1.0", "1.1"}
          Grid,        \* "small" | "full": component grids of the date/time literals
          Lean         \* TRUE in the cast configurations: no non-ASCII look-alike literals and a short
                       \* timezone list (the lexical configurations enumerate those; here they would only
                       \* multiply the cast fan-out)

VARIABLES val,    \* None, a literal [k |-> "lit", t, ts], a typed value or an error
          ver,    \* XSD version, fixed by the initial state
          steps   \* number of cast steps taken since Construct (bounds the chains deterministically;
                  \* a value reached by construction and by a cast is explored in both roles)
vars == <<val, ver, steps>>

None == [k |-> "none"]
IsTyped(v) == v.k \notin {"none", "lit", "err"}
Usable(v) == IsTyped(v) /\ ~(v.k \in {"dec", "flo"} /\ v.ap)      \* approximate values are terminal

---------------------------------------------------------------------------
(* literals *)
AllSeqs(A, n) == UNION {[1..k -> A] : k \in 0..n}
Cat(A, B) == {a \o b : a \in A, b \in B}
Cat3(A, B, C) == Cat(Cat(A, B), C)
Cat4(A, B, C, D) == Cat(Cat3(A, B, C), D)

FamTypes(f) ==
  CASE f = "bool" -> {"boolean"} [] f = "int" -> IntTypes [] f = "dec" -> {"decimal"}
    [] f = "flo" -> FloatTypes [] f = "str" -> StringTypes \cup {"untypedAtomic"}
    [] f = "name" -> NameTypes \cup {"QName"} [] f = "hex" -> {"hexBinary"} [] f = "b64" -> {"base64Binary"}
    [] f = "uri" -> {"anyURI"} [] f = "dur" -> DurTypes [] f = "date" -> DateTypes
AllFams == {"bool", "int", "dec", "flo", "str", "name", "hex", "b64", "uri", "dur", "date"}
FamOf(T) == CHOOSE f \in AllFams : T \in FamTypes(f)
Types == UNION {FamTypes(f) : f \in Fams}

Alphabet(f) ==
  CASE f = "bool" -> {"true", "false", "TRUE", "0", "1", "7", " ", "t"}
    [] f = "int"  -> {"+", "-", "0", "1", "7", " ", ".", "_"}
    [] f = "dec"  -> {"+", "-", "0", "7", ".", " ", "e", "_"}
    [] f = "flo"  -> {"+", "-", "0", "7", ".", "e", "E", "INF", "NaN", " ", "_"}
    [] f = "str"  -> {"a", " ", "TAB", "NL", "7"}
    [] f = "name" -> {"a", "7", ":", "-", " ", ".", "_"}
    [] f = "hex"  -> {"0", "7", "a", "A", "F", "g", " "}
    [] f = "b64"  -> {"A", "Q", "c", "B", "=", " ", "-"}
    [] f = "uri"  -> {"a", "/", " ", "7", "."}
    [] f = "dur"  -> {"P", "T", "-", "1", "0", "Y", "M", "D", "H", "S", ".", " "}
    [] f = "date" -> {}
FamLen(f) == IF f \in {"hex", "b64"} THEN MaxLen + 1 ELSE MaxLen

(* component grids of the date/time literals *)
Full == Grid = "full"
Yr  == {<<"2000">>, <<"1999">>, <<"0000">>, <<"-", "0001">>, <<"12345">>, <<"02000">>, <<"200">>}
       \cup (IF Full THEN {<<"+", "2000">>, <<"-", "0000">>, <<"-", "12345">>, <<"0001">>} ELSE {})
Mo  == {<<"01">>, <<"02">>, <<"13">>} \cup (IF Full THEN {<<"12">>, <<"00">>, <<"04">>, <<"1">>} ELSE {})
Dy  == {<<"01">>, <<"29">>, <<"30">>, <<"32">>} \cup (IF Full THEN {<<"28">>, <<"31">>, <<"00">>, <<"1">>} ELSE {})
(* timezones: none, Z, both zero spellings, whole and half hours of both signs, the +-14:00 limits and
   NEGATIVE SUB-HOUR offsets, whose hour field is zero so that only the '-' character carries the sign *)
Tz  == {<<>>, <<"Z">>, <<"+14:00">>, <<"+14:01">>, <<"-00:00">>, <<" ">>, <<"-00:30">>}
       \cup (IF Lean THEN {} ELSE {<<"+00:00">>, <<"+05:30">>, <<"-05:30">>, <<"-14:00">>, <<"-00:01">>, <<"-00:59">>})
       \cup (IF Full THEN {<<"+13:60">>, <<"+5:30">>, <<"z">>, <<"Z", "Z">>} ELSE {})
TzS == {<<>>, <<"Z">>, <<"+05:30">>, <<"+14:01">>, <<"-00:30">>, <<"-00:59">>}
Hr  == {<<"00">>, <<"23">>, <<"24">>, <<"25">>}
Mi  == {<<"00">>, <<"59">>, <<"60">>}
Sc  == {<<"00">>, <<"59">>, <<"60">>, <<"00", ".", "0">>, <<"01", ".", "5", "0">>, <<"00", ".">>}
Hy  == {<<"-">>}
HyX == {<<"-">>, <<>>, <<":">>}
Co  == {<<":">>}
TimeLits == Cat(Cat3(Hr, Co, Mi), Cat(Co, Sc))
            \cup {<<"00", ":", "00">>, <<"00", "00", "00">>, <<"0", ":", "00", ":", "00">>, <<"24", ":", "00", ":", "00", ".", "0">>}
DateLits == Cat(Cat3(Yr, Hy, Mo), Cat(Hy, Dy)) \cup {<<"2000", "01", "01">>, <<"2000", "-", "01">>, <<"2000", ":", "01", ":", "01">>}
DateS == {<<"2000", "-", "02", "-", "29">>, <<"1999", "-", "02", "-", "29">>, <<"0000", "-", "01", "-", "01">>,
          <<"-", "0001", "-", "12", "-", "31">>, <<"2000", "-", "12", "-", "31">>, <<"1999", "-", "02", "-", "28">>}
TimeS == {<<"00", ":", "00", ":", "00">>, <<"23", ":", "59", ":", "59">>, <<"24", ":", "00", ":", "00">>,
          <<"24", ":", "00", ":", "01">>, <<"12", ":", "30", ":", "01", ".", "5", "0">>}
DateFamLits(T) ==
  CASE T = "date"       -> Cat(DateLits, Tz)
    [] T = "time"       -> Cat(TimeLits, Tz)
    [] T \in {"dateTime", "dateTimeStamp"} -> Cat(Cat3(DateS, {<<"T">>, <<" ">>, <<>>}, TimeS), TzS)
    [] T = "gYear"      -> Cat(Yr, Tz)
    [] T = "gYearMonth" -> Cat(Cat3(Yr, HyX, Mo), Tz)
    [] T = "gMonthDay"  -> Cat(Cat4({<<"-", "-">>, <<"-">>, <<>>}, Mo, HyX, Dy), TzS)
    [] T = "gDay"       -> Cat3({<<"-", "-", "-">>, <<"-", "-">>, <<>>}, Dy, Tz)
    [] T = "gMonth"     -> Cat3({<<"-", "-">>, <<"-">>, <<>>}, Mo, Tz) \cup {<<"-", "-", "01", "-", "-">>}

(* subtype bounds: the numerals bound-1, bound, bound+1 with sign / zero / space decorations *)
RECURSIVE MagSucc(_)
MagSucc(m) == IF m = <<>> THEN <<"1">>
              ELSE IF Last(m) = "9" THEN MagSucc(Front(m)) \o <<"0">>
              ELSE Front(m) \o <<DChr(DVal(Last(m)) + 1)>>
RECURSIVE MagPred(_)   \* m is not zero
MagPred(m) == IF Last(m) = "0" THEN MagPred(Front(m)) \o <<"9">>
              ELSE StripLead(Front(m) \o <<DChr(DVal(Last(m)) - 1)>>)
SV(neg, mag) == [neg |-> neg, mag |-> mag]
SSucc(x) == IF ~x.neg THEN SV(FALSE, MagSucc(x.mag))
            ELSE LET m == MagPred(x.mag) IN SV(m # <<>>, m)
SPred(x) == IF x.neg THEN SV(TRUE, MagSucc(x.mag))
            ELSE IF x.mag = <<>> THEN SV(TRUE, <<"1">>) ELSE SV(FALSE, MagPred(x.mag))
Numeral(x) == Sign(x.neg) \o (IF x.mag = <<>> THEN <<"0">> ELSE x.mag)
BoundsOf(T) == {SV(b.neg, b.mag) : b \in {b \in {LoBound(T), HiBound(T)} : b.has}}
BoundProbes(T) ==
  LET Xs == UNION {{SPred(b), b, SSucc(b)} : b \in BoundsOf(T)} IN
  UNION {{Numeral(x), <<" ">> \o Numeral(x) \o <<" ">>, Sign(x.neg) \o <<"0">> \o Numeral(SV(FALSE, x.mag))}
         \cup (IF x.neg THEN {} ELSE {<<"+">> \o Numeral(x)}) : x \in Xs}

FloProbes == {<<"1","e","-","7">>, <<"1","E","-","0","7">>, <<"1","e","-","6">>, <<"1","e","6">>, <<"1","e","5">>,
              <<"1","e","7">>, <<"1",".","5","e","2","2">>, <<"0",".","0","0","0","0","0","1">>,
              <<"0",".","0","0","0","0","0","0","1">>, <<"1","0","0","0","0","0","0">>, <<"9","9","9","9","9","9">>,
              <<"1","2","3","4","5","6",".","7">>, <<"-","0",".","0","e","0">>, <<"1",".","0","E","-","7">>,
              <<"1",".","2","5","E","1","0">>, <<"-","1","e","-","7">>, <<"+","INF">>, <<"-","INF">>, <<"+","NaN">>,
              <<"3",".","4","0","2","8","2","3","5","e","3","8">>, <<"3",".","4","0","2","8","2","3","6","e","3","8">>,
              <<"1","e","3","9">>, <<"7","e","3","8">>, <<"1","e","3","8">>, <<"-","7","e","7","7">>,
              \* exponents that end in zero, mantissa with a fraction (digits of the exponent must survive)
              <<"1",".","5","e","2","0">>, <<"1","e","2","0">>, <<"1",".","5","e","-","1","0">>, <<"-","2",".","5","e","1","0","0">>,
              \* the small end of xs:float: 5e-38 is a normal single, 1e-38 and 1e-45 are subnormal,
              \* 7e-46 and 1e-46 are below half of the smallest subnormal (2^-150) and round to zero
              <<"5","e","-","3","8">>, <<"1","e","-","3","8">>, <<"1","e","-","4","5">>, <<"7","e","-","4","6">>,
              <<"1","e","-","4","6">>, <<"-","1","e","-","4","0">>}
DecProbes == {<<"0","0","7",".","7","0","0">>, <<".","7","0">>, <<"-","0",".","0">>, <<"+",".","0">>, <<"-","0">>,
              <<"1","2","3","4","5","6","7","8","9","0","1","2","3","4","5","6","7","8","9","0",".","1","2","5">>,
              <<"0",".","0","0","0","0","0","0","1">>, <<"1","0","0","0","0","0","0","0">>, <<"1","e","2">>}
DurProbes == {<<"P","T","1",".","1","S">>, <<"P","T","1",".","S">>, <<"P","1","Y","1","M","1","D","T","1","H","1","M","1","S">>,
              <<"P","1","2","M">>, <<"P","T","6","0","S">>, <<"P","1","D","T","2","4","H">>, <<"-","P","T","0",".","5","0","S">>,
              <<"P","1","M","1","Y">>, <<"P","1","Y","T">>, <<"P","1","Y","0","D">>, <<"P","0","Y","T","1","S">>,
              <<"P","T","0",".","0","S">>, <<"P","1","Y","T","0","S">>, <<"-","P","0","M">>, <<"P","T","1","M","1","H">>,
              <<"P","T","1","H">>, <<"P","1","D","T","1","H">>, <<"P","T","1","M">>, <<"P","T","1","H","1","S">>,
              <<"P","1","D","T","1","M">>, <<"P","1","M","1","D">>, <<"-","P","1","Y","1","M">>}
B64Probes == {<<"A","A"," ","=","=">>, <<"A"," ","A"," ","A"," ","A">>, <<"A","A","A","A","A","A","=","=">>,
              <<"A","A","A","A","A","Q","=","=">>, <<"A","A","A","A"," ","A","A","c","=">>, <<"A","A","=","=","A","A","A","A">>,
              <<"A","A","A"," "," ","A">>, <<"/","w","=","=">>, <<"+","INF">>}
HexProbes == {<<"0","a","F","f","7","7">>, <<"0","7"," ","0","7">>, <<"0","x","0","7">>, <<"HEX58">>, <<"HEX58", "F", "F">>}
NameProbes == {<<"a","a","a","a","a","a","a","a">>, <<"a","a","a","a","a","a","a","a","a">>,
               <<"a","-","a","a","a","a","a","a","a","7">>, <<"a","-","a","a","a","a","a","a","a","a","7">>,
               <<"a","-","7","-","a">>, <<"a",":","a",":","a">>, <<"a",":","a">>, <<"b",":","a">>, <<"_","a",".","7">>}
(* one valid literal of every family, offered to every type *)
Cross == {<<"true">>, <<"1">>, <<"-","7">>, <<"7",".","7">>, <<"7","e","7">>, <<"INF">>, <<"NaN">>, <<"a">>, <<"a",":","a">>,
          <<" ","a"," "," ","a","TAB">>, <<"0","7">>, <<"A","A","=","=">>, <<"P","1","Y">>, <<"P","T","1","S">>,
          <<"P","1","Y","T","1","S">>, <<"2000">>, <<"2000","-","01">>, <<"2000","-","01","-","01">>,
          <<"2000","-","01","-","01","T","00",":","00",":","00">>, <<"2000","-","01","-","01","T","00",":","00",":","00","Z">>,
          <<"00",":","00",":","00">>, <<"-","-","01">>, <<"-","-","01","-","01">>, <<"-","-","-","01">>, <<>>}
Probes(T) ==
  IF T \in IntTypes THEN BoundProbes(T)
  ELSE IF T \in FloatTypes THEN FloProbes
  ELSE IF T = "decimal" THEN DecProbes
  ELSE IF T \in DurTypes THEN DurProbes
  ELSE IF T = "base64Binary" THEN B64Probes
  ELSE IF T = "hexBinary" THEN HexProbes
  ELSE IF T \in NameTypes \cup {"QName"} THEN NameProbes
  ELSE IF T \in DateTypes THEN DateFamLits(T)
  ELSE {}
(* NON-ASCII look-alikes: every valid base literal of the type with ONE character replaced by each of
   its non-ASCII partners (what Python's re.IGNORECASE, \d, \s, int(), float(), str.strip() would
   take for it), and with one non-XML whitespace character (or a blank) put in front / behind *)
Partners(c) ==
  (IF c \in {"s", "S"} THEN {"U017F"} ELSE {}) \cup (IF c \in {"i", "I"} THEN {"U0130", "U0131"} ELSE {})
  \cup (IF c \in {"k", "K"} THEN {"U212A"} ELSE {}) \cup (IF IsLetter(c) THEN {"UFF21"} ELSE {})
  \cup (IF IsDigit(c) THEN NonAsciiDigits ELSE {}) \cup (IF c = "+" THEN {"UFF0B"} ELSE {})
  \cup (IF c = "-" THEN {"U2212"} ELSE {}) \cup (IF IsWs(c) THEN UniWs ELSE {})
SubstOne(cs) == UNION {{[cs EXCEPT ![i] = p] : p \in Partners(cs[i])} : i \in 1..Len(cs)}
PadOne(cs)   == UNION {{<<w>> \o cs, cs \o <<w>>} : w \in UniWs \cup {" "}}
NaBase(f) ==
  CASE f = "bool" -> {<<"false">>, <<"true">>, <<"1">>}
    [] f = "int"  -> {<<"+","1","7">>, <<"-","1","7">>, <<"0">>}
    [] f = "dec"  -> {<<"-","1",".","7">>, <<"+",".","7">>}
    [] f = "flo"  -> {<<"-","1",".","7","e","+","1">>, <<"1","E","-","1">>, <<"INF">>, <<"-","INF">>, <<"NaN">>}
    [] f \in {"str", "uri"} -> {<<"s"," ","i">>, <<"k","TAB","1">>, <<"a","/","i">>}
    [] f = "name" -> {<<"s","v">>, <<"i","s","-","I","K">>, <<"k","i","-","7","s">>, <<"a",":","s","k">>, <<"s","i","k",".","1">>}
    [] f = "hex"  -> {<<"1","a","A","7">>}
    [] f = "b64"  -> {<<"s","i","k","K">>, <<"A","A","s","=">>, <<"A","Q","=","=">>, <<"A","A"," ","A","A">>}
    [] f = "dur"  -> {<<"-","P","1","Y","1","M","1","D","T","1","H","1","M","1",".","1","S">>, <<"P","T","1","S">>,
                      <<"P","1","Y","1","M">>, <<"P","1","D","T","1","S">>}
    [] f = "date" -> {<<"2000","-","01","-","01","+05:30">>, <<"-","0001","-","12","-","31","Z">>,
                      <<"12",":","30",":","01",".","5","0","-05:30">>, <<"2000","-","01","-","01","T","12",":","30",":","01","Z">>,
                      <<"2000","Z">>, <<"2000","-","01","-14:00">>, <<"-","-","01","-","01","Z">>,
                      <<"-","-","-","01","+14:00">>, <<"-","-","01","-00:30">>}
NonAsciiProbes(T) ==
  IF Lean THEN {} ELSE
  UNION {SubstOne(Flat(b)) \cup PadOne(Flat(b)) : b \in {b \in NaBase(FamOf(T)) : InLexicalSpace(T, Flat(b), "1.1")}}
Strs(T) == AllSeqs(Alphabet(FamOf(T)), FamLen(FamOf(T))) \cup Probes(T) \cup Cross \cup NonAsciiProbes(T)

---------------------------------------------------------------------------
(* the 22 primitive (and F&O-table) types: the only targets after the first cast of a chain *)
PrimTargets == {"untypedAtomic", "string", "float", "double", "decimal", "integer", "duration", "yearMonthDuration",
                "dayTimeDuration", "dateTime", "time", "date", "gYearMonth", "gYear", "gMonthDay", "gDay", "gMonth",
                "boolean", "base64Binary", "hexBinary", "anyURI", "QName"}
(* chains: None -> literal (one state per literal: TLC enumerates and judges them in parallel) ->
   constructed value (steps = 0: cast / castable to every target) -> cast results (steps >= 1: cast to the
   primitive targets only) ... up to MaxCasts steps *)
MayCast(T) == Usable(val) /\ steps < MaxCasts /\ (steps = 0 \/ T \in PrimTargets) /\ TypeExists(T, ver)
Init == val = None /\ ver \in Versions /\ steps = 0
Pick(T) == /\ val.k = "none" /\ TypeExists(T, ver)
           /\ \E ts \in Strs(T) : val' = [k |-> "lit", t |-> T, ts |-> ts]
           /\ UNCHANGED <<ver, steps>>
Construct == /\ val.k = "lit"
             /\ val' = Parse(val.t, Flat(val.ts), ver) /\ UNCHANGED <<ver, steps>>
Cast(T) == /\ MayCast(T)
           /\ val' = CastTo(val, T, ver) /\ steps' = steps + 1 /\ UNCHANGED ver
Unjudged(w) == IsErr(w) /\ w.code \in {"LIMIT", "UNSPEC"}      \* pseudo errors: outside the specification
Castable(T) == /\ MayCast(T) /\ steps = 0
               /\ LET w == CastTo(val, T, ver) IN
                  val' = IF Unjudged(w) THEN w ELSE [k |-> "bool", t |-> "boolean", b |-> ~IsErr(w)]
               /\ steps' = steps + 1 /\ UNCHANGED ver
ToStr == /\ Usable(val) /\ steps < MaxCasts /\ val' = Str("string", Canon(val)) /\ steps' = steps + 1 /\ UNCHANGED ver
Next == \/ \E T \in Types : Pick(T)
        \/ Construct
        \/ \E T \in Targets : Cast(T)
        \/ \E T \in Targets : Castable(T)
        \/ ToStr
Spec == Init /\ [][Next]_vars

---------------------------------------------------------------------------
(* LAWS, checked by TLC on every reachable value *)
(* the canonical form is a fixed point of the lexical mapping and re-parses to the same value *)
LawCanonFixedPoint == Usable(val) => Parse(val.t, Canon(val), ver) = val

(* casts that preserve the value come back: hexBinary <-> base64Binary, integer <-> decimal <-> string,
   boolean <-> numeric 0/1, date -> dateTime -> date, yMD/dTD -> duration -> back, anything <-> string/uA *)
RoundTripTargets(v) ==
  {"string", "untypedAtomic"}
  \cup (IF v.k = "bin" THEN {"hexBinary", "base64Binary"} ELSE {})
  \cup (IF v.k = "dec" /\ v.fp = <<>> THEN {"decimal", "integer"} \cup (IF Len(v.ip) <= 15 THEN {"double"} ELSE {})
                                           \cup (IF Len(v.ip) <= 6 THEN {"float"} ELSE {}) ELSE {})
  \cup (IF v.k = "dec" THEN {"decimal"} ELSE {})
  \cup (IF v.k = "bool" THEN {"decimal", "integer", "double", "float"} ELSE {})
  \cup (IF v.k = "dt" /\ v.t = "date" THEN {"dateTime"} ELSE {})
  \cup (IF v.k = "dur" THEN {"duration"} ELSE {})
LawRoundTrip == Usable(val) => \A T \in RoundTripTargets(val) :
                  LET w == CastTo(val, T, ver) IN ~IsErr(w) /\ Usable(w) /\ CastTo(w, val.t, ver) = val

(* Y cells never fail, N cells always raise XPTY0004 *)
LawTable == Usable(val) => \A T \in PrimTargets :
              LET c == Cell(PrimOf(val.t), PrimOf(T))  w == CastTo(val, T, ver) IN
              /\ (c = "Y") => ~IsErr(w)
              /\ (c = "N") => w = Err("XPTY0004")
              /\ ~IsErr(w) => w.t = T
(* hexBinary and base64Binary denote the same octets *)
LawBinary == (Usable(val) /\ val.k = "bin") =>
                /\ HexOctets(HexEnc(val.o)) = val.o
                /\ B64WellFormed(B64Enc(val.o)) /\ B64Octets(B64Enc(val.o)) = val.o

(* laws of the lexical layer, evaluated on every literal state *)
Base(T) ==
  CASE T \in {"nonPositiveInteger", "long", "nonNegativeInteger"} -> "integer"
    [] T = "negativeInteger" -> "nonPositiveInteger" [] T = "int" -> "long" [] T = "short" -> "int"
    [] T = "byte" -> "short" [] T \in {"unsignedLong", "positiveInteger"} -> "nonNegativeInteger"
    [] T = "unsignedInt" -> "unsignedLong" [] T = "unsignedShort" -> "unsignedInt"
    [] T = "unsignedByte" -> "unsignedShort" [] T = "integer" -> "decimal"
    [] T = "normalizedString" -> "string" [] T = "token" -> "normalizedString"
    [] T \in {"language", "NMTOKEN", "Name"} -> "token" [] T = "NCName" -> "Name"
    [] T \in {"ID", "IDREF", "ENTITY"} -> "NCName"
    [] T \in {"yearMonthDuration", "dayTimeDuration"} -> "duration" [] T = "dateTimeStamp" -> "dateTime"
    [] T = "float" -> "double"
    [] OTHER -> T
SameButType(a, b) == IF a.k = "str" \/ a.k = "flo" THEN TRUE ELSE [a EXCEPT !.t = b.t] = b
LawLexical ==
  val.k = "lit" =>
     LET T == val.t  s == Flat(val.ts)  v == Parse(T, s, ver) IN
     /\ v = Parse(T, WsNorm(T, s), ver)                         \* the whitespace facet is pre-lexical and idempotent
     /\ WsNorm(T, WsNorm(T, s)) = WsNorm(T, s)
     /\ (WsFacet(T) = "collapse") => v = Parse(T, <<" ", "NL">> \o s \o <<"TAB">>, ver)
     /\ ~IsErr(v) => LET u == Parse(Base(T), s, ver) IN ~IsErr(u) /\ SameButType(v, u)   \* derived subset of base
(* subtype bounds are inclusive at both ends *)
LawBounds ==
  val.k = "none" => \A T \in IntTypes : \A b \in BoundsOf(T) :
     /\ ~IsErr(Parse(T, Numeral(b), ver))
     /\ (b = SV(LoBound(T).neg, LoBound(T).mag) /\ LoBound(T).has) => IsErr(Parse(T, Numeral(SPred(b)), ver))
     /\ (b = SV(HiBound(T).neg, HiBound(T).mag) /\ HiBound(T).has) => IsErr(Parse(T, Numeral(SSucc(b)), ver))
Laws == LawCanonFixedPoint /\ LawRoundTrip /\ LawTable /\ LawBinary /\ LawLexical /\ LawBounds
=============================================================================
