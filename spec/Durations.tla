------------------------------ MODULE Durations ------------------------------
(***************************************************************************)
(* xs:yearMonthDuration and xs:dayTimeDuration values (property C11).      *)
(*                                                                         *)
(* A duration VALUE is (XSD 1.1 3.3.6) a pair months / seconds; the two    *)
(* totally ordered subtypes keep one of them:                              *)
(*   yearMonthDuration  = an integer number of months                      *)
(*   dayTimeDuration    = seconds with a fraction; here a STAMP            *)
(*                        <<days, seconds, micros>> (Calendar.tla) because *)
(*                        400 000 years of seconds do not fit 32 bits.     *)
(* For rendering, a duration is shown as a sign-and-magnitude record       *)
(*   [k |-> "dtd", neg, m |-> 0, d, s, us]   0 <= s < 86400, 0 <= us < 10^6 *)
(*   [k |-> "ymd", neg, m,       d |-> 0, s |-> 0, us |-> 0]                *)
(* (zero is never negative).  The lexical forms PnYnM / PnDTnHnMnS are the *)
(* dumb digit rendering of these magnitudes (years = m \div 12, ...).      *)
(***************************************************************************)
EXTENDS Calendar

ZeroStamp == <<0, 0, 0>>

(* sign-magnitude record <-> signed value *)
DtdRec(st) ==
  IF StampSign(st) < 0
  THEN LET a == StampNeg(st) IN [k |-> "dtd", neg |-> TRUE, m |-> 0, d |-> a[1], s |-> a[2], us |-> a[3]]
  ELSE [k |-> "dtd", neg |-> FALSE, m |-> 0, d |-> st[1], s |-> st[2], us |-> st[3]]
YmdRec(months) ==
  [k |-> "ymd", neg |-> months < 0, m |-> IF months < 0 THEN -months ELSE months, d |-> 0, s |-> 0, us |-> 0]
DtdStamp(r) == IF r.neg THEN StampNeg(<<r.d, r.s, r.us>>) ELSE <<r.d, r.s, r.us>>
YmdMonths(r) == IF r.neg THEN -r.m ELSE r.m
WellFormedDur(r) ==
  /\ r.m >= 0 /\ r.d >= 0 /\ r.s \in 0..86399 /\ r.us \in 0..999999
  /\ (r.k = "dtd" => r.m = 0) /\ (r.k = "ymd" => (r.d = 0 /\ r.s = 0 /\ r.us = 0))
  /\ (r.neg => (r.m > 0 \/ r.d > 0 \/ r.s > 0 \/ r.us > 0))

(* the lexical -> value mapping: nY nM nD T nH nM nS.uuuuuu with an optional leading '-' *)
DurFromLexical(k, neg, yy, mm, dd, hh, mi, ss, us) ==
  IF k = "ymd" THEN YmdRec(IF neg THEN -(12 * yy + mm) ELSE 12 * yy + mm)
  ELSE LET a == NormStamp(dd, hh * 3600 + mi * 60 + ss, us) IN DtdRec(IF neg THEN StampNeg(a) ELSE a)

(* arithmetic and order, F&O 8.2 / 8.4 *)
DurNeg(r) == IF r.k = "ymd" THEN YmdRec(-YmdMonths(r)) ELSE DtdRec(StampNeg(DtdStamp(r)))
DurAdd(a, b) == IF a.k = "ymd" THEN YmdRec(YmdMonths(a) + YmdMonths(b))
                ELSE DtdRec(StampAdd(DtdStamp(a), DtdStamp(b)))
DurSub(a, b) == DurAdd(a, DurNeg(b))
(* multiplication by a small integer (no rounding involved) *)
StampTimes(st, n) == NormStamp(st[1] * n, st[2] * n, st[3] * n)
DurTimes(r, n) == IF r.k = "ymd" THEN YmdRec(YmdMonths(r) * n) ELSE DtdRec(StampTimes(DtdStamp(r), n))
Sgn(i) == IF i < 0 THEN -1 ELSE IF i = 0 THEN 0 ELSE 1
DurCmp(a, b) == IF a.k = "ymd" THEN Sgn(YmdMonths(a) - YmdMonths(b))
                ELSE StampCmp(DtdStamp(a), DtdStamp(b))
RECURSIVE RepeatAdd(_, _)
RepeatAdd(r, n) == IF n = 0 THEN DurSub(r, r) ELSE DurAdd(r, RepeatAdd(r, n - 1))   \* n >= 0
=============================================================================
