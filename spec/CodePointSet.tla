---------------------------- MODULE CodePointSet ----------------------------
(***************************************************************************)
(* Property C13 -- value-state machine of a MUTABLE SET OF CODE POINTS     *)
(* (elementpath.regex.UnicodeSubset / CharacterClass).                     *)
(*                                                                         *)
(* Abstract points 0..M-1 stand for a window of the Unicode range.  The    *)
(* binding maps BOUNDARY b (0..M) to a real code point R(b), monotone,     *)
(* with R(0) = 0 and R(M) = 0x110000, so that the whole Unicode range is   *)
(* covered: the points of `Wide` (a subset of {0, M-1}) stand for a BLOCK  *)
(* of more than one real code point (everything left / right of the        *)
(* window), every other point for exactly one code point.  Complement is   *)
(* therefore an ordinary transition of the machine.                        *)
(*                                                                         *)
(* State: S (the set) and rep = Canon(S), the ONE representation the       *)
(* property allows for S ("canonical sorted, non-overlapping, merged       *)
(* representation so that equality is extensional"): the maximal runs of   *)
(* S in ascending order, a run of exactly one code point written <<c>>     *)
(* (a Python int), every other run written <<lo, hi>> (half-open tuple).   *)
(* rep is a function of S, so it does not enlarge the state graph; it is   *)
(* in the state so that TLC -- not the harness -- is the source of the     *)
(* expected raw list.                                                      *)
(*                                                                         *)
(* Outside the model (implementation-defined / not stated by C13):         *)
(* which exception an out-of-range argument raises is compared as an       *)
(* outcome class only (BadArg: the state must not change).                 *)
(***************************************************************************)
EXTENDS CodePointPieces, TLC

CONSTANTS Others,   \* argument sets T of Update / Ior / Isub / Iand / Ixor
          CtorLen   \* longest piece sequence of Assign (0: Assign disabled)

VARIABLES S, rep
vars == <<S, rep>>

(* ---- transitions -------------------------------------------------------- *)
(* every action sets S' and rep' itself (no shared sub-action), so that TLC   *)
(* labels each edge of the dumped graph with the action AND its parameters.  *)
AddCp(c)          == S' = S \cup {c} /\ rep' = Canon(S')                    \* add(int)
AddRange(a, b)    == S' = S \cup Span(a, b) /\ rep' = Canon(S')             \* add((a, b))
DiscardCp(c)      == S' = S \ {c} /\ rep' = Canon(S')                       \* discard(int)
DiscardRange(a, b) == S' = S \ Span(a, b) /\ rep' = Canon(S')               \* discard((a, b))
Update(T)         == S' = S \cup T /\ rep' = Canon(S')                      \* update(iterable | str)
DiffUpdate(T)     == S' = S \ T /\ rep' = Canon(S')                         \* difference_update(iterable | str)
Ior(T)            == S' = S \cup T /\ rep' = Canon(S')                      \* s |= t
Isub(T)           == S' = S \ T /\ rep' = Canon(S')                         \* s -= t
Iand(T)           == S' = S \cap T /\ rep' = Canon(S')                      \* s &= t
Ixor(T)           == S' = Xor(S, T) /\ rep' = Canon(S')                 \* s ^= t
Complement        == S' = Compl(S) /\ rep' = Canon(S')                      \* UnicodeSubset(s.complement()) / cc.complement()
Clear             == S' = {} /\ rep' = Canon(S')                            \* clear()
(* s.codepoints = seq / UnicodeSubset(seq): the result does not depend on   *)
(* the old value, so the action is enabled in the empty state only.         *)
Assign(seq)       == S = {} /\ S' = Denotes(seq) /\ rep' = Canon(S')
(* argument outside the Unicode range: ValueError, object unchanged         *)
BadArg(kind)      == UNCHANGED vars

PieceSeqs == UNION {[1..n -> PieceArgs] : n \in 1..CtorLen}
BadKinds == {"add_neg", "add_above", "add_range_above", "add_range_empty", "add_range_reversed",
             "discard_neg", "discard_above", "discard_range_above", "discard_range_empty"}

Init == S = {} /\ rep = <<>>

Next == \/ \E c \in Narrow : AddCp(c) \/ DiscardCp(c)
        \/ \E ab \in RangeArgs : AddRange(ab[1], ab[2]) \/ DiscardRange(ab[1], ab[2])
        \/ \E T \in Others : Update(T) \/ DiffUpdate(T) \/ Ior(T) \/ Isub(T) \/ Iand(T) \/ Ixor(T)
        \/ Complement
        \/ Clear
        \/ \E seq \in PieceSeqs : Assign(seq)
        \/ \E k \in BadKinds : BadArg(k)

Spec == Init /\ [][Next]_vars

(* ---- laws (the design is checked before anything is replayed) ----------- *)
TypeOK == S \subseteq Universe

CanonSound == Denotes(rep) = S /\ IsCanonical(rep) /\ rep = Canon(S)

(* extensional equality: a canonical list is determined by the set it denotes *)
AllLists(n) == UNION {[1..k -> PieceArgs] : k \in 0..n}
CanonUnique == \A l \in AllLists((M + 1) \div 2) : (IsCanonical(l) /\ Denotes(l) = S) => l = rep

SetLaws ==
   /\ Compl(Compl(S)) = S
   /\ \A T \in Others :
        /\ Xor(S, T) = (S \cup T) \ (S \cap T)
        /\ S \cap T = S \ (S \ T)                         \* how __iand__ is computed
        /\ S \ T = S \cap Compl(T)
        /\ Compl(S \cup T) = Compl(S) \cap Compl(T)
        /\ Compl(S \cap T) = Compl(S) \cup Compl(T)
        /\ Xor(Xor(S, T), T) = S
        /\ Cardinality(S \cup T) + Cardinality(S \cap T) = Cardinality(S) + Cardinality(T)
   /\ \A ab \in RangeArgs :
        LET r == Span(ab[1], ab[2]) IN
          /\ (S \cup r) \ r = S \ r
          /\ (S \ r) \cup r = S \cup r
          /\ Denotes(Canon(S \cup r)) = S \cup r
          /\ Denotes(Canon(S \ r)) = S \ r

(* canonical lists of two different sets differ: == on representations is == on sets *)
RepInjective == \A T \in Others : (Canon(T) = rep) = (T = S)

Laws == CanonSound /\ SetLaws /\ RepInjective
=============================================================================
