------------------------------- MODULE Tokens -------------------------------
(***************************************************************************)
(* Property C03, input space.  Value-state machine whose state is a token  *)
(* sequence; the action AppendTok(tok) appends one token of a              *)
(* representative alphabet (names, the four literal kinds, every operator  *)
(* / keyword class, brackets, '::', '$', '#', '?', 'Q{u}', comment         *)
(* delimiters, axis names, function names that are also keywords or        *)
(* sequence types: lt, empty-sequence, if, text, ...).  The reachable      *)
(* states are ALL token sequences of length <= MaxLen; the dumped state    *)
(* graph is the test plan of binding A: every state is rendered to text    *)
(* (1:1, two layouts), parsed by the four parser classes and evaluated,    *)
(* and every observed outcome must be a member of the outcome sets printed *)
(* by TLC from Outcome.tla (vectors "legal_parse" / "legal_eval").         *)
(*                                                                         *)
(* The module also owns                                                    *)
(*   - a conservative grammar recogniser over token classes (anti-vacuity: *)
(*     TLC counts grammatical and ungrammatical reachable sequences; the   *)
(*     harness compares the counts with what the real parsers accept),     *)
(*   - the one-token MUTATIONS (delete / duplicate / swap adjacent /       *)
(*     replace) with their laws, and the seeded choice of mutation         *)
(*     descriptors for expressions harvested from the repository's         *)
(*     test-suite (TLC sees only the token count of each expression and    *)
(*     prints descriptors <<op, i, tok>>; the harness applies them 1:1).   *)
(*                                                                         *)
(* Not specified here: which sequences must parse (that is C04); what the  *)
(* values are (C06..C09).  Only the outcome CLASS is judged.               *)
(***************************************************************************)
EXTENDS Naturals, Sequences, FiniteSets, TLC

CONSTANTS Alphabet,    \* subset of AllTokens used by AppendTok and by "rep" mutations
          MaxLen,      \* bound on the sequence length
          Seed,        \* run seed (thins the mutation set deterministically)
          ExprThin,    \* expression k is mutated iff (k + Seed) % ExprThin = 0
          RepThin      \* "rep" descriptor kept iff (k + i + Idx(tok) + Seed) % RepThin = 0

O == INSTANCE Outcome

VARIABLES seq,      \* the token sequence
          gclass    \* observation: GClass(seq), a function of seq (adds no states); read by the harness
vars == <<seq, gclass>>

(* ---------------------------------------------------------------------- *)
(* the alphabet                                                            *)
TokSeq == << "a", "lt", "empty-sequence", "if", "text", "count", "child", "self",
             "map", "array", "function", "for", "in", "return", "let", "instance of",
             "div", "mod", "idiv", "and", "to", "eq", "is",
             "0", "1", "1.5", "1e0", "'s'",
             "+", "-", "*", "=", "|", ",", "/", "//", "!", "||", "=>", "<<", ":=",
             "(", ")", "[", "]", "{", "}",
             "::", "$", "#", "?", "Q{u}", "(:", ":)", "@", ".", "..", ":" >>

AllTokens == {TokSeq[i] : i \in 1..Len(TokSeq)}
Idx(t) == CHOOSE i \in 1..Len(TokSeq) : TokSeq[i] = t

(* the reduced alphabet used where the full one is too large (length-4 sequences) *)
Core == {"a", "lt", "empty-sequence", "if", "text", "0", "1", "'s'", "+", "-", "*", "=", ",", "/", "//",
         "(", ")", "[", "]", "{", "}", "::", "$", "#", "?", "Q{u}", "(:", ":)", "@", ".", "and"}

ASSUME CoreOK == Core \subseteq AllTokens
ASSUME AlphabetOK == Alphabet \subseteq AllTokens
ASSUME TokSeqInjective == Cardinality(AllTokens) = Len(TokSeq)
ASSUME OutcomeLawsHold == O!OutcomeLaws

(* token classes *)
Names     == {"a"}
Keywords  == {"lt", "empty-sequence", "if", "text", "count", "child", "self", "map", "array",
              "function", "for", "in", "return", "let", "instance of", "div", "mod", "idiv", "and",
              "to", "eq", "is"}                       \* all of them are NCNames too (no reserved words)
Literals  == {"0", "1", "1.5", "1e0", "'s'"}
Dots      == {".", ".."}
PureInfix == {"=", "|", ",", "!", "||", "=>", "<<", ":="}   \* never start or end an expression
Signs     == {"+", "-"}                         \* infix or prefix
Slashes   == {"/", "//"}                        \* infix or prefix
Opens     == {"(", "[", "{"}
Closes    == {")", "]", "}"}
Comments  == {"(:", ":)"}
NeedRight == {"$", "@", "::", ":", "#"}         \* must be followed by something

Class(t) == CASE t \in Names -> "name"  [] t \in Keywords -> "keyword" [] t \in Literals -> "literal"
              [] t \in Dots -> "dot"    [] t \in PureInfix -> "infix"   [] t \in Signs -> "sign"
              [] t \in Slashes -> "slash" [] t \in Opens -> "open"      [] t \in Closes -> "close"
              [] t \in Comments -> "comment" [] t = "*" -> "star"
              [] OTHER -> "punct"

(* first XPath version (10, 20, 30, 31) in which the token is a token of the language *)
Since(t) == CASE t \in {"lt", "eq", "is", "to", "idiv", "if", "for", "in", "return", "instance of", "empty-sequence",
                        "<<", ",", "(:", ":)", "1e0", "?"} -> 20
              [] t \in {"!", "||", "Q{u}", "#", "{", "}", "let", ":=", "function"} -> 30
              [] t \in {"=>", "map", "array"} -> 31
              [] OTHER -> 10

(* ---------------------------------------------------------------------- *)
(* conservative grammar recogniser (spaced layout, XPath >= ver)           *)
Operand(t) == t \in Names \cup Literals \cup Dots
NameLike(t) == t \in Names \cup {"*"}
BinOps == {"+", "-", "*", "div", "mod", "and", "=", "|", "/", "//"}          \* 1.0 binary operators
BinOps20 == BinOps \cup {"eq", "lt", "is", "to", ",", "<<", "idiv"}
BinOps30 == BinOps20 \cup {"||", "!"}
BinOpsOf(ver) == IF ver = 10 THEN BinOps ELSE IF ver = 20 THEN BinOps20 ELSE BinOps30

HasComment(s) == \E i \in 1..Len(s) : s[i] \in Comments

(* sequences that ARE expressions of XPath version ver by the EBNF *)
Grammatical(s, ver) ==
  /\ \A i \in 1..Len(s) : Since(s[i]) <= ver
  /\ \/ Len(s) = 1 /\ (Operand(s[1]) \/ s[1] = "*" \/ s[1] = "/")
     \/ Len(s) = 2 /\ \/ s[1] \in Signs /\ Operand(s[2])
                      \/ s[1] \in Slashes /\ (NameLike(s[2]) \/ s[2] \in Dots)
                      \/ s[1] = "@" /\ NameLike(s[2])
                      \/ s[1] = "$" /\ s[2] \in Names /\ ver >= 20   \* 1.0: '$' QName is ONE lexical token
     \/ Len(s) = 3 /\ \/ Operand(s[1]) /\ s[2] \in BinOpsOf(ver) /\ Operand(s[3])
                          /\ (ver = 10 /\ s[2] \in Slashes => s[1] \notin Literals /\ s[3] \notin Literals)
                      \/ s[1] = "(" /\ Operand(s[2]) /\ s[3] = ")"
                      \/ s[1] \in {"child", "self"} /\ s[2] = "::" /\ NameLike(s[3])
     \/ Len(s) = 4 /\ \/ s[1] \in Names /\ s[2] = "[" /\ Operand(s[3]) /\ s[4] = "]"
                      \/ s[1] \in Signs /\ Operand(s[2]) /\ s[3] \in BinOps /\ Operand(s[4])
                          /\ (ver = 10 /\ s[3] \in Slashes => s[2] \notin Literals /\ s[4] \notin Literals)

RECURSIVE Depth(_, _, _)
(* bracket nesting: -1 as soon as a closing bracket has no partner *)
Depth(s, i, d) == IF i > Len(s) THEN d
                  ELSE IF s[i] \in Opens THEN Depth(s, i + 1, d + 1)
                  ELSE IF s[i] \in Closes THEN (IF d = 0 THEN 99 ELSE Depth(s, i + 1, d - 1))
                  ELSE Depth(s, i + 1, d)
Unbalanced(s) == Depth(s, 1, 0) # 0

(* sequences that are expressions of NO XPath version *)
IllFormed(s) ==
  /\ Len(s) > 0
  /\ ~HasComment(s)
  /\ \/ s[1] \in PureInfix \/ s[1] \in Closes
     \/ s[Len(s)] \in PureInfix \cup NeedRight \cup Signs \cup Opens \cup {"//"}
     \/ Unbalanced(s)
     \/ \E i \in 1..(Len(s) - 1) : s[i] \in Literals /\ s[i + 1] \in Literals   \* two adjacent literals

GrammarLaws == \A ver \in {10, 20, 30, 31} : ~(Grammatical(seq, ver) /\ IllFormed(seq))
Monotone == (Grammatical(seq, 10) => Grammatical(seq, 20)) /\ (Grammatical(seq, 20) => Grammatical(seq, 30)) /\ (Grammatical(seq, 30) => Grammatical(seq, 31))

(* the grammar class of a sequence: "ill", or the first version in which it is   *)
(* grammatical, or "open" (not decided by this conservative recogniser)          *)
GClass(s) == IF IllFormed(s) THEN "ill"
             ELSE IF Grammatical(s, 10) THEN "g10" ELSE IF Grammatical(s, 20) THEN "g20"
             ELSE IF Grammatical(s, 30) THEN "g30" ELSE IF Grammatical(s, 31) THEN "g31" ELSE "open"

(* ---------------------------------------------------------------------- *)
(* the machine                                                             *)
Init == seq = <<>> /\ gclass = GClass(<<>>)

AppendTok(tok) == /\ Len(seq) < MaxLen
                  /\ seq' = Append(seq, tok)
                  /\ gclass' = GClass(seq')

Next == \E tok \in Alphabet : AppendTok(tok)

Spec == Init /\ [][Next]_vars

TypeOK == /\ \A i \in 1..Len(seq) : seq[i] \in Alphabet
          /\ Len(seq) <= MaxLen
          /\ gclass = GClass(seq)

(* ---------------------------------------------------------------------- *)
(* one-token mutations                                                     *)
MutOps(n, alpha) ==
       {<<"del", i, "">> : i \in 1..n}
  \cup {<<"dup", i, "">> : i \in 1..n}
  \cup {<<"swap", i, "">> : i \in 1..(n - 1)}
  \cup {<<"rep", i, t>> : i \in 1..n, t \in alpha}

Apply(s, m) ==
  LET i == m[2] IN
  CASE m[1] = "del"  -> SubSeq(s, 1, i - 1) \o SubSeq(s, i + 1, Len(s))
    [] m[1] = "dup"  -> SubSeq(s, 1, i) \o SubSeq(s, i, Len(s))
    [] m[1] = "swap" -> [s EXCEPT ![i] = s[i + 1], ![i + 1] = s[i]]
    [] m[1] = "rep"  -> [s EXCEPT ![i] = m[3]]

Mutations(s) == {Apply(s, m) : m \in MutOps(Len(s), Alphabet)}

MutationLaws ==
  \A m \in MutOps(Len(seq), Alphabet) :
     LET r == Apply(seq, m) IN
     /\ m[1] = "del"  => Len(r) = Len(seq) - 1
     /\ m[1] = "dup"  => Len(r) = Len(seq) + 1 /\ r[m[2]] = r[m[2] + 1]
     /\ m[1] = "swap" => Len(r) = Len(seq) /\ Apply(r, m) = seq
     /\ m[1] = "rep"  => Len(r) = Len(seq) /\ (m[3] = seq[m[2]] <=> r = seq)
     /\ m[1] \in {"del", "dup"} => Apply(Apply(seq, <<"dup", m[2], "">>), <<"del", m[2], "">>) = seq
     /\ \A j \in 1..Len(r) : r[j] \in Alphabet \cup {seq[x] : x \in 1..Len(seq)}

(* the seeded choice for the k-th harvested expression having n tokens *)
ExprChosen(k) == (k + Seed) % ExprThin = 0
Chosen(k, n) == {m \in MutOps(n, Alphabet) :
                    m[1] = "rep" => (k + m[2] + Idx(m[3]) + Seed) % RepThin = 0}

(* ---------------------------------------------------------------------- *)
(* SEED expressions: valid expressions of constructs the alphabet cannot    *)
(* reach within the length bound (FLWOR bindings, quantifiers, sequence     *)
(* types with occurrence indicators, inline functions, arrow, lookup).      *)
(* Each seed itself and EVERY one-token mutation of it (no thinning) is     *)
(* replayed; tokens are joined by one space.                                *)
Seeds == <<
  <<"for", "$x", "in", "(", "1", ",", "2", ")", ",", "$y", "in", "(", "3", ",", "4", ")", "return", "$x", "+", "$y">>,
  <<"some", "$x", "in", "(", "1", ",", "2", ")", "satisfies", "$x", "=", "1">>,
  <<"let", "$x", ":=", "1", ",", "$y", ":=", "2", "return", "$x", "+", "$y">>,
  <<"if", "(", "a", ")", "then", "1", "else", "2">>,
  <<"[", "'a'", "]", "instance of", "array", "(", "xs:string", "*", ")">>,
  <<"map", "{", "1", ":", "'a'", "}", "instance of", "map", "(", "xs:integer", ",", "xs:string", "+", ")">>,
  <<"(", "1", ",", "2", ")", "instance of", "xs:integer", "+">>,
  <<"a", "treat as", "element", "(", "a", ")", "?">>,
  <<"'1'", "cast as", "xs:integer", "?">>,
  <<"let", "$f", ":=", "function", "(", "$a", "as", "xs:integer", ")", "as", "xs:integer", "{", "$a", "+", "1", "}", "return", "$f", "(", "2", ")">>,
  <<"(", "1", ",", "2", ")", "=>", "sum", "(", ")", "=>", "string", "(", ")">>,
  <<"1", "=>", "unknown:f", "(", ")">>,
  <<"map", "{", "'a'", ":", "1", "}", "?", "a">>,
  <<"[", "1", ",", "2", "]", "?", "1">>,
  <<"/", "a", "/", "b", "[", "@x", "=", "'1'", "]", "[", "1", "]", "/", "text", "(", ")">>,
  <<"fn:abs", "#", "1", "(", "-", "1", ")">>,
  <<"year-from-date", "(", "@x", ")">>
>>

(* STRESS vectors: the text  pre^n mid post^n tail  (deep nesting / long literals) *)
Stress == {
  [pre |-> "(",    n |-> 2000, mid |-> "1",  post |-> ")",  tail |-> ""],
  [pre |-> "1",    n |-> 5000, mid |-> "",   post |-> "",   tail |-> ""],
  [pre |-> "1",    n |-> 5000, mid |-> ".5", post |-> "",   tail |-> ""],
  [pre |-> "-",    n |-> 2000, mid |-> "1",  post |-> "",   tail |-> ""],
  [pre |-> "a/",   n |-> 2000, mid |-> "a",  post |-> "",   tail |-> ""],
  [pre |-> "a[",   n |-> 1000, mid |-> "1",  post |-> "]",  tail |-> ""],
  [pre |-> "1+",   n |-> 3000, mid |-> "1",  post |-> "",   tail |-> ""],
  [pre |-> "(:",   n |-> 500,  mid |-> "",   post |-> ":)", tail |-> "1"],
  [pre |-> "a",    n |-> 5000, mid |-> "",   post |-> "",   tail |-> ""],
  [pre |-> "(",    n |-> 50,   mid |-> "1",  post |-> ")",  tail |-> ""]
}

(* PUMP family ("no call hangs" for EVERY input string, long ones included):   *)
(* the text  head unit^n mid post^n tail  for n in PumpCounts.  Every pump has *)
(* a breaking head/tail, so that by the grammar its outcome CLASS (tree or     *)
(* coded error) does not depend on n (inv = TRUE); PumpLaw is what the harness *)
(* checks on the real parsers, together with the 10 s watchdog: parse time     *)
(* must stay bounded when a token is pumped (tokenizer patterns must not       *)
(* backtrack exponentially on unterminated literals / comments).               *)
PumpCounts == {1, 30, 200}
P(id, head, unit, mid, post, tail, inv) ==
  [id |-> id, head |-> head, unit |-> unit, mid |-> mid, post |-> post, tail |-> tail, inv |-> inv]
Pumps == {
  P("sq-unterminated",        "'",        "a",    "", "", "",         TRUE),
  P("dq-unterminated",        "\"",       "a",    "", "", "",         TRUE),
  P("sq-unterminated-doubled", "'",       "a''",  "", "", "",         TRUE),
  P("dq-unterminated-doubled", "\"",      "a\"\"", "", "", "",        TRUE),
  P("sq-unterminated-other",  "'",        "\"b",  "", "", "",         TRUE),
  P("dq-unterminated-other",  "\"",       "'b",   "", "", "",         TRUE),
  P("sq-unterminated-pairs",  "'",        "''",   "", "", "",         TRUE),
  P("sq-unterminated-uri",    "compare('a', 'b', 'http://", "w", "", "", "?lang=de)", TRUE),
  P("sq-unterminated-pred",   "a[@x='",   "v",    "", "", "]",        TRUE),
  P("sq-unterminated-mixed",  "concat('", "a 1.5e+3 (: x :) ", "", "", ", 1)", TRUE),
  P("sq-terminated",          "'",        "a",    "'", "", "",        TRUE),
  P("sq-terminated-doubled",  "'",        "a''",  "'", "", "",        TRUE),
  P("quote-pairs",            "",         "''",   "", "", "",         TRUE),
  P("comment-unterminated",   "1 (:",     " c",   "", "", "",         TRUE),
  P("comment-unterminated-nested", "1 ",  "(: ",  "", "", "",         TRUE),
  P("comment-unterminated-colons", "1 (:", ":",   "", "", "",         TRUE),
  P("comment-terminated",     "1 (:",     " c",   " :)", "", "",      TRUE),
  P("digits-break",           "",         "1",    "", "", " ~",       TRUE),
  P("digits",                 "",         "1",    "", "", "",         TRUE),
  P("dots",                   "1..",      ".",    "", "", "",         TRUE),
  P("decimal-digits",         "1.",       "5",    "", "", "",         TRUE),
  P("e-run",                  "1",        "e",    "", "", "",         TRUE),
  P("exponent-digits-break",  "1e",       "9",    "", "", " ~",       TRUE),
  P("exponent-digits",        "1.5e",     "1",    "", "", "",         FALSE),   \* INF or FOAR0002: implementation-defined
  P("exponent-signs",         "1e+",      "+",    "", "", "1",        TRUE),
  P("name-break",             "",         "a",    "", "", " ~",       TRUE),
  P("name-dashes",            "a",        "-",    "", "", " ~",       TRUE),
  P("prefix-long",            "",         "p",    "", "", ":a",       TRUE),
  P("colons",                 "a",        ":",    "", "", "b",        FALSE),   \* a:b is a QName, a::b an unknown axis
  P("braced-uri-unterminated", "Q{",      "u",    "", "", "",         TRUE),
  P("braced-uri-open-braces", "Q{",       "{",    "", "", "}a",       TRUE),
  P("parens-nested",          "",         "(",    "1", ")", "",       TRUE),
  P("parens-unclosed",        "",         "(",    "1", "", "",        TRUE),
  P("parens-unopened",        "1",        ")",    "", "", "",         TRUE),
  P("brackets-unclosed",      "a",        "[",    "1", "", "",        TRUE),
  P("braces-unclosed",        "map",      "{",    "", "", "",         TRUE),
  P("slashes",                "a",        "/",    "", "", "",         TRUE),
  P("minus-break",            "",         "-",    "", "", " ~",       TRUE),
  P("whitespace",             "1",        " ",    "", "", "+",        TRUE),
  P("newlines",               "1",        "\n",   "", "", "+",        TRUE),
  P("dollars",                "",         "$",    "", "", "a",        FALSE),
  P("at-signs",               "",         "@",    "", "", "a",        FALSE),
  P("hashes",                 "a",        "#",    "", "", "1",        FALSE),
  P("question-marks",         "a",        "?",    "", "", "",         FALSE),
  P("lt-chain",               "1",        " < 1", "", "", " <",       TRUE),
  P("arrow-chain",            "1",        " =>",  "", "", "",         TRUE),
  P("bang-chain",             "1",        "!",    "", "", "",         TRUE),
  P("bars",                   "'a'",      "|",    "", "", "",         TRUE)
}
(* PumpLaw (checked by the harness per parser version, it quantifies over the real parse):   *)
(*   \A p \in Pumps, n \in PumpCounts : p.inv => Class(parse(Text(p, n))) = Class(parse(Text(p, 1))) *)
(*   where Text(p, n) = head unit^n mid post^n tail and Class is "value" or "err" (Outcome.tla) *)

(* GAP CHARACTERS: one character of each Unicode general category and every white-space-like  *)
(* character (XML S, other Unicode white space, controls), given by code point, is inserted      *)
(* into each GapSeed at every GAP between two tokens (before the first / after the last token   *)
(* included), in the MIDDLE of every token (names, numbers, literals) and right after the first  *)
(* character of every token (after '$').  XML white space must behave as a separator; for every  *)
(* other character the parse may accept or reject (XPST0003), Outcome.tla says what is legal.    *)
GapChars == { [id |-> "space", cp |-> 32], [id |-> "tab", cp |-> 9], [id |-> "lf", cp |-> 10], [id |-> "cr", cp |-> 13],
              [id |-> "ff", cp |-> 12], [id |-> "vt", cp |-> 11], [id |-> "us-001f", cp |-> 31], [id |-> "fs-001c", cp |-> 28],
              [id |-> "nel-0085", cp |-> 133], [id |-> "nbsp", cp |-> 160], [id |-> "ogham-space", cp |-> 5760],
              [id |-> "en-quad", cp |-> 8192], [id |-> "line-sep-Zl", cp |-> 8232], [id |-> "para-sep-Zp", cp |-> 8233],
              [id |-> "narrow-nbsp", cp |-> 8239], [id |-> "ideographic-space", cp |-> 12288],
              [id |-> "zwsp-Cf", cp |-> 8203], [id |-> "bom-Cf", cp |-> 65279], [id |-> "private-Co", cp |-> 57344],
              [id |-> "unassigned-Cn", cp |-> 888], [id |-> "combining-Mn", cp |-> 769], [id |-> "math-Sm", cp |-> 8721],
              [id |-> "symbol-So", cp |-> 9731], [id |-> "digit-Nd", cp |-> 1635], [id |-> "letter-Lo", cp |-> 20013],
              [id |-> "astral-So", cp |-> 128512], [id |-> "del-Cc", cp |-> 127], [id |-> "nonchar-FFFE", cp |-> 65534] }
GapSeeds == << <<"1", "+", "2">>, <<"$x">>, <<"$x", "+", "$x">>, <<"a", "/", "b", "[", "1", "]">>, <<"count", "(", "a", ")">>,
              <<"1.5e0", "*", ".5">>, <<"'s'", "=", "\"t\"">>, <<"child", "::", "a">>, <<"p", ":", "a">>,
              <<"for", "$x", "in", "1", "return", "$x">> >>
GapPlaces == {"gap", "middle", "after-first"}

(* printed once at start-up: the outcome oracle sets and the mutation plan *)
ASSUME PrintOracle == /\ PrintT(<<"legal_parse", O!LegalShapes("parse")>>)
                      /\ PrintT(<<"legal_eval", O!LegalShapes("eval")>>)
                      /\ PrintT(<<"all_tokens", TokSeq>>)
                      /\ PrintT(<<"core_tokens", Core>>)
(* The mutation plan is printed by a module generated at check time (cfg files cannot  *)
(* hold tuples):  EXTENDS Tokens,  GenLens == <<n1, n2, ...>>  (token counts only) and  *)
(*   ASSUME \A k \in 1..Len(GenLens) : ExprChosen(k) => PrintT(<<"mut", k, Chosen(k, GenLens[k])>>) *)
(* The same module prints the seed plan <<"seedmut", k, Seeds[k], MutOps(Len(Seeds[k]), Alphabet)>>  *)
(* <<"gapchars", GapChars>>, <<"gapseeds", GapSeeds>>, <<"gapplaces", GapPlaces>>,                   *)
(* <<"stress", Stress>>, <<"pumps", Pumps>> and <<"pump_counts", PumpCounts>>.                     *)

(* self-check vectors for the harness' 1:1 application of descriptors *)
ApplyVectors == Len(seq) = 2 => PrintT(<<"apply", seq, {<<m, Apply(seq, m)>> : m \in MutOps(2, {"a", "("})}>>)
=============================================================================
