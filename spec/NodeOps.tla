------------------------------- MODULE NodeOps -------------------------------
(***************************************************************************)
(* Value-state machine of the node-identity / document-order operators     *)
(* (property C02, second sentence):                                        *)
(*     is   <<   >>   union (|)   intersect   except                       *)
(*     fn:root   fn:innermost   fn:outermost                               *)
(* over the definitional XDM image of an input tree (XTree!DefSeq).        *)
(*                                                                         *)
(* Nodes are RANKS 1..M in document order (index in DefSeq); dseq / dpar   *)
(* carry the descriptor and the parent rank of every rank so that the      *)
(* binding can find the real node object of a rank by identity.            *)
(* State: the tree, the current node set `cur` (a set: the result of a     *)
(* set operator is duplicate free and in document order = ascending rank)  *)
(* and the number of operators applied so far (bounded by MaxSteps: the    *)
(* closure of ten operand sets under the set algebra is 2^atoms per tree). *)
(* The expression that led to `cur` is NOT in the state; the harness       *)
(* rebuilds an expression text for every state from a BFS spanning tree    *)
(* (chains like $a | $b | $c).                                             *)
(* A comparison ends a behaviour: res holds its boolean result.            *)
(*                                                                         *)
(* Besides operand SETS handed over as variables there are operands        *)
(* spelled as PATHS and evaluated from a FOCUS (context item) that is an   *)
(* element, not the document: absolute ones ("//*", "//@*") that move the  *)
(* focus away while they are evaluated and relative ones ("*", "@*",       *)
(* ".//*", "text()") that depend on it.  A op B must be the set operation /*)
(* comparison of what A and B select FROM THE SAME FOCUS (PathAny,         *)
(* PathCmpAny), whatever the order of an absolute and a relative operand.  *)
(* RootWalk is an operation SEQUENCE on one dynamic context: fn:root of    *)
(* every element and then of its attribute and namespace nodes, which the  *)
(* implementation creates lazily, i.e. after the first fn:root call.       *)
(*                                                                         *)
(* Chain2 / Chain3 are UNPARENTHESISED chains of two and three set         *)
(* operators over named operand sets; their value is the one of the XPath  *)
(* EBNF grouping: UnionExpr ::= IntersectExceptExpr (("union" | "|")       *)
(* IntersectExceptExpr)* and IntersectExceptExpr ::= InstanceofExpr        *)
(* (("intersect" | "except") InstanceofExpr)* -- union binds loosest,      *)
(* intersect and except share one level and associate to the left.  The    *)
(* last parameter tells whether some OTHER grouping would give a different *)
(* node set (the chain discriminates).                                     *)
(*                                                                         *)
(* RawAny: the caller hands a RAW object of the input tree (element,       *)
(* comment, PI, lxml document-level sibling, the ElementTree) to the       *)
(* library as context item or variable value.  The XDM node standing for   *)
(* it IS the node of the tree: same identity, parent, root, order.         *)
(***************************************************************************)
EXTENDS XTree, TLC

CONSTANTS MaxItems, ItemKinds, TextOpts, TailOpts, AttrCounts, DeclOpts,
          Variants, RootArgs, Fragments, NsArgs, MaxSibs,
          SibKinds,       \* kinds of the lxml document-level siblings (subset of {"c", "p"})
          Operands,       \* names of the operand node sets, see Opnd
          MaxSteps,       \* longest operator chain
          AbsPaths,       \* absolute operand paths  (subset of {"//*", "//@*", "//text()"})
          RelPaths,       \* relative operand paths  (subset of {"*", "@*", "text()", ".//*", "."})
          RelRel,         \* TRUE: also pairs of two different relative operands
          PathCmpOps,     \* comparison operators asked with path operands (subset of {"is", "<<", ">>"})
          ChainOps,       \* operators of the unparenthesised chains (subset of {"union", "intersect", "except"})
          RawProbes       \* questions asked about a raw tree object, see Raw

VARIABLES cur, res, cmp, steps, dseq, dpar, opnds
vars == <<ivars, cur, res, cmp, steps, dseq, dpar, opnds>>

SibSeqs == UNION {[1..m -> SibKinds] : m \in 0..MaxSibs}

M == Len(dseq)
Ranks == 1..M

(* operand sets of the unparenthesised chains: pairwise overlapping, none contained in another on most trees *)
ChainSeq == <<"odd", "low", "elems", "kids">>
ChainNames == {ChainSeq[i] : i \in 1..4}

RECURSIVE AncR(_)
AncR(r) == IF dpar[r] = 0 THEN {} ELSE {dpar[r]} \cup AncR(dpar[r])
TopR(r) == IF dpar[r] = 0 THEN r ELSE CHOOSE a \in AncR(r) : dpar[a] = 0
KindR(r) == dseq[r][1]
RootElemR == CHOOSE r \in Ranks : dseq[r] = <<"e", 1, 0>>

(* operand node sets, by name *)
Opnd(name) ==
  CASE name = "all"    -> Ranks
    [] name = "elems"  -> {r \in Ranks : KindR(r) = "e"}
    [] name = "attrs"  -> {r \in Ranks : KindR(r) = "a"}
    [] name = "nss"    -> {r \in Ranks : KindR(r) = "ns"}
    [] name = "texts"  -> {r \in Ranks : KindR(r) \in {"t", "l"}}
    [] name = "leaves" -> {r \in Ranks : KindR(r) \in {"c", "p", "sc", "sp"}}
    [] name = "kids"   -> {r \in Ranks : dpar[r] = RootElemR /\ KindR(r) \notin {"a", "ns"}}
    [] name = "odd"    -> {r \in Ranks : r % 2 = 1}
    [] name = "low"    -> {r \in Ranks : 2 * r <= M + 2}
    [] name = "last"   -> {M}
    [] name = "top"    -> {1}

Init ==
  /\ InputInit(MaxItems, ItemKinds, TextOpts, TailOpts, {FALSE}, AttrCounts, DeclOpts,
               Variants, RootArgs, Fragments, NsArgs, SibSeqs)
  /\ dseq = [j \in 1..Len(DefSeq) |-> <<DefSeq[j].k, DefSeq[j].src, DefSeq[j].sub>>]
  /\ dpar = LET S == DefSeq IN
            [j \in 1..Len(S) |-> IF DefParent(S[j]) = NoneD THEN 0 ELSE RankIn(S, DefParent(S[j]))]
  /\ opnds = [nm \in Operands \cup ChainNames |-> Opnd(nm)]    \* the operand sets, for the binding (variable values)
  /\ cur = {RootElemR}
  /\ res = "-"
  /\ cmp = <<>>
  /\ steps = 0

(* ---- path-spelled operands, evaluated from the focus f (an element rank) ---- *)
ElemRanks == {r \in Ranks : KindR(r) = "e"}
(* where a leading "/" starts (C01, root configurations): the document node of the tree; for an element root
   without document the VIRTUAL document whose child is the root element (fragment=None) or, for an explicit
   fragment, the root element itself *)
AbsBase == IF KindR(1) = "d" THEN "doc" ELSE IF fragment = "true" THEN "frag" ELSE "virtual"
PathSet(pn, f) ==
  CASE pn = "//*"      -> {r \in ElemRanks : dpar[r] # 0 \/ AbsBase = "virtual"}     \* /descendant-or-self::node()/child::*
    [] pn = "//@*"     -> {r \in Ranks : KindR(r) = "a"}
    [] pn = "//text()" -> {r \in Ranks : KindR(r) \in {"t", "l"}}
    [] pn = "*"        -> {r \in ElemRanks : dpar[r] = f}
    [] pn = "@*"       -> {r \in Ranks : dpar[r] = f /\ KindR(r) = "a"}
    [] pn = "text()"   -> {r \in Ranks : dpar[r] = f /\ KindR(r) \in {"t", "l"}}
    [] pn = ".//*"     -> {r \in ElemRanks : f \in AncR(r)}
    [] pn = "."        -> {f}
MinOf(S) == CHOOSE a \in S : \A b \in S : a <= b

Live == res = "-" /\ steps < MaxSteps
Keep == UNCHANGED <<ivars, dseq, dpar, opnds>>

(* E union T,  E intersect T,  E except T,  T except E *)
SetOp(op, name) ==
  /\ Live
  /\ cur' = CASE op = "union"     -> cur \cup opnds[name]
              [] op = "intersect" -> cur \cap opnds[name]
              [] op = "except"    -> cur \ opnds[name]
              [] op = "rexcept"   -> opnds[name] \ cur
  /\ steps' = steps + 1
  /\ UNCHANGED <<res, cmp>> /\ Keep

InnermostOf(S) == {x \in S : \A y \in S : x \notin AncR(y)}    \* no member below it
OutermostOf(S) == {x \in S : AncR(x) \cap S = {}}              \* no member above it

Fn(f) ==
  /\ Live
  /\ cur' = CASE f = "innermost" -> InnermostOf(cur)
              [] f = "outermost" -> OutermostOf(cur)
              [] f = "root"      -> {TopR(x) : x \in cur}
  /\ steps' = steps + 1
  /\ UNCHANGED <<res, cmp>> /\ Keep

(* node comparisons between any two nodes of the tree (asked in the initial state only:
   the result depends on the tree alone) *)
Cmp(op, a, b) ==
  /\ Live /\ steps = 0
  /\ a \in Ranks /\ b \in Ranks
  /\ res' = IF (CASE op = "is" -> a = b
                  [] op = "<<" -> a < b
                  [] op = ">>" -> a > b) THEN "true" ELSE "false"
  /\ cmp' = <<op, a, b>>      \* the operands are state-dependent: recorded in the target state for the binding
  /\ cur' = {a, b}
  /\ steps' = steps + 1
  /\ Keep

(* every ordered pair for <<; >> for equal and neighbouring ranks and against the first / last node; `is` for
   those and for EVERY pair of nodes of the same kind: identity is the node, never its value -- two text nodes,
   attributes, comments, PIs or namespace nodes with equal content (the binding renders them equal-valued) are
   different nodes:  $a is $b  <=>  same rank *)
CmpAny == \E op \in {"is", "<<", ">>"}, a \in Ranks, b \in Ranks :
             /\ op # "<<" => (b \in {a, a + 1, 1, M} \/ b + 1 = a \/ (op = "is" /\ KindR(a) = KindR(b)))
             /\ Cmp(op, a, b)

(* (A) op (B) from focus f: both operands see the SAME focus *)
PathOp(op, A, B, f) ==
  /\ Live /\ steps = 0
  /\ cur' = CASE op = "union"     -> PathSet(A, f) \cup PathSet(B, f)
              [] op = "intersect" -> PathSet(A, f) \cap PathSet(B, f)
              [] op = "except"    -> PathSet(A, f) \ PathSet(B, f)
  /\ res' = "set"
  /\ cmp' = <<"path", op, A, B, f>>
  /\ steps' = steps + 1
  /\ Keep

MixedPairs == (AbsPaths \X RelPaths) \cup (RelPaths \X AbsPaths)
PathAny == \E op \in {"union", "intersect", "except"},
              pr \in MixedPairs \cup {q \in RelPaths \X RelPaths : RelRel /\ q[1] # q[2]}, f \in ElemRanks :
             PathOp(op, pr[1], pr[2], f)

(* (A)[1] op (B)[1] from focus f; the empty sequence if an operand is empty *)
PathCmp(op, A, B, f) ==
  /\ Live /\ steps = 0
  /\ LET SA == PathSet(A, f)  SB == PathSet(B, f) IN
     IF SA = {} \/ SB = {}
     THEN res' = "empty" /\ cur' = {}
     ELSE LET a == MinOf(SA)  b == MinOf(SB) IN
          /\ res' = IF (CASE op = "is" -> a = b [] op = "<<" -> a < b [] op = ">>" -> a > b) THEN "true" ELSE "false"
          /\ cur' = {a, b}
  /\ cmp' = <<"pathcmp", op, A, B, f>>
  /\ steps' = steps + 1
  /\ Keep

PathCmpAny == \E op \in PathCmpOps, pr \in MixedPairs, f \in ElemRanks : PathCmp(op, pr[1], pr[2], f)

(* for $e in <elements> return (root($e), $e/@*/root(), $e/namespace::*/root()) -- one dynamic context:
   the roots in the order the calls are made (a path step removes duplicates: one root per non-empty step) *)
RECURSIVE RootSeq(_)
RootSeq(es) ==
  IF es = <<>> THEN <<>>
  ELSE LET e == Head(es)
           at == {TopR(x) : x \in {r \in Ranks : dpar[r] = e /\ KindR(r) = "a"}}
           ns == {TopR(x) : x \in {r \in Ranks : dpar[r] = e /\ KindR(r) = "ns"}}
       IN <<TopR(e)>> \o AscSeq(at) \o AscSeq(ns) \o RootSeq(Tail(es))
RootWalk ==
  /\ Live /\ steps = 0
  /\ cmp' = <<"rootwalk", RootSeq(AscSeq(ElemRanks))>>
  /\ cur' = {TopR(x) : x \in Ranks}
  /\ res' = "seq"
  /\ steps' = steps + 1
  /\ Keep

(* ---- unparenthesised chains ---- *)
Apply(op, X, Y) == CASE op = "union" -> X \cup Y [] op = "intersect" -> X \cap Y [] op = "except" -> X \ Y
(* value by the EBNF: split at the LAST union (union is left-associative and binds loosest), the union-free
   rest is folded from the left *)
RECURSIVE EvalChain(_, _)
EvalChain(ops, sets) ==      \* Len(sets) = Len(ops) + 1
  IF ops = <<>> THEN sets[1]
  ELSE LET us == {k \in 1..Len(ops) : ops[k] = "union"} IN
       IF us = {}
       THEN Apply(ops[Len(ops)], EvalChain(SubSeq(ops, 1, Len(ops) - 1), SubSeq(sets, 1, Len(ops))), sets[Len(sets)])
       ELSE LET k == CHOOSE u \in us : \A w \in us : w <= u IN
            EvalChain(SubSeq(ops, 1, k - 1), SubSeq(sets, 1, k))
              \cup EvalChain(SubSeq(ops, k + 1, Len(ops)), SubSeq(sets, k + 1, Len(sets)))
(* every other way to put parentheses *)
Alt2(o, S) == {Apply(o[1], S[1], Apply(o[2], S[2], S[3])), Apply(o[2], Apply(o[1], S[1], S[2]), S[3])}
Alt3(o, S) ==
  {Apply(o[3], Apply(o[2], Apply(o[1], S[1], S[2]), S[3]), S[4]),
   Apply(o[3], Apply(o[1], S[1], Apply(o[2], S[2], S[3])), S[4]),
   Apply(o[2], Apply(o[1], S[1], S[2]), Apply(o[3], S[3], S[4])),
   Apply(o[1], S[1], Apply(o[3], Apply(o[2], S[2], S[3]), S[4])),
   Apply(o[1], S[1], Apply(o[2], S[2], Apply(o[3], S[3], S[4])))}

Chain2(o1, o2, i, j, k, disc) ==      \* $A o1 $B o2 $C
  /\ Live /\ steps = 0
  /\ i # j /\ j # k /\ i # k
  /\ LET S == <<opnds[ChainSeq[i]], opnds[ChainSeq[j]], opnds[ChainSeq[k]]>>
         v == EvalChain(<<o1, o2>>, S) IN
     /\ disc = (Alt2(<<o1, o2>>, S) # {v})
     /\ cur' = v
  /\ res' = "set" /\ cmp' = <<>>
  /\ steps' = steps + 1
  /\ Keep

Chain3(o1, o2, o3, i, dir, disc) ==   \* $A o1 $B o2 $C o3 $D, operands = ChainSeq read from i on, forwards / backwards
  /\ Live /\ steps = 0
  /\ LET at(q) == ChainSeq[((i - 1 + (IF dir = 1 THEN q ELSE 4 - q)) % 4) + 1]
         S == <<opnds[at(0)], opnds[at(1)], opnds[at(2)], opnds[at(3)]>>
         v == EvalChain(<<o1, o2, o3>>, S) IN
     /\ disc = (Alt3(<<o1, o2, o3>>, S) # {v})
     /\ cur' = v
  /\ res' = "set" /\ cmp' = <<>>
  /\ steps' = steps + 1
  /\ Keep

(* ---- raw objects of the input tree handed in by the caller ---- *)
RawRanks == {r \in Ranks : KindR(r) \in {"e", "c", "p", "sc", "sp"} \/ (KindR(r) = "d" /\ rootarg = "tree")}
Raw(x, pb) ==      \* $v (or the context item) is the raw object of rank x; $n is the node of the tree, $all all nodes
  /\ Live /\ steps = 0
  /\ cmp' = <<"raw", pb, x>>
  /\ CASE pb = "is"        -> res' = "true" /\ cur' = {x}                       \* $v is $n      . is $n
       [] pb = "self"      -> res' = "set" /\ cur' = {x}                        \* .   $v
       [] pb = "one"       -> res' = "set" /\ cur' = {x}                        \* $v | $n : ONE node
       [] pb = "parent"    -> res' = "set" /\ cur' = {dpar[x]} \cap ElemRanks    \* $v/parent::*
       [] pb = "root"      -> res' = "set" /\ cur' = {TopR(x)}                  \* root($v)
       [] pb = "before"    -> res' = (IF x < M THEN "true" ELSE "false") /\ cur' = {x, M}     \* $v << $last
       [] pb = "intersect" -> res' = "set" /\ cur' = {x}                        \* $all intersect $v
       [] pb = "except"    -> res' = "set" /\ cur' = Ranks \ {x}                \* $all except $v
       [] pb = "list"      -> res' = "set" /\ cur' = RawRanks                   \* $all intersect $vs  (a list of raw objects)
  /\ steps' = steps + 1
  /\ Keep
RawAny == \E x \in RawRanks, pb \in RawProbes : (pb = "list" => x = RootElemR) /\ Raw(x, pb)

SetOps == {"union", "intersect", "except", "rexcept"}
Fns == {"innermost", "outermost", "root"}
CmpOps == {"is", "<<", ">>"}

Next == \/ \E op \in SetOps, name \in Operands : SetOp(op, name)
        \/ \E f \in Fns : Fn(f)
        \/ CmpAny
        \/ PathAny
        \/ PathCmpAny
        \/ RootWalk
        \/ \E o1 \in ChainOps, o2 \in ChainOps, i \in 1..4, j \in 1..4, k \in 1..4, disc \in BOOLEAN :
              Chain2(o1, o2, i, j, k, disc)
        \/ \E o1 \in ChainOps, o2 \in ChainOps, o3 \in ChainOps, i \in 1..4, dir \in {0, 1}, disc \in BOOLEAN :
              Chain3(o1, o2, o3, i, dir, disc)
        \/ RawAny

Spec == Init /\ [][Next]_vars

---------------------------------------------------------------------------
TypeOK == steps \in 0..MaxSteps /\ cur \subseteq Ranks /\ res \in {"-", "true", "false", "empty", "set", "seq"}

(* XDM 2.4 document order stated RELATIONALLY on the tree (not by the preorder construction):
   an ancestor precedes its descendants; otherwise look at the two branches below the lowest
   common ancestor: namespace nodes < attributes < children, children in children order *)
BranchOf(c, x) == IF dpar[x] = c THEN x ELSE CHOOSE y \in AncR(x) : dpar[y] = c
ClassOf(r) == CASE KindR(r) = "ns" -> 1 [] KindR(r) = "a" -> 2 [] OTHER -> 3
ChildIndex(c, x) ==   \* position of x in dm:children(c), by the definitional children list
  LET ch == DefChildren(D(dseq[c][1], dseq[c][2], dseq[c][3])) IN
  CHOOSE u \in 1..Len(ch) : <<ch[u].k, ch[u].src, ch[u].sub>> = dseq[x]
BeforeRel(a, b) ==
  /\ a # b
  /\ \/ a \in AncR(b)
     \/ /\ b \notin AncR(a)
        /\ LET common == (AncR(a) \cap AncR(b))
               c == CHOOSE z \in common : \A w \in common : w <= z     \* lowest common ancestor
               x == BranchOf(c, a)
               y == BranchOf(c, b)
           IN \/ ClassOf(x) < ClassOf(y)
              \/ /\ ClassOf(x) = ClassOf(y)
                 /\ IF ClassOf(x) = 3 THEN ChildIndex(c, x) < ChildIndex(c, y)
                    ELSE dseq[x][3] < dseq[y][3]

OrderLaw == steps = 0 =>
  /\ \A a, b \in Ranks : BeforeRel(a, b) <=> a < b          \* << is the rank order: a strict total order
  /\ Cardinality({r \in Ranks : dpar[r] = 0}) = 1           \* one tree: every two nodes are comparable

SetLaws == res = "-" =>
  \A name \in Operands :
     LET T == opnds[name] IN
     /\ (cur \cup T) = (cur \ T) \cup (cur \cap T) \cup (T \ cur)
     /\ (cur \ T) \cap T = {}
     /\ (cur \cap T) \subseteq cur

FnLaws == res = "-" =>
  LET I == InnermostOf(cur)  O == OutermostOf(cur) IN
  /\ I \subseteq cur /\ O \subseteq cur
  /\ \A x \in cur : \E y \in I : y = x \/ x \in AncR(y)       \* every member has a descendant-or-self in innermost
  /\ \A x \in cur : \E y \in O : y = x \/ y \in AncR(x)       \* ... and an ancestor-or-self in outermost
  /\ \A x, y \in I : x \notin AncR(y)                          \* antichains
  /\ \A x, y \in O : x \notin AncR(y)
  /\ InnermostOf(I) = I /\ OutermostOf(O) = O
  /\ \A x \in cur : dpar[TopR(x)] = 0 /\ (TopR(x) = x \/ TopR(x) \in AncR(x))

PathLaws == steps = 0 =>
  /\ \A f \in ElemRanks :
       /\ PathSet("*", f) \subseteq PathSet(".//*", f)
       /\ PathSet(".//*", f) \subseteq ElemRanks \ {f}
       /\ PathSet("@*", f) \subseteq PathSet("//@*", f)
       /\ PathSet("text()", f) \subseteq PathSet("//text()", f)
       /\ f # RootElemR => f \in PathSet("//*", f)
       /\ PathSet("//*", f) \cup {RootElemR} = ElemRanks
  /\ Cardinality({TopR(x) : x \in Ranks}) = 1           \* fn:root is the same node for every node of the tree

(* the EBNF evaluation on parenthesis-free chains agrees with the explicit groupings it stands for *)
ChainLaws == steps = 0 =>
  LET A == opnds["odd"]  B == opnds["low"]  C == opnds["elems"]  Dd == opnds["kids"] IN
  /\ EvalChain(<<"except", "intersect">>, <<A, B, C>>) = (A \ B) \cap C
  /\ EvalChain(<<"intersect", "except">>, <<A, B, C>>) = (A \cap B) \ C
  /\ EvalChain(<<"union", "except">>, <<A, B, C>>) = A \cup (B \ C)
  /\ EvalChain(<<"except", "union">>, <<A, B, C>>) = (A \ B) \cup C
  /\ EvalChain(<<"union", "intersect">>, <<A, B, C>>) = A \cup (B \cap C)
  /\ EvalChain(<<"except", "except">>, <<A, B, C>>) = (A \ B) \ C
  /\ EvalChain(<<"except", "union", "intersect">>, <<A, B, C, Dd>>) = (A \ B) \cup (C \cap Dd)
  /\ EvalChain(<<"union", "except", "intersect">>, <<A, B, C, Dd>>) = A \cup ((B \ C) \cap Dd)
  /\ EvalChain(<<"except", "intersect", "except">>, <<A, B, C, Dd>>) = (((A \ B) \cap C) \ Dd)

Laws == OrderLaw /\ SetLaws /\ FnLaws /\ PathLaws /\ ChainLaws
=============================================================================
