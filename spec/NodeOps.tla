------------------------------- MODULE NodeOps -------------------------------
(***************************************************************************)
(* Value-state machine of the node-identity / document-order operators     *)
(* (property C02, second sentence):                                        *)
(*     is   <<   >>   union (|)   intersect   except                       *)
(*     fn:root   fn:innermost   fn:outermost                               *)
(* over the definitional XDM image of an input tree (XTree!DefSeq).        *)
(*                                                                         *)
(* Nodes are RANKS 1..M in document order (index in DefSeq); dseq / dpar   *)
(* carry the descriptor and the parent rank of every rank so that the      *)
(* binding can find the real node object of a rank by identity.            *)
(* State: the tree, the current node set `cur` (a set: the result of a     *)
(* set operator is duplicate free and in document order = ascending rank)  *)
(* and the number of operators applied so far (bounded by MaxSteps: the    *)
(* closure of ten operand sets under the set algebra is 2^atoms per tree). *)
(* The expression that led to `cur` is NOT in the state; the harness       *)
(* rebuilds an expression text for every state from a BFS spanning tree    *)
(* (chains like $a | $b | $c).                                             *)
(* A comparison ends a behaviour: res holds its boolean result.            *)
(***************************************************************************)
EXTENDS XTree, TLC

CONSTANTS MaxItems, ItemKinds, TextOpts, TailOpts, AttrCounts, DeclOpts,
          Variants, RootArgs, Fragments, NsArgs, MaxSibs,
          Operands,       \* names of the operand node sets, see Opnd
          MaxSteps        \* longest operator chain

VARIABLES cur, res, cmp, steps, dseq, dpar, opnds
vars == <<ivars, cur, res, cmp, steps, dseq, dpar, opnds>>

SibSeqs == UNION {[1..m -> {"c", "p"}] : m \in 0..MaxSibs}

M == Len(dseq)
Ranks == 1..M

RECURSIVE AncR(_)
AncR(r) == IF dpar[r] = 0 THEN {} ELSE {dpar[r]} \cup AncR(dpar[r])
TopR(r) == IF dpar[r] = 0 THEN r ELSE CHOOSE a \in AncR(r) : dpar[a] = 0
KindR(r) == dseq[r][1]
RootElemR == CHOOSE r \in Ranks : dseq[r] = <<"e", 1, 0>>

(* operand node sets, by name *)
Opnd(name) ==
  CASE name = "all"    -> Ranks
    [] name = "elems"  -> {r \in Ranks : KindR(r) = "e"}
    [] name = "attrs"  -> {r \in Ranks : KindR(r) = "a"}
    [] name = "nss"    -> {r \in Ranks : KindR(r) = "ns"}
    [] name = "texts"  -> {r \in Ranks : KindR(r) \in {"t", "l"}}
    [] name = "leaves" -> {r \in Ranks : KindR(r) \in {"c", "p", "sc", "sp"}}
    [] name = "kids"   -> {r \in Ranks : dpar[r] = RootElemR /\ KindR(r) \notin {"a", "ns"}}
    [] name = "odd"    -> {r \in Ranks : r % 2 = 1}
    [] name = "last"   -> {M}
    [] name = "top"    -> {1}

Init ==
  /\ InputInit(MaxItems, ItemKinds, TextOpts, TailOpts, AttrCounts, DeclOpts,
               Variants, RootArgs, Fragments, NsArgs, SibSeqs)
  /\ dseq = [j \in 1..Len(DefSeq) |-> <<DefSeq[j].k, DefSeq[j].src, DefSeq[j].sub>>]
  /\ dpar = LET S == DefSeq IN
            [j \in 1..Len(S) |-> IF DefParent(S[j]) = NoneD THEN 0 ELSE RankIn(S, DefParent(S[j]))]
  /\ opnds = [nm \in Operands |-> Opnd(nm)]     \* the operand sets, for the binding (variable values)
  /\ cur = {RootElemR}
  /\ res = "-"
  /\ cmp = <<>>
  /\ steps = 0

Live == res = "-" /\ steps < MaxSteps
Keep == UNCHANGED <<ivars, dseq, dpar, opnds>>

(* E union T,  E intersect T,  E except T,  T except E *)
SetOp(op, name) ==
  /\ Live
  /\ cur' = CASE op = "union"     -> cur \cup opnds[name]
              [] op = "intersect" -> cur \cap opnds[name]
              [] op = "except"    -> cur \ opnds[name]
              [] op = "rexcept"   -> opnds[name] \ cur
  /\ steps' = steps + 1
  /\ UNCHANGED <<res, cmp>> /\ Keep

InnermostOf(S) == {x \in S : \A y \in S : x \notin AncR(y)}    \* no member below it
OutermostOf(S) == {x \in S : AncR(x) \cap S = {}}              \* no member above it

Fn(f) ==
  /\ Live
  /\ cur' = CASE f = "innermost" -> InnermostOf(cur)
              [] f = "outermost" -> OutermostOf(cur)
              [] f = "root"      -> {TopR(x) : x \in cur}
  /\ steps' = steps + 1
  /\ UNCHANGED <<res, cmp>> /\ Keep

(* node comparisons between any two nodes of the tree (asked in the initial state only:
   the result depends on the tree alone) *)
Cmp(op, a, b) ==
  /\ Live /\ steps = 0
  /\ a \in Ranks /\ b \in Ranks
  /\ res' = IF (CASE op = "is" -> a = b
                  [] op = "<<" -> a < b
                  [] op = ">>" -> a > b) THEN "true" ELSE "false"
  /\ cmp' = <<op, a, b>>      \* the operands are state-dependent: recorded in the target state for the binding
  /\ cur' = {a, b}
  /\ steps' = steps + 1
  /\ Keep

(* every ordered pair for <<; is and >> for equal and neighbouring ranks and against the first / last node
   (the three operators share one implementation; this keeps the dumped graph small) *)
CmpAny == \E op \in {"is", "<<", ">>"}, a \in Ranks, b \in Ranks :
             /\ op # "<<" => (b \in {a, a + 1, 1, M} \/ b + 1 = a)
             /\ Cmp(op, a, b)

SetOps == {"union", "intersect", "except", "rexcept"}
Fns == {"innermost", "outermost", "root"}
CmpOps == {"is", "<<", ">>"}

Next == \/ \E op \in SetOps, name \in Operands : SetOp(op, name)
        \/ \E f \in Fns : Fn(f)
        \/ CmpAny

Spec == Init /\ [][Next]_vars

---------------------------------------------------------------------------
TypeOK == steps \in 0..MaxSteps /\ cur \subseteq Ranks /\ res \in {"-", "true", "false"}

(* XDM 2.4 document order stated RELATIONALLY on the tree (not by the preorder construction):
   an ancestor precedes its descendants; otherwise look at the two branches below the lowest
   common ancestor: namespace nodes < attributes < children, children in children order *)
BranchOf(c, x) == IF dpar[x] = c THEN x ELSE CHOOSE y \in AncR(x) : dpar[y] = c
ClassOf(r) == CASE KindR(r) = "ns" -> 1 [] KindR(r) = "a" -> 2 [] OTHER -> 3
ChildIndex(c, x) ==   \* position of x in dm:children(c), by the definitional children list
  LET ch == DefChildren(D(dseq[c][1], dseq[c][2], dseq[c][3])) IN
  CHOOSE u \in 1..Len(ch) : <<ch[u].k, ch[u].src, ch[u].sub>> = dseq[x]
BeforeRel(a, b) ==
  /\ a # b
  /\ \/ a \in AncR(b)
     \/ /\ b \notin AncR(a)
        /\ LET common == (AncR(a) \cap AncR(b))
               c == CHOOSE z \in common : \A w \in common : w <= z     \* lowest common ancestor
               x == BranchOf(c, a)
               y == BranchOf(c, b)
           IN \/ ClassOf(x) < ClassOf(y)
              \/ /\ ClassOf(x) = ClassOf(y)
                 /\ IF ClassOf(x) = 3 THEN ChildIndex(c, x) < ChildIndex(c, y)
                    ELSE dseq[x][3] < dseq[y][3]

OrderLaw == steps = 0 =>
  /\ \A a, b \in Ranks : BeforeRel(a, b) <=> a < b          \* << is the rank order: a strict total order
  /\ Cardinality({r \in Ranks : dpar[r] = 0}) = 1           \* one tree: every two nodes are comparable

SetLaws == res = "-" =>
  \A name \in Operands :
     LET T == opnds[name] IN
     /\ (cur \cup T) = (cur \ T) \cup (cur \cap T) \cup (T \ cur)
     /\ (cur \ T) \cap T = {}
     /\ (cur \cap T) \subseteq cur

FnLaws == res = "-" =>
  LET I == InnermostOf(cur)  O == OutermostOf(cur) IN
  /\ I \subseteq cur /\ O \subseteq cur
  /\ \A x \in cur : \E y \in I : y = x \/ x \in AncR(y)       \* every member has a descendant-or-self in innermost
  /\ \A x \in cur : \E y \in O : y = x \/ y \in AncR(x)       \* ... and an ancestor-or-self in outermost
  /\ \A x, y \in I : x \notin AncR(y)                          \* antichains
  /\ \A x, y \in O : x \notin AncR(y)
  /\ InnermostOf(I) = I /\ OutermostOf(O) = O
  /\ \A x \in cur : dpar[TopR(x)] = 0 /\ (TopR(x) = x \/ TopR(x) \in AncR(x))

Laws == OrderLaw /\ SetLaws /\ FnLaws
=============================================================================
