----------------------------- MODULE RegexNames -----------------------------
(***************************************************************************)
(* Named regex constructors (property C12).  TLC cfg files cannot contain  *)
(* records, so the configurations of RegexAst / RegexFns select atoms and  *)
(* operators BY NAME; this stateless module maps the names to the ASTs of  *)
(* Regex.tla.                                                              *)
(***************************************************************************)
EXTENDS Regex

Atom(n) ==
  CASE n = "NL" -> Chr(NL) [] n = "SP" -> Chr(SP) [] n = "HY" -> Chr(HY) [] n = "5" -> Chr(D5)
    [] n = "A" -> Chr(UA) [] n = "_" -> Chr(US) [] n = "a" -> Chr(LA) [] n = "b" -> Chr(LB)
    [] n = "AS" -> Chr(AS)
    [] n = "any" -> AnyC [] n = "bol" -> Bol [] n = "eol" -> Eol
    [] n \in {"d", "D", "s", "S", "w", "W", "i", "I", "c", "C"} -> Esc(n, "")
    [] n = "pIsX" -> Esc("p", "IsNoSuchBlock")
    [] n = "pL" -> Esc("p", "L")   [] n = "PL" -> Esc("P", "L")
    [] n = "pLu" -> Esc("p", "Lu") [] n = "PLu" -> Esc("P", "Lu")
    [] n = "pLl" -> Esc("p", "Ll") [] n = "PLl" -> Esc("P", "Ll")
    [] n = "pNd" -> Esc("p", "Nd") [] n = "PNd" -> Esc("P", "Nd")
    [] n = "pP" -> Esc("p", "P")   [] n = "PP" -> Esc("P", "P")
    [] n = "pPd" -> Esc("p", "Pd") [] n = "pPc" -> Esc("p", "Pc")
    [] n = "pZs" -> Esc("p", "Zs") [] n = "PZs" -> Esc("P", "Zs")
    [] n = "pCc" -> Esc("p", "Cc") [] n = "PC" -> Esc("P", "C")
    [] n = "pS" -> Esc("p", "S")   [] n = "PSo" -> Esc("P", "So")
    \* g groups followed by \digits (see Regex!RefD): r<g>_<digits>
    [] n = "r1_15" -> RefD(1, <<1, 5>>)       [] n = "r1_155" -> RefD(1, <<1, 5, 5>>)
    [] n = "r1_1555" -> RefD(1, <<1, 5, 5, 5>>) [] n = "r1_125" -> RefD(1, <<1, 2, 5>>)
    [] n = "r2_25" -> RefD(2, <<2, 5>>)       [] n = "r2_255" -> RefD(2, <<2, 5, 5>>)
    [] n = "r2_155" -> RefD(2, <<1, 5, 5>>)
    [] n = "r10_105" -> RefD(10, <<1, 0, 5>>) [] n = "r10_1055" -> RefD(10, <<1, 0, 5, 5>>)
    [] n = "r10_155" -> RefD(10, <<1, 5, 5>>) [] n = "r10_255" -> RefD(10, <<2, 5, 5>>)
    [] n = "r10_10" -> RefD(10, <<1, 0>>)
    [] n = "r12_125" -> RefD(12, <<1, 2, 5>>) [] n = "r12_1255" -> RefD(12, <<1, 2, 5, 5>>)
    [] n = "r12_155" -> RefD(12, <<1, 5, 5>>) [] n = "r12_1155" -> RefD(12, <<1, 1, 5, 5>>)
    \* a group that contains an optional (possibly non-participating) group:  ( a ( b )? ( a ) )
    [] n = "g_nest" -> Grp(Cat(Chr(LA), Cat(Opt(Grp(Chr(LB)), FALSE), Grp(Chr(LA)))))
    \* groups that can take part in a match with an EMPTY capture, alone and between ungrouped text
    [] n = "g_bs" -> Grp(Star(Chr(LB), FALSE))                    \* (b*)
    [] n = "g_bo" -> Grp(Opt(Chr(LB), FALSE))                     \* (b?)
    [] n = "g_e"  -> Grp(Eps)                                     \* ()
    [] n = "g_ae" -> Grp(Alt(Chr(LA), Eps))                       \* (a|)
    [] n = "g_mid" -> Cat(Chr(LA), Cat(Grp(Star(Chr(LB), FALSE)), Chr(LA)))      \* a(b*)a
    [] n = "g_mid2" -> Cat(Chr(LA), Cat(Grp(Eps), Chr(LB)))                      \* a()b
    [] n = "g_altp" -> Plus(Alt(Grp(Chr(LA)), Grp(Chr(LB))), FALSE)              \* (?:(a)|(b))+
    [] n = "g_in"  -> Grp(Cat(Grp(Chr(LA)), Opt(Grp(Chr(LB)), FALSE)))           \* ((a)(b)?)
    [] n = "c_ab"  -> Cls(<<IChr(LA), IChr(LB)>>, FALSE, <<>>)                              \* [ab]
    [] n = "c_na"  -> Cls(<<IChr(LA)>>, TRUE, <<>>)                                         \* [^a]
    [] n = "c_A"   -> Cls(<<IChr(UA)>>, FALSE, <<>>)                                        \* [A]
    [] n = "c_nA"  -> Cls(<<IChr(UA)>>, TRUE, <<>>)                                         \* [^A]
    [] n = "c_rg"  -> Cls(<<IRng(UA, LA)>>, FALSE, <<>>)                                    \* [A-a]
    [] n = "c_r5"  -> Cls(<<IRng(D5, US)>>, FALSE, <<>>)                                    \* [5-_]
    [] n = "c_nr5" -> Cls(<<IRng(D5, US)>>, TRUE, <<>>)                                     \* [^5-_]
    [] n = "c_sub" -> Cls(<<IRng(LA, LB)>>, FALSE, <<Cls(<<IChr(LA)>>, FALSE, <<>>)>>)      \* [a-b-[a]]
    [] n = "c_nsn" -> Cls(<<IChr(LA)>>, TRUE, <<Cls(<<IChr(LB)>>, TRUE, <<>>)>>)            \* [^a-[^b]]
    [] n = "c_dn"  -> Cls(<<IEsc("d", ""), IChr(NL)>>, FALSE, <<>>)                         \* [\d\n]
    [] n = "c_nS"  -> Cls(<<IEsc("S", "")>>, TRUE, <<>>)                                    \* [^\S]
    [] n = "c_wsb" -> Cls(<<IEsc("w", "")>>, FALSE, <<Cls(<<IChr(LB)>>, FALSE, <<>>)>>)     \* [\w-[b]]
    [] n = "c_sp"  -> Cls(<<IChr(SP), IChr(LA)>>, FALSE, <<>>)                              \* [ a]

UnaryNames == {"star", "plus", "opt", "starL", "plusL", "optL", "rep2", "rep12", "rep1U", "rep0U",
               "rep02", "rep00", "rep12L", "grp", "dup",
               "rep10", "rep2_10", "rep9_10", "rep3_12", "rep0_11", "rep10U", "rep2_10L"}
Wrap(op, x) ==
  CASE op = "star" -> Star(x, FALSE) [] op = "starL" -> Star(x, TRUE)
    [] op = "plus" -> Plus(x, FALSE) [] op = "plusL" -> Plus(x, TRUE)
    [] op = "opt"  -> Opt(x, FALSE)  [] op = "optL"  -> Opt(x, TRUE)
    [] op = "rep2"  -> Rep(x, 2, 2)  [] op = "rep12" -> Rep(x, 1, 2) [] op = "rep1U" -> Rep(x, 1, INF)
    [] op = "rep0U" -> Rep(x, 0, INF) [] op = "rep02" -> Rep(x, 0, 2) [] op = "rep00" -> Rep(x, 0, 0)
    [] op = "rep12L" -> [t |-> "rep", r |-> x, n |-> 1, m |-> 2, lazy |-> TRUE]
    [] op = "rep10" -> Rep(x, 10, 10) [] op = "rep2_10" -> Rep(x, 2, 10) [] op = "rep9_10" -> Rep(x, 9, 10)
    [] op = "rep3_12" -> Rep(x, 3, 12) [] op = "rep0_11" -> Rep(x, 0, 11) [] op = "rep10U" -> Rep(x, 10, INF)
    [] op = "rep2_10L" -> [t |-> "rep", r |-> x, n |-> 2, m |-> 10, lazy |-> TRUE]
    [] op = "grp"  -> Grp(x) [] op = "dup" -> Dup(x)
Bin(op, x, y) == IF op = "cat" THEN Cat(x, y) ELSE Alt(x, y)

=============================================================================
