---------------------------- MODULE RegexReplace ----------------------------
(***************************************************************************)
(* The replacement string of fn:replace (property C12; F&O 3.1, 5.6.4).    *)
(* State: the replacement string built so far, as a token string (one      *)
(* token appended per step), and what the standard says about it:          *)
(*   valid   every '$' is followed by a digit (else FORX0004); the escapes  *)
(*           \$ and \\ are the tokens "%$" and "%%" ('%' stands for the    *)
(*           backslash: cfg files do not unescape strings)                 *)
(*   exp     for every number n of capturing groups in Groups the          *)
(*           EXPANSION: a sequence of pieces, "gK" = the substring         *)
(*           captured by group K ("g0" = the whole match), any other piece *)
(*           = that literal character ("B" = a backslash)                  *)
(*   unsure  a reference with a leading zero followed by digits ($01):     *)
(*           not judged                                                    *)
(* Rule for $N (N = the maximal run of digits after the '$'): if N is      *)
(* greater than the number of groups and has more than one digit, the last *)
(* digit is a literal and the rule is applied again to the shorter number; *)
(* a single digit greater than the number of groups stands for the         *)
(* zero-length string.                                                     *)
(***************************************************************************)
EXTENDS Naturals, Sequences, TLC

CONSTANTS Tokens,     \* subset of {"$", "0", "1", "2", "%$", "%%", "x"}
          Groups,     \* numbers of capturing groups of the pattern, each <= 12
          MaxToks

VARIABLES rep, valid, unsure, exp
vars == <<rep, valid, unsure, exp>>

Digits == {"0", "1", "2"}
DVal(t) == CASE t = "0" -> 0 [] t = "1" -> 1 [] t = "2" -> 2
GName(k) == CASE k = 0 -> "g0" [] k = 1 -> "g1" [] k = 2 -> "g2" [] k = 3 -> "g3" [] k = 4 -> "g4"
              [] k = 5 -> "g5" [] k = 6 -> "g6" [] k = 7 -> "g7" [] k = 8 -> "g8" [] k = 9 -> "g9"
              [] k = 10 -> "g10" [] k = 11 -> "g11" [] k = 12 -> "g12"
Lit(t) == CASE t = "%$" -> "$" [] t = "%%" -> "B" [] OTHER -> t

Tok(w, p) == IF p >= 1 /\ p <= Len(w) THEN w[p] ELSE "<end>"

RECURSIVE RunLen(_, _), Val(_, _, _), Scan(_, _, _)
(* length of the run of digits starting at position p *)
RunLen(w, p) == IF Tok(w, p) \in Digits THEN 1 + RunLen(w, p + 1) ELSE 0
(* value of the k digits starting at position p *)
Val(w, p, k) == IF k = 0 THEN 0 ELSE 10 * Val(w, p, k - 1) + DVal(w[p + k - 1])

Valid(w) == \A p \in 1..Len(w) : w[p] = "$" => Tok(w, p + 1) \in Digits

(* expansion for a pattern with n capturing groups *)
Scan(w, p, n) ==
  IF p > Len(w) THEN <<>>
  ELSE IF w[p] # "$" THEN <<Lit(w[p])>> \o Scan(w, p + 1, n)
  ELSE LET len == RunLen(w, p + 1)
           ok  == {k \in 1..len : Val(w, p + 1, k) <= n}      \* prefixes that are valid group numbers
       IN IF ok = {} THEN Scan(w, p + 2, n)                   \* single digit > n: the zero-length string
          ELSE LET k == CHOOSE x \in ok : \A y \in ok : y <= x
               IN <<GName(Val(w, p + 1, k))>> \o Scan(w, p + 1 + k, n)

Set(w) == /\ rep' = w
          /\ valid' = Valid(w)
          /\ unsure' = \E p \in 1..Len(w) : w[p] = "$" /\ Tok(w, p + 1) = "0" /\ Tok(w, p + 2) \in Digits
          /\ exp' = IF Valid(w) THEN [n \in Groups |-> Scan(w, 1, n)] ELSE [n \in Groups |-> <<>>]

Init == rep = <<>> /\ valid = TRUE /\ unsure = FALSE /\ exp = [n \in Groups |-> <<>>]
Push(t) == Len(rep) < MaxToks /\ Set(Append(rep, t))
Next == \E t \in Tokens : Push(t)
Spec == Init /\ [][Next]_vars

(* ---- laws ---------------------------------------------------------------- *)
IsGroup(x) == x \in {GName(k) : k \in 0..12}
(* replace(s, p, '$0') = s: the whole match *)
IdentityLaw == rep = <<"$", "0">> => \A n \in Groups : exp[n] = <<"g0">>
(* without '$' the replacement is taken literally *)
LiteralLaw  == (\A p \in 1..Len(rep) : rep[p] # "$") => \A n \in Groups : exp[n] = [p \in 1..Len(rep) |-> Lit(rep[p])]
(* a reference never names a group that does not exist; one group piece per '$' at most *)
RangeLaw    == valid => \A n \in Groups : \A p \in 1..Len(exp[n]) :
                          IsGroup(exp[n][p]) => \E k \in 0..n : exp[n][p] = GName(k)
(* digits are never lost: every digit of the replacement is either part of a group number or a literal,
   except the single digit of a reference to a missing group *)
CountLaw    == valid => \A n \in Groups :
                 Len(SelectSeq(exp[n], IsGroup)) <= Len(SelectSeq(rep, LAMBDA t : t = "$"))
(* more groups never turn a group piece back into nothing: with >= 12 groups every $N (N <= 12) is a group *)
FullLaw     == (valid /\ ~unsure /\ 12 \in Groups /\ Len(rep) <= 3) =>
                 Len(SelectSeq(exp[12], IsGroup)) = Len(SelectSeq(rep, LAMBDA t : t = "$"))
Laws == IdentityLaw /\ LiteralLaw /\ RangeLaw /\ CountLaw /\ FullLaw
=============================================================================
