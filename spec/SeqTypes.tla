------------------------------ MODULE SeqTypes ------------------------------
(***************************************************************************)
(* Sequence types, SequenceType matching and the subtype judgement of      *)
(* XPath 3.1 (property C18).                                               *)
(*                                                                         *)
(*   Matches  = XPath 3.1 section 2.5.5  (SequenceType Matching)           *)
(*   Subtype  = XPath 3.1 section 2.5.6.1 (the judgement subtype(A,B))     *)
(*   SubItem  = XPath 3.1 section 2.5.6.2 (subtype-itemtype(Ai,Bi)), rule   *)
(*              numbers quoted in the comments                              *)
(*   Parent   = XML Schema part 2 section 3 (built-in datatype hierarchy)   *)
(*              + XDM 3.1 section 2.7.2 (xs:anyAtomicType, xs:untypedAtomic,*)
(*              xs:yearMonthDuration, xs:dayTimeDuration), xs:numeric =     *)
(*              union(xs:decimal, xs:float, xs:double) (XPath 3.1 2.5.1)    *)
(*                                                                         *)
(* VALUE-STATE MACHINE (convention of Numeric.tla): the state is an        *)
(* accumulator holding an XDM value; the actions are the two judgement     *)
(* expressions of the property                                             *)
(*     InstanceOf(T):  acc' = the xs:boolean  Matches(acc, T)               *)
(*     TreatAs(T):     acc' = acc  if Matches(acc, T), else XPDY0050        *)
(* so behaviours are chains such as (($v treat as S) instance of T).        *)
(* Universe members are addressed by their index in TypeSeq / ValueSeq      *)
(* (printed once by TLC), so the dumped graph stays small.                  *)
(* The check generates two modules that EXTEND this one (engine/props/      *)
(* c18.py): Impl_C18 (the implementation's relations and signature table    *)
(* as literal constants: laws on the exported data, ArgsFor / call plan)    *)
(* and Obs_C18 (projected call results judged by MatchSeq).                 *)
(*                                                                         *)
(* A sequence type is  [it |-> ItemType, occ |-> "1" | "?" | "*" | "+"]  or *)
(* Empty = empty-sequence().  Item types and items are tagged records, see  *)
(* the constructors below.  Values are tuples of items.                     *)
(*                                                                         *)
(* Not modelled / excluded (listed in the evidence):                        *)
(*  - schema-element(), schema-attribute() and user-defined schema types    *)
(*    (no schema is in scope: elements are xs:untyped, attributes           *)
(*    xs:untypedAtomic), XSD 1.1-only types xs:error / xs:dateTimeStamp;    *)
(*  - maps and arrays judged against TYPED function tests where the two     *)
(*    readings of the Recommendation differ (XDM 3.1 17.1/17.2 give every   *)
(*    map the signature function(xs:anyAtomicType) as item()*, XPath 3.1    *)
(*    2.5.6.2 rules 31 and 36 make map(K,V) a subtype of                    *)
(*    function(xs:anyAtomicType) as V?): operator Ambiguous.  The soundness *)
(*    law is stated for the reading that makes rules 31/36 sound.           *)
(***************************************************************************)
EXTENDS Integers, Sequences, FiniteSets, TLC

CONSTANTS Universe,      \* "quick" | "thorough": size of the type/value universe
          MaxDepth       \* chain length (state constraint)

VARIABLE acc
vars == <<acc>>

---------------------------------------------------------------------------
(* The atomic type hierarchy as a PARENT TABLE (XSD part 2, section 3; XDM 2.7.2). *)
Parent ==
     "anyAtomicType" :> "anySimpleType"
  @@ "untypedAtomic" :> "anyAtomicType"
  @@ "string" :> "anyAtomicType" @@ "normalizedString" :> "string" @@ "token" :> "normalizedString"
  @@ "language" :> "token" @@ "NMTOKEN" :> "token" @@ "Name" :> "token" @@ "NCName" :> "Name"
  @@ "ID" :> "NCName" @@ "IDREF" :> "NCName" @@ "ENTITY" :> "NCName"
  @@ "decimal" :> "anyAtomicType" @@ "integer" :> "decimal"
  @@ "nonPositiveInteger" :> "integer" @@ "negativeInteger" :> "nonPositiveInteger"
  @@ "long" :> "integer" @@ "int" :> "long" @@ "short" :> "int" @@ "byte" :> "short"
  @@ "nonNegativeInteger" :> "integer" @@ "positiveInteger" :> "nonNegativeInteger"
  @@ "unsignedLong" :> "nonNegativeInteger" @@ "unsignedInt" :> "unsignedLong"
  @@ "unsignedShort" :> "unsignedInt" @@ "unsignedByte" :> "unsignedShort"
  @@ "float" :> "anyAtomicType" @@ "double" :> "anyAtomicType" @@ "boolean" :> "anyAtomicType"
  @@ "duration" :> "anyAtomicType" @@ "yearMonthDuration" :> "duration" @@ "dayTimeDuration" :> "duration"
  @@ "dateTime" :> "anyAtomicType" @@ "date" :> "anyAtomicType" @@ "time" :> "anyAtomicType"
  @@ "gYearMonth" :> "anyAtomicType" @@ "gYear" :> "anyAtomicType" @@ "gMonthDay" :> "anyAtomicType"
  @@ "gDay" :> "anyAtomicType" @@ "gMonth" :> "anyAtomicType"
  @@ "hexBinary" :> "anyAtomicType" @@ "base64Binary" :> "anyAtomicType" @@ "anyURI" :> "anyAtomicType"
  @@ "QName" :> "anyAtomicType" @@ "NOTATION" :> "anyAtomicType"
  (* complex / simple ur-types, used only as type annotations in element()/attribute() tests *)
  @@ "anySimpleType" :> "anyType" @@ "untyped" :> "anyType" @@ "anyType" :> ""

NumericMembers == {"decimal", "float", "double"}      \* xs:numeric, a pure union type

RECURSIVE Derives(_, _)
(* derives-from(AT, ET) by restriction, XPath 3.1 2.5.5.2 *)
Derives(a, b) == IF a = b THEN TRUE
                 ELSE IF Parent[a] = "" THEN FALSE ELSE Derives(Parent[a], b)

(* generalized atomic types: atomic names plus the union xs:numeric.
   2.5.6.2 rule 1 (derives-from), rule 2 (pure union on the left: every member),
   2.5.5.2 (union on the right: some member) *)
AtomSub(a, b) ==
  IF a = "numeric" THEN (b = "numeric" \/ \A m \in NumericMembers : Derives(m, b))
  ELSE IF b = "numeric" THEN \E m \in NumericMembers : Derives(a, m)
  ELSE Derives(a, b)

---------------------------------------------------------------------------
(* item types *)
AT(n)      == [k |-> "atomic", n |-> n]
ItemT      == [k |-> "item"]
NodeT      == [k |-> "node"]
TextT      == [k |-> "text"]
CommentT   == [k |-> "comment"]
NamespaceT == [k |-> "namespace"]
PIT(n)     == [k |-> "pi", name |-> n]                     \* "*" = no name argument
(* n is the PITarget the test asks for, i.e. fn:normalize-space(N) of the argument N (2.5.5.3): the
   binding renders N as NCName and as string literals with leading / trailing blanks, tab, CR, LF *)
NoElem     == [k |-> "none"]
(* element(name, ty) / element(name, ty?): name "*" = wildcard, ty "*" = no type argument *)
ElemT(n, ty, nil) == [k |-> "element", name |-> n, ty |-> ty, nil |-> nil]
AttrT(n, ty)      == [k |-> "attribute", name |-> n, ty |-> ty]
DocT(e)    == [k |-> "document", elem |-> e]               \* e = NoElem or an element test
FnAny      == [k |-> "function", any |-> TRUE]
FnT(ps, r) == [k |-> "function", any |-> FALSE, ps |-> ps, r |-> r]
MapAny     == [k |-> "map", any |-> TRUE]
MapT(key, val) == [k |-> "map", any |-> FALSE, key |-> key, val |-> val]   \* key: generalized atomic name
ArrAny     == [k |-> "array", any |-> TRUE]
ArrT(mem)  == [k |-> "array", any |-> FALSE, mem |-> mem]

(* sequence types *)
ST(it, occ) == [it |-> it, occ |-> occ]
Empty == [it |-> [k |-> "empty"], occ |-> "0"]
One(it)  == ST(it, "1")
Opt(it)  == ST(it, "?")
Star(it) == ST(it, "*")
Plus(it) == ST(it, "+")
A1(n) == One(AT(n))

NodeKinds == {"text", "comment", "namespace", "pi", "document", "element", "attribute"}

---------------------------------------------------------------------------
(* 2.5.6.1  subtype(A, B)  and  2.5.6.2  subtype-itemtype(Ai, Bi) *)
OccSub(a, b) == \/ a = "1"
                \/ a = "?" /\ b \in {"?", "*"}
                \/ a = "+" /\ b \in {"+", "*"}
                \/ a = "*" /\ b = "*"
(* the lookup function of a map returns () for an absent key *)
Optional(V) == IF V.occ = "1" THEN ST(V.it, "?") ELSE IF V.occ = "+" THEN ST(V.it, "*") ELSE V
AnyAtomicArg == <<A1("anyAtomicType")>>
IntegerArg   == <<A1("integer")>>
MapAsFn(A) == IF A.any THEN FnT(AnyAtomicArg, Star(ItemT)) ELSE FnT(AnyAtomicArg, Optional(A.val))   \* rules 30, 31
ArrAsFn(A) == IF A.any THEN FnT(IntegerArg, Star(ItemT)) ELSE FnT(IntegerArg, A.mem)                  \* rules 35, 36

(* type annotations in element / attribute tests *)
TypeArgOK(aty, anil, bty, bnil) ==
  \/ bty = "*"                                          \* no type argument: any annotation, nilled or not
  \/ (aty # "*" /\ Derives(aty, bty) /\ (anil => bnil))

RECURSIVE SubItem(_, _), Subtype(_, _), FnSub(_, _)
FnSub(A, B) ==                                         \* rules 25, 26
  \/ B.any
  \/ /\ ~A.any
     /\ Len(A.ps) = Len(B.ps)
     /\ Subtype(A.r, B.r)                                \* return type covariant
     /\ \A i \in 1..Len(A.ps) : Subtype(B.ps[i], A.ps[i])   \* parameters contravariant
SubItem(A, B) ==
  IF B.k = "item" THEN TRUE                                                       \* rule 4
  ELSE IF A.k = "item" THEN FALSE
  ELSE IF A.k = "atomic" THEN B.k = "atomic" /\ AtomSub(A.n, B.n)                 \* rules 1, 2
  ELSE IF B.k = "atomic" THEN FALSE
  ELSE IF B.k = "node" THEN A.k \in NodeKinds \cup {"node"}                       \* rule 5
  ELSE IF A.k = "node" THEN FALSE
  ELSE IF A.k \in {"text", "comment", "namespace"} THEN B.k = A.k                 \* rules 6-8
  ELSE IF A.k = "pi" THEN B.k = "pi" /\ (B.name = "*" \/ B.name = A.name)         \* rules 9, 10
  ELSE IF A.k = "document"                                                        \* rules 11, 12
       THEN B.k = "document" /\ (B.elem = NoElem \/ (A.elem # NoElem /\ SubItem(A.elem, B.elem)))
  ELSE IF A.k = "element"                                                         \* rules 13-18
       THEN B.k = "element" /\ (B.name = "*" \/ B.name = A.name)
            /\ TypeArgOK(A.ty, A.nil, B.ty, B.nil)
  ELSE IF A.k = "attribute"                                                       \* rules 20-23
       THEN B.k = "attribute" /\ (B.name = "*" \/ B.name = A.name)
            /\ TypeArgOK(A.ty, FALSE, B.ty, FALSE)
  ELSE IF A.k = "function" THEN B.k = "function" /\ FnSub(A, B)
  ELSE IF A.k = "map"                                                             \* rules 27-31
       THEN \/ B.k = "map" /\ (B.any \/ (~A.any /\ AtomSub(A.key, B.key) /\ Subtype(A.val, B.val)))
            \/ B.k = "function" /\ FnSub(MapAsFn(A), B)
  ELSE IF A.k = "array"                                                           \* rules 32-36
       THEN \/ B.k = "array" /\ (B.any \/ (~A.any /\ Subtype(A.mem, B.mem)))
            \/ B.k = "function" /\ FnSub(ArrAsFn(A), B)
  ELSE FALSE
Subtype(A, B) ==
  IF A.occ = "0" THEN B.occ \in {"0", "?", "*"}
  ELSE IF B.occ = "0" THEN FALSE
  ELSE OccSub(A.occ, B.occ) /\ SubItem(A.it, B.it)

---------------------------------------------------------------------------
(* items (dynamic types):
     [k |-> "atom", t |-> name]                     atomic value with type annotation t
     [k |-> "node", nk |-> kind, name |-> n]        n = node name; for a document the name of its single
                                                    element child ("" = none or several); "" for unnamed kinds
     [k |-> "fn", ps |-> <<SeqType>>, r |-> SeqType]   function item with its signature
     [k |-> "map", es |-> << <<key item, value>> >>]
     [k |-> "array", ms |-> << member values >>]                                    *)
Atom(t)      == [k |-> "atom", t |-> t]
Node(nk, n)  == [k |-> "node", nk |-> nk, name |-> n]
Fn(ps, r)    == [k |-> "fn", ps |-> ps, r |-> r]
MapV(es)     == [k |-> "map", es |-> es]
ArrV(ms)     == [k |-> "array", ms |-> ms]
(* no schema in scope: XDM 3.1 6.2.2 / 6.3.2 *)
Annotation(x) == IF x.nk = "element" THEN "untyped" ELSE "untypedAtomic"

CardOK(n, occ) == \/ occ = "1" /\ n = 1
                  \/ occ = "?" /\ n <= 1
                  \/ occ = "+" /\ n >= 1
                  \/ occ = "*"

RECURSIVE MatchItem(_, _), MatchSeq(_, _)
(* a map / an array judged against a typed function test (see module header) *)
MapMatchesFn(x, T) ==
  /\ Len(T.ps) = 1 /\ Subtype(T.ps[1], A1("anyAtomicType"))
  /\ MatchSeq(<<>>, T.r)
  /\ \A e \in 1..Len(x.es) : MatchSeq(x.es[e][2], T.r)
ArrMatchesFn(x, T) ==
  /\ Len(T.ps) = 1 /\ Subtype(T.ps[1], A1("integer"))
  /\ \A m \in 1..Len(x.ms) : MatchSeq(x.ms[m], T.r)
MatchItem(x, T) ==
  IF T.k = "item" THEN TRUE                                                    \* 2.5.5.1
  ELSE IF T.k = "atomic" THEN x.k = "atom" /\ AtomSub(x.t, T.n)                  \* 2.5.5.2
  ELSE IF T.k = "node" THEN x.k = "node"                                         \* 2.5.5.3
  ELSE IF T.k \in {"text", "comment", "namespace"} THEN x.k = "node" /\ x.nk = T.k
  ELSE IF T.k = "pi" THEN x.k = "node" /\ x.nk = "pi" /\ (T.name = "*" \/ x.name = T.name)
  ELSE IF T.k = "document"
       THEN x.k = "node" /\ x.nk = "document"
            /\ (T.elem = NoElem \/ (x.name # "" /\ MatchItem(Node("element", x.name), T.elem)))
  ELSE IF T.k = "element"                                                        \* 2.5.5.3 element test
       THEN x.k = "node" /\ x.nk = "element" /\ (T.name = "*" \/ x.name = T.name)
            /\ TypeArgOK(Annotation(x), FALSE, T.ty, T.nil)
  ELSE IF T.k = "attribute"
       THEN x.k = "node" /\ x.nk = "attribute" /\ (T.name = "*" \/ x.name = T.name)
            /\ TypeArgOK(Annotation(x), FALSE, T.ty, FALSE)
  ELSE IF T.k = "function"                                                       \* 2.5.5.7
       THEN IF x.k = "fn" THEN FnSub(FnT(x.ps, x.r), T)
            ELSE IF x.k = "map" THEN (T.any \/ MapMatchesFn(x, T))
            ELSE IF x.k = "array" THEN (T.any \/ ArrMatchesFn(x, T))
            ELSE FALSE
  ELSE IF T.k = "map"                                                            \* 2.5.5.8
       THEN x.k = "map" /\ (T.any \/ \A e \in 1..Len(x.es) :
                                       MatchItem(x.es[e][1], AT(T.key)) /\ MatchSeq(x.es[e][2], T.val))
  ELSE IF T.k = "array"                                                          \* 2.5.5.9
       THEN x.k = "array" /\ (T.any \/ \A m \in 1..Len(x.ms) : MatchSeq(x.ms[m], T.mem))
  ELSE FALSE
MatchSeq(v, T) ==                                                                 \* 2.5.5: occurrence by cardinality
  IF T.occ = "0" THEN Len(v) = 0
  ELSE CardOK(Len(v), T.occ) /\ \A i \in 1..Len(v) : MatchItem(v[i], T.it)

(* the signature reading of XDM 3.1 17.1 / 17.2 *)
StrictItem(x, T) ==
  IF T.k = "function" /\ ~T.any /\ x.k = "map" THEN FnSub(MapAsFn(MapAny), T)
  ELSE IF T.k = "function" /\ ~T.any /\ x.k = "array" THEN FnSub(ArrAsFn(ArrAny), T)
  ELSE MatchItem(x, T)
Ambiguous(v, T) == T.occ # "0" /\ \E i \in 1..Len(v) : StrictItem(v[i], T.it) # MatchItem(v[i], T.it)

---------------------------------------------------------------------------
(* the universe *)
SeqMap(Op(_), s) == [i \in 1..Len(s) |-> Op(s[i])]
RECURSIVE Concat(_)
Concat(ss) == IF Len(ss) = 0 THEN <<>> ELSE Head(ss) \o Concat(Tail(ss))

(* the quick core contains signed and unsigned bounded integer types whose value ranges are nested
   although the types are NOT derived from each other (unsignedByte 0..255 inside short, ...) *)
AtomicCore == <<"anyAtomicType", "untypedAtomic", "string", "token", "decimal", "integer", "int", "short",
                "nonNegativeInteger", "unsignedShort", "unsignedByte", "float", "double", "boolean",
                "duration", "dayTimeDuration", "anyURI", "QName", "numeric">>
AtomicRest == <<"normalizedString", "NCName", "long", "positiveInteger", "dateTime", "date",
                "language", "NMTOKEN", "Name", "ID", "IDREF", "ENTITY", "nonPositiveInteger", "negativeInteger",
                "byte", "unsignedLong", "unsignedInt", "yearMonthDuration", "time",
                "gYearMonth", "gYear", "gMonthDay", "gDay", "gMonth", "hexBinary", "base64Binary", "NOTATION">>
AtomicNames == IF Universe = "quick" THEN AtomicCore ELSE AtomicCore \o AtomicRest

KindTests == <<
  ItemT, NodeT, TextT, CommentT, NamespaceT, PIT("*"), PIT("pt"), PIT("other"),
  DocT(NoElem), DocT(ElemT("*", "*", FALSE)), DocT(ElemT("a", "*", FALSE)), DocT(ElemT("b", "*", FALSE)),
  ElemT("*", "*", FALSE), ElemT("a", "*", FALSE), ElemT("b", "*", FALSE),
  ElemT("fn:analyze-string-result", "*", FALSE),
  ElemT("*", "untyped", FALSE), ElemT("a", "untyped", FALSE), ElemT("*", "anyType", FALSE),
  ElemT("a", "anyType", TRUE), ElemT("*", "string", FALSE),
  AttrT("*", "*"), AttrT("x", "*"), AttrT("y", "*"),
  AttrT("*", "untypedAtomic"), AttrT("x", "untypedAtomic"), AttrT("*", "anyAtomicType"), AttrT("*", "string")>>

FnTests == <<
  FnAny,
  FnT(<<>>, Star(ItemT)), FnT(<<>>, A1("string")),
  FnT(<<A1("integer")>>, A1("integer")), FnT(<<A1("int")>>, A1("decimal")), FnT(<<A1("decimal")>>, A1("integer")),
  FnT(<<A1("integer")>>, Star(ItemT)), FnT(<<A1("integer")>>, Opt(AT("integer"))),
  FnT(<<One(ItemT)>>, One(ItemT)), FnT(<<One(ItemT)>>, Star(ItemT)), FnT(<<Star(ItemT)>>, Star(ItemT)),
  FnT(<<One(ItemT)>>, A1("boolean")), FnT(<<One(ItemT)>>, Star(AT("anyAtomicType"))),
  FnT(<<A1("anyAtomicType")>>, Star(ItemT)), FnT(<<A1("anyAtomicType")>>, Opt(AT("integer"))),
  FnT(<<A1("anyAtomicType")>>, A1("integer")), FnT(<<A1("string")>>, Star(ItemT)),
  FnT(<<A1("string")>>, Opt(AT("decimal"))),
  FnT(<<Opt(AT("numeric"))>>, Opt(AT("numeric"))), FnT(<<A1("integer")>>, Opt(AT("numeric"))),
  FnT(<<A1("string"), Star(ItemT)>>, A1("boolean")), FnT(<<Star(ItemT), Star(ItemT)>>, Star(ItemT)),
  FnT(<<Star(ItemT), One(ItemT)>>, Star(ItemT)), FnT(<<One(ItemT), One(ItemT)>>, Star(ItemT)),
  FnT(<<A1("token"), A1("integer")>>, A1("anyAtomicType")),
  FnT(<<One(FnAny)>>, One(FnT(<<A1("integer")>>, A1("integer"))))>>

MapTests == <<
  MapAny, MapT("string", A1("integer")), MapT("anyAtomicType", Star(ItemT)), MapT("string", One(ItemT)),
  MapT("integer", Plus(AT("string"))), MapT("decimal", Plus(AT("anyAtomicType"))),
  MapT("int", A1("string")), MapT("string", Opt(AT("integer"))),
  MapT("string", Opt(ArrT(Star(AT("integer")))))>>

ArrTests == <<
  ArrAny, ArrT(A1("integer")), ArrT(Star(ItemT)), ArrT(Star(AT("integer"))), ArrT(A1("anyAtomicType")),
  ArrT(A1("string")), ArrT(Plus(AT("decimal"))), ArrT(One(MapAny))>>

ItemTypeSeq == SeqMap(AT, AtomicNames) \o KindTests \o FnTests \o MapTests \o ArrTests
OccSeq == <<"1", "?", "*", "+">>
TypeSeq == <<Empty>> \o [n \in 1..(4 * Len(ItemTypeSeq)) |->
                           ST(ItemTypeSeq[((n - 1) \div 4) + 1], OccSeq[((n - 1) % 4) + 1])]
NT == Len(TypeSeq)

(* one representative atomic value per instantiable type *)
AtomValueTypes == SelectSeq(AtomicNames, LAMBDA n : n \notin {"anyAtomicType", "numeric", "NOTATION"})
NodeItems == <<Node("document", "a"), Node("element", "a"), Node("element", "b"), Node("attribute", "x"),
               Node("text", ""), Node("comment", ""), Node("pi", "pt"), Node("namespace", "p")>>
FnItems == <<
  Fn(<<A1("integer")>>, A1("integer")),                      \* function($x as xs:integer) as xs:integer {$x}
  Fn(<<Star(ItemT)>>, Star(ItemT)),                          \* function($x) {$x}
  Fn(<<>>, A1("string")),                                    \* function() as xs:string {'a'}
  Fn(<<A1("string"), Star(ItemT)>>, A1("boolean")),          \* function($x as xs:string, $y as item()*) as xs:boolean {true()}
  Fn(<<Opt(AT("numeric"))>>, Opt(AT("numeric")))>>           \* fn:abs#1
I(n) == <<Atom(n)>>
MapItems == <<
  MapV(<< <<Atom("string"), I("integer")>> >>),                                      \* map{'a': 1}
  MapV(<<>>),                                                                        \* map{}
  MapV(<< <<Atom("integer"), I("string")>>, <<Atom("integer"), <<Atom("string"), Atom("string")>> >> >>),  \* map{1:'a', 2:('b','c')}
  MapV(<< <<Atom("string"), <<ArrV(<<I("integer"), I("integer")>>)>> >> >>)>>         \* map{'a': [1, 2]}
ArrItems == <<
  ArrV(<<I("integer"), I("integer")>>),                                              \* [1, 2]
  ArrV(<<>>),                                                                        \* []
  ArrV(<< <<Atom("integer"), Atom("integer")>>, <<>> >>),                             \* [(1, 2), ()]
  ArrV(<<I("string"), I("decimal")>>),                                               \* ['a', 1.5]
  ArrV(<< <<MapV(<<>>)>> >>)>>                                                       \* [map{}]
Singles == SeqMap(Atom, AtomValueTypes) \o NodeItems \o FnItems \o MapItems \o ArrItems
Pairs == <<
  <<Atom("integer"), Atom("integer")>>, <<Atom("integer"), Atom("string")>>, <<Atom("integer"), Atom("int")>>,
  <<Atom("double"), Atom("decimal")>>, <<Atom("string"), Atom("string")>>,
  <<Node("element", "a"), Node("element", "b")>>, <<Node("element", "a"), Node("attribute", "x")>>,
  <<Atom("integer"), Node("element", "a")>>, <<Node("text", ""), Node("comment", "")>>,
  <<FnItems[1], MapItems[1]>>, <<MapItems[1], ArrItems[1]>>, <<FnItems[1], FnItems[5]>> >>
ValueSeq == << <<>> >> \o [i \in 1..Len(Singles) |-> <<Singles[i]>>] \o Pairs
NV == Len(ValueSeq)
BoolIdx == CHOOSE i \in 1..NV : ValueSeq[i] = I("boolean")

(* the two relations as tables (evaluated once) *)
SupRow   == [i \in 1..NT |-> {j \in 1..NT : Subtype(TypeSeq[i], TypeSeq[j])}]     \* supertypes of type i
MatchRow == [v \in 1..NV |-> {j \in 1..NT : MatchSeq(ValueSeq[v], TypeSeq[j])}]  \* types matched by value v
AmbRow   == [v \in 1..NV |-> {j \in 1..NT : Ambiguous(ValueSeq[v], TypeSeq[j])}]

---------------------------------------------------------------------------
(* the machine *)
Val(i)  == [kind |-> "val", i |-> i]
Bool(b) == [kind |-> "bool", b |-> b]
Err(c)  == [kind |-> "err", code |-> c]
ValIdx(a) == IF a.kind = "bool" THEN BoolIdx ELSE a.i

Init == \E i \in 1..NV : acc = Val(i)
InstanceOf(j) == /\ acc.kind # "err" /\ j \notin AmbRow[ValIdx(acc)]
                 /\ acc' = Bool(j \in MatchRow[ValIdx(acc)])
TreatAs(j)    == /\ acc.kind # "err" /\ j \notin AmbRow[ValIdx(acc)]
                 /\ acc' = IF j \in MatchRow[ValIdx(acc)] THEN acc ELSE Err("XPDY0050")   \* 3.18.5 Treat
Next == \/ \E j \in 1..NT : InstanceOf(j)
        \/ \E j \in 1..NT : TreatAs(j)
Spec == Init /\ [][Next]_vars
Bounded == TLCGet("level") <= MaxDepth

---------------------------------------------------------------------------
(* laws quoted by the property, decided by TLC on the specification itself *)
TypeOK == \/ acc.kind = "val" /\ acc.i \in 1..NV
          \/ acc.kind = "bool" /\ acc.b \in BOOLEAN
          \/ acc = Err("XPDY0050")

LawReflexive  == \A i \in 1..NT : i \in SupRow[i]
LawTransitive == \A i \in 1..NT : \A j \in SupRow[i] : SupRow[j] \subseteq SupRow[i]
(* every type is a subtype of item()*, nothing but empty-sequence() below empty-sequence() *)
TopIdx == CHOOSE j \in 1..NT : TypeSeq[j] = Star(ItemT)
LawTop == /\ \A i \in 1..NT : TopIdx \in SupRow[i]
          /\ \A i \in 1..NT : (1 \in SupRow[i]) <=> (i = 1)
(* the atomic hierarchy is a tree rooted in xs:anyAtomicType and derivation is antisymmetric *)
LawAtomic == \A a \in DOMAIN Parent : \A b \in DOMAIN Parent :
                /\ (Derives(a, b) /\ Derives(b, a)) => a = b
                /\ (a \notin {"anyType", "anySimpleType", "untyped"}) => Derives(a, "anyAtomicType")
ASSUME LawReflexive
ASSUME LawTransitive
ASSUME LawTop
ASSUME LawAtomic

(* per accumulator value (so TLC's workers share the work) *)
LawSound ==          \* Matches(v, S) /\ Subtype(S, T) => Matches(v, T)
  acc.kind # "err" => \A s \in MatchRow[ValIdx(acc)] : SupRow[s] \subseteq MatchRow[ValIdx(acc)]
LawCardinality ==    \* occurrence by cardinality, item by item
  acc.kind = "val" =>
    LET v == ValueSeq[acc.i] IN
    /\ (1 \in MatchRow[acc.i]) <=> (Len(v) = 0)
    /\ \A n \in 1..Len(ItemTypeSeq) : \A o \in 1..4 :
         ((1 + 4 * (n - 1) + o) \in MatchRow[acc.i])
           <=> (CardOK(Len(v), OccSeq[o]) /\ \A p \in 1..Len(v) : MatchItem(v[p], ItemTypeSeq[n]))
LawEveryItem ==      \* every value is an instance of item()*; only () of empty-sequence()
  acc.kind # "err" => TopIdx \in MatchRow[ValIdx(acc)]
Laws == TypeOK /\ LawSound /\ LawCardinality /\ LawEveryItem
(* treat as = identity or XPDY0050 (action property; an InstanceOf step yields a boolean) *)
TreatLaw == [][acc'.kind = "bool" \/ acc' = acc \/ acc' = Err("XPDY0050")]_vars

---------------------------------------------------------------------------
(* STATIC NAMESPACE CONTEXT as a dimension (XPath 3.1 2.1.1 "default element/type namespace",   *)
(* 2.5.5.3 ElementTest / 2.5.5.5 AttributeTest, 3.3.2.1 "an unprefixed QName, when used as a     *)
(* name test on an axis whose principal node kind is element, has the default element namespace; *)
(* otherwise it has no namespace").  A kind test names its node by a LEXICAL QName that is        *)
(* expanded with the statically known namespaces: a prefixed name by its prefix binding, an       *)
(* unprefixed ELEMENT name by the default element namespace, an unprefixed ATTRIBUTE name is in   *)
(* no namespace whatever the default is.  Each initial state of NsInit is one judgement           *)
(*   $item (instance of | treat as) (element|attribute)(N [, T])   under static context d.        *)
NsPrefixUri == "urn:x"                          \* the prefix p is bound to this URI in every static context
DefaultNs == <<"", "urn:x", "urn:y">>           \* default element namespace ("" = none declared)
QN(ns, l) == [ns |-> ns, local |-> l]
NsItems == << [nk |-> "element", name |-> QN("", "e")], [nk |-> "element", name |-> QN("urn:x", "e")],
              [nk |-> "attribute", name |-> QN("", "a")], [nk |-> "attribute", name |-> QN("urn:x", "b")] >>
Lex(p, l) == [p |-> p, l |-> l]                 \* lexical QName: p:l or l ; l = "*" is the wildcard
NsNames == << Lex(FALSE, "*"), Lex(FALSE, "e"), Lex(TRUE, "e"), Lex(FALSE, "a"), Lex(TRUE, "a"),
              Lex(FALSE, "b"), Lex(TRUE, "b") >>
NsKinds == <<"element", "attribute">>
NsTys == [element |-> <<"*", "untyped", "anyType", "string">>,
          attribute |-> <<"*", "untypedAtomic", "anyAtomicType", "string">>]
NsOps == <<"instance", "treat">>
Expand(kind, n, d) == IF n.p THEN QN(NsPrefixUri, n.l)
                      ELSE IF kind = "element" THEN QN(d, n.l) ELSE QN("", n.l)
NsMatch(x, kind, n, ty, d) == /\ x.nk = kind
                              /\ (n.l = "*" \/ x.name = Expand(kind, n, d))
                              /\ TypeArgOK(Annotation(x), FALSE, ty, FALSE)
JudgeOut(op, m) == IF op = "instance" THEN (IF m THEN "true" ELSE "false") ELSE (IF m THEN "same" ELSE "XPDY0050")
NsOut(i, d, k, n, ty, o) == JudgeOut(NsOps[o], NsMatch(NsItems[i], NsKinds[k], NsNames[n], NsTys[NsKinds[k]][ty], DefaultNs[d]))
NsInit == \E i \in 1..Len(NsItems), d \in 1..Len(DefaultNs), k \in 1..2, n \in 1..Len(NsNames), ty \in 1..4, o \in 1..2 :
            acc = [m |-> "ns", x |-> i, d |-> d, k |-> k, n |-> n, ty |-> ty, o |-> o, out |-> NsOut(i, d, k, n, ty, o)]
StutterNext == UNCHANGED acc
(* the default element namespace never reaches attribute names, prefixed names and wildcards; an
   unprefixed element name matches exactly the elements of the default namespace *)
NsLaw == acc.m = "ns" =>
  /\ (NsKinds[acc.k] = "attribute" \/ NsNames[acc.n].p \/ NsNames[acc.n].l = "*")
        => \A d2 \in 1..Len(DefaultNs) : NsOut(acc.x, d2, acc.k, acc.n, acc.ty, acc.o) = acc.out
  /\ (NsKinds[acc.k] = "element" /\ NsNames[acc.n] = Lex(FALSE, "e") /\ NsItems[acc.x].nk = "element" /\ acc.ty = 1)
        => ((acc.out \in {"true", "same"}) <=> (NsItems[acc.x].name.ns = DefaultNs[acc.d]))

---------------------------------------------------------------------------
(* TREAT AS OBSERVED THROUGH CONSUMERS (3.18.5: "If the dynamic type of the operand does not     *)
(* match the SequenceType, a dynamic error is raised [XPDY0050]"): the judgement concerns the      *)
(* WHOLE operand value, so its outcome does not depend on how much of the result the enclosing      *)
(* expression (consumer) or the caller (entry point) pulls.  Each initial state of CInit is one     *)
(*   consumer( V treat as T )  through entry point e ;  out = "same" means: equal to consumer(V).   *)
Consumers == <<"all", "exists", "empty", "head", "first", "some", "every", "sub1", "ebv", "not", "if">>
Entries == <<"select", "evaluate", "tselect", "iter1", "selector">>
CSingles == {I("integer"), I("string"), <<Node("element", "a")>>, <<Node("attribute", "x")>>}
CValues == {i \in 1..NV : Len(ValueSeq[i]) # 1 \/ ValueSeq[i] \in CSingles}
(* consumers taking the effective boolean value are applied to operands whose EBV is defined *)
Applicable(c, i) == IF Consumers[c] \notin {"ebv", "not", "if"} THEN TRUE
                    ELSE IF Len(ValueSeq[i]) = 0 THEN TRUE ELSE ValueSeq[i][1].k = "node"
COut(v, t, c, e) == IF t \in MatchRow[v] THEN "same" ELSE "XPDY0050"
CInit == \E v \in CValues, t \in 1..NT, c \in 1..Len(Consumers), e \in 1..Len(Entries) :
           /\ Applicable(c, v) /\ t \notin AmbRow[v]
           (* quick: the entry point rotates and every (value, type) pair meets every second consumer *)
           /\ (Universe = "quick" => (e = ((v + t + c) % Len(Entries)) + 1 /\ (v + t + c) % 2 = 0))
           (* thorough: every consumer, two of the entry points per (value, type, consumer) *)
           /\ (Universe # "quick" => ((e - 1) - (v + t + c)) % Len(Entries) \in {0, 2})
           /\ acc = [m |-> "consume", v |-> v, t |-> t, c |-> c, e |-> e, out |-> COut(v, t, c, e)]
(* the error is a function of (V, T) alone: same outcome as the bare treat expression fully consumed *)
ConsumerFree == acc.m = "consume" =>
  \A c2 \in 1..Len(Consumers), e2 \in 1..Len(Entries) : COut(acc.v, acc.t, c2, e2) = COut(acc.v, acc.t, 1, 1)
(* the class the law is about is inhabited: non-matching operands whose FIRST item alone matches *)
LateFail(v, t) == /\ t \notin MatchRow[v] /\ Len(ValueSeq[v]) > 1
                  /\ TypeSeq[t].occ # "0" /\ MatchItem(ValueSeq[v][1], TypeSeq[t].it)
ASSUME \E v \in CValues, t \in 1..NT : LateFail(v, t) /\ TypeSeq[t].occ \in {"1", "?"}
ASSUME \E v \in CValues, t \in 1..NT : LateFail(v, t) /\ TypeSeq[t].occ \in {"+", "*"}
ASSUME PrintT(<<"nsuniverse", <<NsItems, DefaultNs, NsKinds, NsNames, NsTys, NsOps>> >>)
ASSUME PrintT(<<"consumers", <<Consumers, Entries>> >>)

(* printed once: the universe the indices refer to *)
ASSUME PrintT(<<"types", TypeSeq>>)
ASSUME PrintT(<<"values", ValueSeq>>)
ASSUME PrintT(<<"ambiguous", Cardinality(UNION {{<<v, j>> : j \in AmbRow[v]} : v \in 1..NV})>>)
=============================================================================
