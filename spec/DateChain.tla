------------------------------ MODULE DateChain ------------------------------
(***************************************************************************)
(* xs:dateTime / xs:date / xs:time values and the F&O operations on them   *)
(* (property C11) as a VALUE-STATE MACHINE: the state is one value, every  *)
(* action applies one operation of XPath F&O (section 9, 10) to it.        *)
(*                                                                         *)
(*   [st |-> "raw",  k, y, mo, d, h, mi, s, us, tz]   lexical fields as written (24:00:00, Feb 29, year 0) *)
(*   [st |-> "val",  k, y, mo, d, h, mi, s, us, tz]   a value of kind k in "dateTime" | "date" | "time"   *)
(*   [st |-> "gval", k, y, mo, ..., tz]                a gYear / gYearMonth value (construction only)       *)
(*   [st |-> "rawdur", k, neg, yy, mm, dd, hh, mi, ss, us]   a duration literal as written                  *)
(*   [st |-> "dur",  k, neg, m, d, s, us]              a duration value (Durations.tla)                    *)
(*   [st |-> "cmp",  r]   [st |-> "comps", ...]   [st |-> "dcomps", ...]   [st |-> "err"]   terminal       *)
(*                                                                         *)
(* y is the LEXICAL year under the configured XSD version (Calendar.tla:   *)
(* Astro / Lex), tz is minutes east of UTC or NoTZ.  All arithmetic is     *)
(* done on timeline stamps <<days, seconds, micros>>.  The implicit        *)
(* timezone is the constant ImplicitTZ (0 = UTC, what elementpath uses     *)
(* without a dynamic context; the *-impl configurations use +05:30).       *)
(* Laws (invariant Laws, action property LawsHold): value -> offset ->     *)
(* value is the identity; d + dur - dur = d; d2 - d1 is the elapsed time;  *)
(* d1 + (d2 - d1) = d2; comparison = order of the instants, antisymmetric, *)
(* consistent with subtraction; adjust-to-timezone preserves the instant;  *)
(* yearMonthDuration moves the month index exactly and clamps the day      *)
(* (Jan 31 + P1M = Feb 28/29); 24:00:00 = next day 00:00:00; duration      *)
(* algebra (k * d = repeated addition, total order).                       *)
(*                                                                         *)
(* Semantics: XSD 1.1 part 2, 3.3.7 and appendix E.3 (timeOnTimeline,      *)
(* dateTimePlusDuration: months first, day clamped to the month length);   *)
(* F&O 3.1: 9.4 comparisons (order of the instants, dates by their         *)
(* starting instant, times on one reference day), 9.5 component            *)
(* extraction, 9.6 adjust-*-to-timezone, 9.7/9.8 arithmetic.               *)
(* Outside: |year| > 5 000 000 (32-bit TLC), timezones beyond +-14:00,     *)
(* FODT0001/FODT0002 overflow behaviour, xs:duration with both parts.      *)
(***************************************************************************)
EXTENDS DateOps

CONSTANTS GridName,     \* "tiny" | "small" | "full"   (Xsd and ImplicitTZcfg: DateOps)
          MaxOps,       \* 1: one operation per grid value, 2: chains of two
          LawOps        \* the full set of laws is evaluated on values with ops <= LawOps

VARIABLES val,      \* the value
          ops       \* number of operations applied since the literal was constructed: a literal of the
                    \* grid (ops = 0) gets every operation, a result (ops = 1) the chain subset only
vars == <<val, ops>>

---------------------------------------------------------------------------
(* grids (negative numbers cannot be written in a cfg file) *)
FullYears  == {-400001, -10001, -10000, -9999, -821, -820, -401, -400, -101, -100, -5, -4, -2, -1, 0,
               1, 2, 4, 100, 400, 1582, 1999, 2000, 9999, 10000, 10001, 400000}
SmallYears == {-400001, -10000, -820, -401, -5, -1, 0, 1, 2000, 9999, 10000, 400000}
TinyYears  == {-820, -1, 1, 2000, 10000}
Years == IF GridName = "tiny" THEN TinyYears ELSE IF GridName = "small" THEN SmallYears ELSE FullYears
FullMonthDays == {<<1, 1>>, <<1, 31>>, <<2, 28>>, <<2, 29>>, <<3, 1>>, <<12, 31>>}
TinyMonthDays == {<<1, 1>>, <<2, 29>>, <<12, 31>>}
MonthDays == IF GridName = "tiny" THEN TinyMonthDays ELSE FullMonthDays
FullTimes  == {<<0, 0, 0, 0>>, <<12, 30, 15, 0>>, <<23, 59, 59, 999999>>, <<24, 0, 0, 0>>, <<6, 7, 8, 50000>>}
SmallTimes == {<<0, 0, 0, 0>>, <<12, 30, 15, 50000>>, <<23, 59, 59, 999999>>, <<24, 0, 0, 0>>}
TinyTimes  == {<<0, 0, 0, 0>>, <<23, 59, 59, 999999>>}
Times == IF GridName = "tiny" THEN TinyTimes ELSE IF GridName = "small" THEN SmallTimes ELSE FullTimes
SmallTZs == {NoTZ, 0, -840, -30}
TinyTZs  == {NoTZ, -30}
TZs == IF GridName = "tiny" THEN TinyTZs ELSE IF GridName = "small" THEN SmallTZs ELSE FullTZs

RawValues ==
  {Raw("dateTime", y, md, t, tz) : y \in Years, md \in MonthDays, t \in Times, tz \in TZs}
  \cup {Raw("date", y, md, <<0, 0, 0, 0>>, tz) : y \in Years, md \in MonthDays, tz \in TZs}
  \cup {Raw("time", 0, <<0, 0>>, t, tz) : t \in FullTimes, tz \in FullTZs}
  \cup {Raw("gYear", y, <<0, 0>>, <<0, 0, 0, 0>>, tz) : y \in Years, tz \in TZs}
  \cup {Raw("gYearMonth", y, <<2, 0>>, <<0, 0, 0, 0>>, tz) : y \in Years, tz \in TZs}

RawDurs == {
  RawDur("dtd", FALSE, 0, 0, 0, 0, 0, 0, 0), RawDur("dtd", FALSE, 0, 0, 0, 0, 0, 1, 0), RawDur("dtd", TRUE, 0, 0, 0, 0, 0, 1, 0),
  RawDur("dtd", FALSE, 0, 0, 1, 0, 0, 0, 0), RawDur("dtd", TRUE, 0, 0, 1, 0, 0, 0, 0), RawDur("dtd", FALSE, 0, 0, 365, 0, 0, 0, 0),
  RawDur("dtd", TRUE, 0, 0, 365, 0, 0, 0, 0), RawDur("dtd", FALSE, 0, 0, 0, 0, 0, 0, 1), RawDur("dtd", TRUE, 0, 0, 0, 0, 0, 0, 1),
  RawDur("dtd", FALSE, 0, 0, 0, 36, 0, 0, 0), RawDur("dtd", FALSE, 0, 0, 1, 12, 0, 0, 0), RawDur("dtd", FALSE, 0, 0, 0, 0, 0, 86400, 0),
  RawDur("dtd", FALSE, 0, 0, 0, 0, 1440, 0, 0), RawDur("dtd", TRUE, 0, 0, 0, 0, 0, 59, 999999),
  RawDur("dtd", FALSE, 0, 0, 0, 23, 59, 59, 999999), RawDur("dtd", TRUE, 0, 0, 0, 0, 90, 0, 50000),
  RawDur("ymd", FALSE, 0, 0, 0, 0, 0, 0, 0), RawDur("ymd", FALSE, 0, 1, 0, 0, 0, 0, 0), RawDur("ymd", TRUE, 0, 1, 0, 0, 0, 0, 0),
  RawDur("ymd", FALSE, 0, 12, 0, 0, 0, 0, 0), RawDur("ymd", FALSE, 1, 0, 0, 0, 0, 0, 0), RawDur("ymd", TRUE, 0, 12, 0, 0, 0, 0, 0),
  RawDur("ymd", FALSE, 1, 2, 0, 0, 0, 0, 0), RawDur("ymd", TRUE, 1, 2, 0, 0, 0, 0, 0), RawDur("ymd", FALSE, 0, 14, 0, 0, 0, 0, 0),
  RawDur("ymd", TRUE, 2, 11, 0, 0, 0, 0, 0) }

ASSUME PrintT(<<"others", OthersTable>>)
ASSUME PrintT(<<"durothers", DurOthers>>)

OnGrid == ops = 0
More   == ops < MaxOps
Step   == ops' = ops + 1

---------------------------------------------------------------------------
Init == val \in RawValues \cup RawDurs /\ ops = 0

Construct == /\ val.st \in {"raw", "rawdur"}
             /\ val' = IF val.st = "raw" THEN ConstructV(val) ELSE ConstructDur(val)
             /\ ops' = 0
AddDTD(r) == /\ Step /\ More /\ IsVal(val) /\ (OnGrid \/ r \in ChainDTD)
             /\ val' = AddDTDv(val, r)
SubDTD(r) == /\ Step /\ More /\ IsVal(val) /\ (OnGrid \/ r \in ChainDTD)
             /\ val' = AddDTDv(val, DurNeg(r))
AddYMD(r) == /\ Step /\ More /\ IsVal(val) /\ HasDate(val) /\ (OnGrid \/ r \in ChainYMD)
             /\ val' = AddYMDv(val, r)
SubYMD(r) == /\ Step /\ More /\ IsVal(val) /\ HasDate(val) /\ (OnGrid \/ r \in ChainYMD)
             /\ val' = AddYMDv(val, DurNeg(r))
Diff(i) == /\ Step /\ More /\ IsVal(val) /\ OnGrid /\ IsVal(OtherOf(val.k, i))
           /\ val' = DurState(DiffV(val, OtherOf(val.k, i)))
Compare(i) == /\ Step /\ More /\ IsVal(val) /\ OnGrid /\ IsVal(OtherOf(val.k, i))
              /\ val' = [st |-> "cmp", r |-> CompareV(val, OtherOf(val.k, i))]
AdjustTZ(tz) == /\ Step /\ More /\ IsVal(val) /\ OnGrid
                /\ val' = AdjustV(val, tz)
(* fn:adjust-*-to-timezone($v): the one-argument form adjusts to the implicit timezone *)
AdjustImpl == /\ Step /\ More /\ IsVal(val) /\ OnGrid
              /\ val' = AdjustV(val, ImplicitTZ)
Components == /\ Step /\ More /\ IsVal(val)
              /\ val' = ComponentsV(val)
(* duration states *)
AddTo(k, i) == /\ Step /\ More /\ IsDur(val) /\ (val.k = "ymd" => k # "time")
               /\ (OnGrid \/ (i <= 4 /\ k = "dateTime")) /\ IsVal(OtherOf(k, i))
               /\ val' = IF val.k = "dtd" THEN AddDTDv(OtherOf(k, i), DurOf(val)) ELSE AddYMDv(OtherOf(k, i), DurOf(val))
MulBy(n) == /\ Step /\ More /\ IsDur(val) /\ OnGrid
            /\ val' = DurState(DurTimes(DurOf(val), n))
DurPlus(j) == /\ Step /\ More /\ IsDur(val) /\ OnGrid /\ j <= Len(DurOthers[val.k])
              /\ val' = DurState(DurAdd(DurOf(val), DurOthers[val.k][j]))
DurMinus(j) == /\ Step /\ More /\ IsDur(val) /\ OnGrid /\ j <= Len(DurOthers[val.k])
               /\ val' = DurState(DurSub(DurOf(val), DurOthers[val.k][j]))
DurCompare(j) == /\ Step /\ More /\ IsDur(val) /\ OnGrid /\ j <= Len(DurOthers[val.k])
                 /\ val' = [st |-> "cmp", r |-> DurCmp(DurOf(val), DurOthers[val.k][j])]
DurComponents == /\ Step /\ More /\ IsDur(val)
                 /\ val' = DurComponentsV(DurOf(val))

Next == \/ Construct
        \/ \E r \in DTDGrid : AddDTD(r)
        \/ \E r \in DTDGrid : SubDTD(r)
        \/ \E r \in YMDGrid : AddYMD(r)
        \/ \E r \in YMDGrid : SubYMD(r)
        \/ \E i \in 1..NOthers : Diff(i)
        \/ \E i \in 1..NOthers : Compare(i)
        \/ \E tz \in AdjustArgs : AdjustTZ(tz)
        \/ AdjustImpl
        \/ Components
        \/ \E k \in Kinds, i \in 1..NOthers : AddTo(k, i)
        \/ \E n \in Multipliers : MulBy(n)
        \/ \E j \in 1..6 : DurPlus(j)
        \/ \E j \in 1..6 : DurMinus(j)
        \/ \E j \in 1..6 : DurCompare(j)
        \/ DurComponents
Spec == Init /\ [][Next]_vars

---------------------------------------------------------------------------
Laws ==                                          \* INVARIANT
  /\ ops \in 0..MaxOps
  /\ IsVal(val) => (WellFormed(val) /\ LawRoundTrip(val))
  /\ IsDur(val) => WellFormedDur(DurOf(val))
  /\ (ops <= LawOps) => LawsOf(val)
LawsHold == [][LawConstruct(val, val')]_vars     \* PROPERTY
=============================================================================
