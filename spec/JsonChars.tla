------------------------------ MODULE JsonChars ------------------------------
(***************************************************************************)
(* Characters, code points and the DEFINITIONAL JSON string escaping of    *)
(* RFC 8259 section 7 / XSLT-XQuery Serialization 3.1 section 9.1 / F&O    *)
(* 3.1 fn:xml-to-json, as pure operators (no variables).  Used by the step *)
(* machine JsonString and by the value-state machine JsonModel (C17).      *)
(*                                                                         *)
(* A string is a Seq of character ids.  Source alphabet (what a JSON       *)
(* string VALUE may contain here):                                         *)
(*    1 a   2 "   3 \   4 /   5 n   6 u   7 U+000A   8 U+0001   9 U+007F   *)
(*   10 U+1F600 (astral: a surrogate pair in \u escapes)   11 U+FFFD       *)
(* Characters that are special to SOME layer other than JSON (alphabet     *)
(* SpecialChars, raw inside strings and keys in every position):           *)
(*   12 U+FEFF (a byte order mark only as FIRST character of a text)       *)
(*   13 U+2028  14 U+2029 (line ends of ECMAScript / str.splitlines)       *)
(*   15 U+0085 (C1 control, XML 1.1 line end)  16 U+00A0 (str.strip space) *)
(*   17 U+FFFE  18 U+FFFF (noncharacters: NOT XML characters)              *)
(* Text-only characters (they occur only inside \uXXXX escapes):           *)
(*   20..29 digits 0..9    30..35 A..F    41..45 b..f  (a is character 1)  *)
(*   50 / 51 lone high / low surrogate D83D / DE00 (what a decoder that    *)
(*           does not pair surrogates produces);   0 = malformed marker     *)
(***************************************************************************)
EXTENDS Integers, Sequences, FiniteSets

CA == 1  CQ == 2  CB == 3  CS == 4  CN == 5  CU == 6  CNL == 7  CC1 == 8  CDEL == 9  CAST == 10
CREP == 11
CBOM == 12  CLS == 13  CPS == 14  CNEL == 15  CNBSP == 16  CFFFE == 17  CFFFF == 18
SpecialChars == 12..18
LoneHi == 50
LoneLo == 51
BAD == 0

SourceChars == 1..10
(* code point of a character id *)
Code(c) == CASE c = CA -> 97 [] c = CQ -> 34 [] c = CB -> 92 [] c = CS -> 47 [] c = CN -> 110
             [] c = CU -> 117 [] c = CNL -> 10 [] c = CC1 -> 1 [] c = CDEL -> 127
             [] c = CAST -> 128512 [] c = CREP -> 65533
             [] c = CBOM -> 65279 [] c = CLS -> 8232 [] c = CPS -> 8233 [] c = CNEL -> 133 [] c = CNBSP -> 160
             [] c = CFFFE -> 65534 [] c = CFFFF -> 65535
             [] c \in 20..29 -> 48 + (c - 20)
             [] c \in 30..35 -> 65 + (c - 30)
             [] c \in 41..45 -> 98 + (c - 41)
             [] c = LoneHi -> 55357 [] c = LoneLo -> 56832
             [] OTHER -> -1
AllChars == (1..18) \cup (20..35) \cup (41..45) \cup {LoneHi, LoneLo}
CharOfCode(n) == IF \E c \in AllChars : Code(c) = n THEN CHOOSE c \in AllChars : Code(c) = n ELSE BAD

(* hexadecimal digits *)
HexUpper(v) == IF v < 10 THEN 20 + v ELSE 30 + (v - 10)
HexLower(v) == IF v < 10 THEN 20 + v ELSE IF v = 10 THEN CA ELSE 41 + (v - 11)
IsHexChar(c) == c = CA \/ c \in 20..35 \/ c \in 41..45
HexVal(c) == IF c = CA THEN 10 ELSE IF c \in 20..29 THEN c - 20 ELSE IF c \in 30..35 THEN 10 + (c - 30)
             ELSE 11 + (c - 41)
Hex4(n, lower) ==
  LET d(v) == IF lower THEN HexLower(v) ELSE HexUpper(v) IN
  <<d(n \div 4096), d((n \div 256) % 16), d((n \div 16) % 16), d(n % 16)>>
IsHigh(n) == n >= 55296 /\ n <= 56319
IsLow(n)  == n >= 56320 /\ n <= 57343

(* \uXXXX rendering of one character; characters beyond the BMP are a surrogate pair *)
UEsc(c, lower) ==
  LET n == Code(c) IN
  IF n < 65536 THEN <<CB, CU>> \o Hex4(n, lower)
  ELSE LET m == n - 65536 IN
       <<CB, CU>> \o Hex4(55296 + (m \div 1024), lower) \o <<CB, CU>> \o Hex4(56320 + (m % 1024), lower)

(* The renderings of one character that RFC 8259 allows:                    *)
(*   "lit"   the character itself (not for ", \ and U+0000..U+001F)         *)
(*   "short" the two-character escape  \"  \\  \/  \n                       *)
(*   "U" "l" \uXXXX with upper / lower case digits                          *)
MustEscape(c) == c \in {CQ, CB, CNL, CC1}
HasShort(c)   == c \in {CQ, CB, CS, CNL}
Forms(c) == (IF MustEscape(c) THEN {} ELSE {"lit"}) \cup (IF HasShort(c) THEN {"short"} ELSE {}) \cup {"U", "l"}
Short(c) == IF c = CNL THEN <<CB, CN>> ELSE <<CB, c>>
Render(c, f) == CASE f = "lit" -> <<c>> [] f = "short" -> Short(c) [] f = "U" -> UEsc(c, FALSE)
                  [] f = "l" -> UEsc(c, TRUE)

(* Escaping POLICIES (one form per character):                              *)
(*  "canon"  what Serialization 3.1 (JSON output method) and fn:xml-to-json *)
(*           prescribe: " \ / and the named controls as two-character       *)
(*           escapes, other codepoints in 1..31 and 127..159 as \uHHHH      *)
(*           (upper case), everything else literally                        *)
(*  "min"    only what RFC 8259 requires (/ and U+007F stay literal)        *)
(*  "U" "l"  every character as \uXXXX                                      *)
(*  "py"     python json.dumps(ensure_ascii) style: short escapes, all      *)
(*           non-ASCII and controls as lower-case \u, / and U+007F literal  *)
Policies == {"canon", "min", "U", "l", "py"}
PolicyForm(pol, c) ==
  CASE pol = "canon" -> IF HasShort(c) THEN "short" ELSE IF c \in {CC1, CDEL, CNEL} THEN "U" ELSE "lit"
    [] pol = "min"   -> IF MustEscape(c) THEN (IF HasShort(c) THEN "short" ELSE "U") ELSE "lit"
    [] pol = "U"     -> "U"
    [] pol = "l"     -> "l"
    [] pol = "py"    -> IF c \in {CQ, CB, CNL} THEN "short" ELSE IF c = CC1 \/ Code(c) > 127 THEN "l" ELSE "lit"
RECURSIVE Esc(_, _)
Esc(s, pol) == IF s = <<>> THEN <<>> ELSE Render(Head(s), PolicyForm(pol, Head(s))) \o Esc(Tail(s), pol)
EscCanon(s) == Esc(s, "canon")

(* DEFINITIONAL unescape (RFC 8259 section 7), total: malformed input gives <<BAD>> *)
Hex4Ok(x, i)  == i + 3 <= Len(x) /\ \A j \in i..(i + 3) : IsHexChar(x[j])
Hex4Val(x, i) == 4096 * HexVal(x[i]) + 256 * HexVal(x[i + 1]) + 16 * HexVal(x[i + 2]) + HexVal(x[i + 3])
Drop(x, k) == SubSeq(x, k + 1, Len(x))
RECURSIVE Unesc(_)
Unesc(x) ==
  IF x = <<>> THEN <<>>
  ELSE IF x[1] # CB THEN (IF MustEscape(x[1]) THEN <<BAD>> ELSE <<x[1]>> \o Unesc(Tail(x)))
  ELSE IF Len(x) < 2 THEN <<BAD>>
  ELSE LET e == x[2] IN
       IF e \in {CQ, CB, CS} THEN <<e>> \o Unesc(Drop(x, 2))
       ELSE IF e = CN THEN <<CNL>> \o Unesc(Drop(x, 2))
       ELSE IF e # CU \/ ~Hex4Ok(x, 3) THEN <<BAD>>
       ELSE LET n == Hex4Val(x, 3) IN
            IF IsHigh(n) /\ Len(x) >= 12 /\ x[7] = CB /\ x[8] = CU /\ Hex4Ok(x, 9) /\ IsLow(Hex4Val(x, 9))
            THEN <<CharOfCode(65536 + (n - 55296) * 1024 + (Hex4Val(x, 9) - 56320))>> \o Unesc(Drop(x, 12))
            ELSE <<CharOfCode(n)>> \o Unesc(Drop(x, 6))
WellFormed(x) == BAD \notin {Unesc(x)[i] : i \in 1..Len(Unesc(x))}

(* XML 1.0 Char production: U+0001 is not an XML character.  F&O 3.1 fn:parse-json and
   fn:json-to-xml (escape=false, no fallback function): such codepoints are replaced by U+FFFD *)
IsXmlChar(c) == c # CC1 /\ c # LoneHi /\ c # LoneLo /\ c # BAD /\ c # CFFFE /\ c # CFFFF
XmlSafe(s) == [i \in 1..Len(s) |-> IF IsXmlChar(s[i]) THEN s[i] ELSE CREP]
AllXml(s)  == \A i \in 1..Len(s) : IsXmlChar(s[i])

(* json-to-xml with escape=true (F&O 3.1 17.4.2): special characters are the codepoints 0..1F and
   7F..9F, codepoints that are not XML characters and the backslash; they are written as a
   two-character escape where one exists, else \uHHHH; nothing else is escaped, not even " and / *)
IsSpecial(c) == c \in {CNL, CC1, CDEL, CNEL, CB} \/ ~IsXmlChar(c)
RECURSIVE EscSpecial(_)
EscSpecial(s) == IF s = <<>> THEN <<>>
                 ELSE LET c == Head(s) IN
                      (IF ~IsSpecial(c) THEN <<c>> ELSE IF c \in {CNL, CB} THEN Short(c) ELSE UEsc(c, FALSE))
                        \o EscSpecial(Tail(s))
(* content of an escaped="true" string / escaped-key="true" key -> the string it denotes: JSON escapes
   are honoured, an unescaped quotation mark stands for itself *)
RECURSIVE UnescLoose(_)
UnescLoose(x) ==
  IF x = <<>> THEN <<>>
  ELSE IF x[1] # CB THEN <<x[1]>> \o UnescLoose(Tail(x))
  ELSE IF Len(x) < 2 THEN <<BAD>>
  ELSE LET e == x[2] IN
       IF e \in {CQ, CB, CS} THEN <<e>> \o UnescLoose(Drop(x, 2))
       ELSE IF e = CN THEN <<CNL>> \o UnescLoose(Drop(x, 2))
       ELSE IF e # CU \/ ~Hex4Ok(x, 3) THEN <<BAD>>
       ELSE LET n == Hex4Val(x, 3) IN
            IF IsHigh(n) /\ Len(x) >= 12 /\ x[7] = CB /\ x[8] = CU /\ Hex4Ok(x, 9) /\ IsLow(Hex4Val(x, 9))
            THEN <<CharOfCode(65536 + (n - 55296) * 1024 + (Hex4Val(x, 9) - 56320))>> \o UnescLoose(Drop(x, 12))
            ELSE <<CharOfCode(n)>> \o UnescLoose(Drop(x, 6))

(* Strings whose VALUE is a backslash, u and hexadecimal digits (in a JSON text they are written with an
   escaped backslash: "\\ud83d").  They are ordinary six-character strings: nothing may treat them as the
   escape sequences they look like -- in particular not fn:xml-to-json on strings that are not marked
   escaped.  Lone high / low surrogate codes, a reversed pair, a well-formed looking pair, a high code
   followed by a BMP code, an ordinary BMP code, a truncated form and one with non-hexadecimal digits. *)
Hx(v) == HexUpper(v)
BsU(d) == <<CB, CU>> \o d
VHiL   == BsU(<<HexLower(13), Hx(8), Hx(3), HexLower(13)>>)      \* \ud83d
VHi    == BsU(<<Hx(13), Hx(8), Hx(3), Hx(13)>>)                  \* \uD83D
VLo    == BsU(<<Hx(13), Hx(14), Hx(0), Hx(0)>>)                  \* \uDE00
VBmp   == BsU(<<Hx(0), Hx(0), Hx(4), Hx(1)>>)                    \* \u0041
VRev   == VLo \o VHi
VPair  == VHi \o VLo
VHiBmp == BsU(<<Hx(13), Hx(11), Hx(15), Hx(15)>>) \o VBmp       \* \uDBFF\u0041
VTrunc == BsU(<<Hx(1), Hx(2)>>)                                  \* \u12
VNoHex == BsU(<<CN, CN, CN, CN>>)                                \* \unnnn
BackslashUValues == {VHiL, VHi, VLo, VBmp, VRev, VPair, VHiBmp, VTrunc, VNoHex}

(* all strings over an alphabet up to a length *)
RECURSIVE StrsOfLen(_, _)
StrsOfLen(A, k) == IF k = 0 THEN {<<>>} ELSE {<<c>> \o s : c \in A, s \in StrsOfLen(A, k - 1)}
StrsUpTo(A, k) == UNION {StrsOfLen(A, j) : j \in 0..k}
=============================================================================
