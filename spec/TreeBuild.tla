------------------------------ MODULE TreeBuild ------------------------------
(***************************************************************************)
(* Step machine of the iterative node-tree builders of elementpath          *)
(* (tree_builders.py: build_node_tree / build_lxml_node_tree) together with *)
(* the lazily created namespace / attribute nodes (xpath_nodes.py:          *)
(* ElementNode.namespace_nodes, EtreeElementNode.attributes), run on every  *)
(* input of the XTree universe, and the REFINEMENT between what the         *)
(* algorithm produces and the definitional XDM image XTree!DefSeq.          *)
(*                                                                         *)
(* One action per created node / per control decision of the loop:         *)
(*   Start      position := 1, decide whether a document node is built     *)
(*   PreSib     lxml: document-level comment/PI before the root element    *)
(*   MkRoot     root element node, position += gap                         *)
(*   RootText   text of the root element                                   *)
(*   NextChild  `for elem in children`: create the child node (+ gap)      *)
(*   ChildText  text of the child element                                  *)
(*   Descend    `if len(elem)`: push iterators/ancestors                   *)
(*   ChildTail  `if elem.tail is not None` for a childless child           *)
(*   Exhausted  the for-else branch                                        *)
(*   Pop        pop iterators/ancestors, tail of parent.children[-1].elem  *)
(*   Finish     stacks empty: return / dummy document / go to PostSib      *)
(*   PostSib    lxml: document-level comment/PI after the root element     *)
(*   Report     the built tree is observed (iter()), vector printed        *)
(*                                                                         *)
(* The reserved gap after an element is                                    *)
(*     len(nsmap) + int('xml' not in nsmap) + 1 + len(attrib)              *)
(* (three textual copies in the code: etree root, etree child, lxml root   *)
(* and child), the lazy namespace nodes are numbered from position+1 and   *)
(* the lazy attributes from position + len(nsmap) + int('xml' not in       *)
(* nsmap) + 1.                                                             *)
(***************************************************************************)
EXTENDS XTree, TLC

CONSTANTS MaxItems, ItemKinds, TextOpts, TailOpts, EmptyOpts, AttrCounts, DeclOpts,
          Variants, RootArgs, Fragments, NsArgs,
          MaxSibs,        \* lxml: up to MaxSibs document-level comments/PIs before and after the root
          Emit            \* TRUE: Report prints the terminal vector with PrintT

VARIABLES pc,         \* control state
          position,   \* the builder's counter
          nodes,      \* nodes created so far, in creation order: [k, src, sub, pos, par]
                      \*   par = index in `nodes` of the parent node object (0 = None)
          docidx,     \* index of the document node (0 = no document)
          rootidx,    \* index of the root element node
          retidx,     \* index of the node returned to the caller (0 = not yet)
          sibk,       \* loop index of the sibling loops
          cur,        \* `children` iterator: [of |-> item, nxt |-> index of next child]
          iters,      \* `iterators` stack
          parent,     \* `parent` (index in nodes)
          ancs,       \* `ancestors` stack
          elem,       \* loop variable `elem` (item id)
          child       \* `child` (index in nodes)

mvars == <<pc, position, nodes, docidx, rootidx, retidx, sibk, cur, iters, parent, ancs, elem, child>>
vars == <<ivars, mvars>>

Node(k, s, j, p, pi) == [k |-> k, src |-> s, sub |-> j, pos |-> p, par |-> pi]
Desc(x) == D(x.k, x.src, x.sub)

SibSeqs == UNION {[1..m -> {"c", "p"}] : m \in 0..MaxSibs}

(* the three copies of the gap formula, as one operator *)
Gap(i) == Cardinality(Nsmap(i)) + (IF "xml" \in Nsmap(i) THEN 0 ELSE 1) + 1 + nat[i]

(* is a document node created up front? *)
DocAtStart ==
  IF variant = "etree"
  THEN rootarg = "tree" /\ fragment # "true"
  ELSE CASE fragment = "true"  -> FALSE
         [] rootarg = "tree"   -> TRUE
         [] OTHER              -> fragment = "false" \/ HasSibs   \* root.getparent() is None: item 1 is a root

Init ==
  /\ InputInit(MaxItems, ItemKinds, TextOpts, TailOpts, EmptyOpts, AttrCounts, DeclOpts,
               Variants, RootArgs, Fragments, NsArgs, SibSeqs)
  /\ pc = "start" /\ position = 0 /\ nodes = <<>> /\ docidx = 0 /\ rootidx = 0 /\ retidx = 0
  /\ sibk = 0 /\ cur = [of |-> 0, nxt |-> 0] /\ iters = <<>> /\ parent = 0 /\ ancs = <<>>
  /\ elem = 0 /\ child = 0

Start ==
  /\ pc = "start"
  /\ IF DocAtStart
     THEN /\ nodes' = <<Node("d", 0, 0, 1, 0)>>
          /\ docidx' = 1
          /\ position' = 2
          /\ sibk' = 1
          /\ pc' = IF variant = "lxml" THEN "pre" ELSE "root"
     ELSE /\ nodes' = <<>> /\ docidx' = 0 /\ position' = 1 /\ sibk' = 0
          /\ pc' = "root"
  /\ UNCHANGED <<ivars, rootidx, retidx, cur, iters, parent, ancs, elem, child>>

PreSib ==
  /\ pc = "pre"
  /\ IF sibk <= Len(pre)
     THEN /\ nodes' = Append(nodes, Node(IF pre[sibk] = "c" THEN "sc" ELSE "sp", 0, sibk, position, docidx))
          /\ position' = position + 1
          /\ sibk' = sibk + 1
          /\ pc' = "pre"
     ELSE /\ pc' = "root" /\ UNCHANGED <<nodes, position, sibk>>
  /\ UNCHANGED <<ivars, docidx, rootidx, retidx, cur, iters, parent, ancs, elem, child>>

MkRoot ==
  /\ pc = "root"
  /\ nodes' = Append(nodes, Node("e", 1, 0, position, docidx))
  /\ rootidx' = Len(nodes) + 1
  /\ position' = position + Gap(1)
  /\ pc' = "roottext"
  /\ UNCHANGED <<ivars, docidx, retidx, sibk, cur, iters, parent, ancs, elem, child>>

RootText ==
  /\ pc = "roottext"
  /\ IF TextVal(1) # "none"                         \* `is not None`: the empty string is a chunk too
     THEN nodes' = Append(nodes, Node("t", 1, 0, position, rootidx)) /\ position' = position + 1
     ELSE UNCHANGED <<nodes, position>>
  /\ cur' = [of |-> 1, nxt |-> 1]
  /\ parent' = rootidx
  /\ pc' = "loop"
  /\ UNCHANGED <<ivars, docidx, rootidx, retidx, sibk, iters, ancs, elem, child>>

HasNext == cur.nxt <= Len(KidSeq(cur.of))

NextChild ==
  /\ pc = "loop" /\ HasNext
  /\ LET e == KidSeq(cur.of)[cur.nxt] IN
     /\ elem' = e
     /\ cur' = [cur EXCEPT !.nxt = @ + 1]
     /\ nodes' = Append(nodes, Node(knd[e], e, 0, position, parent))
     /\ child' = Len(nodes) + 1
     /\ IF knd[e] = "e"
        THEN position' = position + Gap(e) /\ pc' = "childtext"
        ELSE position' = position + 1 /\ pc' = "afterchild"
  /\ UNCHANGED <<ivars, docidx, rootidx, retidx, sibk, iters, parent, ancs>>

ChildText ==
  /\ pc = "childtext"
  /\ IF TextVal(elem) # "none"
     THEN nodes' = Append(nodes, Node("t", elem, 0, position, child)) /\ position' = position + 1
     ELSE UNCHANGED <<nodes, position>>
  /\ pc' = "afterchild"
  /\ UNCHANGED <<ivars, docidx, rootidx, retidx, sibk, cur, iters, parent, ancs, elem, child>>

Descend ==
  /\ pc = "afterchild" /\ KidSet(elem) # {}          \* if len(elem):
  /\ ancs' = Append(ancs, parent)
  /\ parent' = child
  /\ iters' = Append(iters, cur)
  /\ cur' = [of |-> elem, nxt |-> 1]
  /\ pc' = "loop"
  /\ UNCHANGED <<ivars, position, nodes, docidx, rootidx, retidx, sibk, elem, child>>

ChildTail ==
  /\ pc = "afterchild" /\ KidSet(elem) = {}
  /\ IF TailVal(elem) # "none"
     THEN nodes' = Append(nodes, Node("l", elem, 0, position, parent)) /\ position' = position + 1
     ELSE UNCHANGED <<nodes, position>>
  /\ pc' = "loop"
  /\ UNCHANGED <<ivars, docidx, rootidx, retidx, sibk, cur, iters, parent, ancs, elem, child>>

Exhausted ==
  /\ pc = "loop" /\ ~HasNext
  /\ pc' = IF iters = <<>> THEN "finish" ELSE "pop"
  /\ UNCHANGED <<ivars, position, nodes, docidx, rootidx, retidx, sibk, cur, iters, parent, ancs, elem, child>>

(* indices of the child node objects of node idx, in append order (= children list) *)
KidsOf(ns, idx) == AscSeq({j \in 1..Len(ns) : ns[j].par = idx})
LastKid(ns, idx) == LET s == KidsOf(ns, idx) IN s[Len(s)]

Pop ==
  /\ pc = "pop"
  /\ LET p == ancs[Len(ancs)]
         last == nodes[LastKid(nodes, p)]            \* parent.children[-1]
     IN /\ parent' = p
        /\ cur' = iters[Len(iters)]
        /\ iters' = SubSeq(iters, 1, Len(iters) - 1)
        /\ ancs' = SubSeq(ancs, 1, Len(ancs) - 1)
        /\ IF TailVal(last.src) # "none"               \* .elem.tail is not None
           THEN nodes' = Append(nodes, Node("l", last.src, 0, position, p)) /\ position' = position + 1
           ELSE UNCHANGED <<nodes, position>>
  /\ pc' = "loop"
  /\ UNCHANGED <<ivars, docidx, rootidx, retidx, sibk, elem, child>>

Finish ==
  /\ pc = "finish"
  /\ IF docidx # 0
     THEN IF variant = "lxml"
          THEN pc' = "post" /\ sibk' = 1 /\ UNCHANGED <<nodes, retidx>>
          ELSE pc' = "ret" /\ retidx' = docidx /\ UNCHANGED <<nodes, sibk>>
     ELSE IF variant = "etree" /\ fragment = "false"
          THEN \* root_node.get_document_node(): dummy document at root.position - 1, root re-parented
               /\ nodes' = Append([nodes EXCEPT ![rootidx].par = Len(nodes) + 1],
                                  Node("d", 0, 0, nodes[rootidx].pos - 1, 0))
               /\ retidx' = Len(nodes) + 1
               /\ pc' = "ret" /\ UNCHANGED sibk
          ELSE pc' = "ret" /\ retidx' = rootidx /\ UNCHANGED <<nodes, sibk>>
  /\ UNCHANGED <<ivars, position, docidx, rootidx, cur, iters, parent, ancs, elem, child>>

PostSib ==
  /\ pc = "post"
  /\ IF sibk <= Len(post)
     THEN /\ nodes' = Append(nodes, Node(IF post[sibk] = "c" THEN "sc" ELSE "sp", 0, 100 + sibk, position, docidx))
          /\ position' = position + 1
          /\ sibk' = sibk + 1
          /\ pc' = "post" /\ UNCHANGED retidx
     ELSE /\ pc' = "ret" /\ retidx' = docidx /\ UNCHANGED <<nodes, position, sibk>>
  /\ UNCHANGED <<ivars, docidx, rootidx, cur, iters, parent, ancs, elem, child>>

---------------------------------------------------------------------------
(* The lazy parts and the tree as the caller sees it: node.iter() *)

LazyNs(idx) ==       \* ElementNode.namespace_nodes: 'xml' at position+1, then the other prefixes of nsmap
  LET x == nodes[idx]  cnt == 1 + Cardinality(Nsmap(x.src) \ {"xml"}) IN
  [j \in 1..cnt |-> Node("ns", x.src, j, x.pos + j, idx)]
LazyNsPrefixes(idx) == {"xml"} \cup (Nsmap(nodes[idx].src) \ {"xml"})

LazyAttrs(idx) ==    \* EtreeElementNode.attributes
  LET x == nodes[idx]
      first == x.pos + Cardinality(Nsmap(x.src)) + (IF "xml" \in Nsmap(x.src) THEN 0 ELSE 1) + 1 IN
  [j \in 1..nat[x.src] |-> Node("a", x.src, j, first + j - 1, idx)]

RECURSIVE IterFrom(_), IterKids(_)
IterFrom(idx) ==
  <<nodes[idx]>>
  \o (IF nodes[idx].k = "e" THEN LazyNs(idx) \o LazyAttrs(idx) ELSE <<>>)
  \o IterKids(KidsOf(nodes, idx))
IterKids(s) == IF s = <<>> THEN <<>> ELSE IterFrom(Head(s)) \o IterKids(Tail(s))

FullIter == IterFrom(retidx)

ParentDesc(x) == IF x.par = 0 THEN NoneD ELSE Desc(nodes[x.par])

(* terminal vector: everything the binding compares, all computed by TLC *)
Vector ==
  LET S == DefSeq
      Rk(x) == IF x = NoneD THEN 0 ELSE RankIn(S, x)
      F == FullIter
  IN
  [cfg   |-> [variant |-> variant, rootarg |-> rootarg, fragment |-> fragment, nsarg |-> nsarg],
   tree  |-> [n |-> n, par |-> par, knd |-> knd, txt |-> txt, tl |-> tl, etx |-> etx, etl |-> etl,
              nat |-> nat, decl |-> decl,
              pre |-> pre, post |-> post],
   def   |-> [j \in 1..Len(S) |->
                LET x == S[j]  ch == DefChildren(x)  sv == DefStringValue(x) IN
                [d  |-> <<x.k, x.src, x.sub>>,
                 p  |-> Rk(DefParent(x)),
                 ch |-> [u \in 1..Len(ch) |-> Rk(ch[u])],
                 sv |-> [u \in 1..Len(sv) |-> <<sv[u].k, sv[u].src, sv[u].sub>>],
                 px |-> IF x.k = "e" THEN NsPrefixes(x.src) ELSE {}]],
   built |-> [j \in 1..Len(F) |->
                LET x == F[j] IN
                <<x.k, x.src, x.sub, x.pos, IF x.par = 0 THEN 0 - 1 ELSE nodes[x.par].pos>>]]

Report ==
  /\ pc = "ret"
  /\ Emit => PrintT(ToString(<<"c02", Vector>>))   \* one line per vector: atomic with many workers
  /\ pc' = "done"
  /\ UNCHANGED <<ivars, position, nodes, docidx, rootidx, retidx, sibk, cur, iters, parent, ancs, elem, child>>

Next == Start \/ PreSib \/ MkRoot \/ RootText \/ NextChild \/ ChildText \/ Descend \/ ChildTail
        \/ Exhausted \/ Pop \/ Finish \/ PostSib \/ Report

Spec == Init /\ [][Next]_vars

---------------------------------------------------------------------------
(* Invariants *)

TypeOK ==
  /\ pc \in {"start", "pre", "root", "roottext", "loop", "childtext", "afterchild", "pop",
             "finish", "post", "ret", "done"}
  /\ position \in Nat
  /\ \A j \in 1..Len(nodes) : nodes[j].par \in 0..Len(nodes) /\ nodes[j].par # j
  /\ Len(iters) = Len(ancs)

(* the loop's own assumptions: `parent.children[-1]` is an element/comment/PI node (it has .elem) *)
PopSafe == pc = "pop" =>
  LET p == ancs[Len(ancs)] IN
  /\ KidsOf(nodes, p) # <<>>
  /\ nodes[LastKid(nodes, p)].k \in {"e", "c", "p"}
  /\ nodes[LastKid(nodes, p)].src = cur.of          \* ... namely the element whose children were just exhausted

(* the counter is always beyond every position handed out so far, INCLUDING the lazy ones in the gap *)
GapSafe ==
  \A j \in 1..Len(nodes) :
     LET x == nodes[j] IN
     pc \notin {"start"} /\ ~(x.k = "d" /\ x.pos = 0) =>
        /\ x.pos < position
        /\ x.k = "e" => /\ \A u \in 1..Len(LazyNs(j)) : LazyNs(j)[u].pos < position
                        /\ \A u \in 1..Len(LazyAttrs(j)) : LazyAttrs(j)[u].pos < position

Terminal == pc = "ret"      \* the state in which the caller receives the tree (Report only observes it)

(* REFINEMENT: the tree seen by the caller is the definitional image *)
Faithful == Terminal =>        \* exactly one node per constituent, in document order, by iter()
  LET F == FullIter IN
  /\ Len(F) = Len(DefSeq)
  /\ \A j \in 1..Len(F) : Desc(F[j]) = DefSeq[j]

StrictlyIncreasing == Terminal =>   \* positions strictly increase in document order (hence unique)
  LET F == FullIter IN \A j \in 1..(Len(F) - 1) : F[j].pos < F[j+1].pos

ParentsConsistent == Terminal =>
  LET F == FullIter IN \A j \in 1..Len(F) : ParentDesc(F[j]) = DefParent(Desc(F[j]))

ChildrenConsistent == Terminal =>
  \A idx \in 1..Len(nodes) :
     LET ks == KidsOf(nodes, idx) IN
     [u \in 1..Len(ks) |-> Desc(nodes[ks[u]])] = DefChildren(Desc(nodes[idx]))

NoOrphans == Terminal =>     \* every node object created is reachable from the returned root
  LET F == FullIter IN
  Cardinality({j \in 1..Len(F) : F[j].k \notin {"ns", "a"}}) = Len(nodes)

NsFaithful == Terminal =>
  \A idx \in 1..Len(nodes) : nodes[idx].k = "e" =>
     /\ LazyNsPrefixes(idx) = NsPrefixes(nodes[idx].src)
     /\ Len(LazyNs(idx)) = NsCount(nodes[idx].src)

RootKind == Terminal =>      \* the returned node is a document iff the configuration asks for one
  /\ (nodes[retidx].k = "d") = HasDoc
  /\ nodes[retidx].par = 0

Refinement == /\ Faithful /\ StrictlyIncreasing /\ ParentsConsistent /\ ChildrenConsistent
              /\ NoOrphans /\ NsFaithful /\ RootKind

(* the definitional image obeys the XDM document-order rules (checked once per input; not in the
   initial state, whose invariants TLC evaluates in its single-threaded start-up phase) *)
DefOK == pc = "roottext" => DefLaws

(* anti-vacuity helper: some behaviour terminates *)
NeverDone == pc # "done"
=============================================================================
