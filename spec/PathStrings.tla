---------------------------- MODULE PathStrings ----------------------------
(***************************************************************************)
(* Property C14: fn:path and node path strings identify each node uniquely.*)
(*                                                                         *)
(* DEFINITIONAL SIDE (XPath and XQuery Functions and Operators 3.1, 14.3   *)
(* fn:path).  The path of a node is the concatenation of one step per      *)
(* ancestor-or-self below the root:                                        *)
(*   element                 Q{uri}local[position]   position among its    *)
(*                           like-named sibling elements                   *)
(*   attribute               @local  (no namespace)  |  @Q{uri}local       *)
(*   text / comment          text()[position] / comment()[position] among  *)
(*                           its text / comment siblings                   *)
(*   processing instruction  processing-instruction(target)[position]      *)
(*                           among its LIKE-NAMED PI siblings              *)
(*   namespace               namespace::prefix  |  for the default         *)
(*                           namespace namespace::*[Q{FN}local-name()=""]  *)
(* prefixed by nothing for a document root ("/" alone for the document     *)
(* node) and by Q{FN}root() when the root is not a document node.          *)
(* StepOf / StepsTo / FnPath below are this definition; Text(..) is its    *)
(* lexical form as a sequence of string pieces (the harness only           *)
(* concatenates the pieces).                                               *)
(*                                                                         *)
(* EVALUATION SIDE.  Eval(path) evaluates the structured steps with the    *)
(* child / attribute axes, node tests and positional predicates of         *)
(* spec/XDM.tla (through XDMX) -- independent of the counting used to      *)
(* build the steps.  TLC decides Eval(Path(n)) = {n} for every node of     *)
(* every tree, and injectivity of the texts.                               *)
(*                                                                         *)
(* FIVE SCHEMES over the same steps (what the three code paths return):    *)
(*   FnPath   fn:path(n)                                                   *)
(*   DocPath  node.path: "/" + steps from the (real or implied) document;  *)
(*            sound for R1, R2, R4, R5; NOT sound for a fragment (R3), where*)
(*            "/" is the parentless element -- that is why fn:path has    *)
(*            the root() form (invariant FragmentNeedsRootFn)              *)
(*   RelPath  etree_iter_paths(root): "." + steps below the root element   *)
(*   FragPath etree_iter_paths(root, "/") read in fragment mode (R3)       *)
(*   BarePath etree_iter_paths(root, ""): the steps below the root element  *)
(*            joined by "/", no prefix (context item = the root element)    *)
(*                                                                         *)
(* MECHANISM SIDE.  The two algorithms of the code are modelled as         *)
(* operators over the same tree: IterPos = the top-down walk of            *)
(* etree_iter_paths with one counter per tag and one per PI target;        *)
(* ImplPos = XPathNode.get_child_position as written before fix bbeb72e    *)
(* (elements: siblings c with c.name = child.name; others: siblings of the *)
(* same node class).  IterAgrees is an invariant; ImplSound is checked in  *)
(* a separate configuration where TLC must REFUTE it (design-level         *)
(* counterexample for the known defects).                                  *)
(*                                                                         *)
(* STATE MACHINE.  State = one tree + the current node cur + txt, the      *)
(* lexical paths of cur in the four schemes.  Walk(st) moves from cur to   *)
(* the node selected by ONE path step st evaluated from cur, so the state  *)
(* graph of a tree is the tree itself, every edge is labelled with the     *)
(* step that the real evaluator must take from the real parent node, and   *)
(* every node of every tree is a state whose txt is the expected output.   *)
(***************************************************************************)
EXTENDS XDMX, TLC

VARIABLES cur, txt
vars == <<parent, kind, decl, cur, txt>>

FN == "http://www.w3.org/2005/xpath-functions"
PosStr(k) == <<"1", "2", "3", "4", "5", "6", "7", "8", "9", "10", "11", "12", "13", "14">>[k]

---------------------------------------------------------------------------
(* Definitional side *)
KindClass(k) == IF k \in ElemK THEN "elem" ELSE IF k \in AttrK THEN "attr" ELSE IF k \in PIK THEN "pi"
                ELSE IF k \in TextK THEN "text" ELSE "comment"

LikeNamed(m, n) ==     \* same node kind and, where the kind has one, the same (expanded) name
  /\ KindClass(kind[m]) = KindClass(kind[n])
  /\ kind[n] \in ElemK => (NsOf(kind[m]) = NsOf(kind[n]) /\ LocalOf(kind[m]) = LocalOf(kind[n]))
  /\ kind[n] \in PIK   => TargetOf(kind[m]) = TargetOf(kind[n])

PosOf(n) == 1 + Cardinality({m \in 1..N : m < n /\ parent[m] = parent[n] /\ LikeNamed(m, n)})

StepOf(n) ==
  IF IsNs(n) THEN [ax |-> "namespace", k |-> "ns", ns |-> "", nm |-> NsPfx(n), pos |-> 0]
  ELSE LET k == kind[n] IN
    CASE k \in ElemK -> [ax |-> "child", k |-> "elem", ns |-> NsOf(k), nm |-> LocalOf(k), pos |-> PosOf(n)]
      [] k \in AttrK -> [ax |-> "attribute", k |-> "attr", ns |-> NsOf(k), nm |-> LocalOf(k), pos |-> 0]
      [] k \in PIK   -> [ax |-> "child", k |-> "pi", ns |-> "", nm |-> TargetOf(k), pos |-> PosOf(n)]
      [] k \in TextK -> [ax |-> "child", k |-> "text", ns |-> "", nm |-> "", pos |-> PosOf(n)]
      [] k = "c"     -> [ax |-> "child", k |-> "comment", ns |-> "", nm |-> "", pos |-> PosOf(n)]

RECURSIVE StepsTo(_)
StepsTo(n) == IF n = 0 THEN <<>> ELSE StepsTo(ParentX(n)) \o <<StepOf(n)>>

NA == [start |-> "none", steps |-> <<>>]
FnPath(n)  == IF HasDocX THEN [start |-> "/", steps |-> StepsTo(n)]
              ELSE [start |-> "root()", steps |-> Tail(StepsTo(n))]
DocPath(n) == [start |-> "/", steps |-> StepsTo(n)]
UnderRoot(n) == RootCfg \notin {"R4", "R5"} /\ n # 0 /\ TopAnc(n) = RootElem
RelPath(n)  == IF UnderRoot(n) THEN [start |-> ".", steps |-> Tail(StepsTo(n))] ELSE NA
BarePath(n) == IF UnderRoot(n) /\ n # RootElem   \* etree_iter_paths(root, ""): relative, no leading "./"
              THEN [start |-> "", steps |-> Tail(StepsTo(n))] ELSE NA
FragPath(n) == IF RootCfg = "R3" /\ n # 1    \* "/" alone is the caller's argument, and undefined for a parentless root
              THEN [start |-> "/", steps |-> Tail(StepsTo(n))] ELSE NA

(* lexical form: sequences of string pieces *)
StepText(st) ==
  CASE st.k = "elem"    -> <<"Q{", st.ns, "}", st.nm, "[", PosStr(st.pos), "]">>
    [] st.k = "attr"    -> IF st.ns = "" THEN <<"@", st.nm>> ELSE <<"@Q{", st.ns, "}", st.nm>>
    [] st.k = "text"    -> <<"text()", "[", PosStr(st.pos), "]">>
    [] st.k = "comment" -> <<"comment()", "[", PosStr(st.pos), "]">>
    [] st.k = "pi"      -> <<"processing-instruction(", st.nm, ")", "[", PosStr(st.pos), "]">>
    [] st.k = "ns"      -> IF st.nm # "" THEN <<"namespace::", st.nm>>
                           ELSE <<"namespace::*[Q{", FN, "}local-name()=\"\"]">>

RECURSIVE JoinSteps(_)
JoinSteps(s) == IF s = <<>> THEN <<>> ELSE <<"/">> \o StepText(Head(s)) \o JoinSteps(Tail(s))

Text(p) ==
  CASE p.start = "none"   -> <<>>
    [] p.start = "/"      -> IF p.steps = <<>> THEN <<"/">> ELSE JoinSteps(p.steps)
    [] p.start = "root()" -> <<"Q{", FN, "}root()">> \o JoinSteps(p.steps)
    [] p.start = "."      -> <<".">> \o JoinSteps(p.steps)
    [] p.start = ""       -> Tail(JoinSteps(p.steps))

Eval(p) == EvalSteps(StartSet(p.start), p.steps)

TextsOf(n, last) == [fn   |-> Text(FnPath(n)),  doc  |-> Text(DocPath(n)),
                     rel  |-> Text(RelPath(n)), frag |-> Text(FragPath(n)), bare |-> Text(BarePath(n)),
                     step |-> last]

---------------------------------------------------------------------------
(* Mechanism side *)
NameOfImpl(n) ==     \* XPathNode.name: Clark name of elements, target of PIs, None otherwise
  LET k == kind[n] IN
  IF k \in ElemK THEN <<NsOf(k), LocalOf(k)>> ELSE IF k \in PIK THEN <<"", TargetOf(k)>> ELSE <<"", "">>

ImplPos(n) ==        \* get_child_position before fix bbeb72e (kept as the negative model)
  IF kind[n] \in ElemK
    THEN Cardinality({m \in 1..N : m <= n /\ parent[m] = parent[n] /\ kind[m] \notin AttrK
                                    /\ NameOfImpl(m) = NameOfImpl(n)})
    ELSE Cardinality({m \in 1..N : m <= n /\ parent[m] = parent[n]
                                    /\ KindClass(kind[m]) = KindClass(kind[n])})
ImplStepOf(n) == IF IsNs(n) \/ kind[n] \in AttrK THEN StepOf(n) ELSE [StepOf(n) EXCEPT !.pos = ImplPos(n)]
RECURSIVE ImplStepsTo(_)
ImplStepsTo(n) == IF n = 0 THEN <<>> ELSE ImplStepsTo(ParentX(n)) \o <<ImplStepOf(n)>>

(* etree_iter_paths: one pass over the children of an element, a Counter    *)
(* keyed by tag for elements, a Counter keyed by target for PIs, one       *)
(* integer for comments.  Counter state after visiting child n:            *)
IterPos(n) ==
  LET before == {m \in 1..N : m <= n /\ parent[m] = parent[n] /\ kind[m] \notin AttrK} IN
  CASE kind[n] \in ElemK -> Cardinality({m \in before : kind[m] \in ElemK /\ NsOf(kind[m]) = NsOf(kind[n])
                                                       /\ LocalOf(kind[m]) = LocalOf(kind[n])})
    [] kind[n] \in PIK   -> Cardinality({m \in before : kind[m] \in PIK /\ TargetOf(kind[m]) = TargetOf(kind[n])})
    [] kind[n] = "c"     -> Cardinality({m \in before : kind[m] = "c"})
    [] OTHER             -> 0

---------------------------------------------------------------------------
(* State machine *)
Start == IF HasDocX THEN 0 ELSE 1

Init == /\ TreeInitX
        /\ cur = Start
        /\ txt = TextsOf(Start, <<>>)

Walk(st) == /\ Sel(cur, st) # {}
            /\ cur' \in Sel(cur, st)
            /\ txt' = TextsOf(cur', StepText(st))
            /\ UNCHANGED <<parent, kind, decl>>

StepUniverse ==
       {[ax |-> "child", k |-> "elem", ns |-> s, nm |-> l, pos |-> p] :
            s \in {"", "urn:n", "urn:d", XMLNS}, l \in {"a", "b"}, p \in 1..N}
  \cup {[ax |-> "child", k |-> kk, ns |-> "", nm |-> "", pos |-> p] : kk \in {"text", "comment"}, p \in 1..N}
  \cup {[ax |-> "child", k |-> "pi", ns |-> "", nm |-> tg, pos |-> p] : tg \in {"pi", "a"}, p \in 1..N}
  \cup {[ax |-> "attribute", k |-> "attr", ns |-> s, nm |-> "a", pos |-> 0] : s \in {"", "urn:n"}}
  \cup {[ax |-> "attribute", k |-> "attr", ns |-> XMLNS, nm |-> "lang", pos |-> 0]}
  \cup {[ax |-> "namespace", k |-> "ns", ns |-> "", nm |-> pf, pos |-> 0] : pf \in {"xml", "", "p", "q"}}

Next == \E st \in StepUniverse : Walk(st)

Spec == Init /\ [][Next]_vars

---------------------------------------------------------------------------
(* Invariants.  Every node of every tree is the `cur` of exactly one state   *)
(* (Covered: from each state, every child / attribute / namespace node is  *)
(* reached by its own definitional step), so the laws are stated for cur.  *)
TypeOK == cur \in RealNodes /\ txt = TextsOf(cur, txt.step)

Below(x) == {m \in RealNodes : m # 0 /\ ParentX(m) = x}
Covered == \A m \in Below(cur) : Sel(cur, StepOf(m)) = {m}

SoundFn   == Eval(FnPath(cur)) = {cur}
SoundDoc  == RootCfg # "R3" => Eval(DocPath(cur)) = {cur}
SoundRel  == UnderRoot(cur) => Eval(RelPath(cur)) = {cur}
SoundBare == BarePath(cur) # NA => Eval(BarePath(cur)) = {cur}
SoundFrag == (RootCfg = "R3" /\ cur # 1) => Eval(FragPath(cur)) = {cur}
FragmentNeedsRootFn == RootCfg = "R3" => Eval(DocPath(1)) # {1}

Injective ==
  \A m \in RealNodes : m # cur =>
     /\ Text(FnPath(m)) # Text(FnPath(cur))
     /\ Text(DocPath(m)) # Text(DocPath(cur))
     /\ (UnderRoot(m) /\ UnderRoot(cur)) => Text(RelPath(m)) # Text(RelPath(cur))

(* every step taken is the definitional step of the node reached, and the  *)
(* parent is where it was taken from: the walk IS the path                 *)
WalkIsPath == cur # Start => /\ txt.step = StepText(StepOf(cur))
                             /\ Sel(ParentX(cur), StepOf(cur)) = {cur}
HasBelow == cur = 0 \/ IsElemX(cur)     \* other nodes have empty child / attribute / namespace axes
StepSelectsOne == HasBelow => \A st \in StepUniverse : st.pos > 0 => Cardinality(Sel(cur, st)) <= 1

(* the numeric predicate [k] is the predicate "k" of XDM.tla where XDM.tla  *)
(* defines it (k = 1, 2)                                                    *)
PosIsXDMPredicate ==
  HasBelow => \A st \in StepUniverse : st.pos \in {1, 2} =>
     Sel(cur, st) = X!FilterSeq(StepSeqX(cur, [st EXCEPT !.pos = 0]), PosStr(st.pos))

(* namespace nodes as path subjects: the namespace nodes of an element are   *)
(* keyed by prefix -- exactly one per prefix of {xml} + the caller's map,    *)
(* also when that map names xml itself or binds two prefixes to one name -- *)
(* their paths are pairwise distinct and each selects exactly its node       *)
NsNodesLaw ==
  IsElemX(cur) =>
    LET S == AxisX("namespace", cur) IN
    /\ Cardinality(S) = Cardinality(PrefixesOf(decl))
    /\ Cardinality({m \in S : NsPfx(m) = "xml"}) = 1
    /\ \A m \in S : /\ Eval(FnPath(m)) = {m}
                    /\ Sel(cur, StepOf(m)) = {m}
                    /\ \A m2 \in S : m2 # m => Text(FnPath(m2)) # Text(FnPath(m))
    /\ decl = "pq" => \E m1, m2 \in S : m1 # m2 /\ NsUriOfPfx(NsPfx(m1)) = NsUriOfPfx(NsPfx(m2))

IterAgreesCur == (cur \in 1..N /\ kind[cur] \in ElemK \cup PIK \cup {"c"}) => IterPos(cur) = PosOf(cur)

Laws == /\ Covered /\ SoundFn /\ SoundDoc /\ SoundRel /\ SoundBare /\ SoundFrag /\ FragmentNeedsRootFn
        /\ Injective /\ WalkIsPath /\ StepSelectsOne /\ PosIsXDMPredicate /\ IterAgreesCur /\ NsNodesLaw

(* refuted on purpose in the "impl" configuration (get_child_position as    *)
(* written counts PIs of every target, and PIs named like the element)      *)
ImplSoundInv == Eval([start |-> "/", steps |-> ImplStepsTo(cur)]) = {cur}
=============================================================================
