----------------------------- MODULE Resources -----------------------------
(***************************************************************************)
(* Growth beyond the listed properties (DESIGN section 5): the available   *)
(* documents of the dynamic context as a resource map, and fn:doc /         *)
(* fn:doc-available / fn:document-uri / fn:root over it.                    *)
(*                                                                          *)
(* XPath 3.1 2.1.2 "available documents": a mapping of absolute URIs onto   *)
(* document nodes.  F&O 3.1 14.6.1 fn:doc: $uri is resolved against the     *)
(* static base URI; if the resulting absolute URI is a key of the mapping   *)
(* the document node is returned, otherwise FODC0002; the function is       *)
(* deterministic: doc("foo.xml") is doc("foo.xml") is always true, and two  *)
(* URIs that resolve to the same absolute URI give the same node.           *)
(* fn:doc-available is true exactly when fn:doc would return a node.        *)
(* document-uri(doc(u)) = the absolute u;  root(doc(u)//x) is doc(u).       *)
(* Document order between nodes of different documents is implementation    *)
(* dependent but TOTAL and stable (XDM 2.4): exactly one of a << b, b << a. *)
(*                                                                          *)
(* The machine is the life of a caller: it builds contexts by adding and    *)
(* removing documents (docs = the key set of the mapping given to the next  *)
(* evaluation) and asks questions; the same parsed expressions are reused   *)
(* across the contexts (the binding keeps ONE token per expression), so an  *)
(* answer cached from an earlier context would be seen.                     *)
(***************************************************************************)
EXTENDS Naturals, Sequences, FiniteSets

CONSTANTS Uris,        \* abstract document names, e.g. {"a", "b", "c"}
          MaxSteps,
          Part         \* "docs": documents and collections move, "texts": the available text resources move

VARIABLES docs, coll, dflt, texts, q, ans, steps
vars == <<docs, coll, dflt, texts, q, ans, steps>>

(* collections (XPath 3.1 2.1.2 "available collections" / "default collection"; F&O 14.6.3 fn:collection):   *)
(*   coll  the named collection http://h/d/c1: "undef" or the set of its documents (given in name order)    *)
(*   dflt  the default collection: "undef" or a set of documents                                            *)
(* collection(uri) of an unknown URI and collection() without a default raise FODC0002; the documents of a  *)
(* collection are the caller's document objects, so a document that is also an available document is the   *)
(* SAME node (is) and is not counted twice in a union.                                                      *)
Undef == {"#undef"}      \* a set, so that it compares with the other values
CollVals == {Undef} \cup SUBSET Uris

Spellings == {"abs", "rel", "dotdot"}     \* http://h/d/a.xml | a.xml | ../d/a.xml : all resolve to the same absolute URI
Forms == {"available", "doc", "same", "docuri", "rootback"}
PairForms == {"is", "ordered", "count"}
CollForms == {"ccount", "cnames", "cmissing", "dcount", "dempty"}
CollDocForms == {"cisdoc", "cunion"}

Missing == "FODC0002"

Answer(f, u) ==
  CASE f = "available" -> IF u \in docs THEN "true" ELSE "false"
    [] f = "doc"       -> IF u \in docs THEN u ELSE Missing            \* which document: its root element is named after it
    [] f = "same"      -> IF u \in docs THEN "true" ELSE Missing       \* doc(u) is doc(u'), two spellings
    [] f = "docuri"    -> IF u \in docs THEN u ELSE Missing            \* document-uri(doc(u)) denotes u
    [] f = "rootback"  -> IF u \in docs THEN "true" ELSE Missing       \* root(doc(u)//x) is doc(u)

PairAnswer(f, u, v) ==
  IF u \notin docs \/ v \notin docs THEN Missing
  ELSE CASE f = "is"      -> IF u = v THEN "true" ELSE "false"
         [] f = "ordered" -> IF u = v THEN "false" ELSE "true"         \* exactly one of u << v, v << u  (xor)
         [] f = "count"   -> IF u = v THEN "1" ELSE "2"                \* count((doc(u), doc(v), doc(u))/ * ): duplicates by identity

Card(S) == Cardinality(S)
CollAnswer(f) ==
  CASE f = "ccount"   -> IF coll = Undef THEN Missing ELSE <<"n", Card(coll)>>       \* count(collection("c1"))
    [] f = "cnames"   -> IF coll = Undef THEN Missing ELSE <<"set", coll>>           \* root element names of its documents
    [] f = "cmissing" -> Missing                                                      \* collection("c2"): never defined
    [] f = "dcount"   -> IF dflt = Undef THEN Missing ELSE <<"n", Card(dflt)>>       \* count(collection())
    [] f = "dempty"   -> IF dflt = Undef THEN Missing ELSE <<"n", Card(dflt)>>       \* count(collection(()))

CollDocAnswer(f, u) ==
  IF coll = Undef THEN Missing
  ELSE CASE f = "cisdoc" -> IF u \in coll THEN (IF u \in docs THEN "true" ELSE Missing)   \* collection("c1")[name(*) = u] is doc(u)
                            ELSE IF u \in docs THEN "empty"
                            ELSE "either"      \* empty left operand AND failing right operand: XPath 3.1 2.3.4 allows both outcomes
         [] f = "cunion" -> IF u \in docs THEN <<"n", Card(coll \cup {u})>> ELSE Missing   \* count(collection("c1") | doc(u))

(* available text resources (XPath 3.1 2.1.2; F&O 14.6.5-7): texts = the key set of the mapping.  fn:unparsed-text     *)
(* returns the text or raises FOUT1170; fn:unparsed-text-available is true exactly when it would return; the lines of  *)
(* a text are its content split at newlines, a final empty line dropped.  Content of text u = Content[u] in the binding *)
TextForms == {"tavail", "text", "tlines"}
NoText == <<"FOUT1170">>
TextAnswer(f, u) ==
  CASE f = "tavail" -> IF u \in texts THEN "true" ELSE "false"
    [] f = "text"   -> IF u \in texts THEN <<"content", u>> ELSE NoText
    [] f = "tlines" -> IF u \in texts THEN <<"lines", u>> ELSE NoText

Init == docs = {} /\ coll = Undef /\ dflt = Undef /\ texts = {} /\ q = <<"init">> /\ ans = "none" /\ steps = 0

Add(u)    == /\ u \notin docs /\ docs' = docs \cup {u} /\ q' = <<"add", u>> /\ ans' = "none" /\ UNCHANGED <<coll, dflt, texts>>
Remove(u) == /\ u \in docs    /\ docs' = docs \ {u}    /\ q' = <<"remove", u>> /\ ans' = "none" /\ UNCHANGED <<coll, dflt, texts>>
SetColl(c)    == /\ c # coll /\ coll' = c /\ q' = <<"setcoll">> /\ ans' = "none" /\ UNCHANGED <<docs, dflt, texts>>
SetDefault(c) == /\ c # dflt /\ dflt' = c /\ q' = <<"setdefault">> /\ ans' = "none" /\ UNCHANGED <<docs, coll, texts>>
Ask(f, sp, u)     == /\ UNCHANGED <<docs, coll, dflt, texts>> /\ q' = <<"ask", f, sp, u>>     /\ ans' = Answer(f, u)
AskPair(f, u, v)  == /\ UNCHANGED <<docs, coll, dflt, texts>> /\ q' = <<"pair", f, u, v>>     /\ ans' = PairAnswer(f, u, v)

AskColl(f)       == /\ UNCHANGED <<docs, coll, dflt, texts>> /\ q' = <<"coll", f>>       /\ ans' = CollAnswer(f)
AskCollDoc(f, u) == /\ UNCHANGED <<docs, coll, dflt, texts>> /\ q' = <<"colldoc", f, u>> /\ ans' = CollDocAnswer(f, u)

AddText(u)    == /\ u \notin texts /\ texts' = texts \cup {u} /\ q' = <<"addtext", u>> /\ ans' = "none" /\ UNCHANGED <<docs, coll, dflt>>
RemoveText(u) == /\ u \in texts    /\ texts' = texts \ {u}    /\ q' = <<"removetext", u>> /\ ans' = "none" /\ UNCHANGED <<docs, coll, dflt>>
AskText(f, sp, u) == /\ UNCHANGED <<docs, coll, dflt, texts>> /\ q' = <<"text", f, sp, u>> /\ ans' = TextAnswer(f, u)

Next == /\ steps < MaxSteps /\ steps' = steps + 1
        /\ IF Part = "docs"
           THEN \/ \E u \in Uris : Add(u) \/ Remove(u)
                \/ \E f \in Forms, sp \in Spellings, u \in Uris : Ask(f, sp, u)
                \/ \E f \in PairForms, u \in Uris, v \in Uris : AskPair(f, u, v)
                \/ \E c \in CollVals : SetColl(c) \/ SetDefault(c)
                \/ \E f \in CollForms : AskColl(f)
                \/ \E f \in CollDocForms, u \in Uris : AskCollDoc(f, u)
           ELSE \/ \E u \in Uris : AddText(u) \/ RemoveText(u)
                \/ \E f \in TextForms, sp \in Spellings, u \in Uris : AskText(f, sp, u)
Spec == Init /\ [][Next]_vars

---------------------------------------------------------------------------
TypeOK == docs \subseteq Uris /\ steps \in 0..MaxSteps /\ coll \in CollVals /\ dflt \in CollVals /\ texts \subseteq Uris

(* unparsed-text-available is true exactly when unparsed-text returns *)
InvTextAvailable == \A u \in Uris : (TextAnswer("tavail", u) = "true") = (TextAnswer("text", u) # NoText)

(* a union with an available document never counts a node twice *)
InvUnion == \A u \in docs : coll # Undef => CollDocAnswer("cunion", u) = <<"n", Card(coll) + (IF u \in coll THEN 0 ELSE 1)>>

(* doc-available is true exactly when doc returns a node *)
InvAvailable == \A u \in Uris : (Answer("available", u) = "true") = (Answer("doc", u) # Missing)
(* determinism / identity *)
InvIdentity == \A u, v \in docs : (PairAnswer("is", u, v) = "true") = (u = v)
(* a total order between different documents, none with itself *)
InvOrder == \A u, v \in docs : (PairAnswer("ordered", u, v) = "true") = (u # v)
(* the answer to a question depends on the current mapping only *)
InvNoHistory == q[1] = "ask" => ans = Answer(q[2], q[4])
=============================================================================
