----------------------------- MODULE Resources -----------------------------
(***************************************************************************)
(* Growth beyond the listed properties (DESIGN section 5): the available   *)
(* documents of the dynamic context as a resource map, and fn:doc /         *)
(* fn:doc-available / fn:document-uri / fn:root over it.                    *)
(*                                                                          *)
(* XPath 3.1 2.1.2 "available documents": a mapping of absolute URIs onto   *)
(* document nodes.  F&O 3.1 14.6.1 fn:doc: $uri is resolved against the     *)
(* static base URI; if the resulting absolute URI is a key of the mapping   *)
(* the document node is returned, otherwise FODC0002; the function is       *)
(* deterministic: doc("foo.xml") is doc("foo.xml") is always true, and two  *)
(* URIs that resolve to the same absolute URI give the same node.           *)
(* fn:doc-available is true exactly when fn:doc would return a node.        *)
(* document-uri(doc(u)) = the absolute u;  root(doc(u)//x) is doc(u).       *)
(* Document order between nodes of different documents is implementation    *)
(* dependent but TOTAL and stable (XDM 2.4): exactly one of a << b, b << a. *)
(*                                                                          *)
(* The machine is the life of a caller: it builds contexts by adding and    *)
(* removing documents (docs = the key set of the mapping given to the next  *)
(* evaluation) and asks questions; the same parsed expressions are reused   *)
(* across the contexts (the binding keeps ONE token per expression), so an  *)
(* answer cached from an earlier context would be seen.                     *)
(***************************************************************************)
EXTENDS Naturals, Sequences, FiniteSets

CONSTANTS Uris,        \* abstract document names, e.g. {"a", "b", "c"}
          MaxSteps

VARIABLES docs, q, ans, steps
vars == <<docs, q, ans, steps>>

Spellings == {"abs", "rel", "dotdot"}     \* http://h/d/a.xml | a.xml | ../d/a.xml : all resolve to the same absolute URI
Forms == {"available", "doc", "same", "docuri", "rootback"}
PairForms == {"is", "ordered", "count"}

Missing == "FODC0002"

Answer(f, u) ==
  CASE f = "available" -> IF u \in docs THEN "true" ELSE "false"
    [] f = "doc"       -> IF u \in docs THEN u ELSE Missing            \* which document: its root element is named after it
    [] f = "same"      -> IF u \in docs THEN "true" ELSE Missing       \* doc(u) is doc(u'), two spellings
    [] f = "docuri"    -> IF u \in docs THEN u ELSE Missing            \* document-uri(doc(u)) denotes u
    [] f = "rootback"  -> IF u \in docs THEN "true" ELSE Missing       \* root(doc(u)//x) is doc(u)

PairAnswer(f, u, v) ==
  IF u \notin docs \/ v \notin docs THEN Missing
  ELSE CASE f = "is"      -> IF u = v THEN "true" ELSE "false"
         [] f = "ordered" -> IF u = v THEN "false" ELSE "true"         \* exactly one of u << v, v << u  (xor)
         [] f = "count"   -> IF u = v THEN "1" ELSE "2"                \* count((doc(u), doc(v), doc(u))/ * ): duplicates by identity

Init == docs = {} /\ q = <<"init">> /\ ans = "none" /\ steps = 0

Add(u)    == /\ u \notin docs /\ docs' = docs \cup {u} /\ q' = <<"add", u>> /\ ans' = "none"
Remove(u) == /\ u \in docs    /\ docs' = docs \ {u}    /\ q' = <<"remove", u>> /\ ans' = "none"
Ask(f, sp, u)     == /\ UNCHANGED docs /\ q' = <<"ask", f, sp, u>>     /\ ans' = Answer(f, u)
AskPair(f, u, v)  == /\ UNCHANGED docs /\ q' = <<"pair", f, u, v>>     /\ ans' = PairAnswer(f, u, v)

Next == /\ steps < MaxSteps /\ steps' = steps + 1
        /\ \/ \E u \in Uris : Add(u) \/ Remove(u)
           \/ \E f \in Forms, sp \in Spellings, u \in Uris : Ask(f, sp, u)
           \/ \E f \in PairForms, u \in Uris, v \in Uris : AskPair(f, u, v)
Spec == Init /\ [][Next]_vars

---------------------------------------------------------------------------
TypeOK == docs \subseteq Uris /\ steps \in 0..MaxSteps

(* doc-available is true exactly when doc returns a node *)
InvAvailable == \A u \in Uris : (Answer("available", u) = "true") = (Answer("doc", u) # Missing)
(* determinism / identity *)
InvIdentity == \A u, v \in docs : (PairAnswer("is", u, v) = "true") = (u = v)
(* a total order between different documents, none with itself *)
InvOrder == \A u, v \in docs : (PairAnswer("ordered", u, v) = "true") = (u # v)
(* the answer to a question depends on the current mapping only *)
InvNoHistory == q[1] = "ask" => ans = Answer(q[2], q[4])
=============================================================================
