----------------------------- MODULE RegexSyntax -----------------------------
(***************************************************************************)
(* Recogniser of VALID regular-expression texts over a token alphabet of   *)
(* metacharacters (property C12: "every invalid pattern raises             *)
(* RegexError -- FORX0002 through the XPath functions").                   *)
(* State: the token string built so far (one token appended per step) and  *)
(* the verdict of the grammar on it:                                       *)
(*   valid   the string is derivable from `regExp` of XSD Part 2 (F.1 /    *)
(*           G.1) as extended by F&O 5.6.1 for Mode "xp2" / "xp3"          *)
(*   why     "ok", or the first rule that fails: "badesc" (not an XSD       *)
(*           escape), "grammar", "classdash" (derivable only if an         *)
(*           unescaped '-' may stand anywhere in a class), "escrange" (the  *)
(*           same, and a multi-character escape stands where a range end   *)
(*           point is expected: x-\d), "ncg" (derivable                    *)
(*           only with the non-capturing groups of XPath 3.0), "backref"   *)
(*   unsure  the verdict depends on rules this module leaves out (position *)
(*           of an unescaped '-' in a class under XSD 1.1): no vector      *)
(*   qsub    the set of contiguous sub-strings of the token string: with   *)
(*           flag q the pattern is a literal, matches(u, p, 'q') <=> p is  *)
(*           a sub-string of u                                             *)
(* Grammar (positions are indexes BETWEEN tokens, 0..Len(toks)):           *)
(*   regExp ::= branch ('|' branch)*      branch ::= piece*                *)
(*   piece  ::= atom quantifier?          quantifier ::= ? * + {n} {n,m} {n,} *)
(*              (xp: quantifier '?' = reluctant)                           *)
(*   atom   ::= NormalChar | '.' | escape | charClassExpr | '(' regExp ')' *)
(*              (xp: '^' '$' ; back-reference \N to a CLOSED group;        *)
(*               xp3: '(?:' regExp ')')                                    *)
(*   charClassExpr ::= '[' '^'? part+ ('-' charClassExpr)? ']'             *)
(*   part   ::= single | single '-' single (lo <= hi) | multi-char escape  *)
(*   XSD 1.0: an unescaped '-' is a single only as the first or the last   *)
(*            part of the group and never a range end point.               *)
(* Inside a class every character except \ [ ] - is an ordinary character. *)
(***************************************************************************)
(* Token names: TLC cfg files do not unescape strings, so the backslash of an escape is written  *)
(* '%' in token names ("%d" is the text \d); every other token is its own text.               *)
EXTENDS Naturals, Sequences, FiniteSets, TLC

CONSTANTS Tokens,      \* subset of AllTokens
          First,       \* tokens allowed as the first token (a way to focus a run, e.g. {"["})
          MaxToks,
          Mode,        \* "xsd" | "xp2" | "xp3"
          XsdVersion   \* "1.0" | "1.1"

AllTokens == {"a", "-", "^", "$", ".", "*", "?", "+", "{2}", "{1,2}", "{2,1}", "{1,}", "{,2}",
              "}", "%0", "{10}", "{2,10}", "{9,10}", "{10,2}", "{10,9}", "{12,}", "{3,12}", "{7,100}", "{100,7}", "{0,0}", "{11,11}",
              "(", ")", "(?:", "|", "[", "]", "%d", "%-", "%n", "%p{L}", "%1", "%e", "%f"}
ASSUME Tokens \subseteq AllTokens /\ First \subseteq Tokens

VARIABLES toks, valid, why, unsure, qsub
vars == <<toks, valid, why, unsure, qsub>>

(* {n} {n,m} {n,} with their bounds; UNB = no upper bound.  XSD Part 2 F.1 [4]-[8]: in {n,m} "n must be
   less than or equal to m" -- compared as NUMBERS ({2,10} and {9,10} are valid, {10,2} and {10,9} are not) *)
UNB == 1000000
Braces == {"{2}", "{1,2}", "{2,1}", "{1,}", "{,2}", "{10}", "{2,10}", "{9,10}", "{10,2}", "{10,9}", "{12,}", "{3,12}",
           "{7,100}", "{100,7}", "{0,0}", "{11,11}"}
Bounds(t) == CASE t = "{2}" -> <<2, 2>> [] t = "{1,2}" -> <<1, 2>> [] t = "{2,1}" -> <<2, 1>> [] t = "{1,}" -> <<1, UNB>>
               [] t = "{10}" -> <<10, 10>> [] t = "{2,10}" -> <<2, 10>> [] t = "{9,10}" -> <<9, 10>>
               [] t = "{10,2}" -> <<10, 2>> [] t = "{10,9}" -> <<10, 9>> [] t = "{12,}" -> <<12, UNB>>
               [] t = "{3,12}" -> <<3, 12>> [] t = "{7,100}" -> <<7, 100>> [] t = "{100,7}" -> <<100, 7>>
               [] t = "{0,0}" -> <<0, 0>> [] t = "{11,11}" -> <<11, 11>>
WellFormedBrace(t) == t \in Braces \ {"{,2}"}            \* "{,2}" has no lower bound: not in the grammar
QuantToks == {"*", "?", "+"} \cup {t \in Braces : WellFormedBrace(t) /\ Bounds(t)[1] <= Bounds(t)[2]}
SingleEsc == {"%-", "%n"}
MultiEsc  == {"%d", "%p{L}"}
BadEsc    == {"%e", "%f", "%0"}                               \* not an XSD escape
Xp        == Mode # "xsd"

(* code point of the first / last character of a token that is made of ordinary class characters *)
OrdFirst(t) == CASE t = "a" -> 97 [] t = "^" -> 94 [] t = "$" -> 36 [] t = "." -> 46 [] t = "*" -> 42
                 [] t = "?" -> 63 [] t = "+" -> 43 [] t = "(" -> 40 [] t = ")" -> 41 [] t = "|" -> 124
                 [] t = "(?:" -> 40 [] t \in Braces -> 123
                 [] t = "%-" -> 45 [] t = "%n" -> 10 [] t = "-" -> 45 [] t = "}" -> 125
OrdLast(t)  == CASE t = "(?:" -> 58 [] t \in Braces -> 125
                 [] OTHER -> OrdFirst(t)
PlainInClass == {"a", "^", "$", ".", "*", "?", "+", "(", ")", "|", "(?:", "}"} \cup Braces

(* the grammar, parameterised by the token string w and by options opt:
   opt.strict = XSD 1.0 hyphen rules, opt.ncg = non-capturing groups "(?:" exist *)
Tok(w, p) == IF p >= 1 /\ p <= Len(w) THEN w[p] ELSE "<end>"

RECURSIVE RegExp(_, _, _), Branch(_, _, _), Atom(_, _, _), CharClass(_, _, _), Group(_, _, _, _)

Quant(w, j) ==
  {j} \cup (IF Tok(w, j + 1) \in QuantToks
            THEN {j + 1} \cup (IF Xp /\ Tok(w, j + 2) = "?" THEN {j + 2} ELSE {})
            ELSE {})

Atom(w, i, opt) ==
  LET t == Tok(w, i + 1) IN
  CASE t \in {"a", "-", "."} \cup SingleEsc \cup MultiEsc -> {i + 1}
    [] t \in {"^", "$"} -> {i + 1}          \* xsd: ordinary characters; xp: anchors (quantifiable atoms)
    [] t = "%1" -> IF Xp THEN {i + 1} ELSE {}
    [] t = "[" -> CharClass(w, i, opt)
    [] t = "(" \/ (t = "(?:" /\ opt.ncg) ->
         {j + 1 : j \in {e \in RegExp(w, i + 1, opt) : Tok(w, e + 1) = ")"}}
    [] OTHER -> {}

Branch(w, i, opt) ==
  {i} \cup UNION {Branch(w, q, opt) : q \in UNION {Quant(w, j) : j \in Atom(w, i, opt)}}

RegExp(w, i, opt) ==
  LET b == Branch(w, i, opt) IN
  b \cup UNION {RegExp(w, j + 1, opt) : j \in {e \in b : Tok(w, e + 1) = "|"}}

IsEndPoint(t, opt) == t \in PlainInClass \cup SingleEsc \cup (IF opt.strict THEN {} ELSE {"-"})

(* positions after ONE part starting at p *)
Part(w, p, first, opt) ==
  LET t == Tok(w, p + 1)
      lastHere == Tok(w, p + 2) = "]" \/ (Tok(w, p + 2) = "-" /\ Tok(w, p + 3) = "[")
  IN (IF t \in PlainInClass \cup SingleEsc \cup MultiEsc THEN {p + 1} ELSE {})
     \cup (IF t = "-" /\ (~opt.strict \/ first \/ lastHere) THEN {p + 1} ELSE {})
     \cup (IF /\ IsEndPoint(t, opt) /\ Tok(w, p + 2) = "-" /\ IsEndPoint(Tok(w, p + 3), opt)
              /\ OrdLast(t) <= OrdFirst(Tok(w, p + 3))
           THEN {p + 3} ELSE {})

Group(w, p, first, opt) ==
  UNION {{e} \cup Group(w, e, FALSE, opt) : e \in Part(w, p, first, opt)}

CharClass(w, i, opt) ==
  IF Tok(w, i + 1) # "[" THEN {}
  ELSE LET p == IF Tok(w, i + 2) = "^" THEN i + 2 ELSE i + 1
           ends == Group(w, p, TRUE, opt)
       IN {q + 1 : q \in {e \in ends : Tok(w, e + 1) = "]"}}
          \cup {x + 1 : x \in UNION {{e \in CharClass(w, q + 1, opt) : Tok(w, e + 1) = "]"}
                                       : q \in {e \in ends : Tok(w, e + 1) = "-" /\ Tok(w, e + 2) = "["}}}

(* nesting depth of class brackets after the first p tokens (only meaningful for derivable strings) *)
RECURSIVE ClsDepth(_, _)
ClsDepth(w, p) == IF p = 0 THEN 0
                  ELSE LET d == ClsDepth(w, p - 1) IN
                       IF w[p] = "[" THEN d + 1 ELSE IF w[p] = "]" /\ d > 0 THEN d - 1 ELSE d

(* F&O 5.6.1: a back-reference is an error unless the group it refers to is closed before it *)
BackrefOK(w, opt) ==
  \A p \in 1..Len(w) :
     (w[p] = "%1" /\ ClsDepth(w, p - 1) = 0) =>
        \E o \in 1..(p - 1) :
           /\ w[o] = "(" /\ ClsDepth(w, o - 1) = 0
           /\ \A o2 \in 1..(o - 1) : ~(w[o2] = "(" /\ ClsDepth(w, o2 - 1) = 0)
           /\ \E c \in (o + 1)..(p - 1) : w[c] = ")" /\ (c - 1) \in RegExp(w, o, opt)

NoBadEsc(w) == \A p \in 1..Len(w) : w[p] \notin BadEsc
NoBackrefInClass(w) == \A p \in 1..Len(w) : w[p] = "%1" => ClsDepth(w, p - 1) = 0

Derivable(w, opt) == Len(w) \in RegExp(w, 0, opt)
Valid(w, opt) == NoBadEsc(w) /\ NoBackrefInClass(w) /\ Derivable(w, opt) /\ BackrefOK(w, opt)

SubStrings(w) == {SubSeq(w, i, j) : i \in 1..(Len(w) + 1), j \in 0..Len(w)}

Strict  == [strict |-> TRUE,  ncg |-> Mode = "xp3"]
Relaxed == [strict |-> FALSE, ncg |-> Mode = "xp3"]
WithNcg == [strict |-> TRUE,  ncg |-> TRUE]

(* x-\d : a multi-character escape where the END point of a range is expected (invalid in XSD 1.0 and 1.1);
   x an ordinary character -- starts written as escapes stay with "classdash" *)
EscRangeEnd(w) == \E p \in 1..(Len(w) - 2) : /\ w[p] \in PlainInClass /\ w[p + 1] = "-"
                                              /\ w[p + 2] \in MultiEsc /\ ClsDepth(w, p - 1) > 0

Why(w) == IF ~NoBadEsc(w) THEN "badesc"
          ELSE IF ~NoBackrefInClass(w) THEN "grammar"
          ELSE IF ~Derivable(w, Strict) THEN (IF Derivable(w, WithNcg) THEN "ncg"
                                             ELSE IF Derivable(w, Relaxed)
                                                  THEN (IF EscRangeEnd(w) THEN "escrange" ELSE "classdash")
                                                  ELSE "grammar")
          ELSE IF ~BackrefOK(w, Strict) THEN "backref" ELSE "ok"

Set(w) == /\ toks' = w
          /\ valid' = Valid(w, Strict)
          /\ why' = Why(w)
          /\ unsure' = (XsdVersion = "1.1" /\ Valid(w, Strict) # Valid(w, Relaxed) /\ ~EscRangeEnd(w))
          /\ qsub' = SubStrings(w)

Init == toks = <<>> /\ valid = TRUE /\ why = "ok" /\ unsure = FALSE /\ qsub = {<<>>}

Push(t) == /\ Len(toks) < MaxToks
           /\ (toks = <<>> => t \in First)
           /\ Set(Append(toks, t))

Next == \E t \in Tokens : Push(t)
Spec == Init /\ [][Next]_vars

(* ---- laws ---------------------------------------------------------------- *)
(* the relaxed hyphen rules accept at least what the strict ones accept *)
StrictImpliesRelaxed == valid => Valid(toks, Relaxed)
(* a valid expression stays valid inside a group, as an alternative, and as a branch repeated twice *)
HasRef == \E p \in 1..Len(toks) : toks[p] = "%1"
ClosureLaw ==
   /\ (valid /\ ~HasRef) => Valid(<<"(">> \o toks \o <<")">>, Strict)
   /\ valid => /\ Valid(toks \o <<"|">>, Strict)
               /\ Valid(<<"|">> \o toks, Strict)
               /\ Valid(toks \o <<"a">>, Strict)
(* what can never be valid *)
NeverValid ==
   /\ (toks # <<>> /\ toks[1] \in QuantToks \cup {")", "]"} \cup Braces) => ~valid
   /\ (\E p \in 1..Len(toks) : toks[p] \in Braces \ QuantToks /\ ClsDepth(toks, p - 1) = 0) => ~valid
   /\ (toks # <<>> /\ toks[Len(toks)] \in {"(", "(?:", "["}) => ~valid
   /\ (Cardinality({p \in 1..Len(toks) : toks[p] \in {"(", "(?:"} /\ ClsDepth(toks, p - 1) = 0})
         # Cardinality({p \in 1..Len(toks) : toks[p] = ")" /\ ClsDepth(toks, p - 1) = 0})) => ~valid
   /\ (Mode = "xsd" /\ \E p \in 1..Len(toks) : toks[p] \in {"%1", "(?:"} /\ ClsDepth(toks, p - 1) = 0) => ~valid
QLaw == toks \in qsub /\ <<>> \in qsub
WhyLaw == valid = (why = "ok")
Laws == StrictImpliesRelaxed /\ ClosureLaw /\ NeverValid /\ QLaw /\ WhyLaw
=============================================================================
