------------------------------ MODULE LazyCache ------------------------------
(***************************************************************************)
(* Property C19, part 3: process-wide caches that are filled at first use. *)
(*                                                                         *)
(* elementpath/regex/unicode_subsets.py lazy_subset(): the subsets of the  *)
(* multi-character escapes \s \d \i \c \w live in the module dictionary    *)
(* __subsets_cache and are built by the first thread that needs them       *)
(* (building \w takes tens of milliseconds).  The same shape have the      *)
(* Unicode blocks ('NoBlock'), the installed category tables and the       *)
(* class-level tokenizer / symbol table of the parsers.                    *)
(*                                                                         *)
(*   cache   what the shared dictionary holds: "absent" | "partial" (an    *)
(*           object that is not completely filled yet) | "ready"           *)
(*   pc[t]   idle -> (hit: done) | miss -> built -> done        (property) *)
(*                              miss -> filling -> done         (pinned)   *)
(*   got[t]  what thread t works with: "none" | "partial" | "full"         *)
(* Variant = "property": the value is built privately and published when   *)
(*   it is finished (several threads may build it: that is idempotent).    *)
(* Variant = "pinned":   the deviation PublishEmpty - the (empty) object   *)
(*   is put into the dictionary first (setdefault) and filled afterwards:  *)
(*   a thread that looks it up meanwhile works with a partial value.       *)
(* "Independent Selector objects evaluated concurrently from several       *)
(* threads return the same results as when evaluated sequentially" needs   *)
(* ReadsFinished.                                                          *)
(***************************************************************************)
EXTENDS Naturals, FiniteSets, TLC

CONSTANTS Threads, Variant

VARIABLES cache, pc, got
vars == <<cache, pc, got>>

Init == /\ cache = "absent"
        /\ pc = [t \in Threads |-> "idle"]
        /\ got = [t \in Threads |-> "none"]

Lookup(t) ==
  /\ pc[t] = "idle"
  /\ IF cache = "absent"
     THEN pc' = [pc EXCEPT ![t] = "miss"] /\ UNCHANGED <<cache, got>>
     ELSE /\ got' = [got EXCEPT ![t] = IF cache = "ready" THEN "full" ELSE "partial"]
          /\ pc' = [pc EXCEPT ![t] = "done"] /\ UNCHANGED cache

Build(t) ==          \* property: func() runs, nothing is visible to the others
  /\ Variant = "property" /\ pc[t] = "miss"
  /\ pc' = [pc EXCEPT ![t] = "built"] /\ UNCHANGED <<cache, got>>

Publish(t) ==        \* property: __subsets_cache[func] = <the finished subset>
  /\ pc[t] = "built"
  /\ cache' = "ready" /\ got' = [got EXCEPT ![t] = "full"] /\ pc' = [pc EXCEPT ![t] = "done"]

PublishEmpty(t) ==   \* DEVIATION: setdefault(func, UnicodeSubset()) before func() has run
  /\ Variant = "pinned" /\ pc[t] = "miss"
  /\ cache' = IF cache = "ready" THEN "ready" ELSE "partial"
  /\ pc' = [pc EXCEPT ![t] = "filling"] /\ UNCHANGED got

Fill(t) ==           \* subset |= func()
  /\ pc[t] = "filling"
  /\ cache' = "ready" /\ got' = [got EXCEPT ![t] = "full"] /\ pc' = [pc EXCEPT ![t] = "done"]

Next == \/ \E t \in Threads : Lookup(t)
        \/ \E t \in Threads : Build(t)
        \/ \E t \in Threads : Publish(t)
        \/ \E t \in Threads : PublishEmpty(t)
        \/ \E t \in Threads : Fill(t)

Spec == Init /\ [][Next]_vars

TypeOK == /\ cache \in {"absent", "partial", "ready"}
          /\ \A t \in Threads : pc[t] \in {"idle", "miss", "built", "filling", "done"}
          /\ \A t \in Threads : got[t] \in {"none", "partial", "full"}
(* a reader never works with a value other than the finished one *)
ReadsFinished == \A t \in Threads : got[t] # "partial"
(* once somebody is through, the cache holds the finished value *)
DoneMeansReady == (\E t \in Threads : pc[t] = "done" /\ got[t] = "full") => cache = "ready"
(* the race window of the model: somebody builds while the dictionary has no finished value *)
Window == \E t \in Threads : pc[t] \in {"miss", "built", "filling"} /\ cache # "ready"
=============================================================================
