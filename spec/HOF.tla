-------------------------------- MODULE HOF --------------------------------
(***************************************************************************)
(* Property C16, part 2: the higher-order functions of F&O 3.1 equal their *)
(* definitional expansions (FnEval: ForEach, Filter, FoldL, FoldR,         *)
(* ForEachPair, Apply, SortBy) for every function item passed to them:     *)
(* inline functions, closures with captured variables, closures whose body *)
(* itself calls a higher-order function, partial applications, named       *)
(* references.  VALUE-STATE MACHINE like Numeric.tla: the state is an      *)
(* accumulator sequence, each action applies one higher-order function to  *)
(* it; behaviours are chains  sort(for-each(filter(S, p), f), (), key).    *)
(*                                                                         *)
(* The function arguments are closed EXPRESSIONS of the FnEval language    *)
(* (catalog Fn); the binding renders them 1:1.  States holding anything    *)
(* but integers (string / double results) are terminal.                    *)
(* Sibling machines for fn:sort: SpecMixed, SpecColl, SpecTies and         *)
(* SpecSpecial (numbers of different types with -INF, INF, NaN).           *)
(* Not modelled: keys that are sequences, function items as sequence       *)
(* members.                                                                *)
(***************************************************************************)
EXTENDS FnEval

CONSTANTS MaxDepth,     \* chain length + 1 (guard on the TLC level)
          MaxLen,       \* initial sequences: every sequence over Universe up to this length
          UniverseName, \* "u4" | "u6": the small integers the initial sequences are made of
          Big           \* BOOLEAN: the larger catalog

VARIABLE acc
vars == <<acc>>
Universe == CASE UniverseName = "u4" -> {-1, 1, 2, 3}
              [] UniverseName = "u6" -> {-2, -1, 0, 1, 2, 3}

---------------------------------------------------------------------------
(* catalog of function-valued expressions *)
X == Var("x")
A == Var("a")
Bv == Var("b")
Y0 == Var("y")
Fn(name) ==
  CASE name = "dbl" -> Fun("H1", <<"x">>, Op("*", X, Lit(2)))
    [] name = "addk" -> Let("k", Lit(10), Fun("H2", <<"x">>, Op("+", X, Var("k"))))      \* captured variable
    [] name = "dup" -> Fun("H3", <<"x">>, Cat(X, Op("+", X, Lit(100))))                 \* two items per item
    [] name = "drop" -> Fun("H4", <<"x">>, If(Op("lt", X, Lit(2)), Nil, X))             \* sometimes no item
    [] name = "abs" -> Ref("abs", 1)
    [] name = "nestfold" ->                                                             \* body calls a HOF with a closure over $x
         Fun("H5", <<"x">>, SCall("S1", "fold-left", <<Lits(<<1, 2>>), X,
                                   Fun("H6", <<"a", "b">>, Op("+", Op("*", A, Bv), X))>>))
    [] name = "nesteach" ->                                                             \* inner function reuses the name $x
         Fun("H7", <<"x">>, Op("+", Index(SCall("S2", "for-each", <<Lits(<<1, 2>>),
                                   Fun("H8", <<"x">>, Op("*", X, Lit(10)))>>), 1), X))
    [] name = "p7" -> Call(Fun("H9", <<"x", "y">>, Op("+", Op("*", X, Lit(10)), Y0)), <<Lit(7), Hole>>)   \* partial application
    [] name = "powp" -> SCall("S3", "math:pow", <<Hole, Lit(2)>>)                       \* math:pow(?, 2)
    (* predicates *)
    [] name = "odd" -> Fun("P1", <<"x">>, Op("eq", Op("mod", X, Lit(2)), Lit(1)))
    [] name = "ltk" -> Let("k", Lit(2), Fun("P2", <<"x">>, Op("lt", X, Var("k"))))
    [] name = "any" -> Fun("P3", <<"x">>, Op("eq", X, X))
    [] name = "ltp" -> Call(Fun("P4", <<"x", "y">>, Op("lt", X, Y0)), <<Hole, Lit(2)>>)
    (* binary *)
    [] name = "sub" -> Fun("B1", <<"a", "b">>, Op("-", A, Bv))
    [] name = "shift" -> Fun("B2", <<"a", "b">>, Op("+", Op("*", A, Lit(10)), Bv))
    [] name = "snoc" -> Fun("B3", <<"a", "b">>, Cat(A, Bv))
    [] name = "cons" -> Fun("B4", <<"a", "b">>, Cat(Bv, A))
    [] name = "subk" -> Let("k", Lit(1), Fun("B5", <<"a", "b">>, Op("-", Op("-", A, Bv), Var("k"))))
    [] name = "pow" -> Ref("math:pow", 2)
    [] name = "concat2" -> Ref("concat", 2)
    (* keys *)
    [] name = "negate" -> Fun("K1", <<"x">>, Op("-", Lit(0), X))
    [] name = "mod2" -> Fun("K2", <<"x">>, Op("mod", X, Lit(2)))
    [] name = "const" -> Fun("K3", <<"x">>, Lit(0))
    [] name = "modk" -> Let("k", Lit(3), Fun("K4", <<"x">>, Op("mod", X, Var("k"))))
    (* keys that tell apart items that are EQUAL AS PYTHON VALUES but different XPath items *)
    [] name = "str" -> Fun("M1", <<"x">>, SCall("S4", "string", <<X>>))                  \* string($x)
    [] name = "isint" -> Fun("M2", <<"x">>, If(InstOf(X, "xs:integer"), Lit(1), Lit(0)))
    [] name = "isbool" -> Fun("M3", <<"x">>, InstOf(X, "xs:boolean"))                    \* a boolean key
    [] name = "tag" -> Fun("M4", <<"x">>, If(InstOf(X, "xs:integer"), Lit(1), If(InstOf(X, "xs:decimal"), Lit(2),
                                             If(InstOf(X, "xs:double"), Lit(3), Lit(4)))))
    (* the function argument is a static function CALL that returns the function item: head((abs#1, string#1)) *)
    [] name = "headabs" -> SCall("S7", "head", <<Cat(Ref("abs", 1), Ref("string", 1))>>)
    (* a predicate whose body is a let expression *)
    [] name = "letpred" -> Fun("P5", <<"x">>, Let("k", X, Op("lt", Var("k"), Lit(2))))
    (* maps and arrays used AS FUNCTIONS (3.1) *)
    [] name = "arr3" -> Arr(<<Lit(10), Lit(20), Lit(30)>>)
    [] name = "map3" -> MapLit(<<1, 2, 3>>, <<Lit(10), Lit(20), Lit(30)>>)
    [] name = "mapb" -> MapLit(<<1, 2, 3>>, <<BLit(TRUE), BLit(FALSE), BLit(TRUE)>>)
    (* keys that are EQUAL for distinguishable items: NaN, -0e0 / 0e0, the empty sequence, 1 / 1e0 *)
    [] name = "number1" -> Ref("number", 1)
    [] name = "nankey" -> Fun("T1", <<"x">>, NaNLit)
    [] name = "zerokey" -> Fun("T2", <<"x">>, If(Op("eq", SCall("S5", "string-length", <<X>>), Lit(1)), NZLit, DLit(0)))
    [] name = "emptykey" -> Fun("T3", <<"x">>, Nil)
    [] name = "xtype" -> Fun("T4", <<"x">>, If(Op("eq", SCall("S6", "string-length", <<X>>), Lit(1)), Lit(1), DLit(1)))
    (* keys for the collation machine *)
    [] name = "ident" -> Fun("C1", <<"x">>, X)
    [] name = "string1" -> Ref("string", 1)
    (* keys that send finite items to a SPECIAL xs:double: -INF for integers, INF for integers and decimals, NaN *)
    [] name = "ninfint" -> Fun("N1", <<"x">>, If(InstOf(X, "xs:integer"), InfLit(-1), X))
    [] name = "pinfdec" -> Fun("N2", <<"x">>, If(InstOf(X, "xs:decimal"), InfLit(1), X))
    [] name = "nanint" -> Fun("N3", <<"x">>, If(InstOf(X, "xs:integer"), NaNLit, X))
    (* other arities, for fn:apply *)
    [] name = "k7" -> Fun("A0", <<>>, Lit(7))
    [] name = "f3" -> Fun("A3", <<"a", "b", "c">>, Op("+", Op("*", Op("+", Op("*", A, Lit(10)), Bv), Lit(10)), Var("c")))
    [] name = "concat3" -> Ref("concat", 3)

Unary == {"dbl", "addk", "dup", "abs", "nestfold"} \cup (IF Big THEN {"drop", "nesteach", "p7", "powp", "arr3", "map3", "headabs"} ELSE {})
Preds == {"odd", "ltk"} \cup (IF Big THEN {"any", "ltp", "mapb", "letpred"} ELSE {})
NumBinary == {"sub", "shift"} \cup (IF Big THEN {"subk"} ELSE {})
SeqBinary == {"snoc", "cons"}
FoldNamed == {"concat2"}                  \* a NAMED function reference as the fold function (string result: terminal)
Binary == NumBinary \cup SeqBinary
PairOnly == {"pow", "concat2"}
Keys == {"none", "negate", "mod2", "abs"} \cup (IF Big THEN {"const", "modk"} ELSE {})
Zeros == {"0", "empty", "5", "pair"}
ZeroExpr(z) == CASE z = "0" -> Lit(0) [] z = "empty" -> Nil [] z = "5" -> Lit(5) [] z = "pair" -> Lits(<<5, 6>>)
Others == {<<>>, <<5>>, <<2, 0>>, <<1, 2, 3>>, <<3, 1, 2, 0>>}
ByArity(k) == CASE k = 0 -> {"k7"} [] k = 1 -> {"dbl", "abs", "arr3", "map3"} [] k = 2 -> {"sub", "pow"}
                [] k = 3 -> {"f3", "concat3"} [] OTHER -> {}

AllNames == Unary \cup Preds \cup Binary \cup PairOnly \cup Keys \cup {"k7", "f3", "concat3"}
(* the function items of the catalog, evaluated once (a constant: TLC caches it) *)
Names == {"dbl", "addk", "dup", "drop", "abs", "nestfold", "nesteach", "p7", "powp", "odd", "ltk", "any", "ltp",
          "sub", "shift", "snoc", "cons", "subk", "pow", "concat2", "negate", "mod2", "const", "modk",
          "k7", "f3", "concat3", "str", "isint", "isbool", "tag", "ident", "string1",
          "arr3", "map3", "mapb", "headabs", "letpred", "number1", "nankey", "zerokey", "emptykey", "xtype",
          "ninfint", "pinfdec", "nanint"}
FV == [name \in Names |-> Eval(Fn(name), EmptyEnv)[1]]
FnVal(name) == FV[name]
Ints(ns) == [j \in 1..Len(ns) |-> I(ns[j])]
(* chains of MaxDepth - 1 operations (the level of an initial state is 1); a guard in every action
   rather than a CONSTRAINT, because TLC evaluates invariants on states it discards for a constraint *)
Deeper == TLCGet("level") < MaxDepth
AllInts(v) == \A j \in 1..Len(v) : Has(v[j], "i")
Usable(v) == AllInts(v) /\ Len(v) <= 6 /\ \A j \in 1..Len(v) : AbsI(v[j].i) < 1000
NonNeg(v) == \A j \in 1..Len(v) : v[j].i >= 0 /\ v[j].i <= 3

Init == acc \in UNION {[1..k -> {I(u) : u \in Universe}] : k \in 0..MaxLen}

InRange(v) == \A j \in 1..Len(v) : v[j].i \in 1..3       \* valid indices of arr3 / keys of mapb
ForEachA(f) == /\ Deeper /\ Usable(acc) /\ f \in Unary
               /\ (f = "arr3" => InRange(acc))
               /\ acc' = ForEach(acc, FnVal(f))
FilterA(p) == /\ Deeper /\ Usable(acc) /\ p \in Preds
              /\ (p = "mapb" => InRange(acc))
              /\ acc' = Filter(acc, FnVal(p))
FoldLeftA(z, f) == /\ Deeper /\ Usable(acc) /\ f \in Binary \cup FoldNamed /\ z \in Zeros
                   /\ (f \in NumBinary => z \notin {"empty", "pair"}) /\ (f \in FoldNamed => z # "pair")
                   /\ acc' = FoldL(acc, Eval(ZeroExpr(z), EmptyEnv), FnVal(f))
FoldRightA(z, f) == /\ Deeper /\ Usable(acc) /\ f \in Binary \cup FoldNamed /\ z \in Zeros
                    /\ (f \in NumBinary => z \notin {"empty", "pair"}) /\ (f \in FoldNamed => z # "pair")
                    /\ acc' = FoldR(acc, Eval(ZeroExpr(z), EmptyEnv), FnVal(f))
PairA(o, f) == /\ Deeper /\ Usable(acc) /\ o \in Others /\ f \in Binary \cup PairOnly
               /\ (f = "pow" => NonNeg(Ints(o)) /\ \A j \in 1..Len(acc) : AbsI(acc[j].i) <= 5)
               /\ acc' = ForEachPair(acc, Ints(o), FnVal(f))
ApplyA(f) == /\ Deeper /\ Usable(acc) /\ f \in ByArity(Len(acc))
             /\ (f = "pow" => NonNeg(<<acc[2]>>) /\ AbsI(acc[1].i) <= 5)
             /\ (f = "arr3" => InRange(acc))
             /\ acc' = Apply(FnVal(f), [j \in 1..Len(acc) |-> <<acc[j]>>])
SortA(key) == /\ Deeper /\ Usable(acc) /\ key \in Keys
              /\ acc' = SortBy(acc, IF key = "none" THEN NoKey ELSE FnVal(key))

Step == \/ \E f \in AllNames : ForEachA(f)
        \/ \E p \in AllNames : FilterA(p)
        \/ \E z \in Zeros, f \in AllNames : FoldLeftA(z, f)
        \/ \E z \in Zeros, f \in AllNames : FoldRightA(z, f)
        \/ \E o \in Others, f \in AllNames : PairA(o, f)
        \/ \E f \in AllNames : ApplyA(f)
        \/ \E key \in AllNames : SortA(key)
Next == Step
Spec == Init /\ [][Next]_vars

---------------------------------------------------------------------------
(* LAWS (TLC invariants), stated for every function of the catalog *)
Ap1(f, x) == Apply(FnVal(f), << <<x>> >>)
Ap2(f, a, b) == Apply(FnVal(f), <<a, b>>)
Zv(z) == Eval(ZeroExpr(z), EmptyEnv)
OkZero(z, f) == (f \in NumBinary => z \notin {"empty", "pair"}) /\ (f \in FoldNamed => z # "pair")
Short == Usable(acc) /\ Len(acc) <= 3

(* fold-left(S, z, f) = f(f(f(z, s1), s2), s3);  fold-right(S, z, f) = f(s1, f(s2, f(s3, z))) *)
LawFoldUnrolled ==
  Short => \A f \in Binary \cup FoldNamed, z \in Zeros : OkZero(z, f) =>
    LET n == Len(acc)
        s(j) == <<acc[j]>>
        l1 == Ap2(f, Zv(z), s(1))
        l2 == Ap2(f, l1, s(2))
        l3 == Ap2(f, l2, s(3))
        r3 == Ap2(f, s(3), Zv(z))
        r2 == Ap2(f, s(2), IF n = 3 THEN r3 ELSE Zv(z))
        r1 == Ap2(f, s(1), IF n >= 2 THEN r2 ELSE Zv(z)) IN
    /\ FoldL(acc, Zv(z), FnVal(f)) = (CASE n = 0 -> Zv(z) [] n = 1 -> l1 [] n = 2 -> l2 [] n = 3 -> l3)
    /\ FoldR(acc, Zv(z), FnVal(f)) = (IF n = 0 THEN Zv(z) ELSE r1)
(* for-each and filter distribute over concatenation; filter keeps exactly the items satisfying p, in order *)
LawMapFilter ==
  (Usable(acc) /\ Len(acc) <= 4) => \A q \in 0..Len(acc) :
    LET s1 == SubSeq(acc, 1, q)
        s2 == SubSeq(acc, q + 1, Len(acc)) IN
    /\ \A f \in Unary : (f = "arr3" => InRange(acc)) =>
                            ForEach(acc, FnVal(f)) = ForEach(s1, FnVal(f)) \o ForEach(s2, FnVal(f))
    /\ \A p \in Preds : (p = "mapb" => InRange(acc)) =>
         /\ Filter(acc, FnVal(p)) = Filter(s1, FnVal(p)) \o Filter(s2, FnVal(p))
         /\ Len(Filter(acc, FnVal(p))) = Cardinality({j \in 1..Len(acc) : EBV(Ap1(p, acc[j]))})
         /\ \A j \in 1..Len(Filter(acc, FnVal(p))) : EBV(Ap1(p, Filter(acc, FnVal(p))[j]))
(* for-each-pair stops at the shorter sequence *)
LawPair ==
  (Usable(acc) /\ Len(acc) <= 4) => \A o \in Others, f \in Binary :
    LET m == MinI(Len(acc), Len(o)) IN
    /\ ForEachPair(acc, Ints(o), FnVal(f)) = ForEachPair(SubSeq(acc, 1, m), SubSeq(Ints(o), 1, m), FnVal(f))
    /\ (f \in NumBinary => Len(ForEachPair(acc, Ints(o), FnVal(f))) = m)
    /\ (m = 0 => ForEachPair(acc, Ints(o), FnVal(f)) = <<>>)
(* sort returns THE stable ordered permutation: the unique permutation p of the positions with keys
   non-decreasing and equal keys in their original order *)
KeyNum(x, key) == KeyVal(KeyOf(x, IF key = "none" THEN NoKey ELSE FnVal(key)))
IsSortPerm(p, key) ==
  \A i, j \in 1..Len(acc) : i < j =>
     \/ KeyNum(acc[p[i]], key) < KeyNum(acc[p[j]], key)
     \/ (KeyNum(acc[p[i]], key) = KeyNum(acc[p[j]], key) /\ p[i] < p[j])
LawSort ==
  (Usable(acc) /\ Len(acc) <= 4) => \A key \in Keys :
    LET ps == {p \in Permutations(1..Len(acc)) : IsSortPerm(p, key)}
        r == SortBy(acc, IF key = "none" THEN NoKey ELSE FnVal(key)) IN
    /\ Cardinality(ps) = 1
    /\ \A p \in ps : r = [i \in 1..Len(acc) |-> acc[p[i]]]
---------------------------------------------------------------------------
(* SECOND MACHINE (SpecMixed): fn:sort with a key function over items that are equal as numbers /  *)
(* as Python values but are DIFFERENT XPath items: 1, 1.0, 1e0, true(), 0, false().  The key of    *)
(* every item is the key function applied to THAT item (F&O 3.1 16.1: "the sort key of each item   *)
(* is computed by applying $key to the item"); same stability law.  Keys: the string value, two    *)
(* type tags, a boolean, a constant.                                                               *)
MixedItems == {I(0), I(1), C(1), D(1), B(TRUE), B(FALSE)}
MixedKeys == {"str", "isint", "isbool", "tag", "const"}
InitMixed == acc \in UNION {[1..k -> MixedItems] : k \in 0..MaxLen}
SortMixedA(key) == /\ Deeper /\ key \in MixedKeys
                   /\ acc' = SortBy(acc, FnVal(key))
NextMixed == \E key \in Names : SortMixedA(key)
SpecMixed == InitMixed /\ [][NextMixed]_vars
LawSortMixed ==
  Len(acc) <= 4 => \A key \in MixedKeys :
    LET ps == {p \in Permutations(1..Len(acc)) : IsSortPerm(p, key)}
        r == SortBy(acc, FnVal(key)) IN
    /\ Cardinality(ps) = 1
    /\ \A p \in ps : r = [i \in 1..Len(acc) |-> acc[p[i]]]
    /\ \A i \in 1..(Len(r) - 1) : KeyVal(KeyOf(r[i], FnVal(key))) <= KeyVal(KeyOf(r[i + 1], FnVal(key)))
(* the keys really separate the items: string() maps the six items onto "0", "1", "false", "true" *)
LawMixedKeys ==
  /\ Ap1("str", C(1)) = <<S("1")>> /\ Ap1("str", D(1)) = <<S("1")>> /\ Ap1("str", B(TRUE)) = <<S("true")>>
  /\ Ap1("isint", I(1)) = <<I(1)>> /\ Ap1("isint", C(1)) = <<I(0)>> /\ Ap1("isint", B(TRUE)) = <<I(0)>>
  /\ {Ap1("tag", x) : x \in MixedItems} = {<<I(1)>>, <<I(2)>>, <<I(3)>>, <<I(4)>>}
  /\ Ap1("isbool", B(FALSE)) = <<B(TRUE)>> /\ Ap1("isbool", I(0)) = <<B(FALSE)>>
LawsMixed == LawSortMixed /\ LawMixedKeys

---------------------------------------------------------------------------
(* THIRD MACHINE (SpecColl): the $collation argument of fn:sort, in the 2- and the 3-argument form.    *)
(* Items: the mixed-case strings "b", "A", "a", "B".  Collations (F&O 3.1 5.3.2 - 5.3.4):              *)
(*   "none"  the empty sequence / argument absent  -> default = Unicode codepoint collation            *)
(*   "cp"    .../collation/codepoint               A < B < a < b                                       *)
(*   "ci"    .../collation/html-ascii-case-insensitive   A = a < B = b; ties keep the input order      *)
(*   "bad"   an unsupported URI                    -> FOCH0002 (judged for two or more items only:     *)
(*           with less there is nothing to compare and raising is implementation-dependent)            *)
(* Keys: "nokey" (argument absent), the identity function, string#1.                                   *)
Words == {"b", "A", "a", "B"}
Colls == {"none", "cp", "ci", "bad"}
CollKeys == {"nokey", "ident", "string1"}
CpRank(x) == CASE x = "A" -> 0 [] x = "B" -> 1 [] x = "a" -> 2 [] x = "b" -> 3
CiRank(x) == CASE x \in {"A", "a"} -> 0 [] x \in {"B", "b"} -> 1
CollRank(coll, x) == IF coll = "ci" THEN CiRank(x) ELSE CpRank(x)
CKey(x, key) == StrOf(IF key = "nokey" THEN <<x>> ELSE Apply(FnVal(key), << <<x>> >>))
RECURSIVE InsertC(_, _, _, _), SortC(_, _, _)
InsertC(x, sorted, key, coll) ==
  IF sorted = <<>> THEN <<x>>
  ELSE IF CollRank(coll, CKey(Head(sorted), key)) <= CollRank(coll, CKey(x, key))
       THEN <<Head(sorted)>> \o InsertC(x, Tail(sorted), key, coll)
       ELSE <<x>> \o sorted
SortC(s, key, coll) == IF s = <<>> THEN <<>>
                       ELSE InsertC(s[Len(s)], SortC(SubSeq(s, 1, Len(s) - 1), key, coll), key, coll)
AllStr(v) == \A j \in 1..Len(v) : Has(v[j], "s")
InitColl == acc \in UNION {[1..k -> {S(w) : w \in Words}] : k \in 0..MaxLen}
SortCollA(coll, key) ==
  /\ Deeper /\ AllStr(acc) /\ coll \in Colls /\ key \in CollKeys
  /\ (coll = "bad" => Len(acc) >= 2)
  /\ acc' = IF coll = "bad" THEN <<[err |-> "FOCH0002"]>> ELSE SortC(acc, key, coll)
NextColl == \E coll \in Colls, key \in CollKeys : SortCollA(coll, key)
SpecColl == InitColl /\ [][NextColl]_vars
IsCollPerm(p, key, coll) ==
  \A i, j \in 1..Len(acc) : i < j =>
     \/ CollRank(coll, CKey(acc[p[i]], key)) < CollRank(coll, CKey(acc[p[j]], key))
     \/ (CollRank(coll, CKey(acc[p[i]], key)) = CollRank(coll, CKey(acc[p[j]], key)) /\ p[i] < p[j])
LawsColl ==
  (AllStr(acc) /\ Len(acc) <= 4) => \A coll \in {"none", "cp", "ci"}, key \in CollKeys :
    LET ps == {p \in Permutations(1..Len(acc)) : IsCollPerm(p, key, coll)}
        r == SortC(acc, key, coll) IN
    /\ Cardinality(ps) = 1                                   \* THE stable ordered permutation
    /\ \A p \in ps : r = [i \in 1..Len(acc) |-> acc[p[i]]]
    /\ r = SortC(acc, "nokey", coll)                         \* an identity key changes nothing
    /\ (coll = "none" => r = SortC(acc, key, "cp"))          \* the default collation is the codepoint collation
    /\ (coll = "ci" => \A i \in 1..(Len(r) - 1) : CiRank(r[i].s) <= CiRank(r[i + 1].s))

---------------------------------------------------------------------------
(* FOURTH MACHINE (SpecTies): stability of fn:sort on TIES: distinguishable items ("x", "y", "9", "10") *)
(* whose keys are equal: NaN (number#1 of a non-numeric string; NaN keys are equal to each other and    *)
(* sort first), -0e0 / 0e0, the empty sequence, 1 / 1e0.  Items with equal keys keep their input order. *)
TieItems == {S("x"), S("y"), S("9"), S("10")}
TieKeys == {"number1", "nankey", "zerokey", "emptykey", "xtype"}
InitTies == acc \in UNION {[1..k -> TieItems] : k \in 0..MaxLen}
SortTiesA(key) == /\ Deeper /\ key \in TieKeys
                  /\ acc' = SortBy(acc, FnVal(key))
NextTies == \E key \in Names : SortTiesA(key)
SpecTies == InitTies /\ [][NextTies]_vars
LawsTies ==
  /\ Len(acc) <= 4 => \A key \in TieKeys :
       LET ps == {p \in Permutations(1..Len(acc)) : IsSortPerm(p, key)}
           r == SortBy(acc, FnVal(key)) IN
       /\ Cardinality(ps) = 1
       /\ \A p \in ps : r = [i \in 1..Len(acc) |-> acc[p[i]]]
       /\ (key \in {"nankey", "zerokey", "emptykey", "xtype"} => r = acc)      \* every key equal: nothing moves
       /\ SortBy(r, FnVal(key)) = r                                          \* idempotent
  /\ Ap1("number1", S("x")) = <<[nan |-> TRUE]>> /\ Ap1("number1", S("10")) = <<D(10)>>
  /\ KeyVal(Ap1("number1", S("y"))) = KeyVal(Ap1("number1", S("x")))          \* NaN keys are equal
  /\ KeyVal(Ap1("number1", S("x"))) < KeyVal(Ap1("number1", S("9")))          \* and sort first
---------------------------------------------------------------------------
(* FIFTH MACHINE (SpecSpecial): fn:sort / array:sort over numbers of DIFFERENT types together with the special *)
(* values of xs:double and xs:float.  F&O 3.1 16.2.6 fn:sort: the order is deep-less-than on the sort keys:   *)
(*   "if ($A[1] ne $A[1] and $B[1] eq $B[1]) (: NaN is less than everything :) then fn:true() ...              *)
(*    else $A[1] lt $B[1]",  and keys that are deep-equal keep their input order;                              *)
(* op:numeric-less-than after promotion (XPath 3.1 B.1: integer -> decimal -> float -> double):                *)
(*   NaN  <  -INF  <  every finite integer / decimal / float / double  <  INF,                                 *)
(*   xs:float -INF = xs:double -INF, xs:float NaN = xs:double NaN (equal keys: stable),  7 = 7e0.             *)
(* Keys: none (sort#1), the identity, and three keys that send the integers (/ decimals) to -INF, INF, NaN.    *)
SpecialItems == {I(-5), I(7), C(2), D(3), F(4), Inf(-1), Inf(1), NaN, FInf(-1)}
                  \cup (IF UniverseName = "u6" THEN {D(7), FNaN} ELSE {})
SpecialKeys == {"none", "ident", "ninfint", "pinfdec"} \cup (IF UniverseName = "u6" THEN {"nanint"} ELSE {})
KeyFn(key) == IF key = "none" THEN NoKey ELSE FnVal(key)
InitSpecial == acc \in UNION {[1..k -> SpecialItems] : k \in 0..MaxLen}
SortSpecialA(key) == /\ Deeper /\ key \in SpecialKeys
                     /\ acc' = SortBy(acc, KeyFn(key))
NextSpecial == \E key \in Names \cup {"none"} : SortSpecialA(key)
SpecSpecial == InitSpecial /\ [][NextSpecial]_vars
Finite(x) == Has(x, "i") \/ Has(x, "c") \/ Has(x, "d") \/ Has(x, "f")
LawsSpecial ==
  /\ Len(acc) <= 4 => \A key \in SpecialKeys :
       LET ps == {p \in Permutations(1..Len(acc)) : IsSortPerm(p, key)}
           r == SortBy(acc, KeyFn(key)) IN
       /\ Cardinality(ps) = 1                                   \* THE stable ordered permutation
       /\ \A p \in ps : r = [i \in 1..Len(acc) |-> acc[p[i]]]
       /\ \A i \in 1..(Len(r) - 1) : KeyNum(r[i], key) <= KeyNum(r[i + 1], key)
       /\ SortBy(r, KeyFn(key)) = r                             \* idempotent
  (* the rank order the F&O rule gives *)
  /\ \A x \in SpecialItems : Finite(x) =>
        /\ KeyVal(<<NaN>>) < KeyVal(<<Inf(-1)>>) /\ KeyVal(<<Inf(-1)>>) < KeyVal(<<x>>) /\ KeyVal(<<x>>) < KeyVal(<<Inf(1)>>)
        /\ KeyVal(<<x>>) = NumOf(x)
  /\ KeyVal(<<FInf(-1)>>) = KeyVal(<<Inf(-1)>>) /\ KeyVal(<<FNaN>>) = KeyVal(<<NaN>>) /\ KeyVal(<<FInf(1)>>) = KeyVal(<<Inf(1)>>)
  (* the keys do what their names say *)
  /\ Ap1("ninfint", I(7)) = <<Inf(-1)>> /\ Ap1("ninfint", C(2)) = <<C(2)>> /\ Ap1("ninfint", Inf(1)) = <<Inf(1)>>
  /\ Ap1("pinfdec", I(7)) = <<Inf(1)>> /\ Ap1("pinfdec", C(2)) = <<Inf(1)>> /\ Ap1("pinfdec", D(3)) = <<D(3)>>
  /\ Ap1("nanint", I(7)) = <<NaN>> /\ Ap1("nanint", F(4)) = <<F(4)>>
(* printed for the binding: the sort key of every item under every key function (failure classification only) *)
SpecialKeyTable == {<<key, x, KeyOf(x, KeyFn(key))>> : key \in SpecialKeys, x \in SpecialItems}

(* a higher-order function called AS A FUNCTION ITEM (name#n, also through fn:apply) is the function *)
LawHofItems ==
  Short => \A f \in Binary \cup FoldNamed, z \in Zeros : OkZero(z, f) =>
    /\ Apply(Eval(Ref("fold-left", 3), EmptyEnv)[1], <<acc, Zv(z), <<FnVal(f)>> >>) = FoldL(acc, Zv(z), FnVal(f))
    /\ ApplyNamed("apply", << Eval(Ref("fold-right", 3), EmptyEnv),
                              <<[arr |-> <<acc, Zv(z), <<FnVal(f)>> >>]>> >>) = FoldR(acc, Zv(z), FnVal(f))

(* apply($f, [a, b, ..]) = $f(a, b, ..) *)
LawApply ==
  Usable(acc) => \A f \in ByArity(Len(acc)) :
((f # "pow" \/ (NonNeg(<<acc[2]>>) /\ AbsI(acc[1].i) <= 5)) /\ (f = "arr3" => InRange(acc))) =>
      ApplyNamed("apply", << <<FnVal(f)>>, <<[arr |-> [j \in 1..Len(acc) |-> <<acc[j]>>]]>> >>)
        = Apply(FnVal(f), [j \in 1..Len(acc) |-> <<acc[j]>>])
(* a partial application / a closure is the function it stands for *)
LawCatalog ==
  /\ \A u \in Universe : Ap1("p7", I(u)) = <<I(70 + u)>> /\ Ap1("addk", I(u)) = <<I(u + 10)>>
  /\ \A u \in Universe : Ap1("nestfold", I(u)) = <<I((u * 1 + u) * 2 + u)>>
  /\ \A u \in Universe : Ap1("nesteach", I(u)) = <<I(10 + u)>>
Laws == LawFoldUnrolled /\ LawMapFilter /\ LawPair /\ LawSort /\ LawApply /\ LawCatalog /\ LawHofItems

(* printed once for the binding: the catalog (expression + structural class) and the zero operands *)
V31(name) == name \in {"arr3", "map3", "mapb"}
Collides(name) == name = "nesteach"          \* the inner function binds a name the outer body reads afterwards
Nested(name) == name \in {"nestfold", "nesteach"}
Catalog == [name \in Names |-> [e |-> Fn(name), collision |-> Collides(name), nested |-> Nested(name),
                                arity |-> Arity(FV[name]), v31 |-> V31(name)]]
ASSUME PrintT(<<"catalog", Catalog>>)
ASSUME PrintT(<<"zeros", [z \in Zeros |-> ZeroExpr(z)]>>)
ASSUME PrintT(<<"speckeys", SpecialKeyTable>>)
=============================================================================
