------------------------------ MODULE Numeric ------------------------------
(***************************************************************************)
(* XPath F&O arithmetic on the four numeric types (property C06), as a     *)
(* VALUE-STATE MACHINE: the state is an accumulator value, every action    *)
(* applies one operator / rounding function to it; behaviours are chains.  *)
(*                                                                         *)
(* Values are tagged records                                               *)
(*   [t |-> "int"|"dec"|"flt"|"dbl", k |-> "fin", q |-> <<num,den>>, nz |-> BOOLEAN]  *)
(*   [t |-> "flt"|"dbl", k |-> "nan"|"pinf"|"ninf", q |-> <<0,1>>, nz |-> FALSE]      *)
(*   [t |-> "err", code |-> "FOAR0001"|"FOAR0002"]        (terminal)       *)
(* q is the EXACT value as a reduced rational (den > 0); nz marks IEEE     *)
(* negative zero.  No floating point exists in TLA+: finite doubles/floats *)
(* are exact rationals; the binding compares with the correctly rounded    *)
(* float(Fraction).  Values whose exact result is not representable        *)
(* (non-terminating decimals, non-dyadic doubles) get ap |-> TRUE and are  *)
(* terminal: they are compared approximately and never used as operands.   *)
(*                                                                         *)
(* Implementation-defined, excluded: precision of xs:decimal division,     *)
(* xs:float rounding to single precision.                                  *)
(***************************************************************************)
EXTENDS Integers, Sequences, FiniteSets, TLC

CONSTANTS MaxDepth,      \* chain length (state constraint)
          GridName       \* "small" | "full"

VARIABLE acc
vars == <<acc>>

---------------------------------------------------------------------------
(* exact rationals *)
Abs(x) == IF x < 0 THEN -x ELSE x
RECURSIVE GCD(_, _)
GCD(a, b) == IF b = 0 THEN a ELSE GCD(b, a % b)
Norm(n, d) == IF n = 0 THEN <<0, 1>>
              ELSE LET s == IF d < 0 THEN -1 ELSE 1
                       g == GCD(Abs(n), Abs(d))
                   IN <<(s * n) \div g, (s * d) \div g>>
QAdd(a, b) == Norm(a[1] * b[2] + b[1] * a[2], a[2] * b[2])
QNeg(a)    == <<-a[1], a[2]>>
QSub(a, b) == QAdd(a, QNeg(b))
QMul(a, b) == Norm(a[1] * b[1], a[2] * b[2])
QDiv(a, b) == Norm(a[1] * b[2], a[2] * b[1])          \* b # 0
QLt(a, b)  == a[1] * b[2] < b[1] * a[2]
QIsZero(a) == a[1] = 0
QSign(a)   == IF a[1] < 0 THEN -1 ELSE IF a[1] = 0 THEN 0 ELSE 1
QFloor(a)  == a[1] \div a[2]                           \* TLA+ \div floors (den > 0)
QCeil(a)   == -((-a[1]) \div a[2])
QTrunc(a)  == IF a[1] < 0 THEN QCeil(a) ELSE QFloor(a)
QInt(i)    == <<i, 1>>
Half       == <<1, 2>>
RECURSIVE Pow10(_)
Pow10(p)   == IF p = 0 THEN 1 ELSE 10 * Pow10(p - 1)
Scale(p)   == IF p >= 0 THEN <<Pow10(p), 1>> ELSE <<1, Pow10(-p)>>   \* 10^p

(* only factors 2 and 5 in the denominator: a terminating decimal *)
RECURSIVE StripFactor(_, _)
StripFactor(d, f) == IF d % f = 0 THEN StripFactor(d \div f, f) ELSE d
Terminating(q) == StripFactor(StripFactor(q[2], 2), 5) = 1
Dyadic(q)      == StripFactor(q[2], 2) = 1

---------------------------------------------------------------------------
(* values *)
Fin(t, q)  == [t |-> t, k |-> "fin", q |-> q, nz |-> FALSE, ap |-> FALSE]
NegZero(t) == [t |-> t, k |-> "fin", q |-> <<0, 1>>, nz |-> TRUE, ap |-> FALSE]
Special(t, k) == [t |-> t, k |-> k, q |-> <<0, 1>>, nz |-> FALSE, ap |-> FALSE]
Err(c)     == [t |-> "err", code |-> c]
IsErr(v)   == v.t = "err"
IsFloatT(t) == t \in {"flt", "dbl"}
IsFloating(v) == IsFloatT(v.t)
IsFin(v)   == v.k = "fin"
IsNaN(v)   == v.k = "nan"
IsInf(v)   == v.k \in {"pinf", "ninf"}
(* sign including the sign of zero and of infinities: -1 or +1 *)
SignBit(v) == IF v.k = "ninf" THEN -1 ELSE IF v.k = "pinf" THEN 1
              ELSE IF v.nz THEN -1 ELSE IF v.q[1] < 0 THEN -1 ELSE 1
IsZero(v)  == IsFin(v) /\ QIsZero(v.q)

Rank(t) == CASE t = "int" -> 1 [] t = "dec" -> 2 [] t = "flt" -> 3 [] t = "dbl" -> 4
Promote(ta, tb) == IF Rank(ta) >= Rank(tb) THEN ta ELSE tb

(* a finite result of type t with exact value q; zero sign given for floating types *)
MkFin(t, q, negzero) ==
  IF t \in {"flt", "dbl"}
  THEN [t |-> t, k |-> "fin", q |-> q, nz |-> (QIsZero(q) /\ negzero), ap |-> ~Dyadic(q)]
  ELSE [t |-> t, k |-> "fin", q |-> q, nz |-> FALSE, ap |-> ~Terminating(q)]
Inf(t, sign) == Special(t, IF sign < 0 THEN "ninf" ELSE "pinf")
NaN(t) == Special(t, "nan")

---------------------------------------------------------------------------
(* binary operators, F&O section 4.2 (op:numeric-add ... op:numeric-mod) *)
Add(a, b) ==
  LET t == Promote(a.t, b.t) IN
  IF ~IsFloatT(t) THEN MkFin(t, QAdd(a.q, b.q), FALSE)
  ELSE IF IsNaN(a) \/ IsNaN(b) THEN NaN(t)
  ELSE IF IsInf(a) /\ IsInf(b) THEN (IF a.k = b.k THEN Special(t, a.k) ELSE NaN(t))
  ELSE IF IsInf(a) THEN Special(t, a.k)
  ELSE IF IsInf(b) THEN Special(t, b.k)
  ELSE MkFin(t, QAdd(a.q, b.q), SignBit(a) < 0 /\ SignBit(b) < 0)   \* -0 + -0 = -0, x + -x = +0

NegV(a) ==
  IF IsFloating(a)
  THEN IF IsNaN(a) THEN a
       ELSE IF IsInf(a) THEN Inf(a.t, -SignBit(a))
       ELSE MkFin(a.t, QNeg(a.q), SignBit(a) > 0)
  ELSE MkFin(a.t, QNeg(a.q), FALSE)

(* the subtrahend is promoted BEFORE it is negated: -0e0 - 0 = -0e0 + (-0e0) = -0e0 *)
CastTo(v, t) == IF v.t = t THEN v ELSE [v EXCEPT !.t = t]
Sub(a, b) == LET t == Promote(a.t, b.t) IN Add(a, NegV(IF IsFin(b) THEN CastTo(b, t) ELSE b))

Mul(a, b) ==
  LET t == Promote(a.t, b.t)
      s == SignBit(a) * SignBit(b) IN
  IF ~IsFloatT(t) THEN MkFin(t, QMul(a.q, b.q), FALSE)
  ELSE IF IsNaN(a) \/ IsNaN(b) THEN NaN(t)
  ELSE IF IsInf(a) \/ IsInf(b)
       THEN (IF IsZero(a) \/ IsZero(b) THEN NaN(t) ELSE Inf(t, s))
  ELSE MkFin(t, QMul(a.q, b.q), s < 0)

Div(a, b) ==
  LET t0 == Promote(a.t, b.t)
      t  == IF t0 = "int" THEN "dec" ELSE t0      \* integer div integer is xs:decimal
      s  == SignBit(a) * SignBit(b) IN
  IF ~IsFloatT(t)
  THEN IF IsZero(b) THEN Err("FOAR0001") ELSE MkFin(t, QDiv(a.q, b.q), FALSE)
  ELSE IF IsNaN(a) \/ IsNaN(b) THEN NaN(t)
  ELSE IF IsInf(a) THEN (IF IsInf(b) THEN NaN(t) ELSE Inf(t, s))
  ELSE IF IsInf(b) THEN MkFin(t, <<0, 1>>, s < 0)
  ELSE IF IsZero(b) THEN (IF IsZero(a) THEN NaN(t) ELSE Inf(t, s))
  ELSE MkFin(t, QDiv(a.q, b.q), s < 0)

(* a idiv b: integer, truncation toward zero.  FOAR0001 if b is zero; FOAR0002 if a is NaN/INF
   or b is NaN; a idiv +-INF = 0 *)
IDiv(a, b) ==
  IF IsFin(b) /\ QIsZero(b.q)
  THEN (IF IsNaN(a) \/ IsInf(a) THEN Err("FOAR0001|FOAR0002")   \* both conditions hold: either code
        ELSE Err("FOAR0001"))
  ELSE IF IsNaN(a) \/ IsNaN(b) \/ IsInf(a) THEN Err("FOAR0002")
  ELSE IF IsInf(b) THEN Fin("int", <<0, 1>>)
  ELSE Fin("int", QInt(QTrunc(QDiv(a.q, b.q))))

(* a mod b = a - b * trunc(a / b): sign of the dividend.  Exact types: FOAR0001 for b = 0.
   Floating: NaN if a is NaN/INF or b is NaN/0; a if b is INF; zero results keep the sign of a *)
Mod(a, b) ==
  LET t == Promote(a.t, b.t) IN
  IF ~IsFloatT(t)
  THEN IF IsZero(b) THEN Err("FOAR0001")
       ELSE MkFin(t, QSub(a.q, QMul(b.q, QInt(QTrunc(QDiv(a.q, b.q))))), FALSE)
  ELSE IF IsNaN(a) \/ IsNaN(b) \/ IsInf(a) \/ IsZero(b) THEN NaN(t)
  ELSE IF IsInf(b) THEN MkFin(t, a.q, SignBit(a) < 0)
  ELSE MkFin(t, QSub(a.q, QMul(b.q, QInt(QTrunc(QDiv(a.q, b.q))))), SignBit(a) < 0)

BinOps == {"add", "sub", "mul", "div", "idiv", "mod"}
ApplyBin(op, a, b) ==
  CASE op = "add" -> Add(a, b) [] op = "sub" -> Sub(a, b) [] op = "mul" -> Mul(a, b)
    [] op = "div" -> Div(a, b) [] op = "idiv" -> IDiv(a, b) [] op = "mod" -> Mod(a, b)

---------------------------------------------------------------------------
(* unary functions, F&O section 4.4 *)
AbsV(a) == IF IsFloating(a) /\ ~IsFin(a) THEN (IF IsNaN(a) THEN a ELSE Inf(a.t, 1))
           ELSE MkFin(a.t, IF a.q[1] < 0 THEN QNeg(a.q) ELSE a.q, FALSE)
(* floor/ceiling/round keep the type; for floating types a zero result of a negative
   argument (or of -0) is negative zero *)
Keep(a, qres) == MkFin(a.t, qres, SignBit(a) < 0)
FloorV(a) == IF ~IsFin(a) THEN a ELSE Keep(a, QInt(QFloor(a.q)))
CeilV(a)  == IF ~IsFin(a) THEN a ELSE Keep(a, QInt(QCeil(a.q)))
RoundV(a) == IF ~IsFin(a) THEN a ELSE Keep(a, QInt(QFloor(QAdd(a.q, Half))))   \* ties toward +INF
(* fn:round($arg, $precision) (XPath 3.0): half up at 10^-p *)
RoundP(a, p) == IF ~IsFin(a) THEN a
                ELSE Keep(a, QDiv(QInt(QFloor(QAdd(QMul(a.q, Scale(p)), Half))), Scale(p)))
(* fn:round-half-to-even($arg, $precision) *)
HalfEven(a, p) ==
  IF ~IsFin(a) THEN a
  ELSE LET x == QMul(a.q, Scale(p))
           f == QFloor(x)
           diff == QSub(x, QInt(f))
           r == IF QLt(diff, Half) THEN f
                ELSE IF QLt(Half, diff) THEN f + 1
                ELSE IF f % 2 = 0 THEN f ELSE f + 1
       IN Keep(a, QDiv(QInt(r), Scale(p)))

UnOps == {"neg", "abs", "floor", "ceiling", "round"}
ApplyUn(f, a) ==
  CASE f = "neg" -> NegV(a) [] f = "abs" -> AbsV(a) [] f = "floor" -> FloorV(a)
    [] f = "ceiling" -> CeilV(a) [] f = "round" -> RoundV(a)
Precisions == {-1, 0, 1, 2}

---------------------------------------------------------------------------
(* operand grid *)
I(n) == Fin("int", <<n, 1>>)
D(n, d) == Fin("dec", Norm(n, d))
F(t, n, d) == Fin(t, Norm(n, d))
SmallGrid ==
  {I(0), I(1), I(-1), I(2), I(-3), I(5), I(-6), I(7)} \cup
  {D(1, 2), D(-5, 2), D(13, 2), D(-13, 2), D(0, 1), D(1, 10)} \cup
  {F("dbl", 0, 1), NegZero("dbl"), F("dbl", 5, 2), F("dbl", -13, 2), F("dbl", 4, 1), F("dbl", -3, 1),
   Special("dbl", "pinf"), Special("dbl", "ninf"), Special("dbl", "nan")} \cup
  {F("flt", 3, 2), F("flt", -5, 2), NegZero("flt"), Special("flt", "nan"), Special("flt", "pinf")}
FullGrid == SmallGrid \cup
  {I(3), I(-2), I(-5), I(6), I(-7), I(-100), I(99)} \cup
  {D(-1, 2), D(3, 2), D(-3, 2), D(5, 2), D(1, 4), D(-1, 4), D(314, 100), D(-1, 10), D(2, 1), D(-3, 1)} \cup
  {F("dbl", 1, 1), F("dbl", -1, 1), F("dbl", 13, 2), F("dbl", -5, 2), F("dbl", 1, 2), F("dbl", -1, 4),
   F("dbl", 3, 1), F("dbl", -6, 1), F("dbl", 1, 8)} \cup
  {F("flt", 0, 1), F("flt", 13, 2), F("flt", -6, 1), F("flt", 1, 4), Special("flt", "ninf")}
Grid == IF GridName = "small" THEN SmallGrid ELSE FullGrid

Usable(v) == ~IsErr(v) /\ ~v.ap      \* errors and approximated values are terminal

Init == acc \in Grid
(* A non-dyadic xs:decimal (0.1, 3.14159) promoted to xs:float/xs:double is ROUNDED by the cast;
   the rounding is outside this exact-rational model (and mod/idiv are discontinuous in it), so
   such operand pairs are not part of the specification. *)
ExactlyPromotable(a, b) ==
  IsFloatT(Promote(a.t, b.t)) => ((IsFin(a) => Dyadic(a.q)) /\ (IsFin(b) => Dyadic(b.q)))
Bin(op, b) == Usable(acc) /\ ExactlyPromotable(acc, b) /\ acc' = ApplyBin(op, acc, b)
Un(f) == Usable(acc) /\ acc' = ApplyUn(f, acc)
RoundTo(p) == Usable(acc) /\ acc' = RoundP(acc, p)
RoundHE(p) == Usable(acc) /\ acc' = HalfEven(acc, p)
Next == \/ \E op \in BinOps, b \in Grid : Bin(op, b)
        \/ \E f \in UnOps : Un(f)
        \/ \E p \in Precisions : RoundTo(p)
        \/ \E p \in Precisions : RoundHE(p)
Spec == Init /\ [][Next]_vars
Bounded == TLCGet("level") <= MaxDepth     \* CONSTRAINT: chain length
(* keep 32-bit TLC integers safe: do not expand from large magnitudes *)

---------------------------------------------------------------------------
Small == IsErr(acc) \/ (Abs(acc.q[1]) < 2000 /\ acc.q[2] <= 200)
(* Laws of F&O arithmetic, checked by TLC on every reachable accumulator against every grid value *)
Exact(v) == ~IsErr(v) /\ v.t \in {"int", "dec"} /\ ~v.ap
LawDivMod ==     \* a = (a idiv b) * b + (a mod b)
  \A b \in Grid : (Exact(acc) /\ Exact(b) /\ ~IsZero(b)) =>
     QAdd(QMul(IDiv(acc, b).q, b.q), Mod(acc, b).q) = acc.q
LawIdivTrunc ==  \* |a idiv b| * |b| <= |a| and the remainder is smaller than |b|
  \A b \in Grid : (Exact(acc) /\ Exact(b) /\ ~IsZero(b)) =>
     LET m == Mod(acc, b).q IN
       /\ (QSign(m) = 0 \/ QSign(m) = QSign(acc.q))          \* mod has the sign of the dividend
       /\ QLt(IF m[1] < 0 THEN QNeg(m) ELSE m, IF b.q[1] < 0 THEN QNeg(b.q) ELSE b.q)
LawFloorCeil ==
  (Usable(acc) /\ IsFin(acc)) =>
     /\ ~QLt(acc.q, FloorV(acc).q) /\ ~QLt(CeilV(acc).q, acc.q)
     /\ QLt(QSub(CeilV(acc).q, FloorV(acc).q), <<2, 1>>)
     /\ RoundV(acc).q = QInt(QFloor(QAdd(acc.q, Half)))
     /\ RoundP(acc, 0).q = RoundV(acc).q
LawHalfEven ==
  (Usable(acc) /\ IsFin(acc)) => \A p \in Precisions :
     LET r == HalfEven(acc, p).q
         d == QSub(QMul(r, Scale(p)), QMul(acc.q, Scale(p)))
         ad == IF d[1] < 0 THEN QNeg(d) ELSE d IN
       /\ ~QLt(Half, ad)                                          \* within half a unit
       /\ (ad = Half => QFloor(QMul(r, Scale(p))) % 2 = 0)         \* ties go to even
LawTypes ==
  \A b \in Grid : Usable(acc) => \A op \in {"add", "sub", "mul"} :
     LET r == ApplyBin(op, acc, b) IN IsErr(r) \/ r.t = Promote(acc.t, b.t)
LawNegInvolution == Usable(acc) => NegV(NegV(acc)) = acc
LawDivZero ==
  \A b \in Grid : (Usable(acc) /\ IsZero(b)) =>
     /\ (~IsFloating(acc) /\ ~IsFloating(b)) => (Div(acc, b) = Err("FOAR0001") /\ Mod(acc, b) = Err("FOAR0001"))
     /\ IDiv(acc, b) \in {Err("FOAR0001"), Err("FOAR0001|FOAR0002")}
     /\ (IsFloating(acc) \/ IsFloating(b)) => (IsNaN(Div(acc, b)) \/ IsInf(Div(acc, b)))
(* Scaling: exact arithmetic commutes with multiplying both operands by K.  TLC checks the law for
   small K; the binding uses it with K = 10^20 to reach integers and decimals far beyond 2^53
   (TLC integers are 32-bit), where float round trips in an implementation become visible. *)
ScaleV(v, K) == [v EXCEPT !.q = QMul(v.q, <<K, 1>>)]
LawScale ==
  \A b \in Grid : \A K \in {3, 10} : (TLCGet("level") = 1 /\ Exact(acc) /\ Exact(b) /\ Abs(acc.q[1]) < 300 /\ Abs(b.q[1]) < 300) =>
     LET sa == ScaleV(acc, K)  sb == ScaleV(b, K) IN
     /\ Add(sa, sb).q = QMul(Add(acc, b).q, <<K, 1>>)
     /\ Sub(sa, sb).q = QMul(Sub(acc, b).q, <<K, 1>>)
     /\ Mul(sa, sb).q = QMul(Mul(acc, b).q, <<K * K, 1>>)
     /\ ~IsZero(b) => /\ IDiv(sa, sb) = IDiv(acc, b)
                      /\ Mod(sa, sb).q = QMul(Mod(acc, b).q, <<K, 1>>)
                      /\ Div(sa, sb).q = Div(acc, b).q
Laws == (Small /\ ~IsErr(acc)) => LawScale /\ LawDivMod /\ LawIdivTrunc /\ LawFloorCeil /\ LawHalfEven /\ LawTypes /\ LawNegInvolution /\ LawDivZero
=============================================================================
