------------------------------ MODULE Lexical ------------------------------
(***************************************************************************)
(* Lexical spaces and lexical-to-value mappings of the XSD built-in atomic *)
(* datatypes (property C10), written as TLA+ predicates over character     *)
(* sequences.  References: XSD 1.1 Part 2 (W3C REC 2012) section 3.3/3.4   *)
(* (lexical mappings), 4.3.6 (whiteSpace facet); XSD 1.0 Part 2 where the  *)
(* versions differ ('+INF' and year 0000 exist in 1.1 only,                *)
(* xs:dateTimeStamp is a 1.1 type).                                        *)
(*                                                                         *)
(* A STRING is a sequence of abstract characters.  An abstract character   *)
(* is a one-character TLA+ string standing for itself, or "TAB" / "NL".    *)
(* Test strings are enumerated as sequences of TOKENS; a token is one      *)
(* character or a CHUNK ("INF", "NaN", "true", "2000", "+14:00" ...) that  *)
(* Chars() expands, so every recogniser below works at character level and *)
(* the binding only joins token texts.                                     *)
(*                                                                         *)
(* Values are tagged records (k = kind, t = type name):                    *)
(*   [k |-> "err",  code]                                                  *)
(*   [k |-> "bool", t, b]                                                  *)
(*   [k |-> "dec",  t, neg, ip, fp, ap]  decimal and the 13 integer types: *)
(*         integer digits without leading zeros (<<>> = 0), fraction       *)
(*         digits without trailing zeros; no negative zero                 *)
(*   [k |-> "flo",  t, c, neg, dg, ex, ap]  float/double: c in             *)
(*         fin|nan|pinf|ninf; finite value = d1.d2d3... x 10^ex with       *)
(*         dg = significant decimal digits (<<>> = zero, neg = sign of 0); *)
(*         ap = TRUE when the decimal digits do not determine the binary   *)
(*         value exactly enough for further steps (terminal)               *)
(*   [k |-> "str",  t, s]     string family, anyURI, untypedAtomic         *)
(*   [k |-> "bin",  t, o]     octet sequence (hexBinary, base64Binary)     *)
(*   [k |-> "qn",   t, p, l]  QName: prefix and local part                 *)
(*   [k |-> "dur",  t, neg, mo, se, fr]   months, whole seconds, fraction  *)
(*   [k |-> "dt",   t, y, mo, d, h, mi, s, fr, tz]  date/time components   *)
(*         (LOCAL value, as F&O 19.1.2.2 prints it), tz in minutes or NoTz *)
(*                                                                         *)
(* Outside this specification (alphabet representatives only): the full    *)
(* Name/NCName/language/anyURI character classes; IEEE rounding of decimal *)
(* digit strings longer than 15 digits; xs:float subnormals; leap seconds. *)
(***************************************************************************)
EXTENDS Integers, Sequences, FiniteSets, TLC

---------------------------------------------------------------------------
(* characters, tokens *)
RECURSIVE Rep(_, _)
Rep(c, k) == IF k <= 0 THEN <<>> ELSE <<c>> \o Rep(c, k - 1)
(* NON-ASCII abstract characters (named by code point).  They are what Python's re / str / int() /
   float() treat as equivalents of ASCII characters: case-folding partners of s, i, k under
   re.IGNORECASE (U+017F long s, U+0130, U+0131 dotless i, U+212A Kelvin sign), a fullwidth letter
   (U+FF21), digits of other scripts that \d, int() and float() accept (U+0661 Arabic-Indic one,
   U+FF11 fullwidth one), signs (U+FF0B fullwidth plus, U+2212 minus) and characters that \s and
   str.strip() take for whitespace (U+00A0, U+2003, U+3000, U+0085, U+001F).  The XSD lexical
   grammars below are ASCII-exact: none of these is a digit, a letter of xs:language, a sign or
   whitespace (XSD 1.1 4.3.6: whitespace is #x20, #x9, #xA, #xD only).  Only the XML Name classes
   extend beyond ASCII, differently per XML edition: a literal of a Name-based type (NMTOKEN, Name,
   NCName, ID, IDREF, ENTITY, QName) that contains one of the letter/digit-like ones is not judged. *)
NonAsciiLetters == {"U017F", "U0130", "U0131", "U212A", "UFF21"}
NonAsciiDigits  == {"U0661", "UFF11"}
NonAsciiSigns   == {"UFF0B", "U2212"}
UniWs           == {"U00A0", "U2003", "U3000", "U0085", "U001F"}
NameishNonAscii == NonAsciiLetters \cup NonAsciiDigits \cup {"UFF0B"}
ChunkMap ==
     ("INF"   :> <<"I","N","F">>) @@ ("NaN" :> <<"N","a","N">>)
  @@ ("true"  :> <<"t","r","u","e">>) @@ ("false" :> <<"f","a","l","s","e">>)
  @@ ("TRUE"  :> <<"T","R","U","E">>)
  @@ ("2000"  :> <<"2","0","0","0">>) @@ ("1999" :> <<"1","9","9","9">>)
  @@ ("0000"  :> <<"0","0","0","0">>) @@ ("0001" :> <<"0","0","0","1">>)
  @@ ("12345" :> <<"1","2","3","4","5">>) @@ ("02000" :> <<"0","2","0","0","0">>)
  @@ ("200"   :> <<"2","0","0">>)
  @@ ("00" :> <<"0","0">>) @@ ("01" :> <<"0","1">>) @@ ("02" :> <<"0","2">>)
  @@ ("04" :> <<"0","4">>) @@ ("12" :> <<"1","2">>) @@ ("13" :> <<"1","3">>)
  @@ ("14" :> <<"1","4">>) @@ ("23" :> <<"2","3">>) @@ ("24" :> <<"2","4">>)
  @@ ("25" :> <<"2","5">>) @@ ("28" :> <<"2","8">>) @@ ("29" :> <<"2","9">>)
  @@ ("30" :> <<"3","0">>) @@ ("31" :> <<"3","1">>) @@ ("32" :> <<"3","2">>)
  @@ ("59" :> <<"5","9">>) @@ ("60" :> <<"6","0">>)
  @@ ("+14:00" :> <<"+","1","4",":","0","0">>) @@ ("-14:00" :> <<"-","1","4",":","0","0">>)
  @@ ("+14:01" :> <<"+","1","4",":","0","1">>) @@ ("+05:30" :> <<"+","0","5",":","3","0">>)
  @@ ("-00:00" :> <<"-","0","0",":","0","0">>) @@ ("+00:00" :> <<"+","0","0",":","0","0">>)
  @@ ("+13:60" :> <<"+","1","3",":","6","0">>) @@ ("+5:30" :> <<"+","5",":","3","0">>)
  @@ ("-00:30" :> <<"-","0","0",":","3","0">>) @@ ("-00:01" :> <<"-","0","0",":","0","1">>)
  @@ ("-00:59" :> <<"-","0","0",":","5","9">>) @@ ("-05:30" :> <<"-","0","5",":","3","0">>)
  @@ ("HEX58" :> Rep("0", 116))      \* 58 zero octets: base64 output longer than one 76-character MIME line
Chars(tok) == IF tok \in DOMAIN ChunkMap THEN ChunkMap[tok] ELSE <<tok>>
RECURSIVE Flat(_)
Flat(ts) == IF ts = <<>> THEN <<>> ELSE Chars(Head(ts)) \o Flat(Tail(ts))

Take(s, n) == SubSeq(s, 1, n)
Drop(s, n) == SubSeq(s, n + 1, Len(s))
Front(s)   == SubSeq(s, 1, Len(s) - 1)
Last(s)    == s[Len(s)]
At(s, i)   == IF i >= 1 /\ i <= Len(s) THEN s[i] ELSE "EOS"
SetMin(S)  == CHOOSE x \in S : \A y \in S : x <= y

DigitSeq == <<"0","1","2","3","4","5","6","7","8","9">>
DigitSet == {DigitSeq[i] : i \in 1..10}
IsDigit(c) == c \in DigitSet
DVal(c) == (CHOOSE i \in 1..10 : DigitSeq[i] = c) - 1
DChr(n) == DigitSeq[n + 1]
HexUp  == <<"0","1","2","3","4","5","6","7","8","9","A","B","C","D","E","F">>
HexLow == <<"0","1","2","3","4","5","6","7","8","9","a","b","c","d","e","f">>
IsHex(c) == \E i \in 1..16 : HexUp[i] = c \/ HexLow[i] = c
HexVal(c) == (CHOOSE i \in 1..16 : HexUp[i] = c \/ HexLow[i] = c) - 1
B64 == <<"A","B","C","D","E","F","G","H","I","J","K","L","M","N","O","P","Q","R","S","T","U","V","W","X","Y","Z",
         "a","b","c","d","e","f","g","h","i","j","k","l","m","n","o","p","q","r","s","t","u","v","w","x","y","z",
         "0","1","2","3","4","5","6","7","8","9","+","/">>
IsB64(c) == \E i \in 1..64 : B64[i] = c
B64Val(c) == (CHOOSE i \in 1..64 : B64[i] = c) - 1
Letters == {B64[i] : i \in 1..52}
IsLetter(c) == c \in Letters
AllDigits(s) == \A i \in 1..Len(s) : IsDigit(s[i])
RECURSIVE DigitRun(_, _)      \* number of consecutive digits starting at position i
DigitRun(s, i) == IF i > Len(s) \/ ~IsDigit(s[i]) THEN 0 ELSE 1 + DigitRun(s, i + 1)
RECURSIVE ToInt(_)            \* only applied to short digit sequences (32-bit TLC integers)
ToInt(ds) == IF ds = <<>> THEN 0 ELSE ToInt(Front(ds)) * 10 + DVal(Last(ds))
RECURSIVE NatChars(_)
NatChars(n) == IF n < 10 THEN <<DChr(n)>> ELSE NatChars(n \div 10) \o <<DChr(n % 10)>>
RECURSIVE StripLead(_)
StripLead(d) == IF d # <<>> /\ d[1] = "0" THEN StripLead(Tail(d)) ELSE d
RECURSIVE StripTrail(_)
StripTrail(d) == IF d # <<>> /\ Last(d) = "0" THEN StripTrail(Front(d)) ELSE d
RECURSIVE LeadZeros(_)
LeadZeros(d) == IF d # <<>> /\ d[1] = "0" THEN 1 + LeadZeros(Tail(d)) ELSE 0
RECURSIVE Zeros(_)
Zeros(n) == IF n <= 0 THEN <<>> ELSE <<"0">> \o Zeros(n - 1)

---------------------------------------------------------------------------
(* whiteSpace facet, XSD 1.1 Part 2 section 4.3.6: preserve | replace | collapse.
   It is a PRE-LEXICAL facet: a literal belongs to the lexical space of T iff its
   normalised form matches the lexical mapping. *)
WsChars == {" ", "TAB", "NL", "CR"}
IsWs(c) == c \in WsChars
ReplaceWs(s) == [i \in 1..Len(s) |-> IF IsWs(s[i]) THEN " " ELSE s[i]]
RECURSIVE Squeeze(_)
Squeeze(s) == IF Len(s) <= 1 THEN s
              ELSE IF s[1] = " " /\ s[2] = " " THEN Squeeze(Tail(s))
              ELSE <<s[1]>> \o Squeeze(Tail(s))
TrimL(s) == IF s # <<>> /\ s[1] = " " THEN Tail(s) ELSE s
TrimR(s) == IF s # <<>> /\ Last(s) = " " THEN Front(s) ELSE s
Collapse(s) == TrimR(TrimL(Squeeze(ReplaceWs(s))))

IntTypes == {"integer", "nonPositiveInteger", "negativeInteger", "long", "int", "short", "byte",
             "nonNegativeInteger", "unsignedLong", "unsignedInt", "unsignedShort", "unsignedByte",
             "positiveInteger"}
FloatTypes == {"float", "double"}
StringTypes == {"string", "normalizedString", "token"}
NameTypes == {"language", "NMTOKEN", "Name", "NCName", "ID", "IDREF", "ENTITY"}
BinTypes == {"hexBinary", "base64Binary"}
DurTypes == {"duration", "yearMonthDuration", "dayTimeDuration"}
DateTypes == {"dateTime", "dateTimeStamp", "date", "time", "gYearMonth", "gYear", "gMonthDay", "gDay", "gMonth"}
AllTypes == IntTypes \cup FloatTypes \cup StringTypes \cup NameTypes \cup BinTypes \cup DurTypes
            \cup DateTypes \cup {"boolean", "decimal", "anyURI", "QName", "untypedAtomic"}

WsFacet(T) == IF T \in {"string", "untypedAtomic"} THEN "preserve"
              ELSE IF T = "normalizedString" THEN "replace" ELSE "collapse"
WsNorm(T, s) == CASE WsFacet(T) = "preserve" -> s
                  [] WsFacet(T) = "replace"  -> ReplaceWs(s)
                  [] OTHER -> Collapse(s)

Err(c) == [k |-> "err", code |-> c]
IsErr(v) == v.k = "err"
Bad == Err("FORG0001")       \* F&O 19.2: the lexical form is not in the lexical space of the target

---------------------------------------------------------------------------
(* decimal / integer: XSD 1.1 3.3.3.1  [+-]?([0-9]+(.[0-9]{0,})?|.[0-9]+), 3.4.13.1 [\-+]?[0-9]+ *)
HasSign(s)  == s # <<>> /\ s[1] \in {"+", "-"}
HasMinus(s) == s # <<>> /\ s[1] = "-"
Unsigned(s) == IF HasSign(s) THEN Tail(s) ELSE s
IsUDecimal(u) ==
  LET n == DigitRun(u, 1) IN
  IF n = Len(u) THEN n > 0
  ELSE u[n + 1] = "." /\ LET m == DigitRun(u, n + 2) IN n + 1 + m = Len(u) /\ (n > 0 \/ m > 0)
IsDecimalLex(s) == IsUDecimal(Unsigned(s))
IsIntegerLex(s) == LET u == Unsigned(s) IN u # <<>> /\ AllDigits(u)
UIntPart(u)  == Take(u, DigitRun(u, 1))
UFracPart(u) == LET n == DigitRun(u, 1) IN IF n < Len(u) THEN Drop(u, n + 1) ELSE <<>>

MkDec(T, neg, ipRaw, fpRaw) ==
  LET ip == StripLead(ipRaw)  fp == StripTrail(fpRaw) IN
  [k |-> "dec", t |-> T, neg |-> (neg /\ (ip # <<>> \/ fp # <<>>)), ip |-> ip, fp |-> fp, ap |-> FALSE]

(* magnitudes are digit sequences without leading zeros; <<>> is zero *)
RECURSIVE LexLt(_, _)
LexLt(a, b) == IF a = <<>> THEN FALSE
               ELSE IF DVal(a[1]) < DVal(b[1]) THEN TRUE
               ELSE IF DVal(a[1]) > DVal(b[1]) THEN FALSE ELSE LexLt(Tail(a), Tail(b))
MagLt(a, b) == Len(a) < Len(b) \/ (Len(a) = Len(b) /\ LexLt(a, b))
MagLe(a, b) == a = b \/ MagLt(a, b)
(* signed x <= y *)
SLe(xn, xm, yn, ym) == IF xn /\ ~yn THEN TRUE ELSE IF ~xn /\ yn THEN FALSE
                       ELSE IF ~xn THEN MagLe(xm, ym) ELSE MagLe(ym, xm)

P263   == <<"9","2","2","3","3","7","2","0","3","6","8","5","4","7","7","5","8","0","8">>
P263m1 == <<"9","2","2","3","3","7","2","0","3","6","8","5","4","7","7","5","8","0","7">>
P231   == <<"2","1","4","7","4","8","3","6","4","8">>
P231m1 == <<"2","1","4","7","4","8","3","6","4","7">>
P215   == <<"3","2","7","6","8">>
P215m1 == <<"3","2","7","6","7">>
P264m1 == <<"1","8","4","4","6","7","4","4","0","7","3","7","0","9","5","5","1","6","1","5">>
P232m1 == <<"4","2","9","4","9","6","7","2","9","5">>
(* XSD 1.1 Part 2 3.4.14 - 3.4.25: minInclusive / maxInclusive of the derived integer types *)
NoB == [has |-> FALSE, neg |-> FALSE, mag |-> <<>>]
Bd(neg, mag) == [has |-> TRUE, neg |-> neg, mag |-> mag]
LoBound(T) ==
  CASE T = "long" -> Bd(TRUE, P263) [] T = "int" -> Bd(TRUE, P231) [] T = "short" -> Bd(TRUE, P215)
    [] T = "byte" -> Bd(TRUE, <<"1","2","8">>)
    [] T \in {"nonNegativeInteger", "unsignedLong", "unsignedInt", "unsignedShort", "unsignedByte"} -> Bd(FALSE, <<>>)
    [] T = "positiveInteger" -> Bd(FALSE, <<"1">>)
    [] OTHER -> NoB
HiBound(T) ==
  CASE T = "long" -> Bd(FALSE, P263m1) [] T = "int" -> Bd(FALSE, P231m1) [] T = "short" -> Bd(FALSE, P215m1)
    [] T = "byte" -> Bd(FALSE, <<"1","2","7">>)
    [] T = "nonPositiveInteger" -> Bd(FALSE, <<>>) [] T = "negativeInteger" -> Bd(TRUE, <<"1">>)
    [] T = "unsignedLong" -> Bd(FALSE, P264m1) [] T = "unsignedInt" -> Bd(FALSE, P232m1)
    [] T = "unsignedShort" -> Bd(FALSE, <<"6","5","5","3","5">>) [] T = "unsignedByte" -> Bd(FALSE, <<"2","5","5">>)
    [] OTHER -> NoB
InRange(T, neg, mag) ==
  /\ LoBound(T).has => SLe(LoBound(T).neg, LoBound(T).mag, neg, mag)
  /\ HiBound(T).has => SLe(neg, mag, HiBound(T).neg, HiBound(T).mag)

ParseDecimal(T, s) ==
  IF ~IsDecimalLex(s) THEN Bad
  ELSE LET u == Unsigned(s) IN MkDec(T, HasMinus(s), UIntPart(u), UFracPart(u))
ParseInteger(T, s) ==
  IF ~IsIntegerLex(s) THEN Bad
  ELSE LET v == MkDec(T, HasMinus(s), Unsigned(s), <<>>) IN
       IF InRange(T, v.neg, v.ip) THEN v ELSE Bad

---------------------------------------------------------------------------
(* float / double: XSD 1.1 3.3.4.2/3.3.5.2
   [+-]?([0-9]+(.[0-9]{0,})?|.[0-9]+)([Ee](\+|-)?[0-9]+)?|(\+|-)?INF|NaN ;
   XSD 1.0 3.2.4.1: the special values are exactly INF, -INF and NaN *)
Flo(T, c, neg, dg, ex) == [k |-> "flo", t |-> T, c |-> c, neg |-> neg, dg |-> dg, ex |-> ex, ap |-> FALSE]
FloNaN(T)  == Flo(T, "nan", FALSE, <<>>, 0)
FloInf(T, neg) == Flo(T, IF neg THEN "ninf" ELSE "pinf", neg, <<>>, 0)
FloZero(T, neg) == Flo(T, "fin", neg, <<>>, 0)
(* 0.a >= 0.b for digit sequences *)
RECURSIVE FracGeq(_, _)
FracGeq(a, b) == IF b = <<>> THEN TRUE
                 ELSE IF a = <<>> THEN StripTrail(b) = <<>>
                 ELSE IF DVal(a[1]) > DVal(b[1]) THEN TRUE
                 ELSE IF DVal(a[1]) < DVal(b[1]) THEN FALSE ELSE FracGeq(Tail(a), Tail(b))
(* round-to-nearest-even boundaries: values >= FltOver x 10^38 round to INF (2^128 - 2^103),
   values <= FltUnder x 10^-46 round to zero (2^-150) *)
FltOver == <<"3","4","0","2","8","2","3","5","6","7","7","9","7","3","3","6","6","1","6","3","7","5","3","9","3","9","5","4","5","8","1","4","2","5","6","8","4","4","8">>
FltUnder == <<"7","0","0","6","4","9","2","3","2","1","6","2","4","0","8","5","3","5","4","6","1","8","6","4","7","9","1","6","4","4","9","5","8","0","6","5","6","4","0","1","3","0","9","7","0","9","3","8","2","5","7","8","8","5","8","7","8","5","3","4","1","4","1","9","4","4","8","9","5","5","4","1","3","4","2","9","3","0","3","0","0","7","4","3","3","1","9","0","9","4","1","8","1","0","6","0","7","9","1","0","1","5","6","2","5">>
MkFlo(T, neg, ip, fp, e) ==
  LET all == ip \o fp
      sig == StripTrail(StripLead(all))
      ex  == Len(ip) - 1 - LeadZeros(all) + e IN
  IF sig = <<>> THEN FloZero(T, neg)
  ELSE IF T = "float" /\ (ex > 38 \/ (ex = 38 /\ FracGeq(sig, FltOver))) THEN FloInf(T, neg)
  ELSE IF T = "float" /\ (ex < -46 \/ (ex = -46 /\ FracGeq(FltUnder, sig))) THEN FloZero(T, neg)
  ELSE IF T = "double" /\ ex > 308 THEN FloInf(T, neg)
  ELSE IF T = "double" /\ ex < -324 THEN FloZero(T, neg)
  (* below 10^-38 an xs:float is subnormal: its binary value has fewer significant digits than the
     literal, so the decimal digits kept here are approximate (compared at single precision, terminal) *)
  ELSE [Flo(T, "fin", neg, sig, ex) EXCEPT !.ap = (Len(sig) > 15 \/ (T = "float" /\ ex <= -38))]
EPos(s) == LET S == {i \in 1..Len(s) : s[i] \in {"e", "E"}} IN IF S = {} THEN 0 ELSE SetMin(S)
ParseFloat(T, s, ver) ==
  IF s = <<"N","a","N">> THEN FloNaN(T)
  ELSE IF s = <<"I","N","F">> \/ (ver = "1.1" /\ s = <<"+","I","N","F">>) THEN FloInf(T, FALSE)
  ELSE IF s = <<"-","I","N","F">> THEN FloInf(T, TRUE)
  ELSE LET p == EPos(s)
           m == IF p = 0 THEN s ELSE Take(s, p - 1)
           e == IF p = 0 THEN <<>> ELSE Drop(s, p) IN
       IF ~IsDecimalLex(m) \/ (p > 0 /\ ~IsIntegerLex(e)) THEN Bad
       ELSE LET u == Unsigned(m)
                \* an exponent of more than 8 digits is beyond every finite value (and beyond TLC integers)
           ev == IF p = 0 THEN 0
                 ELSE (IF HasMinus(e) THEN -1 ELSE 1)
                      * (IF Len(StripLead(Unsigned(e))) > 8 THEN 99999999 ELSE ToInt(StripLead(Unsigned(e)))) IN
            MkFlo(T, HasMinus(m), UIntPart(u), UFracPart(u), ev)

---------------------------------------------------------------------------
(* boolean: XSD 1.1 3.3.2.1  'true' | 'false' | '1' | '0' *)
ParseBoolean(s) ==
  IF s \in {<<"t","r","u","e">>, <<"1">>} THEN [k |-> "bool", t |-> "boolean", b |-> TRUE]
  ELSE IF s \in {<<"f","a","l","s","e">>, <<"0">>} THEN [k |-> "bool", t |-> "boolean", b |-> FALSE]
  ELSE Bad

---------------------------------------------------------------------------
(* string family and names.  NameStartChar / NameChar of XML 1.0 5th ed. productions [4], [4a],
   restricted to the ASCII representatives (letters, '_', ':', digits, '.', '-') *)
Str(T, s) == [k |-> "str", t |-> T, s |-> s]
IsNameStart(c) == IsLetter(c) \/ c \in {"_", ":"}
IsNameChar(c)  == IsNameStart(c) \/ IsDigit(c) \/ c \in {".", "-"}
IsNmtoken(s) == s # <<>> /\ \A i \in 1..Len(s) : IsNameChar(s[i])
IsName(s)    == IsNmtoken(s) /\ IsNameStart(s[1])
IsNCName(s)  == IsName(s) /\ \A i \in 1..Len(s) : s[i] # ":"
(* language: XSD 1.1 3.4.3  [a-zA-Z]{1,8} followed by any number of (-[a-zA-Z0-9]{1,8}) *)
RECURSIVE LangTail(_)
LangTail(s) ==   \* any number of (-[a-zA-Z0-9]{1,8})
  IF s = <<>> THEN TRUE
  ELSE s[1] = "-" /\
       LET S == {i \in 2..Len(s) : s[i] = "-"}
           e == IF S = {} THEN Len(s) + 1 ELSE SetMin(S) IN
       e - 2 >= 1 /\ e - 2 <= 8 /\ (\A i \in 2..(e - 1) : IsLetter(s[i]) \/ IsDigit(s[i]))
       /\ LangTail(Drop(s, e - 1))
IsLanguage(s) ==
  LET S == {i \in 1..Len(s) : s[i] = "-"}
      e == IF S = {} THEN Len(s) + 1 ELSE SetMin(S) IN
  e - 1 >= 1 /\ e - 1 <= 8 /\ (\A i \in 1..(e - 1) : IsLetter(s[i])) /\ LangTail(Drop(s, e - 1))
(* anyURI: every string is in the XSD 1.1 lexical space (3.3.17.2), but F&O 19.2 lets an implementation
   reject strings that are not RFC 3986 references: literals with ':', '%' or '#' are not judged *)
HasNameish(s) == \E i \in 1..Len(s) : s[i] \in NameishNonAscii
ParseStringLike(T, s) ==
  IF T = "anyURI" /\ (\E i \in 1..Len(s) : s[i] \in {":", "%", "#"}) THEN Err("UNSPEC")
  ELSE IF T \in {"NMTOKEN", "Name", "NCName", "ID", "IDREF", "ENTITY"} /\ HasNameish(s) THEN Err("UNSPEC")
  ELSE IF T \in StringTypes \cup {"anyURI", "untypedAtomic"} THEN Str(T, s)
  ELSE IF (T = "NMTOKEN" /\ IsNmtoken(s)) \/ (T = "Name" /\ IsName(s)) \/ (T = "language" /\ IsLanguage(s))
          \/ (T \in {"NCName", "ID", "IDREF", "ENTITY"} /\ IsNCName(s)) THEN Str(T, s)
  ELSE Bad
(* QName: Namespaces in XML [7]-[11]; the prefix must be bound in the static context (FONS0004) *)
BoundPrefixes == {<<"a">>}
ParseQName(s) ==
  LET S == {i \in 1..Len(s) : s[i] = ":"} IN
  IF HasNameish(s) THEN Err("UNSPEC")
  ELSE IF S = {} THEN (IF IsNCName(s) THEN [k |-> "qn", t |-> "QName", p |-> <<>>, l |-> s] ELSE Bad)
  ELSE LET c == SetMin(S)  p == Take(s, c - 1)  l == Drop(s, c) IN
       IF ~(IsNCName(p) /\ IsNCName(l)) THEN Bad
       ELSE IF p \notin BoundPrefixes THEN Err("FONS0004")
       ELSE [k |-> "qn", t |-> "QName", p |-> p, l |-> l]

---------------------------------------------------------------------------
(* binary: hexBinary 3.3.15.2 pairs of [0-9a-fA-F]; base64Binary 3.3.16.2: quanta of four characters,
   each optionally followed by one space; padding forms  xx[AEIMQUYcgkosw048]=  and  x[AQgw]== *)
Bin(T, o) == [k |-> "bin", t |-> T, o |-> o]
RECURSIVE HexOctets(_)
HexOctets(s) == IF s = <<>> THEN <<>> ELSE <<HexVal(s[1]) * 16 + HexVal(s[2])>> \o HexOctets(Drop(s, 2))
ParseHex(s) == IF Len(s) % 2 = 0 /\ (\A i \in 1..Len(s) : IsHex(s[i])) THEN Bin("hexBinary", HexOctets(s)) ELSE Bad
NoSpaces(s) == SelectSeq(s, LAMBDA c : c # " ")
RECURSIVE B64Octets(_)
B64Octets(s) ==    \* s: space-free, length multiple of 4, well-formed
  IF s = <<>> THEN <<>>
  ELSE LET a == B64Val(s[1])  b == B64Val(s[2])
           o1 == a * 4 + b \div 16 IN
       IF s[3] = "=" THEN <<o1>>
       ELSE LET c == B64Val(s[3])  o2 == (b % 16) * 16 + c \div 4 IN
            IF s[4] = "=" THEN <<o1, o2>>
            ELSE <<o1, o2, (c % 4) * 64 + B64Val(s[4])>> \o B64Octets(Drop(s, 4))
B64WellFormed(s) ==
  /\ Len(s) % 4 = 0
  /\ \A i \in 1..Len(s) : IsB64(s[i]) \/ (s[i] = "=" /\ i >= Len(s) - 1)
  /\ (Len(s) > 0 /\ s[Len(s) - 1] = "=") => s[Len(s)] = "="
  /\ (Len(s) > 0 /\ s[Len(s)] = "=") =>
        IF s[Len(s) - 1] = "=" THEN IsB64(s[Len(s) - 2]) /\ B64Val(s[Len(s) - 2]) % 16 = 0
        ELSE B64Val(s[Len(s) - 1]) % 4 = 0
ParseB64(s) == LET u == NoSpaces(s) IN IF B64WellFormed(u) THEN Bin("base64Binary", B64Octets(u)) ELSE Bad

---------------------------------------------------------------------------
(* durations: XSD 1.1 3.3.6.2
   -?P((nY)?(nM)?(nD)?)(T(nH)?(nM)?(n(.n)?S)?)? with at least one component and one after T;
   yearMonthDuration 3.4.26: has no D and no T part; dayTimeDuration 3.4.27: has no Y and no month part *)
(* scan components "digits designator" from position i with the designators still allowed;
   returns [ok, lim, acc (designator :> [n, f]), pos].  A component of more than 8 digits is in the
   lexical space but beyond 32-bit TLC integers (and an implementation limit, FODT0002): lim *)
RECURSIVE ScanComps(_, _, _, _)
ScanComps(s, i, allowed, acc) ==
  LET n == DigitRun(s, i) IN
  IF n = 0 THEN [ok |-> TRUE, lim |-> FALSE, acc |-> acc, pos |-> i]
  ELSE LET j == i + n
           hasfr == At(s, j) = "."
           m == IF hasfr THEN DigitRun(s, j + 1) ELSE 0
           dpos == IF hasfr THEN j + 1 + m ELSE j
           des == At(s, dpos)
           S == {x \in 1..Len(allowed) : allowed[x] = des} IN
       IF S = {} \/ (hasfr /\ (m = 0 \/ des # "S")) THEN [ok |-> FALSE, lim |-> FALSE, acc |-> acc, pos |-> i]
       ELSE IF n > 8 THEN [ok |-> FALSE, lim |-> TRUE, acc |-> acc, pos |-> i]
       ELSE ScanComps(s, dpos + 1, Drop(allowed, SetMin(S)),
                      acc @@ (des :> [n |-> ToInt(SubSeq(s, i, j - 1)),
                                      f |-> IF hasfr THEN StripTrail(SubSeq(s, j + 1, j + m)) ELSE <<>>]))
NoComp == [n |-> 0, f |-> <<>>]
Get(acc, d) == IF d \in DOMAIN acc THEN acc[d] ELSE NoComp
EmptyAcc == ("none" :> NoComp)
ParseDuration(T, s) ==
  LET neg == HasMinus(s)
      u == IF neg THEN Tail(s) ELSE s IN
  IF At(u, 1) # "P" THEN Bad
  ELSE LET dp == ScanComps(u, 2, <<"Y","M","D">>, EmptyAcc) IN
       IF ~dp.ok THEN (IF dp.lim THEN Err("LIMIT") ELSE Bad)
       ELSE LET hasT == At(u, dp.pos) = "T"
                tp == IF hasT THEN ScanComps(u, dp.pos + 1, <<"H","M","S">>, EmptyAcc)
                      ELSE [ok |-> TRUE, lim |-> FALSE, acc |-> EmptyAcc, pos |-> dp.pos]
                nd == Cardinality(DOMAIN dp.acc) - 1
                nt == Cardinality(DOMAIN tp.acc) - 1 IN
            IF tp.lim THEN Err("LIMIT")
            ELSE IF ~tp.ok \/ tp.pos # Len(u) + 1 \/ nd + nt = 0 \/ (hasT /\ nt = 0) THEN Bad
            ELSE IF T = "yearMonthDuration" /\ (hasT \/ "D" \in DOMAIN dp.acc) THEN Bad
            ELSE IF T = "dayTimeDuration" /\ ("Y" \in DOMAIN dp.acc \/ "M" \in DOMAIN dp.acc) THEN Bad
            ELSE LET mo == Get(dp.acc, "Y").n * 12 + Get(dp.acc, "M").n
                     se == Get(dp.acc, "D").n * 86400 + Get(tp.acc, "H").n * 3600
                           + Get(tp.acc, "M").n * 60 + Get(tp.acc, "S").n
                     fr == Get(tp.acc, "S").f
                     zero == mo = 0 /\ se = 0 /\ fr = <<>> IN
                 [k |-> "dur", t |-> T, neg |-> (neg /\ ~zero), mo |-> mo, se |-> se, fr |-> fr]

---------------------------------------------------------------------------
(* date/time types: XSD 1.1 3.3.7 - 3.3.14, 3.4.28.  yearFrag: '-'? (([1-9][0-9]{3,}) | ('0'[0-9]{3}));
   year 0000 is not in the XSD 1.0 lexical space (3.2.7.1).  The day must exist in the month
   ("Constraint: Day-of-month Representations"); in XSD 1.0 the year before 0001 is -0001 (1 BCE).
   Whether February 29 exists in a BCE year of XSD 1.0 is not stated by XSD 1.0: such literals get
   the pseudo error UNSPEC and are not judged (the day-roll-over of 24:00:00 uses the proleptic rule). *)
NoTz == 9999
Two(s, i) == IsDigit(At(s, i)) /\ IsDigit(At(s, i + 1))
TwoVal(s, i) == DVal(s[i]) * 10 + DVal(s[i + 1])
BadScan == [ok |-> FALSE, lim |-> FALSE]
(* a timezone occupying exactly s[i..Len(s)]: (Z | (+|-)((0[0-9]|1[0-3]):[0-5][0-9]|14:00))? *)
ScanTZ(s, i) ==
  IF i = Len(s) + 1 THEN [ok |-> TRUE, tz |-> NoTz]
  ELSE IF i = Len(s) /\ s[i] = "Z" THEN [ok |-> TRUE, tz |-> 0]
  ELSE IF Len(s) = i + 5 /\ s[i] \in {"+", "-"} /\ Two(s, i + 1) /\ s[i + 3] = ":" /\ Two(s, i + 4)
       THEN LET hh == TwoVal(s, i + 1)  mm == TwoVal(s, i + 4) IN
            IF (hh <= 13 /\ mm <= 59) \/ (hh = 14 /\ mm = 0)
            THEN [ok |-> TRUE, tz |-> (IF s[i] = "-" THEN -1 ELSE 1) * (hh * 60 + mm)]
            ELSE BadScan
  ELSE BadScan
ScanYear(s, ver) ==
  LET neg == At(s, 1) = "-"
      st == IF neg THEN 2 ELSE 1
      n == DigitRun(s, st) IN
  IF n < 4 \/ (n > 4 /\ s[st] = "0") THEN BadScan
  ELSE IF n > 8 THEN [ok |-> FALSE, lim |-> TRUE]     \* in the lexical space, beyond TLC integers (FODT0001 limit)
  ELSE LET v == ToInt(SubSeq(s, st, st + n - 1)) IN
       IF ver = "1.0" /\ v = 0 THEN BadScan
       ELSE [ok |-> TRUE, y |-> IF neg THEN -v ELSE v, pos |-> st + n]
Astro(y, ver) == IF ver = "1.0" /\ y < 0 THEN y + 1 ELSE y
IsLeap(a) == a % 4 = 0 /\ (a % 100 # 0 \/ a % 400 = 0)
DaysIn(a, m) == IF m \in {4, 6, 9, 11} THEN 30 ELSE IF m # 2 THEN 31 ELSE IF IsLeap(a) THEN 29 ELSE 28
(* hh:mm:ss(.s+)? from position i; [ok, h, mi, s, fr, pos] *)
ScanTime(s, i) ==
  IF ~(Two(s, i) /\ At(s, i + 2) = ":" /\ Two(s, i + 3) /\ At(s, i + 5) = ":" /\ Two(s, i + 6)) THEN BadScan
  ELSE LET h == TwoVal(s, i)  mi == TwoVal(s, i + 3)  sc == TwoVal(s, i + 6)
           hasfr == At(s, i + 8) = "."
           m == IF hasfr THEN DigitRun(s, i + 9) ELSE 0
           fr == IF hasfr THEN StripTrail(SubSeq(s, i + 9, i + 8 + m)) ELSE <<>> IN
       IF hasfr /\ m = 0 THEN BadScan
       ELSE IF ~((h <= 23 /\ mi <= 59 /\ sc <= 59) \/ (h = 24 /\ mi = 0 /\ sc = 0 /\ fr = <<>>)) THEN BadScan
       ELSE [ok |-> TRUE, h |-> h, mi |-> mi, s |-> sc, fr |-> fr, pos |-> IF hasfr THEN i + 9 + m ELSE i + 8]
DT(T, y, mo, d, h, mi, sc, fr, tz) ==
  [k |-> "dt", t |-> T, y |-> y, mo |-> mo, d |-> d, h |-> h, mi |-> mi, s |-> sc, fr |-> fr, tz |-> tz]
ParseDate(T, s, ver) ==
  IF T \in {"gDay", "gMonth", "gMonthDay"} THEN
     IF ~(At(s, 1) = "-" /\ At(s, 2) = "-") THEN Bad
     ELSE IF T = "gDay" THEN
        IF ~(At(s, 3) = "-" /\ Two(s, 4)) THEN Bad
        ELSE LET z == ScanTZ(s, 6)  d == TwoVal(s, 4) IN
             IF z.ok /\ d >= 1 /\ d <= 31 THEN DT(T, 0, 0, d, 0, 0, 0, <<>>, z.tz) ELSE Bad
     ELSE IF ~Two(s, 3) THEN Bad
     ELSE LET m == TwoVal(s, 3) IN
       IF T = "gMonth" THEN
          LET z == ScanTZ(s, 5) IN IF z.ok /\ m >= 1 /\ m <= 12 THEN DT(T, 0, m, 0, 0, 0, 0, <<>>, z.tz) ELSE Bad
       ELSE IF ~(At(s, 5) = "-" /\ Two(s, 6)) THEN Bad
       ELSE LET z == ScanTZ(s, 8)  d == TwoVal(s, 6) IN
            IF z.ok /\ m >= 1 /\ m <= 12 /\ d >= 1 /\ d <= DaysIn(4, m) THEN DT(T, 0, m, d, 0, 0, 0, <<>>, z.tz) ELSE Bad
  ELSE IF T = "time" THEN
     LET tm == ScanTime(s, 1) IN
     IF ~tm.ok THEN Bad
     ELSE LET z == ScanTZ(s, tm.pos) IN
          IF ~z.ok THEN Bad
          ELSE DT(T, 0, 0, 0, IF tm.h = 24 THEN 0 ELSE tm.h, tm.mi, tm.s, tm.fr, z.tz)
  ELSE \* gYear, gYearMonth, date, dateTime, dateTimeStamp
     LET yr == ScanYear(s, ver) IN
     IF ~yr.ok THEN (IF yr.lim THEN Err("LIMIT") ELSE Bad)
     ELSE IF T = "gYear" THEN
        LET z == ScanTZ(s, yr.pos) IN IF z.ok THEN DT(T, yr.y, 0, 0, 0, 0, 0, <<>>, z.tz) ELSE Bad
     ELSE IF ~(At(s, yr.pos) = "-" /\ Two(s, yr.pos + 1)) THEN Bad
     ELSE LET m == TwoVal(s, yr.pos + 1)  p == yr.pos + 3 IN
       IF m < 1 \/ m > 12 THEN Bad
       ELSE IF T = "gYearMonth" THEN
          LET z == ScanTZ(s, p) IN IF z.ok THEN DT(T, yr.y, m, 0, 0, 0, 0, <<>>, z.tz) ELSE Bad
       ELSE IF ~(At(s, p) = "-" /\ Two(s, p + 1)) THEN Bad
       ELSE LET d == TwoVal(s, p + 1)  q == p + 3 IN
         IF ver = "1.0" /\ yr.y < 0 /\ m = 2 /\ d = 29 THEN Err("UNSPEC")   \* XSD 1.0 is silent on leap years BCE
         ELSE IF d < 1 \/ d > DaysIn(Astro(yr.y, ver), m) THEN Bad
         ELSE IF T = "date" THEN
            LET z == ScanTZ(s, q) IN IF z.ok THEN DT(T, yr.y, m, d, 0, 0, 0, <<>>, z.tz) ELSE Bad
         ELSE IF At(s, q) # "T" THEN Bad
         ELSE LET tm == ScanTime(s, q + 1) IN
           IF ~tm.ok THEN Bad
           ELSE LET z == ScanTZ(s, tm.pos) IN
             IF ~z.ok \/ (T = "dateTimeStamp" /\ z.tz = NoTz) THEN Bad
             ELSE IF tm.h # 24 THEN DT(T, yr.y, m, d, tm.h, tm.mi, tm.s, tm.fr, z.tz)
             ELSE \* 24:00:00 is the first instant of the following day (3.3.7.2)
               IF d < DaysIn(Astro(yr.y, ver), m) THEN DT(T, yr.y, m, d + 1, 0, 0, 0, <<>>, z.tz)
               ELSE IF m < 12 THEN DT(T, yr.y, m + 1, 1, 0, 0, 0, <<>>, z.tz)
               ELSE DT(T, IF ver = "1.0" /\ yr.y = -1 THEN 1 ELSE yr.y + 1, 1, 1, 0, 0, 0, <<>>, z.tz)

---------------------------------------------------------------------------
(* the lexical mapping of type T applied to a literal (whitespace normalised first) *)
TypeExists(T, ver) == T # "dateTimeStamp" \/ ver = "1.1"
Parse(T, lit, ver) ==
  LET s == WsNorm(T, lit) IN
  IF T = "boolean" THEN ParseBoolean(s)
  ELSE IF T = "decimal" THEN ParseDecimal(T, s)
  ELSE IF T \in IntTypes THEN ParseInteger(T, s)
  ELSE IF T \in FloatTypes THEN ParseFloat(T, s, ver)
  ELSE IF T \in StringTypes \cup NameTypes \cup {"anyURI", "untypedAtomic"} THEN ParseStringLike(T, s)
  ELSE IF T = "QName" THEN ParseQName(s)
  ELSE IF T = "hexBinary" THEN ParseHex(s)
  ELSE IF T = "base64Binary" THEN ParseB64(s)
  ELSE IF T \in DurTypes THEN ParseDuration(T, s)
  ELSE ParseDate(T, s, ver)
InLexicalSpace(T, lit, ver) == ~IsErr(Parse(T, lit, ver))
=============================================================================
