------------------------------ MODULE MapArray ------------------------------
(***************************************************************************)
(* XPath 3.1 maps and arrays (property C15) as a HISTORY MACHINE over a    *)
(* STORE OF IMMUTABLE VALUES.                                              *)
(*                                                                         *)
(*   store : Seq(Result)   handle h = index; store[h] is the result of the *)
(*                         h-th operation of the history (the first one or *)
(*                         two handles are the seed values of Init).       *)
(*                                                                         *)
(* Every action applies ONE constructor / map: / array: function / '?'     *)
(* lookup / fn:deep-equal to operands that are handles of earlier results  *)
(* and APPENDS its result.  No action may change an existing handle: this  *)
(* is the immutability statement of the property, stated as the action     *)
(* property Immutable and decided by TLC.  (InPlace = TRUE is the self-test*)
(* variant "write through to the operand" for array:put/append/insert-     *)
(* before; TLC must REJECT it - the engine checks that it does.)           *)
(*                                                                         *)
(* Values (XDM):                                                           *)
(*   atom   [a |-> type, x |-> canonical lexical form]                     *)
(*   map    [m |-> <<[k |-> atom, v |-> value], ...>>]   (order of the     *)
(*          entries is NOT significant; no two keys are SameKey)           *)
(*   array  [r |-> <<value, ...>>]                                         *)
(*   value  = sequence of items (<<>> is the empty sequence)               *)
(* Results:                                                                *)
(*   [v |-> value]                     an XDM value                        *)
(*   [v |-> value, bag |-> "top"]      value whose ORDER is implementation-*)
(*                                     dependent (map:keys, map:for-each,  *)
(*                                     ?* on a map)                        *)
(*   [v |-> <<array>>, bag |-> "members"]  map:find: order of the members  *)
(*                                     follows the entry order of maps     *)
(*   [err |-> code]                    dynamic error (terminal)            *)
(*                                                                         *)
(* Definitional semantics: XPath and XQuery Functions and Operators 3.1,   *)
(* section 17 (17.1.1 op:same-key, 17.1 map functions, 17.3 arrays),       *)
(* XPath 3.1 sections 3.11 (constructors, XQDY0137) and 3.11.3 (lookup),   *)
(* F&O 15.3.1 fn:deep-equal.                                               *)
(*                                                                         *)
(* Implementation-dependent points, modelled as NONDETERMINISM (several    *)
(* successor states for one action label, the code must produce one of     *)
(* them): the entry chosen by duplicates=use-any; the key retained by      *)
(* duplicates=combine.  Not modelled: collations other than codepoint,     *)
(* timezones of date keys, numeric keys that are not exactly representable *)
(* in every numeric type (where op:same-key and eq differ).                *)
(***************************************************************************)
EXTENDS Integers, Sequences, FiniteSets, TLC

CONSTANTS Profile,      \* name of the grid (seeds, parameter sets, enabled actions), see below
          Depth,        \* number of operations of a history
          ObsTerminal,  \* TRUE: a history ends at the first result that is not a single map/array
          InPlace,      \* FALSE = the design; TRUE = self-test variant that must violate Immutable
          Lite          \* TRUE: reduced parameter sets (quick tier, histories of length 2 and 3)

VARIABLE store
vars == <<store>>

Neg1 == -1

---------------------------------------------------------------------------
(* atoms *)
A(t, x) == [a |-> t, x |-> x]
I0 == A("integer", "0")   I1 == A("integer", "1")   I2 == A("integer", "2")   I3 == A("integer", "3")
D1 == A("decimal", "1")   E1 == A("double", "1")    F1 == A("float", "1")
SA == A("string", "a")    SB == A("string", "b")    UA == A("anyURI", "a")    TA == A("untypedAtomic", "a")
EN == A("double", "NaN")  FN == A("float", "NaN")   EI == A("double", "INF")  FI == A("float", "INF")
BT == A("boolean", "true") BF == A("boolean", "false")
(* numeric keys whose types do NOT all hold the same mathematical value (op:same-key compares exactly,
   eq / deep-equal on atoms would promote and round).  TLC integers are 32-bit: the values are symbolic,
   the binding renders the lexical forms (9007199254740993, 9007199254740992e0, 0.1, 0.1e0, ...).
     2^53+1 as xs:integer and xs:decimal;  2^53 as xs:integer and as the xs:double that 2^53+1 rounds to;
     0.1 as xs:decimal (exactly 1/10) and as xs:double (the binary fraction nearest to 1/10);
     0.5 in the three types (a dyadic fraction: the same value in every type).
   xs:float('0.1') is left out: the single-precision rounding of xs:float is outside this property
   (spec/Numeric.tla lists it as implementation-defined; the library keeps xs:float in a double). *)
IB1 == A("integer", "9007199254740993")   DB1 == A("decimal", "9007199254740993")
IB0 == A("integer", "9007199254740992")   EB0 == A("double", "9007199254740992")
D01 == A("decimal", "0.1")   E01 == A("double", "0.1")
D05 == A("decimal", "0.5")   E05 == A("double", "0.5")   F05 == A("float", "0.5")
DT == A("date", "2020-01-01")  QA == A("QName", "a")
Hole == A("var", "x")      \* the variable $x in a constructor template (Batch)
(* KEYS WITH SEVERAL LEXICAL FORMS: x is the form AS WRITTEN (the binding renders exactly it); the value
   is named by ValueName below.  For every atomic type: two spellings of one value (the same key), a
   different value, and the traps: values of DIFFERENT types that look equal but are not the same key. *)
HXl == A("hexBinary", "0a1b")    HXu == A("hexBinary", "0A1B")    HXo == A("hexBinary", "0A1C")
HX3 == A("hexBinary", "616263")                                  \* the octets 'abc' ...
B6a == A("base64Binary", "YWJj") B6s == A("base64Binary", "YW Jj") B6o == A("base64Binary", "YWJk")   \* ... and 'abc' again
D100 == A("decimal", "1.00")     LG1 == A("long", "1")     UB1 == A("unsignedByte", "1")     \* derived integer types: same key by value
TMz == A("dateTime", "2020-01-01T12:00:00Z")  TMp == A("dateTime", "2020-01-01T13:00:00+01:00")   \* one instant
TMn == A("dateTime", "2020-01-01T12:00:00")                      \* no timezone: never the same key as one with
DD1 == A("dayTimeDuration", "P1D")   DD24 == A("dayTimeDuration", "PT24H")   DU1 == A("duration", "P1D")
YM1 == A("yearMonthDuration", "P1Y") YM12 == A("yearMonthDuration", "P12M")
QP  == A("QName", "{u}p:a")      QQ == A("QName", "{u}q:a")      \* fn:QName('u', 'p:a'), fn:QName('u', 'q:a')
B1s == A("boolean", "1")         B0s == A("boolean", "0")        \* xs:boolean('1'), xs:boolean('0')
NFC == A("string", "e-acute-nfc") NFD == A("string", "e-acute-nfd")   \* U+00E9 / U+0065 U+0301: different strings
GY  == A("gYear", "2020")        GYz == A("gYear", "2020Z")      GYp == A("gYear", "2020+00:00")
KeysL == {HXl, HXu, HXo, HX3, B6a, B6s, B6o, I1, D1, D100, E1, LG1, UB1, TMz, TMp, TMn, DD1, DD24, DU1, YM1, YM12,
          QP, QQ, QA, BT, B1s, SA, UA, TA, NFC, NFD, GY, GYz, GYp}
(* THE "FALSY" VALUE OF EVERY TYPE (zero, minus zero, empty string, false, empty binary, zero duration) *)
D0  == A("decimal", "0")   E0 == A("double", "0")   EM0 == A("double", "-0")   F0 == A("float", "0")   FM0 == A("float", "-0")
S0  == A("string", "")     U0 == A("anyURI", "")    T0 == A("untypedAtomic", "")
HX0 == A("hexBinary", "")  B60 == A("base64Binary", "")
DD0 == A("dayTimeDuration", "PT0S")   YM0 == A("yearMonthDuration", "P0M")
KeysZ == {I0, D0, E0, EM0, F0, FM0, S0, U0, T0, BF, B0s, HX0, B60, DD0, YM0}
KeysX == {IB1, DB1, IB0, EB0, D01, E01, D05, E05, F05, I1, E1}

Keys13 == {I1, D1, E1, F1, SA, UA, TA, EN, FN, EI, BT, DT, QA}     \* the alphabet named by the property
KeysExt == Keys13 \cup {I0, BF, FI, I2, SB}

IsNumeric(k)    == k.a \in {"integer", "decimal", "double", "float", "long", "unsignedByte"}   \* + types derived from xs:integer
IsStringLike(k) == k.a \in {"string", "anyURI", "untypedAtomic"}

Digit(d) == CASE d = 0 -> "0" [] d = 1 -> "1" [] d = 2 -> "2" [] d = 3 -> "3" [] d = 4 -> "4"
              [] d = 5 -> "5" [] d = 6 -> "6" [] d = 7 -> "7" [] d = 8 -> "8" [] d = 9 -> "9"
RECURSIVE IntLex(_)
IntLex(n) == IF n < 10 THEN Digit(n) ELSE IntLex(n \div 10) \o Digit(n % 10)
LexInt(x) == CASE x = "0" -> 0 [] x = "1" -> 1 [] x = "2" -> 2 [] x = "3" -> 3 [] x = "4" -> 4
               [] x = "5" -> 5 [] x = "6" -> 6 [] x = "7" -> 7 [] x = "8" -> 8 [] x = "9" -> 9
               [] OTHER -> CHOOSE n \in 10..999 : IntLex(n) = x       \* counts produced by histories
IntA(n) == A("integer", IntLex(n))
Bool(b) == IF b THEN BT ELSE BF

(* the EXACT mathematical value of a numeric atom, as a name: lexical forms are canonical decimal
   numerals, so equal numerals = equal values, except that an xs:double / xs:float written with a
   numeral that is not a binary fraction holds the nearest binary fraction of ITS precision, which
   is a third value.  (The engine cross-checks this table against python fractions.) *)
NonBinaryNumerals == {"0.1"}
ExactName(k) == IF k.x \in NonBinaryNumerals /\ k.a \in {"double", "float"} THEN k.a \o ":" \o k.x
                ELSE CASE k.x = "1.00" -> "1" [] k.x = "-0" -> "0" [] OTHER -> k.x     \* -0 and +0 are one key
NumVal(k) == IF k.x = "NaN" THEN [c |-> "nan", n |-> ""]
             ELSE IF k.x = "INF" THEN [c |-> "inf", n |-> ""]
             ELSE [c |-> "fin", n |-> ExactName(k)]

(* F&O 3.1 17.1.1 op:same-key:                                                        *)
(*  - xs:string / xs:anyURI / xs:untypedAtomic: fn:codepoint-equal                     *)
(*  - numeric: both NaN, or both +INF, or both -INF, or the same mathematical value    *)
(*    when compared without rounding                                                   *)
(*  - otherwise fn:deep-equal: same (comparable) type and equal; values of types that  *)
(*    are not comparable with eq (boolean vs integer, QName vs string, ...) are        *)
(*    different keys                                                                   *)
(*  - date/time types: BOTH have a timezone or NEITHER has, and fn:deep-equal (same instant)      *)
(*  - durations: xs:duration and its two subtypes are comparable with eq: same months and seconds  *)
(*  - xs:hexBinary / xs:base64Binary: same type and same octets (the two types are not comparable) *)
(*  - xs:QName: same namespace URI and local name (the prefix does not matter); xs:boolean: same value *)
(* Family = the set of keys a key can be the same key as; ValueName = the value, named canonically. *)
IsDuration(k) == k.a \in {"duration", "dayTimeDuration", "yearMonthDuration"}
IsDateTime(k) == k.a \in {"dateTime", "date", "gYear"}
HasTimezone(k) == k.x \in {"2020-01-01T12:00:00Z", "2020-01-01T13:00:00+01:00", "2020Z", "2020+00:00"}
Family(k) == IF IsStringLike(k) THEN "string" ELSE IF IsNumeric(k) THEN "numeric"
             ELSE IF IsDuration(k) THEN "duration"
             ELSE IF IsDateTime(k) THEN k.a \o (IF HasTimezone(k) THEN "+tz" ELSE "-tz")
             ELSE k.a
CanonLex(x) == CASE x = "0a1b" -> "0A1B" [] x = "YW Jj" -> "YWJj"
                 [] x = "2020-01-01T13:00:00+01:00" -> "2020-01-01T12:00:00Z"
                 [] x = "PT24H" -> "P1D" [] x = "P12M" -> "P1Y" [] x = "P0M" -> "PT0S"
                 [] x = "{u}p:a" -> "{u}a" [] x = "{u}q:a" -> "{u}a"
                 [] x = "1" -> "true" [] x = "0" -> "false"                   \* xs:boolean('1') (non-numeric only)
                 [] x = "2020+00:00" -> "2020Z"
                 [] OTHER -> x
ValueName(k) == IF IsNumeric(k) THEN NumVal(k) ELSE [c |-> "lex", n |-> CanonLex(k.x)]
SameKey(k1, k2) == Family(k1) = Family(k2) /\ ValueName(k1) = ValueName(k2)

(* fn:deep-equal on atoms: ($a eq $b) or both NaN; eq promotes untypedAtomic and anyURI to
   string and numerics to a common type.  For the numerics that occur as VALUES (1, 2, counts, NaN, INF)
   every finite one is exactly representable in all four numeric types, so the two relations coincide;
   the atoms of KeysX (2^53+1, 0.1) are used as KEYS only, where op:same-key is the rule. *)
AtomDeepEq(a1, a2) == SameKey(a1, a2)

---------------------------------------------------------------------------
(* items, values, results *)
IsAtom(i) == "a" \in DOMAIN i
IsMap(i)  == "m" \in DOMAIN i
IsArr(i)  == "r" \in DOMAIN i
Mp(ents)  == [m |-> ents]
Ar(mems)  == [r |-> mems]
E(k, v)   == [k |-> k, v |-> v]
EmptyMap  == Mp(<<>>)
EmptyArr  == Ar(<<>>)

Val(s)    == [v |-> s]
Bag(s)    == [v |-> s, bag |-> "top"]
Err(c)    == [err |-> c]
IsErr(r)  == "err" \in DOMAIN r

RECURSIVE Concat(_)
Concat(ss) == IF Len(ss) = 0 THEN <<>> ELSE Head(ss) \o Concat(Tail(ss))
Rev(s) == [i \in 1..Len(s) |-> s[Len(s) + 1 - i]]

---------------------------------------------------------------------------
(* maps: F&O 3.1 section 17.1 *)
HasKey(m, k) == \E i \in 1..Len(m.m) : SameKey(m.m[i].k, k)
Get(m, k)    == IF HasKey(m, k) THEN m.m[CHOOSE i \in 1..Len(m.m) : SameKey(m.m[i].k, k)].v ELSE <<>>
Without(m, k) == SelectSeq(m.m, LAMBDA e : ~SameKey(e.k, k))
(* map:put: "all the entries of $map except any whose key is the same key as $key, plus a new
   entry ($key, $value)": the NEW key (with its type) replaces the old one *)
Put(m, k, v) == Mp(Append(Without(m, k), E(k, v)))
RemoveKeys(m, ks) == Mp(SelectSeq(m.m, LAMBDA e : \A j \in 1..Len(ks) : ~SameKey(e.k, ks[j])))
Size(m)      == Len(m.m)
KeysOf(m)    == [i \in 1..Len(m.m) |-> m.m[i].k]
ValuesOf(m)  == Concat([i \in 1..Len(m.m) |-> m.m[i].v])
HasDupKeys(ents) == \E i, j \in 1..Len(ents) : i < j /\ SameKey(ents[i].k, ents[j].k)
(* XPath 3.1 3.11.1: "a dynamic error [err:XQDY0137] if two or more keys are the same key" *)
MapCons(ents) == IF HasDupKeys(ents) THEN Err("XQDY0137") ELSE Val(<<Mp(ents)>>)

(* map:merge.  The set of admissible entry sequences (nondeterminism = implementation-dependent
   choices): use-first keeps the first entry of a set of duplicates, use-last the last one,
   use-any any one of them, combine concatenates the values in order (which of the duplicate
   keys is retained is not prescribed). *)
RECURSIVE MergeSet(_, _, _)
MergeSet(acc, rest, p) ==
  IF Len(rest) = 0 THEN {acc}
  ELSE LET e   == Head(rest)
           dup == {i \in 1..Len(acc) : SameKey(acc[i].k, e.k)}
       IN IF dup = {} THEN MergeSet(Append(acc, e), Tail(rest), p)
          ELSE LET i == CHOOSE i \in dup : TRUE IN
            CASE p = "use-first" -> MergeSet(acc, Tail(rest), p)
              [] p = "use-last"  -> MergeSet([acc EXCEPT ![i] = e], Tail(rest), p)
              [] p = "use-any"   -> MergeSet(acc, Tail(rest), p) \cup MergeSet([acc EXCEPT ![i] = e], Tail(rest), p)
              [] p = "combine"   -> UNION { MergeSet([acc EXCEPT ![i] = E(kk, acc[i].v \o e.v)], Tail(rest), p)
                                            : kk \in {acc[i].k, e.k} }
AllEntries(ms) == Concat([i \in 1..Len(ms) |-> ms[i].m])
(* "default" = one-argument map:merge = use-first (F&O 3.1; the 2017 text) *)
MergeResults(ms, policy) ==
  IF policy = "reject"
  THEN {IF HasDupKeys(AllEntries(ms)) THEN Err("FOJS0003") ELSE Val(<<Mp(AllEntries(ms))>>)}
  ELSE {Val(<<Mp(es)>>) : es \in MergeSet(<<>>, AllEntries(ms), IF policy = "default" THEN "use-first" ELSE policy)}
AllPolicies == {"default", "use-first", "use-last", "use-any", "combine", "reject"}
Policies == IF Lite \/ Profile = "mergel" THEN {"default", "use-last", "combine", "reject"} ELSE AllPolicies

(* map:find: the input sequence and all contained maps and arrays are searched; for a map the
   value of the matching entry comes first, then the matches inside the entry values *)
RECURSIVE FindV(_, _)
FindV(val, k) ==
  Concat([i \in 1..Len(val) |->
     LET it == val[i] IN
     IF IsArr(it) THEN Concat([j \in 1..Len(it.r) |-> FindV(it.r[j], k)])
     ELSE IF IsMap(it) THEN (IF HasKey(it, k) THEN <<Get(it, k)>> ELSE <<>>)
                             \o Concat([j \in 1..Len(it.m) |-> FindV(it.m[j].v, k)])
     ELSE <<>>])

(* functions passed to map:for-each (the binding renders them as inline functions) *)
MapFns == IF Lite THEN {"kc"} ELSE {"entry", "kc"}
ApplyMapFn(f, k, v) == CASE f = "entry" -> <<Mp(<<E(k, v)>>)>>            \* function($k,$v){map:entry($k,$v)}
                         [] f = "kc"    -> <<Ar(<<<<k>>, <<IntA(Len(v))>>>>)>>   \* function($k,$v){[$k, count($v)]}
MapForEach(m, f) == Concat([i \in 1..Len(m.m) |-> ApplyMapFn(f, m.m[i].k, m.m[i].v)])

---------------------------------------------------------------------------
(* arrays: F&O 3.1 section 17.3 -- the list model, 1-based, FOAY0001 outside the bounds *)
ASize(a) == Len(a.r)
AGet(a, i) == IF i \in 1..ASize(a) THEN Val(a.r[i]) ELSE Err("FOAY0001")
APut(a, i, v) == IF i \in 1..ASize(a) THEN Val(<<Ar([a.r EXCEPT ![i] = v])>>) ELSE Err("FOAY0001")
AAppend(a, v) == Val(<<Ar(Append(a.r, v))>>)
(* array:subarray($a,$start,$length): FOAY0001 if $start < 1 or $start > size+1, FOAY0002 if
   $length < 0, FOAY0001 if $start+$length > size+1; where two conditions hold either code *)
ASub3(a, s, l) ==
  LET badS == s < 1 \/ s > ASize(a) + 1
      badL == l < 0 IN
  IF badS /\ badL THEN Err("FOAY0001|FOAY0002")
  ELSE IF badS THEN Err("FOAY0001")
  ELSE IF badL THEN Err("FOAY0002")
  ELSE IF s + l > ASize(a) + 1 THEN Err("FOAY0001")
  ELSE Val(<<Ar(SubSeq(a.r, s, s + l - 1))>>)
ASub2(a, s) == IF s < 1 \/ s > ASize(a) + 1 THEN Err("FOAY0001") ELSE Val(<<Ar(SubSeq(a.r, s, ASize(a)))>>)
(* array:remove($a,$positions): FOAY0001 if any position is outside 1..size *)
ARemove(a, ps) ==
  IF \E j \in 1..Len(ps) : ps[j] \notin 1..ASize(a) THEN Err("FOAY0001")
  ELSE LET keep == {i \in 1..ASize(a) : \A j \in 1..Len(ps) : ps[j] # i}
           RECURSIVE Pick(_)
           Pick(i) == IF i > ASize(a) THEN <<>> ELSE (IF i \in keep THEN <<a.r[i]>> ELSE <<>>) \o Pick(i + 1)
       IN Val(<<Ar(Pick(1))>>)
AInsert(a, i, v) == IF i \in 1..(ASize(a) + 1)
                    THEN Val(<<Ar(SubSeq(a.r, 1, i - 1) \o <<v>> \o SubSeq(a.r, i, ASize(a)))>>)
                    ELSE Err("FOAY0001")
AHead(a) == IF ASize(a) = 0 THEN Err("FOAY0001") ELSE Val(a.r[1])
ATail(a) == IF ASize(a) = 0 THEN Err("FOAY0001") ELSE Val(<<Ar(Tail(a.r))>>)
AReverse(a) == Val(<<Ar(Rev(a.r))>>)
AJoin(as) == Val(<<Ar(Concat([i \in 1..Len(as) |-> as[i].r]))>>)
RECURSIVE FlatV(_)
FlatV(val) == Concat([i \in 1..Len(val) |->
                 IF IsArr(val[i]) THEN Concat([j \in 1..Len(val[i].r) |-> FlatV(val[i].r[j])])
                 ELSE <<val[i]>>])
AllMembers(a) == Concat(a.r)                       \* $a?*

ArrFns == IF Lite THEN {"count", "wrap"} ELSE {"count", "dup", "wrap"}
ApplyArrFn(f, x) == CASE f = "count" -> <<IntA(Len(x))>>        \* function($x){count($x)}
                      [] f = "dup"   -> x \o x                 \* function($x){($x,$x)}
                      [] f = "wrap"  -> <<Ar(<<x>>)>>          \* function($x){[$x]}
AForEach(a, f) == Val(<<Ar([i \in 1..ASize(a) |-> ApplyArrFn(f, a.r[i])])>>)
ArrPreds == {"nonempty", "single"}
ApplyPred(p, x) == CASE p = "nonempty" -> Len(x) > 0           \* function($x){exists($x)}
                     [] p = "single"   -> Len(x) = 1           \* function($x){count($x) = 1}
AFilter(a, p) == Val(<<Ar(SelectSeq(a.r, LAMBDA x : ApplyPred(p, x)))>>)
(* folds: "cat"   fold-left ($a, (), function($acc,$x){($acc,$x)})        = $a?*
          "cnt"   fold-left ($a, 0,  function($acc,$x){$acc + count($x)})  = count of all items
          "last"  fold-left ($a, (), function($acc,$x){$x})                = last member
          "rcat"  fold-right($a, (), function($x,$acc){($acc,$x)})         = members in reverse order
          "rlast" fold-right($a, (), function($x,$acc){$x})                = first member        *)
Folds == IF Lite THEN {"cat", "rlast"} ELSE {"cat", "cnt", "last", "rcat", "rlast"}
RECURSIVE FoldL(_, _, _), FoldR(_, _, _)
(* the accumulator of "cnt" is kept as a number and rendered as an xs:integer at the end *)
FoldL(f, acc, xs) == IF Len(xs) = 0 THEN acc
                     ELSE FoldL(f, CASE f = "cat" -> acc \o Head(xs)
                                     [] f = "cnt" -> acc + Len(Head(xs))
                                     [] f = "last" -> Head(xs), Tail(xs))
FoldR(f, xs, acc) == IF Len(xs) = 0 THEN acc
                     ELSE LET r == FoldR(f, Tail(xs), acc) IN
                          CASE f = "rcat" -> r \o Head(xs) [] f = "rlast" -> Head(xs)
AFold(a, f) == IF f \in {"rcat", "rlast"} THEN Val(FoldR(f, a.r, <<>>))
               ELSE IF f = "cnt" THEN Val(<<IntA(FoldL(f, 0, a.r))>>)
               ELSE Val(FoldL(f, <<>>, a.r))

(* constructors: [v1, v2] makes one member per operand; array{ seq } one member per item *)
ArrSquare(mems) == Val(<<Ar(mems)>>)
ArrCurly(val)   == Val(<<Ar([i \in 1..Len(val) |-> <<val[i]>>])>>)

---------------------------------------------------------------------------
(* fn:deep-equal (F&O 3.1 15.3.1): sequences of equal length, pairwise: atoms by eq (NaN = NaN),
   maps with the same number of entries and for every entry an entry with the same key whose
   value is deep-equal, arrays of the same size with pairwise deep-equal members; items of
   different kinds are not deep-equal *)
RECURSIVE DeepEq(_, _), ItemEq(_, _)
DeepEq(v1, v2) == Len(v1) = Len(v2) /\ \A i \in 1..Len(v1) : ItemEq(v1[i], v2[i])
ItemEq(i1, i2) ==
  IF IsAtom(i1) /\ IsAtom(i2) THEN AtomDeepEq(i1, i2)
  ELSE IF IsMap(i1) /\ IsMap(i2)
       THEN Len(i1.m) = Len(i2.m) /\
            \A p \in 1..Len(i1.m) : \E q \in 1..Len(i2.m) :
                SameKey(i1.m[p].k, i2.m[q].k) /\ DeepEq(i1.m[p].v, i2.m[q].v)
  ELSE IF IsArr(i1) /\ IsArr(i2)
       THEN Len(i1.r) = Len(i2.r) /\ \A p \in 1..Len(i1.r) : DeepEq(i1.r[p], i2.r[p])
  ELSE FALSE

---------------------------------------------------------------------------
(* lookup, XPath 3.1 3.11.3: KeySpecifier = NCName | IntegerLiteral | ParenthesizedExpr | "*" *)
(* spec = <<"name", "a">> | <<"int", n>> | <<"paren", atom>> | <<"star">>; unary and postfix alike *)
LookupItem(it, ks) ==
  IF IsMap(it) THEN
     CASE ks[1] = "name"  -> Val(Get(it, A("string", ks[2])))
       [] ks[1] = "int"   -> Val(Get(it, IntA(ks[2])))
       [] ks[1] = "paren" -> Val(Get(it, ks[2]))
       [] ks[1] = "star"  -> Bag(ValuesOf(it))
  ELSE
     CASE ks[1] = "name"  -> Err("XPTY0004")
       [] ks[1] = "int"   -> AGet(it, ks[2])
       [] ks[1] = "paren" -> IF ks[2].a = "integer" THEN AGet(it, LexInt(ks[2].x)) ELSE Err("XPTY0004")
       [] ks[1] = "star"  -> Val(AllMembers(it))

---------------------------------------------------------------------------
(* grids *)
V1  == <<I1>>            V2 == <<I2>>           VE == <<>>            V12 == <<I1, I2>>
NestedMap == Mp(<<E(I1, <<I2>>)>>)              \* map{1:2}
NestedArr == Ar(<<<<I1>>, <<>>>>)               \* [1, ()]
VM  == <<NestedMap>>     VA == <<NestedArr>>
Vals6 == {V1, V2, VE, V12, VM, VA}

M0 == EmptyMap
M1(k, v) == Mp(<<E(k, v)>>)
M2(k1, v1, k2, v2) == Mp(<<E(k1, v1), E(k2, v2)>>)
M3(k1, v1, k2, v2, k3, v3) == Mp(<<E(k1, v1), E(k2, v2), E(k3, v3)>>)
S1(it) == <<Val(<<it>>)>>
S2(i1, i2) == <<Val(<<i1>>), Val(<<i2>>)>>

SmallKeys == {I1, D1, SA, EN, I2}
Keys7 == {I1, D1, SA, TA, EN, FN, BT}     \* one or two representatives of every class of the alphabet

(* PROFILES (constant Profile) = seeds + enabled actions + parameter sets:
   "keys" / "keys13" / "keys7"  the SameKey matrix through put/remove/get/contains/size/keys/find/lookup:
              single-entry maps over the 18 / 13 / 7 key alphabet, every key as parameter
   "merge" / "merge13"  pairs of single-entry maps over the alphabet, all duplicate policies, deep-equal
   "mapvals"  maps of up to three entries with nested values; small key set, all six values, all map functions
   "arrays" / "arrays3" / "arrays2"  arrays of up to three members, all array functions, positions -1..4
   "cons"     map and array constructors (duplicate keys: XQDY0137)
   "deq"      fn:deep-equal on all pairs of a universe of values
   "mixed" / "mixed1"  a map and an array together (values extracted from one another, nested containers)
   "keysx" / "mergex"  the same with the keys of KeysX (exact comparison of numeric keys across types)
   "keysl" / "mergel"  keys with several lexical forms and the falsy value of every type (KeysL, KeysZ)
   "arrtyped" positions of derived integer types / non-integers; "mergeopts" the options map of map:merge
   "lookupseq" the lookup operator with a SEQUENCE of maps / arrays on the left, every key specifier form
   "batch"    functions and lookups applied directly to constructor expressions, once per binding of $x
   "forms"    every function / dynamic call in every CALL FORM (static call, F#n, let-bound, partial application,
              arrow operator, fn:apply, fn:for-each, lookup) on maps / arrays whose values / members are the
              empty sequence, single items and sequences of several items
   "selftest" the in-place variant (InPlace = TRUE) that TLC must reject
   Lite = TRUE shrinks the parameter sets for histories of length 2 and 3. *)
MapSeedsVals ==
  {M0} \cup {M1(k, v) : k \in {I1, SA, EN}, v \in Vals6}
  \cup {M2(I1, V1, SA, VE), M2(I1, V12, EN, V2), M2(SA, VM, I1, VA), M2(D1, V2, TA, V12),
        M3(I1, V1, SA, V2, EN, VE), M3(I2, VA, I1, VM, SB, V12)}
ArrSeeds ==
  {EmptyArr} \cup {Ar(<<v>>) : v \in Vals6} \cup {Ar(<<v, w>>) : v, w \in {V1, VE, V12, VA}}
  \cup {Ar(<<V1, V2, V12>>), Ar(<<VE, VM, VA>>), Ar(<<V2, V2, V2>>), Ar(<<VA, VE, V1>>),
        Ar(<<<<NestedArr, I2, NestedArr>>, V1>>)}          \* [([1,()], 2, [1,()]), 1]: arrays inside a sequence member
ArrSeedsSmall ==
  {EmptyArr, Ar(<<V1>>), Ar(<<VE>>), Ar(<<VA>>), Ar(<<V1, V12>>), Ar(<<VE, VM>>), Ar(<<V1, V2, V12>>), Ar(<<VA, VE, V1>>)}
DeqUniverse ==
  {<<>>, V1, V2, V12, <<D1>>, <<E1>>, <<SA>>, <<UA>>, <<TA>>, <<BT>>, <<EN>>, <<FN>>, <<I2, I1>>,
   <<M0>>, <<EmptyArr>>, VM, VA, <<M1(D1, V2)>>, <<M1(I1, V1)>>, <<M1(SA, V1)>>, <<M1(UA, V1)>>, <<M1(BT, V1)>>,
   <<M1(I1, <<EN>>)>>, <<M2(I1, V1, SA, V2)>>, <<M2(SA, V2, I1, V1)>>, <<M2(I1, V1, SA, V1)>>,
   <<Ar(<<V1>>)>>, <<Ar(<<<<D1>>>>)>>, <<Ar(<<<<BT>>>>)>>, <<Ar(<<V12>>)>>, <<Ar(<<V1, V2>>)>>, <<Ar(<<V2, V1>>)>>,
   <<Ar(<<VE>>)>>, <<Ar(<<<<EN>>>>)>>, <<Ar(<<<<FN>>>>)>>, <<Ar(<<VA>>)>>, <<Ar(<<<<Ar(<<V1, VE>>)>>>>)>>, <<Ar(<<VM>>)>>,
   <<M1(IB1, V1)>>, <<M1(EB0, V1)>>, <<M1(IB0, V1)>>, <<M1(D01, V1)>>, <<M1(E01, V1)>>, <<M1(D05, V1)>>, <<M1(E05, V1)>>,
   <<M0, I1>>, <<M0, I2>>, <<EmptyArr, I1>>, <<EmptyArr, I2>>, <<I1, M0>>, <<NestedMap, NestedMap>>}

(* "keysl" / "mergel": the keys of KeysL and KeysZ.  To keep the matrix small a parameter key is combined
   with a map only if it is RELATED to one of its keys (same group of types) or is one of two controls. *)
KeysLZ == KeysL \cup KeysZ
Group(k) == IF IsStringLike(k) THEN "string" ELSE IF IsNumeric(k) THEN "numeric" ELSE IF IsDuration(k) THEN "duration"
            ELSE IF k.a \in {"hexBinary", "base64Binary"} THEN "binary" ELSE k.a
RelatedKeys(k1, k2) == Group(k1) = Group(k2) \/ k2 \in {SB, I2}
RelatedToMap(m, k) == Profile \notin {"keysl", "mergel"} \/ \E i \in 1..Len(m.m) : RelatedKeys(m.m[i].k, k)

S3(i1, i2, i3) == <<[v |-> <<i1>>], [v |-> <<i2>>], [v |-> <<i3>>]>>
LookupSeqSeeds ==
  {S3([r |-> <<<<I1>>, <<I2>>>>], [r |-> <<<<I3>>, <<I3, I1>>>>], [r |-> <<<<I2>>>>]),                     \* [1,2] [3,(3,1)] [2]
   S3([m |-> <<[k |-> SA, v |-> <<I1>>], [k |-> I1, v |-> <<I2>>]>>], [m |-> <<[k |-> SA, v |-> <<I2, I3>>]>>], [m |-> <<>>]),
   S3([m |-> <<[k |-> I1, v |-> <<SA>>], [k |-> I2, v |-> <<>>]>>], [r |-> <<<<I1>>, <<I2>>>>], [r |-> <<<<SA>>, <<>>, <<I3>>>>]),
   S3([r |-> <<<<I1>>, <<I2>>, <<I3>>>>], [m |-> <<[k |-> I2, v |-> <<I1, I1>>]>>], [r |-> <<>>])}

(* "forms": a map (handle 1) and an array (handle 2) whose values / members are the EMPTY sequence, single items,
   sequences of SEVERAL items, nested maps and arrays *)
FormSeeds ==
  {S2(M3(I1, V12, SA, VE, EN, V1), Ar(<<V12, VE, V1>>)),                     \* map{1:(1,2), 'a':(), NaN:1}   [(1,2), (), 1]
   S2(M2(SA, VM, I2, <<I1, I2, I3>>), Ar(<<<<I1, I2, I3>>, VA, VM>>)),       \* map{'a':map{1:2}, 2:(1,2,3)}   [(1,2,3), [1,()], map{1:2}]
   S2(M1(D1, VE), Ar(<<VE>>)),                                               \* map{1.0:()}                    [()]
   S2(M2(I3, <<SA, I1, NestedArr>>, I0, V2), Ar(<<V2, <<SA, SB>>>>)),        \* map{3:('a',1,[1,()]), 0:2}     [2, ('a','b')]
   S2(M0, EmptyArr)}

Seeds ==
  CASE Profile = "keys"     -> {S1(M0)} \cup {S1(M1(k, V1)) : k \in KeysExt}
    [] Profile = "keys13"   -> {S1(M0)} \cup {S1(M1(k, V1)) : k \in Keys13}
    [] Profile = "keys7"    -> {S1(M0)} \cup {S1(M1(k, V1)) : k \in Keys7}
    [] Profile = "keysx"    -> {S1(M1(k, V1)) : k \in KeysX} \cup {S1(M2(IB1, V1, I2, V2)), S1(M2(D01, V1, EB0, V2))}
    [] Profile = "mergex"   -> {S2(M1(k1, V1), M1(k2, V2)) : k1, k2 \in KeysX}
    [] Profile = "batch"    -> {<<>>}
    [] Profile = "keysl"    -> {S1(M1(k, V1)) : k \in KeysLZ}
    [] Profile = "mergel"   -> {S2(M1(pr[1], V1), M1(pr[2], V2)) : pr \in {x \in KeysLZ \X KeysLZ : RelatedKeys(x[1], x[2])}}
    [] Profile = "lookupseq" -> LookupSeqSeeds
    [] Profile = "forms"    -> FormSeeds
    [] Profile = "arrtyped" -> {S2(Ar(<<V1, V2, V12>>), Ar(<<VE>>))}
    [] Profile = "mergeopts" -> {S2(M2(SA, V1, SB, V2), M2(SB, V12, I1, VE)), S2(M1(I1, V1), M1(D1, V2)), S2(M1(SA, V1), M1(SB, V2))}
    [] Profile = "merge"    -> {S2(M1(k1, V1), M1(k2, V2)) : k1, k2 \in KeysExt}
    [] Profile = "merge13"  -> {S2(M1(k1, V1), M1(k2, V2)) : k1, k2 \in Keys13}
    [] Profile = "mapvals"  -> {S1(mm) : mm \in MapSeedsVals}
    [] Profile = "arrays"   -> {S1(aa) : aa \in ArrSeeds}
    [] Profile = "arrays3"  -> {S1(aa) : aa \in ArrSeedsSmall}
    [] Profile = "arrays2"  -> {S1(Ar(<<V1>>)), S1(Ar(<<VE, VA>>))}
    [] Profile = "cons"     -> {<<>>}
    [] Profile = "deq"      -> {<<Val(u), Val(w)>> : u, w \in DeqUniverse}
    [] Profile = "mixed"    -> {S2(M2(I1, V1, EN, VA), Ar(<<V1, VM, V12>>))}
                               \cup (IF Lite /\ ObsTerminal THEN {}
                                     ELSE {S2(M1(EN, V12), Ar(<<VE, V12, VA>>)), S2(M2(D1, VM, TA, VE), EmptyArr)})
    [] Profile = "mixed1"   -> {S2(M1(I1, VA), Ar(<<V1, VM>>))}
    [] Profile = "selftest" -> {S1(Ar(<<V1, V2>>))}
NSeed == CASE Profile \in {"merge", "merge13", "mergex", "mergel", "deq", "mixed", "mixed1", "arrtyped", "mergeopts", "forms"} -> 2
           [] Profile \in {"cons", "batch"} -> 0 [] Profile = "lookupseq" -> 3 [] OTHER -> 1

MapActs == {"MapPut", "MapRemove", "MapGet", "MapContains", "MapSize", "MapKeys", "MapFind", "MapForEach",
            "MapMerge", "MapEntry", "Lookup", "DeepEqual"}
ArrActs == {"ArrGet", "ArrPut", "ArrAppend", "ArrSubarray", "ArrRemove", "ArrInsertBefore", "ArrHead", "ArrTail",
            "ArrReverse", "ArrJoin", "ArrFlatten", "ArrForEach", "ArrFilter", "ArrFold", "ArrSize", "Lookup", "DeepEqual"}
Acts ==
  CASE Profile \in {"keys", "keys13", "keys7", "keysx"} -> {"MapPut", "MapRemove", "MapGet", "MapContains", "MapSize", "MapKeys", "MapFind", "Lookup"}
    [] Profile \in {"merge", "merge13", "mergex", "mergel"} -> {"MapMerge", "DeepEqual"}
    [] Profile = "batch"    -> {"Batch"}
    [] Profile = "keysl"    -> {"MapPut", "MapRemove", "MapGet", "MapContains", "MapSize", "MapKeys", "MapFind", "Lookup",
                                "MapEntry", "MapForEach"}
    [] Profile = "lookupseq" -> {"LookupSeq"}
    [] Profile = "forms"    -> {"Form"}
    [] Profile = "arrtyped" -> {"ArrTyped"}
    [] Profile = "mergeopts" -> {"MapMergeOpt"}
    [] Profile = "mapvals"  -> MapActs
    [] Profile \in {"arrays", "arrays3", "arrays2"} -> ArrActs
    [] Profile = "cons"     -> {"MapCons", "ArrCons"}
    [] Profile = "deq"      -> {"DeepEqual"}
    [] Profile \in {"mixed", "mixed1"} -> MapActs \cup ArrActs
    [] Profile = "selftest" -> {"ArrPut", "ArrAppend", "ArrInsertBefore", "ArrGet"}
On(name) == name \in Acts

PKeys == CASE Profile = "keys" -> KeysExt [] Profile = "keys13" -> Keys13 [] Profile = "keys7" -> Keys7
           [] Profile = "keysx" -> KeysX [] Profile = "keysl" -> KeysLZ
           [] Profile = "mixed" -> (IF Lite THEN {I1, D1, EN} ELSE {I1, D1, SA, EN})
           [] Profile = "mixed1" -> {I1, D1} [] OTHER -> SmallKeys
PVals == CASE Profile \in {"keys", "keys13", "keys7", "keysx", "keysl"} -> {V2}
           [] Profile = "selftest" -> {V12}
           [] Profile = "mixed1" -> {VA}
           [] Lite -> {V2, VA}
           [] Profile = "mixed" -> {V2, VE, V12, VA}
           [] OTHER -> Vals6
RemoveSeqs == {<<k>> : k \in PKeys} \cup
              (IF Profile = "keysl" THEN {<<k, SB>> : k \in PKeys} \cup {<<SB, k>> : k \in KeysZ} ELSE {}) \cup
              (IF Profile \in {"mapvals", "mixed"} /\ ~Lite THEN {<<>>, <<I1, SA>>, <<D1, EN>>, <<SA, SA>>} ELSE {})
PIdx == CASE Profile = "mixed1" -> 0..2 [] Lite \/ Profile = "mixed" -> 0..3 [] OTHER -> Neg1..4
PLen == IF Lite THEN {Neg1, 1} ELSE Neg1..3
RemovePos == IF Lite THEN {<<>>, <<1>>, <<3>>, <<2, 1>>}
             ELSE {<<i>> : i \in 0..4} \cup {<<>>, <<1, 2>>, <<2, 1>>, <<1, 1>>, <<3, 1>>, <<1, 4>>}
LookupSpecs == IF Lite THEN {<<"name", "a">>, <<"int", 0>>, <<"int", 1>>, <<"int", 2>>, <<"star">>, <<"paren", I1>>, <<"paren", D1>>}
               ELSE {<<"name", "a">>, <<"name", "b">>, <<"int", 0>>, <<"int", 1>>, <<"int", 2>>, <<"int", 3>>, <<"star">>}
                    \cup {<<"paren", k>> : k \in PKeys}
ConsKeys == KeysExt
ConsEntrySeqs ==
  {<<E(k1, V1), E(k2, V2)>> : k1, k2 \in KeysX} \cup
  {<<E(pr[1], V1), E(pr[2], V2)>> : pr \in {x \in KeysLZ \X KeysLZ : Group(x[1]) = Group(x[2])}} \cup
  {<<E(SB, V2), E(k, V1)>> : k \in KeysLZ} \cup
  {<<>>} \cup {<<E(k, V1)>> : k \in ConsKeys} \cup {<<E(k1, V1), E(k2, V2)>> : k1, k2 \in ConsKeys}
  \cup {<<E(k1, V1), E(k2, VE), E(k3, V12)>> : k1 \in {I1, SA, EN}, k2 \in Keys13, k3 \in {D1, UA, FN, BT, I2}}
ConsMemberSeqs ==
  {<<>>} \cup {<<v>> : v \in Vals6} \cup {<<v, w>> : v, w \in Vals6} \cup {<<V1, V12, VE>>, <<VM, VA, V2>>}
ConsCurlyVals == {<<>>, V1, V12, <<I1, NestedArr, I2>>, <<NestedMap, NestedArr>>, <<SA, I1, I1>>}

(* batch grid: constructor templates with the hole $x as value, inside a sequence, as key, as member *)
VH == <<Hole>>
MapTmpls == {M1(SA, VH), M1(I1, VH), M2(SA, VH, SB, <<Hole, Hole>>), M2(I1, V2, SA, VH), M1(Hole, V1), M2(Hole, V1, SB, VH)}
ArrTmpls == {Ar(<<VH>>), Ar(<<VH, V2>>), Ar(<<V1, <<Hole, Hole>>, VH>>), Ar(<<<<Ar(<<VH>>)>>, VE>>)}
BatchXs  == {<<I1, I2, I3>>, <<SA, I1, SA>>}
BKeys    == {SA, SB, I1, D1, I2}
BLookups == {<<"name", "a">>, <<"name", "b">>, <<"int", 1>>, <<"int", 2>>, <<"star">>, <<"paren", SA>>, <<"paren", I1>>, <<"paren", D1>>}

---------------------------------------------------------------------------
(* the machine *)
IsSingle(h) == ~IsErr(store[h]) /\ Len(store[h].v) = 1 /\ "bag" \notin DOMAIN store[h]
IsMapH(h) == IsSingle(h) /\ IsMap(store[h].v[1])
IsArrH(h) == IsSingle(h) /\ IsArr(store[h].v[1])
MapHs == {h \in DOMAIN store : IsMapH(h)}
ArrHs == {h \in DOMAIN store : IsArrH(h)}
MV(h) == store[h].v[1]          \* the map / array item behind a handle
ValHs == {h \in DOMAIN store : ~IsErr(store[h]) /\ "bag" \notin DOMAIN store[h]}

(* a history goes on while operations are left and (ObsTerminal) every result so far is a map or array *)
Open == /\ Len(store) - NSeed < Depth
        /\ (ObsTerminal => \A h \in DOMAIN store : IsMapH(h) \/ IsArrH(h) \/ (Profile = "deq" /\ h <= NSeed))

Do(res) == Open /\ store' = Append(store, res)
(* self-test variant: the array is updated in place and the same (aliased) array is returned *)
DoArrUpdate(h, res) == IF InPlace /\ ~IsErr(res) THEN Open /\ store' = Append([store EXCEPT ![h] = res], res) ELSE Do(res)

(* the result of ONE function / lookup applied to ONE map or array item `it` with parameters p;
   used by the handle actions below and by Batch (the same function on a constructor expression) *)
OpResult(act, it, p) ==
  CASE act = "MapPut"       -> Val(<<Put(it, p[1], p[2])>>)
    [] act = "MapRemove"    -> Val(<<RemoveKeys(it, p[1])>>)
    [] act = "MapGet"       -> Val(Get(it, p[1]))
    [] act = "MapContains"  -> Val(<<Bool(HasKey(it, p[1]))>>)
    [] act = "MapSize"      -> Val(<<IntA(Size(it))>>)
    [] act = "MapKeys"      -> Bag(KeysOf(it))
    [] act = "MapForEachA"  -> Bag(MapForEach(it, p[1]))
    [] act = "MapFind"      -> [v |-> <<Ar(FindV(<<it>>, p[1]))>>, bag |-> "members"]
    [] act = "ArrGet"       -> AGet(it, p[1])
    [] act = "ArrPut"       -> APut(it, p[1], p[2])
    [] act = "ArrAppend"    -> AAppend(it, p[1])
    [] act = "ArrSubarray2" -> ASub2(it, p[1])
    [] act = "ArrSubarray3" -> ASub3(it, p[1], p[2])
    [] act = "ArrRemove"    -> ARemove(it, p[1])
    [] act = "ArrInsertBefore" -> AInsert(it, p[1], p[2])
    [] act = "ArrHead"      -> AHead(it)
    [] act = "ArrTail"      -> ATail(it)
    [] act = "ArrReverse"   -> AReverse(it)
    [] act = "ArrFlatten"   -> Val(FlatV(<<it>>))
    [] act = "ArrForEach"   -> AForEach(it, p[1])
    [] act = "ArrFilter"    -> AFilter(it, p[1])
    [] act = "ArrFold"      -> AFold(it, p[1])
    [] act = "ArrSize"      -> Val(<<IntA(ASize(it))>>)
    [] act = "Lookup"       -> LookupItem(it, p[1])

MapConsA(ents)     == On("MapCons") /\ Do(MapCons(ents))
MapPut(h, k, v)    == On("MapPut") /\ h \in MapHs /\ RelatedToMap(MV(h), k) /\ Do(OpResult("MapPut", MV(h), <<k, v>>))
MapRemove(h, ks)   == On("MapRemove") /\ h \in MapHs /\ (\A j \in 1..Len(ks) : RelatedToMap(MV(h), ks[j])) /\ Do(OpResult("MapRemove", MV(h), <<ks>>))
MapGet(h, k)       == On("MapGet") /\ h \in MapHs /\ RelatedToMap(MV(h), k) /\ Do(OpResult("MapGet", MV(h), <<k>>))
MapContains(h, k)  == On("MapContains") /\ h \in MapHs /\ RelatedToMap(MV(h), k) /\ Do(OpResult("MapContains", MV(h), <<k>>))
MapSize(h)         == On("MapSize") /\ h \in MapHs /\ Do(OpResult("MapSize", MV(h), <<>>))
MapKeys(h)         == On("MapKeys") /\ h \in MapHs /\ Do(OpResult("MapKeys", MV(h), <<>>))
MapEntry(k, v)     == On("MapEntry") /\ (Profile = "keysl" => store[1].v[1].m[1].k = k) /\ Do(Val(<<M1(k, v)>>))
MapForEachA(h, f)  == On("MapForEach") /\ h \in MapHs /\ Do(OpResult("MapForEachA", MV(h), <<f>>))
MapFind(h, k)      == On("MapFind") /\ h \in MapHs /\ RelatedToMap(MV(h), k) /\ Do(OpResult("MapFind", MV(h), <<k>>))
MapMerge(hs, p)    == On("MapMerge") /\ (\A i \in 1..Len(hs) : hs[i] \in MapHs) /\ \E res \in MergeResults([i \in 1..Len(hs) |-> MV(hs[i])], p) : Do(res)

ArrConsSquare(ms)  == On("ArrCons") /\ Do(ArrSquare(ms))
ArrConsCurly(val)  == On("ArrCons") /\ Do(ArrCurly(val))
ArrGet(h, i)       == On("ArrGet") /\ h \in ArrHs /\ Do(OpResult("ArrGet", MV(h), <<i>>))
ArrPut(h, i, v)    == On("ArrPut") /\ h \in ArrHs /\ DoArrUpdate(h, OpResult("ArrPut", MV(h), <<i, v>>))
ArrAppend(h, v)    == On("ArrAppend") /\ h \in ArrHs /\ DoArrUpdate(h, OpResult("ArrAppend", MV(h), <<v>>))
ArrSubarray2(h, s) == On("ArrSubarray") /\ h \in ArrHs /\ Do(OpResult("ArrSubarray2", MV(h), <<s>>))
ArrSubarray3(h, s, l) == On("ArrSubarray") /\ h \in ArrHs /\ Do(OpResult("ArrSubarray3", MV(h), <<s, l>>))
ArrRemove(h, ps)   == On("ArrRemove") /\ h \in ArrHs /\ Do(OpResult("ArrRemove", MV(h), <<ps>>))
ArrInsertBefore(h, i, v) == On("ArrInsertBefore") /\ h \in ArrHs /\ DoArrUpdate(h, OpResult("ArrInsertBefore", MV(h), <<i, v>>))
ArrHead(h)         == On("ArrHead") /\ h \in ArrHs /\ Do(OpResult("ArrHead", MV(h), <<>>))
ArrTail(h)         == On("ArrTail") /\ h \in ArrHs /\ Do(OpResult("ArrTail", MV(h), <<>>))
ArrReverse(h)      == On("ArrReverse") /\ h \in ArrHs /\ Do(OpResult("ArrReverse", MV(h), <<>>))
ArrJoin(hs)        == On("ArrJoin") /\ (\A i \in 1..Len(hs) : hs[i] \in ArrHs) /\ Do(AJoin([i \in 1..Len(hs) |-> MV(hs[i])]))
ArrFlatten(h)      == On("ArrFlatten") /\ h \in ArrHs /\ Do(OpResult("ArrFlatten", MV(h), <<>>))
ArrForEach(h, f)   == On("ArrForEach") /\ h \in ArrHs /\ Do(OpResult("ArrForEach", MV(h), <<f>>))
ArrFilter(h, p)    == On("ArrFilter") /\ h \in ArrHs /\ Do(OpResult("ArrFilter", MV(h), <<p>>))
ArrFold(h, f)      == On("ArrFold") /\ h \in ArrHs /\ Do(OpResult("ArrFold", MV(h), <<f>>))
ArrSize(h)         == On("ArrSize") /\ h \in ArrHs /\ Do(OpResult("ArrSize", MV(h), <<>>))

Lookup(h, ks)      == On("Lookup") /\ h \in MapHs \cup ArrHs /\ (ks[1] = "paren" /\ h \in MapHs => RelatedToMap(MV(h), ks[2])) /\ Do(OpResult("Lookup", MV(h), <<ks>>))

(* TYPED POSITIONS: the position / start argument of the array functions, of the dynamic call $a(i) and of
   the lookup $a?(i) is an xs:integer: every type derived from xs:integer (by constructor, cast, arithmetic,
   fn:count) is accepted and means its value; xs:decimal, xs:double, xs:string, xs:boolean are a type error
   XPTY0004 (no promotion to xs:integer).  ty is the way the position is written by the binding. *)
IntegerWays == {"literal", "xs:integer", "xs:long", "xs:short", "xs:unsignedByte", "xs:positiveInteger", "cast-int", "arith", "count"}
NonIntegerWays == {"decimal", "double", "string", "boolean"}
TypedOps == {"ArrGet", "Call", "LookupParen", "ArrPut", "ArrRemove", "ArrInsertBefore", "ArrSubarray2", "ArrSubarray3"}
WayApplies(ty, i) == /\ (ty \in {"xs:unsignedByte", "count"} => i >= 0) /\ (ty = "xs:positiveInteger" => i >= 1)
                     /\ (ty = "boolean" => i = 1)
TypedResult(op, it, i, ty) ==
  IF ty \in NonIntegerWays THEN Err("XPTY0004")
  ELSE CASE op \in {"ArrGet", "Call", "LookupParen"} -> AGet(it, i)
         [] op = "ArrPut" -> APut(it, i, V2)
         [] op = "ArrRemove" -> ARemove(it, <<i>>)
         [] op = "ArrInsertBefore" -> AInsert(it, i, V2)
         [] op = "ArrSubarray2" -> ASub2(it, i)
         [] op = "ArrSubarray3" -> ASub3(it, i, 1)
ArrTyped(h, op, i, ty) == On("ArrTyped") /\ h \in ArrHs /\ WayApplies(ty, i) /\ Do(TypedResult(op, MV(h), i, ty))

(* THE OPTIONS MAP of map:merge (F&O 3.1 17.1.3 + 1.5 option parameter conventions): an absent 'duplicates'
   entry (map{}, only unrelated entries) means the default use-first; the value is converted to xs:string
   (xs:untypedAtomic, xs:anyURI are accepted); a value that is not one of the five policies: FOJS0005;
   a value of another type: a type error. *)
MergeOptions == {"empty", "unrelated", "untyped:use-last", "anyURI:use-last", "illegal", "wrongtype"}
MergeOptResults(ms, opt) ==
  CASE opt \in {"empty", "unrelated"} -> MergeResults(ms, "default")
    [] opt \in {"untyped:use-last", "anyURI:use-last"} -> MergeResults(ms, "use-last")
    [] opt = "illegal" -> {Err("FOJS0005")}
    [] opt = "wrongtype" -> {Err("XPTY0004")}
MapMergeOpt(hs, opt) == On("MapMergeOpt") /\ (\A i \in 1..Len(hs) : hs[i] \in MapHs)
                        /\ \E res \in MergeOptResults([i \in 1..Len(hs) |-> MV(hs[i])], opt) : Do(res)

(* LOOKUP ON A SEQUENCE: E?KeySpecifier with several maps / arrays on the left (XPath 3.1 3.11.3.2:
   "for $m in E return for $k in KS return $m($k)"): the concatenation over the ITEMS, then over the KEYS.
   <<"parens", <<k1, k2>>>> is the parenthesized key specifier with a sequence of 0, 1, 2 keys. *)
SpecKeys(ks) == IF ks[1] = "parens" THEN [i \in 1..Len(ks[2]) |-> <<"paren", ks[2][i]>>] ELSE <<ks>>
LookupSeqResult(items, ks) ==
  LET kk == SpecKeys(ks)
      rs == Concat([i \in 1..Len(items) |-> [j \in 1..Len(kk) |-> LookupItem(items[i], kk[j])]])
      bad == {i \in 1..Len(rs) : IsErr(rs[i])} IN
  IF bad # {} THEN rs[CHOOSE i \in bad : \A j \in bad : i <= j]
  ELSE IF \E i \in 1..Len(rs) : "bag" \in DOMAIN rs[i] THEN Bag(Concat([i \in 1..Len(rs) |-> rs[i].v]))
  ELSE Val(Concat([i \in 1..Len(rs) |-> rs[i].v]))
LookupSeq(hs, ks) == On("LookupSeq") /\ (\A i \in 1..Len(hs) : hs[i] \in MapHs \cup ArrHs)
                     /\ Do(LookupSeqResult([i \in 1..Len(hs) |-> MV(hs[i])], ks))
LookupSeqHs == {<<1, 2>>, <<2, 1>>, <<1, 2, 3>>, <<3, 1>>, <<2, 2>>, <<3>>}
LookupSeqSpecs == {<<"name", "a">>, <<"int", 1>>, <<"int", 2>>, <<"star">>, <<"paren", SA>>, <<"paren", I1>>, <<"paren", I2>>,
                   <<"parens", <<>>>>, <<"parens", <<I1>>>>, <<"parens", <<I1, I2>>>>, <<"parens", <<I2, I1>>>>,
                   <<"parens", <<SA, I1>>>>, <<"parens", <<I2, I2>>>>}
(* BATCH: a function / lookup applied DIRECTLY TO A CONSTRUCTOR EXPRESSION whose entries depend on the
   dynamic context, evaluated once per binding of $x:   for $x in xs return OP( map{'a': $x} )
   The value of a constructor is a function of the current binding only (the expression has no
   memory): the i-th result is OP of the template filled with xs[i].  The result is the array of
   the per-binding results (member i = result for xs[i]); the first error wins. *)
RECURSIVE FillV(_, _)
FillI(it, x) == IF IsAtom(it) THEN (IF it = Hole THEN x ELSE it)
                ELSE IF IsMap(it) THEN Mp([j \in 1..Len(it.m) |-> E(IF it.m[j].k = Hole THEN x ELSE it.m[j].k, FillV(it.m[j].v, x))])
                ELSE Ar([j \in 1..Len(it.r) |-> FillV(it.r[j], x)])
FillV(val, x) == [i \in 1..Len(val) |-> FillI(val[i], x)]
BatchResult(act, tmpl, p, xs) ==
  LET rs  == [i \in 1..Len(xs) |-> OpResult(act, FillI(tmpl, xs[i]), p)]
      bad == {i \in 1..Len(xs) : IsErr(rs[i])} IN
  IF bad # {} THEN rs[CHOOSE i \in bad : \A j \in bad : i <= j]
  ELSE IF \E i \in 1..Len(xs) : "bag" \in DOMAIN rs[i]
       THEN [v |-> <<Ar([i \in 1..Len(xs) |-> rs[i].v])>>, bag |-> "inner"]   \* order inside a member is free
       ELSE Val(<<Ar([i \in 1..Len(xs) |-> rs[i].v])>>)
Batch(act, tmpl, p, xs) == On("Batch") /\ Do(BatchResult(act, tmpl, p, xs))
(* CALL FORMS.  The value of a function call depends on the function and on the argument values only, NOT on
   the way the call is written.  A call is (name, fnitem, cargs): a map: / array: function of the library
   applied to the argument list cargs, or ("Call") the map / array item fnitem itself applied to <<key>>
   (XPath 3.1 3.11.3: maps and arrays are functions of arity 1).  Forms, each with its definitional expansion:
     direct         F(A1, ..., An)                          3.1.5  static function call      /  $h(K) dynamic call
     ref            F#n(A1, ..., An)                        3.1.6  named function reference, 3.2.2 dynamic call
     let            let $f := F#n return $f(A1, ..., An)    the function item travels through a variable
     partial-first  F(?, A2, ..., An)(A1)                   3.2.2 / 3.1.5.1 partial function application: "the
     partial-rest   F(A1, ?, ..., ?)(A2, ..., An)           result is a function whose parameters are the
     partial-all    F(?, ..., ?)(A1, ..., An)               placeholders, in order; the fixed arguments are kept"
     arrow          A1 => F(A2, ..., An)                    3.16   "E => F(A, B) is F(E, A, B)"
     apply          fn:apply(F#n, [A1, ..., An])            F&O 16.2.7 fn:apply: the members of the array are the arguments
     for-each       fn:for-each(A1, F(?, A2, ..., An))      F&O 16.2.1: for $x in A1 return $f($x)   (A1 one item)
     array-for-each array:for-each([A1], F(?, A2, ..))?*    F&O 17.3.12: the array of the results $f(member); its one member is
                                                            the result, whatever its length (A1 may be any sequence)
     lookup         $h?(K)     ulookup   $h ! ?(K)          3.11.3 postfix / unary lookup = the dynamic call $h(K)
   Bound(form, cargs) is the argument list that the function finally RECEIVES under the form; FormLaw (decided by
   TLC) says it is cargs for every form, i.e. FormResult does not depend on the form.  The binding spells every
   form in XPath 3.1 and the code must return the same value - for members / values that are empty sequences
   and sequences of several items as well as singletons. *)
Forms == {"direct", "ref", "let", "partial-first", "partial-rest", "partial-all", "arrow", "apply", "for-each",
          "array-for-each", "lookup", "ulookup"}
FormApplies(form, name, n) ==
  IF name = "Call" THEN form \in {"direct", "let", "partial-first", "arrow", "apply", "for-each", "array-for-each", "lookup", "ulookup"}
  ELSE /\ form \in Forms \ {"lookup", "ulookup"}
       /\ (form \in {"partial-rest", "partial-all"} => n >= 2)           \* arity 1: partial-first is all there is
       /\ (form = "for-each" => name \notin {"MapMerge", "ArrJoin"})     \* A1 is a sequence there: one call per item
Holes(form, n) == CASE form \in {"partial-first", "for-each", "array-for-each"} -> {1}
                    [] form = "partial-rest" -> 2..n
                    [] form = "partial-all"  -> 1..n
                    [] OTHER -> {}
Bound(form, cargs) ==
  LET n        == Len(cargs)
      holes    == Holes(form, n)
      rank(i)  == Cardinality({x \in holes : x <= i})
      fixed    == [i \in (1..n) \ holes |-> cargs[i]]                                    \* evaluated where the partial application is
      supplied == [j \in 1..Cardinality(holes) |-> cargs[CHOOSE i \in holes : rank(i) = j]]  \* the arguments of the later call
  IN CASE holes # {}       -> [i \in 1..n |-> IF i \in holes THEN supplied[rank(i)] ELSE fixed[i]]
       [] form = "arrow"   -> <<Head(cargs)>> \o Tail(cargs)
       [] form = "apply"   -> Ar(cargs).r
       [] OTHER            -> cargs
(* functions whose first argument is not one map / array item, in addition to OpResult *)
FnResult(name, cargs) ==
  CASE name = "MapEntry" -> Val(<<M1(cargs[1], cargs[2])>>)
    [] name = "MapMerge" -> (CHOOSE r \in MergeResults(cargs[1], IF Len(cargs) = 1 THEN "default" ELSE cargs[2]) : TRUE)   \* deterministic policies only
    [] name = "ArrJoin"  -> AJoin(cargs[1])
    [] OTHER             -> OpResult(name, cargs[1], Tail(cargs))
Invoke(name, fnitem, cargs) == IF name = "Call" THEN LookupItem(fnitem, <<"paren", cargs[1]>>) ELSE FnResult(name, cargs)
FormResult(form, name, fnitem, cargs) == Invoke(name, fnitem, Bound(form, cargs))
(* the grid: <<name, handles, parameters>>; handle 1 is the map, handle 2 the array of the seed *)
FormCalls ==
  {<<a, <<1>>, <<k>>>> : a \in {"MapGet", "MapContains"}, k \in {I1, SA, EN, I2}}
  \cup {<<"MapFind", <<1>>, <<k>>>> : k \in {I1, SA}}
  \cup {<<"MapPut", <<1>>, <<k, v>>>> : k \in {I1, SB}, v \in {VE, V12, VA}}
  \cup {<<"MapRemove", <<1>>, <<ks>>>> : ks \in {<<>>, <<I1>>, <<SA, I1>>}}
  \cup {<<a, <<1>>, <<>>>> : a \in {"MapSize", "MapKeys"}}
  \cup {<<"MapForEachA", <<1>>, <<f>>>> : f \in {"entry", "kc"}}
  \cup {<<"MapEntry", <<>>, <<k, v>>>> : k \in {SA, EN}, v \in {VE, V12, VA}}
  \cup {<<"MapMerge", hs, p>> : hs \in {<<1>>, <<1, 1>>}, p \in {<<>>, <<"use-last">>, <<"reject">>}}
  \cup {<<"Call", <<h>>, <<k>>>> : h \in 1..2, k \in {I0, I1, I2, I3}} \cup {<<"Call", <<1>>, <<k>>>> : k \in {SA, EN}}
  \cup {<<"ArrGet", <<2>>, <<i>>>> : i \in 0..4}
  \cup {<<a, <<2>>, <<i, v>>>> : a \in {"ArrPut", "ArrInsertBefore"}, i \in {0, 1, 3, 4}, v \in {VE, V12}}
  \cup {<<"ArrAppend", <<2>>, <<v>>>> : v \in {VE, V12, VA}}
  \cup {<<"ArrSubarray2", <<2>>, <<i>>>> : i \in {0, 1, 2, 4}}
  \cup {<<"ArrSubarray3", <<2>>, sl>> : sl \in {<<1, 0>>, <<1, 2>>, <<2, 1>>, <<2, Neg1>>, <<4, 0>>}}
  \cup {<<"ArrRemove", <<2>>, <<ps>>>> : ps \in {<<>>, <<1>>, <<2, 1>>, <<4>>}}
  \cup {<<a, <<2>>, <<>>>> : a \in {"ArrHead", "ArrTail", "ArrReverse", "ArrFlatten", "ArrSize"}}
  \cup {<<"ArrForEach", <<2>>, <<f>>>> : f \in {"count", "dup", "wrap"}}
  \cup {<<"ArrFilter", <<2>>, <<f>>>> : f \in ArrPreds}
  \cup {<<"ArrFold", <<2>>, <<f>>>> : f \in {"cat", "cnt", "last", "rcat", "rlast"}}
  \cup {<<"ArrJoin", hs, <<>>>> : hs \in {<<2>>, <<2, 2>>}}
FormArgsOf(name, hs, p) == CASE name \in {"MapMerge", "ArrJoin"} -> <<[i \in 1..Len(hs) |-> MV(hs[i])]>> \o p
                             [] name \in {"MapEntry", "Call"}    -> p
                             [] OTHER                            -> <<MV(hs[1])>> \o p
FnItemOf(name, hs) == IF name = "Call" THEN MV(hs[1]) ELSE EmptyMap
Form(form, name, hs, p) ==
  /\ On("Form") /\ (\A i \in 1..Len(hs) : hs[i] \in MapHs \cup ArrHs)
  /\ FormApplies(form, name, Len(FormArgsOf(name, hs, p)))
  /\ Do(FormResult(form, name, FnItemOf(name, hs), FormArgsOf(name, hs, p)))
(* THE LAW OF THE CALL FORMS: for every call of the grid, on the maps / arrays of the state, every applicable
   form gives the result of the static call *)
FormLaw == \A c \in FormCalls : \A f \in Forms :
  LET cargs == FormArgsOf(c[1], c[2], c[3]) IN
  FormApplies(f, c[1], Len(cargs)) =>
     /\ Bound(f, cargs) = cargs
     /\ FormResult(f, c[1], FnItemOf(c[1], c[2]), cargs) = FormResult("direct", c[1], FnItemOf(c[1], c[2]), cargs)

DeepEqual(h1, h2)  == On("DeepEqual") /\ h1 \in ValHs /\ h2 \in ValHs /\ Do(Val(<<Bool(DeepEq(store[h1].v, store[h2].v))>>))

(* the bound sets of Next are state-independent (TLC then labels every edge with the action and
   its parameters); the guards h \in MapHs / ArrHs select the live handles of the right kind *)
MaxH == NSeed + Depth
Handles == 1..MaxH
HSeqs == IF Profile \in {"merge13", "mergex", "mergel"} THEN {<<1, 2>>}       \* the seeds are ORDERED pairs already
         ELSE IF Profile = "merge" THEN {<<1, 2>>, <<2, 1>>}
         ELSE {<<h>> : h \in Handles} \cup {<<h1, h2>> : h1, h2 \in Handles}
              \cup (IF Profile = "mapvals" THEN {<<h, g, h>> : h, g \in 1..2} ELSE {})
DeqPairs == IF Profile \in {"merge", "merge13", "mergex", "mergel", "deq"} THEN {<<1, 2>>} ELSE Handles \X Handles

Next ==
     \/ \E ents \in ConsEntrySeqs : MapConsA(ents)
     \/ \E h \in Handles, k \in PKeys, v \in PVals : MapPut(h, k, v)
     \/ \E h \in Handles, ks \in RemoveSeqs : MapRemove(h, ks)
     \/ \E h \in Handles, k \in PKeys : MapGet(h, k)
     \/ \E h \in Handles, k \in PKeys : MapContains(h, k)
     \/ \E h \in Handles : MapSize(h)
     \/ \E h \in Handles : MapKeys(h)
     \/ \E k \in PKeys, v \in PVals : MapEntry(k, v)
     \/ \E h \in Handles, f \in MapFns : MapForEachA(h, f)
     \/ \E h \in Handles, k \in PKeys : MapFind(h, k)
     \/ \E hs \in HSeqs, p \in Policies : MapMerge(hs, p)
     \/ \E ms \in ConsMemberSeqs : ArrConsSquare(ms)
     \/ \E val \in ConsCurlyVals : ArrConsCurly(val)
     \/ \E h \in Handles, i \in PIdx : ArrGet(h, i)
     \/ \E h \in Handles, i \in PIdx, v \in PVals : ArrPut(h, i, v)
     \/ \E h \in Handles, v \in PVals : ArrAppend(h, v)
     \/ \E h \in Handles, s \in PIdx : ArrSubarray2(h, s)
     \/ \E h \in Handles, s \in PIdx, l \in PLen : ArrSubarray3(h, s, l)
     \/ \E h \in Handles, ps \in RemovePos : ArrRemove(h, ps)
     \/ \E h \in Handles, i \in PIdx, v \in PVals : ArrInsertBefore(h, i, v)
     \/ \E h \in Handles : ArrHead(h)
     \/ \E h \in Handles : ArrTail(h)
     \/ \E h \in Handles : ArrReverse(h)
     \/ \E hs \in HSeqs : ArrJoin(hs)
     \/ \E h \in Handles : ArrFlatten(h)
     \/ \E h \in Handles, f \in ArrFns : ArrForEach(h, f)
     \/ \E h \in Handles, p \in ArrPreds : ArrFilter(h, p)
     \/ \E h \in Handles, f \in Folds : ArrFold(h, f)
     \/ \E h \in Handles : ArrSize(h)
     \/ \E h \in Handles, ks \in LookupSpecs : Lookup(h, ks)
     \/ \E pr \in DeqPairs : DeepEqual(pr[1], pr[2])
     \/ \E hs \in LookupSeqHs, ks \in LookupSeqSpecs : LookupSeq(hs, ks)
     \/ \E h \in 1..2, op \in TypedOps, i \in {0, 1, 2, 4}, ty \in IntegerWays \cup NonIntegerWays : ArrTyped(h, op, i, ty)
     \/ \E hs \in {<<1, 2>>, <<2, 1>>, <<1>>}, opt \in MergeOptions : MapMergeOpt(hs, opt)
     \/ \E t \in MapTmpls \cup ArrTmpls, ks \in BLookups, xs \in BatchXs : Batch("Lookup", t, <<ks>>, xs)
     \/ \E a \in {"MapGet", "MapContains", "MapFind"}, t \in MapTmpls, k \in BKeys, xs \in BatchXs : Batch(a, t, <<k>>, xs)
     \/ \E t \in MapTmpls, k \in BKeys, xs \in BatchXs : Batch("MapRemove", t, <<<<k>>>>, xs)
     \/ \E t \in MapTmpls, k \in {SA, I2}, v \in {V2, VA}, xs \in BatchXs : Batch("MapPut", t, <<k, v>>, xs)
     \/ \E a \in {"MapSize", "MapKeys"}, t \in MapTmpls, xs \in BatchXs : Batch(a, t, <<>>, xs)
     \/ \E t \in MapTmpls, f \in {"entry", "kc"}, xs \in BatchXs : Batch("MapForEachA", t, <<f>>, xs)
     \/ \E a \in {"ArrGet", "ArrSubarray2"}, t \in ArrTmpls, i \in 1..2, xs \in BatchXs : Batch(a, t, <<i>>, xs)
     \/ \E a \in {"ArrPut", "ArrInsertBefore"}, t \in ArrTmpls, xs \in BatchXs : Batch(a, t, <<1, V2>>, xs)
     \/ \E t \in ArrTmpls, v \in {V2, VE}, xs \in BatchXs : Batch("ArrAppend", t, <<v>>, xs)
     \/ \E t \in ArrTmpls, xs \in BatchXs : Batch("ArrSubarray3", t, <<1, 1>>, xs)
     \/ \E t \in ArrTmpls, xs \in BatchXs : Batch("ArrRemove", t, <<<<1>>>>, xs)
     \/ \E a \in {"ArrHead", "ArrTail", "ArrReverse", "ArrFlatten", "ArrSize"}, t \in ArrTmpls, xs \in BatchXs : Batch(a, t, <<>>, xs)
     \/ \E t \in ArrTmpls, f \in {"count", "dup", "wrap"}, xs \in BatchXs : Batch("ArrForEach", t, <<f>>, xs)
     \/ \E t \in ArrTmpls, f \in {"nonempty", "single"}, xs \in BatchXs : Batch("ArrFilter", t, <<f>>, xs)
     \/ \E t \in ArrTmpls, f \in {"cat", "cnt", "last", "rcat", "rlast"}, xs \in BatchXs : Batch("ArrFold", t, <<f>>, xs)
     \/ \E f \in Forms, c \in FormCalls : Form(f, c[1], c[2], c[3])

Init == store \in Seeds
Spec == Init /\ [][Next]_vars

---------------------------------------------------------------------------
(* THE IMMUTABILITY STATEMENT: no action changes an existing handle; every action adds one *)
Immutable == [][/\ \A h \in DOMAIN store : store'[h] = store[h]
                /\ Len(store') = Len(store) + 1]_vars

---------------------------------------------------------------------------
(* LAWS, decided by TLC on every map / array that occurs in a reachable store, for every
   parameter of the grid.  They relate the definitional operators among themselves (the design
   is validated before it judges the code). *)
RECURSIVE WellFormedV(_)
WellFormedV(val) == \A i \in 1..Len(val) :
  LET it == val[i] IN
  IF IsMap(it) THEN ~HasDupKeys(it.m) /\ \A j \in 1..Len(it.m) : IsAtom(it.m[j].k) /\ WellFormedV(it.m[j].v)
  ELSE IF IsArr(it) THEN \A j \in 1..Len(it.r) : WellFormedV(it.r[j])
  ELSE IsAtom(it)
WellFormed == \A h \in DOMAIN store : IsErr(store[h]) \/ WellFormedV(store[h].v)

MapEq(m1, m2) == ItemEq(m1, m2)
(* the laws quantify over the parameter keys that the actions combine with the map (for "keysl" / "mergel":
   the related keys) and over a set of probe keys *)
LawP(m) == IF Profile \in {"keysl", "mergel"} THEN {k \in KeysLZ : RelatedToMap(m, k)} ELSE PKeys
LawK(m) == IF Profile \in {"keysl", "mergel"} THEN LawP(m) ELSE KeysExt \cup PKeys
LawsOfMap(m) ==
  /\ Len(KeysOf(m)) = Size(m)
  /\ \A k \in LawK(m) : HasKey(m, k) <=> Len(SelectSeq(KeysOf(m), LAMBDA kk : SameKey(kk, k))) = 1
  /\ \A k \in LawK(m) : ~HasKey(m, k) => Get(m, k) = <<>>
  /\ \A k \in LawP(m), v \in PVals :
       LET p == Put(m, k, v) IN
       /\ Get(p, k) = v                                                   \* get(put(m,k,v),k) = v
       /\ HasKey(p, k)
       /\ \A k2 \in LawK(m) : ~SameKey(k, k2) => Get(p, k2) = Get(m, k2) /\ (HasKey(p, k2) <=> HasKey(m, k2))
       /\ \A k2 \in LawK(m) : SameKey(k, k2) => Get(p, k2) = v            \* key identity across types
       /\ Size(p) = Size(m) + (IF HasKey(m, k) THEN 0 ELSE 1)            \* size arithmetic
       /\ ~HasDupKeys(p.m)
       /\ MapEq(Put(p, k, v), p)                                          \* idempotent
       /\ MapEq(RemoveKeys(p, <<k>>), RemoveKeys(m, <<k>>))
       /\ MapEq(p, CHOOSE r \in {x.v[1] : x \in MergeResults(<<m, M1(k, v)>>, "use-last")} : TRUE)
  /\ \A k \in LawP(m) :
       LET r == RemoveKeys(m, <<k>>) IN
       /\ ~HasKey(r, k)                                                   \* remove then contains = false
       /\ \A k2 \in LawK(m) : SameKey(k, k2) => ~HasKey(r, k2)
       /\ \A k2 \in LawK(m) : ~SameKey(k, k2) => Get(r, k2) = Get(m, k2) /\ (HasKey(r, k2) <=> HasKey(m, k2))
       /\ Size(r) = Size(m) - (IF HasKey(m, k) THEN 1 ELSE 0)
       /\ (~HasKey(m, k) => r = m)
  /\ RemoveKeys(m, <<>>) = m
  /\ MapEq(m, m)
  /\ \A p \in AllPolicies : \A x \in MergeResults(<<m>>, p) : ~IsErr(x) /\ MapEq(x.v[1], m)
  /\ \A p \in AllPolicies \ {"reject"} : \A x \in MergeResults(<<m, m>>, p) :
        Size(x.v[1]) = Size(m) /\ (p # "combine" => MapEq(x.v[1], m))
  /\ \A p \in AllPolicies : \A x \in MergeResults(<<m, EmptyMap>>, p) : MapEq(x.v[1], m)
  /\ Len(FindV(<<m>>, I1)) >= (IF HasKey(m, I1) THEN 1 ELSE 0)
  /\ Len(MapForEach(m, "entry")) = Size(m)
  /\ \A x \in MergeResults(MapForEach(m, "entry"), "reject") : ~IsErr(x) /\ MapEq(x.v[1], m)

LawsOfMapPair(m1, m2) ==
  LET shared == \E i \in 1..Len(m1.m) : HasKey(m2, m1.m[i].k) IN
  /\ \A x \in MergeResults(<<m1, m2>>, "reject") : IsErr(x) <=> shared
  /\ \A p \in AllPolicies \ {"reject"} : \A x \in MergeResults(<<m1, m2>>, p) :
       LET r == x.v[1] IN
       /\ ~HasDupKeys(r.m)
       /\ \A k \in (LawK(m1) \cup LawK(m2)) : HasKey(r, k) <=> (HasKey(m1, k) \/ HasKey(m2, k))
       /\ Size(r) + Cardinality({i \in 1..Len(m1.m) : HasKey(m2, m1.m[i].k)}) = Size(m1) + Size(m2)
       /\ \A k \in (LawK(m1) \cup LawK(m2)) :
            CASE p \in {"default", "use-first"} -> Get(r, k) = (IF HasKey(m1, k) THEN Get(m1, k) ELSE Get(m2, k))
              [] p = "use-last" -> Get(r, k) = (IF HasKey(m2, k) THEN Get(m2, k) ELSE Get(m1, k))
              [] p = "use-any"  -> Get(r, k) \in {Get(m1, k), Get(m2, k)} /\ (HasKey(m1, k) /\ ~HasKey(m2, k) => Get(r, k) = Get(m1, k))
              [] p = "combine"  -> Get(r, k) = Get(m1, k) \o Get(m2, k)
  /\ (MapEq(m1, m2) <=> MapEq(m2, m1))

LawsOfArr(a) ==
  LET n == ASize(a) IN
  /\ \A i \in PIdx : IsErr(AGet(a, i)) <=> (i < 1 \/ i > n)               \* 1-based, FOAY0001 outside
  /\ \A i \in PIdx : IsErr(AGet(a, i)) => AGet(a, i) = Err("FOAY0001")
  /\ \A i \in PIdx, v \in PVals :
       LET p == APut(a, i, v) IN
       /\ IsErr(p) <=> (i < 1 \/ i > n)
       /\ ~IsErr(p) => /\ AGet(p.v[1], i) = Val(v)
                       /\ ASize(p.v[1]) = n
                       /\ \A j \in 1..n : j # i => AGet(p.v[1], j) = AGet(a, j)
  /\ \A v \in PVals :
       LET p == AAppend(a, v).v[1] IN
       /\ ASize(p) = n + 1 /\ AGet(p, n + 1) = Val(v) /\ SubSeq(p.r, 1, n) = a.r
       /\ AInsert(a, n + 1, v) = AAppend(a, v)
       /\ AJoin(<<a, Ar(<<v>>)>>) = AAppend(a, v)
  /\ \A i \in PIdx, v \in PVals :
       LET p == AInsert(a, i, v) IN
       /\ IsErr(p) <=> (i < 1 \/ i > n + 1)
       /\ ~IsErr(p) => /\ ASize(p.v[1]) = n + 1 /\ AGet(p.v[1], i) = Val(v)
                       /\ ARemove(p.v[1], <<i>>) = Val(<<a>>)             \* remove undoes insert-before
  /\ \A s \in PIdx, l \in PLen :
       LET p == ASub3(a, s, l) IN
       /\ IsErr(p) <=> (s < 1 \/ s > n + 1 \/ l < 0 \/ s + l > n + 1)
       /\ (l < 0 /\ s >= 1 /\ s <= n + 1) => p = Err("FOAY0002")          \* negative length
       /\ ~IsErr(p) => ASize(p.v[1]) = l /\ \A j \in 1..l : p.v[1].r[j] = a.r[s + j - 1]
  /\ \A s \in PIdx : ~IsErr(ASub2(a, s)) => ASub2(a, s) = ASub3(a, s, n - s + 1)
  /\ ASub3(a, 1, n) = Val(<<a>>) /\ ASub2(a, n + 1) = Val(<<EmptyArr>>)
  /\ \A i \in PIdx : (i >= 1 /\ i <= n) =>
       /\ ASize(ARemove(a, <<i>>).v[1]) = n - 1
       /\ ARemove(a, <<i>>) = AJoin(<<ASub3(a, 1, i - 1).v[1], ASub2(a, i + 1).v[1]>>)
       /\ ARemove(a, <<i, i>>) = ARemove(a, <<i>>)
  /\ ARemove(a, <<>>) = Val(<<a>>)
  /\ \A i \in PIdx : (i < 1 \/ i > n) => ARemove(a, <<i>>) = Err("FOAY0001")
  /\ (n = 0) <=> IsErr(AHead(a))
  /\ (n = 0) <=> IsErr(ATail(a))
  /\ n > 0 => /\ AHead(a) = AGet(a, 1) /\ ATail(a) = ARemove(a, <<1>>) /\ ATail(a) = ASub2(a, 2)
              /\ AJoin(<<Ar(<<AHead(a).v>>), ATail(a).v[1]>>) = Val(<<a>>)
  /\ AReverse(AReverse(a).v[1]) = Val(<<a>>)
  /\ ASize(AReverse(a).v[1]) = n
  /\ \A i \in 1..n : AGet(AReverse(a).v[1], i) = AGet(a, n + 1 - i)
  /\ AJoin(<<a>>) = Val(<<a>>) /\ AJoin(<<a, EmptyArr>>) = Val(<<a>>) /\ AJoin(<<EmptyArr, a>>) = Val(<<a>>)
  /\ ASize(AJoin(<<a, a>>).v[1]) = 2 * n
  /\ LET f == FlatV(<<a>>) IN
       /\ \A j \in 1..Len(f) : ~IsArr(f[j])
       /\ FlatV(f) = f
       /\ FlatV(<<Ar(<<<<a>>>>)>>) = f
  /\ \A f \in ArrFns : ASize(AForEach(a, f).v[1]) = n
  /\ AForEach(a, "wrap").v[1].r = [i \in 1..n |-> <<Ar(<<a.r[i]>>)>>]
  /\ \A p \in ArrPreds :
       LET r == AFilter(a, p).v[1] IN
       /\ ASize(r) <= n /\ \A j \in 1..ASize(r) : ApplyPred(p, r.r[j])
       /\ ASize(r) = Cardinality({i \in 1..n : ApplyPred(p, a.r[i])})
       /\ AFilter(r, p) = Val(<<r>>)
  /\ AFold(a, "cat") = Val(AllMembers(a))
  /\ AFold(a, "cnt") = Val(<<IntA(Len(AllMembers(a)))>>)
  /\ AFold(a, "last") = (IF n = 0 THEN Val(<<>>) ELSE AGet(a, n))
  /\ AFold(a, "rlast") = (IF n = 0 THEN Val(<<>>) ELSE AGet(a, 1))
  /\ AFold(a, "rcat") = Val(AllMembers(AReverse(a).v[1]))
  /\ LookupItem(a, <<"star">>) = Val(AllMembers(a))
  /\ \A i \in 0..3 : LookupItem(a, <<"int", i>>) = AGet(a, i)
  /\ ArrCurly(AllMembers(a)).v[1].r = [j \in 1..Len(AllMembers(a)) |-> <<AllMembers(a)[j]>>]
  /\ ArrSquare(a.r) = Val(<<a>>)

(* every handle was judged in the state that created it: the laws are evaluated for the NEW
   handle of a state (all handles in an initial state) against all live handles *)
NewHs == IF Len(store) <= NSeed THEN DOMAIN store ELSE {Len(store)}
ValOf(h) == store[h].v
LiveVals == {h \in DOMAIN store : ~IsErr(store[h])}

MapLaws  == \A h \in NewHs \cap MapHs : LawsOfMap(MV(h))
PairLaws == \A h1 \in NewHs \cap MapHs, h2 \in MapHs : LawsOfMapPair(MV(h1), MV(h2)) /\ LawsOfMapPair(MV(h2), MV(h1))
ArrLaws  == \A h \in NewHs \cap ArrHs : LawsOfArr(MV(h))
(* fn:deep-equal is an equivalence relation on the values of every reachable store *)
DeepEqLaws ==
  /\ \A h \in NewHs \cap LiveVals : DeepEq(ValOf(h), ValOf(h))
  /\ \A h \in NewHs \cap LiveVals, g \in LiveVals : DeepEq(ValOf(h), ValOf(g)) <=> DeepEq(ValOf(g), ValOf(h))
  /\ \A h \in NewHs \cap LiveVals, g, f \in LiveVals :
        /\ (DeepEq(ValOf(h), ValOf(g)) /\ DeepEq(ValOf(g), ValOf(f))) => DeepEq(ValOf(h), ValOf(f))
        /\ (DeepEq(ValOf(g), ValOf(h)) /\ DeepEq(ValOf(h), ValOf(f))) => DeepEq(ValOf(g), ValOf(f))
  /\ \A h \in NewHs \cap LiveVals, g \in LiveVals : (ValOf(h) = ValOf(g)) => DeepEq(ValOf(h), ValOf(g))
(* ... and on the whole universe of the "deq" profile, evaluated once *)
DeqUniverseLaws ==
  /\ \A u \in DeqUniverse : DeepEq(u, u)
  /\ \A u, w \in DeqUniverse : DeepEq(u, w) <=> DeepEq(w, u)
  /\ \A u, w \in DeqUniverse : DeepEq(u, w) => \A z \in DeqUniverse : DeepEq(w, z) => DeepEq(u, z)
(* op:same-key is an equivalence on the key alphabet; the classes named by the property *)
SameKeyLaws ==
  /\ \A k \in KeysExt : SameKey(k, k)
  /\ \A k1, k2 \in KeysExt : SameKey(k1, k2) <=> SameKey(k2, k1)
  /\ \A k1, k2, k3 \in KeysExt : (SameKey(k1, k2) /\ SameKey(k2, k3)) => SameKey(k1, k3)
  /\ \A k1, k2 \in {I1, D1, E1, F1} : SameKey(k1, k2)                   \* numeric keys across types
  /\ SameKey(EN, FN) /\ SameKey(EN, EN) /\ SameKey(EI, FI)              \* NaN is the same key as NaN
  /\ \A k1, k2 \in {SA, UA, TA} : SameKey(k1, k2)                       \* string vs anyURI vs untypedAtomic
  /\ ~SameKey(BT, I1) /\ ~SameKey(BF, I0) /\ ~SameKey(QA, SA) /\ ~SameKey(SA, SB) /\ ~SameKey(I1, I2)
  /\ ~SameKey(EN, EI) /\ ~SameKey(DT, SA) /\ ~SameKey(I1, SA)
  /\ Cardinality({{k2 \in Keys13 : SameKey(k, k2)} : k \in Keys13}) = 7  \* 13 keys, 7 classes
  /\ \A k \in KeysX : SameKey(k, k)
  /\ \A k1, k2 \in KeysX : SameKey(k1, k2) <=> SameKey(k2, k1)
  /\ \A k1, k2, k3 \in KeysX : (SameKey(k1, k2) /\ SameKey(k2, k3)) => SameKey(k1, k3)
  /\ SameKey(IB1, DB1) /\ SameKey(IB0, EB0) /\ ~SameKey(IB1, EB0) /\ ~SameKey(DB1, EB0) /\ ~SameKey(IB1, IB0)
  /\ ~SameKey(D01, E01) /\ ~SameKey(D01, D05) /\ ~SameKey(E01, E05)       \* no promotion, no rounding
  /\ SameKey(D05, E05) /\ SameKey(E05, F05) /\ SameKey(D05, F05)
  /\ Cardinality({{k2 \in KeysX : SameKey(k, k2)} : k \in KeysX}) = 6
  /\ \A k \in KeysL \cup KeysZ : SameKey(k, k)
  /\ \A k1, k2 \in KeysL \cup KeysZ : SameKey(k1, k2) <=> SameKey(k2, k1)
  /\ \A k1, k2, k3 \in KeysL \cup KeysZ : (SameKey(k1, k2) /\ SameKey(k2, k3)) => SameKey(k1, k3)
  /\ SameKey(HXl, HXu) /\ ~SameKey(HXu, HXo) /\ SameKey(B6a, B6s) /\ ~SameKey(B6a, B6o)
  /\ ~SameKey(HX3, B6a) /\ ~SameKey(HX0, B60)                           \* same octets, types not comparable
  /\ SameKey(D1, D100) /\ SameKey(I1, D100) /\ SameKey(E1, D100) /\ SameKey(LG1, I1) /\ SameKey(UB1, E1) /\ SameKey(LG1, UB1)
  /\ SameKey(TMz, TMp) /\ ~SameKey(TMz, TMn) /\ ~SameKey(TMp, TMn)       \* timezone presence
  /\ SameKey(DD1, DD24) /\ SameKey(DD1, DU1) /\ SameKey(YM1, YM12) /\ ~SameKey(DD1, YM1) /\ SameKey(DD0, YM0)
  /\ SameKey(QP, QQ) /\ ~SameKey(QP, QA) /\ SameKey(BT, B1s) /\ SameKey(BF, B0s) /\ ~SameKey(B1s, I1) /\ ~SameKey(B0s, I0)
  /\ SameKey(SA, UA) /\ SameKey(SA, TA) /\ ~SameKey(NFC, NFD)
  /\ ~SameKey(GY, GYz) /\ SameKey(GYz, GYp)
  /\ \A k1, k2 \in {I0, D0, E0, EM0, F0, FM0} : SameKey(k1, k2)          \* zero of every numeric type, +0 and -0
  /\ \A k1, k2 \in {S0, U0, T0} : SameKey(k1, k2)
  /\ ~SameKey(S0, HX0) /\ ~SameKey(BF, I0) /\ ~SameKey(DD0, I0) /\ ~SameKey(S0, I0)
  /\ Cardinality({{k2 \in KeysL : SameKey(k, k2)} : k \in KeysL}) = 18
  /\ Cardinality({{k2 \in KeysZ : SameKey(k, k2)} : k \in KeysZ}) = 6
ASSUME SameKeyLaws
ASSUME Profile = "deq" => DeqUniverseLaws     \* 51^3 triples: once, in the run that uses the universe

(* LawsOfMap / LawsOfArr quantify over the whole parameter grid, i.e. over every out-edge of the
   state; they are therefore evaluated in the states that are expanded (the leaves of the bounded
   exploration only are results, already covered by the laws of their predecessor) *)
Expanded == Len(store) - NSeed < Depth
Laws == /\ WellFormed /\ DeepEqLaws
        /\ (Expanded /\ Profile # "deq") => PairLaws /\ ArrLaws
        /\ (Expanded /\ Profile \notin {"deq", "merge", "merge13", "mergex", "mergel", "lookupseq", "arrtyped"}) => MapLaws   \* single-entry maps: see the keys profiles
        /\ (Expanded /\ Profile = "forms") => FormLaw
=============================================================================
