-------------------------------- MODULE EBV --------------------------------
(***************************************************************************)
(* Property C07, part 1: the VALUE MODEL shared by Compare and Logic, the  *)
(* effective boolean value (XPath 2.0/3.1 section 2.4.3, F&O fn:boolean)   *)
(* and the truth tables of and / or / fn:not / if (XPath 2.0 section 3.6,  *)
(* 3.8).  Pure definitions: no variables.  The machines are in Compare.tla *)
(* (comparison actions) and Logic.tla (boolean/not/and/or/if actions).     *)
(*                                                                         *)
(* Items are tagged records with type-specific field names:                *)
(*   numeric  [t |-> "int"|"dec"|"flt"|"dbl", k |-> "fin"|"nan"|"pinf"|"ninf", n, nz] *)
(*            a finite value is EXACTLY n / Unit (Unit = 2^24): every      *)
(*            numeric value of the universe lies on this dyadic grid, so   *)
(*            promotion int -> dec -> flt -> dbl is exact and comparison   *)
(*            is integer comparison of n.  nz marks IEEE negative zero.    *)
(*   string   [t |-> "str"|"unt"|"uri", s]   s = sequence of code points   *)
(*   boolean  [t |-> "bool", b]                                            *)
(*   QName    [t |-> "qn", ns, p, l, lex]    (namespace, prefix, local)    *)
(*   date..   [t |-> "date"|"dt"|"time", f, lex]  f = field tuple; all     *)
(*            values WITHOUT timezone (one implicit timezone: the order is *)
(*            the lexicographic order of the fields)                       *)
(*   duration [t |-> "ymd"|"dtd"|"dur", mo, se, lex]  months, se = <<whole *)
(*            seconds, microseconds>> (the finest resolution of the        *)
(*            lexical space the library keeps); date/time field tuples end *)
(*            with a microseconds component as well                        *)
(*   binary   [t |-> "hex"|"b64", o, lex]    o = sequence of octets        *)
(*   node     [t |-> "node", s]   an untyped element node, string value s  *)
(* `lex` is the canonical lexical form (code points) -- data of the        *)
(* universe, needed where the rules cast a value to xs:string or cast an   *)
(* xs:untypedAtomic to the type of the other operand.                      *)
(*                                                                         *)
(* Outcomes are strings: "TRUE" "FALSE" "EMPTY" or an error code           *)
(* "XPTY0004" "FORG0001" "FORG0006".  Where the W3C text permits several   *)
(* outcomes (errors vs. short-circuit, section 2.3.4 "Errors and           *)
(* Optimization") operators return the SET of permitted outcomes.          *)
(***************************************************************************)
EXTENDS Integers, Sequences, FiniteSets, TLC

Unit == 16777216                         \* 2^24
Num(t, n)     == [t |-> t, k |-> "fin", n |-> n, nz |-> FALSE]
NegZero(t)    == [t |-> t, k |-> "fin", n |-> 0, nz |-> TRUE]
Special(t, k) == [t |-> t, k |-> k, n |-> 0, nz |-> FALSE]
Str(s)  == [t |-> "str", s |-> s]
Unt(s)  == [t |-> "unt", s |-> s]
Uri(s)  == [t |-> "uri", s |-> s]
Bool(b) == [t |-> "bool", b |-> b]
QN(ns, p, l) == [t |-> "qn", ns |-> ns, p |-> p, l |-> l,
                 lex |-> IF p = <<>> THEN l ELSE p \o <<58>> \o l]
Date(f, lex) == [t |-> "date", f |-> f, lex |-> lex]
DT(f, lex)   == [t |-> "dt", f |-> f, lex |-> lex]
Time(f, lex) == [t |-> "time", f |-> f, lex |-> lex]
YMD(mo, lex)     == [t |-> "ymd", mo |-> mo, se |-> <<0, 0>>, lex |-> lex]
DTD(se, lex)     == [t |-> "dtd", mo |-> 0, se |-> se, lex |-> lex]
Dur(mo, se, lex) == [t |-> "dur", mo |-> mo, se |-> se, lex |-> lex]
Hex(o, lex) == [t |-> "hex", o |-> o, lex |-> lex]
B64(o, lex) == [t |-> "b64", o |-> o, lex |-> lex]
Node(s) == [t |-> "node", s |-> s]
Err(c)  == [t |-> "err", code |-> c]

IsNumT(t)  == t \in {"int", "dec", "flt", "dbl"}
IsStrT(t)  == t \in {"str", "unt", "uri"}          \* EBV by length
IsDurT(t)  == t \in {"ymd", "dtd", "dur"}
IsNaN(v)   == v.k = "nan"
IsZero(v)  == v.k = "fin" /\ v.n = 0

---------------------------------------------------------------------------
(* strings of the universe, as code points *)
S_empty   == <<>>                                \* ""
S_1       == <<49>>                              \* "1"
S_1p0     == <<49, 46, 48>>                      \* "1.0"
S_abc     == <<97, 98, 99>>                      \* "abc"
S_abd     == <<97, 98, 100>>                     \* "abd"
S_B       == <<66>>                              \* "B"   ('B' < 'a' in code point order)
S_true    == <<116, 114, 117, 101>>              \* "true"
S_false   == <<102, 97, 108, 115, 101>>          \* "false"
S_date1   == <<50, 48, 48, 48, 45, 48, 49, 45, 48, 49>>     \* "2000-01-01"
S_date2   == <<50, 48, 48, 48, 45, 48, 49, 45, 48, 50>>     \* "2000-01-02"
S_dt1     == <<50, 48, 48, 48, 45, 48, 49, 45, 48, 49, 84, 48, 48, 58, 48, 48, 58, 48, 48>>   \* "2000-01-01T00:00:00"
S_dt2     == <<50, 48, 48, 48, 45, 48, 49, 45, 48, 49, 84, 49, 50, 58, 48, 48, 58, 48, 48>>   \* "2000-01-01T12:00:00"
S_time1   == <<48, 48, 58, 48, 48, 58, 48, 48>>  \* "00:00:00"
S_time2   == <<49, 50, 58, 48, 48, 58, 48, 48>>  \* "12:00:00"
S_P1M     == <<80, 49, 77>>                      \* "P1M"
S_P1Y     == <<80, 49, 89>>                      \* "P1Y"
S_mP1M    == <<45, 80, 49, 77>>                  \* "-P1M"
S_P0M     == <<80, 48, 77>>                      \* "P0M"
S_PT0S    == <<80, 84, 48, 83>>                  \* "PT0S"
S_P1D     == <<80, 49, 68>>                      \* "P1D"
S_P1DT12H == <<80, 49, 68, 84, 49, 50, 72>>      \* "P1DT12H"
S_P1M1D   == <<80, 49, 77, 49, 68>>              \* "P1M1D"
S_PT400us == <<80, 84, 48, 46, 48, 48, 48, 52, 83>>   \* "PT0.0004S"
S_PT700us == <<80, 84, 48, 46, 48, 48, 48, 55, 83>>   \* "PT0.0007S"
S_dt1a    == <<50, 48, 48, 48, 45, 48, 49, 45, 48, 49, 84, 48, 48, 58, 48, 48, 58, 48, 48, 46, 48, 48, 48, 52>>   \* "2000-01-01T00:00:00.0004"
S_dt1b    == <<50, 48, 48, 48, 45, 48, 49, 45, 48, 49, 84, 48, 48, 58, 48, 48, 58, 48, 48, 46, 48, 48, 48, 55>>   \* "2000-01-01T00:00:00.0007"
S_time1a  == <<48, 48, 58, 48, 48, 58, 48, 48, 46, 48, 48, 48, 52>>   \* "00:00:00.0004"
S_time1b  == <<48, 48, 58, 48, 48, 58, 48, 48, 46, 48, 48, 48, 55>>   \* "00:00:00.0007"
S_0A      == <<48, 65>>                          \* "0A"
S_0B      == <<48, 66>>                          \* "0B"
S_0A0B    == <<48, 65, 48, 66>>                  \* "0A0B"
S_Cg      == <<67, 103, 61, 61>>                 \* "Cg=="  (base64 of octet 0A)
S_Cw      == <<67, 119, 61, 61>>                 \* "Cw=="  (base64 of octet 0B)
S_a       == <<97>>                              \* "a"
S_b       == <<98>>                              \* "b"
S_xs      == <<120, 115>>                        \* "xs"
S_xsns    == <<104, 116, 116, 112, 58, 47, 47, 119, 119, 119, 46, 119, 51, 46, 111, 114, 103, 47, 50, 48,
               48, 49, 47, 88, 77, 76, 83, 99, 104, 101, 109, 97>>   \* "http://www.w3.org/2001/XMLSchema"

---------------------------------------------------------------------------
(* the universe: two values per type plus the boundary ones *)
I0 == Num("int", 0)          I1 == Num("int", Unit)      I2 == Num("int", 2 * Unit)
IN1 == Num("int", -Unit)
D1 == Num("dec", Unit)       D1h == Num("dec", Unit + Unit \div 2)             \* 1.0  1.5
F1 == Num("flt", Unit)       F2 == Num("flt", 2 * Unit)
F2m == Num("flt", 2 * Unit - 2)          \* 2 - 2^-23 = 1.99999988079071044921875: the xs:float below 2
FNaN == Special("flt", "nan")
Db0 == Num("dbl", 0)          DbN0 == NegZero("dbl")       Db1 == Num("dbl", Unit)
Db1e == Num("dbl", Unit + 1)              \* 1 + 2^-24 = 1.000000059604644775390625: a double close to 1
Db1h == Num("dbl", Unit + Unit \div 2)
DbNaN == Special("dbl", "nan")  DbInf == Special("dbl", "pinf")  DbNInf == Special("dbl", "ninf")
Numerics == {I0, I1, I2, IN1, D1, D1h, F1, F2, F2m, FNaN, Db0, DbN0, Db1, Db1e, Db1h, DbNaN, DbInf, DbNInf}

Strings  == {Str(S_empty), Str(S_1), Str(S_abc), Str(S_abd), Str(S_B)}
Untypeds == {Unt(S_1), Unt(S_1p0), Unt(S_abc), Unt(S_empty), Unt(S_date1), Unt(S_P1M), Unt(S_0A), Unt(S_true)}
Uris     == {Uri(S_abc), Uri(S_abd)}
Bools    == {Bool(TRUE), Bool(FALSE)}
QNa   == QN(<<>>, <<>>, S_a)      QNb == QN(<<>>, <<>>, S_b)     QNxa == QN(S_xsns, S_xs, S_a)
QNabc == QN(<<>>, <<>>, S_abc)    \* only a cast result, not an operand
Date1 == Date(<<2000, 1, 1>>, S_date1)                 Date2 == Date(<<2000, 1, 2>>, S_date2)
DT1   == DT(<<2000, 1, 1, 0, 0, 0, 0>>, S_dt1)         DT2   == DT(<<2000, 1, 1, 12, 0, 0, 0>>, S_dt2)
DT1a  == DT(<<2000, 1, 1, 0, 0, 0, 400>>, S_dt1a)      DT1b  == DT(<<2000, 1, 1, 0, 0, 0, 700>>, S_dt1b)   \* differ below 1 ms
Time1 == Time(<<0, 0, 0, 0>>, S_time1)                 Time2 == Time(<<12, 0, 0, 0>>, S_time2)
Time1a == Time(<<0, 0, 0, 400>>, S_time1a)             Time1b == Time(<<0, 0, 0, 700>>, S_time1b)
Y1M == YMD(1, S_P1M)   Y1Y == YMD(12, S_P1Y)   YN1M == YMD(-1, S_mP1M)   Y0 == YMD(0, S_P0M)
T0  == DTD(<<0, 0>>, S_PT0S)  T1D == DTD(<<86400, 0>>, S_P1D)   T36H == DTD(<<129600, 0>>, S_P1DT12H)
T400us == DTD(<<0, 400>>, S_PT400us)   T700us == DTD(<<0, 700>>, S_PT700us)     \* PT0.0004S, PT0.0007S: equal up to the millisecond
U1M == Dur(1, <<0, 0>>, S_P1M)   U1M1D == Dur(1, <<86400, 0>>, S_P1M1D)
H0A == Hex(<<10>>, S_0A)   H0B == Hex(<<11>>, S_0B)   H0A0B == Hex(<<10, 11>>, S_0A0B)
X0A == B64(<<10>>, S_Cg)   X0B == B64(<<11>>, S_Cw)
Others == {QNa, QNb, QNxa, Date1, Date2, DT1, DT2, DT1a, DT1b, Time1, Time2, Time1a, Time1b, Y1M, Y1Y, YN1M, Y0, T0, T1D, T36H,
           T400us, T700us,
           U1M, U1M1D, H0A, H0B, H0A0B, X0A, X0B}
Atoms  == Numerics \cup Strings \cup Untypeds \cup Uris \cup Bools \cup Others
N1   == Node(S_1)     Nabc == Node(S_abc)
Nodes == {N1, Nabc}
Items == Atoms \cup Nodes

(* items that occur in sequences of length >= 2 *)
SeqItems == {I1, I2, DbNaN, Unt(S_1), Unt(S_abc), Str(S_abc), Bool(TRUE), Date1, N1}
SeqItems3 == {I1, I2, Unt(S_1), Unt(S_abc), Str(S_abc), Bool(TRUE)}

---------------------------------------------------------------------------
(* Effective boolean value, XPath 2.0 / 3.1 section 2.4.3 (= fn:boolean, F&O 15.1.1):
   1 empty sequence -> false;  2 first item is a node -> true;  3 singleton xs:boolean -> itself;
   4 singleton xs:string, xs:anyURI, xs:untypedAtomic -> length > 0;
   5 singleton numeric -> false iff NaN or zero;  6 all other cases: err:FORG0006 *)
B2O(b) == IF b THEN "TRUE" ELSE "FALSE"
EBVOf(S) ==
  IF S = <<>> THEN "FALSE"
  ELSE IF S[1].t = "node" THEN "TRUE"
  ELSE IF Len(S) > 1 THEN "FORG0006"
  ELSE LET v == S[1] IN
       IF v.t = "bool" THEN B2O(v.b)
       ELSE IF IsStrT(v.t) THEN B2O(Len(v.s) > 0)
       ELSE IF IsNumT(v.t) THEN B2O(~(IsNaN(v) \/ IsZero(v)))
       ELSE "FORG0006"

IsErrO(o) == o \notin {"TRUE", "FALSE", "EMPTY", "THEN", "ELSE"}

(* Logical expressions, XPath 2.0 section 3.6.  a, b are the EBV outcomes of the operands.
   Table of `and`:  true/true -> true; false with true/false -> false; true with error -> error;
   false with error -> "false or error" (either order); error/error -> error.
   ordered = TRUE is XPath 1.0 compatibility mode: "the order in which the operands are evaluated
   is [left to right] ... the second operand is not evaluated if the first determines the result". *)
AndOut(a, b, ordered) ==
  IF ordered THEN (IF a = "TRUE" THEN {b} ELSE {a})
  ELSE IF IsErrO(a) /\ IsErrO(b) THEN {a, b}
  ELSE IF IsErrO(a) THEN (IF b = "FALSE" THEN {"FALSE", a} ELSE {a})
  ELSE IF IsErrO(b) THEN (IF a = "FALSE" THEN {"FALSE", b} ELSE {b})
  ELSE {B2O(a = "TRUE" /\ b = "TRUE")}
OrOut(a, b, ordered) ==
  IF ordered THEN (IF a = "FALSE" THEN {b} ELSE {a})
  ELSE IF IsErrO(a) /\ IsErrO(b) THEN {a, b}
  ELSE IF IsErrO(a) THEN (IF b = "TRUE" THEN {"TRUE", a} ELSE {a})
  ELSE IF IsErrO(b) THEN (IF a = "TRUE" THEN {"TRUE", b} ELSE {b})
  ELSE {B2O(a = "TRUE" \/ b = "TRUE")}
NotOut(a) == IF a = "TRUE" THEN "FALSE" ELSE IF a = "FALSE" THEN "TRUE" ELSE a      \* fn:not
IfOut(a)  == IF a = "TRUE" THEN "THEN" ELSE IF a = "FALSE" THEN "ELSE" ELSE a       \* if (S) then .. else ..

Cfgs == {"v20", "v30", "v31", "c20", "c31", "c10"}
(* v20 v30 v31: the XPath 2.0 / 3.0 / 3.1 processors; c20 c31: the same with XPath 1.0 compatibility
   mode; c10: an XPath 1.0 processor (its comparison and logic rules are the compatibility rules) *)
IsCompat(c) == c \in {"c20", "c31", "c10"}

---------------------------------------------------------------------------
(* Laws of the tables (state independent; evaluated once by TLC as ASSUME in Logic.tla) *)
EBVOutcomes == {"TRUE", "FALSE", "FORG0006"}
LawDeMorgan ==
  \A a \in EBVOutcomes, b \in EBVOutcomes, m \in BOOLEAN :
     /\ {NotOut(o) : o \in AndOut(a, b, m)} = OrOut(NotOut(a), NotOut(b), m)
     /\ {NotOut(o) : o \in OrOut(a, b, m)} = AndOut(NotOut(a), NotOut(b), m)
LawBooleanAlgebra ==
  \A a \in {"TRUE", "FALSE"}, b \in {"TRUE", "FALSE"}, m \in BOOLEAN :
     /\ \A x \in OrOut(a, b, m) : AndOut(a, x, m) = {a}                 \* absorption
     /\ \A x \in AndOut(a, b, m) : OrOut(a, x, m) = {a}
     /\ AndOut(a, a, m) = {a} /\ OrOut(a, a, m) = {a}                   \* idempotence
     /\ AndOut(a, b, m) = AndOut(b, a, m) /\ OrOut(a, b, m) = OrOut(b, a, m)
     /\ AndOut(a, NotOut(a), m) = {"FALSE"} /\ OrOut(a, NotOut(a), m) = {"TRUE"}
     /\ NotOut(NotOut(a)) = a
LawOrderAdmissible ==       \* left-to-right evaluation is one of the outcomes XPath 2.0 permits
  \A a \in EBVOutcomes, b \in EBVOutcomes :
     /\ AndOut(a, b, TRUE) \subseteq AndOut(a, b, FALSE) /\ AndOut(a, b, FALSE) = AndOut(b, a, FALSE)
     /\ OrOut(a, b, TRUE) \subseteq OrOut(a, b, FALSE) /\ OrOut(a, b, FALSE) = OrOut(b, a, FALSE)
LawIf == \A a \in EBVOutcomes : (IfOut(a) = "THEN" <=> a = "TRUE") /\ (IfOut(a) = "ELSE" <=> a = "FALSE")
                                 /\ (IsErrO(a) => IfOut(a) = a)
TableLaws == LawDeMorgan /\ LawBooleanAlgebra /\ LawOrderAdmissible /\ LawIf
=============================================================================
