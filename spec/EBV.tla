-------------------------------- MODULE EBV --------------------------------
(***************************************************************************)
(* Property C07, part 1: the VALUE MODEL shared by Compare and Logic, the  *)
(* effective boolean value (XPath 2.0/3.1 section 2.4.3, F&O fn:boolean)   *)
(* and the truth tables of and / or / fn:not / if (XPath 2.0 section 3.6,  *)
(* 3.8).  Pure definitions: no variables.  The machines are in Compare.tla *)
(* (comparison actions) and Logic.tla (boolean/not/and/or/if actions).     *)
(*                                                                         *)
(* Items are tagged records with type-specific field names:                *)
(*   numeric  [t |-> "int"|"dec"|"flt"|"dbl", k |-> "fin"|"nan"|"pinf"|"ninf", n, nz] *)
(*            a finite value is EXACTLY n / Unit (Unit = 2^24): every      *)
(*            numeric value of the universe lies on this dyadic grid, so   *)
(*            promotion int -> dec -> flt -> dbl is exact and comparison   *)
(*            is integer comparison of n.  nz marks IEEE negative zero.    *)
(*   string   [t |-> "str"|"unt"|"uri", s]   s = sequence of code points   *)
(*   boolean  [t |-> "bool", b]                                            *)
(*   QName    [t |-> "qn", ns, p, l, lex]    (namespace, prefix, local)    *)
(*   date..   [t |-> "date"|"dt"|"time"|"gy".., dn, s, us, tz, lex]  a    *)
(*            point of the timeline given by day number, second of the day,*)
(*            microseconds and timezone offset (minutes, or NoTZ)          *)
(*   duration [t |-> "ymd"|"dtd"|"dur", mo, se, lex]  months, se = <<whole *)
(*            seconds, microseconds>> (the finest resolution of the        *)
(*            lexical space the library keeps); date/time field tuples end *)
(*            with a microseconds component as well                        *)
(*   binary   [t |-> "hex"|"b64", o, lex]    o = sequence of octets        *)
(*   node     [t |-> "node", s]   an untyped element node, string value s  *)
(* `lex` is the canonical lexical form (code points) -- data of the        *)
(* universe, needed where the rules cast a value to xs:string or cast an   *)
(* xs:untypedAtomic to the type of the other operand.                      *)
(*                                                                         *)
(* Outcomes are strings: "TRUE" "FALSE" "EMPTY" or an error code           *)
(* "XPTY0004" "FORG0001" "FORG0006".  Where the W3C text permits several   *)
(* outcomes (errors vs. short-circuit, section 2.3.4 "Errors and           *)
(* Optimization") operators return the SET of permitted outcomes.          *)
(***************************************************************************)
EXTENDS Integers, Sequences, FiniteSets, TLC

Unit == 16777216                         \* 2^24
Num(t, n)     == [t |-> t, k |-> "fin", n |-> n, nz |-> FALSE]
NegZero(t)    == [t |-> t, k |-> "fin", n |-> 0, nz |-> TRUE]
Special(t, k) == [t |-> t, k |-> k, n |-> 0, nz |-> FALSE]
Str(s)  == [t |-> "str", s |-> s]
Unt(s)  == [t |-> "unt", s |-> s]
Uri(s)  == [t |-> "uri", s |-> s]
Bool(b) == [t |-> "bool", b |-> b]
QN(ns, p, l) == [t |-> "qn", ns |-> ns, p |-> p, l |-> l,
                 lex |-> IF p = <<>> THEN l ELSE p \o <<58>> \o l]
(* date/time values: dn = day number relative to 2000-01-01 (a date, the date part of a dateTime; 0 for
   a time), s = second of the day, us = microseconds, tz = timezone offset in minutes or NoTZ.
   g* values (gYear gYearMonth gMonth gMonthDay gDay): dn = day number of their starting instant
   relative to the reference point of the type (calendar arithmetic is property C11's business) *)
NoTZ == 9999
TP(t, dn, sec, us, tz, lex) == [t |-> t, dn |-> dn, s |-> sec, us |-> us, tz |-> tz, lex |-> lex]
Date(dn, lex)       == TP("date", dn, 0, 0, NoTZ, lex)
DT(dn, sec, us, lex) == TP("dt", dn, sec, us, NoTZ, lex)
Time(sec, us, lex)  == TP("time", 0, sec, us, NoTZ, lex)
YMD(mo, lex)     == [t |-> "ymd", mo |-> mo, se |-> <<0, 0>>, lex |-> lex]
DTD(se, lex)     == [t |-> "dtd", mo |-> 0, se |-> se, lex |-> lex]
Dur(mo, se, lex) == [t |-> "dur", mo |-> mo, se |-> se, lex |-> lex]
Hex(o, lex) == [t |-> "hex", o |-> o, lex |-> lex]
B64(o, lex) == [t |-> "b64", o |-> o, lex |-> lex]
Node(s) == [t |-> "node", s |-> s]
Err(c)  == [t |-> "err", code |-> c]

IsNumT(t)  == t \in {"int", "dec", "flt", "dbl"}
IsStrT(t)  == t \in {"str", "unt", "uri"}          \* EBV by length
IsTimeT(t) == t \in {"date", "dt", "time"}
IsGT(t)    == t \in {"gy", "gym", "gm", "gmd", "gd"}
IsDurT(t)  == t \in {"ymd", "dtd", "dur"}
IsNaN(v)   == v.k = "nan"
IsZero(v)  == v.k = "fin" /\ v.n = 0

---------------------------------------------------------------------------
(* strings of the universe, as code points *)
S_empty   == <<>>                                \* ""
S_1       == <<49>>                              \* "1"
S_1p0     == <<49, 46, 48>>                      \* "1.0"
S_abc     == <<97, 98, 99>>                      \* "abc"
S_abd     == <<97, 98, 100>>                     \* "abd"
S_B       == <<66>>                              \* "B"   ('B' < 'a' in code point order)
S_true    == <<116, 114, 117, 101>>              \* "true"
S_false   == <<102, 97, 108, 115, 101>>          \* "false"
S_date1   == <<50, 48, 48, 48, 45, 48, 49, 45, 48, 49>>     \* "2000-01-01"
S_date2   == <<50, 48, 48, 48, 45, 48, 49, 45, 48, 50>>     \* "2000-01-02"
S_dt1     == <<50, 48, 48, 48, 45, 48, 49, 45, 48, 49, 84, 48, 48, 58, 48, 48, 58, 48, 48>>   \* "2000-01-01T00:00:00"
S_dt2     == <<50, 48, 48, 48, 45, 48, 49, 45, 48, 49, 84, 49, 50, 58, 48, 48, 58, 48, 48>>   \* "2000-01-01T12:00:00"
S_time1   == <<48, 48, 58, 48, 48, 58, 48, 48>>  \* "00:00:00"
S_time2   == <<49, 50, 58, 48, 48, 58, 48, 48>>  \* "12:00:00"
S_P1M     == <<80, 49, 77>>                      \* "P1M"
S_P1Y     == <<80, 49, 89>>                      \* "P1Y"
S_mP1M    == <<45, 80, 49, 77>>                  \* "-P1M"
S_P0M     == <<80, 48, 77>>                      \* "P0M"
S_PT0S    == <<80, 84, 48, 83>>                  \* "PT0S"
S_P1D     == <<80, 49, 68>>                      \* "P1D"
S_P1DT12H == <<80, 49, 68, 84, 49, 50, 72>>      \* "P1DT12H"
S_P1M1D   == <<80, 49, 77, 49, 68>>              \* "P1M1D"
S_PT400us == <<80, 84, 48, 46, 48, 48, 48, 52, 83>>   \* "PT0.0004S"
S_PT700us == <<80, 84, 48, 46, 48, 48, 48, 55, 83>>   \* "PT0.0007S"
S_dt1a    == <<50, 48, 48, 48, 45, 48, 49, 45, 48, 49, 84, 48, 48, 58, 48, 48, 58, 48, 48, 46, 48, 48, 48, 52>>   \* "2000-01-01T00:00:00.0004"
S_dt1b    == <<50, 48, 48, 48, 45, 48, 49, 45, 48, 49, 84, 48, 48, 58, 48, 48, 58, 48, 48, 46, 48, 48, 48, 55>>   \* "2000-01-01T00:00:00.0007"
S_time1a  == <<48, 48, 58, 48, 48, 58, 48, 48, 46, 48, 48, 48, 52>>   \* "00:00:00.0004"
S_time1b  == <<48, 48, 58, 48, 48, 58, 48, 48, 46, 48, 48, 48, 55>>   \* "00:00:00.0007"
S_0A      == <<48, 65>>                          \* "0A"
S_0B      == <<48, 66>>                          \* "0B"
S_0A0B    == <<48, 65, 48, 66>>                  \* "0A0B"
S_Cg      == <<67, 103, 61, 61>>                 \* "Cg=="  (base64 of octet 0A)
S_Cw      == <<67, 119, 61, 61>>                 \* "Cw=="  (base64 of octet 0B)
S_a       == <<97>>                              \* "a"
S_b       == <<98>>                              \* "b"
S_xs      == <<120, 115>>                        \* "xs"
S_xsns    == <<104, 116, 116, 112, 58, 47, 47, 119, 119, 119, 46, 119, 51, 46, 111, 114, 103, 47, 50, 48,
               48, 49, 47, 88, 77, 76, 83, 99, 104, 101, 109, 97>>   \* "http://www.w3.org/2001/XMLSchema"

---------------------------------------------------------------------------
(* the universe: two values per type plus the boundary ones *)
I0 == Num("int", 0)          I1 == Num("int", Unit)      I2 == Num("int", 2 * Unit)
IN1 == Num("int", -Unit)
D1 == Num("dec", Unit)       D1h == Num("dec", Unit + Unit \div 2)             \* 1.0  1.5
F1 == Num("flt", Unit)       F2 == Num("flt", 2 * Unit)
F2m == Num("flt", 2 * Unit - 2)          \* 2 - 2^-23 = 1.99999988079071044921875: the xs:float below 2
FNaN == Special("flt", "nan")
Db0 == Num("dbl", 0)          DbN0 == NegZero("dbl")       Db1 == Num("dbl", Unit)
Db1e == Num("dbl", Unit + 1)              \* 1 + 2^-24 = 1.000000059604644775390625: a double close to 1
Db1h == Num("dbl", Unit + Unit \div 2)
DbNaN == Special("dbl", "nan")  DbInf == Special("dbl", "pinf")  DbNInf == Special("dbl", "ninf")
Numerics == {I0, I1, I2, IN1, D1, D1h, F1, F2, F2m, FNaN, Db0, DbN0, Db1, Db1e, Db1h, DbNaN, DbInf, DbNInf}

Strings  == {Str(S_empty), Str(S_1), Str(S_abc), Str(S_abd), Str(S_B)}
Untypeds == {Unt(S_1), Unt(S_1p0), Unt(S_abc), Unt(S_empty), Unt(S_date1), Unt(S_P1M), Unt(S_0A), Unt(S_true)}
Uris     == {Uri(S_abc), Uri(S_abd)}
Bools    == {Bool(TRUE), Bool(FALSE)}
QNa   == QN(<<>>, <<>>, S_a)      QNb == QN(<<>>, <<>>, S_b)     QNxa == QN(S_xsns, S_xs, S_a)
QNabc == QN(<<>>, <<>>, S_abc)    \* only a cast result, not an operand
Date1 == Date(0, S_date1)                 Date2 == Date(1, S_date2)
DT1   == DT(0, 0, 0, S_dt1)               DT2   == DT(0, 43200, 0, S_dt2)
DT1a  == DT(0, 0, 400, S_dt1a)            DT1b  == DT(0, 0, 700, S_dt1b)         \* differ below 1 ms
Time1 == Time(0, 0, S_time1)              Time2 == Time(43200, 0, S_time2)
Time1a == Time(0, 400, S_time1a)          Time1b == Time(0, 700, S_time1b)
Y1M == YMD(1, S_P1M)   Y1Y == YMD(12, S_P1Y)   YN1M == YMD(-1, S_mP1M)   Y0 == YMD(0, S_P0M)
T0  == DTD(<<0, 0>>, S_PT0S)  T1D == DTD(<<86400, 0>>, S_P1D)   T36H == DTD(<<129600, 0>>, S_P1DT12H)
T400us == DTD(<<0, 400>>, S_PT400us)   T700us == DTD(<<0, 700>>, S_PT700us)     \* PT0.0004S, PT0.0007S: equal up to the millisecond
U1M == Dur(1, <<0, 0>>, S_P1M)   U1M1D == Dur(1, <<86400, 0>>, S_P1M1D)
H0A == Hex(<<10>>, S_0A)   H0B == Hex(<<11>>, S_0B)   H0A0B == Hex(<<10, 11>>, S_0A0B)
X0A == B64(<<10>>, S_Cg)   X0B == B64(<<11>>, S_Cw)
Others == {QNa, QNb, QNxa, Date1, Date2, DT1, DT2, DT1a, DT1b, Time1, Time2, Time1a, Time1b, Y1M, Y1Y, YN1M, Y0, T0, T1D, T36H,
           T400us, T700us,
           U1M, U1M1D, H0A, H0B, H0A0B, X0A, X0B}
Atoms  == Numerics \cup Strings \cup Untypeds \cup Uris \cup Bools \cup Others
N1   == Node(S_1)     Nabc == Node(S_abc)
Nodes == {N1, Nabc}

---------------------------------------------------------------------------
(* EXTENSION UNIVERSE.  These items are compared only with selected partners (Partner below), so that
   the number of operand pairs stays linear in their number.
   TzItems: date/time values with a timezone -- zero hour field with minutes of both signs (+00:30
   -00:30 -00:01), half hours, the extremes +14:00 / -14:00, Z -- chosen so that many denote the SAME
   instant (2000-01-01T12:00:00Z); g* values without / with timezones.  Partners: the values of the
   same type.  Values without timezone take the implicit timezone of the dynamic context (ImplicitTZ,
   set by the binding through the `timezone` argument).
   WsItems: xs:untypedAtomic values and untyped nodes whose lexical form is padded with XML white
   space (space, tab, CR, LF, mixtures).  Partners: one value of every type an untypedAtomic is cast
   to, plus strings/untyped (where the white space is significant). *)
DTzZ == TP("dt", 0, 43200, 0, 0, <<50, 48, 48, 48, 45, 48, 49, 45, 48, 49, 84, 49, 50, 58, 48, 48, 58, 48, 48, 90>>)   \* xs:dateTime("2000-01-01T12:00:00Z")
DTzP30 == TP("dt", 0, 45000, 0, 30, <<50, 48, 48, 48, 45, 48, 49, 45, 48, 49, 84, 49, 50, 58, 51, 48, 58, 48, 48, 43, 48, 48, 58, 51, 48>>)   \* xs:dateTime("2000-01-01T12:30:00+00:30")
DTzM30 == TP("dt", 0, 41400, 0, -30, <<50, 48, 48, 48, 45, 48, 49, 45, 48, 49, 84, 49, 49, 58, 51, 48, 58, 48, 48, 45, 48, 48, 58, 51, 48>>)   \* xs:dateTime("2000-01-01T11:30:00-00:30")
DTzM30b == TP("dt", 0, 43200, 0, -30, <<50, 48, 48, 48, 45, 48, 49, 45, 48, 49, 84, 49, 50, 58, 48, 48, 58, 48, 48, 45, 48, 48, 58, 51, 48>>)   \* xs:dateTime("2000-01-01T12:00:00-00:30")
DTzM01 == TP("dt", 0, 43140, 0, -1, <<50, 48, 48, 48, 45, 48, 49, 45, 48, 49, 84, 49, 49, 58, 53, 57, 58, 48, 48, 45, 48, 48, 58, 48, 49>>)   \* xs:dateTime("2000-01-01T11:59:00-00:01")
DTzP530 == TP("dt", 0, 63000, 0, 330, <<50, 48, 48, 48, 45, 48, 49, 45, 48, 49, 84, 49, 55, 58, 51, 48, 58, 48, 48, 43, 48, 53, 58, 51, 48>>)   \* xs:dateTime("2000-01-01T17:30:00+05:30")
DTzM530 == TP("dt", 0, 23400, 0, -330, <<50, 48, 48, 48, 45, 48, 49, 45, 48, 49, 84, 48, 54, 58, 51, 48, 58, 48, 48, 45, 48, 53, 58, 51, 48>>)   \* xs:dateTime("2000-01-01T06:30:00-05:30")
DTzP14 == TP("dt", 1, 7200, 0, 840, <<50, 48, 48, 48, 45, 48, 49, 45, 48, 50, 84, 48, 50, 58, 48, 48, 58, 48, 48, 43, 49, 52, 58, 48, 48>>)   \* xs:dateTime("2000-01-02T02:00:00+14:00")
DTzM14 == TP("dt", -1, 79200, 0, -840, <<49, 57, 57, 57, 45, 49, 50, 45, 51, 49, 84, 50, 50, 58, 48, 48, 58, 48, 48, 45, 49, 52, 58, 48, 48>>)   \* xs:dateTime("1999-12-31T22:00:00-14:00")
DzZ == TP("date", 0, 0, 0, 0, <<50, 48, 48, 48, 45, 48, 49, 45, 48, 49, 90>>)   \* xs:date("2000-01-01Z")
DzP30 == TP("date", 0, 0, 0, 30, <<50, 48, 48, 48, 45, 48, 49, 45, 48, 49, 43, 48, 48, 58, 51, 48>>)   \* xs:date("2000-01-01+00:30")
DzM30 == TP("date", 0, 0, 0, -30, <<50, 48, 48, 48, 45, 48, 49, 45, 48, 49, 45, 48, 48, 58, 51, 48>>)   \* xs:date("2000-01-01-00:30")
DzM01 == TP("date", 0, 0, 0, -1, <<50, 48, 48, 48, 45, 48, 49, 45, 48, 49, 45, 48, 48, 58, 48, 49>>)   \* xs:date("2000-01-01-00:01")
DzP530 == TP("date", 0, 0, 0, 330, <<50, 48, 48, 48, 45, 48, 49, 45, 48, 49, 43, 48, 53, 58, 51, 48>>)   \* xs:date("2000-01-01+05:30")
DzM530 == TP("date", 0, 0, 0, -330, <<50, 48, 48, 48, 45, 48, 49, 45, 48, 49, 45, 48, 53, 58, 51, 48>>)   \* xs:date("2000-01-01-05:30")
DzP14 == TP("date", 1, 0, 0, 840, <<50, 48, 48, 48, 45, 48, 49, 45, 48, 50, 43, 49, 52, 58, 48, 48>>)   \* xs:date("2000-01-02+14:00")
DzM14 == TP("date", 0, 0, 0, -840, <<50, 48, 48, 48, 45, 48, 49, 45, 48, 49, 45, 49, 52, 58, 48, 48>>)   \* xs:date("2000-01-01-14:00")
TzZ == TP("time", 0, 43200, 0, 0, <<49, 50, 58, 48, 48, 58, 48, 48, 90>>)   \* xs:time("12:00:00Z")
TzP30 == TP("time", 0, 45000, 0, 30, <<49, 50, 58, 51, 48, 58, 48, 48, 43, 48, 48, 58, 51, 48>>)   \* xs:time("12:30:00+00:30")
TzM30 == TP("time", 0, 41400, 0, -30, <<49, 49, 58, 51, 48, 58, 48, 48, 45, 48, 48, 58, 51, 48>>)   \* xs:time("11:30:00-00:30")
TzM30b == TP("time", 0, 43200, 0, -30, <<49, 50, 58, 48, 48, 58, 48, 48, 45, 48, 48, 58, 51, 48>>)   \* xs:time("12:00:00-00:30")
TzM01 == TP("time", 0, 43140, 0, -1, <<49, 49, 58, 53, 57, 58, 48, 48, 45, 48, 48, 58, 48, 49>>)   \* xs:time("11:59:00-00:01")
TzP530 == TP("time", 0, 63000, 0, 330, <<49, 55, 58, 51, 48, 58, 48, 48, 43, 48, 53, 58, 51, 48>>)   \* xs:time("17:30:00+05:30")
TzM530 == TP("time", 0, 23400, 0, -330, <<48, 54, 58, 51, 48, 58, 48, 48, 45, 48, 53, 58, 51, 48>>)   \* xs:time("06:30:00-05:30")
TzP14 == TP("time", 0, 7200, 0, 840, <<48, 50, 58, 48, 48, 58, 48, 48, 43, 49, 52, 58, 48, 48>>)   \* xs:time("02:00:00+14:00")
TzM14 == TP("time", 0, 79200, 0, -840, <<50, 50, 58, 48, 48, 58, 48, 48, 45, 49, 52, 58, 48, 48>>)   \* xs:time("22:00:00-14:00")
GgyN == TP("gy", 0, 0, 0, NoTZ, <<50, 48, 48, 48>>)   \* xs:gYear("2000")
GgyZ == TP("gy", 0, 0, 0, 0, <<50, 48, 48, 48, 90>>)   \* xs:gYear("2000Z")
GgyM30 == TP("gy", 0, 0, 0, -30, <<50, 48, 48, 48, 45, 48, 48, 58, 51, 48>>)   \* xs:gYear("2000-00:30")
GgyP30 == TP("gy", 0, 0, 0, 30, <<50, 48, 48, 48, 43, 48, 48, 58, 51, 48>>)   \* xs:gYear("2000+00:30")
GgymN == TP("gym", 0, 0, 0, NoTZ, <<50, 48, 48, 48, 45, 48, 49>>)   \* xs:gYearMonth("2000-01")
GgymZ == TP("gym", 0, 0, 0, 0, <<50, 48, 48, 48, 45, 48, 49, 90>>)   \* xs:gYearMonth("2000-01Z")
GgymM30 == TP("gym", 0, 0, 0, -30, <<50, 48, 48, 48, 45, 48, 49, 45, 48, 48, 58, 51, 48>>)   \* xs:gYearMonth("2000-01-00:30")
GgymP30 == TP("gym", 0, 0, 0, 30, <<50, 48, 48, 48, 45, 48, 49, 43, 48, 48, 58, 51, 48>>)   \* xs:gYearMonth("2000-01+00:30")
GgmN == TP("gm", 0, 0, 0, NoTZ, <<45, 45, 48, 49>>)   \* xs:gMonth("--01")
GgmZ == TP("gm", 0, 0, 0, 0, <<45, 45, 48, 49, 90>>)   \* xs:gMonth("--01Z")
GgmM30 == TP("gm", 0, 0, 0, -30, <<45, 45, 48, 49, 45, 48, 48, 58, 51, 48>>)   \* xs:gMonth("--01-00:30")
GgmP30 == TP("gm", 0, 0, 0, 30, <<45, 45, 48, 49, 43, 48, 48, 58, 51, 48>>)   \* xs:gMonth("--01+00:30")
GgmdN == TP("gmd", 0, 0, 0, NoTZ, <<45, 45, 48, 49, 45, 48, 49>>)   \* xs:gMonthDay("--01-01")
GgmdZ == TP("gmd", 0, 0, 0, 0, <<45, 45, 48, 49, 45, 48, 49, 90>>)   \* xs:gMonthDay("--01-01Z")
GgmdM30 == TP("gmd", 0, 0, 0, -30, <<45, 45, 48, 49, 45, 48, 49, 45, 48, 48, 58, 51, 48>>)   \* xs:gMonthDay("--01-01-00:30")
GgmdP30 == TP("gmd", 0, 0, 0, 30, <<45, 45, 48, 49, 45, 48, 49, 43, 48, 48, 58, 51, 48>>)   \* xs:gMonthDay("--01-01+00:30")
GgdN == TP("gd", 0, 0, 0, NoTZ, <<45, 45, 45, 48, 49>>)   \* xs:gDay("---01")
GgdZ == TP("gd", 0, 0, 0, 0, <<45, 45, 45, 48, 49, 90>>)   \* xs:gDay("---01Z")
GgdM30 == TP("gd", 0, 0, 0, -30, <<45, 45, 45, 48, 49, 45, 48, 48, 58, 51, 48>>)   \* xs:gDay("---01-00:30")
GgdP30 == TP("gd", 0, 0, 0, 30, <<45, 45, 45, 48, 49, 43, 48, 48, 58, 51, 48>>)   \* xs:gDay("---01+00:30")
W_1_sp == Unt(<<32, 49, 32>>)   \* xs:untypedAtomic(" 1 ")
W_1_tab == Unt(<<9, 49, 9>>)   \* xs:untypedAtomic("\t1\t")
W_1_cr == Unt(<<13, 49, 13>>)   \* xs:untypedAtomic("\r1\r")
W_1_lf == Unt(<<10, 49, 10>>)   \* xs:untypedAtomic("\n1\n")
W_1_mix == Unt(<<13, 10, 9, 32, 49, 32, 13, 10>>)   \* xs:untypedAtomic("\r\n\t 1 \r\n")
W_true_sp == Unt(<<32, 116, 114, 117, 101, 32>>)   \* xs:untypedAtomic(" true ")
W_true_tab == Unt(<<9, 116, 114, 117, 101, 9>>)   \* xs:untypedAtomic("\ttrue\t")
W_true_cr == Unt(<<13, 116, 114, 117, 101, 13>>)   \* xs:untypedAtomic("\rtrue\r")
W_true_lf == Unt(<<10, 116, 114, 117, 101, 10>>)   \* xs:untypedAtomic("\ntrue\n")
W_true_mix == Unt(<<13, 10, 9, 32, 116, 114, 117, 101, 32, 13, 10>>)   \* xs:untypedAtomic("\r\n\t true \r\n")
W_date_mix == Unt(<<13, 10, 9, 32, 50, 48, 48, 48, 45, 48, 49, 45, 48, 49, 32, 13, 10>>)   \* xs:untypedAtomic("\r\n\t 2000-01-01 \r\n")
W_P1M_mix == Unt(<<13, 10, 9, 32, 80, 49, 77, 32, 13, 10>>)   \* xs:untypedAtomic("\r\n\t P1M \r\n")
W_0A_mix == Unt(<<13, 10, 9, 32, 48, 65, 32, 13, 10>>)   \* xs:untypedAtomic("\r\n\t 0A \r\n")
W_abc_mix == Unt(<<13, 10, 9, 32, 97, 98, 99, 32, 13, 10>>)   \* xs:untypedAtomic("\r\n\t abc \r\n")
NWtrue == Node(<<10, 32, 116, 114, 117, 101, 10>>)     \* element <w> with text "\n true\n"
NW1    == Node(<<13, 10, 9, 32, 49, 32, 13, 10>>)     \* element <x> with text "\r\n\t 1 \r\n"
NWattr == Node(<<9, 116, 114, 117, 101, 9>>)     \* attribute y/@t = "\ttrue\t"
(* BigItems: one point where the promotion xs:integer -> xs:double ROUNDS (B.1 type promotion = cast):
   k = "big", n = offset from 2^53.  2^53 + 1 is not a double; it lies half way between 2^53 and
   2^53 + 2 and rounds to the even mantissa 2^53 (IEEE 754 round-half-even, XSD double lexical mapping) *)
Big(t, off) == [t |-> t, k |-> "big", n |-> off, nz |-> FALSE]
IBig1 == Big("int", 1)        \* 9007199254740993
DBig0 == Big("dbl", 0)        \* xs:double("9007199254740992")
S_big1 == <<57, 48, 48, 55, 49, 57, 57, 50, 53, 52, 55, 52, 48, 57, 57, 51>>     \* "9007199254740993"
UBig1 == Unt(S_big1)
BigItems == {IBig1, DBig0, UBig1}
BigPartners == {I1, D1, Db1, DbNaN}
(* BinItems: hexBinary / base64Binary values of 0..4 zero octets: proper prefixes of one another, with
   text lengths that do not follow the octet lengths (AA== and AAA= have four characters each).
   Partners: every binary value of both types (across the types: XPTY0004). *)
HZ0 == Hex(<<>>, <<>>)     \* xs:hexBinary("")
XZ0 == B64(<<>>, <<>>)     \* xs:base64Binary("")
HZ1 == Hex(<<0>>, <<48, 48>>)     \* xs:hexBinary("00")
XZ1 == B64(<<0>>, <<65, 65, 61, 61>>)     \* xs:base64Binary("AA==")
HZ2 == Hex(<<0, 0>>, <<48, 48, 48, 48>>)     \* xs:hexBinary("0000")
XZ2 == B64(<<0, 0>>, <<65, 65, 65, 61>>)     \* xs:base64Binary("AAA=")
HZ3 == Hex(<<0, 0, 0>>, <<48, 48, 48, 48, 48, 48>>)     \* xs:hexBinary("000000")
XZ3 == B64(<<0, 0, 0>>, <<65, 65, 65, 65>>)     \* xs:base64Binary("AAAA")
HZ4 == Hex(<<0, 0, 0, 0>>, <<48, 48, 48, 48, 48, 48, 48, 48>>)     \* xs:hexBinary("00000000")
XZ4 == B64(<<0, 0, 0, 0>>, <<65, 65, 65, 65, 65, 65, 61, 61>>)     \* xs:base64Binary("AAAAAA==")
BinItems == {HZ0, XZ0, HZ1, XZ1, HZ2, XZ2, HZ3, XZ3, HZ4, XZ4}
TzItems == {DTzZ, DTzP30, DTzM30, DTzM30b, DTzM01, DTzP530, DTzM530, DTzP14, DTzM14, DzZ, DzP30, DzM30, DzM01, DzP530, DzM530, DzP14, DzM14, TzZ, TzP30, TzM30, TzM30b, TzM01, TzP530, TzM530, TzP14, TzM14,
            GgyN, GgyZ, GgyM30, GgyP30, GgymN, GgymZ, GgymM30, GgymP30, GgmN, GgmZ, GgmM30, GgmP30, GgmdN, GgmdZ, GgmdM30, GgmdP30, GgdN, GgdZ, GgdM30, GgdP30}
WsUntypeds == {W_1_sp, W_1_tab, W_1_cr, W_1_lf, W_1_mix, W_true_sp, W_true_tab, W_true_cr, W_true_lf, W_true_mix, W_date_mix, W_P1M_mix, W_0A_mix, W_abc_mix}
WsNodes == {NWtrue, NW1, NWattr}
WsItems == WsUntypeds \cup WsNodes
WsPartners == {I1, D1, F1, Db1, Bool(TRUE), Bool(FALSE), Date1, DT1, Time1, Y1M, T0, U1M, H0A, X0A, Uri(S_abc), QNa,
               Str(S_1), Str(S_abc), Unt(S_1), Unt(S_true)}
ExtAtoms == TzItems \cup WsUntypeds \cup BigItems \cup BinItems
ExtItems == TzItems \cup WsItems \cup BigItems \cup BinItems
ImplicitTZ == 300                        \* +05:00
Partner(a, b) ==
  /\ (a \in TzItems \/ b \in TzItems) => a.t = b.t
  /\ (a \in BinItems \/ b \in BinItems) => (a.t \in {"hex", "b64"} /\ b.t \in {"hex", "b64"})
  /\ (a \in BigItems) => b \in BigItems \cup BigPartners
  /\ (b \in BigItems) => a \in BigItems \cup BigPartners
  /\ (a \in WsItems) => b \in WsPartners
  /\ (b \in WsItems) => a \in WsPartners
Items == Atoms \cup Nodes \cup ExtItems
AllAtoms == Atoms \cup ExtAtoms

(* items that occur in sequences of length >= 2 *)
SeqItems == {I1, I2, DbNaN, Unt(S_1), Unt(S_abc), Str(S_abc), Bool(TRUE), N1}
SeqItems3 == {I1, I2, Unt(S_1), Unt(S_abc), Str(S_abc)}

---------------------------------------------------------------------------
(* Effective boolean value, XPath 2.0 / 3.1 section 2.4.3 (= fn:boolean, F&O 15.1.1):
   1 empty sequence -> false;  2 first item is a node -> true;  3 singleton xs:boolean -> itself;
   4 singleton xs:string, xs:anyURI, xs:untypedAtomic -> length > 0;
   5 singleton numeric -> false iff NaN or zero;  6 all other cases: err:FORG0006 *)
B2O(b) == IF b THEN "TRUE" ELSE "FALSE"
EBVOf(S) ==
  IF S = <<>> THEN "FALSE"
  ELSE IF S[1].t = "node" THEN "TRUE"
  ELSE IF Len(S) > 1 THEN "FORG0006"
  ELSE LET v == S[1] IN
       IF v.t = "bool" THEN B2O(v.b)
       ELSE IF IsStrT(v.t) THEN B2O(Len(v.s) > 0)
       ELSE IF IsNumT(v.t) THEN B2O(~(IsNaN(v) \/ IsZero(v)))
       ELSE "FORG0006"

IsErrO(o) == o \notin {"TRUE", "FALSE", "EMPTY", "THEN", "ELSE"}

(* Logical expressions, XPath 2.0 section 3.6.  a, b are the EBV outcomes of the operands.
   Table of `and`:  true/true -> true; false with true/false -> false; true with error -> error;
   false with error -> "false or error" (either order); error/error -> error.
   ordered = TRUE is XPath 1.0 compatibility mode: "the order in which the operands are evaluated
   is [left to right] ... the second operand is not evaluated if the first determines the result". *)
AndOut(a, b, ordered) ==
  IF ordered THEN (IF a = "TRUE" THEN {b} ELSE {a})
  ELSE IF IsErrO(a) /\ IsErrO(b) THEN {a, b}
  ELSE IF IsErrO(a) THEN (IF b = "FALSE" THEN {"FALSE", a} ELSE {a})
  ELSE IF IsErrO(b) THEN (IF a = "FALSE" THEN {"FALSE", b} ELSE {b})
  ELSE {B2O(a = "TRUE" /\ b = "TRUE")}
OrOut(a, b, ordered) ==
  IF ordered THEN (IF a = "FALSE" THEN {b} ELSE {a})
  ELSE IF IsErrO(a) /\ IsErrO(b) THEN {a, b}
  ELSE IF IsErrO(a) THEN (IF b = "TRUE" THEN {"TRUE", a} ELSE {a})
  ELSE IF IsErrO(b) THEN (IF a = "TRUE" THEN {"TRUE", b} ELSE {b})
  ELSE {B2O(a = "TRUE" \/ b = "TRUE")}
NotOut(a) == IF a = "TRUE" THEN "FALSE" ELSE IF a = "FALSE" THEN "TRUE" ELSE a      \* fn:not
IfOut(a)  == IF a = "TRUE" THEN "THEN" ELSE IF a = "FALSE" THEN "ELSE" ELSE a       \* if (S) then .. else ..

Cfgs == {"v20", "v30", "v31", "c20", "c31", "c10", "u31"}
(* v20 v30 v31: the XPath 2.0 / 3.0 / 3.1 processors; c20 c31: the same with XPath 1.0 compatibility
   mode; c10: an XPath 1.0 processor (its comparison and logic rules are the compatibility rules) *)
(* u31: the 3.1 processor with NO implicit timezone in the dynamic context: the implementation-defined
   implicit timezone of the library is then UTC; replayed for operands with a date/time item only *)
IsCompat(c) == c \in {"c20", "c31", "c10"}
TZOf(c) == IF c = "u31" THEN 0 ELSE ImplicitTZ

---------------------------------------------------------------------------
(* Laws of the tables (state independent; evaluated once by TLC as ASSUME in Logic.tla) *)
EBVOutcomes == {"TRUE", "FALSE", "FORG0006"}
LawDeMorgan ==
  \A a \in EBVOutcomes, b \in EBVOutcomes, m \in BOOLEAN :
     /\ {NotOut(o) : o \in AndOut(a, b, m)} = OrOut(NotOut(a), NotOut(b), m)
     /\ {NotOut(o) : o \in OrOut(a, b, m)} = AndOut(NotOut(a), NotOut(b), m)
LawBooleanAlgebra ==
  \A a \in {"TRUE", "FALSE"}, b \in {"TRUE", "FALSE"}, m \in BOOLEAN :
     /\ \A x \in OrOut(a, b, m) : AndOut(a, x, m) = {a}                 \* absorption
     /\ \A x \in AndOut(a, b, m) : OrOut(a, x, m) = {a}
     /\ AndOut(a, a, m) = {a} /\ OrOut(a, a, m) = {a}                   \* idempotence
     /\ AndOut(a, b, m) = AndOut(b, a, m) /\ OrOut(a, b, m) = OrOut(b, a, m)
     /\ AndOut(a, NotOut(a), m) = {"FALSE"} /\ OrOut(a, NotOut(a), m) = {"TRUE"}
     /\ NotOut(NotOut(a)) = a
LawOrderAdmissible ==       \* left-to-right evaluation is one of the outcomes XPath 2.0 permits
  \A a \in EBVOutcomes, b \in EBVOutcomes :
     /\ AndOut(a, b, TRUE) \subseteq AndOut(a, b, FALSE) /\ AndOut(a, b, FALSE) = AndOut(b, a, FALSE)
     /\ OrOut(a, b, TRUE) \subseteq OrOut(a, b, FALSE) /\ OrOut(a, b, FALSE) = OrOut(b, a, FALSE)
LawIf == \A a \in EBVOutcomes : (IfOut(a) = "THEN" <=> a = "TRUE") /\ (IfOut(a) = "ELSE" <=> a = "FALSE")
                                 /\ (IsErrO(a) => IfOut(a) = a)
TableLaws == LawDeMorgan /\ LawBooleanAlgebra /\ LawOrderAdmissible /\ LawIf
=============================================================================
