--------------------------- MODULE TraceCollation ---------------------------
(***************************************************************************)
(* Property C19, binding B (code -> specification).                        *)
(*                                                                         *)
(* Validates ndjson event logs of the REAL elementpath code against the    *)
(* CollationLock machine (Variant = "union").  The log is written by the   *)
(* instrumented lock / setlocale of engine/props/c19.py, one record per    *)
(* process-global effect, in the total order in which the effects happened *)
(* (the logger's mutex linearises them; `s` is the per-thread sequence     *)
(* number):                                                                *)
(*   reset     a new trace starts: tr, inst (installed locales), lc0        *)
(*   begin/end one public evaluation of thread t (end: r = outcome class)   *)
(*   acquire   the lock was taken by t                                      *)
(*   query     setlocale(LC_COLLATE, None) returned v                       *)
(*   set       setlocale(LC_COLLATE, v) returned (r = ok) or raised (fail)  *)
(*   release   the lock was released by t                                   *)
(*   self_wait t asked for the lock it holds;  hung: acquire timed out      *)
(* Calls, yields, resumptions and operand evaluation are NOT logged: they   *)
(* are silent steps of the thread whose event comes next (silent steps only *)
(* touch the thread's own frames, so this loses no interleaving).           *)
(* A trace is ACCEPTED when the state reaches the next reset record; TLC    *)
(* then prints <<"acc", <<tr, dev, bad>>>>: the named deviating actions the *)
(* matching behaviour needed and the property violations it went through.  *)
(* A trace nothing matches is REJECTED (no acc line; <<"maxpos", <<tr, n>>>> *)
(* is the last line of the file that some behaviour could still explain).   *)
(***************************************************************************)
EXTENDS CollationLock, Json, IOUtils

VARIABLES i, tr, dev, bad, pend
tvars == <<i, tr, dev, bad, pend>>

TraceLog == ndJsonDeserialize(IOEnv.TRACE_FILE)
Range(s) == {s[j] : j \in DOMAIN s}
Ev == TraceLog[i]
More == i <= Len(TraceLog)
Model == <<inst, lc0, lc, owner, frames, calls>>

(* every trace of the file is validated in the same run: one initial state per reset record *)
Starts == {j \in 1..Len(TraceLog) : TraceLog[j].e = "reset" /\ TraceLog[j].tr # 0}

TInit == /\ i \in Starts /\ tr = 0 /\ dev = {} /\ bad = {}
         /\ pend = [t \in Threads |-> "none"]
         /\ inst = {} /\ lc0 = "C" /\ lc = "C" /\ owner = 0
         /\ frames = [t \in Threads |-> <<>>]
         /\ calls = [t \in Threads |-> 0]

(* TLC register tr = the last line of trace tr that some behaviour could explain *)
Seen == TLCSet(tr, IF TLCGet(tr) < i THEN i ELSE TLCGet(tr))
Step1 == i' = i + 1 /\ Seen

ResetEv ==
  /\ More /\ Ev.e = "reset" /\ tr = 0 /\ Ev.tr # 0
  /\ inst' = Range(Ev.inst) /\ lc0' = Ev.lc0 /\ lc' = Ev.lc0 /\ owner' = 0
  /\ frames' = [t \in Threads |-> <<>>] /\ calls' = calls
  /\ tr' = Ev.tr /\ dev' = {} /\ bad' = {} /\ pend' = [t \in Threads |-> "none"]
  /\ i' = i + 1 /\ TLCSet(Ev.tr, i)

(* the next reset record is reached: the trace is a behaviour of the machine *)
Finish ==
  /\ More /\ Ev.e = "reset" /\ tr # 0
  /\ PrintT(<<"acc", <<tr, dev, bad>>>>)
  /\ i' = Len(TraceLog) + 1
  /\ UNCHANGED <<Model, tr, dev, bad, pend>>

Running(t) == IF Run(t) = 0 THEN [pc |-> "none", c |-> "cp"] ELSE frames[t][Run(t)]

BeginEv(t) ==
  /\ More /\ Ev.e = "begin" /\ Ev.t = t
  /\ frames[t] = <<>>
  /\ UNCHANGED <<Model, tr, dev, bad, pend>> /\ Step1

EndEv(t) ==       \* the public call of t is over: all its `with` frames are gone
  /\ More /\ Ev.e = "end" /\ Ev.t = t
  /\ frames[t] = <<>> /\ pend[t] = "none"
  /\ bad' = bad \cup (IF owner = t THEN {"lock_leak"} ELSE {})
                \cup (IF Quiescent /\ owner = 0 /\ lc # lc0 THEN {"lc_changed"} ELSE {})
  /\ UNCHANGED <<Model, tr, dev, pend>> /\ Step1

AcquireEv(t) ==
  /\ More /\ Ev.e = "acquire" /\ Ev.t = t
  /\ Acquire(t)
  /\ UNCHANGED <<tr, dev, bad, pend>> /\ Step1

QueryEv(t) ==
  /\ More /\ Ev.e = "query" /\ Ev.t = t
  /\ IF Running(t).pc = "acq"
     THEN Ev.v = lc /\ ReadCurrent(t)        \* the holder reads what the model says is there
     ELSE UNCHANGED Model                    \* an unlocked read (XPath2Parser.__init__)
  /\ UNCHANGED <<tr, dev, bad, pend>> /\ Step1

SetEv(t) ==
  /\ More /\ Ev.e = "set" /\ Ev.t = t
  /\ \/ /\ Running(t).pc = "read" /\ Loc(Running(t).c) = Ev.v
        /\ SetLocale(t, Ev.r) /\ UNCHANGED pend
     \/ /\ Running(t).pc = "fb" /\ Ev.v = FB
        /\ Fallback(t, Ev.r) /\ UNCHANGED pend
     \/ /\ Running(t).pc \notin {"read", "fb"}       \* first half of __exit__
        /\ owner = t /\ pend[t] = "none" /\ Ev.r = "ok"
        /\ pend' = [pend EXCEPT ![t] = Ev.v]
        /\ UNCHANGED Model
  /\ UNCHANGED <<tr, dev, bad>> /\ Step1

ReleaseEv(t) ==
  /\ More /\ Ev.e = "release" /\ Ev.t = t
  /\ owner = t
  /\ \/ pend[t] = "none" /\ RaiseFromEnter(t)
     \/ /\ pend[t] # "none"
        /\ \/ Exit(t) \/ ExitGen(t) \/ Unwind(t)
           \/ \E j \in 1..MaxDepth : Abandon(t, j)
        /\ owner' = 0 /\ lc' = pend[t]
  /\ pend' = [pend EXCEPT ![t] = "none"]
  /\ UNCHANGED <<tr, dev, bad>> /\ Step1

SelfWaitEv(t) ==
  /\ More /\ Ev.e = "self_wait" /\ Ev.t = t
  /\ SelfWait(t)
  /\ bad' = bad \cup {"self_wait"}
  /\ UNCHANGED <<Model, tr, dev, pend>> /\ Step1

HungEv(t) ==
  /\ More /\ Ev.e = "hung" /\ Ev.t = t
  /\ WantsLock(t) /\ owner # 0 /\ owner # t
  /\ bad' = bad \cup {"hung"}
  /\ UNCHANGED <<Model, tr, dev, pend>> /\ Step1

(* a timed acquire() gave up because another thread holds the lock: t is still outside *)
TimeoutEv(t) ==
  /\ More /\ Ev.e = "acquire_timeout" /\ Ev.t = t
  /\ WantsLock(t) /\ owner # 0 /\ owner # t
  /\ UNCHANGED <<Model, tr, dev, bad, pend>> /\ Step1

(* after self_wait / hung the evaluation is aborted by the harness: its frames vanish *)
AbortEv(t) ==
  /\ More /\ Ev.e = "abort" /\ Ev.t = t
  /\ frames' = [frames EXCEPT ![t] = <<>>]
  /\ owner' = IF owner = t THEN 0 ELSE owner
  /\ lc' = IF owner = t THEN lc0 ELSE lc
  /\ pend' = [pend EXCEPT ![t] = "none"]
  /\ UNCHANGED <<inst, lc0, calls, tr, dev, bad>> /\ Step1

(* unlogged steps of the thread whose event comes next.  An `acquire` record carries in v  *)
(* the locale of the NEXT `set` record of its thread (a lookahead written by the logger):   *)
(* only collations asking for that locale can explain it, the others are not tried.         *)
Hint(c) == Ev.v = "" \/ Loc(c) = Ev.v
Silent(t) ==
  /\ More /\ Ev.e # "reset" /\ Ev.t = t /\ pend[t] = "none"
  /\ \/ /\ Ev.e \in {"acquire", "self_wait", "hung", "acquire_timeout"}
        /\ \E c \in Colls, k \in Kinds : Hint(c) /\ Call(t, c, k)
        /\ UNCHANGED dev
     \/ /\ Ev.e \in {"acquire", "self_wait", "hung", "acquire_timeout"}
        /\ \E c \in Colls : Hint(c) /\ CallArg(t, c)
        /\ UNCHANGED dev
     \/ (EvalArgs(t) \/ ResumeLazy(t) \/ ArgError(t) \/ Recurse(t) \/ Yield(t) \/ Return(t)) /\ UNCHANGED dev
     \/ (\E j \in 1..MaxDepth : Resume(t, j)) /\ UNCHANGED dev
     \/ /\ \E j \in 1..MaxDepth : j <= Len(frames[t]) /\ ~frames[t][j].hold /\ Abandon(t, j)
        /\ UNCHANGED dev
     \/ LeaveHolding(t) /\ dev' = dev \cup {"LeaveHolding"}
     \/ ReenterHolding(t) /\ dev' = dev \cup {"ReenterHolding"}
     \/ YieldHolding(t) /\ dev' = dev \cup {"YieldHolding"}
     \/ LeakRaise(t) /\ dev' = dev \cup {"LeakRaise"}
  /\ UNCHANGED <<i, tr, bad, pend>>

TNext ==
  \/ ResetEv
  \/ Finish
  \/ \E t \in Threads : BeginEv(t)
  \/ \E t \in Threads : EndEv(t)
  \/ \E t \in Threads : AcquireEv(t)
  \/ \E t \in Threads : QueryEv(t)
  \/ \E t \in Threads : SetEv(t)
  \/ \E t \in Threads : ReleaseEv(t)
  \/ \E t \in Threads : SelfWaitEv(t)
  \/ \E t \in Threads : HungEv(t)
  \/ \E t \in Threads : TimeoutEv(t)
  \/ \E t \in Threads : AbortEv(t)
  \/ \E t \in Threads : Silent(t)

TraceSpec == TInit /\ [][TNext]_<<vars, tvars>>

(* every accepted prefix keeps the structural invariants of the machine *)
TraceInv == OneRunning /\ HoldIsOwner

MaxPos == \A j \in Starts : PrintT(<<"maxpos", <<TraceLog[j].tr, TLCGet(TraceLog[j].tr)>>>>)
=============================================================================
