----------------------------- MODULE CastTable -----------------------------
(***************************************************************************)
(* XPath F&O 3.1 section 19.1: "Casting from primitive types to primitive  *)
(* types" as a constant matrix (Y = always, N = never: XPTY0004, M = may:  *)
(* depends on the value), and the casting function built on it:            *)
(*   19.1.1 casting to string/untypedAtomic = Canon                        *)
(*   19.2   from string/untypedAtomic = whitespace-normalise + lexical map *)
(*          (FORG0001 if not in the lexical space)                         *)
(*   19.1.2-19.1.7 numeric, duration, date/time, boolean, binary casts     *)
(*          (FOCA0002 for NaN/INF to decimal/integer)                      *)
(*   19.3   casting to derived types: cast to the primitive base, then the *)
(*          facets of the target (FORG0001)                                *)
(* Row/column order: uA str flt dbl dec int dur yMD dTD dT tim dat gYM gYr *)
(* gMD gDay gMon bool b64 hxB aURI QN NOT.  xs:NOTATION has no instances   *)
(* and no constructor (it is an abstract target: XPST0080); its row and    *)
(* column are part of the table but never exercised.                       *)
(***************************************************************************)
EXTENDS Canon

Prims == <<"uA","str","flt","dbl","dec","int","dur","yMD","dTD","dT","tim","dat","gYM","gYr",
           "gMD","gDay","gMon","bool","b64","hxB","aURI","QN","NOT">>
PrimSet == {Prims[i] : i \in 1..Len(Prims)}
PIdx(p) == CHOOSE i \in 1..Len(Prims) : Prims[i] = p
Y == "Y"  N == "N"  M == "M"
Table ==
  [ uA   |-> <<Y,Y,M,M,M,M,M,M,M,M,M,M,M,M,M,M,M,M,M,M,M,M,M>>,
    str  |-> <<Y,Y,M,M,M,M,M,M,M,M,M,M,M,M,M,M,M,M,M,M,M,M,M>>,
    flt  |-> <<Y,Y,Y,Y,M,M,N,N,N,N,N,N,N,N,N,N,N,Y,N,N,N,N,N>>,
    dbl  |-> <<Y,Y,Y,Y,M,M,N,N,N,N,N,N,N,N,N,N,N,Y,N,N,N,N,N>>,
    dec  |-> <<Y,Y,Y,Y,Y,Y,N,N,N,N,N,N,N,N,N,N,N,Y,N,N,N,N,N>>,
    int  |-> <<Y,Y,Y,Y,Y,Y,N,N,N,N,N,N,N,N,N,N,N,Y,N,N,N,N,N>>,
    dur  |-> <<Y,Y,N,N,N,N,Y,Y,Y,N,N,N,N,N,N,N,N,N,N,N,N,N,N>>,
    yMD  |-> <<Y,Y,N,N,N,N,Y,Y,Y,N,N,N,N,N,N,N,N,N,N,N,N,N,N>>,
    dTD  |-> <<Y,Y,N,N,N,N,Y,Y,Y,N,N,N,N,N,N,N,N,N,N,N,N,N,N>>,
    dT   |-> <<Y,Y,N,N,N,N,N,N,N,Y,Y,Y,Y,Y,Y,Y,Y,N,N,N,N,N,N>>,
    tim  |-> <<Y,Y,N,N,N,N,N,N,N,N,Y,N,N,N,N,N,N,N,N,N,N,N,N>>,
    dat  |-> <<Y,Y,N,N,N,N,N,N,N,Y,N,Y,Y,Y,Y,Y,Y,N,N,N,N,N,N>>,
    gYM  |-> <<Y,Y,N,N,N,N,N,N,N,N,N,N,Y,N,N,N,N,N,N,N,N,N,N>>,
    gYr  |-> <<Y,Y,N,N,N,N,N,N,N,N,N,N,N,Y,N,N,N,N,N,N,N,N,N>>,
    gMD  |-> <<Y,Y,N,N,N,N,N,N,N,N,N,N,N,N,Y,N,N,N,N,N,N,N,N>>,
    gDay |-> <<Y,Y,N,N,N,N,N,N,N,N,N,N,N,N,N,Y,N,N,N,N,N,N,N>>,
    gMon |-> <<Y,Y,N,N,N,N,N,N,N,N,N,N,N,N,N,N,Y,N,N,N,N,N,N>>,
    bool |-> <<Y,Y,Y,Y,Y,Y,N,N,N,N,N,N,N,N,N,N,N,Y,N,N,N,N,N>>,
    b64  |-> <<Y,Y,N,N,N,N,N,N,N,N,N,N,N,N,N,N,N,N,Y,Y,N,N,N>>,
    hxB  |-> <<Y,Y,N,N,N,N,N,N,N,N,N,N,N,N,N,N,N,N,Y,Y,N,N,N>>,
    aURI |-> <<Y,Y,N,N,N,N,N,N,N,N,N,N,N,N,N,N,N,N,N,N,Y,N,N>>,
    QN   |-> <<Y,Y,N,N,N,N,N,N,N,N,N,N,N,N,N,N,N,N,N,N,N,Y,M>>,
    NOT  |-> <<Y,Y,N,N,N,N,N,N,N,N,N,N,N,N,N,N,N,N,N,N,N,Y,M>> ]
Cell(S, T) == Table[S][PIdx(T)]

PrimOf(T) ==
  CASE T = "untypedAtomic" -> "uA"
    [] T \in StringTypes \cup NameTypes -> "str"
    [] T = "float" -> "flt" [] T = "double" -> "dbl" [] T = "decimal" -> "dec"
    [] T \in IntTypes -> "int"
    [] T = "duration" -> "dur" [] T = "yearMonthDuration" -> "yMD" [] T = "dayTimeDuration" -> "dTD"
    [] T \in {"dateTime", "dateTimeStamp"} -> "dT" [] T = "time" -> "tim" [] T = "date" -> "dat"
    [] T = "gYearMonth" -> "gYM" [] T = "gYear" -> "gYr" [] T = "gMonthDay" -> "gMD"
    [] T = "gDay" -> "gDay" [] T = "gMonth" -> "gMon"
    [] T = "boolean" -> "bool" [] T = "base64Binary" -> "b64" [] T = "hexBinary" -> "hxB"
    [] T = "anyURI" -> "aURI" [] T = "QName" -> "QN"

---------------------------------------------------------------------------
(* 19.1.2 casting to numeric types *)
IsZeroDec(v) == v.ip = <<>> /\ v.fp = <<>>
BoolDec(T, b) == MkDec(T, FALSE, IF b THEN <<"1">> ELSE <<>>, <<>>)
(* the decimal digits of a finite float/double: integer part and fraction *)
FloIntDigits(v)  == IF v.ex < 0 THEN <<>> ELSE Take(v.dg \o Zeros(v.ex + 1 - Len(v.dg)), v.ex + 1)
FloFracDigits(v) == IF v.ex < 0 THEN Zeros(-v.ex - 1) \o v.dg
                    ELSE IF Len(v.dg) > v.ex + 1 THEN Drop(v.dg, v.ex + 1) ELSE <<>>
ToFlo(v, T) ==
  IF v.k = "bool" THEN MkFlo(T, FALSE, IF v.b THEN <<"1">> ELSE <<"0">>, <<>>, 0)
  ELSE IF v.k = "dec" THEN MkFlo(T, v.neg, v.ip, v.fp, 0)
  ELSE IF v.c # "fin" THEN [v EXCEPT !.t = T]
  ELSE IF v.dg = <<>> THEN FloZero(T, v.neg)
  ELSE LET r == MkFlo(T, v.neg, v.dg, <<>>, v.ex - Len(v.dg) + 1) IN
       (* widening an xs:float keeps its binary value, whose decimal digits are not those of the
          literal unless it is a small integer: approximate, terminal *)
       IF v.t = "float" /\ T = "double" /\ r.c = "fin" /\ ~(v.ex >= Len(v.dg) - 1 /\ v.ex <= 6)
       THEN [r EXCEPT !.ap = TRUE] ELSE r
ToDec(v, T) ==
  IF v.k = "bool" THEN BoolDec(T, v.b)
  ELSE IF v.k = "dec" THEN [v EXCEPT !.t = T]
  ELSE IF v.c # "fin" THEN Err("FOCA0002")
  ELSE LET ip == FloIntDigits(v)  fp == FloFracDigits(v) IN
       (* the binary value equals its shortest decimal digits only for integers below 2^53 *)
       [MkDec(T, v.neg, ip, fp) EXCEPT !.ap = (v.dg # <<>> /\ (fp # <<>> \/ Len(ip) > 15))]
ToInteger(v, T) ==
  LET r == IF v.k = "bool" THEN BoolDec(T, v.b)
           ELSE IF v.k = "dec" THEN MkDec(T, v.neg, v.ip, <<>>)          \* truncation toward zero
           ELSE IF v.c # "fin" THEN Err("FOCA0002")
           ELSE [MkDec(T, v.neg, FloIntDigits(v), <<>>) EXCEPT !.ap = (v.ex + 1 > 15)] IN
  IF IsErr(r) THEN r ELSE IF InRange(T, r.neg, r.ip) THEN r ELSE Bad
ToBool(v) ==
  [k |-> "bool", t |-> "boolean",
   b |-> IF v.k = "bool" THEN v.b
         ELSE IF v.k = "dec" THEN ~IsZeroDec(v)
         ELSE v.c \in {"pinf", "ninf"} \/ (v.c = "fin" /\ v.dg # <<>>)]

(* 19.1.3 durations *)
ToDur(v, T) ==
  LET mo == IF T = "dayTimeDuration" THEN 0 ELSE v.mo
      se == IF T = "yearMonthDuration" THEN 0 ELSE v.se
      fr == IF T = "yearMonthDuration" THEN <<>> ELSE v.fr IN
  [k |-> "dur", t |-> T, neg |-> (v.neg /\ ~(mo = 0 /\ se = 0 /\ fr = <<>>)), mo |-> mo, se |-> se, fr |-> fr]

(* 19.1.4 date/time types: projection of the components, the timezone is kept *)
ToDT(v, T) ==
  IF T = "dateTimeStamp" /\ v.tz = NoTz THEN Bad        \* explicitTimezone = required
  ELSE LET hasY == T \in {"dateTime", "dateTimeStamp", "date", "gYearMonth", "gYear"}
           hasM == T \in {"dateTime", "dateTimeStamp", "date", "gYearMonth", "gMonthDay", "gMonth"}
           hasD == T \in {"dateTime", "dateTimeStamp", "date", "gMonthDay", "gDay"}
           hasT == T \in {"dateTime", "dateTimeStamp", "time"} IN
       DT(T, IF hasY THEN v.y ELSE 0, IF hasM THEN v.mo ELSE 0, IF hasD THEN v.d ELSE 0,
          IF hasT THEN v.h ELSE 0, IF hasT THEN v.mi ELSE 0, IF hasT THEN v.s ELSE 0,
          IF hasT THEN v.fr ELSE <<>>, v.tz)

---------------------------------------------------------------------------
CastTo(v, T, ver) ==
  LET S == PrimOf(v.t)  P == PrimOf(T) IN
  IF Cell(S, P) = "N" THEN Err("XPTY0004")
  ELSE IF v.t = T THEN v
  ELSE IF S \in {"str", "uA"} THEN Parse(T, v.s, ver)                   \* 19.2
  ELSE IF P \in {"str", "uA"} THEN Parse(T, Canon(v), ver)               \* 19.1.1 then 19.3
  ELSE IF P \in {"flt", "dbl"} THEN ToFlo(v, T)
  ELSE IF P = "dec" THEN ToDec(v, T)
  ELSE IF P = "int" THEN ToInteger(v, T)
  ELSE IF P = "bool" THEN ToBool(v)
  ELSE IF P \in {"dur", "yMD", "dTD"} THEN ToDur(v, T)
  ELSE IF P \in {"b64", "hxB"} THEN Bin(T, v.o)
  ELSE IF P \in {"aURI", "QN"} THEN [v EXCEPT !.t = T]
  ELSE ToDT(v, T)
=============================================================================
