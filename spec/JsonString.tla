------------------------------ MODULE JsonString ------------------------------
(***************************************************************************)
(* JSON string escaping / unescaping as a CHARACTER-LEVEL STEP MACHINE     *)
(* (property C17).  One behaviour:                                         *)
(*                                                                         *)
(*   src --EscChar(form)*--> txt --UnescChar*--> out        (definitional) *)
(*                            \--ImplRule(1..5)--> out      (as implemented)*)
(*                                                                         *)
(* EscChar consumes one source character and appends one of the renderings *)
(* RFC 8259 allows for it (FormMode = "all": every rendering, chosen per    *)
(* character; FormMode = "policy": one uniform policy of JsonChars chosen   *)
(* in Init).  UnescChar is the decoder automaton: one input character per   *)
(* step, modes plain / after-backslash / k hex digits read, one pending     *)
(* high surrogate.  Law (invariant RoundTrip): the decoded string is the    *)
(* source string, for every string up to MaxLen and every rendering.        *)
(*                                                                         *)
(* The second branch is a TRANSCRIPTION of elementpath/helpers.py           *)
(* unescape_json_string: a chain of whole-string str.replace calls followed *)
(* by one regular-expression substitution.  Sequential whole-string         *)
(* rewriting is order-sensitive: an escaped backslash followed by n is      *)
(* rewritten by the \n rule before the \\ rule sees it.  TLC decides where  *)
(* the chain is confluent with the automaton: invariant ImplConfluentOff    *)
(* (it agrees whenever the text has no escaped backslash and no surrogate   *)
(* pair escape) holds; ImplConfluent (it always agrees) is checked in a     *)
(* separate configuration whose counterexample is recorded as a diagnostic. *)
(* The states with phase = "impldone" give the key pairs that the chain     *)
(* identifies although they are different strings (binding: fn:xml-to-json  *)
(* must accept maps having both keys).                                      *)
(* Rules of the chain for \b \r \t \f are no-ops on this alphabet (the      *)
(* texts are well-formed, a backslash is never followed by b r t f).        *)
(***************************************************************************)
EXTENDS JsonChars, TLC

CONSTANTS MaxLen,      \* source strings of length 0..MaxLen over Alpha
          Alpha,       \* the alphabet: a set of character ids (SourceChars = 1..10, or a mix with SpecialChars:
                       \* raw U+FEFF U+2028 U+2029 U+0085 U+00A0 U+FFFE U+FFFF in first / middle / last position)
          FormMode,    \* "all" | "policy"
          Pols         \* FormMode "policy": the policies of JsonChars to run (a subset of Policies)

VARIABLES src,    \* the source string
          pol,    \* escaping policy ("free" in FormMode "all")
          phase,  \* "esc" "escaped" "unesc" "done" "impl" "impldone"
          inp,    \* unread input of the current phase
          out,    \* output of the current phase
          txt,    \* the escaped text (set when phase becomes "escaped")
          mode,   \* decoder automaton [m, k, acc, hi] ; in phase "impl": k = next rule
          safe    \* XmlSafe(src): what an XDM string can hold of src (constant along a behaviour)
vars == <<src, pol, phase, inp, out, txt, mode, safe>>

Plain == [m |-> "plain", k |-> 0, acc |-> 0, hi |-> 0]

(* the code-point table is printed once so that the binding's character table can be checked against it *)
ASSUME PrintT(<<"codes", [c \in AllChars |-> Code(c)]>>)

(* FormMode "policy" also runs the backslash-u VALUE strings of JsonChars (6..12 characters) *)
Sources == StrsUpTo(Alpha \cap (SourceChars \cup SpecialChars), MaxLen) \cup (IF FormMode = "policy" THEN BackslashUValues ELSE {})
Init == /\ src \in Sources
        /\ pol \in (IF FormMode = "all" THEN {"free"} ELSE Pols \cap Policies)
        /\ phase = "esc" /\ inp = src /\ out = <<>> /\ txt = <<>> /\ mode = Plain
        /\ safe = XmlSafe(src)

---------------------------------------------------------------------------
(* escaping, one source character per step *)
EscChar(f) ==
  /\ phase = "esc" /\ inp # <<>>
  /\ f \in Forms(Head(inp))
  /\ (pol # "free" => f = PolicyForm(pol, Head(inp)))
  /\ out' = out \o Render(Head(inp), f)
  /\ inp' = Tail(inp)
  /\ UNCHANGED <<safe, src, pol, phase, txt, mode>>
EscDone ==
  /\ phase = "esc" /\ inp = <<>>
  /\ phase' = "escaped" /\ txt' = out /\ out' = <<>>
  /\ UNCHANGED <<safe, src, pol, inp, mode>>

---------------------------------------------------------------------------
(* the decoder automaton *)
StartUnesc == /\ phase = "escaped" /\ phase' = "unesc" /\ inp' = txt /\ out' = <<>> /\ mode' = Plain
              /\ UNCHANGED <<safe, src, pol, txt>>
(* a pending high surrogate that is not followed by a low one is a lone surrogate *)
Flush(hi) == IF hi = 0 THEN <<>> ELSE <<CharOfCode(hi)>>
UnescChar ==
  /\ phase = "unesc" /\ inp # <<>>
  /\ LET c == Head(inp) IN
     /\ inp' = Tail(inp)
     /\ CASE mode.m = "plain" ->
               IF c = CB THEN out' = out /\ mode' = [mode EXCEPT !.m = "bs"]
               ELSE out' = out \o Flush(mode.hi) \o <<IF MustEscape(c) THEN BAD ELSE c>> /\ mode' = Plain
          [] mode.m = "bs" ->
               IF c = CU THEN out' = out /\ mode' = [mode EXCEPT !.m = "hex", !.k = 0, !.acc = 0]
               ELSE IF c \in {CQ, CB, CS} THEN out' = out \o Flush(mode.hi) \o <<c>> /\ mode' = Plain
               ELSE IF c = CN THEN out' = out \o Flush(mode.hi) \o <<CNL>> /\ mode' = Plain
               ELSE out' = out \o <<BAD>> /\ mode' = Plain
          [] mode.m = "hex" ->
               IF ~IsHexChar(c) THEN out' = out \o <<BAD>> /\ mode' = Plain
               ELSE LET n == 16 * mode.acc + HexVal(c) IN
                    IF mode.k < 3 THEN out' = out /\ mode' = [mode EXCEPT !.k = mode.k + 1, !.acc = n]
                    ELSE IF mode.hi # 0 /\ IsLow(n)
                         THEN out' = out \o <<CharOfCode(65536 + (mode.hi - 55296) * 1024 + (n - 56320))>>
                              /\ mode' = Plain
                         ELSE IF IsHigh(n)
                         THEN out' = out \o Flush(mode.hi) /\ mode' = [Plain EXCEPT !.hi = n]
                         ELSE out' = out \o Flush(mode.hi) \o <<CharOfCode(n)>> /\ mode' = Plain
  /\ UNCHANGED <<safe, src, pol, phase, txt>>
UnescDone ==
  /\ phase = "unesc" /\ inp = <<>>
  /\ phase' = "done"
  /\ out' = (IF mode.m = "plain" THEN out \o Flush(mode.hi) ELSE out \o <<BAD>>)
  /\ mode' = Plain
  /\ UNCHANGED <<safe, src, pol, inp, txt>>

---------------------------------------------------------------------------
(* elementpath/helpers.py unescape_json_string, rule by rule *)
RECURSIVE Repl2(_, _, _, _)
Repl2(s, p1, p2, r) ==      \* str.replace of a two-character pattern: left to right, non-overlapping
  IF Len(s) < 2 THEN s
  ELSE IF s[1] = p1 /\ s[2] = p2 THEN r \o Repl2(Drop(s, 2), p1, p2, r)
  ELSE <<s[1]>> \o Repl2(Tail(s), p1, p2, r)
RECURSIVE SubU(_)
SubU(s) ==                  \* re.sub(r'\\u([0-9A-Fa-f]{4})', chr(int(hex))): no surrogate pairing
  IF s = <<>> THEN <<>>
  ELSE IF s[1] = CB /\ Len(s) >= 6 /\ s[2] = CU /\ Hex4Ok(s, 3) THEN <<CharOfCode(Hex4Val(s, 3))>> \o SubU(Drop(s, 6))
  ELSE <<s[1]>> \o SubU(Tail(s))
NRules == 5
Rule(k, s) == CASE k = 1 -> Repl2(s, CB, CQ, <<CQ>>)       \* .replace('\\"', '"')
                [] k = 2 -> Repl2(s, CB, CN, <<CNL>>)      \* .replace(r'\n', '\n')
                [] k = 3 -> Repl2(s, CB, CS, <<CS>>)       \* .replace(r'\/', '/')
                [] k = 4 -> Repl2(s, CB, CB, <<CB>>)       \* .replace('\\\\', '\\')
                [] k = 5 -> SubU(s)                        \* Patterns.unicode_escape.sub(...)
ImplUnesc(x) == Rule(5, Rule(4, Rule(3, Rule(2, Rule(1, x)))))
StartImpl == /\ phase = "escaped" /\ phase' = "impl" /\ out' = txt /\ mode' = [Plain EXCEPT !.k = 1]
             /\ UNCHANGED <<safe, src, pol, inp, txt>>
ImplRule(k) == /\ phase = "impl" /\ k = mode.k /\ k <= NRules
               /\ out' = Rule(k, out) /\ mode' = [mode EXCEPT !.k = k + 1]
               /\ UNCHANGED <<safe, src, pol, phase, inp, txt>>
ImplDone == /\ phase = "impl" /\ mode.k > NRules /\ phase' = "impldone" /\ mode' = Plain
            /\ UNCHANGED <<safe, src, pol, inp, out, txt>>

(* elementpath/helpers.py escape_json_string(s, escaped=False): a replace chain too *)
RECURSIVE Repl1(_, _, _)
Repl1(s, p, r) == IF s = <<>> THEN <<>> ELSE (IF s[1] = p THEN r ELSE <<s[1]>>) \o Repl1(Tail(s), p, r)
RECURSIVE UCtl(_)
UCtl(s) == IF s = <<>> THEN <<>>
           ELSE (IF Code(s[1]) \in (1..31) \cup (127..159) THEN UEsc(s[1], FALSE) ELSE <<s[1]>>) \o UCtl(Tail(s))
ImplEsc(s) == UCtl(Repl1(Repl1(Repl1(Repl1(s, CB, <<CB, CB>>), CQ, <<CB, CQ>>), CNL, <<CB, CN>>), CS, <<CB, CS>>))

Next == \/ \E f \in {"lit", "short", "U", "l"} : EscChar(f)
        \/ EscDone \/ StartUnesc \/ UnescChar \/ UnescDone
        \/ StartImpl \/ (\E k \in 1..NRules : ImplRule(k)) \/ ImplDone
Spec == Init /\ [][Next]_vars

---------------------------------------------------------------------------
(* Laws *)
RoundTrip == phase = "done" => out = src                       \* Unescape(Escape(s)) = s
Refines   == /\ phase = "escaped" => (WellFormed(txt) /\ Unesc(txt) = src /\ UnescLoose(txt) = src)
             /\ phase = "done" => out = Unesc(txt)              \* automaton = recursive definition
             /\ (phase = "escaped" /\ pol # "free") => txt = Esc(src, pol)
EscChainConfluent == phase = "esc" /\ inp = src => ImplEsc(src) = EscCanon(src)   \* the ESCAPE chain is order-safe
HasEscapedBackslash(x) == \E i \in 1..Len(x) : x[i] = CB /\ i < Len(x) /\ x[i + 1] = CB
HasPairEscape(x) == \E i \in 1..Len(x) : x[i] = CB /\ i + 5 <= Len(x) /\ x[i + 1] = CU /\ Hex4Ok(x, i + 2)
                                         /\ IsHigh(Hex4Val(x, i + 2))
ImplConfluentOff == phase = "impldone" => (out = src \/ HasEscapedBackslash(txt) \/ HasPairEscape(txt))
ImplConfluent    == phase = "impldone" => out = src             \* expected to FAIL: diagnostic configuration
ImplConfluentBMP == (phase = "impldone" /\ ~HasPairEscape(txt)) => out = src   \* expected to FAIL (backslash cases)
ImplIsChain      == phase = "impldone" => out = ImplUnesc(txt)
XmlSafeLaws == phase = "esc" /\ inp = src =>
                 /\ (AllXml(src) <=> XmlSafe(src) = src)
                 /\ UnescLoose(EscSpecial(src)) = src
                 /\ (\A i \in 1..Len(EscSpecial(src)) : IsXmlChar(EscSpecial(src)[i]) /\ EscSpecial(src)[i] \notin {CNL, CDEL})
Laws == RoundTrip /\ Refines /\ EscChainConfluent /\ ImplConfluentOff /\ ImplIsChain /\ XmlSafeLaws
=============================================================================
