----------------------------- MODULE RegexClass -----------------------------
(***************************************************************************)
(* Character class expressions  [items] [^items] [..-[sub]]  (property C12) *)
(* as a step machine that builds the class the way the scanner of          *)
(* elementpath/regex/patterns.py:parse_character_class does:               *)
(*    AddItem* ; Negate? ; Subtract(sub)?                                  *)
(* and carries BOTH                                                        *)
(*   den         the DEFINITIONAL denotation (plain set algebra, Regex.tla)*)
(*   ipos, ineg  the implementation-shaped state of                        *)
(*               elementpath.regex.CharacterClass: a pair of code point    *)
(*               sets read as  ipos \cup (Sigma \ ineg)  when ineg # {}    *)
(*               and as ipos otherwise (CharacterClass.__contains__/__str__)*)
(* The refinement invariant  Refines  says that the pair denotes `den`.    *)
(* Variant = "fixed" is the repaired algorithm (proposed_fixes/C12-character- *)
(* class-algebra.diff, in the tree since commit b292dd3) and must satisfy   *)
(* Refines; Variant = "pinned" transcribes the algorithm as it was BEFORE   *)
(* that repair (add: negative |= V for every negated escape; complement():  *)
(* swap; __isub__ as written) and TLC refutes Refines for it with a         *)
(* shortest counterexample ([^5\D]).  The thorough tier dumps it as well    *)
(* and reports whether a failing class is the set the old algorithm         *)
(* produced; the verdict on the CODE always comes from the replay of `den`. *)
(*                                                                         *)
(* The dumped state graph is the test plan: state = class expression,      *)
(* den = expected set of matching characters.                              *)
(***************************************************************************)
EXTENDS Regex, TLC

CONSTANTS ItemNames,     \* item names usable in the main group (see ItemOf)
          ItemNames3,    \* item names usable when the group already has 2 items (smaller, keeps the graph small)
          SubNames,      \* item names usable in the subtracted class
          MaxItems,      \* <= 3
          MaxSubItems,   \* <= 2
          Variant        \* "fixed" | "pinned"

VARIABLES items, neg, sub, phase, den, ipos, ineg
vars == <<items, neg, sub, phase, den, ipos, ineg>>

ItemOf(n) ==
  CASE n = "NL" -> IChr(NL) [] n = "SP" -> IChr(SP) [] n = "HY" -> IChr(HY) [] n = "5" -> IChr(D5)
    [] n = "A" -> IChr(UA) [] n = "_" -> IChr(US) [] n = "a" -> IChr(LA) [] n = "b" -> IChr(LB)
    [] n = "AS" -> IChr(AS)
    [] n = "a-b" -> IRng(LA, LB) [] n = "A-a" -> IRng(UA, LA) [] n = "5-A" -> IRng(D5, UA)
    [] n = "SP-5" -> IRng(SP, D5) [] n = "a-a" -> IRng(LA, LA) [] n = "NL-AS" -> IRng(NL, AS)
    [] n = "_-AS" -> IRng(US, AS)
    [] n = "5-CARET" -> IRngX(D5, UA, "^") [] n = "a-RBRACE" -> IRngX(LA, LB, "}")
    [] n \in {"d", "D", "s", "S", "w", "W", "i", "I", "c", "C"} -> IEsc(n, "")
    [] n = "pL" -> IEsc("p", "L")   [] n = "PL" -> IEsc("P", "L")
    [] n = "pLu" -> IEsc("p", "Lu") [] n = "PLu" -> IEsc("P", "Lu")
    [] n = "pLl" -> IEsc("p", "Ll") [] n = "PLl" -> IEsc("P", "Ll")
    [] n = "pNd" -> IEsc("p", "Nd") [] n = "PNd" -> IEsc("P", "Nd")
    [] n = "pN" -> IEsc("p", "N")   [] n = "PN" -> IEsc("P", "N")
    [] n = "pP" -> IEsc("p", "P")   [] n = "PP" -> IEsc("P", "P")
    [] n = "pPd" -> IEsc("p", "Pd") [] n = "PPd" -> IEsc("P", "Pd")
    [] n = "pPc" -> IEsc("p", "Pc") [] n = "PPc" -> IEsc("P", "Pc")
    [] n = "pZ" -> IEsc("p", "Z")   [] n = "PZ" -> IEsc("P", "Z")
    [] n = "pZs" -> IEsc("p", "Zs") [] n = "PZs" -> IEsc("P", "Zs")
    [] n = "pC" -> IEsc("p", "C")   [] n = "PC" -> IEsc("P", "C")
    [] n = "pCc" -> IEsc("p", "Cc") [] n = "PCc" -> IEsc("P", "Cc")
    [] n = "pS" -> IEsc("p", "S")   [] n = "PS" -> IEsc("P", "S")
    [] n = "pSo" -> IEsc("p", "So") [] n = "PSo" -> IEsc("P", "So")

IsNegEsc(it) == it.k = "e" /\ it.e \in {"D", "S", "W", "I", "C", "P"}

(* ---- the implementation-shaped pair ------------------------------------ *)
ImplDen(p, n) == IF n = {} THEN p ELSE p \cup (Sigma \ n)

(* CharacterClass.add of one part *)
AddImpl(p, n, it) ==
  IF ~IsNegEsc(it) THEN <<p \cup ItemSet(it), n>>
  ELSE LET v == EscSet(Lower(it.e), it.cat) IN     \* the class gains Sigma \ v
       IF Variant = "pinned" THEN <<p, n \cup v>>
       ELSE IF n = {} THEN (IF v = {} THEN <<Sigma, {}>> ELSE <<p, v>>)
            ELSE IF n \cap v = {} THEN <<Sigma, {}>> ELSE <<p, n \cap v>>

(* CharacterClass.complement *)
ComplImpl(p, n) ==
  IF Variant = "pinned" THEN (IF p # {} \/ n # {} THEN <<n, p>> ELSE <<Sigma, {}>>)
  ELSE IF n # {} THEN <<n \ p, {}>>
       ELSE IF p # {} THEN <<{}, p>> ELSE <<Sigma, {}>>

(* CharacterClass.__isub__ *)
SubImpl(p, n, p2, n2) ==
  IF Variant = "pinned" THEN
       LET p1 == IF n # {} /\ n2 # {} THEN p \cup (n2 \ n)
                 ELSE IF n = {} /\ n2 # {} THEN p \cap n2 ELSE p
           n1 == IF n # {} THEN (IF n2 # {} THEN p2 ELSE n \cup p2) ELSE n
       IN <<p1 \ p2, n1>>
  ELSE LET p1 == IF n # {} /\ n2 # {} THEN (p \cap n2) \cup (n2 \ n)
                 ELSE IF n = {} /\ n2 # {} THEN p \cap n2 ELSE p
           n1 == IF n # {} THEN (IF n2 # {} THEN {} ELSE n \cup p2) ELSE n
       IN <<p1 \ p2, n1>>

RECURSIVE FoldAdd(_, _, _, _)
FoldAdd(p, n, its, k) == IF k > Len(its) THEN <<p, n>>
                         ELSE LET x == AddImpl(p, n, its[k]) IN FoldAdd(x[1], x[2], its, k + 1)
(* the pair the code builds for a class without subtraction (used for the subtracted class) *)
ImplPair(cl) == LET a == FoldAdd({}, {}, cl.items, 1) IN IF cl.neg THEN ComplImpl(a[1], a[2]) ELSE a

(* ---- subtracted classes: 1..MaxSubItems items, positive or negative ----- *)
SubItemSeqs == UNION {[1..k -> {ItemOf(n) : n \in SubNames}] : k \in 1..MaxSubItems}
SubClasses == {Cls(its, ng, <<>>) : its \in SubItemSeqs, ng \in BOOLEAN}

Current == Cls(items, neg, sub)

Init == /\ items = <<>> /\ neg = FALSE /\ sub = <<>> /\ phase = "build"
        /\ den = {} /\ ipos = {} /\ ineg = {}

AddItem(n) ==
  /\ phase = "build" /\ Len(items) < MaxItems
  /\ (Len(items) >= 2 => n \in ItemNames3)
  /\ items' = Append(items, ItemOf(n))
  /\ LET x == AddImpl(ipos, ineg, ItemOf(n)) IN ipos' = x[1] /\ ineg' = x[2]
  /\ den' = ClassSet(Cls(items', neg, sub))
  /\ UNCHANGED <<neg, sub, phase>>

Negate ==
  /\ phase = "build" /\ items # <<>>
  /\ neg' = TRUE /\ phase' = "neg"
  /\ LET x == ComplImpl(ipos, ineg) IN ipos' = x[1] /\ ineg' = x[2]
  /\ den' = ClassSet(Cls(items, TRUE, sub))
  /\ UNCHANGED <<items, sub>>

Subtract(sc) ==
  /\ phase \in {"build", "neg"} /\ items # <<>>
  /\ sub' = <<sc>> /\ phase' = "sub"
  /\ LET o == ImplPair(sc)
         x == SubImpl(ipos, ineg, o[1], o[2])
     IN ipos' = x[1] /\ ineg' = x[2]
  /\ den' = ClassSet(Cls(items, neg, <<sc>>))
  /\ UNCHANGED <<items, neg>>

Next == \/ \E n \in ItemNames : AddItem(n)
        \/ Negate
        \/ \E sc \in SubClasses : Subtract(sc)

Spec == Init /\ [][Next]_vars

(* ---- laws --------------------------------------------------------------- *)
TypeOK == den \subseteq Sigma /\ ipos \subseteq Sigma /\ ineg \subseteq Sigma

(* [^x] = Sigma \ [x] ;  [A-[B]] = A \ B ;  the order of the items is irrelevant *)
NegationLaw    == sub = <<>> => den = (IF neg THEN Sigma \ BaseSet(items) ELSE BaseSet(items))
ComplementLaw  == sub = <<>> => ClassSet(Cls(items, ~neg, <<>>)) = Sigma \ den
SubtractionLaw == sub # <<>> => /\ den = ClassSet(Cls(items, neg, <<>>)) \ ClassSet(sub[1])
                                /\ den \cap ClassSet(sub[1]) = {}
(* double negation: [^..-[^..]] = complement(main) \cap main-of-sub *)
DoubleNegLaw   == (sub # <<>> /\ neg /\ sub[1].neg) =>
                     den = BaseSet(sub[1].items) \ BaseSet(items)
(* a negated escape is the complement of its positive partner, inside a class as well *)
EscapeLaw      == \A n \in 1..Len(items) :
                     IsNegEsc(items[n]) =>
                        ItemSet(items[n]) = Sigma \ EscSet(Lower(items[n].e), items[n].cat)
(* De Morgan: a negated group is the intersection of the complements of its items *)
DeMorganLaw    == (neg /\ sub = <<>> /\ items # <<>>) =>
                     \A c \in Sigma : (c \in den) = (\A n \in 1..Len(items) : c \notin ItemSet(items[n]))
(* a one-item class denotes what the item denotes outside a class *)
SingletonLaw   == (Len(items) = 1 /\ ~neg /\ sub = <<>> /\ items[1].k = "e") =>
                     den = EscSet(items[1].e, items[1].cat)
Laws == TypeOK /\ NegationLaw /\ ComplementLaw /\ SubtractionLaw /\ DoubleNegLaw /\ EscapeLaw
        /\ DeMorganLaw /\ SingletonLaw

(* refinement: the implementation-shaped pair denotes the definitional set *)
Refines == ImplDen(ipos, ineg) = den
=============================================================================
