---------------------------- MODULE UnicodeTables ----------------------------
(***************************************************************************)
(* Property C13, binding C -- laws of the Unicode category and block       *)
(* tables, checked by TLC ON THE DATA OF THE WORKING TREE.                 *)
(*                                                                         *)
(* Impl_UnicodeData is GENERATED at check time by engine/props/c13.py from *)
(* elementpath.regex (unicode_category / unicode_block after               *)
(* install_unicode_data(version), UnicodeData(version).block) and holds    *)
(* only literal constants:                                                 *)
(*   DataSets[d]  = [name, E, cat]: one distinct set of category tables    *)
(*       (several versions may share one); E = the sorted end points of    *)
(*       all its ranges (0 and 0x110000 included); cat[c] = the raw list   *)
(*       of category c, each piece <<ilo, ihi, r>> with ilo/ihi INDICES    *)
(*       into E (coordinate compression) and r = 1 for a (lo, hi) tuple,   *)
(*       0 for an int;                                                     *)
(*   BlockDefs[b] = [name, p]: one block, pieces <<lo, hi, r>> in real     *)
(*       code points;  BlockVersions[v] = [ver, blocks]: the blocks that   *)
(*       version defines (superseded names excluded);                      *)
(*   SubCatSeq, MajorSeq, SubsOf.                                          *)
(*                                                                         *)
(* The data set named "running" is read from the LIVE installed tables AFTER *)
(* all operation histories of binding A were replayed and after classes    *)
(* with every escape (\s \S \d \D \i \I \c \C \w \W \p{..} \P{..}) were  *)
(* built, mutated, subtracted and translated in the same process: the laws *)
(* are re-checked on what those operations left behind (the companion      *)
(* action property CodePointSet!TablesImmutable says they leave the tables *)
(* untouched; the binding fingerprints them).                              *)
(*                                                                         *)
(* One initial state per obligation; the "invariant" Verdict prints every  *)
(* refuted obligation (<<"c13viol", ob>>) instead of stopping at the first,*)
(* so one run lists all of them.  The harness confirms each refuted        *)
(* obligation through the public API before it reports it.                 *)
(***************************************************************************)
EXTENDS Impl_UnicodeData, FiniteSets, TLC

VARIABLE ob

MaxCp1 == 1114112     \* 0x110000

DS == 1..Len(DataSets)
E(d) == DataSets[d].E
Cat(d, c) == DataSets[d].cat[c]
(* the set of elementary intervals (indices into E) covered by a raw list *)
Cells(ps) == UNION {ps[i][1]..(ps[i][2] - 1) : i \in 1..Len(ps)}
NCells(d) == Len(E(d)) - 1

SubIdx == 1..Len(SubCatSeq)
AllCats == {SubCatSeq[i] : i \in SubIdx} \cup {MajorSeq[i] : i \in 1..Len(MajorSeq)}

(* sorted end points starting at 0, ending at 0x110000: the index order IS the code point order *)
GridOK(d) ==
   /\ E(d)[1] = 0 /\ E(d)[Len(E(d))] = MaxCp1
   /\ \A i \in 1..(Len(E(d)) - 1) : E(d)[i] < E(d)[i + 1]

(* the canonical representation of CodePointPieces!IsCanonical, on a raw table *)
CanonicalCat(d, c) ==
   LET ps == Cat(d, c) IN
   /\ \A i \in 1..Len(ps) : /\ 1 <= ps[i][1] /\ ps[i][1] < ps[i][2] /\ ps[i][2] <= Len(E(d))
                            /\ (ps[i][3] = 0) = (E(d)[ps[i][2]] - E(d)[ps[i][1]] = 1)
   /\ \A i \in 1..(Len(ps) - 1) : ps[i][2] < ps[i + 1][1]

Disjoint(d, i, j) == Cells(Cat(d, SubCatSeq[i])) \cap Cells(Cat(d, SubCatSeq[j])) = {}

MajorIsUnion(d, m) == Cells(Cat(d, m)) = UNION {Cells(Cat(d, c)) : c \in SubsOf[m]}

Cover(d) == UNION {Cells(Cat(d, SubCatSeq[i])) : i \in SubIdx} = 1..NCells(d)

CanonicalBlock(b) ==
   LET ps == BlockDefs[b].p IN
   /\ Len(ps) >= 1
   /\ \A i \in 1..Len(ps) : /\ 0 <= ps[i][1] /\ ps[i][1] < ps[i][2] /\ ps[i][2] <= MaxCp1
                            /\ (ps[i][3] = 0) = (ps[i][2] - ps[i][1] = 1)
   /\ \A i \in 1..(Len(ps) - 1) : ps[i][2] < ps[i + 1][1]

PiecesDisjoint(ps, qs) ==
   \A i \in 1..Len(ps), j \in 1..Len(qs) : ps[i][2] <= qs[j][1] \/ qs[j][2] <= ps[i][1]

BlockIds(v) == {BlockVersions[v].blocks[k] : k \in 1..Len(BlockVersions[v].blocks)}
BlockDisjoint(v, b) ==
   \A c \in BlockIds(v) : c > b => PiecesDisjoint(BlockDefs[b].p, BlockDefs[c].p)

Holds(o) ==
   CASE o[1] = "grid"           -> GridOK(o[2])
     [] o[1] = "canonical"      -> CanonicalCat(o[2], o[3])
     [] o[1] = "disjoint"       -> Disjoint(o[2], o[3], o[4])
     [] o[1] = "major"          -> MajorIsUnion(o[2], o[3])
     [] o[1] = "cover"          -> Cover(o[2])
     [] o[1] = "blockcanonical" -> CanonicalBlock(o[2])
     [] o[1] = "blockdisjoint"  -> BlockDisjoint(o[2], o[3])

Init ==
   \/ \E d \in DS : ob = <<"grid", d>>
   \/ \E d \in DS, c \in AllCats : ob = <<"canonical", d, c>>
   \/ \E d \in DS, i \in SubIdx, j \in SubIdx : i < j /\ ob = <<"disjoint", d, i, j>>
   \/ \E d \in DS, k \in 1..Len(MajorSeq) : ob = <<"major", d, MajorSeq[k]>>
   \/ \E d \in DS : ob = <<"cover", d>>
   \/ \E b \in 1..Len(BlockDefs) : ob = <<"blockcanonical", b>>
   \/ \E v \in 1..Len(BlockVersions) : \E b \in BlockIds(v) : ob = <<"blockdisjoint", v, b>>

Next == UNCHANGED ob
Spec == Init /\ [][Next]_ob

Verdict == Holds(ob) \/ PrintT(<<"c13viol", ob>>)
=============================================================================
