------------------------------- MODULE Scopes -------------------------------
(***************************************************************************)
(* Lexical scoping of XPath variable binders (property C05).               *)
(*                                                                         *)
(* DEFINITIONAL environment-passing semantics Eval(e, env) of a core       *)
(* language with every binder of XPath 2.0/3.0:                            *)
(*   lit n | var v | e1 + e2 | (e1, e2) | e1 gt e2                         *)
(*   for $v in s return b | for $v in s, $w in t return b                  *)
(*   let $v := s return b                                                  *)
(*   some/every $v in s satisfies c                                        *)
(*   (function($v) { b })(a)          inline function: closure + call      *)
(* Values are sequences of integers; booleans are the integers 1001 (true) *)
(* and 1000 (false) so that TLC never compares values of different kinds.  *)
(*                                                                         *)
(* The machine builds programs outwards: the state is a program e (and its *)
(* value in the OUTER environment x = 10, y = 20); every action wraps e in *)
(* one more construct, in a position where inner bindings could leak into  *)
(* (or be clobbered by) the surrounding expression if the implementation   *)
(* shared one variables dict.  Two variable names only, so shadowing and   *)
(* same-name outer variables are forced.                                   *)
(***************************************************************************)
EXTENDS Integers, Sequences, FiniteSets, TLC

CONSTANT MaxDepth
VARIABLES e, val
vars == <<e, val>>

Vars == {"x", "y"}
Env0 == [v \in Vars |-> IF v = "x" THEN <<10>> ELSE <<20>>]
T == 1001
F == 1000
Bool(b) == IF b THEN <<T>> ELSE <<F>>

Lit(n)        == [k |-> "lit", n |-> n]
Var(v)        == [k |-> "var", v |-> v]
Add(a, b)     == [k |-> "add", a |-> a, b |-> b]
Gt(a, b)      == [k |-> "gt", a |-> a, b |-> b]
Cat(a, b)     == [k |-> "cat", a |-> a, b |-> b]
For(v, s, b)  == [k |-> "for", v |-> v, s |-> s, b |-> b]
For2(v, s, w, t, b) == [k |-> "for2", v |-> v, s |-> s, w |-> w, t |-> t, b |-> b]
Let(v, s, b)  == [k |-> "let", v |-> v, s |-> s, b |-> b]
Some(v, s, c) == [k |-> "some", v |-> v, s |-> s, c |-> c]
Every(v, s, c) == [k |-> "every", v |-> v, s |-> s, c |-> c]
Call(v, b, a) == [k |-> "call", v |-> v, b |-> b, a |-> a]
(* a function item that ESCAPES the scope of its definition and is called where a captured name is re-bound:   *)
(*   let $f := function() { b } return (let $v := s return $f())          - the body sees the DEFINITION env   *)
Clos(v, b, s) == [k |-> "clos", v |-> v, b |-> b, s |-> s]
(*   for $x in s, $y in (range reading $w), $w in t return b : the range of $y is outside the scope of the LATER $w    *)
For3(v, s, w, r, u, t, b) == [k |-> "for3", v |-> v, s |-> s, w |-> w, r |-> r, u |-> u, t |-> t, b |-> b]
(*   (for $v in s return function() { b }) ! .()   - one closure per iteration, all called after the loop      *)
ForClos(v, s, b) == [k |-> "forclos", v |-> v, s |-> s, b |-> b]

(* Ill-typed programs (a non-singleton or a boolean operand of + or gt) evaluate to ERR, which
   propagates strictly; they are excluded from the replay by the state constraint WellTyped:
   whether and when an implementation reports XPTY0004 for them depends on evaluation order. *)
ERR == <<-999>>
BadOperand(s) == s = ERR \/ Len(s) # 1 \/ s[1] >= 1000

RECURSIVE Eval(_, _)
RECURSIVE FlatMap(_, _, _, _)
(* concatenation of Eval(body, env[v -> <<s[i]>>]) for i = 1..Len(s) *)
FlatMap(body, env, v, s) ==
  IF s = <<>> THEN <<>>
  ELSE LET h == Eval(body, [env EXCEPT ![v] = <<Head(s)>>])
           t == FlatMap(body, env, v, Tail(s))
       IN IF h = ERR \/ t = ERR THEN ERR ELSE h \o t

Eval(x, env) ==
  CASE x.k = "lit"  -> <<x.n>>
    [] x.k = "var"  -> env[x.v]
    [] x.k = "add"  -> LET a == Eval(x.a, env) b == Eval(x.b, env) IN
                         IF BadOperand(a) \/ BadOperand(b) THEN ERR ELSE <<a[1] + b[1]>>
    [] x.k = "gt"   -> LET a == Eval(x.a, env) b == Eval(x.b, env) IN
                         IF BadOperand(a) \/ BadOperand(b) THEN ERR ELSE Bool(a[1] > b[1])
    [] x.k = "cat"  -> LET a == Eval(x.a, env) b == Eval(x.b, env) IN
                         IF a = ERR \/ b = ERR THEN ERR ELSE a \o b
    [] x.k = "for"  -> LET s == Eval(x.s, env) IN IF s = ERR THEN ERR ELSE FlatMap(x.b, env, x.v, s)
    [] x.k = "for2" -> \* for $v in s, $w in t return b  ==  for $v in s return (for $w in t return b)
                       LET s == Eval(x.s, env) IN
                         IF s = ERR THEN ERR ELSE FlatMap(For(x.w, x.t, x.b), env, x.v, s)
    [] x.k = "for3" -> \* = for $v in s return (for $w in r return (for $u in t return b))
                       LET s == Eval(x.s, env) IN
                         IF s = ERR THEN ERR ELSE FlatMap(For(x.w, x.r, For(x.u, x.t, x.b)), env, x.v, s)
    [] x.k = "let"  -> LET s == Eval(x.s, env) IN
                         IF s = ERR THEN ERR ELSE Eval(x.b, [env EXCEPT ![x.v] = s])
    [] x.k = "some" -> LET s == Eval(x.s, env) IN
                         IF s = ERR \/ \E i \in 1..Len(s) : Eval(x.c, [env EXCEPT ![x.v] = <<s[i]>>]) = ERR THEN ERR
                         ELSE Bool(\E i \in 1..Len(s) : Eval(x.c, [env EXCEPT ![x.v] = <<s[i]>>]) = <<T>>)
    [] x.k = "every" -> LET s == Eval(x.s, env) IN
                         IF s = ERR \/ \E i \in 1..Len(s) : Eval(x.c, [env EXCEPT ![x.v] = <<s[i]>>]) = ERR THEN ERR
                         ELSE Bool(\A i \in 1..Len(s) : Eval(x.c, [env EXCEPT ![x.v] = <<s[i]>>]) = <<T>>)
    [] x.k = "call" -> \* the closure captures env; the parameter shadows it inside the body only
                       LET a == Eval(x.a, env) IN
                         IF a = ERR THEN ERR ELSE Eval(x.b, [env EXCEPT ![x.v] = a])
    [] x.k = "clos" -> \* the rebinding of x.v at the place of the CALL is invisible to the body
                       LET a == Eval(x.s, env) IN
                         IF a = ERR THEN ERR ELSE Eval(x.b, env)
    [] x.k = "forclos" -> \* each closure keeps the binding of its own iteration
                       LET a == Eval(x.s, env) IN IF a = ERR THEN ERR ELSE FlatMap(x.b, env, x.v, a)

---------------------------------------------------------------------------
Leaves == {Lit(1), Lit(2), Var("x"), Var("y")}
Sources == {Cat(Lit(1), Lit(2)), Var("y"), Cat(Var("x"), Lit(3)), Lit(5)}     \* range expressions
Conds(v) == {Gt(Var(v), Lit(1)), Gt(Var("x"), Var("y")), Gt(Lit(15), Var(v))}
Bodies == {Var("x"), Var("y"), Add(Var("x"), Var("y")), Add(Var("y"), Lit(1))}
Seeds == Leaves \cup {Add(a, b) : a \in {Var("x"), Var("y")}, b \in Leaves}
               \cup {Some(v, s, c) : v \in Vars, s \in {Cat(Lit(1), Lit(2)), Var("y")}, c \in Conds("x") \cup Conds("y")}
               \cup {Every(v, s, c) : v \in Vars, s \in {Cat(Lit(1), Lit(2)), Var("y")}, c \in Conds("x") \cup Conds("y")}
               \* one binder already in place, so that one more step puts a read of the same name AFTER it
               \cup {For(v, s, b) : v \in Vars, s \in {Cat(Lit(1), Lit(2)), Cat(Var("x"), Lit(3))}, b \in Bodies}
               \cup {Let(v, s, b) : v \in Vars, s \in {Cat(Lit(1), Lit(2)), Lit(5)}, b \in Bodies}
               \cup {Call(v, b, a) : v \in Vars, b \in Bodies, a \in {Lit(2), Var("y")}}
               \cup {For2("x", Cat(Lit(1), Lit(2)), "y", Cat(Var("x"), Lit(7)), b) : b \in Bodies}
               \cup {Clos(v, b, Lit(7)) : v \in Vars, b \in Bodies}
               \cup {ForClos(v, Cat(Lit(1), Lit(2)), b) : v \in Vars, b \in Bodies}

Init == e \in Seeds /\ val = Eval(e, Env0)

Set(x) == e' = x /\ val' = Eval(x, Env0)
(* e becomes the BODY of a binder *)
WrapFor(v, s)    == Set(For(v, s, e))
WrapFor2(s, t)   == Set(For2("x", s, "y", t, e))
WrapFor2Dep      == Set(For2("x", Cat(Lit(1), Lit(2)), "y", Cat(Var("x"), Lit(7)), e))   \* inner range depends on outer variable
WrapLet(v, s)    == Set(Let(v, s, e))
WrapCall(v, a)   == Set(Call(v, e, a))
Other(u) == IF u = "x" THEN "y" ELSE "x"
(* for $o in (1, 2), $o in ($u), $u in (7, 8) return e  (o the other name): the middle range reads the OUTER $u on every tuple *)
WrapFor3(u) == Set(For3(Other(u), Cat(Lit(1), Lit(2)), Other(u), Var(u), u, Cat(Lit(7), Lit(8)), e))
WrapClos(v, s)   == Set(Clos(v, e, s))
WrapForClos(v, s) == Set(ForClos(v, s, e))
(* e becomes the RANGE / value expression of a binder whose body reads a variable *)
AsRange(v, b)    == Set(For(v, e, b))
AsLetValue(v, b) == Set(Let(v, e, b))
AsArg(v, b)      == Set(Call(v, b, e))
(* e is followed / preceded by a read of a variable in the SAME outer scope: leak detection *)
ThenRead(v)      == Set(Cat(e, Var(v)))
ReadThen(v)      == Set(Cat(Var(v), e))
ThenAdd(v)       == Set(Cat(e, Add(Var(v), Lit(1))))

Next == \/ \E v \in Vars, s \in Sources : WrapFor(v, s)
        \/ \E s \in {Cat(Lit(1), Lit(2))}, t \in {Cat(Lit(3), Lit(4)), Var("y")} : WrapFor2(s, t)
        \/ WrapFor2Dep
        \/ \E v \in Vars, s \in Sources : WrapLet(v, s)
        \/ \E v \in Vars, a \in Leaves : WrapCall(v, a)
        \/ \E u \in Vars : WrapFor3(u)
        \/ \E v \in Vars, s \in {Lit(7), Cat(Lit(1), Lit(2))} : WrapClos(v, s)
        \/ \E v \in Vars, s \in {Cat(Lit(1), Lit(2)), Var("y")} : WrapForClos(v, s)
        \/ \E v \in Vars, b \in {Var("x"), Var("y"), Add(Var("x"), Var("y"))} : AsRange(v, b)
        \/ \E v \in Vars, b \in {Var("x"), Var("y"), Cat(Var("x"), Var("y"))} : AsLetValue(v, b)
        \/ \E v \in Vars, b \in {Var("x"), Var("y"), Add(Var("x"), Var("y"))} : AsArg(v, b)
        \/ \E v \in Vars : ThenRead(v)
        \/ \E v \in Vars : ReadThen(v)
        \/ \E v \in Vars : ThenAdd(v)
Spec == Init /\ [][Next]_vars
Bounded == TLCGet("level") <= MaxDepth
WellTyped == val # ERR

---------------------------------------------------------------------------
(* Laws of lexical scoping, checked on every reachable program *)
ValOK == val = Eval(e, Env0)
(* a binder never changes what a later read of the same name in the outer scope sees *)
W(x) == Eval(x, Env0)
NoLeak == \A v \in Vars :
            /\ W(For(v, Cat(Lit(1), Lit(2)), e)) # ERR =>
                  W(Cat(For(v, Cat(Lit(1), Lit(2)), e), Var(v))) = W(For(v, Cat(Lit(1), Lit(2)), e)) \o Env0[v]
            /\ W(Let(v, Lit(7), e)) # ERR =>
                  W(Cat(Let(v, Lit(7), e), Var(v))) = W(Let(v, Lit(7), e)) \o Env0[v]
            /\ W(Call(v, e, Lit(7))) # ERR =>
                  W(Cat(Call(v, e, Lit(7)), Var(v))) = W(Call(v, e, Lit(7))) \o Env0[v]
(* let is substitution-by-value; a one-item for is a let *)
LetIsFor1 == \A v \in Vars : W(Let(v, Lit(7), e)) = W(For(v, Lit(7), e))
CallIsLet == \A v \in Vars, a \in Leaves : W(Call(v, e, a)) = W(Let(v, a, e))
ClosIsBody == \A v \in Vars : W(Clos(v, e, Lit(7))) = W(e)
ForClosIsFor == \A v \in Vars : W(ForClos(v, Cat(Lit(1), Lit(2)), e)) = W(For(v, Cat(Lit(1), Lit(2)), e))
For2IsNested == W(For2("x", Cat(Lit(1), Lit(2)), "y", Cat(Var("x"), Lit(7)), e))
                  = W(For("x", Cat(Lit(1), Lit(2)), For("y", Cat(Var("x"), Lit(7)), e)))
(* TLC evaluates invariants also on successor states that the constraints then discard: guard *)
Laws == (TLCGet("level") <= MaxDepth /\ val # ERR) => (ValOK /\ NoLeak /\ LetIsFor1 /\ CallIsLet /\ For2IsNested /\ ClosIsBody /\ ForClosIsFor)
=============================================================================
