------------------------------- MODULE Globals -------------------------------
(***************************************************************************)
(* Property C19, part 2: the other process globals an evaluation can see.  *)
(*                                                                         *)
(* State = what is global to the process, ONE compiled object that is used *)
(* again and again, and what the last public evaluation answered:          *)
(*   env   the set of environment variables that are set (os.environ)      *)
(*   dctx  the decimal context of the thread (decimal.getcontext())        *)
(*   obj   the object the evaluations go through: one parsed "token", one  *)
(*         "selector", one "parser" instance (a fresh parse per            *)
(*         evaluation), or a function item ("fnitem": a named function     *)
(*         reference fn:environment-variable#1 / available-environment-    *)
(*         variables#0 created by the first evaluation and CALLED by the   *)
(*         following ones)                                                 *)
(*   fun   which of the two environment functions the object evaluates     *)
(*   hist  the allow_environment flags of the evaluations made through obj *)
(*   res   abstract result of the last evaluation, last = what it was      *)
(* The application may set / unset variables between evaluations (App      *)
(* actions); evaluations must not.                                         *)
(*                                                                         *)
(* THE ENVIRONMENT GATE.  The answer of an evaluation depends on its OWN   *)
(* dynamic context and on os.environ at that moment, never on the history  *)
(* of the object: with default settings (allow = FALSE) nothing of env is  *)
(* observable whatever was evaluated before through the same token,        *)
(* Selector or parser; with allow = TRUE the answer is exactly env now.    *)
(* A function item is the one exception the language makes: a named        *)
(* function reference to a context dependent function captures the dynamic *)
(* context of its creation (XPath 3.1, 3.1.6), so its calls are gated by   *)
(* the allow flag of the CREATING evaluation (hist[1]).                    *)
(*                                                                         *)
(* DECIMAL CONTEXT.  Evaluations leave decimal.getcontext() as it was, also *)
(* when the generators of lazily evaluated constructs are abandoned,       *)
(* interrupted by a raising consumer or consumed in lockstep (SeqEval).    *)
(*                                                                         *)
(* ENTITIES.  XML text with a DOCTYPE that declares entities is rejected   *)
(* by fn:parse-xml, fn:parse-xml-fragment and by the defuse_xml helper     *)
(* when the parser has its default defuse_xml = TRUE - wherever the        *)
(* DOCTYPE is: after a prolog (comment, PI, blanks, XML declaration +      *)
(* comment) of ANY size, whatever kind of entity is declared and wherever  *)
(* it is referenced, and whatever the XML declaration of the text says     *)
(* (the text is a string: encoding / version / standalone mean nothing).   *)
(* Outside: defuse_xml = FALSE, DOCTYPEs that declare no entity (result    *)
(* <<"any">>), the values of the variables (identified with their names),  *)
(* fn:doc (context documents are already parsed trees).                    *)
(***************************************************************************)
EXTENDS Naturals, Sequences, FiniteSets, TLC

CONSTANTS Names,      \* abstract environment variable names
          Objects,    \* subset of {"token", "selector", "parser", "fnitem"}
          MaxHist,    \* evaluations through one object
          Apis,       \* subset of {"parse-xml", "parse-xml-fragment", "defuse_xml"}
          EntKinds,   \* kinds of XML text, see Declares
          Prologs,    \* what precedes the DOCTYPE / the root element
          Sizes,      \* length of the prolog in characters
          RefPos,     \* where the entity is referenced: "content" | "attr"
          Decls,      \* the XML declaration in front of everything: "none", "version", an encoding name
                      \* ("UTF-8", "utf-8", "ISO-8859-1", "US-ASCII", "UTF-16", "UTF-16LE", "UTF-16BE",
                      \* "UCS-4", "bogus"), "standalone-yes", "standalone-no"
          SeqFns,     \* lazily evaluated sequence constructs (subsequence, remove, for, predicates ...)
          Consumes,   \* how their result is consumed: fully, partially, by a raising consumer, in lockstep
          Mags,       \* magnitude of the numeric argument: ordinary, 1e27, 1e30, 1e300, huge integer, NaN, INF
          Ops         \* arithmetic evaluations that use the decimal module

VARIABLES env, dctx, obj, fun, hist, res, last
vars == <<env, dctx, obj, fun, hist, res, last>>

InitCtx == [prec |-> 28, rounding |-> "ROUND_HALF_EVEN", traps |-> "default"]
NoEval == [kind |-> "app", allow |-> FALSE, ek |-> "none"]

Declares(ek) == ek \in {"internal", "internal_unused", "external", "parameter", "unparsed", "nested"}

(* the answers, as functions of what the evaluation may look at *)
EnvVarRes(n, allow, e) == IF allow /\ n \in e THEN <<"value", n>> ELSE <<"empty">>
AvailRes(allow, e)     == IF allow THEN <<"names", e>> ELSE <<"empty">>
(* the text is a STRING: what its XML declaration says about the encoding, the version or *)
(* standalone has no influence on the verdict about its entities                          *)
PlainDecls == {"none", "UTF-8", "utf-8"}
ParseRes(api, ek, pre, size, ref, decl) ==
  IF Declares(ek) THEN <<"reject">>
  ELSE IF ek = "none" /\ decl \in PlainDecls THEN <<"doc">> ELSE <<"any">>

(* which allow flag gates an evaluation made through the object after the history h *)
Gate(o, h, allow) == IF o = "fnitem" /\ h # <<>> THEN h[1] ELSE allow

Init == /\ env \in SUBSET Names /\ dctx = InitCtx
        /\ obj \in Objects /\ fun \in {"envvar", "avail"} /\ hist = <<>>
        /\ res = <<"none">> /\ last = NoEval

(* ---- the application ----------------------------------------------------- *)
SetVar(n)   == /\ n \notin env /\ env' = env \cup {n} /\ res' = <<"none">> /\ last' = NoEval
               /\ UNCHANGED <<dctx, obj, fun, hist>>
UnsetVar(n) == /\ n \in env /\ env' = env \ {n} /\ res' = <<"none">> /\ last' = NoEval
               /\ UNCHANGED <<dctx, obj, fun, hist>>
App == \E n \in Names : SetVar(n) \/ UnsetVar(n)

(* ---- evaluations through the one object ---------------------------------------- *)
Created == obj = "fnitem" /\ hist = <<>>     \* the first evaluation only creates the function item

EnvVar(n, allow) ==      \* fn:environment-variable($n)
  /\ fun = "envvar" /\ Len(hist) < MaxHist
  /\ res' = IF Created THEN <<"item">> ELSE EnvVarRes(n, Gate(obj, hist, allow), env)
  /\ last' = [kind |-> IF Created THEN "create" ELSE "envvar", allow |-> Gate(obj, hist, allow), ek |-> "none"]
  /\ hist' = Append(hist, allow)
  /\ UNCHANGED <<env, dctx, obj, fun>>

AvailVars(allow) ==      \* fn:available-environment-variables()
  /\ fun = "avail" /\ Len(hist) < MaxHist
  /\ res' = IF Created THEN <<"item">> ELSE AvailRes(Gate(obj, hist, allow), env)
  /\ last' = [kind |-> IF Created THEN "create" ELSE "avail", allow |-> Gate(obj, hist, allow), ek |-> "none"]
  /\ hist' = Append(hist, allow)
  /\ UNCHANGED <<env, dctx, obj, fun>>

(* ---- evaluations that do not depend on the object: offered in one base configuration *)
Base == hist = <<>> /\ obj = "selector" /\ fun = "envvar" /\ last = NoEval

ParseXml(api, ek, pre, size, ref, decl) ==
  /\ Base
  /\ (size > 100 \/ decl # "none") => env = {}   \* the text functions never look at the environment: the long
                                 \* texts and the declaration dimension are offered in the empty one only
  /\ decl # "none" => (size <= 100 /\ pre # "decl_comment" /\ ref = "content")
  /\ api = "defuse_xml" => decl \in PlainDecls    \* the helper alone only has to forbid what it can read
  /\ res' = ParseRes(api, ek, pre, size, ref, decl)
  /\ last' = [kind |-> "parse", allow |-> FALSE, ek |-> ek]
  /\ UNCHANGED <<env, dctx, obj, fun, hist>>

DefaultCollation ==      \* fn:default-collation() of a parser built with default settings in a C-locale
  /\ Base                \* process: LC_ALL / LC_COLLATE / LANG of the environment are not consulted
  /\ res' = <<"codepoint">>
  /\ last' = [kind |-> "defcoll", allow |-> FALSE, ek |-> "none"]
  /\ UNCHANGED <<env, dctx, obj, fun, hist>>

(* a lazily evaluated sequence construct whose numeric argument has the magnitude `mag`, consumed *)
(* completely, partially (its generator is abandoned), by a consumer that raises, in lockstep with *)
(* a second one (non-LIFO), or as an iter_select() iterator that the caller drops after one item:   *)
(* whatever happens to the generators, the thread's decimal context is the caller's                *)
SeqEval(fn, consume, mag) ==
  /\ Base /\ env = {}
  /\ res' = <<"any">>
  /\ last' = [kind |-> "seq", allow |-> FALSE, ek |-> "none"]
  /\ UNCHANGED <<env, dctx, obj, fun, hist>>

Decimal(op) ==           \* xs:decimal arithmetic, rounding, casts, fn:format-number of huge values
  /\ Base
  /\ res' = <<"any">>
  /\ last' = [kind |-> "decimal", allow |-> FALSE, ek |-> "none"]
  /\ UNCHANGED <<env, dctx, obj, fun, hist>>

Next == \/ \E n \in Names : SetVar(n)
        \/ \E n \in Names : UnsetVar(n)
        \/ \E n \in Names, a \in BOOLEAN : EnvVar(n, a)
        \/ \E a \in BOOLEAN : AvailVars(a)
        \/ \E api \in Apis, ek \in EntKinds, pre \in Prologs, size \in Sizes, ref \in RefPos, decl \in Decls :
              ParseXml(api, ek, pre, size, ref, decl)
        \/ \E fn \in SeqFns, consume \in Consumes, mag \in Mags : SeqEval(fn, consume, mag)
        \/ \E op \in Ops : Decimal(op)
        \/ DefaultCollation

Spec == Init /\ [][Next]_vars

TypeOK == /\ env \subseteq Names /\ dctx = InitCtx /\ obj \in Objects
          /\ Len(hist) <= MaxHist /\ \A i \in 1..Len(hist) : hist[i] \in BOOLEAN

(* evaluations leave os.environ and the decimal context untouched *)
EvalPreserves == [][(env' # env \/ dctx' # dctx) => App]_vars
(* with default settings no environment variable is observable, WHATEVER THE HISTORY  *)
(* of the object (for a function item: default settings of the creating evaluation)   *)
BlindByDefault == (last.kind \in {"envvar", "avail"} /\ ~last.allow) => res = <<"empty">>
HistoryBlind ==       \* the gate never looks at earlier evaluations of a token / Selector / parser
  \A o \in Objects \ {"fnitem"}, a \in BOOLEAN :
     \A h1 \in {<<>>, <<TRUE>>, <<FALSE>>, <<TRUE, TRUE>>, <<TRUE, FALSE>>} : Gate(o, h1, a) = a
(* ... i.e. the answer is the same in every environment (non-interference).  The law is about EVERY  *)
(* expression, not only the two environment functions: the binding also evaluates every zero-argument *)
(* function of the live parser and the vectors of this module in fresh processes whose LANG / LC_ALL / *)
(* LANGUAGE / LC_MESSAGES / TZ / HOME / PATH differ, and requires identical answers                   *)
NonInterference ==
  \A e1 \in SUBSET Names, e2 \in SUBSET Names :
     /\ AvailRes(FALSE, e1) = AvailRes(FALSE, e2)
     /\ \A n \in Names : EnvVarRes(n, FALSE, e1) = EnvVarRes(n, FALSE, e2)
(* the static default collation does not depend on the environment either             *)
CollationBlind == last.kind = "defcoll" => res = <<"codepoint">>
(* and when it is allowed the answer is exactly the environment AT THAT TIME          *)
AllowedIsExact == /\ (last.kind = "avail" /\ last.allow) => res = <<"names", env>>
                  /\ (last.kind = "envvar" /\ last.allow) => res[1] \in {"value", "empty"}
(* an entity-declaring text is never turned into a document ...                       *)
NeverExpanded == (last.kind = "parse" /\ Declares(last.ek)) => res = <<"reject">>
(* ... wherever the DOCTYPE starts, whatever precedes it, wherever the reference is    *)
PositionBlind ==
  \A api \in Apis, ek \in EntKinds, p1 \in Prologs, p2 \in Prologs, s1 \in Sizes, s2 \in Sizes,
     r1 \in RefPos, r2 \in RefPos :
        ParseRes(api, ek, p1, s1, r1, "none") = ParseRes(api, ek, p2, s2, r2, "none")
(* ... and whatever its XML declaration says                                           *)
DeclarationBlind ==
  \A api \in Apis, ek \in EntKinds, pre \in Prologs, size \in Sizes, ref \in RefPos, d1 \in Decls, d2 \in Decls :
     Declares(ek) => ParseRes(api, ek, pre, size, ref, d1) = ParseRes(api, ek, pre, size, ref, d2)
=============================================================================
