------------------------------- MODULE Globals -------------------------------
(***************************************************************************)
(* Property C19, part 2: the other process globals an evaluation can see.  *)
(*                                                                         *)
(* Value-state machine.  State = what is global to the process and what    *)
(* the last public evaluation answered:                                    *)
(*   env   the set of environment variables that are set (os.environ)      *)
(*   dctx  the decimal context of the thread (decimal.getcontext())        *)
(*   res   abstract result of the last evaluation                          *)
(* The application may set / unset variables between evaluations (App      *)
(* actions); evaluations (Eval actions) must not.  With default settings   *)
(* (allow_environment = FALSE) nothing of env is observable; XML text      *)
(* with a DOCTYPE that declares entities is rejected by fn:parse-xml and   *)
(* fn:parse-xml-fragment when the parser has its default defuse_xml = TRUE.*)
(* Outside: defuse_xml = FALSE, DOCTYPEs that declare no entity (result     *)
(* <<"any">>), the values of the variables (identified with their names).  *)
(***************************************************************************)
EXTENDS Naturals, FiniteSets, TLC

CONSTANTS Names,      \* abstract environment variable names
          EntKinds,   \* kinds of XML text, see Declares
          Prefixes,   \* what precedes the DOCTYPE / the root element
          Ops         \* arithmetic evaluations that use the decimal module

VARIABLES env, dctx, res, last
vars == <<env, dctx, res, last>>

InitCtx == [prec |-> 28, rounding |-> "ROUND_HALF_EVEN", traps |-> "default"]
NoEval == [kind |-> "app", allow |-> FALSE, ek |-> "none"]

Declares(ek) == ek \in {"internal", "internal_unused", "external", "parameter", "unparsed", "nested"}

(* the answers, as functions of what the evaluation may look at *)
EnvVarRes(n, allow, e) == IF allow /\ n \in e THEN <<"value", n>> ELSE <<"empty">>
AvailRes(allow, e)     == IF allow THEN <<"names", e>> ELSE <<"empty">>
ParseRes(fn, ek)       == IF Declares(ek) THEN <<"reject">>
                          ELSE IF ek = "none" THEN <<"doc">> ELSE <<"any">>

Init == env \in SUBSET Names /\ dctx = InitCtx /\ res = <<"none">> /\ last = NoEval

(* ---- the application ----------------------------------------------------- *)
SetVar(n)   == n \notin env /\ env' = env \cup {n} /\ res' = <<"none">> /\ last' = NoEval /\ UNCHANGED dctx
UnsetVar(n) == n \in env /\ env' = env \ {n} /\ res' = <<"none">> /\ last' = NoEval /\ UNCHANGED dctx
App == \E n \in Names : SetVar(n) \/ UnsetVar(n)

(* ---- evaluations ------------------------------------------------------------ *)
EnvVar(n, allow) ==      \* fn:environment-variable($n)
  /\ res' = EnvVarRes(n, allow, env)
  /\ last' = [kind |-> "envvar", allow |-> allow, ek |-> "none"]
  /\ UNCHANGED <<env, dctx>>

AvailVars(allow) ==      \* fn:available-environment-variables()
  /\ res' = AvailRes(allow, env)
  /\ last' = [kind |-> "avail", allow |-> allow, ek |-> "none"]
  /\ UNCHANGED <<env, dctx>>

ParseXml(fn, ek, pre) == \* fn:parse-xml / fn:parse-xml-fragment with defuse_xml = TRUE
  /\ res' = ParseRes(fn, ek)
  /\ last' = [kind |-> "parse", allow |-> FALSE, ek |-> ek]
  /\ UNCHANGED <<env, dctx>>

DefaultCollation ==      \* fn:default-collation() of a parser built with default settings in a C-locale
  /\ res' = <<"codepoint">>   \* process: LC_ALL / LC_COLLATE / LANG of the environment are not consulted
  /\ last' = [kind |-> "defcoll", allow |-> FALSE, ek |-> "none"]
  /\ UNCHANGED <<env, dctx>>

Decimal(op) ==           \* xs:decimal arithmetic, rounding, casts, fn:format-number of huge values
  /\ res' = <<"any">>
  /\ last' = [kind |-> "decimal", allow |-> FALSE, ek |-> "none"]
  /\ UNCHANGED <<env, dctx>>

Next == \/ \E n \in Names : SetVar(n)
        \/ \E n \in Names : UnsetVar(n)
        \/ \E n \in Names, a \in BOOLEAN : EnvVar(n, a)
        \/ \E a \in BOOLEAN : AvailVars(a)
        \/ \E fn \in {"parse-xml", "parse-xml-fragment"}, ek \in EntKinds, pre \in Prefixes : ParseXml(fn, ek, pre)
        \/ \E op \in Ops : Decimal(op)
        \/ DefaultCollation

Spec == Init /\ [][Next]_vars

TypeOK == env \subseteq Names /\ dctx = InitCtx

(* evaluations leave os.environ and the decimal context untouched *)
EvalPreserves == [][(env' # env \/ dctx' # dctx) => App]_vars
(* with default settings no environment variable is observable ...                  *)
BlindByDefault == (last.kind \in {"envvar", "avail"} /\ ~last.allow) => res = <<"empty">>
(* ... i.e. the answer is the same in every environment (non-interference)           *)
NonInterference ==
  \A e1 \in SUBSET Names, e2 \in SUBSET Names :
     /\ AvailRes(FALSE, e1) = AvailRes(FALSE, e2)
     /\ \A n \in Names : EnvVarRes(n, FALSE, e1) = EnvVarRes(n, FALSE, e2)
(* the static default collation does not depend on the environment either             *)
CollationBlind == last.kind = "defcoll" => res = <<"codepoint">>
(* and when it is allowed the answer is exactly the environment                       *)
AllowedIsExact == (last.kind = "avail" /\ last.allow) => res = <<"names", env>>
(* an entity-declaring text is never turned into a document *)
NeverExpanded == (last.kind = "parse" /\ Declares(last.ek)) => res = <<"reject">>
=============================================================================
