------------------------------ MODULE GivenSeqs ------------------------------
(* Sentences given from outside: <<version, token sequence>> pairs.  GENERATED *)
(* at check time by engine/props/c04.py from the (parser class, source, tree)  *)
(* triples recorded while the repository's own test-suite runs (binding B);    *)
(* the copy in spec/ holds a few samples so that the module set is complete.   *)
Given == { <<"1.0", <<"root/", "x", "/", "x", "[", "x", "=", "x", "]">>>>,
           <<"2.0", <<"x", "+", "x", "*", "x">>>>,
           <<"2.0", <<"(", "x", ",", "x", ")", "[", "x", "]">>>>,
           <<"3.1", <<"x", "=>", "cast">>>> }
=============================================================================
