----------------------------- MODULE BaseScope -----------------------------
(***************************************************************************)
(* Growth beyond the listed properties (DESIGN section 5): xml:base         *)
(* scoping and fn:base-uri (dm:base-uri).                                   *)
(*                                                                          *)
(* XML Base 4.2 / XDM 3.1 6.2.2: the base URI of an element is its xml:base *)
(* attribute resolved (RFC 3986 5.2) against the base URI of its parent, or *)
(* the parent's base URI when it has none; the base URI of the document is  *)
(* the URI it was loaded from; attribute, text, comment and processing      *)
(* instruction nodes have the base URI of their parent element.             *)
(*                                                                          *)
(* URIs are modelled structurally: [root, dirs, file] renders as            *)
(*   "http://" root "/" dir1 "/" ... dirN "/" file        (file may be "")  *)
(* and an xml:base value is None (absent), an absolute URI, the empty       *)
(* reference, or a relative path reference [up, dirs, file] rendering as    *)
(*   "../" * up  dir1 "/" ... file                                          *)
(* RFC 3986 5.2.2 for such references: merge = remove the last segment      *)
(* (the file) of the base path, append the reference; remove_dot_segments   *)
(* = each ".." drops one directory, never going above the root; the empty   *)
(* reference yields the base itself.                                        *)
(*                                                                          *)
(* The machine walks down an element chain carrying the base URI along      *)
(* (cur); the focus can move to a non-element child of the focus element.   *)
(* Second oracle of the spec in the binding: urllib.parse.urljoin folded    *)
(* over the rendered chain.                                                 *)
(***************************************************************************)
EXTENDS Naturals, Sequences, FiniteSets

CONSTANTS MaxDepth, Wide

VARIABLES chain, cur, kind
vars == <<chain, cur, kind>>

None  == [t |-> "none"]
Empty == [t |-> "empty"]
Abs(r, d, f)  == [t |-> "abs", root |-> r, dirs |-> d, file |-> f]
Rel(u, d, f)  == [t |-> "rel", up |-> u, dirs |-> d, file |-> f]
Uri(r, d, f)  == [root |-> r, dirs |-> d, file |-> f]

DocBase == Uri("h1", <<"d">>, "doc.xml")          \* http://h1/d/doc.xml

BaseVals == IF Wide
            THEN {None, Empty, Abs("h2", <<"x">>, ""), Abs("h2", <<>>, "y.xml"), Rel(0, <<"s">>, ""), Rel(0, <<>>, "f.xml"),
                  Rel(1, <<>>, ""), Rel(1, <<"u">>, "g.xml"), Rel(2, <<"v">>, ""), Rel(0, <<"s", "t">>, "f.xml")}
            ELSE {None, Empty, Abs("h2", <<"x">>, ""), Rel(0, <<"s">>, ""), Rel(0, <<>>, "f.xml"),
                  Rel(1, <<>>, ""), Rel(1, <<"u">>, "g.xml"), Rel(2, <<"v">>, "")}
Kinds == {"elem", "attr", "text", "comment", "pi"}

Min(a, b) == IF a < b THEN a ELSE b

(* RFC 3986 5.2.2 restricted to the reference forms above *)
Resolve(b, r) ==
  CASE r.t = "none"  -> b
    [] r.t = "empty" -> b
    [] r.t = "abs"   -> Uri(r.root, r.dirs, r.file)
    [] r.t = "rel"   -> Uri(b.root, SubSeq(b.dirs, 1, Len(b.dirs) - Min(r.up, Len(b.dirs))) \o r.dirs, r.file)

(* definitional: by recursion on the parent *)
RECURSIVE BaseOf(_)
BaseOf(ch) == IF ch = <<>> THEN DocBase
              ELSE Resolve(BaseOf(SubSeq(ch, 1, Len(ch) - 1)), ch[Len(ch)])

Init == chain = <<>> /\ cur = DocBase /\ kind = "doc"

Descend(v) == /\ Len(chain) < MaxDepth
              /\ kind \in {"doc", "elem"}
              /\ chain' = Append(chain, v)
              /\ cur' = Resolve(cur, v)
              /\ kind' = "elem"

Focus(k) == /\ kind = "elem" /\ k # "elem"
            /\ kind' = k
            /\ UNCHANGED <<chain, cur>>

Next == (\E v \in BaseVals : Descend(v)) \/ (\E k \in Kinds : Focus(k))
Spec == Init /\ [][Next]_vars

---------------------------------------------------------------------------
TypeOK == /\ Len(chain) <= MaxDepth
          /\ \A i \in 1..Len(chain) : chain[i] \in BaseVals
          /\ kind \in Kinds \cup {"doc"}
          /\ cur.root \in {"h1", "h2"}

InvDefinitional == cur = BaseOf(chain)

(* an absolute xml:base cuts the dependence on everything above it *)
LastAbs(ch) == IF \E i \in 1..Len(ch) : ch[i].t = "abs"
               THEN CHOOSE i \in 1..Len(ch) : ch[i].t = "abs" /\ \A j \in (i+1)..Len(ch) : ch[j].t # "abs"
               ELSE 0
RECURSIVE Fold(_, _)
Fold(b, ch) == IF ch = <<>> THEN b ELSE Fold(Resolve(b, Head(ch)), Tail(ch))
InvAbsCuts == LET i == LastAbs(chain) IN
              i > 0 => cur = Fold(Uri(chain[i].root, chain[i].dirs, chain[i].file), SubSeq(chain, i + 1, Len(chain)))

(* elements without xml:base (or with the empty reference) do not change it *)
InvInherit == (chain # <<>> /\ chain[Len(chain)].t \in {"none", "empty"}) => cur = BaseOf(SubSeq(chain, 1, Len(chain) - 1))

(* the authority only changes through an absolute xml:base *)
InvRoot == cur.root = (IF LastAbs(chain) = 0 THEN "h1" ELSE chain[LastAbs(chain)].root)
=============================================================================
