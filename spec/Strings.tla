------------------------------ MODULE Strings ------------------------------
(***************************************************************************)
(* XPath F&O string functions (property C09) as a VALUE-STATE MACHINE.     *)
(*                                                                         *)
(* A string is the sequence of its Unicode code points (XDM 3.1 sec. 2.7;  *)
(* F&O 5: "functions operate on characters, i.e. code points, not on UTF-16*)
(* code units"): Seq(Int).  The binding is chr()/ord(), 1:1.  The alphabet *)
(* holds one representative per character class the code branches on:      *)
(*   97 'a', 98 'b', 65 'A' (upper-case partner of 'a'), 49 '1', 32 ' ',   *)
(*   9 TAB, 10 NEWLINE, 769 U+0301 combining acute, 128512 U+1F600 astral, *)
(*   37 '%', 47 '/', 160 U+00A0 no-break space (Unicode White_Space that   *)
(*   is NOT XML whitespace); Sweep adds every printable ASCII character,   *)
(*   TAB, NEWLINE and CARRIAGE RETURN as one-character strings (URI        *)
(*   escaping classes, case mapping, whitespace variants).                 *)
(*                                                                         *)
(* State: cur, a tagged value                                              *)
(*   [t |-> "str", s |-> Seq(Int)]      xs:string                          *)
(*   [t |-> "empty"]                    the empty sequence as an argument  *)
(*   [t |-> "bool", b], [t |-> "int", i]                      (terminal)   *)
(*   [t |-> "cps", c |-> Seq(Int)]      xs:integer* (code points)          *)
(*   [t |-> "err", code]                                      (terminal)   *)
(* Actions apply ONE function to cur; arguments come from grids:           *)
(*   Fn1(f), Fn2(f, t), Translate(m, r), Substring2(a), Substring3(a, b),  *)
(*   ConcatNum(a), ConcatNum10(a) (XPath 1.0 rule for +-INF),              *)
(*   ConcatBool(b), CpToStr, Rejoin(t) (= the composite                    *)
(*   concat(substring-before(s,t), t, substring-after(s,t))).              *)
(* Strings longer than MaxLen are not expanded (no action is enabled);     *)
(* every string <= MaxLen over Alpha is an initial state, so every path of *)
(* the graph is a chain of function applications.  Part partitions the     *)
(* expanded strings by first code point (several TLC runs, one graph).     *)
(*                                                                         *)
(* URI family ("uri"): every string <= UriLen over UriAlpha ('%', hex       *)
(* digits of both cases, a non-hex letter, space) is an initial state on   *)
(* which only encode-for-uri / iri-to-uri / escape-html-uri act: escaping  *)
(* is defined PER CHARACTER (no look-ahead: '%' followed by two hex digits *)
(* is still '%25' for encode-for-uri and still '%' for the other two).     *)
(* Node-set family ("doc"): the state is a context element x with children *)
(* named b, c, d (text = name + position) and an attribute k; the XPath    *)
(* 1.0 string functions are called with RELATIVE node-set paths b c d . @k *)
(* as arguments: each argument is converted with string(), i.e. the        *)
(* string-value of the FIRST node in document order (XPath 1.0 sec. 4.2),  *)
(* and every argument is evaluated with the context node of the call.      *)
(*                                                                         *)
(* Collation family ("coll"): the STATIC CONTEXT is a dimension.  d is the   *)
(* parser's default collation, a an explicit collation argument ("none" if  *)
(* absent), both in {codepoint, ascii-ci = html-ascii-case-insensitive,     *)
(* F&O 5.3.5}.  UsesCollation says which functions consult a collation at   *)
(* all: compare contains starts-with ends-with substring-before/-after      *)
(* follow the argument, else the default; codepoint-equal, concat and every *)
(* other string function give the code point result under EVERY default.   *)
(* Code point boundaries ("cps"): every boundary of the XML Char production *)
(* and its neighbours (BoundaryCps) goes through codepoints-to-string, and  *)
(* the legal ones through every string function as 1- and 2-char strings.   *)
(*                                                                         *)
(* Numeric arguments are tokens (the canonical xs:double lexical form);    *)
(* NumVal gives the value in QUARTERS, or an IEEE special.                 *)
(*                                                                         *)
(* Outside the model (listed in the property as excluded): case mapping    *)
(* beyond ASCII letters, collations other than the code point collation,   *)
(* normalize-unicode.  XML 1.1-only characters in codepoints-to-string     *)
(* (#x1-#x1F) are implementation-dependent and not used.                   *)
(***************************************************************************)
EXTENDS Integers, Sequences, FiniteSets, TLC

CONSTANTS MaxLen,     \* strings up to this length are states that are expanded
          Alpha,      \* code points of the first-argument strings
          Alpha2,     \* code points of the second-argument strings (length <= 2)
          AlphaM,     \* code points of translate's map strings
          GridName,   \* "small" | "full"   numeric argument grid
          Sweep,      \* BOOLEAN: every printable ASCII character, TAB, NL, CR as 1-char strings
          Part,       \* only strings whose first code point (0 for "") is in Part are expanded
          UriAlpha,   \* code points of the URI-escaping family: '%', hex digits, non-hex characters
          UriLen,     \* ... strings up to this length ('%20', '%4G', 'a%2F'); only the 3 escaping functions apply
          CaseAlpha,  \* case-mapping family: strings <= MaxLen over the SpecialCasing characters (only upper-/lower-case act)
          AlphaC,     \* collation family: strings <= MaxLen over AlphaC are the first arguments ('a', 'A', ...)
          DocLen,     \* node-set argument family: context element with up to DocLen children named b, c, d
          Acts        \* action families: subset of {"fn1","fn2","translate","substring","concatx","rejoin","cps","uri","doc","coll","case","edge","ctx"}

VARIABLE cur
vars == <<cur>>

---------------------------------------------------------------------------
(* values *)
Str(s)  == [t |-> "str", s |-> s]
Empty   == [t |-> "empty"]
Bool(b) == [t |-> "bool", b |-> b]
IntV(i) == [t |-> "int", i |-> i]
Cps(c)  == [t |-> "cps", c |-> c]
Err(c)  == [t |-> "err", code |-> c]
IsStrArg(v) == v.t \in {"str", "empty"}
AsStr(v) == IF v.t = "empty" THEN <<>> ELSE v.s      \* F&O: "if the value of $arg is the empty sequence
                                                     \*  it is treated as the zero-length string"

StrUpTo(A, n) == UNION {[1..k -> A] : k \in 0..n}

(* s[1..n] collected through G: the concatenation G(1) \o ... \o G(n) *)
Gather(n, G(_)) == LET f[i \in 0..n] == IF i = 0 THEN <<>> ELSE f[i - 1] \o G(i) IN f[n]
FlatMap(F(_), s) == Gather(Len(s), LAMBDA i : F(s[i]))
InSeq(c, m) == \E i \in 1..Len(m) : m[i] = c

---------------------------------------------------------------------------
(* F&O 5.5 / 5.4: functions based on substring matching, code point collation *)
Occurs(s, t, i) == i + Len(t) - 1 <= Len(s) /\ SubSeq(s, i, i + Len(t) - 1) = t
Contains(s, t)   == \E i \in 1..(Len(s) - Len(t) + 1) : Occurs(s, t, i)
StartsWith(s, t) == Len(t) <= Len(s) /\ SubSeq(s, 1, Len(t)) = t
EndsWith(s, t)   == Len(t) <= Len(s) /\ SubSeq(s, Len(s) - Len(t) + 1, Len(s)) = t
FirstIndex(s, t) == CHOOSE i \in 1..(Len(s) - Len(t) + 1) :
                       Occurs(s, t, i) /\ \A j \in 1..(i - 1) : ~Occurs(s, t, j)
(* substring-before: the part that precedes the FIRST occurrence; "" if t does not occur;
   t = "" occurs at position 1: before = "", after = s  (F&O 5.5.4, 5.5.5) *)
Before(s, t) == IF ~Contains(s, t) THEN <<>> ELSE SubSeq(s, 1, FirstIndex(s, t) - 1)
After(s, t)  == IF ~Contains(s, t) THEN <<>> ELSE SubSeq(s, FirstIndex(s, t) + Len(t), Len(s))

(* fn:compare / fn:codepoint-equal with the Unicode code point collation *)
RECURSIVE Cmp(_, _)
Cmp(s, t) == IF s = <<>> /\ t = <<>> THEN 0
             ELSE IF s = <<>> THEN -1 ELSE IF t = <<>> THEN 1
             ELSE IF Head(s) < Head(t) THEN -1 ELSE IF Head(s) > Head(t) THEN 1
             ELSE Cmp(Tail(s), Tail(t))

---------------------------------------------------------------------------
(* fn:translate (F&O 5.4.9): a character of s that does not occur in m is kept; one that
   occurs at position i of m (FIRST occurrence decides) becomes r[i], or is dropped when
   r has no position i; excess characters of r are ignored *)
IndexIn(c, m) == CHOOSE i \in 1..Len(m) : m[i] = c /\ \A j \in 1..(i - 1) : m[j] # c
TrChar(c, m, r) == IF ~InSeq(c, m) THEN <<c>>
                   ELSE LET i == IndexIn(c, m) IN IF i <= Len(r) THEN <<r[i]>> ELSE <<>>
TranslateS(s, m, r) == FlatMap(LAMBDA c : TrChar(c, m, r), s)

---------------------------------------------------------------------------
(* fn:normalize-space (F&O 5.4.5): whitespace is XML S = #x20 | #x9 | #xD | #xA only;
   leading/trailing runs are removed, inner runs become ONE #x20 *)
WS == {32, 9, 10, 13}
IsWS(c) == c \in WS
NormAt(s, i) == IF ~IsWS(s[i]) THEN <<s[i]>>
                ELSE IF i > 1 /\ ~IsWS(s[i - 1]) /\ (\E j \in (i + 1)..Len(s) : ~IsWS(s[j])) THEN <<32>>
                ELSE <<>>
NormalizeSpace(s) == Gather(Len(s), LAMBDA i : NormAt(s, i))

(* case mapping on the ASCII letters; every other character of the alphabet has no case mapping *)
UpperC(c) == IF c \in 97..122 THEN c - 32 ELSE c
LowerC(c) == IF c \in 65..90 THEN c + 32 ELSE c
UpperCase(s) == [i \in 1..Len(s) |-> UpperC(s[i])]
LowerCase(s) == [i \in 1..Len(s) |-> LowerC(s[i])]

(* fn:upper-case / fn:lower-case (F&O 5.4.7/5.4.8): the Unicode default case conversion, i.e.
   UnicodeData simple mappings plus the UNCONDITIONAL and the language-insensitive conditional
   (Final_Sigma) mappings of SpecialCasing.txt.  The table is written out for the characters
   of the case family; every other character of the model maps as ASCII or to itself.  The
   binding cross-checks every edge with the running interpreter's str.upper()/str.lower(). *)
UpperOf(c) ==
  CASE c = 223 -> <<83, 83>>                     \* U+00DF sharp s -> SS
    [] c = 64256 -> <<70, 70>>                   \* U+FB00 ligature ff -> FF
    [] c = 329 -> <<700, 78>>                    \* U+0149 -> U+02BC N
    [] c = 8064 -> <<7944, 921>>                 \* U+1F80 alpha psili ypogegrammeni -> U+1F08 U+0399
    [] c = 453 -> <<452>> [] c = 454 -> <<452>>  \* U+01C5 / U+01C6 -> U+01C4
    [] c = 305 -> <<73>>                         \* U+0131 dotless i -> I
    [] c = 963 -> <<931>> [] c = 962 -> <<931>>  \* sigma, final sigma -> U+03A3
    [] c = 945 -> <<913>>                        \* alpha -> U+0391
    [] c = 4304 -> <<7312>>                      \* Georgian an U+10D0 -> U+1C90
    [] c = 43888 -> <<5024>>                     \* Cherokee small a U+AB70 -> U+13A0
    [] OTHER -> <<UpperC(c)>>
LowerOf(c) ==
  CASE c = 304 -> <<105, 775>>                   \* U+0130 I with dot above -> i U+0307
    [] c = 453 -> <<454>> [] c = 452 -> <<454>>  \* U+01C5 / U+01C4 -> U+01C6
    [] c = 931 -> <<963>>                        \* capital sigma (not final) -> U+03C3
    [] c = 913 -> <<945>>
    [] c = 7312 -> <<4304>>                      \* Georgian U+1C90 -> U+10D0
    [] c = 5024 -> <<43888>>                     \* Cherokee U+13A0 -> U+AB70
    [] c = 7944 -> <<7936>> [] c = 921 -> <<953>>
    [] OTHER -> <<LowerC(c)>>
CasedChars == (65..90) \cup (97..122) \cup {223, 304, 305, 329, 452, 453, 454, 913, 945, 931, 962, 963, 8064, 64256, 4304, 7312, 5024, 43888, 7944, 921, 953}
IsCased(c) == c \in CasedChars
IsCaseIgnorable(c) == c \in {769, 775, 46, 39, 700}       \* Mn marks, '.', apostrophe, U+02BC
(* SpecialCasing Final_Sigma: preceded by a cased letter and any case-ignorable characters, and NOT
   followed by any case-ignorable characters and a cased letter *)
FinalSigma(s, i) ==
  /\ \E j \in 1..(i - 1) : IsCased(s[j]) /\ \A k \in (j + 1)..(i - 1) : IsCaseIgnorable(s[k])
  /\ ~\E j \in (i + 1)..Len(s) : IsCased(s[j]) /\ \A k \in (i + 1)..(j - 1) : IsCaseIgnorable(s[k])
UpperCaseU(s) == FlatMap(UpperOf, s)
LowerCaseU(s) == Gather(Len(s), LAMBDA i : IF s[i] = 931 /\ FinalSigma(s, i) THEN <<962>> ELSE LowerOf(s[i]))

---------------------------------------------------------------------------
(* numeric arguments: xs:double values k in {fin, ninf, pinf, nan}; finite ones in quarters *)
Fin(q) == [k |-> "fin", q |-> q]
Special(k) == [k |-> k, q |-> 0]
NumVal(tok) ==
  CASE tok = "-INF" -> Special("ninf") [] tok = "INF" -> Special("pinf") [] tok = "NaN" -> Special("nan")
    [] tok = "-3.5" -> Fin(-14) [] tok = "-1.5" -> Fin(-6) [] tok = "-1" -> Fin(-4) [] tok = "-0.5" -> Fin(-2)
    [] tok = "0" -> Fin(0) [] tok = "0.5" -> Fin(2) [] tok = "1" -> Fin(4) [] tok = "1.25" -> Fin(5)
    [] tok = "1.5" -> Fin(6) [] tok = "2" -> Fin(8) [] tok = "2.5" -> Fin(10) [] tok = "2.75" -> Fin(11)
    [] tok = "3" -> Fin(12) [] tok = "3.5" -> Fin(14) [] tok = "4.5" -> Fin(18) [] tok = "5" -> Fin(20)
SmallGrid == {"-INF", "-1.5", "-1", "0", "0.5", "1", "1.5", "2", "2.5", "2.75", "3.5", "INF", "NaN"}
FullGrid == SmallGrid \cup {"-3.5", "-0.5", "1.25", "3", "4.5", "5"}
Grid == IF GridName = "small" THEN SmallGrid ELSE FullGrid                \* start positions
SmallLen == {"-INF", "-1", "0", "0.5", "1", "1.5", "2.5", "INF", "NaN"}
LenGrid == IF GridName = "small" THEN SmallLen ELSE FullGrid              \* lengths

(* fn:round (F&O 4.4.4): the closest integer, ties toward positive infinity = floor(x + 0.5);
   NaN, INF, -INF are returned unchanged.  In quarters: floor((q + 2) / 4), as whole units *)
Round(x) == IF x.k = "fin" THEN [k |-> "fin", q |-> (x.q + 2) \div 4] ELSE x      \* q now counts units
(* IEEE addition of two rounded values *)
AddR(x, y) == IF x.k = "nan" \/ y.k = "nan" THEN Special("nan")
              ELSE IF x.k = "fin" /\ y.k = "fin" THEN [k |-> "fin", q |-> x.q + y.q]
              ELSE IF x.k = "fin" THEN y ELSE IF y.k = "fin" THEN x
              ELSE IF x.k = y.k THEN x ELSE Special("nan")                       \* INF + -INF = NaN
(* x <= p and p < x for an integer position p; comparisons with NaN are false *)
LeP(x, p) == x.k = "ninf" \/ (x.k = "fin" /\ x.q <= p)
PLt(p, x) == x.k = "pinf" \/ (x.k = "fin" /\ p < x.q)

(* Boundary doubles of the substring family, EXACT: TLC integers are 32 bit, so a rounded value is
   kept as two limbs  h * 2^26 + l  (0 <= l < 2^26); fn:round(x) = floor(x + 1/2) in exact arithmetic:
     "below" n : a double strictly between n and n + 1/2 (0.49999999999999994 = 1/2 - 2^-54,
                 1.4999999999999998, 2.4999999999999996 = 5/2 - 2^-51, 5e-324): rounds to n;
     "big" h l : an integral double (2^52 + 1, 2^52 + 3, 2^53 - 1, 2^53, negatives): rounds to itself;
     "gig"     : 1e300, integral and larger than every sum below: rounds to itself. *)
B26 == 67108864
Limb(h, l) == [k |-> "limb", h |-> h + (l \div B26), l |-> l % B26]
EdgeVal(tok) ==
  CASE tok = "0.49999999999999994" -> [k |-> "below", n |-> 0] [] tok = "5e-324" -> [k |-> "below", n |-> 0]
    [] tok = "1.4999999999999998" -> [k |-> "below", n |-> 1] [] tok = "2.4999999999999996" -> [k |-> "below", n |-> 2]
    [] tok = "4503599627370497" -> Limb(B26, 1) [] tok = "-4503599627370497" -> Limb(-B26, -1)
    [] tok = "4503599627370499" -> Limb(B26, 3)
    [] tok = "9007199254740991" -> Limb(2 * B26, -1) [] tok = "-9007199254740991" -> Limb(-2 * B26, 1)
    [] tok = "9007199254740992" -> Limb(2 * B26, 0)
    [] tok = "1e300" -> [k |-> "gig"]
    [] OTHER -> LET x == NumVal(tok) IN Limb(0, (x.q + 2) \div 4)        \* a finite grid value, rounded
EdgeTokens == {"0.49999999999999994", "5e-324", "1.4999999999999998", "2.4999999999999996", "4503599627370497",
               "-4503599627370497", "4503599627370499", "9007199254740991", "-9007199254740991", "9007199254740992", "1e300"}
EdgeGrid == EdgeTokens \cup {"-1", "1", "2", "3"}
RoundE(x) == IF x.k = "below" THEN Limb(0, x.n) ELSE x
AddE(x, y) == IF x.k = "gig" \/ y.k = "gig" THEN [k |-> "gig"] ELSE Limb(x.h + y.h, x.l + y.l)
LePE(x, p) == x.k = "limb" /\ (x.h < 0 \/ (x.h = 0 /\ x.l <= p))          \* x <= p for a position p >= 1
PLtE(p, x) == x.k = "gig" \/ x.h > 0 \/ (x.h = 0 /\ p < x.l)             \* p < x
SubstrE2(s, a) == Gather(Len(s), LAMBDA p : IF LePE(RoundE(EdgeVal(a)), p) THEN <<s[p]>> ELSE <<>>)
SubstrE3(s, a, b) == Gather(Len(s), LAMBDA p :
                       IF LePE(RoundE(EdgeVal(a)), p) /\ PLtE(p, AddE(RoundE(EdgeVal(a)), RoundE(EdgeVal(b))))
                       THEN <<s[p]>> ELSE <<>>)

(* fn:substring (F&O 5.4.3): "the characters in $sourceString whose position $p satisfies
   fn:round($start) <= $p < fn:round($start) + fn:round($length)"; two arguments:
   "fn:round($start) <= $p" *)
Substr2(s, a) == Gather(Len(s), LAMBDA p : IF LeP(Round(a), p) THEN <<s[p]>> ELSE <<>>)
Substr3(s, a, b) == Gather(Len(s), LAMBDA p :
                      IF LeP(Round(a), p) /\ PLt(p, AddR(Round(a), Round(b))) THEN <<s[p]>> ELSE <<>>)

(* the xs:string cast of an xs:double/xs:decimal/xs:integer of the grid (F&O 19.1.2.2: for
   1e-6 <= |x| < 1e6 the decimal representation; integral values without a decimal point) *)
Digit(d) == 48 + d
RECURSIVE Digits(_)
Digits(n) == IF n < 10 THEN <<Digit(n)>> ELSE Digits(n \div 10) \o <<Digit(n % 10)>>
FracDigits(r) == CASE r = 0 -> <<>> [] r = 1 -> <<46, 50, 53>> [] r = 2 -> <<46, 53>> [] r = 3 -> <<46, 55, 53>>
Lex(x) == CASE x.k = "nan" -> <<78, 97, 78>> [] x.k = "pinf" -> <<73, 78, 70>> [] x.k = "ninf" -> <<45, 73, 78, 70>>
            [] OTHER -> LET aq == IF x.q < 0 THEN -x.q ELSE x.q IN
                          (IF x.q < 0 THEN <<45>> ELSE <<>>) \o Digits(aq \div 4) \o FracDigits(aq % 4)
(* XPath 1.0 sec. 4.2 string(): "positive infinity is converted to the string Infinity, negative
   infinity to -Infinity" -- the one point of the model where XPath 1.0 (and libxml2) differ from F&O *)
Lex10(x) == CASE x.k = "pinf" -> <<73, 110, 102, 105, 110, 105, 116, 121>>
              [] x.k = "ninf" -> <<45, 73, 110, 102, 105, 110, 105, 116, 121>>
              [] OTHER -> Lex(x)
LexBool(b) == IF b THEN <<116, 114, 117, 101>> ELSE <<102, 97, 108, 115, 101>>

---------------------------------------------------------------------------
(* URI escaping (F&O 6.1 - 6.3): a character that is not kept is replaced by %HH for every
   octet of its UTF-8 encoding, HH in UPPER-CASE hexadecimal *)
Utf8(c) == IF c < 128 THEN <<c>>
           ELSE IF c < 2048 THEN <<192 + (c \div 64), 128 + (c % 64)>>
           ELSE IF c < 65536 THEN <<224 + (c \div 4096), 128 + ((c \div 64) % 64), 128 + (c % 64)>>
           ELSE <<240 + (c \div 262144), 128 + ((c \div 4096) % 64), 128 + ((c \div 64) % 64), 128 + (c % 64)>>
Utf8Decode(b) == CASE Len(b) = 1 -> b[1]
                   [] Len(b) = 2 -> (b[1] - 192) * 64 + (b[2] - 128)
                   [] Len(b) = 3 -> (b[1] - 224) * 4096 + (b[2] - 128) * 64 + (b[3] - 128)
                   [] Len(b) = 4 -> (b[1] - 240) * 262144 + (b[2] - 128) * 4096 + (b[3] - 128) * 64 + (b[4] - 128)
HexDigit(n) == IF n < 10 THEN 48 + n ELSE 55 + n
Pct(c) == FlatMap(LAMBDA o : <<37, HexDigit(o \div 16), HexDigit(o % 16)>>, Utf8(c))
IsAlnum(c) == c \in 48..57 \/ c \in 65..90 \/ c \in 97..122
Unreserved(c) == IsAlnum(c) \/ c \in {45, 95, 46, 126}                         \* - _ . ~
(* iri-to-uri escapes everything but printable ASCII, and of those  < > " space { } | \ ^ ` *)
IriKeep(c) == c \in 33..126 /\ c \notin {60, 62, 34, 123, 125, 124, 92, 94, 96}
HtmlKeep(c) == c \in 32..126
EncodeForUri(s)  == FlatMap(LAMBDA c : IF Unreserved(c) THEN <<c>> ELSE Pct(c), s)
IriToUri(s)      == FlatMap(LAMBDA c : IF IriKeep(c) THEN <<c>> ELSE Pct(c), s)
EscapeHtmlUri(s) == FlatMap(LAMBDA c : IF HtmlKeep(c) THEN <<c>> ELSE Pct(c), s)

(* codepoints-to-string (F&O 5.2.1): FOCH0001 unless every code point is an XML Char *)
IsXmlChar(c) == c \in {9, 10, 13} \/ c \in 32..55295 \/ c \in 57344..65533 \/ c \in 65536..1114111
CpToStrV(c) == IF \A i \in 1..Len(c) : IsXmlChar(c[i]) THEN Str(c) ELSE Err("FOCH0001")
(* string-to-codepoints: the code points; the empty sequence for "" and () *)
StrToCpV(v) == Cps(AsStr(v))

---------------------------------------------------------------------------
F1 == {"normalize-space", "string-length", "upper-case", "lower-case", "string-to-codepoints",
       "encode-for-uri", "iri-to-uri", "escape-html-uri"}
Apply1(f, v) ==
  LET s == AsStr(v) IN
  CASE f = "normalize-space" -> Str(NormalizeSpace(s))
    [] f = "string-length" -> IntV(Len(s))
    [] f = "upper-case" -> Str(UpperCaseU(s))
    [] f = "lower-case" -> Str(LowerCaseU(s))
    [] f = "string" -> Str(s)
    [] f = "string-to-codepoints" -> StrToCpV(v)
    [] f = "encode-for-uri" -> Str(EncodeForUri(s))
    [] f = "iri-to-uri" -> Str(IriToUri(s))
    [] f = "escape-html-uri" -> Str(EscapeHtmlUri(s))

F2 == {"contains", "starts-with", "ends-with", "substring-before", "substring-after", "concat",
       "compare", "codepoint-equal"}
Apply2(f, v, t) ==
  LET s == AsStr(v) IN
  CASE f = "contains" -> Bool(Contains(s, t))
    [] f = "starts-with" -> Bool(StartsWith(s, t))
    [] f = "ends-with" -> Bool(EndsWith(s, t))
    [] f = "substring-before" -> Str(Before(s, t))
    [] f = "substring-after" -> Str(After(s, t))
    [] f = "concat" -> Str(s \o t)
    [] f = "compare" -> IF v.t = "empty" THEN Empty ELSE IntV(Cmp(s, t))            \* () if an argument is ()
    [] f = "codepoint-equal" -> IF v.t = "empty" THEN Empty ELSE Bool(s = t)

T2 == StrUpTo(Alpha2, 2)
MapFrom == StrUpTo(AlphaM, 2) \cup {<<97, 98, 97>>, <<97, 97, 98>>, <<98, 97, 97>>}
MapTo(m) == {<<>>, <<98>>, <<65, 128512>>, <<98, 97, 49>>, m}
(* every boundary of  Char ::= #x9 | #xA | #xD | [#x20-#xD7FF] | [#xE000-#xFFFD] | [#x10000-#x10FFFF]
   (XML 1.0) and the classes next to it: C0/C1 controls, DEL, NEL, surrogates, the noncharacter
   blocks U+FDD0..U+FDEF and U+nFFFE/U+nFFFF (legal except U+FFFE/U+FFFF), first/last astral *)
BoundaryCps == {0, 8, 9, 10, 11, 12, 13, 14, 31, 32, 127, 128, 133, 159, 55295, 55296, 57343, 57344,
                64975, 64976, 65007, 65008, 65533, 65534, 65535, 65536, 131070, 131071, 1114111, 1114112}
(* listed independently of IsXmlChar; LawBoundary compares the two *)
IllegalBoundary == {0, 8, 11, 12, 14, 31, 55296, 57343, 65534, 65535, 1114112}
LegalBoundary == BoundaryCps \ IllegalBoundary
BadCps == {<<c>> : c \in IllegalBoundary} \cup {<<97, c>> : c \in IllegalBoundary} \cup {<<c, 98>> : c \in IllegalBoundary}
GoodCps == {<<c>> : c \in LegalBoundary} \cup {<<97, c>> : c \in LegalBoundary} \cup {<<c, 98>> : c \in LegalBoundary}
             \cup {<<55295, 57344>>, <<65533, 65536>>, <<9, 10, 13>>, <<64976, 65007>>}

SweepChars == (32..126) \cup {9, 10, 13}       \* printable ASCII and the XML whitespace characters
Core == Alpha       \* results that leave the alphabet ('B' = upper-case('b'), '1' from translate) are not expanded
InPart(s) == IF s = <<>> THEN 0 \in Part ELSE s[1] \in Part
Expandable(v) ==
  \/ v.t \in {"cps", "empty"}
  \/ v.t = "str" /\ Len(v.s) <= MaxLen /\ InPart(v.s)
       /\ \/ Len(v.s) <= 1
          \/ \A i \in 1..Len(v.s) : v.s[i] \in Core
          \/ "cps" \in Acts /\ v.s \in GoodCps        \* the legal boundary code points next to 'a' / 'b'

(* URI escaping family *)
UriF == {"encode-for-uri", "iri-to-uri", "escape-html-uri"}
UriExpandable(v) == "uri" \in Acts /\ 0 \in Part /\ v.t = "str" /\ Len(v.s) <= UriLen
                      /\ \A i \in 1..Len(v.s) : v.s[i] \in UriAlpha

(* node-set argument family (XPath 1.0): <x k="k0"><b>b1</b><c>c2</c><b>b3</b></x> is kids = <<"b","c","b">> *)
DocNames == {"b", "c", "d"}
ArgPaths == {"b", "c", "d", ".", "@k"}
NameCp(n) == CASE n = "b" -> 98 [] n = "c" -> 99 [] n = "d" -> 100
Doc(k) == [t |-> "doc", kids |-> k]
KidText(k, i) == <<NameCp(k[i]), 48 + i>>
DocStringValue(k) == Gather(Len(k), LAMBDA i : KidText(k, i))        \* string-value of x: all text descendants
HasKid(k, n) == \E i \in 1..Len(k) : k[i] = n
FirstKid(k, n) == CHOOSE i \in 1..Len(k) : k[i] = n /\ \A j \in 1..(i - 1) : k[j] # n
(* string(node-set) = string-value of the node that is first in document order, "" if empty *)
ArgVal(k, p) == CASE p = "." -> DocStringValue(k)
                  [] p = "@k" -> <<107, 48>>
                  [] OTHER -> IF HasKid(k, p) THEN KidText(k, FirstKid(k, p)) ELSE <<>>
DocF1 == {"normalize-space", "string-length"}
DocF2 == {"contains", "starts-with", "substring-before", "substring-after", "concat"}
IsDoc == "doc" \in Acts /\ cur.t = "doc"
DocFn1(f, p) == IsDoc /\ cur' = Apply1(f, Str(ArgVal(cur.kids, p)))
DocFn2(f, p, q) == IsDoc /\ cur' = Apply2(f, Str(ArgVal(cur.kids, p)), ArgVal(cur.kids, q))
DocTranslate(p, q, r) == IsDoc /\ cur' = Str(TranslateS(ArgVal(cur.kids, p), ArgVal(cur.kids, q), ArgVal(cur.kids, r)))
DocConcat3(p, q, r) == IsDoc /\ cur' = Str(ArgVal(cur.kids, p) \o ArgVal(cur.kids, q) \o ArgVal(cur.kids, r))
(* substring(p, string-length(q)): a numeric argument computed from a node-set argument *)
DocSubstring(p, q) == IsDoc /\ cur' = Str(Substr2(ArgVal(cur.kids, p), Fin(4 * Len(ArgVal(cur.kids, q)))))

(* collation family: the static context (default collation d) and the collation argument a *)
Collations == {"codepoint", "ascii-ci"}
(* html-ascii-case-insensitive (F&O 5.3.5): code points compared after mapping A-Z to a-z *)
Key(e, s) == IF e = "ascii-ci" THEN LowerCase(s) ELSE s
UsesCollation == {"contains", "starts-with", "ends-with", "substring-before", "substring-after", "compare"}
Effective(f, d, a) == IF f \notin UsesCollation THEN "codepoint" ELSE IF a # "none" THEN a ELSE d
Apply2C(f, v, t, e) ==
  LET s == AsStr(v)
      ks == Key(e, s)
      kt == Key(e, t) IN
  CASE f = "contains" -> Bool(Contains(ks, kt))
    [] f = "starts-with" -> Bool(StartsWith(ks, kt))
    [] f = "ends-with" -> Bool(EndsWith(ks, kt))
    [] f = "substring-before" -> Str(IF ~Contains(ks, kt) THEN <<>> ELSE SubSeq(s, 1, FirstIndex(ks, kt) - 1))
    [] f = "substring-after" -> Str(IF ~Contains(ks, kt) THEN <<>> ELSE SubSeq(s, FirstIndex(ks, kt) + Len(t), Len(s)))
    [] f = "compare" -> IntV(Cmp(ks, kt))
    [] OTHER -> Apply2(f, v, t)                 \* concat, codepoint-equal: no collation at all
T2C == StrUpTo({97, 65}, 2)
CollExpandable(v) == "coll" \in Acts /\ 0 \in Part /\ v.t = "str" /\ Len(v.s) <= MaxLen
                       /\ \A i \in 1..Len(v.s) : v.s[i] \in AlphaC
CollCombos(f) == IF f \in UsesCollation
                 THEN {<<"ascii-ci", "none">>, <<"ascii-ci", "codepoint">>, <<"codepoint", "ascii-ci">>, <<"ascii-ci", "ascii-ci">>}
                 ELSE {<<"ascii-ci", "none">>}
CollFn2(f, t, d, a) == CollExpandable(cur) /\ <<d, a>> \in CollCombos(f)
                       /\ cur' = Apply2C(f, cur, t, Effective(f, d, a))
(* functions without a collation parameter under a non-codepoint default collation *)
CollFn1(f, d) == CollExpandable(cur) /\ cur' = Apply1(f, cur)
CollTranslate(m, r, d) == CollExpandable(cur) /\ cur' = Str(TranslateS(cur.s, m, r))
CollSubstring(a, d) == CollExpandable(cur) /\ cur' = Str(Substr2(cur.s, NumVal(a)))

(* case-mapping family, boundary doubles of substring, context-item forms *)
CaseExpandable(v) == "case" \in Acts /\ 0 \in Part /\ v.t = "str" /\ Len(v.s) <= MaxLen
                       /\ \A i \in 1..Len(v.s) : v.s[i] \in CaseAlpha
EdgeExpandable(v) == "edge" \in Acts /\ 0 \in Part /\ v.t = "str" /\ Len(v.s) <= MaxLen
                       /\ \A i \in 1..Len(v.s) : v.s[i] \in {97, 98}
SubstringE2(a) == EdgeExpandable(cur) /\ cur' = Str(SubstrE2(cur.s, a))
SubstringE3(a, b) == EdgeExpandable(cur) /\ (a \in EdgeTokens \/ b \in EdgeTokens) /\ cur' = Str(SubstrE3(cur.s, a, b))
(* zero-argument forms f() = f(fn:string(.)) for ANY context item (F&O 5.4.4, 5.4.5, 2.3): a string,
   a number, a boolean, a node *)
CtxF == {"string-length", "normalize-space", "string"}
CtxFn(f) == "ctx" \in Acts /\ Expandable(cur) /\ cur.t = "str" /\ cur' = Apply1(f, cur)
CtxNum(f, a) == "ctx" \in Acts /\ cur = Empty /\ cur' = Apply1(f, Str(Lex(NumVal(a))))
CtxBool(f, b) == "ctx" \in Acts /\ cur = Empty /\ cur' = Apply1(f, Str(LexBool(b)))
CtxPaths == ArgPaths \cup {"b/text()"}
NodeExists(k, p) == IF p \in {"b", "b/text()"} THEN HasKid(k, "b") ELSE IF p \in DocNames THEN HasKid(k, p) ELSE TRUE
NodeVal(k, p) == IF p = "b/text()" THEN ArgVal(k, "b") ELSE ArgVal(k, p)
(* the context item is the first node selected by p (element, attribute, text node) *)
DocCtx(f, p) == IsDoc /\ "ctx" \in Acts
                /\ cur' = IF NodeExists(cur.kids, p) THEN Apply1(f, Str(NodeVal(cur.kids, p))) ELSE Empty

Init == \/ cur \in {Str(s) : s \in {x \in StrUpTo(Alpha, MaxLen) : InPart(x)}}
        \/ "uri" \in Acts /\ 0 \in Part /\ cur \in {Str(s) : s \in StrUpTo(UriAlpha, UriLen)}
        \/ "doc" \in Acts /\ 0 \in Part /\ cur \in {Doc(k) : k \in StrUpTo(DocNames, DocLen)}
        \/ "coll" \in Acts /\ 0 \in Part /\ cur \in {Str(s) : s \in StrUpTo(AlphaC, MaxLen)}
        \/ "case" \in Acts /\ 0 \in Part /\ cur \in {Str(s) : s \in StrUpTo(CaseAlpha, MaxLen)}
        \/ "edge" \in Acts /\ 0 \in Part /\ cur \in {Str(s) : s \in StrUpTo({97, 98}, MaxLen)}
        \/ Sweep /\ cur \in {Str(<<c>>) : c \in {x \in SweepChars : x \in Part}}
        \/ 0 \in Part /\ cur = Empty
        \/ 0 \in Part /\ "cps" \in Acts /\ cur \in {Cps(c) : c \in BadCps \cup GoodCps}

Fn1(f) == "fn1" \in Acts /\ IsStrArg(cur) /\ f # "string"
            /\ (Expandable(cur) \/ (f \in UriF /\ UriExpandable(cur)) \/ (f \in {"upper-case", "lower-case"} /\ CaseExpandable(cur)))
            /\ cur' = Apply1(f, cur)
Fn2(f, t) == "fn2" \in Acts /\ Expandable(cur) /\ IsStrArg(cur) /\ cur' = Apply2(f, cur, t)
Translate(m, r) == "translate" \in Acts /\ Expandable(cur) /\ IsStrArg(cur) /\ cur' = Str(TranslateS(AsStr(cur), m, r))
Substring2(a) == "substring" \in Acts /\ Expandable(cur) /\ IsStrArg(cur) /\ cur' = Str(Substr2(AsStr(cur), NumVal(a)))
Substring3(a, b) == "substring" \in Acts /\ Expandable(cur) /\ IsStrArg(cur) /\ cur' = Str(Substr3(AsStr(cur), NumVal(a), NumVal(b)))
ConcatNum(a) == "concatx" \in Acts /\ Expandable(cur) /\ IsStrArg(cur) /\ cur' = Str(AsStr(cur) \o Lex(NumVal(a)))
ConcatNum10(a) == "concatx" \in Acts /\ Expandable(cur) /\ cur.t = "str" /\ cur' = Str(cur.s \o Lex10(NumVal(a)))
ConcatBool(b) == "concatx" \in Acts /\ Expandable(cur) /\ IsStrArg(cur) /\ cur' = Str(AsStr(cur) \o LexBool(b))
CpToStr == "cps" \in Acts /\ cur.t = "cps" /\ cur' = CpToStrV(cur.c)
(* the second identity of the property as ONE composite action (a chain of three functions) *)
Rejoin(t) == "rejoin" \in Acts /\ Expandable(cur) /\ cur.t = "str" /\ Contains(cur.s, t)
             /\ cur' = Str(Before(cur.s, t) \o t \o After(cur.s, t))

Next == \/ \E f \in F1 : Fn1(f)
        \/ \E f \in F2, t \in T2 : Fn2(f, t)
        \/ \E m \in MapFrom : \E r \in MapTo(m) : Translate(m, r)
        \/ \E a \in Grid : Substring2(a)
        \/ \E a \in Grid, b \in LenGrid : Substring3(a, b)
        \/ \E a \in Grid : ConcatNum(a)
        \/ \E a \in {"INF", "-INF"} : ConcatNum10(a)
        \/ \E b \in BOOLEAN : ConcatBool(b)
        \/ CpToStr
        \/ \E t \in T2 : Rejoin(t)
        \/ \E f \in F2, t \in T2C, d \in Collations, a \in Collations \cup {"none"} : CollFn2(f, t, d, a)
        \/ \E f \in F1 : CollFn1(f, "ascii-ci")
        \/ \E mr \in {<<<<97>>, <<65>>>>, <<<<65, 97>>, <<98>>>>} : CollTranslate(mr[1], mr[2], "ascii-ci")
        \/ CollSubstring("2", "ascii-ci")
        \/ \E a \in EdgeTokens : SubstringE2(a)
        \/ \E a \in EdgeGrid, b \in EdgeGrid : SubstringE3(a, b)
        \/ \E f \in CtxF : CtxFn(f)
        \/ \E f \in CtxF, a \in Grid : CtxNum(f, a)
        \/ \E f \in CtxF, b \in BOOLEAN : CtxBool(f, b)
        \/ \E f \in CtxF, p \in CtxPaths : DocCtx(f, p)
        \/ \E f \in DocF1, p \in ArgPaths : DocFn1(f, p)
        \/ \E f \in DocF2, p \in ArgPaths, q \in ArgPaths : DocFn2(f, p, q)
        \/ \E p \in ArgPaths, q \in ArgPaths, r \in ArgPaths : DocTranslate(p, q, r)
        \/ \E p \in ArgPaths, q \in ArgPaths, r \in ArgPaths : DocConcat3(p, q, r)
        \/ \E p \in ArgPaths, q \in ArgPaths : DocSubstring(p, q)
Spec == Init /\ [][Next]_vars

---------------------------------------------------------------------------
(* Laws, decided by TLC on every reachable string against every second string / grid value *)
S == cur.s
LawCpRoundTrip ==       \* codepoints-to-string(string-to-codepoints(s)) = s
  CpToStrV(StrToCpV(cur).c) = cur
LawRejoin ==            \* contains(s,t) => concat(substring-before(s,t), t, substring-after(s,t)) = s
  \A t \in T2 : Contains(S, t) => Before(S, t) \o t \o After(S, t) = S
LawBeforeAfter ==
  \A t \in T2 : /\ (~Contains(S, t) => Before(S, t) = <<>> /\ After(S, t) = <<>>)
                /\ (Contains(S, t) => ~Contains(SubSeq(Before(S, t) \o t, 1, Len(Before(S, t)) + Len(t) - 1), t)
                                        \/ t = <<>>)               \* it is the FIRST occurrence
                /\ Before(S, <<>>) = <<>> /\ After(S, <<>>) = S
LawConcatLen ==         \* string-length(concat(s,t)) = string-length(s) + string-length(t)
  \A t \in T2 : Apply1("string-length", Apply2("concat", cur, t)).i
                  = Apply1("string-length", cur).i + Apply1("string-length", Str(t)).i
LawStartsContains ==
  \A t \in T2 : /\ StartsWith(S, t) => Contains(S, t)
                /\ EndsWith(S, t) => Contains(S, t)
                /\ StartsWith(S, t) <=> (Contains(S, t) /\ Before(S, t) = <<>>)
                /\ StartsWith(S \o t, S) /\ EndsWith(S \o t, t)
LawNormalize ==         \* idempotent; no leading/trailing/double whitespace; only #x20 remains
  LET n == NormalizeSpace(S) IN
    /\ NormalizeSpace(n) = n
    /\ (n # <<>> => ~IsWS(n[1]) /\ ~IsWS(n[Len(n)]))
    /\ \A i \in 1..Len(n) : IsWS(n[i]) => n[i] = 32 /\ ~IsWS(n[i + 1])
    /\ SelectSeq(n, LAMBDA c : ~IsWS(c)) = SelectSeq(S, LAMBDA c : ~IsWS(c))
LawTranslate ==
  \A m \in MapFrom : /\ TranslateS(S, m, m) = S                                   \* identical maps: identity
                     /\ TranslateS(S, m, <<>>) = SelectSeq(S, LAMBDA c : ~InSeq(c, m))
                     /\ \A r \in MapTo(m) : Len(TranslateS(S, m, r)) <= Len(S)
                     /\ \A r \in MapTo(m) : Len(r) >= Len(m) => Len(TranslateS(S, m, r)) = Len(S)
(* substring: substring(s,1) = s; the slice formulation for finite arguments; a result is a
   contiguous part of s *)
Max(a, b) == IF a > b THEN a ELSE b
Min(a, b) == IF a < b THEN a ELSE b
LawSubstring ==
  /\ Substr2(S, NumVal("1")) = S
  /\ Substr3(S, NumVal("1"), NumVal("INF")) = S
  /\ Substr3(S, NumVal("-INF"), NumVal("INF")) = <<>>                  \* -INF + INF = NaN (F&O example)
  /\ \A a \in Grid :
       /\ Contains(S, Substr2(S, NumVal(a)))
       /\ Substr3(S, NumVal(a), NumVal("NaN")) = <<>> /\ Substr3(S, NumVal("NaN"), NumVal(a)) = <<>>
       /\ (NumVal(a).k # "ninf" => Substr3(S, NumVal(a), NumVal("INF")) = Substr2(S, NumVal(a)))
       /\ \A b \in LenGrid :
            /\ Contains(S, Substr3(S, NumVal(a), NumVal(b)))
            /\ (NumVal(a).k = "fin" /\ NumVal(b).k = "fin") =>
                 LET ra == Round(NumVal(a)).q
                     rb == Round(NumVal(b)).q IN
                   Substr3(S, NumVal(a), NumVal(b)) = SubSeq(S, Max(ra, 1), Min(ra + rb - 1, Len(S)))
LawCompare ==
  \A t \in T2 : /\ Cmp(S, t) = -Cmp(t, S)
                /\ (Cmp(S, t) = 0 <=> S = t)
                /\ (StartsWith(t, S) /\ S # t => Cmp(S, t) = -1)
                /\ Cmp(S \o t, S) >= 0
LawCase ==
  /\ UpperCaseU(UpperCaseU(S)) = UpperCaseU(S) /\ LowerCaseU(LowerCaseU(S)) = LowerCaseU(S)
  /\ ((\A i \in 1..Len(S) : S[i] < 128) => UpperCaseU(S) = UpperCase(S) /\ LowerCaseU(S) = LowerCase(S))
  /\ Len(UpperCaseU(S)) >= Len(S) /\ Len(LowerCaseU(S)) >= Len(S)
  /\ \A i \in 1..Len(S) : S[i] = 931 =>          \* capital sigma: final form exactly under Final_Sigma
        Contains(LowerCaseU(S), <<962>>) \/ ~FinalSigma(S, i)
IsHex(c) == c \in 48..57 \/ c \in 65..70
LawUri ==
  /\ \A i \in 1..Len(S) : /\ Utf8Decode(Utf8(S[i])) = S[i]
                          /\ Len(Utf8(S[i])) = (IF S[i] < 128 THEN 1 ELSE IF S[i] < 2048 THEN 2 ELSE IF S[i] < 65536 THEN 3 ELSE 4)
                          /\ \A k \in 1..Len(Utf8(S[i])) : Utf8(S[i])[k] \in 0..255
                          /\ \A k \in 2..Len(Utf8(S[i])) : Utf8(S[i])[k] \in 128..191
  /\ \A i \in 1..Len(EncodeForUri(S)) : LET c == EncodeForUri(S)[i] IN Unreserved(c) \/ c = 37
  /\ IriToUri(IriToUri(S)) = IriToUri(S)
  /\ EscapeHtmlUri(EscapeHtmlUri(S)) = EscapeHtmlUri(S)
  /\ \A i \in 1..Len(IriToUri(S)) : IriToUri(S)[i] \in 33..126
  /\ ((\A i \in 1..Len(S) : Unreserved(S[i])) => EncodeForUri(S) = S /\ IriToUri(S) = S /\ EscapeHtmlUri(S) = S)
(* escaping is per character: splitting the argument anywhere and escaping the parts gives the
   same result (no look-ahead, so an existing %HH is escaped / kept like any other '%'); '%' is
   always escaped by encode-for-uri and never by iri-to-uri / escape-html-uri *)
LawUriSplit ==
  /\ \A i \in 0..Len(S) :
       LET l == SubSeq(S, 1, i)
           r == SubSeq(S, i + 1, Len(S)) IN
         /\ EncodeForUri(l) \o EncodeForUri(r) = EncodeForUri(S)
         /\ IriToUri(l) \o IriToUri(r) = IriToUri(S)
         /\ EscapeHtmlUri(l) \o EscapeHtmlUri(r) = EscapeHtmlUri(S)
  /\ EncodeForUri(<<37>>) = <<37, 50, 53>> /\ IriToUri(<<37>>) = <<37>> /\ EscapeHtmlUri(<<37>>) = <<37>>
  /\ Len(SelectSeq(EncodeForUri(S), LAMBDA c : c = 37)) >= Len(SelectSeq(S, LAMBDA c : c = 37))
  /\ ((\A i \in 1..Len(S) : IriKeep(S[i])) => IriToUri(S) = S /\ EscapeHtmlUri(S) = S)    \* '%2F' stays '%2F'
LawLex ==     \* the numeric tokens ARE the canonical lexical forms: checked again by the binding
  \A a \in Grid : Len(Lex(NumVal(a))) >= 1

Laws == cur.t = "str" /\ Expandable(cur) =>
          /\ LawCpRoundTrip /\ LawRejoin /\ LawBeforeAfter /\ LawConcatLen /\ LawStartsContains
          /\ LawNormalize /\ LawTranslate /\ LawSubstring /\ LawCompare /\ LawCase /\ LawUri /\ LawLex
LawsUri == cur.t = "str" /\ UriExpandable(cur) => LawUri /\ LawUriSplit
(* node-set arguments: the first node in document order decides; x's string-value is all its text *)
LawDoc == cur.t = "doc" =>
  LET k == cur.kids IN
    /\ Len(DocStringValue(k)) = 2 * Len(k)
    /\ ArgVal(k, ".") = DocStringValue(k)
    /\ \A n \in DocNames :
         IF HasKid(k, n)
         THEN /\ k[FirstKid(k, n)] = n /\ \A j \in 1..(FirstKid(k, n) - 1) : k[j] # n
              /\ ArgVal(k, n) = <<NameCp(n), 48 + FirstKid(k, n)>>
              /\ Contains(DocStringValue(k), ArgVal(k, n))
         ELSE ArgVal(k, n) = <<>>
    /\ \A p \in ArgPaths, q \in ArgPaths :
         Apply2("concat", Str(ArgVal(k, p)), ArgVal(k, q)).s = ArgVal(k, p) \o ArgVal(k, q)
LawsCase == cur.t = "str" /\ CaseExpandable(cur) => LawCase
(* boundary doubles: the limb arithmetic agrees with the quarter arithmetic on the ordinary grid, and
   the rounding of the points next to a tie / beyond 2^52 is the exact floor(x + 1/2) *)
LawEdge == cur.t = "str" /\ EdgeExpandable(cur) =>
  /\ \A a \in {"-1", "1", "2", "3"}, b \in {"-1", "1", "2", "3"} :
       SubstrE3(S, a, b) = Substr3(S, NumVal(a), NumVal(b)) /\ SubstrE2(S, a) = Substr2(S, NumVal(a))
  /\ SubstrE2(S, "0.49999999999999994") = S /\ SubstrE2(S, "5e-324") = S /\ SubstrE2(S, "1.4999999999999998") = S
  /\ SubstrE2(S, "2.4999999999999996") = Substr2(S, NumVal("2"))
  /\ SubstrE3(S, "0.49999999999999994", "1") = <<>>
  /\ SubstrE3(S, "-4503599627370497", "4503599627370499") = SubSeq(S, 1, Min(1, Len(S)))
  /\ SubstrE3(S, "-9007199254740991", "9007199254740992") = <<>>
  /\ SubstrE3(S, "-4503599627370497", "1e300") = S /\ SubstrE2(S, "4503599627370497") = <<>>
(* the collation dimension: the codepoint collation is the plain definition; ascii-ci identifies
   exactly the ASCII case variants; functions outside UsesCollation never depend on d or a *)
LawColl == cur.t = "str" /\ CollExpandable(cur) =>
  \A t \in T2C :
    /\ \A f \in F2 : Apply2C(f, cur, t, "codepoint") = Apply2(f, cur, t)
    /\ \A f \in F2 \ UsesCollation, d \in Collations, a \in Collations \cup {"none"} :
         Apply2C(f, cur, t, Effective(f, d, a)) = Apply2(f, cur, t)
    /\ \A f \in UsesCollation, d \in Collations, a \in Collations : Effective(f, d, a) = a
    /\ \A f \in UsesCollation, d \in Collations : Effective(f, d, "none") = d
    /\ (Apply2C("compare", cur, t, "ascii-ci").i = 0 <=> LowerCase(S) = LowerCase(t))
    /\ Apply2C("compare", Str(UpperCase(S)), LowerCase(S), "ascii-ci").i = 0
    /\ (Apply2C("contains", cur, t, "codepoint").b => Apply2C("contains", cur, t, "ascii-ci").b)
    /\ (Apply2C("contains", cur, t, "ascii-ci").b =>
          LET b == Apply2C("substring-before", cur, t, "ascii-ci").s
              a == Apply2C("substring-after", cur, t, "ascii-ci").s IN
            /\ Len(b) + Len(t) + Len(a) = Len(S)
            /\ LowerCase(b \o t \o a) = LowerCase(S) /\ StartsWith(S, b) /\ EndsWith(S, a))
(* the XML Char production on its boundaries, against the independent listing *)
LawBoundary == \A c \in BoundaryCps : IsXmlChar(c) <=> c \notin IllegalBoundary
(* a code point sequence converts to a string iff all are XML characters, and then round-trips *)
LawCps == cur.t = "cps" => LET r == CpToStrV(cur.c) IN
            /\ LawBoundary
            /\ IF cur.c \in BadCps THEN r = Err("FOCH0001")
               ELSE IF cur.c \in GoodCps THEN r.t = "str" /\ StrToCpV(r) = cur /\ IntV(Len(cur.c)) = Apply1("string-length", r)
               ELSE (r.t = "err" <=> \E i \in 1..Len(cur.c) : cur.c[i] \in IllegalBoundary \/ ~IsXmlChar(cur.c[i]))
=============================================================================
