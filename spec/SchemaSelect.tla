---------------------------- MODULE SchemaSelect ----------------------------
(***************************************************************************)
(* Selection is a function of the TREE only (property C20, last sentence). *)
(*                                                                         *)
(* The instance of a (schema, instance) pair of SchemaTyping is flattened  *)
(* to a tree of spec/XDM.tla (N nodes; one TLC run per N) and the path     *)
(* step alphabet of spec/Paths.tla (axis::test, <= MaxSteps steps) is run  *)
(* on it from the root element (RootCfg = "R2": an Element is the root).   *)
(*   cur   what the path selects in the data model built WITH the schema:  *)
(*         the PSVI adds the attributes that are absent from the instance  *)
(*         and have a default in their declaration (XSD part 1, 3.4.5.1;   *)
(*         XDM 3.1, 6.2.3 "attributes" from the PSVI [attributes])         *)
(*   curP  what it selects WITHOUT a schema: the same tree minus those     *)
(*         PSVI attribute nodes (they are leaves, so the axes of every     *)
(*         other node are the axes of XDM restricted to the real nodes)    *)
(* No operator here takes the schema as an argument: the types never       *)
(* influence a step.  Law: curP = cur when nothing was defaulted, and      *)
(* curP \subseteq cur always (a schema only ever ADDS PSVI attributes).     *)
(* Instances using xsi:nil / xsi:type or substitution-group members are    *)
(* outside this module (XDM.tla has no kind for them); SchemaWalk has them. *)
(***************************************************************************)
EXTENDS XDM, SchemaTyping, SequencesExt

CONSTANTS Axes, Tests, MaxSteps

VARIABLES pid, cur, curP, depth
vars == <<parent, kind, pid, cur, curP, depth>>

PairRec(S, inst) == [s |-> S, inst |-> inst, f |-> Flatten(S, inst)]
PairSeq == SetToSeq({p \in UNION {{PairRec(S, inst) : inst \in Instances(S)} : S \in Schemas} :
                        /\ Len(p.f) = N
                        /\ \A n \in 1..Len(p.f) : p.f[n].k \notin {"xx", "em"}})
FOf  == PairSeq[pid].f
Dflt == {n \in 1..N : FOf[n].dflt}

Init == /\ pid \in 1..Len(PairSeq)
        /\ PrintT(<<"pair", pid, PairSeq[pid].s, PairSeq[pid].inst, PairSeq[pid].f, SchemaDefaults(PairSeq[pid].s)>>)
        /\ parent = [n \in 1..N |-> FOf[n].par]
        /\ kind   = [n \in 1..N |-> FOf[n].k]
        /\ cur = {1} /\ curP = {1} /\ depth = 0

Step(ax, t) ==
  /\ depth < MaxSteps
  /\ cur'  = UNION {StepSet(ax, t, x) : x \in cur}
  /\ curP' = (UNION {StepSet(ax, t, x) : x \in curP}) \ Dflt
  /\ depth' = depth + 1
  /\ UNCHANGED <<parent, kind, pid>>

(* a leading "/": from the initial context to the (virtual, RootCfg = "R2") document node 0, whose only *)
(* child is the root element; node 0 itself is never part of a result (spec/Paths.tla, Root)          *)
Root == /\ depth = 0 /\ cur = {1} /\ curP = {1}
        /\ cur' = {0} /\ curP' = {0}
        /\ UNCHANGED <<parent, kind, pid, depth>>

Next == (\E ax \in Axes, t \in Tests : Step(ax, t)) \/ Root
Spec == Init /\ [][Next]_vars

TreeOK ==   \* the flattened instance is a tree of the XDM universe
  /\ parent[1] = 0
  /\ \A i \in 2..N : parent[i] >= 1 /\ parent[i] < i /\ (parent[i] = i-1 \/ parent[i] \in AncP(parent, i-1))
  /\ ValidKinds(parent, kind)
SelLaws == /\ curP \subseteq cur
           /\ curP \cap Dflt = {}
           /\ cur \ curP \subseteq (Dflt \cup UNION {Anc(d) \cup {d} : d \in Dflt}
                                    \cup UNION {AxisSet("following", d) \cup AxisSet("preceding", d) : d \in Dflt})
           /\ Dflt = {} => cur = curP
Inv == SelLaws /\ (depth = 0 => TreeOK /\ XDMLaws /\ PairLaws(PairSeq[pid].s, PairSeq[pid].inst))
ASSUME StaticLaws
=============================================================================
