--------------------------- MODULE CalendarSweep ---------------------------
(***************************************************************************)
(* Day-by-day sweep that validates Calendar.tla (property C11).            *)
(* One state per day number n of the configured windows; civ is the civil  *)
(* date the closed form assigns to it (kept in the state so that the       *)
(* dumped graph can be cross-checked against python datetime.date for the  *)
(* years 1..9999).  There are no transitions: the laws are inductive       *)
(* (CivilFromDays(n+1) = Succ(CivilFromDays(n)) with the anchor            *)
(* CivilFromDays(0) = 0001-01-01), so checking them on every n of a window *)
(* that contains day 0 proves "closed form = odometer" on that window      *)
(* without a 585 000-deep behaviour.  Windows that do not contain day 0    *)
(* are anchored by Ordinal (the classical count), an independent formula.  *)
(***************************************************************************)
EXTENDS Calendar

CONSTANT Sweep        \* "quick" | "thorough"

VARIABLES n, civ
vars == <<n, civ>>

(* windows are <<first year, last year>>, astronomical numbering *)
Around(y)  == {<<y - 1, y + 1>>, <<-y - 1, -y + 1>>}
FarWindows == Around(9900) \cup Around(10000) \cup Around(10100) \cup Around(399900) \cup Around(400000)
              \cup Around(400100) \cup Around(4999900) \cup {<<4999998, 4999999>>, <<-4999999, -4999998>>}
QuickWindows    == {<<-5, 5>>, <<395, 405>>, <<1895, 2005>>} \cup FarWindows
ThoroughWindows == {<<-801, 801>>, <<1500, 2100>>, <<9590, 10010>>, <<-10010, -9590>>,
                    <<399990, 400400>>, <<-400400, -399990>>} \cup FarWindows
Windows == IF Sweep = "quick" THEN QuickWindows ELSE ThoroughWindows

Init == /\ \E w \in Windows : n \in DaysFromCivil(w[1], 1, 1) .. DaysFromCivil(w[2], 12, 31)
        /\ civ = CivilFromDays(n)
Next == UNCHANGED vars
Spec == Init /\ [][Next]_vars

SweepLaws ==
  /\ ValidCivil(civ)
  /\ DaysFromCivil(civ[1], civ[2], civ[3]) = n                 \* offset -> civil -> offset is the identity
  /\ Ordinal(civ[1], civ[2], civ[3]) = n                       \* closed form = classical count
  /\ CivilFromDays(n + 1) = Succ(civ)                          \* closed form = odometer (induction step)
  /\ CivilFromDays(n - 1) = Pred(civ)
  /\ (n = 0 => civ = <<1, 1, 1>>)                              \* anchor
  /\ (civ[2] = 1 /\ civ[3] = 1) => DaysFromCivil(civ[1] + 1, 1, 1) - n = DaysInYear(civ[1])
  /\ (civ[2] = 3 /\ civ[3] = 1) => CivilFromDays(n - 1) = <<civ[1], 2, IF IsLeap(civ[1]) THEN 29 ELSE 28>>
  /\ \A x \in XsdVersions :
       /\ ValidLexYear(x, Lex(x, civ[1]))
       /\ Astro(x, Lex(x, civ[1])) = civ[1]
       /\ Lex(x, civ[1] + 1) > Lex(x, civ[1])
  /\ Lex("10", 0) = -1 /\ Lex("10", 1) = 1 /\ Lex("11", 0) = 0 /\ Astro("10", -1) = 0
  /\ civ[1] \in -MaxAbsYear..MaxAbsYear
=============================================================================
