--------------------------- MODULE SelectorHistory ---------------------------
(***************************************************************************)
(* One parsed expression (a Selector, or a token tree) evaluated repeatedly *)
(* over a pool of dynamic contexts, in any order and multiplicity (C05).   *)
(*                                                                         *)
(* The specified result of an evaluation depends on the expression and on  *)
(* the context of THAT evaluation only: it equals what a freshly parsed    *)
(* expression returns on a fresh context.  Abstractly the expected output  *)
(* of Evaluate(c) is the label c itself ("the fresh result for c"); the    *)
(* harness projects each real output to the set of contexts whose fresh    *)
(* output it equals.  `hist` is the history of uses - the state the        *)
(* implementation must NOT have (caches on tokens, variables stored on     *)
(* inline-function tokens, tzinfo written into caller values...).          *)
(* The caller-visible inputs of every context (document text, variable     *)
(* values, namespace map) are part of the state and no action changes them.*)
(***************************************************************************)
EXTENDS Naturals, Sequences

CONSTANTS Contexts, MaxLen
VARIABLES hist, out, inputs
vars == <<hist, out, inputs>>

Init == hist = <<>> /\ out = "none" /\ inputs = [c \in Contexts |-> "pristine"]
Evaluate(c) == /\ Len(hist) < MaxLen
               /\ hist' = Append(hist, c)
               /\ out' = c
               /\ UNCHANGED inputs
Next == \E c \in Contexts : Evaluate(c)
Spec == Init /\ [][Next]_vars

(* the output is a function of the last context only *)
OutputIsFresh == hist # <<>> => out = hist[Len(hist)]
Pure == \A c \in Contexts : inputs[c] = "pristine"
InputsNeverChange == [][inputs' = inputs]_vars
=============================================================================
